import ApolloModel.Proofs.ParserRecursion29
/-
C04 growth (closed form of the nesting depth), part 30: the judgement `GD` for value.rs, ty.rs, selection.rs
(guard sites: `SELECTION_SET`, `LIST_TYPE` nodes), every definition parser and `document()`.
-/
set_option linter.unusedSimpArgs false
set_option linter.unusedVariables false
namespace Apollo.Parse
open Apollo.Rowan hiding Str
open Apollo.Lex hiding Str

theorem gd_variableNode : GD variableNode := by unfold variableNode; gd_auto
macro_rules | `(tactic| gd_leaf) => `(tactic| exact gd_variableNode)
theorem gd_enumValue : GD enumValue := by unfold enumValue; gd_auto
macro_rules | `(tactic| gd_leaf) => `(tactic| exact gd_enumValue)
theorem gd_namedType : GD namedType := by unfold namedType; gd_auto
macro_rules | `(tactic| gd_leaf) => `(tactic| exact gd_namedType)
theorem gd_alias : GD alias := by unfold alias; gd_auto
macro_rules | `(tactic| gd_leaf) => `(tactic| exact gd_alias)
theorem gd_fragmentName : GD fragmentName := by unfold fragmentName; gd_auto
macro_rules | `(tactic| gd_leaf) => `(tactic| exact gd_fragmentName)
theorem gd_typeCondition : GD typeCondition := by unfold typeCondition; gd_auto
macro_rules | `(tactic| gd_leaf) => `(tactic| exact gd_typeCondition)

/-! ### value.rs -/

structure DAll (n : Nat) : Prop where
  value : ∀ c p, GD (value n c p)
  list : ∀ c, GD (listValue n c)
  obj : ∀ c, GD (objectValue n c)
  field : ∀ c, GD (objectField n c)
  node : ∀ c, N1 (Parse.value n c true)

theorem gd_valueErr (p : Bool) : GD (valueErr p) := by unfold valueErr; gd_auto
theorem gd_nameValueBranch (o : Option Tok) : GD (nameValueBranch o) := by
  cases o with
  | none => exact gd_pure _
  | some t => unfold nameValueBranch; gd_auto
theorem gd_variableBranch (c p : Bool) : GD (variableBranch c p) := by
  have := gd_valueErr p
  unfold variableBranch; gd_auto

theorem dAll : ∀ n, DAll n
  | 0 => ⟨fun _ _ => by simp only [value]; exact gd_outOfFuel, fun _ => by simp only [listValue]; exact gd_outOfFuel,
      fun _ => by simp only [objectValue]; exact gd_outOfFuel, fun _ => by simp only [objectField]; exact gd_outOfFuel,
      fun _ s a s' _ _ _ h => by simp [value, PI.outOfFuel] at h⟩
  | n + 1 => by
    obtain ⟨iv, il, io, ifd, inn⟩ := dAll n
    refine ⟨?_, ?_, ?_, ?_, fun c => n1_value n c⟩
    · intro c p
      rw [value_succ]
      refine gd_bind _ _ gd_peek ?_
      intro k
      cases k with
      | none => exact gd_valueErr p
      | some k =>
        cases k <;> first
          | exact gd_valueErr p
          | exact gd_variableBranch c p
          | exact gd_withNode' _ _ (by decide) (gd_bump _)
          | exact gd_bind _ _ gd_peekToken gd_nameValueBranch
          | exact il c
          | exact io c
    · intro c
      exact gd_listValue_succ n c (iv c true) (inn c)
    · intro c
      rw [objectValue_succ]
      exact gd_withNode' _ _ (by decide) (gd_bind _ _ (gd_bump _) (fun _ => gd_bind _ _ (gd_peekWhileKind _ _ (ifd c)) (fun _ => gd_expect _ _)))
    · intro c
      exact gd_objectField_succ n c (iv c true)

theorem gd_value (n : Nat) (c p : Bool) : GD (value n c p) := (dAll n).value c p
macro_rules | `(tactic| gd_leaf) => `(tactic| exact gd_value _ _ _)

theorem gd_argument (n : Nat) (c : Bool) : GD (argument n c) := by rw [argument_eq]; unfold argumentTail; gd_auto
macro_rules | `(tactic| gd_leaf) => `(tactic| exact gd_argument _ _)
theorem gd_arguments (n : Nat) (c : Bool) : GD (arguments n c) := by rw [arguments_eq]; unfold argumentsFirst argumentsRest; gd_auto
macro_rules | `(tactic| gd_leaf) => `(tactic| exact gd_arguments _ _)
theorem gd_directive (n : Nat) (c : Bool) : GD (directive n c) := by rw [directive_eq]; unfold directiveTail; gd_auto
macro_rules | `(tactic| gd_leaf) => `(tactic| exact gd_directive _ _)
theorem gd_directives (n : Nat) (c : Bool) : GD (directives n c) := by unfold directives; gd_auto
macro_rules | `(tactic| gd_leaf) => `(tactic| exact gd_directives _ _)
theorem gd_fragmentSpread (n : Nat) : GD (fragmentSpread n) := by unfold fragmentSpread; gd_auto
macro_rules | `(tactic| gd_leaf) => `(tactic| exact gd_fragmentSpread _)

/-! ### ty.rs -/

theorem gd_tyCond (r : TyRes) : GD (tyCond r) := by
  cases r <;> (unfold tyCond; gd_auto)

theorem gd1_tyListBody (n : Nat) (ih : GD (tyParse n)) : GD1 (tyListBody n) := by
  unfold tyListBody
  have jp : GD (expect .rBracket "R_BRACK" >>= fun _ => (pure TyRes.ok : PI TyRes)) :=
    gd_bind _ _ (gd_expect _ _) (fun _ => gd_pure _)
  have jf : FL (expect .rBracket "R_BRACK" >>= fun _ => (pure TyRes.ok : PI TyRes)) :=
    fl_bind _ _ (fl_expect _ _) (fun _ => fl_pure _)
  refine gd1_bind_left _ _ (gd_bump _) (fl_bump _) (fun _ => gd1_bind_right _ _
    (gd1_withRec _ _ (gw_bind_pure _) (gd_bind _ _ ih (fun _ => gd_pure _))) ?_ ?_)
  · intro inner
    cases inner with
    | none => exact gd_pure _
    | some res =>
      cases res with
      | errTok t => exact gd_bind _ _ (gd_errAtToken t) (fun _ => jp)
      | ok => exact jp
      | early => exact jp
      | errNone => exact jp
  · intro inner
    cases inner with
    | none => exact fl_pure _
    | some res =>
      cases res with
      | errTok t => exact fl_bind _ _ (fl_errAtToken t) (fun _ => jf)
      | ok => exact jf
      | early => exact jf
      | errNone => exact jf

theorem gd_tyBody (n : Nat) (ih : GD (tyParse n)) : GD (tyBody n) := by
  unfold tyBody
  refine gd_bind _ _ gd_peek ?_
  intro k
  cases k with
  | none => exact gd_pure _
  | some k =>
    cases k <;> first
      | exact gd_withNode_guard _ _ (Or.inr rfl) gd_skipIgnored (gd1_tyListBody n ih)
      | exact gd_withNode' _ _ (by decide) (gd_withNode' _ _ (by decide) (gd_bind _ _ (gd_eat _) (fun _ => gd_pure _)))
      | (refine gd_bind _ _ (gd_popDrop) ?_
         intro o
         cases o <;> exact gd_pure _)

theorem gd_tyParse : ∀ n, GD (tyParse n)
  | 0 => by unfold tyParse; exact gd_outOfFuel
  | n + 1 => by
    have ih := gd_tyParse n
    rw [tyParse_succ]
    refine gd_bind _ _ (gd_wrapIf _ _ _ _ (by decide) (gd_tyBody n ih) gd_tyCond (gd_eat _)) (fun r => ?_)
    cases r with
    | ok => exact gd_bind _ _ gd_skipIgnored (fun _ => gd_pure _)
    | early => exact gd_bind (pure ()) _ (gd_pure ()) (fun _ => gd_pure _)
    | errTok t => exact gd_bind (pure ()) _ (gd_pure ()) (fun _ => gd_pure _)
    | errNone => exact gd_bind (pure ()) _ (gd_pure ()) (fun _ => gd_pure _)

theorem gd_ty (n : Nat) : GD (ty n) := by
  have := gd_tyParse n
  unfold ty
  gd_auto
macro_rules | `(tactic| gd_leaf) => `(tactic| exact gd_ty _)

/-! ### selection.rs -/

structure DSel (n : Nat) : Prop where
  selSet : GD (selectionSet n)
  sel : GD (selection n)
  field : GD (field n)
  inline : GD (inlineFragment n)

theorem gd1_selSetBody (n : Nat) (hsel : GD (selection n)) : GD1 (selSetBody n) := by
  unfold selSetBody
  exact gd1_bind_left _ _ (gd_bump _) (fl_bump _) (fun _ => gd1_bind_right _ _
    (gd1_withRec _ _ (gw_bind_pure _) (gd_bind _ _ hsel (fun _ => gd_pure _)))
    (fun ok => gd_ite _ _ _ (gd_expect _ _) (gd_pure _)) (fun ok => fl_ite _ _ _ (fl_expect _ _) (fl_pure _)))

theorem dSel : ∀ n, DSel n
  | 0 => ⟨by unfold selectionSet; exact gd_outOfFuel, by unfold selection; exact gd_outOfFuel,
          by unfold field; exact gd_outOfFuel, by unfold inlineFragment; exact gd_outOfFuel⟩
  | n + 1 => by
    obtain ⟨i1, i2, i3, i4⟩ := dSel n
    have hs : GD (withNode "SELECTION_SET" (selSetBody n)) :=
      gd_withNode_guard _ _ (Or.inl rfl) gd_skipIgnored (gd1_selSetBody n i2)
    refine ⟨?_, ?_, ?_, ?_⟩
    · rw [selectionSet_succ]; gd_auto
    · rw [selection_succ]; unfold selBody; gd_auto
    · rw [field_succ]; unfold fieldBody; gd_auto
    · rw [inlineFragment_succ]; unfold inlineBody; gd_auto

theorem gd_selectionSet (n : Nat) : GD (selectionSet n) := (dSel n).selSet
macro_rules | `(tactic| gd_leaf) => `(tactic| exact gd_selectionSet _)
theorem gd_selection (n : Nat) : GD (selection n) := (dSel n).sel
macro_rules | `(tactic| gd_leaf) => `(tactic| exact gd_selection _)

theorem gd_fieldSet (n : Nat) : GD (fieldSet n) := by
  have h1 : GD (withNode "SELECTION_SET" (withRec limitErr (selection n))) :=
    gd_withNode_guard _ _ (Or.inl rfl) gd_skipIgnored (gd1_withRec _ _ gw_limitErr (gd_selection n))
  unfold fieldSet; gd_auto
theorem gd_expectEndOfInput : GD expectEndOfInput := by unfold expectEndOfInput errUnlessEnd; gd_auto

/-! ### definitions, `document()` -/

theorem gd_description : GD description := by unfold description; gd_auto
macro_rules | `(tactic| gd_leaf) => `(tactic| exact gd_description)

theorem gd_operationType : GD operationType := by unfold operationType; gd_auto
macro_rules | `(tactic| gd_leaf) => `(tactic| exact gd_operationType)

theorem gd_defaultValue (n : Nat) : GD (defaultValue n) := by unfold defaultValue; gd_auto
macro_rules | `(tactic| gd_leaf) => `(tactic| exact gd_defaultValue _)

theorem gd_inputValueDefinition (n : Nat) : GD (inputValueDefinition n) := by unfold inputValueDefinition; gd_auto
macro_rules | `(tactic| gd_leaf) => `(tactic| exact gd_inputValueDefinition _)

theorem gd_variableDefinition (n : Nat) : GD (variableDefinition n) := by unfold variableDefinition; gd_auto
macro_rules | `(tactic| gd_leaf) => `(tactic| exact gd_variableDefinition _)

theorem gd_variableDefinitions (n : Nat) : GD (variableDefinitions n) := by unfold variableDefinitions; gd_auto
macro_rules | `(tactic| gd_leaf) => `(tactic| exact gd_variableDefinitions _)

theorem gd_argumentsDefinitionBody (n : Nat) : GD (argumentsDefinitionBody n) := by unfold argumentsDefinitionBody isNameOrString; gd_auto
macro_rules | `(tactic| gd_leaf) => `(tactic| exact gd_argumentsDefinitionBody _)

theorem gd_argumentsDefinition (n : Nat) : GD (argumentsDefinition n) := by unfold argumentsDefinition; gd_auto
macro_rules | `(tactic| gd_leaf) => `(tactic| exact gd_argumentsDefinition _)

theorem gd_fragmentDefinition (n : Nat) : GD (fragmentDefinition n) := by unfold fragmentDefinition; gd_auto
macro_rules | `(tactic| gd_leaf) => `(tactic| exact gd_fragmentDefinition _)

theorem gd_operationDefinition (n : Nat) : GD (operationDefinition n) := by unfold operationDefinition; gd_auto
macro_rules | `(tactic| gd_leaf) => `(tactic| exact gd_operationDefinition _)

theorem gd_fieldDefinition (n : Nat) : GD (fieldDefinition n) := by unfold fieldDefinition; gd_auto
macro_rules | `(tactic| gd_leaf) => `(tactic| exact gd_fieldDefinition _)

theorem gd_fieldsDefinition (n : Nat) : GD (fieldsDefinition n) := by unfold fieldsDefinition isNameOrString; gd_auto
macro_rules | `(tactic| gd_leaf) => `(tactic| exact gd_fieldsDefinition _)

theorem gd_rootOperationTypeDefinition : GD rootOperationTypeDefinition := by unfold rootOperationTypeDefinition; gd_auto
macro_rules | `(tactic| gd_leaf) => `(tactic| exact gd_rootOperationTypeDefinition)

theorem gd_schemaDefinition (n : Nat) : GD (schemaDefinition n) := by unfold schemaDefinition; gd_auto
macro_rules | `(tactic| gd_leaf) => `(tactic| exact gd_schemaDefinition _)

theorem gd_schemaExtension (n : Nat) : GD (schemaExtension n) := by unfold schemaExtension; gd_auto
macro_rules | `(tactic| gd_leaf) => `(tactic| exact gd_schemaExtension _)

theorem gd_nameOrErr : GD nameOrErr := by unfold nameOrErr; gd_auto
macro_rules | `(tactic| gd_leaf) => `(tactic| exact gd_nameOrErr)

theorem gd_scalarTypeDefinition (n : Nat) : GD (scalarTypeDefinition n) := by unfold scalarTypeDefinition; gd_auto
macro_rules | `(tactic| gd_leaf) => `(tactic| exact gd_scalarTypeDefinition _)

theorem gd_scalarTypeExtension (n : Nat) : GD (scalarTypeExtension n) := by unfold scalarTypeExtension; gd_auto
macro_rules | `(tactic| gd_leaf) => `(tactic| exact gd_scalarTypeExtension _)

theorem gd_implementsInterfaces : GD implementsInterfaces := by unfold implementsInterfaces; gd_auto
macro_rules | `(tactic| gd_leaf) => `(tactic| exact gd_implementsInterfaces)

theorem gd_objectTypeDefinition (n : Nat) : GD (objectTypeDefinition n) := by unfold objectTypeDefinition; gd_auto
macro_rules | `(tactic| gd_leaf) => `(tactic| exact gd_objectTypeDefinition _)

theorem gd_objectTypeExtension (n : Nat) : GD (objectTypeExtension n) := by unfold objectTypeExtension; gd_auto
macro_rules | `(tactic| gd_leaf) => `(tactic| exact gd_objectTypeExtension _)

theorem gd_interfaceTypeDefinition (n : Nat) : GD (interfaceTypeDefinition n) := by unfold interfaceTypeDefinition; gd_auto
macro_rules | `(tactic| gd_leaf) => `(tactic| exact gd_interfaceTypeDefinition _)

theorem gd_interfaceTypeExtension (n : Nat) : GD (interfaceTypeExtension n) := by unfold interfaceTypeExtension; gd_auto
macro_rules | `(tactic| gd_leaf) => `(tactic| exact gd_interfaceTypeExtension _)

theorem gd_unionMemberTypes : GD unionMemberTypes := by unfold unionMemberTypes; gd_auto
macro_rules | `(tactic| gd_leaf) => `(tactic| exact gd_unionMemberTypes)

theorem gd_unionTypeDefinition (n : Nat) : GD (unionTypeDefinition n) := by unfold unionTypeDefinition; gd_auto
macro_rules | `(tactic| gd_leaf) => `(tactic| exact gd_unionTypeDefinition _)

theorem gd_unionTypeExtension (n : Nat) : GD (unionTypeExtension n) := by unfold unionTypeExtension; gd_auto
macro_rules | `(tactic| gd_leaf) => `(tactic| exact gd_unionTypeExtension _)

theorem gd_enumValueDefinition (n : Nat) : GD (enumValueDefinition n) := by unfold enumValueDefinition isNameOrString; gd_auto
macro_rules | `(tactic| gd_leaf) => `(tactic| exact gd_enumValueDefinition _)

theorem gd_enumValuesDefinition (n : Nat) : GD (enumValuesDefinition n) := by unfold enumValuesDefinition isNameOrString; gd_auto
macro_rules | `(tactic| gd_leaf) => `(tactic| exact gd_enumValuesDefinition _)

theorem gd_enumTypeDefinition (n : Nat) : GD (enumTypeDefinition n) := by unfold enumTypeDefinition; gd_auto
macro_rules | `(tactic| gd_leaf) => `(tactic| exact gd_enumTypeDefinition _)

theorem gd_enumTypeExtension (n : Nat) : GD (enumTypeExtension n) := by unfold enumTypeExtension; gd_auto
macro_rules | `(tactic| gd_leaf) => `(tactic| exact gd_enumTypeExtension _)

theorem gd_inputFieldsDefinition (n : Nat) : GD (inputFieldsDefinition n) := by unfold inputFieldsDefinition isNameOrString; gd_auto
macro_rules | `(tactic| gd_leaf) => `(tactic| exact gd_inputFieldsDefinition _)

theorem gd_inputObjectTypeDefinition (n : Nat) : GD (inputObjectTypeDefinition n) := by unfold inputObjectTypeDefinition; gd_auto
macro_rules | `(tactic| gd_leaf) => `(tactic| exact gd_inputObjectTypeDefinition _)

theorem gd_inputObjectTypeExtension (n : Nat) : GD (inputObjectTypeExtension n) := by unfold inputObjectTypeExtension; gd_auto
macro_rules | `(tactic| gd_leaf) => `(tactic| exact gd_inputObjectTypeExtension _)

theorem gd_directiveLocation : GD directiveLocation := by unfold directiveLocation; gd_auto
macro_rules | `(tactic| gd_leaf) => `(tactic| exact gd_directiveLocation)

theorem gd_directiveLocations : GD directiveLocations := by unfold directiveLocations; gd_auto
macro_rules | `(tactic| gd_leaf) => `(tactic| exact gd_directiveLocations)

theorem gd_directiveDefinition (n : Nat) : GD (directiveDefinition n) := by unfold directiveDefinition; gd_auto
macro_rules | `(tactic| gd_leaf) => `(tactic| exact gd_directiveDefinition _)

theorem gd_extensions (n : Nat) : GD (extensions n) := by unfold extensions; gd_auto
macro_rules | `(tactic| gd_leaf) => `(tactic| exact gd_extensions _)

theorem gd_selectDefinition (n : Nat) (d : Str) : GD (selectDefinition n d) := by unfold selectDefinition; gd_auto
macro_rules | `(tactic| gd_leaf) => `(tactic| exact gd_selectDefinition _ _)

theorem gd_documentDispatch (n : Nat) (k : Kind) : GD (documentDispatch n k) := by unfold documentDispatch; gd_auto
macro_rules | `(tactic| gd_leaf) => `(tactic| exact gd_documentDispatch _ _)

theorem gd_documentStep (n : Nat) (k : Kind) : GD (documentStep n k) := by unfold documentStep; gd_auto
macro_rules | `(tactic| gd_leaf) => `(tactic| exact gd_documentStep _ _)


theorem gd_documentBody (n : Nat) : GD (documentBody n) := by unfold documentBody errIfEmpty; gd_auto

theorem gd_document (n : Nat) : GD (document n) := by unfold document; exact gd_withNode' _ _ (by decide) (gd_documentBody n)

theorem gd_entry (e : Entry) (n : Nat) : GD (e.grammar n) := by
  cases e with
  | document => exact gd_document n
  | selectionSet => exact gd_bind _ _ (gd_fieldSet n) (fun _ => gd_expectEndOfInput)
  | type => exact gd_bind _ _ (gd_ty n) (fun _ => gd_expectEndOfInput)

end Apollo.Parse
