import ApolloModel.Proofs.ParserRecursion22
/-
C04 growth (token limit at the parser level), part 23: the invariant pass (`Keeps P`) for value.rs, ty.rs,
selection.rs, every definition parser, `document()` and the entry points.
-/
set_option linter.unusedSimpArgs false
set_option linter.unusedVariables false
namespace Apollo.Parse
open Apollo.Rowan hiding Str
open Apollo.Lex hiding Str

variable {P : PState → Prop} [StInv P]

theorem kp_variableNode : Keeps P variableNode := by unfold variableNode; kp_auto
macro_rules | `(tactic| kp_leaf) => `(tactic| exact kp_variableNode)
theorem kp_enumValue : Keeps P enumValue := by unfold enumValue; kp_auto
macro_rules | `(tactic| kp_leaf) => `(tactic| exact kp_enumValue)
theorem kp_namedType : Keeps P namedType := by unfold namedType; kp_auto
macro_rules | `(tactic| kp_leaf) => `(tactic| exact kp_namedType)
theorem kp_alias : Keeps P alias := by unfold alias; kp_auto
macro_rules | `(tactic| kp_leaf) => `(tactic| exact kp_alias)
theorem kp_fragmentName : Keeps P fragmentName := by unfold fragmentName; kp_auto
macro_rules | `(tactic| kp_leaf) => `(tactic| exact kp_fragmentName)
theorem kp_typeCondition : Keeps P typeCondition := by unfold typeCondition; kp_auto
macro_rules | `(tactic| kp_leaf) => `(tactic| exact kp_typeCondition)

/-! ### value.rs -/

structure KAll (P : PState → Prop) (n : Nat) : Prop where
  value : ∀ c p, Keeps P (value n c p)
  list : ∀ c, Keeps P (listValue n c)
  obj : ∀ c, Keeps P (objectValue n c)
  field : ∀ c, Keeps P (objectField n c)

theorem kp_valueErr (p : Bool) : Keeps P (valueErr p) := by unfold valueErr; kp_auto
theorem kp_nameValueBranch (o : Option Tok) : Keeps P (nameValueBranch o) := by
  cases o with
  | none => exact kp_pure _
  | some t => unfold nameValueBranch; kp_auto
theorem kp_variableBranch (c p : Bool) : Keeps P (variableBranch c p) := by
  have := kp_valueErr (P := P) p
  unfold variableBranch; kp_auto

theorem kp_listLoopBody (n : Nat) (c : Bool) (iv : ∀ c p, Keeps P (value n c p)) (k : Kind) : Keeps P (listLoopBody n c k) := by
  unfold listLoopBody; kp_auto

theorem kp_objectFieldTail (n : Nat) (c : Bool) (iv : ∀ c p, Keeps P (value n c p)) (k : Option Kind) : Keeps P (objectFieldTail n c k) := by
  unfold objectFieldTail; kp_auto

theorem kAll : ∀ n, KAll P n
  | 0 => ⟨fun _ _ => by simp only [value]; exact kp_outOfFuel, fun _ => by simp only [listValue]; exact kp_outOfFuel,
      fun _ => by simp only [objectValue]; exact kp_outOfFuel, fun _ => by simp only [objectField]; exact kp_outOfFuel⟩
  | n + 1 => by
    obtain ⟨iv, il, io, ifd⟩ := kAll n
    refine ⟨?_, ?_, ?_, ?_⟩
    · intro c p
      rw [value_succ]
      refine kp_bind _ _ kp_peek ?_
      intro k
      cases k with
      | none => exact kp_valueErr p
      | some k =>
        cases k <;> first
          | exact kp_valueErr p
          | exact kp_variableBranch c p
          | exact kp_withNode' _ _ (kp_bump _)
          | exact kp_bind _ _ (kp_peekToken) kp_nameValueBranch
          | exact il c
          | exact io c
    · intro c
      rw [listValue_succ]
      exact kp_withNode' _ _ (kp_bind _ _ (kp_bump _) (fun _ => kp_peekWhile _ (kp_listLoopBody n c iv)))
    · intro c
      rw [objectValue_succ]
      exact kp_withNode' _ _ (kp_bind _ _ (kp_bump _) (fun _ => kp_bind _ _ (kp_peekWhileKind _ _ (ifd c)) (fun _ => kp_expect _ _)))
    · intro c
      rw [objectField_succ]
      exact kp_withNode' _ _ (kp_bind _ _ kp_name (fun _ => kp_bind _ _ kp_peek (kp_objectFieldTail n c iv)))

theorem kp_value (n : Nat) (c p : Bool) : Keeps P (value n c p) := (kAll n).value c p
macro_rules | `(tactic| kp_leaf) => `(tactic| exact kp_value _ _ _)

theorem kp_argument (n : Nat) (c : Bool) : Keeps P (argument n c) := by rw [argument_eq]; unfold argumentTail; kp_auto
macro_rules | `(tactic| kp_leaf) => `(tactic| exact kp_argument _ _)
theorem kp_arguments (n : Nat) (c : Bool) : Keeps P (arguments n c) := by rw [arguments_eq]; unfold argumentsFirst argumentsRest; kp_auto
macro_rules | `(tactic| kp_leaf) => `(tactic| exact kp_arguments _ _)
theorem kp_directive (n : Nat) (c : Bool) : Keeps P (directive n c) := by rw [directive_eq]; unfold directiveTail; kp_auto
macro_rules | `(tactic| kp_leaf) => `(tactic| exact kp_directive _ _)
theorem kp_directives (n : Nat) (c : Bool) : Keeps P (directives n c) := by unfold directives; kp_auto
macro_rules | `(tactic| kp_leaf) => `(tactic| exact kp_directives _ _)
theorem kp_fragmentSpread (n : Nat) : Keeps P (fragmentSpread n) := by unfold fragmentSpread; kp_auto
macro_rules | `(tactic| kp_leaf) => `(tactic| exact kp_fragmentSpread _)

/-! ### ty.rs -/

theorem kp_tyCond (r : TyRes) : Keeps P (tyCond r) := by
  cases r <;> (unfold tyCond; kp_auto)

theorem kp_tyListBody (n : Nat) (ih : Keeps P (tyParse n)) : Keeps P (tyListBody n) := by
  unfold tyListBody
  refine kp_bind _ _ (kp_bump _) (fun _ => kp_bind _ _
    (kp_withRec _ _ (kh_bind_pure _) (kp_bind _ _ ih (fun _ => kp_pure _))) ?_)
  intro inner
  have jp : Keeps P (expect .rBracket "R_BRACK" >>= fun _ => (pure TyRes.ok : PI TyRes)) :=
    kp_bind _ _ (kp_expect _ _) (fun _ => kp_pure _)
  cases inner with
  | none => exact kp_pure _
  | some res =>
    cases res with
    | errTok t => exact kp_bind _ _ (kp_errAtToken t) (fun _ => jp)
    | ok => exact jp
    | early => exact jp
    | errNone => exact jp

theorem kp_tyBody (n : Nat) (ih : Keeps P (tyParse n)) : Keeps P (tyBody n) := by
  unfold tyBody
  refine kp_bind _ _ kp_peek ?_
  intro k
  cases k with
  | none => exact kp_pure _
  | some k =>
    cases k <;> first
      | exact kp_withNode' _ _ (kp_tyListBody n ih)
      | exact kp_withNode' _ _ (kp_withNode' _ _ (kp_bind _ _ (kp_eat _) (fun _ => kp_pure _)))
      | (refine kp_bind _ _ (kp_popDrop) ?_
         intro o
         cases o <;> exact kp_pure _)

theorem kp_tyParse : ∀ n, Keeps P (tyParse n)
  | 0 => by unfold tyParse; exact kp_outOfFuel
  | n + 1 => by
    have ih := kp_tyParse n
    rw [tyParse_succ]
    refine kp_bind _ _ (kp_wrapIf _ _ _ _ (kp_tyBody n ih) kp_tyCond (kp_eat _)) (fun r => ?_)
    cases r with
    | ok => exact kp_bind _ _ kp_skipIgnored (fun _ => kp_pure _)
    | early => exact kp_bind (pure ()) _ (kp_pure ()) (fun _ => kp_pure _)
    | errTok t => exact kp_bind (pure ()) _ (kp_pure ()) (fun _ => kp_pure _)
    | errNone => exact kp_bind (pure ()) _ (kp_pure ()) (fun _ => kp_pure _)

theorem kp_ty (n : Nat) : Keeps P (ty n) := by
  have := kp_tyParse (P := P) n
  unfold ty
  kp_auto
macro_rules | `(tactic| kp_leaf) => `(tactic| exact kp_ty _)

/-! ### selection.rs -/

structure KSel (P : PState → Prop) (n : Nat) : Prop where
  selSet : Keeps P (selectionSet n)
  sel : Keeps P (selection n)
  field : Keeps P (field n)
  inline : Keeps P (inlineFragment n)

theorem kSel : ∀ n, KSel P n
  | 0 => ⟨by unfold selectionSet; exact kp_outOfFuel, by unfold selection; exact kp_outOfFuel,
          by unfold field; exact kp_outOfFuel, by unfold inlineFragment; exact kp_outOfFuel⟩
  | n + 1 => by
    obtain ⟨i1, i2, i3, i4⟩ := kSel n
    refine ⟨?_, ?_, ?_, ?_⟩
    · rw [selectionSet_succ]; unfold selSetBody; kp_auto
    · rw [selection_succ]; unfold selBody; kp_auto
    · rw [field_succ]; unfold fieldBody; kp_auto
    · rw [inlineFragment_succ]; unfold inlineBody; kp_auto

theorem kp_selectionSet (n : Nat) : Keeps P (selectionSet n) := (kSel n).selSet
macro_rules | `(tactic| kp_leaf) => `(tactic| exact kp_selectionSet _)
theorem kp_selection (n : Nat) : Keeps P (selection n) := (kSel n).sel
macro_rules | `(tactic| kp_leaf) => `(tactic| exact kp_selection _)

theorem kp_fieldSet (n : Nat) : Keeps P (fieldSet n) := by unfold fieldSet; kp_auto
theorem kp_expectEndOfInput : Keeps P expectEndOfInput := by unfold expectEndOfInput errUnlessEnd; kp_auto

/-! ### definitions, `document()` -/

theorem kp_description : Keeps P description := by unfold description; kp_auto
macro_rules | `(tactic| kp_leaf) => `(tactic| exact kp_description)

theorem kp_operationType : Keeps P operationType := by unfold operationType; kp_auto
macro_rules | `(tactic| kp_leaf) => `(tactic| exact kp_operationType)

theorem kp_defaultValue (n : Nat) : Keeps P (defaultValue n) := by unfold defaultValue; kp_auto
macro_rules | `(tactic| kp_leaf) => `(tactic| exact kp_defaultValue _)

theorem kp_inputValueDefinition (n : Nat) : Keeps P (inputValueDefinition n) := by unfold inputValueDefinition; kp_auto
macro_rules | `(tactic| kp_leaf) => `(tactic| exact kp_inputValueDefinition _)

theorem kp_variableDefinition (n : Nat) : Keeps P (variableDefinition n) := by unfold variableDefinition; kp_auto
macro_rules | `(tactic| kp_leaf) => `(tactic| exact kp_variableDefinition _)

theorem kp_variableDefinitions (n : Nat) : Keeps P (variableDefinitions n) := by unfold variableDefinitions; kp_auto
macro_rules | `(tactic| kp_leaf) => `(tactic| exact kp_variableDefinitions _)

theorem kp_argumentsDefinitionBody (n : Nat) : Keeps P (argumentsDefinitionBody n) := by unfold argumentsDefinitionBody isNameOrString; kp_auto
macro_rules | `(tactic| kp_leaf) => `(tactic| exact kp_argumentsDefinitionBody _)

theorem kp_argumentsDefinition (n : Nat) : Keeps P (argumentsDefinition n) := by unfold argumentsDefinition; kp_auto
macro_rules | `(tactic| kp_leaf) => `(tactic| exact kp_argumentsDefinition _)

theorem kp_fragmentDefinition (n : Nat) : Keeps P (fragmentDefinition n) := by unfold fragmentDefinition; kp_auto
macro_rules | `(tactic| kp_leaf) => `(tactic| exact kp_fragmentDefinition _)

theorem kp_operationDefinition (n : Nat) : Keeps P (operationDefinition n) := by unfold operationDefinition; kp_auto
macro_rules | `(tactic| kp_leaf) => `(tactic| exact kp_operationDefinition _)

theorem kp_fieldDefinition (n : Nat) : Keeps P (fieldDefinition n) := by unfold fieldDefinition; kp_auto
macro_rules | `(tactic| kp_leaf) => `(tactic| exact kp_fieldDefinition _)

theorem kp_fieldsDefinition (n : Nat) : Keeps P (fieldsDefinition n) := by unfold fieldsDefinition isNameOrString; kp_auto
macro_rules | `(tactic| kp_leaf) => `(tactic| exact kp_fieldsDefinition _)

theorem kp_rootOperationTypeDefinition : Keeps P rootOperationTypeDefinition := by unfold rootOperationTypeDefinition; kp_auto
macro_rules | `(tactic| kp_leaf) => `(tactic| exact kp_rootOperationTypeDefinition)

theorem kp_schemaDefinition (n : Nat) : Keeps P (schemaDefinition n) := by unfold schemaDefinition; kp_auto
macro_rules | `(tactic| kp_leaf) => `(tactic| exact kp_schemaDefinition _)

theorem kp_schemaExtension (n : Nat) : Keeps P (schemaExtension n) := by unfold schemaExtension; kp_auto
macro_rules | `(tactic| kp_leaf) => `(tactic| exact kp_schemaExtension _)

theorem kp_nameOrErr : Keeps P nameOrErr := by unfold nameOrErr; kp_auto
macro_rules | `(tactic| kp_leaf) => `(tactic| exact kp_nameOrErr)

theorem kp_scalarTypeDefinition (n : Nat) : Keeps P (scalarTypeDefinition n) := by unfold scalarTypeDefinition; kp_auto
macro_rules | `(tactic| kp_leaf) => `(tactic| exact kp_scalarTypeDefinition _)

theorem kp_scalarTypeExtension (n : Nat) : Keeps P (scalarTypeExtension n) := by unfold scalarTypeExtension; kp_auto
macro_rules | `(tactic| kp_leaf) => `(tactic| exact kp_scalarTypeExtension _)

theorem kp_implementsInterfaces : Keeps P implementsInterfaces := by unfold implementsInterfaces; kp_auto
macro_rules | `(tactic| kp_leaf) => `(tactic| exact kp_implementsInterfaces)

theorem kp_objectTypeDefinition (n : Nat) : Keeps P (objectTypeDefinition n) := by unfold objectTypeDefinition; kp_auto
macro_rules | `(tactic| kp_leaf) => `(tactic| exact kp_objectTypeDefinition _)

theorem kp_objectTypeExtension (n : Nat) : Keeps P (objectTypeExtension n) := by unfold objectTypeExtension; kp_auto
macro_rules | `(tactic| kp_leaf) => `(tactic| exact kp_objectTypeExtension _)

theorem kp_interfaceTypeDefinition (n : Nat) : Keeps P (interfaceTypeDefinition n) := by unfold interfaceTypeDefinition; kp_auto
macro_rules | `(tactic| kp_leaf) => `(tactic| exact kp_interfaceTypeDefinition _)

theorem kp_interfaceTypeExtension (n : Nat) : Keeps P (interfaceTypeExtension n) := by unfold interfaceTypeExtension; kp_auto
macro_rules | `(tactic| kp_leaf) => `(tactic| exact kp_interfaceTypeExtension _)

theorem kp_unionMemberTypes : Keeps P unionMemberTypes := by unfold unionMemberTypes; kp_auto
macro_rules | `(tactic| kp_leaf) => `(tactic| exact kp_unionMemberTypes)

theorem kp_unionTypeDefinition (n : Nat) : Keeps P (unionTypeDefinition n) := by unfold unionTypeDefinition; kp_auto
macro_rules | `(tactic| kp_leaf) => `(tactic| exact kp_unionTypeDefinition _)

theorem kp_unionTypeExtension (n : Nat) : Keeps P (unionTypeExtension n) := by unfold unionTypeExtension; kp_auto
macro_rules | `(tactic| kp_leaf) => `(tactic| exact kp_unionTypeExtension _)

theorem kp_enumValueDefinition (n : Nat) : Keeps P (enumValueDefinition n) := by unfold enumValueDefinition isNameOrString; kp_auto
macro_rules | `(tactic| kp_leaf) => `(tactic| exact kp_enumValueDefinition _)

theorem kp_enumValuesDefinition (n : Nat) : Keeps P (enumValuesDefinition n) := by unfold enumValuesDefinition isNameOrString; kp_auto
macro_rules | `(tactic| kp_leaf) => `(tactic| exact kp_enumValuesDefinition _)

theorem kp_enumTypeDefinition (n : Nat) : Keeps P (enumTypeDefinition n) := by unfold enumTypeDefinition; kp_auto
macro_rules | `(tactic| kp_leaf) => `(tactic| exact kp_enumTypeDefinition _)

theorem kp_enumTypeExtension (n : Nat) : Keeps P (enumTypeExtension n) := by unfold enumTypeExtension; kp_auto
macro_rules | `(tactic| kp_leaf) => `(tactic| exact kp_enumTypeExtension _)

theorem kp_inputFieldsDefinition (n : Nat) : Keeps P (inputFieldsDefinition n) := by unfold inputFieldsDefinition isNameOrString; kp_auto
macro_rules | `(tactic| kp_leaf) => `(tactic| exact kp_inputFieldsDefinition _)

theorem kp_inputObjectTypeDefinition (n : Nat) : Keeps P (inputObjectTypeDefinition n) := by unfold inputObjectTypeDefinition; kp_auto
macro_rules | `(tactic| kp_leaf) => `(tactic| exact kp_inputObjectTypeDefinition _)

theorem kp_inputObjectTypeExtension (n : Nat) : Keeps P (inputObjectTypeExtension n) := by unfold inputObjectTypeExtension; kp_auto
macro_rules | `(tactic| kp_leaf) => `(tactic| exact kp_inputObjectTypeExtension _)

theorem kp_directiveLocation : Keeps P directiveLocation := by unfold directiveLocation; kp_auto
macro_rules | `(tactic| kp_leaf) => `(tactic| exact kp_directiveLocation)

theorem kp_directiveLocations : Keeps P directiveLocations := by unfold directiveLocations; kp_auto
macro_rules | `(tactic| kp_leaf) => `(tactic| exact kp_directiveLocations)

/-- the second half of `directive_definition` (from `repeatable` on), split off to keep each proof small -/
def directiveDefinitionTail : PI Unit := do
  if kwOpt "repeatable" (← peekData) then bump "repeatable_KW"
  match ← peekData with
  | some d => if kw "on" d then bump "on_KW" else err
  | none => pure ()
  let k ← peek
  if k == some .name || k == some .pipe then withNode "DIRECTIVE_LOCATIONS" directiveLocations
  else err

theorem directiveDefinition_split (n : Nat) : directiveDefinition n =
    withNode "DIRECTIVE_DEFINITION" (do
      if (← peek) == some .stringValue then description
      if kwOpt "directive" (← peekData) then bump "directive_KW"
      if (← peek) == some .at then bump "AT" else err
      name
      if (← peek) == some .lParen then withNode "ARGUMENTS_DEFINITION" (argumentsDefinitionBody n)
      directiveDefinitionTail) := rfl

theorem kp_directiveDefinitionTail : Keeps P directiveDefinitionTail := by unfold directiveDefinitionTail; kp_auto

theorem kp_directiveDefinition (n : Nat) : Keeps P (directiveDefinition n) := by
  have := kp_directiveDefinitionTail (P := P)
  rw [directiveDefinition_split]; kp_auto
macro_rules | `(tactic| kp_leaf) => `(tactic| exact kp_directiveDefinition _)

theorem kp_extensions (n : Nat) : Keeps P (extensions n) := by unfold extensions; kp_auto
macro_rules | `(tactic| kp_leaf) => `(tactic| exact kp_extensions _)

theorem kp_selectDefinition (n : Nat) (d : Str) : Keeps P (selectDefinition n d) := by unfold selectDefinition; kp_auto
macro_rules | `(tactic| kp_leaf) => `(tactic| exact kp_selectDefinition _ _)

theorem kp_documentDispatch (n : Nat) (k : Kind) : Keeps P (documentDispatch n k) := by unfold documentDispatch; kp_auto
macro_rules | `(tactic| kp_leaf) => `(tactic| exact kp_documentDispatch _ _)

theorem kp_documentStep (n : Nat) (k : Kind) : Keeps P (documentStep n k) := by unfold documentStep; kp_auto
macro_rules | `(tactic| kp_leaf) => `(tactic| exact kp_documentStep _ _)


theorem kp_documentBody (n : Nat) : Keeps P (documentBody n) := by unfold documentBody errIfEmpty; kp_auto

theorem kp_document (n : Nat) : Keeps P (document n) := by unfold document; exact kp_withNode' _ _ (kp_documentBody n)

theorem kp_entry (e : Entry) (n : Nat) : Keeps P (e.grammar n) := by
  cases e with
  | document => exact kp_document n
  | selectionSet => exact kp_bind _ _ (kp_fieldSet n) (fun _ => kp_expectEndOfInput)
  | type => exact kp_bind _ _ (kp_ty n) (fun _ => kp_expectEndOfInput)

end Apollo.Parse
