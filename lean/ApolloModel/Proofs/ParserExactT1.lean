import ApolloModel.Proofs.ParserExactS13
import ApolloModel.Proofs.ParserExactC28
/-
Exact (budget-carrying) soundness for the type-system family, part 1: the leaves — optional description,
`: Type DefaultValue? Directives?`, input value definitions, enum value definitions, field definitions.
The guards are the exact ones of ParserExactC18 / C21 / C25 (ivdFit, enumValFit, fieldFit, objFit, looseFit).
-/
set_option linter.unusedSimpArgs false
namespace Apollo.Parse.Exact
open Apollo.Rowan hiding Str
open Apollo.Lex hiding Str

/-- an optional description -/
theorem optDesc_sound (s s' : PState) (w : TW s) (he : EofEnd s)
    (h : (peek >>= fun k => if k == some Kind.stringValue then description else pure ()).run s = .ok () s') (hnd : ¬ Doomed s') :
    Cons s s' (fun x => ∃ d, x = Ast.tDescription d) := by
  have hacc : Acc (fun _ => False) (fun _ => True) (peek >>= fun k => if k == some Kind.stringValue then description else pure ())
      (fun _ x => ∃ d, x = Ast.tDescription d) := by
    refine acc_ifKind .stringValue _ _ _ ?_ ?_
    · exact (acc_description early_false).mono (fun _ h => h) (fun _ x ⟨d, hd⟩ => ⟨some d, hd⟩)
    · exact (acc_pure _ _ ()).mono (fun _ _ => trivial) (fun _ x h => ⟨none, by rw [h.2]; rfl⟩)
  exact cons_of_acc hacc s s' () w he trivial h hnd

theorem good_optDesc : Good (peek >>= fun k => if k == some Kind.stringValue then description else pure ()) :=
  good_opt .stringValue _ (acc_description (E := fun _ => False) early_false).1

/-- `: Type DefaultValue? Directives?` -/
theorem ivdColon_sound (n : Nat) (s s' : PState) (w : TW s) (he : EofEnd s)
    (h : (ivdColon n).run s = .ok () s') (hnd : ¬ Doomed s') :
    ConsE s s' (fun x => ∃ t d ds, x = .p .colon :: (Ast.tTy t ++ Ast.tDefault d ++ Ast.tDirectives ds) ∧ tyDepth t ≤ bud s ∧
      (∀ v, d = some v → valueOk true v = true ∧ vdepth v ≤ bud s) ∧ dirsFit true (bud s) ds) := by
  unfold ivdColon at h
  obtain ⟨sP, o, p, hor⟩ := ifPeek_dec .colon _ _ s s' () w h
  have heP := p.eofEnd he
  rcases hor with ⟨hkc, h5⟩ | ⟨_, h5⟩
  · obtain ⟨tc, rfl, hkc2⟩ : ∃ tc, o = some tc ∧ tc.kind = .colon := by
      cases o with
      | none => simp at hkc
      | some tc => exact ⟨tc, rfl, by simpa using hkc⟩
    have hnic : isIgnoredKind tc.kind = false := by rw [hkc2]; rfl
    obtain ⟨_, s5, h6, h7⟩ := bind_dec (bump "COLON") _ sP s' () h5
    obtain ⟨ign2, ec, hall2, _⟩ := bump_spec "COLON" sP s5 p.w tc _ p.head_cons h6
    have c1 : Cons sP s5 (fun x => x = [.p .colon]) :=
      Cons.ofEat ec heP (noEof_cons (by rw [hkc2]; decide) hall2) (tokIs_punct tc ign2 .colon hnic (by simp [astOfV, hkc2]) hall2)
    have c1' : Cons s s5 _ := c1.transport p.toks.symm rfl c1.eofEnd
    have c2 := ivdType_sound n s5 s' ec.w c1.eofEnd h7 hnd
    have hb5 : bud s5 = bud s := by rw [bud_eat ec, bud_peek p]
    exact (c1'.seqE c2).weaken (by
      rintro z ⟨x, y, rfl, rfl, t, d, ds, rfl, htd, hd, hds⟩
      rw [hb5] at htd hd hds
      exact ⟨t, d, ds, by simp [List.append_assoc], htd, hd, hds⟩)
  · exfalso
    exact hnd ((err_adv sP s' p.w h5).2 (eofEnd_nonempty sP heP (fun d => hnd ((good_err sP () s' p.w h5).doom d))))

theorem good_nameColon (n : Nat) : Good (name >>= fun _ => ivdColon n) := good_bind _ _ good_name (fun _ => good_ivdColon n)

/-- **one input value definition** `Description? Name : Type DefaultValue? Directives?`, every part within the budget;
    entered on a Name or String token -/
theorem ivd_sound (n : Nat) (s s' : PState) (t : Tok) (rest : List Tok) (w : TW s) (he : EofEnd s)
    (ht : Toks s = t :: rest) (hk : isNameOrStringK t.kind = true)
    (h : (inputValueDefinition n).run s = .ok () s') (hnd : ¬ Doomed s') :
    ConsE s s' (fun x => ∃ v : Ast.InputValueDef, x = Ast.tIVD v ∧ ivdFit (bud s) v) := by
  have hni : isIgnoredKind t.kind = false := nameOrString_sig _ hk
  rw [inputValueDefinition_eq] at h
  obtain ⟨s1, s2, e1, h1, o2⟩ := withNode_peeked "INPUT_VALUE_DEFINITION" _ s s' () t rest w ht hni h
  have hnd2 : ¬ Doomed s2 := fun d => hnd (o2.doomed.mpr d)
  have he1 : EofEnd s1 := eofEnd_eat he e1 (by intro x hx; cases hx)
  have h0 : Toks s = Toks s1 := by simpa using e1.toks
  unfold ivdBody optKind at h1
  obtain ⟨s3, h3, h4⟩ := optThen_dec .stringValue description _ s1 s2 h1
  have a3 := good_optDesc s1 () s3 e1.w h3
  have hnd3 : ¬ Doomed s3 := fun d => hnd2 ((good_nameColon n s3 () s2 a3.w h4).doom d)
  have c0 := optDesc_sound s1 s3 e1.w he1 h3 hnd3
  obtain ⟨_, s4, h5, h6⟩ := bind_dec name _ s3 s2 () h4
  have a4 := good_name s3 () s4 a3.w h5
  have hnd4 : ¬ Doomed s4 := fun d => hnd2 ((good_ivdColon n s4 () s2 a4.w h6).doom d)
  have c1 := cons_of_acc (acc_name (E := fun _ => False) (H := fun _ => True)) s3 s4 () a3.w c0.eofEnd trivial h5 hnd4
  have c2 := ivdColon_sound n s4 s2 a4.w c1.eofEnd h6 hnd2
  have he2 : EofEnd s2 := by obtain ⟨_, _, _, e, _⟩ := c2; exact e
  have hb4 : bud s4 = bud s := by rw [bud_adv a4, bud_adv a3, bud_eat e1]
  have c := ((c0.seq c1).seqE c2).transport h0 o2.toks (eofEnd_same _ _ he2 o2.current o2.lx o2.errors)
  exact c.weaken (by
    rintro z ⟨xy, y, rfl, ⟨x1, x2, rfl, ⟨desc, rfl⟩, nm, rfl⟩, ty, d, ds, rfl, htd, hd, hds⟩
    rw [hb4] at htd hd hds
    exact ⟨⟨desc, nm, ty, d, ds⟩, by simp [Ast.tIVD, List.append_assoc], htd, hd, hds⟩)

/-! ### enum value definitions -/

/-- `name` on a queue whose head is the Name token `t`: exactly that name -/
theorem acc_nameHead {E : PState → Prop} (hE : Early E) (t : Tok) :
    Acc E (fun q => q.head? = some t ∧ t.kind = .name) name (fun _ x => x = [.name t.data]) := by
  unfold name
  apply acc_peekToken
  intro o
  cases o with
  | none =>
    refine acc_absurd good_err ?_
    rintro q ⟨⟨h1, _⟩, h2⟩
    rw [h1] at h2; cases h2
  | some t' =>
    simp only []
    apply acc_ite
    · intro _
      have hsig : ∀ q, ((q.head? = some t ∧ t.kind = .name) ∧ q.head? = some t') → ∃ a rest, q = a :: rest ∧ isIgnoredKind a.kind = false := by
        rintro q ⟨⟨h1, hk⟩, _⟩
        cases q with
        | nil => cases h1
        | cons a b =>
          simp only [List.head?_cons, Option.some.injEq] at h1
          subst h1
          exact ⟨a, b, rfl, by rw [hk]; rfl⟩
      refine acc_withNode hE _ hsig ?_
      refine (acc_bump "IDENT" (fun a => a = t ∧ t.kind = .name) (fun x => x = [.name t.data]) ?_).mono ?_ (fun _ _ h => h)
      · rintro a ⟨rfl, hk⟩
        exact ⟨by rw [hk]; rfl, by rw [hk]; decide, _, by simp [astOfV, hk], rfl⟩
      · rintro q ⟨⟨h1, hk⟩, _⟩
        exact ⟨t, h1, rfl, hk⟩
    · intro _; exact acc_err

/-- `enum_value`: a Name that is not `true`, `false` or `null` -/
theorem acc_enumValueK {E : PState → Prop} (hE : Early E) {H : List Tok → Prop} :
    Acc E H enumValue (fun _ x => ∃ nm, x = [.name nm] ∧ isValueKeyword nm = false) := by
  unfold enumValue
  refine acc_withNodeAny hE _ ?_
  apply acc_peekToken
  intro o
  cases o with
  | none => exact acc_err
  | some t =>
    simp only []
    apply acc_ite
    · intro hk
      apply acc_ite
      · intro _; exact acc_err' name good_name
      · intro hkw
        have hk' : t.kind = .name := by simpa using hk
        exact (acc_nameHead hE t).mono (fun q hq => ⟨hq.2, hk'⟩) (fun _ x h => ⟨t.data, h, hkw⟩)
    · intro _; exact acc_err

theorem good_evTail (n : Nat) : Good (enumValue >>= fun _ => optDirsEnd n) :=
  good_bind _ _ (acc_enumValueK (E := fun _ => False) (H := fun _ => True) early_false).1 (fun _ => good_optDirsEnd n)

/-- **one enum value definition** `Description? EnumValue Directives[Const]?`, entered on a Name or String token -/
theorem enumValueDefinition_sound (n : Nat) (s s' : PState) (t : Tok) (rest : List Tok) (w : TW s) (he : EofEnd s)
    (ht : Toks s = t :: rest) (hk : isNameOrStringK t.kind = true)
    (h : (enumValueDefinition n).run s = .ok () s') (hnd : ¬ Doomed s') :
    Cons s s' (fun x => ∃ v : Ast.EnumValueDef, x = Ast.tEnumValueDef v ∧ enumValFit (bud s) v) := by
  have hni : isIgnoredKind t.kind = false := nameOrString_sig _ hk
  rw [enumValueDefinition_eq] at h
  obtain ⟨ko, sP, hp, h2⟩ := bind_dec peek _ s s' () h
  obtain ⟨o, p, hko⟩ := peek_obs s sP ko w hp
  subst hko
  have heP : EofEnd sP := p.eofEnd he
  have ho : o = some t := by have := p.head; rw [ht] at this; simpa using this
  subst ho
  have hc : isNameOrString (Option.map (·.kind) (some t)) = true := by
    simpa [isNameOrString, isNameOrStringK] using hk
  simp only [hc, if_true] at h2
  have htP : Toks sP = t :: rest := by rw [p.toks]; exact ht
  obtain ⟨s1, s2, e1, h1, o2⟩ := withNode_peeked "ENUM_VALUE_DEFINITION" _ sP s' () t rest p.w htP hni h2
  have hnd2 : ¬ Doomed s2 := fun d => hnd (o2.doomed.mpr d)
  have he1 : EofEnd s1 := eofEnd_eat heP e1 (by intro x hx; cases hx)
  have h0 : Toks s = Toks s1 := by rw [← p.toks]; simpa using e1.toks
  unfold evBody optKind at h1
  obtain ⟨s3, h3, h4⟩ := optThen_dec .stringValue description _ s1 s2 h1
  have a3 := good_optDesc s1 () s3 e1.w h3
  have hnd3 : ¬ Doomed s3 := fun d => hnd2 ((good_evTail n s3 () s2 a3.w h4).doom d)
  have c0 := optDesc_sound s1 s3 e1.w he1 h3 hnd3
  obtain ⟨_, s4, h5, h6⟩ := bind_dec enumValue _ s3 s2 () h4
  have a4 := (acc_enumValueK (E := fun _ => False) (H := fun _ => True) early_false).1 s3 () s4 a3.w h5
  have hnd4 : ¬ Doomed s4 := fun d => hnd2 ((good_optDirsEnd n s4 () s2 a4.w h6).doom d)
  have c1 := cons_of_acc (acc_enumValueK (H := fun _ => True) early_false) s3 s4 () a3.w c0.eofEnd trivial h5 hnd4
  have c2 := optDirsEnd_sound n s4 s2 a4.w c1.eofEnd h6 hnd2
  have hb4 : bud s4 = bud s := by rw [bud_adv a4, bud_adv a3, bud_eat e1, bud_peek p]
  have c := ((c0.seq c1).seq c2).transport h0 o2.toks (eofEnd_same _ _ c2.eofEnd o2.current o2.lx o2.errors)
  exact c.weaken (by
    rintro z ⟨xy, y, rfl, ⟨x1, x2, rfl, ⟨desc, rfl⟩, nm, rfl, hkw⟩, ds, rfl, hds⟩
    rw [hb4] at hds
    exact ⟨⟨desc, nm, ds⟩, by simp [Ast.tEnumValueDef, List.append_assoc], hkw, hds⟩)

end Apollo.Parse.Exact
