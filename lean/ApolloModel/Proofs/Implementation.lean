import ApolloModel.Spec.Implementation
import ApolloModel.Properties.C29
/-
C14/C15 growth: the implementation-contract model and the kind checks against their declarative
statements.
-/
namespace Apollo.Implementation
open Apollo Apollo.SchemaInvariants Apollo.Implementation.Spec

theorem argDiags_nil_iff (iface impl : List Arg) : argDiags iface impl = [] ↔ ArgsValid iface impl := by
  unfold argDiags ArgsValid
  rw [List.append_eq_nil_iff, List.filterMap_eq_nil_iff, List.filterMap_eq_nil_iff]
  constructor
  · intro ⟨h1, h2⟩
    constructor
    · intro ia hia
      have := h1 ia hia
      cases hf : impl.find? (fun a => a.name == ia.name) with
      | none => simp [hf] at this
      | some a =>
        simp only [hf] at this
        by_cases hty : ia.ty = a.ty
        · exact ⟨a, rfl, hty.symm⟩
        · simp [hty] at this
    · intro a ha hno
      have := h2 a ha
      cases hr : a.required
      · rfl
      · have hany : (iface.any fun ia => ia.name == a.name) = false := by
          rw [List.any_eq_false]; intro ia hia; simpa using hno ia hia
        simp [hany, hr] at this
  · intro ⟨h1, h2⟩
    constructor
    · intro ia hia
      obtain ⟨a, hf, hty⟩ := h1 ia hia
      simp [hf, hty]
    · intro a ha
      by_cases hany : (iface.any fun ia => ia.name == a.name) = true
      · simp [hany]
      · have hno : ∀ ia ∈ iface, ia.name ≠ a.name := by
          intro ia hia heq
          exact hany (List.any_eq_true.mpr ⟨ia, hia, by simp [heq]⟩)
        simp [h2 a ha hno]

theorem implDiagsFor_nil_iff (sub : Name → Name → Bool) (tfields : List FieldM) (i : Nat) (ifields : List FieldM) :
    implDiagsFor sub tfields i ifields = [] ↔ ValidImplementation sub tfields ifields := by
  unfold implDiagsFor ValidImplementation
  rw [List.append_eq_nil_iff, List.append_eq_nil_iff, List.filterMap_eq_nil_iff, List.filterMap_eq_nil_iff,
    List.flatMap_eq_nil_iff]
  constructor
  · intro ⟨⟨h1, h2⟩, h3⟩ f hf
    have a1 := h1 f hf
    have a2 := h2 f hf
    have a3 := h3 f hf
    cases hg : findField tfields f.name with
    | none => simp [hg] at a1
    | some g =>
      simp only [hg] at a2 a3
      refine ⟨g, rfl, ?_, ?_⟩
      · rw [← argDiags_nil_iff]
        simpa using a3
      · rw [← C29.impl_field_type_iff]
        cases hv : Gen.isValidImplementationFieldType sub f.ty g.ty
        · simp [hv] at a2
        · rfl
  · intro h
    refine ⟨⟨?_, ?_⟩, ?_⟩
    · intro f hf
      obtain ⟨g, hg, _, _⟩ := h f hf
      simp [hg]
    · intro f hf
      obtain ⟨g, hg, _, hty⟩ := h f hf
      rw [← C29.impl_field_type_iff] at hty
      simp [hg, hty]
    · intro f hf
      obtain ⟨g, hg, hargs, _⟩ := h f hf
      simp [hg, (argDiags_nil_iff _ _).mpr hargs]

theorem implDiags_nil_iff (sub : Name → Name → Bool) (getIface : Nat → Option (List FieldM))
    (tfields : List FieldM) (declared : List Nat) :
    implDiags sub getIface tfields declared = [] ↔
      ∀ i ∈ declared, ∀ ifields, getIface i = some ifields → ValidImplementation sub tfields ifields := by
  unfold implDiags
  rw [List.flatMap_eq_nil_iff]
  constructor
  · intro h i hi ifields hget
    have := h i hi
    simp only [hget] at this
    exact (implDiagsFor_nil_iff sub tfields i ifields).mp this
  · intro h i hi
    cases hget : getIface i with
    | none => rfl
    | some ifields => exact (implDiagsFor_nil_iff sub tfields i ifields).mpr (h i hi ifields hget)

/-! ### kinds -/

theorem outputRefDiags_nil_iff (kindOf : String → Option Kind) (n : String) :
    outputRefDiags kindOf n = [] ↔ ∃ k, kindAfter kindOf n = some k ∧ k.isOutput = true := by
  unfold outputRefDiags kindAfter
  cases hk : kindOf n with
  | some k => cases ho : k.isOutput <;> simp [ho]
  | none => cases hb : Scalars.builtinScalars.contains n <;> simp [hb, Kind.isOutput]

theorem inputRefDiags_nil_iff (kindOf : String → Option Kind) (n : String) :
    inputRefDiags kindOf n = [] ↔ ∃ k, kindAfter kindOf n = some k ∧ k.isInput = true := by
  unfold inputRefDiags kindAfter
  cases hk : kindOf n with
  | some k => cases ho : k.isInput <;> simp [ho]
  | none => cases hb : Scalars.builtinScalars.contains n <;> simp [hb, Kind.isInput]

theorem unionMemberDiags_nil_iff (kindOf : String → Option Kind) (n : String) :
    unionMemberDiags kindOf n = [] ↔ kindOf n = some Kind.object := by
  unfold unionMemberDiags
  cases hk : kindOf n with
  | none => simp
  | some k => cases k <;> simp

theorem typeRefDiags_nil_iff (kindOf : String → Option Kind) (t : TypeRefs) :
    typeRefDiags kindOf t = [] ↔ RefsRightKind kindOf t := by
  unfold typeRefDiags RefsRightKind
  simp only [List.append_eq_nil_iff, List.flatMap_eq_nil_iff, outputRefDiags_nil_iff, inputRefDiags_nil_iff,
    unionMemberDiags_nil_iff, and_assoc]

/-! ### the evaluators of the `c15.inv` stream -/

open Apollo.SchemaValidation in
theorem contractsInv_iff (sub : Name → Name → Bool) (s : ISchema) (fields : List (List FieldM)) :
    contractsInv sub s fields = true ↔
      ∀ a, a < s.length → ∀ i ∈ (s.getD a default).implements, ∀ ifields,
        ifaceFields s fields i = some ifields → ValidImplementation sub (fields.getD a []) ifields := by
  unfold contractsInv
  simp only [List.all_eq_true, List.mem_range, List.isEmpty_iff, implDiags_nil_iff]

theorem kindsInv_iff (kindOf : String → Option Kind) (refs : List TypeRefs) :
    kindsInv kindOf refs = true ↔ ∀ t ∈ refs, RefsRightKind kindOf t := by
  unfold kindsInv
  simp only [List.all_eq_true, List.isEmpty_iff, typeRefDiags_nil_iff]

end Apollo.Implementation
