import ApolloModel.Proofs.ParserExactS2
/-
EXACT SOUNDNESS, part 3 (namespace Apollo.Parse.Exact): directives with the recursion budget (ParserValue9 repeated).
-/
set_option linter.unusedSimpArgs false
namespace Apollo.Parse.Exact
open Apollo.Rowan hiding Str
open Apollo.Lex hiding Str


/-- one directive application `@ Name Arguments?` -/
def QDir (c : Bool) (B : Nat) (x : List Ast.Tok) : Prop :=
  ∃ d : Ast.Directive, x = .p .at :: .name d.name :: Ast.tArguments d.args ∧ argsFit c B d.args

theorem directive_sound (n : Nat) (c : Bool) (B : Nat) : ItemSpecB B (fun _ => False) .at (directive n c) (QDir c B) := by
  intro s s' t rest w he hB ht hk h hnd
  have hni : isIgnoredKind t.kind = false := by rw [hk]; rfl
  have hne : t.kind ≠ .eof := by rw [hk]; decide
  rw [directive_eq] at h
  obtain ⟨s1, s2, e1, h1, o2⟩ := withNode_peeked _ _ s s' () t rest w ht hni h
  have ht1 : Toks s1 = t :: rest := by have := e1.toks; rw [ht] at this; simpa using this.symm
  have hnd2 : ¬ Doomed s2 := fun d => hnd (o2.doomed.mpr d)
  obtain ⟨_, s3, h3, h4⟩ := bind_dec (expect .at "AT") _ s1 s2 () h1
  have gtail : ∀ k, Good (directiveTail n c k) := fun k => good_ite _ _ _ (good_arguments n c) (good_pure _)
  have grest : Good (name >>= fun _ => peek >>= directiveTail n c) :=
    good_bind _ _ good_name (fun _ => good_bind _ _ good_peek gtail)
  obtain ⟨a3, hex⟩ := expect_spec .at "AT" s1 s3 e1.w h3
  have hnd3 : ¬ Doomed s3 := fun d => hnd2 ((grest s3 () s2 a3.w h4).doom d)
  rcases hex with ⟨hemp, _⟩ | hd | ⟨t', rest', ign1, hq, _, ea, hall1, _⟩
  · rw [ht1] at hemp; cases hemp
  · exact absurd hd hnd3
  · rw [ht1] at hq
    injection hq with hq _
    subst hq
    have he3 : EofEnd s3 := eofEnd_eat (eofEnd_eat he e1 (by intro x hx; cases hx)) ea (noEof_cons hne hall1)
    obtain ⟨_, s4, h5, h6⟩ := bind_dec name _ s3 s2 () h4
    have a4 := good_name s3 () s4 ea.w h5
    have hnd4 : ¬ Doomed s4 := fun d => hnd2 ((good_bind _ _ good_peek gtail s4 () s2 a4.w h6).doom d)
    obtain ⟨tn, restn, ign2, hqn, hkn, en, hall2⟩ := name_spec s3 s4 ea.w (eofEnd_nonempty s3 he3 hnd3) h5 hnd4
    have hnin : isIgnoredKind tn.kind = false := by rw [hkn]; rfl
    have hnen : tn.kind ≠ .eof := by rw [hkn]; decide
    have he4 : EofEnd s4 := eofEnd_eat he3 en (noEof_cons hnen hall2)
    obtain ⟨ko, sP, hp, h7⟩ := bind_dec peek _ s4 s2 () h6
    obtain ⟨o, p, hko⟩ := peek_obs s4 sP ko en.w hp
    subst hko
    have heP : EofEnd sP := eofEnd_eat he4 p.eat (by intro x hx; cases hx)
    have e1P : Eat s sP ((t :: ign1) ++ (tn :: ign2)) := by simpa using ((e1.trans ea).trans en).trans p.eat
    have hnoP : NoEof ((t :: ign1) ++ (tn :: ign2)) := noEof_append (noEof_cons hne hall1) (noEof_cons hnen hall2)
    have hsigP : TokIs (sig ((t :: ign1) ++ (tn :: ign2))) [.p .at, .name tn.data] := by
      rw [sig_append, sig_cons_ignV t ign1 hni hall1, sig_cons_ignV tn ign2 hnin hall2]
      exact TokIs.cons (by simp [astOfV, hk]) (TokIs.single tn _ (by simp [astOfV, hkn]))
    unfold directiveTail at h7
    by_cases hkp : (o.map (·.kind) == some Kind.lParen) = true
    · simp only [hkp, if_true] at h7
      obtain ⟨tp, hop, hkpp⟩ : ∃ tp, o = some tp ∧ tp.kind = .lParen := by
        cases o with
        | none => simp at hkp
        | some tp => exact ⟨tp, rfl, by simpa using hkp⟩
      subst hop
      have htP : Toks sP = tp :: (Toks sP).tail := by
        have := p.head; rw [← p.toks] at this; exact toks_head_cons sP tp this.symm
      obtain ⟨ca, args, hca, hnoa, hea, _, hta, hoka⟩ := arguments_sound n c sP s2 tp _ p.w heP htP hkpp h7 hnd2
      refine ⟨(t :: ign1) ++ (tn :: ign2) ++ ca, ?_, noEof_append hnoP hnoa,
        eofEnd_same _ _ hea o2.current o2.lx o2.errors, Or.inl ⟨_, ?_, ⟨⟨tn.data, args⟩, rfl, by rw [← hB, ← bud_eat e1P]; exact hoka⟩⟩⟩
      · rw [e1P.toks, hca, o2.toks]; simp [List.append_assoc]
      · rw [sig_append]
        simpa using hsigP.append hta
    · simp only [hkp, Bool.false_eq_true, if_false] at h7
      rw [run_pure] at h7
      injection h7 with _ h7
      subst h7
      refine ⟨(t :: ign1) ++ (tn :: ign2), ?_, hnoP, eofEnd_same _ _ heP o2.current o2.lx o2.errors,
        Or.inl ⟨_, ?_, ⟨⟨tn.data, []⟩, rfl, by intro a ha; cases ha⟩⟩⟩
      · rw [e1P.toks, o2.toks]
      · simpa [Ast.tArguments] using hsigP

theorem dirs_of_items (c : Bool) (B : Nat) : ∀ (items : List (List Ast.Tok)), (∀ x ∈ items, QDir c B x) →
    ∃ ds : List Ast.Directive, items.flatten = Ast.tDirectives ds ∧ dirsFit c B ds
  | [], _ => ⟨[], rfl, (by intro d hd; cases hd)⟩
  | x :: items, h => by
    obtain ⟨d, hx, hd⟩ := h x (by simp)
    obtain ⟨ds, hds, hok⟩ := dirs_of_items c B items (fun y hy => h y (by simp [hy]))
    refine ⟨d :: ds, ?_, ?_⟩
    · simp [List.flatten_cons, hx, hds, Ast.tDirectives]
    · intro d' hd'
      rcases List.mem_cons.mp hd' with rfl | hd'
      · exact hd
      · exact hok d' hd'

/-- **`directive.rs::directives`**: from any state, an error-free run consumes exactly the tokens of a
    (possibly empty) list of directive applications -/
theorem directives_sound (n : Nat) (c : Bool) (s s' : PState) (w : TW s) (he : EofEnd s)
    (h : (directives n c).run s = .ok () s') (hnd : ¬ Doomed s') :
    ∃ cs ds, Toks s = cs ++ Toks s' ∧ NoEof cs ∧ EofEnd s' ∧ TokIs (sig cs) (Ast.tDirectives ds) ∧
      dirsFit c (bud s) ds := by
  unfold directives at h
  obtain ⟨s0, s2, o0, hr, o2⟩ := withNode_dec _ _ s s' () h
  obtain ⟨_, s1, hs, hb⟩ := bind_dec skipIgnored _ s0 s2 () hr
  obtain ⟨ign, e, hall, _⟩ := skipIgnored_spec s0 s1 (o0.w w) hs
  have e01 : Eat s s1 ign := by simpa using (Eat.ofObsEq o0 w).trans e
  have he1 : EofEnd s1 := eofEnd_eat he e01 (noEof_ignored ign hall)
  have hnd2 : ¬ Doomed s2 := fun d => hnd (o2.doomed.mpr d)
  obtain ⟨cs, hcs, hno, he2, hr2⟩ := peekWhileKind_sound (bud s) (fun _ => False) carries_false .at (directive n c) (QDir c (bud s))
    (good_directive n c) (directive_sound n c (bud s)) s1 s2 e01.w he1 (bud_eat e01) hb hnd2
  rcases hr2 with ⟨items, hi, hall2⟩ | hf
  · obtain ⟨ds, hds, hok⟩ := dirs_of_items c (bud s) items hall2
    refine ⟨ign ++ cs, ds, ?_, noEof_append (noEof_ignored ign hall) hno, eofEnd_same _ _ he2 o2.current o2.lx o2.errors, ?_, hok⟩
    · rw [e01.toks, hcs, o2.toks, List.append_assoc]
    · rw [sig_append, sig_ignored ign hall, List.nil_append, ← hds]; exact hi
  · exact absurd hf id

end Apollo.Parse.Exact
