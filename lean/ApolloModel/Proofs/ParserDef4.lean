import ApolloModel.Proofs.ParserDef3
/-
C05 growth (type-system definitions), part 4: optional parts, descriptions, input value definitions,
arguments definitions, field definitions, enum value definitions and the braced lists of them.
-/
set_option linter.unusedSimpArgs false
namespace Apollo.Parse
open Apollo.Rowan hiding Str
open Apollo.Lex hiding Str

/-- `if p.peek() == Some(k0) { m }` followed by `rest` -/
def optKind {α : Type} (k0 : Kind) (m : PI Unit) (rest : PI α) : PI α :=
  peek >>= fun k => if k == some k0 then (m >>= fun _ => rest) else rest

theorem kindP_of_head {k : Option Kind} {k0 : Kind} {q : List Tok}
    (h2 : q.head?.map (·.kind) = k) (hk : (k == some k0) = true) : KindP (· == k0) q := by
  have hk' : k = some k0 := by simpa using hk
  rw [hk'] at h2
  cases hq : q.head? with
  | none => rw [hq] at h2; cases h2
  | some t => rw [hq] at h2; exact ⟨t, hq, by simpa using h2⟩

theorem acc_optKind {α : Type} {E : PState → Prop} (hE : Early E) {H : List Tok → Prop} (k0 : Kind) (m : PI Unit)
    (rest : PI α) (Lm : List Ast.Tok → Prop) (R : α → List Ast.Tok → Prop)
    (hm : Acc E (KindP (· == k0)) m (fun _ => Lm)) (hr : Acc E (fun _ => True) rest R) :
    Acc E H (optKind k0 m rest) (fun a x => ∃ x1 x2, x = x1 ++ x2 ∧ (Lm x1 ∨ x1 = []) ∧ R a x2) := by
  unfold optKind
  apply acc_peek
  intro k
  apply acc_ite
  · intro hk
    have := acc_bind hE (hm.mono (H' := fun q => H q ∧ q.head?.map (·.kind) = k)
      (fun q hq => kindP_of_head hq.2 hk) (fun _ _ h => h)) (fun _ => hr)
    exact this.mono (fun _ h => h) (fun a x ⟨_, x1, x2, e, h1, h2⟩ => ⟨x1, x2, e, Or.inl h1, h2⟩)
  · intro _
    exact hr.mono (fun _ _ => trivial) (fun a x h => ⟨[], x, rfl, Or.inr rfl, h⟩)

/-- `if p.peek() == Some(k0) { a } else { b }` -/
theorem acc_ifKind {α : Type} {E : PState → Prop} {H : List Tok → Prop} (k0 : Kind) (a b : PI α)
    (R : α → List Ast.Tok → Prop) (ha : Acc E (KindP (· == k0)) a R) (hb : Acc E (fun _ => True) b R) :
    Acc E H (peek >>= fun k => if k == some k0 then a else b) R := by
  apply acc_peek
  intro k
  apply acc_ite
  · intro hk; exact ha.mono (fun q hq => kindP_of_head hq.2 hk) (fun _ _ h => h)
  · intro _; exact hb.mono (fun _ _ => trivial) (fun _ _ h => h)

/-- `if p.peek_data() == Some(kw) { p.bump(..) }` followed by `rest`; `seen` records whether the keyword was there -/
def optKw {α : Type} (word : String) (sk : SK) (rest : PI α) : PI α :=
  peekData >>= fun d => if kwOpt word d then (bump sk >>= fun _ => rest) else rest

def kwPart (word : String) (seen : Bool) : List Ast.Tok := if seen then [.name word.toList] else []

/-- a token whose text is a keyword made of letters is a Name token -/
def NameData (word : String) : Prop := ∀ t : Tok, t.data = word.toList → t.kind = .name

theorem acc_optKw {α : Type} {E : PState → Prop} (hE : Early E) {H : List Tok → Prop} (word : String) (sk : SK)
    (hword : ∀ t : Tok, t.data = word.toList → isIgnoredKind t.kind = false ∧ t.kind ≠ .eof ∧ astOfV t = some (.name word.toList))
    (rest : PI α) (R : α → List Ast.Tok → Prop) (hr : Acc E (fun _ => True) rest R) :
    Acc E H (optKw word sk rest) (fun a x => ∃ seen x2, x = kwPart word seen ++ x2 ∧ R a x2) := by
  unfold optKw
  apply acc_peekData
  intro o
  apply acc_ite
  · intro hk
    have hb : Acc E (fun q => H q ∧ q.head? = o) (bump sk) (fun _ x => x = [.name word.toList]) := by
      refine (acc_bump sk (fun t => t.data = word.toList) (fun x => x = [.name word.toList]) ?_).mono ?_ (fun _ _ h => h)
      · intro t ht
        obtain ⟨a, b, c⟩ := hword t ht
        exact ⟨a, b, _, c, rfl⟩
      · intro q ⟨_, hq⟩
        cases o with
        | none => simp [kwOpt] at hk
        | some t => exact ⟨t, hq, by simpa [kwOpt] using hk⟩
    have := acc_bind hE hb (fun _ => hr)
    exact this.mono (fun _ h => h) (fun a x ⟨_, x1, x2, e, h1, h2⟩ => ⟨true, x2, by rw [e, h1]; rfl, h2⟩)
  · intro _
    exact hr.mono (fun _ _ => trivial) (fun a x h => ⟨false, x, rfl, h⟩)

/-! ### description -/

theorem acc_description {E : PState → Prop} (hE : Early E) :
    Acc E (KindP (· == .stringValue)) description (fun _ x => ∃ d, x = Ast.tDescription (some d)) := by
  have hP : TokOk (fun t => t.kind = .stringValue) (fun x => ∃ d, x = Ast.tDescription (some d)) := by
    intro t ht
    exact ⟨by rw [ht]; rfl, by rw [ht]; decide, .str ((Strs.decodeStringToken t.data).getD []), by simp [astOfV, ht], _, rfl⟩
  have hb := acc_bump (E := E) "STRING" _ _ hP
  have hH : ∀ q, KindP (· == Kind.stringValue) q → HeadP (fun t => t.kind = .stringValue) q := by
    intro q ⟨t, h1, h2⟩; exact ⟨t, h1, by simpa using h2⟩
  unfold description
  exact (acc_withNode hE _ (headP_sig hP) (acc_withNode hE _ (headP_sig hP) hb)).mono hH (fun _ _ h => h)

/-- an optional description followed by `rest` -/
theorem acc_optDesc {α : Type} {E : PState → Prop} (hE : Early E) {H : List Tok → Prop} (rest : PI α) (R : α → List Ast.Tok → Prop)
    (hr : Acc E (fun _ => True) rest R) :
    Acc E H (optKind .stringValue description rest) (fun a x => ∃ d x2, x = Ast.tDescription d ++ x2 ∧ R a x2) := by
  refine (acc_optKind hE .stringValue description rest _ R (acc_description hE) hr).mono (fun _ h => h) ?_
  rintro a x ⟨x1, x2, e, h1, h2⟩
  rcases h1 with ⟨d, hd⟩ | h1
  · exact ⟨some d, x2, by rw [e, hd], h2⟩
  · exact ⟨none, x2, by rw [e, h1]; rfl, h2⟩

/-- an optional directive list (constant context) followed by `rest` -/
theorem acc_optDirs {α : Type} {E : PState → Prop} (hE : Early E) {H : List Tok → Prop} (n : Nat) (rest : PI α) (R : α → List Ast.Tok → Prop)
    (hr : Acc E (fun _ => True) rest R) :
    Acc E H (optKind .at (directives n true) rest) (fun a x => ∃ ds x2, x = Ast.tDirectives ds ++ x2 ∧ dirsOk true ds ∧ R a x2) := by
  refine (acc_optKind hE .at (directives n true) rest _ R (acc_directives n true) hr).mono (fun _ h => h) ?_
  rintro a x ⟨x1, x2, e, h1, h2⟩
  rcases h1 with ⟨ds, hd, hok⟩ | h1
  · exact ⟨ds, x2, by rw [e, hd], hok, h2⟩
  · exact ⟨[], x2, by rw [e, h1]; rfl, (by intro d hd; cases hd), h2⟩

end Apollo.Parse
