import ApolloModel.Proofs.ParserTree8
/-
C08 growth (pipeline), part 9: values — the shape of a value node and what `impl Convert for cst::Value` reads from it.
-/
set_option linter.unusedSimpArgs false
set_option linter.unusedVariables false
namespace Apollo.FromCst
open Apollo.Rowan Apollo.Ast
open Apollo.Parse (isJunk isJunkKind sigE nameNode)

variable {R : List Loc}

mutual
  /-- the CST of a value `v` (junk tokens anywhere between the children of the composite nodes; leaf nodes exact) -/
  inductive ValTree : Value → Elem → Prop
    | var (x : Ast.Str) (cs : List Elem) (dl : Rowan.Str) : isValidName x = true →
        sigE cs = [.tok "DOLLAR" dl, nameNode x] → ValTree (.var x) (.node "VARIABLE" cs)
    | int (d : Rowan.Str) : ValTree (.int d) (.node "INT_VALUE" [.tok "INT" d])
    | float (d : Rowan.Str) : ValTree (.float d) (.node "FLOAT_VALUE" [.tok "FLOAT" d])
    | str (d : Rowan.Str) (s : Ast.Str) : Strs.decodeStringToken d = some s →
        ValTree (.str s) (.node "STRING_VALUE" [.tok "STRING" d])
    | tru : ValTree (.bool true) (.node "BOOLEAN_VALUE" [.tok "true_KW" "true".toList])
    | fls : ValTree (.bool false) (.node "BOOLEAN_VALUE" [.tok "false_KW" "false".toList])
    | null (cs : List Elem) : ValTree .null (.node "NULL_VALUE" cs)
    | enum (x : Ast.Str) (cs : List Elem) : isValidName x = true → sigE cs = [nameNode x] →
        ValTree (.enum x) (.node "ENUM_VALUE" cs)
    | list (vs : Values) (cs es : List Elem) (lb rb : Rowan.Str) : ValsTree vs es →
        sigE cs = .tok "L_BRACK" lb :: (es ++ [.tok "R_BRACK" rb]) → ValTree (.list vs) (.node "LIST_VALUE" cs)
    | obj (fs : ObjFields) (cs es : List Elem) (lc rc : Rowan.Str) : FieldsTree fs es →
        sigE cs = .tok "L_CURLY" lc :: (es ++ [.tok "R_CURLY" rc]) → ValTree (.obj fs) (.node "OBJECT_VALUE" cs)
  inductive ValsTree : Values → List Elem → Prop
    | nil : ValsTree .nil []
    | cons (v : Value) (e : Elem) (vs : Values) (es : List Elem) : ValTree v e → ValsTree vs es →
        ValsTree (.cons v vs) (e :: es)
  inductive FieldsTree : ObjFields → List Elem → Prop
    | nil : FieldsTree .nil []
    | cons (n : Ast.Str) (v : Value) (ev : Elem) (cs : List Elem) (col : Rowan.Str) (fs : ObjFields) (es : List Elem) :
        isValidName n = true → ValTree v ev → sigE cs = [nameNode n, .tok "COLON" col, ev] → FieldsTree fs es →
        FieldsTree (.cons n v fs) (.node "OBJECT_FIELD" cs :: es)
end

theorem ValTree.nodeP {v : Value} {e : Elem} (h : ValTree v e) : nodeP isValueKind e = true := by
  cases h <;> simp [FromCst.nodeP, isNodeE, kindE, isValueKind]

theorem ValTree.isNode {v : Value} {e : Elem} (h : ValTree v e) : ∃ k cs, e = .node k cs := by
  cases h <;> exact ⟨_, _, rfl⟩

theorem ValTree.not_junk {v : Value} {e : Elem} (h : ValTree v e) : isJunk e = false := by
  obtain ⟨k, cs, rfl⟩ := h.isNode; rfl

/-- all elements of `es` are value nodes -/
theorem ValsTree.filter {vs : Values} {es : List Elem} (h : ValsTree vs es) : es.filter (nodeP isValueKind) = es := by
  induction es generalizing vs with
  | nil => rfl
  | cons e es ih =>
    cases h with
    | cons v _ vs' _ hv hvs => simp [List.filter_cons, hv.nodeP, ih hvs]

theorem FieldsTree.filter {fs : ObjFields} {es : List Elem} (h : FieldsTree fs es) :
    es.filter (nodeP (· == "OBJECT_FIELD")) = es := by
  induction es generalizing fs with
  | nil => rfl
  | cons e es ih =>
    cases h with
    | cons n v ev cs col fs' _ _ _ _ hfs => simp [List.filter_cons, nodeP_node, ih hfs]

/-! ### equations of `cValue` by node kind -/

theorem cValue_var (n : Nat) (p : PE R) (hk : p.kind = "VARIABLE") :
    cValue (n + 1) p = (nameOf p >>= fun x => pure (Value.var x)) := by simp [cValue, hk]
theorem cValue_str (n : Nat) (p : PE R) (hk : p.kind = "STRING_VALUE") :
    cValue (n + 1) p = (cStringValue p >>= fun s => pure (Value.str s)) := by simp [cValue, hk]
theorem cValue_null (n : Nat) (p : PE R) (hk : p.kind = "NULL_VALUE") : cValue (n + 1) p = M.pure' Value.null := by
  simp [cValue, hk]
theorem cValue_enum (n : Nat) (p : PE R) (hk : p.kind = "ENUM_VALUE") :
    cValue (n + 1) p = (nameOf p >>= fun x => pure (Value.enum x)) := by simp [cValue, hk]
theorem cValue_list (n : Nat) (p : PE R) (hk : p.kind = "LIST_VALUE") :
    cValue (n + 1) p = (collectM (cValue n) (childrenP isValueKind p) >>= fun vs => pure (Value.list (listToValues vs))) := by
  simp [cValue, hk]
theorem cValue_obj (n : Nat) (p : PE R) (hk : p.kind = "OBJECT_VALUE") :
    cValue (n + 1) p = (collectM (fun f => nameOf f >>= fun name => M.ofOpt (childP isValueKind f) >>= fun v =>
        cValue n v >>= fun val => pure (name, val)) (children "OBJECT_FIELD" p) >>= fun fs =>
      pure (Value.obj (listToObjFields fs))) := by
  simp [cValue, hk]

def valuesToList : Values → List Value
  | .nil => []
  | .cons v tl => v :: valuesToList tl

def fieldsToList : ObjFields → List (Ast.Str × Value)
  | .nil => []
  | .cons n v tl => (n, v) :: fieldsToList tl

theorem listToValues_toList : ∀ vs : Values, listToValues (valuesToList vs) = vs
  | .nil => rfl
  | .cons v tl => by simp [valuesToList, listToValues, listToValues_toList tl]

theorem listToObjFields_toList : ∀ fs : ObjFields, listToObjFields (fieldsToList fs) = fs
  | .nil => rfl
  | .cons n v tl => by simp [fieldsToList, listToObjFields, listToObjFields_toList tl]

theorem sizeList_append (a b : List Elem) : sizeList (a ++ b) = sizeList a + sizeList b := by
  induction a with
  | nil => simp [sizeList]
  | cons e es ih => simp [sizeList, ih]; omega

theorem sizeList_sigE_le : ∀ cs : List Elem, sizeList (sigE cs) ≤ sizeList cs
  | [] => Nat.le_refl _
  | e :: es => by
    unfold sigE
    simp only [List.filter_cons]
    have ih := sizeList_sigE_le es
    unfold sigE at ih
    split
    · simp only [sizeList]; omega
    · simp only [sizeList]; omega

/-- the conversion of one object field, on the plain element -/
def cField (n : Nat) (R : List Loc) (f : PE R) : M R (Ast.Str × Value) :=
  nameOf f >>= fun name => M.ofOpt (childP isValueKind f) >>= fun v => cValue n v >>= fun val => pure (name, val)

mutual
  /-- `impl Convert for cst::Value` on the tree of `v` returns `v` -/
  theorem cValue_valTree : ∀ (n : Nat) (v : Value) (e : Elem), ValTree v e → size e ≤ n → ConvE (fun R => @cValue R n) v e
    | 0, _, e, h, hs => by
      obtain ⟨k, cs, rfl⟩ := h.isNode
      simp [size] at hs
    | n + 1, _, _, .var x cs dl hv hsig, hs => by
      intro R s h
      have hf : (sigE cs).find? (nodeP (· == "NAME")) = some (nameNode x) := by
        rw [hsig]; simp [List.find?_cons, nodeP_tok]; rfl
      obtain ⟨l, hl⟩ := nameOf_node "VARIABLE" cs x hv hf R s h
      refine ⟨l ++ [], ?_⟩
      show cValue (n + 1) _ = _
      rw [cValue_var n _ rfl]
      exact bind_ok hl (pure_ok _)
    | n + 1, _, _, .int d, hs => by
      intro R s h
      refine ⟨[], ?_⟩
      simp [cValue, PE.kind, firstTok, firstTokList, M.pure', isValueKind]
    | n + 1, _, _, .float d, hs => by
      intro R s h
      refine ⟨[], ?_⟩
      simp [cValue, PE.kind, firstTok, firstTokList, M.pure', isValueKind]
    | n + 1, _, _, .str d sv hd, hs => by
      intro R s h
      refine ⟨[] ++ [], ?_⟩
      show cValue (n + 1) _ = _
      rw [cValue_str n _ rfl]
      refine bind_ok ?_ (pure_ok _)
      show (match textOfFirstToken (⟨(Elem.node "STRING_VALUE" [Elem.tok "STRING" d], s), h⟩ : PE R) with
        | some t => M.ofOpt (Strs.decodeStringToken t) | none => none) = _
      simp [textOfFirstToken, hd, M.ofOpt]
    | n + 1, _, _, .tru, hs => by
      intro R s h
      refine ⟨[], ?_⟩
      simp [cValue, PE.kind, textOfFirstToken, M.pure']
    | n + 1, _, _, .fls, hs => by
      intro R s h
      refine ⟨[], ?_⟩
      simp [cValue, PE.kind, textOfFirstToken, M.pure']
    | n + 1, _, _, .null cs, hs => by
      intro R s h
      refine ⟨[], ?_⟩
      show cValue (n + 1) _ = _
      rw [cValue_null n _ rfl]
      rfl
    | n + 1, _, _, .enum x cs hv hsig, hs => by
      intro R s h
      have hf : (sigE cs).find? (nodeP (· == "NAME")) = some (nameNode x) := by rw [hsig]; rfl
      obtain ⟨l, hl⟩ := nameOf_node "ENUM_VALUE" cs x hv hf R s h
      refine ⟨l ++ [], ?_⟩
      show cValue (n + 1) _ = _
      rw [cValue_enum n _ rfl]
      exact bind_ok hl (pure_ok _)
    | n + 1, _, _, .list vs cs es lb rb hvs hsig, hs => by
      intro R s h
      have hfilter : cs.filter (nodeP isValueKind) = es := by
        rw [filter_nodeP_sigE, hsig]
        simp [List.filter_cons, nodeP_tok, List.filter_append, hvs.filter]
      have hmap := childrenP_map (R := R) isValueKind "LIST_VALUE" cs s h
      rw [hfilter] at hmap
      have hszs : sizeList es ≤ n := by
        have h1 : sizeList (sigE cs) ≤ sizeList cs := sizeList_sigE_le cs
        rw [hsig] at h1
        simp only [sizeList, sizeList_append, size] at h1 hs
        omega
      have hall := cValues_valsTree n vs es hvs hszs
      obtain ⟨l, hl⟩ := collectM_conv (R := R) (fun R => @cValue R n) _ es (valuesToList vs) hmap hall
      refine ⟨l ++ [], ?_⟩
      show cValue (n + 1) _ = _
      rw [cValue_list n _ rfl]
      refine bind_ok hl ?_
      rw [listToValues_toList]; rfl
    | n + 1, _, _, .obj fs cs es lc rc hfs hsig, hs => by
      intro R s h
      have hfilter : cs.filter (nodeP (· == "OBJECT_FIELD")) = es := by
        rw [filter_nodeP_sigE, hsig]
        simp [List.filter_cons, nodeP_tok, List.filter_append, hfs.filter]
      have hmap := childrenP_map (R := R) (· == "OBJECT_FIELD") "OBJECT_VALUE" cs s h
      rw [hfilter] at hmap
      have hszs : sizeList es ≤ n := by
        have h1 : sizeList (sigE cs) ≤ sizeList cs := sizeList_sigE_le cs
        rw [hsig] at h1
        simp only [sizeList, sizeList_append, size] at h1 hs
        omega
      have hall := cFields_fieldsTree n fs es hfs hszs
      obtain ⟨l, hl⟩ := collectM_conv (R := R) (cField n) _ es (fieldsToList fs) hmap hall
      refine ⟨l ++ [], ?_⟩
      show cValue (n + 1) _ = _
      rw [cValue_obj n _ rfl, children_eq_childrenP]
      refine bind_ok hl ?_
      rw [listToObjFields_toList]; rfl
  theorem cValues_valsTree : ∀ (n : Nat) (vs : Values) (es : List Elem), ValsTree vs es → sizeList es ≤ n →
      All2 (fun e a => ConvE (fun R => @cValue R n) a e) es (valuesToList vs)
    | n, _, _, .nil, _ => All2.nil
    | n, _, _, .cons v e vs es hv hvs, hs => by
      simp only [sizeList] at hs
      exact All2.cons (cValue_valTree n v e hv (by omega)) (cValues_valsTree n vs es hvs (by omega))
  theorem cFields_fieldsTree : ∀ (n : Nat) (fs : ObjFields) (es : List Elem), FieldsTree fs es → sizeList es ≤ n →
      All2 (fun e a => ConvE (cField n) a e) es (fieldsToList fs)
    | n, _, _, .nil, _ => All2.nil
    | n, _, _, .cons nm v ev cs col fs es hvn hv hsig hfs, hs => by
      simp only [sizeList, size] at hs
      refine All2.cons ?_ (cFields_fieldsTree n fs es hfs (by omega))
      intro R s h
      have hf : (sigE cs).find? (nodeP (· == "NAME")) = some (nameNode nm) := by rw [hsig]; rfl
      obtain ⟨l1, hl1⟩ := nameOf_node "OBJECT_FIELD" cs nm hvn hf R s h
      have hfv : cs.find? (nodeP isValueKind) = some ev := by
        rw [find_nodeP_sigE, hsig]
        have : nodeP isValueKind (nameNode nm) = false := rfl
        simp [List.find?_cons, nodeP_tok, this, hv.nodeP]
      obtain ⟨s', h', hc⟩ := childP_some (R := R) isValueKind "OBJECT_FIELD" cs s h ev hfv
      have hsz : size ev ≤ n := by
        have h1 := size_le_sizeList (mem_sigE (cs := cs) (e := ev) (by rw [hsig]; simp))
        omega
      obtain ⟨l2, hl2⟩ := cValue_valTree n v ev hv hsz R s' h'
      refine ⟨l1 ++ ([] ++ (l2 ++ [])), ?_⟩
      show cField n R _ = _
      unfold cField
      refine bind_ok hl1 ?_
      rw [hc]
      exact bind_ok rfl (bind_ok hl2 (pure_ok _))
end

end Apollo.FromCst
