import ApolloModel.Proofs.NameHeap
import ApolloModel.Properties.C31
/-
The invariant of the `Name` history model and its preservation by every operation.
`Inv`: (1) the heap is `Ok` for the handle count of the current slots, (2) every handle is
well-formed (`SlotWf`): the tag bit says `Arc` exactly when the pointer is a heap pointer, the
location read back is the one supplied, the stored length and the text behind the pointer are the
ones supplied, (3) the type-confusion ghost counter is 0.
-/
namespace Apollo.NameHeap
open Apollo.Rc Apollo.Rc.Heap Apollo.FileId

/-! ### tag packing facts (from C31) -/

theorem lt_of_bit63 (n : Nat) (h : n < 2 ^ 64) (hb : n.testBit 63 = false) : n < 2 ^ 63 := by
  rw [Nat.testBit_eq_decide_div_mod_eq] at hb
  simp at hb
  omega

theorem pack_some_spec (tag : Bool) (fid p : Nat) (hf : fid < 2 ^ 64) (hp : pack tag fid = some p) :
    tagOf p = tag ∧ fileIdOf p = fid := by
  have hb : fid.testBit 63 = false := by
    cases hb : fid.testBit 63 with
    | false => rfl
    | true => have := (Apollo.C31.pack_none_iff tag fid).mpr hb; rw [this] at hp; cases hp
  obtain ⟨p', hp', ht, hi, _⟩ := Apollo.C31.pack_unpack tag fid (lt_of_bit63 fid hf hb)
  rw [hp] at hp'
  cases hp'
  exact ⟨ht, hi⟩

theorem tagOf_packNone (b : Bool) : tagOf (packNone b) = b := by cases b <;> decide
theorem fileIdOf_packNone (b : Bool) : fileIdOf (packNone b) = NONE := by cases b <;> decide

/-! ### the invariant -/

def SlotWf (h : Heap Text) : Slot → Prop
  | .empty => True
  | .name n =>
      tagOf n.tagged = n.ptr.isHeap ∧ n.location = n.gLoc ∧ n.len = byteLen n.gText ∧
      (match n.ptr with
        | .heap c => h.valOf c = some n.gText
        | .static t => t = n.gText)
  | .arc c g => h.valOf c = some g

structure Inv (st : St) : Prop where
  heap : st.heap.Ok (refsOf owns st.slots)
  wf : ∀ s ∈ st.slots, SlotWf st.heap s
  confused : st.confused = 0

def w (s : Slot) (c : Nat) : Nat := if owns s = some c then 1 else 0

theorem SlotWf.mono {h h' : Heap Text} (hv : ∀ c v, h.valOf c = some v → h'.valOf c = some v) {s : Slot}
    (hs : SlotWf h s) : SlotWf h' s := by
  cases s with
  | empty => trivial
  | name n =>
    obtain ⟨a, b, c, d⟩ := hs
    refine ⟨a, b, c, ?_⟩
    cases hp : n.ptr with
    | heap c => rw [hp] at d; exact hv _ _ d
    | static t => rw [hp] at d; exact d
  | arc c g => exact hv _ _ hs

theorem wf_set {h : Heap Text} {slots : List Slot} (i : Nat) {s : Slot}
    (hw : ∀ x ∈ slots, SlotWf h x) (hs : SlotWf h s) : ∀ x ∈ slots.set i s, SlotWf h x := by
  intro x hx
  rcases List.mem_or_eq_of_mem_set hx with h1 | h1
  · exact hw x h1
  · subst h1; exact hs

theorem wf_mono_all {h h' : Heap Text} {slots : List Slot} (hv : ∀ c v, h.valOf c = some v → h'.valOf c = some v)
    (hw : ∀ x ∈ slots, SlotWf h x) : ∀ x ∈ slots, SlotWf h' x := fun x hx => (hw x hx).mono hv

theorem isEmptyAt_iff {st : St} {i : Nat} : isEmptyAt st i = true ↔ st.slots[i]? = some .empty := by
  unfold isEmptyAt
  cases h : st.slots[i]? with
  | none => simp
  | some s => cases s <;> simp

theorem slotAt_name {st : St} {i : Nat} {n : Name} (h : slotAt st i = .name n) : st.slots[i]? = some (.name n) := by
  unfold slotAt at h
  rw [List.getD_eq_getElem?_getD] at h
  cases hg : st.slots[i]? with
  | none => rw [hg] at h; cases h
  | some s => rw [hg] at h; simp at h; rw [h]

theorem slotAt_arc {st : St} {i c : Nat} {g : Text} (h : slotAt st i = .arc c g) : st.slots[i]? = some (.arc c g) := by
  unfold slotAt at h
  rw [List.getD_eq_getElem?_getD] at h
  cases hg : st.slots[i]? with
  | none => rw [hg] at h; cases h
  | some s => rw [hg] at h; simp at h; rw [h]

theorem mem_of_get {slots : List Slot} {i : Nat} {s : Slot} (h : slots[i]? = some s) : s ∈ slots :=
  List.mem_of_getElem? h

/-- handle count after writing `s` over `old` -/
theorem refs_replace {slots : List Slot} {i : Nat} {old : Slot} (s : Slot) (h : slots[i]? = some old) (c : Nat) :
    refsOf owns (slots.set i s) c + w old c = refsOf owns slots c + w s c :=
  refsOf_set owns c s slots i old h

theorem w_empty (c : Nat) : w .empty c = 0 := rfl

theorem w_of_owns {s : Slot} {c : Nat} (h : owns s = some c) (c' : Nat) : w s c' = if c' = c then 1 else 0 := by
  unfold w; rw [h]
  by_cases e : c' = c
  · subst e; simp
  · have : ¬ c = c' := fun x => e x.symm
    simp [e, this]

theorem w_of_none {s : Slot} (h : owns s = none) (c' : Nat) : w s c' = 0 := by
  unfold w; rw [h]; simp

theorem refs_pos {slots : List Slot} {i : Nat} {s : Slot} {c : Nat} (h : slots[i]? = some s) (ho : owns s = some c) :
    1 ≤ refsOf owns slots c := refsOf_pos_of_mem owns c slots i s h ho

theorem get_set_empty {slots : List Slot} {src dst : Nat} (hd : slots[dst]? = some .empty) :
    (slots.set src .empty)[dst]? = some .empty := by
  rw [List.getElem?_set]
  by_cases e : src = dst
  · subst e
    obtain ⟨hlt, _⟩ := List.getElem?_eq_some_iff.mp hd
    simp [hlt]
  · simp [e, hd]

/-! ### building blocks: one heap effect + one slot update -/

/-- a handle that owns nothing is written over a handle that owns nothing -/
theorem inv_replace_none {st : St} (inv : Inv st) {i : Nat} {old s : Slot} (hi : st.slots[i]? = some old)
    (ho : owns old = none) (hs : owns s = none) (hw : SlotWf st.heap s) : Inv (setSlot st i s) := by
  refine ⟨?_, wf_set i inv.wf hw, inv.confused⟩
  apply inv.heap.congr
  intro c
  have := refs_replace s hi c
  rw [w_of_none ho, w_of_none hs] at this
  simpa [setSlot] using this

/-- a handle is replaced by another handle on the same cell (or both own nothing) -/
theorem inv_replace_same {st : St} (inv : Inv st) {i : Nat} {old s : Slot} (hi : st.slots[i]? = some old)
    (ho : owns s = owns old) (hw : SlotWf st.heap s) : Inv (setSlot st i s) := by
  refine ⟨?_, wf_set i inv.wf hw, inv.confused⟩
  apply inv.heap.congr
  intro c
  have := refs_replace s hi c
  have e : w s c = w old c := by unfold w; rw [ho]
  simp only [setSlot]
  omega

/-- allocate a cell and put its only handle into an empty slot -/
theorem inv_alloc_put {st : St} (inv : Inv st) {dst : Nat} (t : Text) {s : Slot} (hd : st.slots[dst]? = some .empty)
    (ho : owns s = some st.heap.cells.length) (hw : SlotWf (st.heap.alloc t).1 s) :
    Inv (setSlot { st with heap := (st.heap.alloc t).1 } dst s) := by
  refine ⟨?_, ?_, inv.confused⟩
  · apply alloc_ok t inv.heap
    intro c
    have := refs_replace s hd c
    rw [w_empty, w_of_owns ho] at this
    simpa [setSlot] using this
  · exact wf_set dst (wf_mono_all (fun c v => alloc_valOf_old st.heap t) inv.wf) hw

/-- increment a live cell and put the new handle into an empty slot -/
theorem inv_incr_put {st : St} (inv : Inv st) {dst c : Nat} {s : Slot} (hd : st.slots[dst]? = some .empty)
    (hc : 1 ≤ refsOf owns st.slots c) (ho : owns s = some c) (hw : SlotWf st.heap s) :
    Inv (setSlot { st with heap := st.heap.incr c } dst s) := by
  refine ⟨?_, ?_, inv.confused⟩
  · apply incr_ok inv.heap hc
    intro c'
    have := refs_replace s hd c'
    rw [w_empty, w_of_owns ho] at this
    simpa [setSlot] using this
  · refine wf_set dst (wf_mono_all ?_ inv.wf) (hw.mono ?_) <;>
    · intro c' v hv; show (st.heap.incr c).valOf c' = some v; rw [incr_valOf]; exact hv

/-- decrement the cell of a handle and empty its slot -/
theorem inv_decr_clear {st : St} (inv : Inv st) {i c : Nat} {old : Slot} (hi : st.slots[i]? = some old)
    (ho : owns old = some c) : Inv (setSlot { st with heap := st.heap.decr c } i .empty) := by
  refine ⟨?_, ?_, inv.confused⟩
  · apply decr_ok inv.heap (refs_pos hi ho)
    intro c'
    have := refs_replace .empty hi c'
    rw [w_empty, w_of_owns ho] at this
    simpa [setSlot] using this
  · refine wf_set i (wf_mono_all ?_ inv.wf) trivial
    intro c' v hv; show (st.heap.decr c).valOf c' = some v; rw [decr_valOf]; exact hv

/-- move a count from the handle in `src` to a new handle in the empty slot `dst` -/
theorem inv_move {st : St} (inv : Inv st) {src dst c : Nat} {old s : Slot} (hi : st.slots[src]? = some old)
    (ho : owns old = some c) (hd : st.slots[dst]? = some .empty) (hs : owns s = some c) (hw : SlotWf st.heap s) :
    Inv (setSlot (setSlot st src .empty) dst s) := by
  refine ⟨?_, wf_set dst (wf_set src inv.wf trivial) hw, inv.confused⟩
  apply inv.heap.congr
  intro c'
  have h1 := refs_replace .empty hi c'
  have h2 := refs_replace s (get_set_empty (src := src) hd) c'
  rw [w_empty] at h1 h2
  have e : w s c' = w old c' := by unfold w; rw [hs, ho]
  simp only [setSlot]
  omega

end Apollo.NameHeap
