import ApolloModel.Model.SchemaBuild
/-
Helper lemmas for C13, part 1: the builder is a fold (compositionality over sources) and the stable
sort of diagnostics only depends on the relative order of the locations.
-/
namespace Apollo.SchemaBuild

/-! ### compositionality: folds over sources -/

theorem addDocument_append (s : Builder) (a b : List Def) :
    addDocument s (a ++ b) = addDocument (addDocument s a) b := by
  simp [addDocument, List.foldl_append]

theorem addSources_flatten (srcs : List (List Def)) : ∀ (s : Builder),
    addSources s srcs = addDocument s srcs.flatten := by
  induction srcs with
  | nil => intro s; simp [addSources, addDocument]
  | cons a rest ih =>
    intro s
    have := ih (addDocument s a)
    simp only [addSources, List.foldl_cons, List.flatten_cons] at this ⊢
    rw [this, addDocument_append]

theorem xaddDocument_append (s : XBuilder) (a b : List XDef) :
    xaddDocument s (a ++ b) = xaddDocument (xaddDocument s a) b := by
  simp [xaddDocument, List.foldl_append]

theorem xaddSources_flatten (srcs : List (List XDef)) : ∀ (s : XBuilder),
    xaddSources s srcs = xaddDocument s srcs.flatten := by
  induction srcs with
  | nil => intro s; simp [xaddSources, xaddDocument]
  | cons a rest ih =>
    intro s
    have := ih (xaddDocument s a)
    simp only [xaddSources, List.foldl_cons, List.flatten_cons] at this ⊢
    rw [this, xaddDocument_append]

/-! ### stable sort under an order-preserving relabelling -/

theorem mem_insertBy {α : Type} (lt : α → α → Bool) (x : α) : ∀ (l : List α) (a : α),
    a ∈ insertBy lt x l ↔ a = x ∨ a ∈ l := by
  intro l
  induction l with
  | nil => intro a; simp [insertBy]
  | cons y ys ih =>
    intro a
    unfold insertBy
    by_cases h : lt x y = true
    · simp [h]
    · simp only [h, Bool.false_eq_true, if_false, List.mem_cons, ih]
      constructor
      · rintro (h | h | h) <;> simp [h]
      · rintro (h | h | h) <;> simp [h]

theorem mem_sortBy {α : Type} (lt : α → α → Bool) : ∀ (l : List α) (a : α), a ∈ sortBy lt l ↔ a ∈ l := by
  intro l
  induction l with
  | nil => intro a; simp [sortBy]
  | cons x xs ih => intro a; simp [sortBy, mem_insertBy, ih]

theorem insertBy_map {α β : Type} (lt : α → α → Bool) (lt' : β → β → Bool) (f : α → β) (x : α) :
    ∀ (l : List α), (∀ y ∈ l, lt' (f x) (f y) = lt x y) →
      insertBy lt' (f x) (l.map f) = (insertBy lt x l).map f := by
  intro l
  induction l with
  | nil => intro _; simp [insertBy]
  | cons y ys ih =>
    intro h
    have hy := h y (by simp)
    have ih' := ih (fun z hz => h z (by simp [hz]))
    simp only [List.map_cons, insertBy, hy]
    by_cases c : lt x y = true
    · simp [c]
    · simp [c, ih']

/-- sorting commutes with any relabelling that preserves the comparison on the elements of the list -/
theorem sortBy_map {α β : Type} (lt : α → α → Bool) (lt' : β → β → Bool) (f : α → β) :
    ∀ (l : List α), (∀ x ∈ l, ∀ y ∈ l, lt' (f x) (f y) = lt x y) →
      sortBy lt' (l.map f) = (sortBy lt l).map f := by
  intro l
  induction l with
  | nil => intro _; simp [sortBy]
  | cons x xs ih =>
    intro h
    have ih' := ih (fun a ha b hb => h a (by simp [ha]) b (by simp [hb]))
    simp only [List.map_cons, sortBy, ih']
    apply insertBy_map
    intro y hy
    exact h x (by simp) y (by simp [(mem_sortBy lt xs y).mp hy])

/-- files laid out one after another: a later file starts after the end of an earlier one -/
theorem base_mono (base len : Nat → Nat) (hbase : ∀ f, base f + len f ≤ base (f + 1)) :
    ∀ (d f : Nat), base f + len f ≤ base (f + 1 + d) := by
  intro d
  induction d with
  | zero => intro f; exact hbase f
  | succ d ih =>
    intro f
    have h1 := ih f
    have h2 := hbase (f + 1 + d)
    have : f + 1 + (d + 1) = f + 1 + d + 1 := by omega
    rw [this]
    omega

end Apollo.SchemaBuild
