import ApolloModel.Model.ExecValidationCache
import ApolloModel.Proofs.ExecValidationMerge2
/-
The cache of the XING algorithm is transparent: as long as the recursion limit is not reached, the
guarded walks report a conflict exactly when the unguarded walks (`sameResponseShapeByName`,
`sameForCommonParentsByName`) do — for every identity `same` of merged sets that only identifies sets
with the same contents, whatever was validated before with the same cache.
-/
namespace Apollo.ExecVal
open Apollo Apollo.Spec Apollo.Spec.ExecVal

/-! ### nesting depth of abstract field trees -/
mutual
  def AField.depth : AField → Nat
    | .mk _ _ _ _ _ subs => depthList subs + 1
  def depthList : List AField → Nat
    | [] => 0
    | a :: as => max a.depth (depthList as)
end

theorem depth_le_of_mem : ∀ (S : List AField) (x : AField), x ∈ S → x.depth ≤ depthList S
  | [], _, h => by simp at h
  | a :: as, x, h => by
    simp only [depthList]
    rcases List.mem_cons.mp h with rfl | h
    · exact Nat.le_max_left _ _
    · exact Nat.le_trans (depth_le_of_mem as x h) (Nat.le_max_right _ _)

theorem depthList_le_of_forall : ∀ (S : List AField) (d : Nat), (∀ x ∈ S, x.depth ≤ d) → depthList S ≤ d
  | [], _, _ => by simp [depthList]
  | a :: as, d, h => by
    simp only [depthList]
    exact Nat.max_le.mpr ⟨h a (by simp), depthList_le_of_forall as d (fun x hx => h x (by simp [hx]))⟩

theorem depth_subs (a : AField) : depthList a.subs + 1 = a.depth := by
  cases a; simp [AField.subs, AField.depth]

/-- the merged nested selection sets of a non-empty part of `S` are strictly shallower than `S` -/
theorem depth_nested_lt (S g : List AField) (hg : ∀ x ∈ g, x ∈ S) (hne : (nestedSets g).isEmpty = false) :
    depthList (nestedSets g) < depthList S := by
  have hex : ∃ z, z ∈ nestedSets g := by
    cases h : nestedSets g with
    | nil => rw [h] at hne; simp at hne
    | cons z _ => exact ⟨z, by simp⟩
  obtain ⟨z, hz⟩ := hex
  obtain ⟨a, ha, _⟩ := mem_nested g z hz
  have hpos : 1 ≤ depthList S := by
    have := depth_le_of_mem S a (hg a ha)
    have := depth_subs a
    omega
  have : depthList (nestedSets g) ≤ depthList S - 1 := by
    apply depthList_le_of_forall
    intro x hx
    obtain ⟨b, hb, hxb⟩ := mem_nested g x hx
    have h1 := depth_le_of_mem _ x hxb
    have h2 := depth_subs b
    have h3 := depth_le_of_mem S b (hg b hb)
    omega
  omega

/-! ### the unguarded walk at every depth -/

/-- the unguarded walk accepts `S` whatever the recursion limit -/
def Full (parts : List AField → List (List AField)) (leaf : List AField → Bool) (S : List AField) : Prop :=
  ∀ m, treeCheck parts leaf m S = true

theorem full_iff (parts : List AField → List (List AField)) (leaf : List AField → Bool) (S : List AField) :
    Full parts leaf S ↔
      ∀ g ∈ parts S, leaf g = true ∧ ((nestedSets g).isEmpty = true ∨ Full parts leaf (nestedSets g)) := by
  constructor
  · intro h g hg
    have h1 := h 1
    simp only [treeCheck, List.all_eq_true, Bool.and_eq_true] at h1
    refine ⟨(h1 g hg).1, ?_⟩
    cases he : (nestedSets g).isEmpty with
    | true => exact Or.inl rfl
    | false =>
      right
      intro m
      have := h (m + 1)
      simp only [treeCheck, List.all_eq_true, Bool.and_eq_true, Bool.or_eq_true] at this
      rcases (this g hg).2 with h2 | h2
      · rw [he] at h2; cases h2
      · exact h2
  · intro h m
    cases m with
    | zero => rfl
    | succ m =>
      simp only [treeCheck, List.all_eq_true, Bool.and_eq_true, Bool.or_eq_true]
      intro g hg
      obtain ⟨h1, h2⟩ := h g hg
      exact ⟨h1, h2.imp id (fun f => f m)⟩

/-- below the recursion limit, accepting at that limit is accepting at every limit -/
theorem full_of_treeCheck (parts : List AField → List (List AField)) (leaf : List AField → Bool)
    (hparts : ∀ S g, g ∈ parts S → ∀ x ∈ g, x ∈ S) :
    ∀ (n : Nat) (S : List AField), depthList S < n → treeCheck parts leaf n S = true → Full parts leaf S := by
  intro n
  induction n with
  | zero => intro S h; omega
  | succ n ih =>
    intro S hd h
    rw [full_iff]
    simp only [treeCheck, List.all_eq_true, Bool.and_eq_true, Bool.or_eq_true] at h
    intro g hg
    refine ⟨(h g hg).1, ?_⟩
    cases he : (nestedSets g).isEmpty with
    | true => exact Or.inl rfl
    | false =>
      right
      rcases (h g hg).2 with h2 | h2
      · rw [he] at h2; cases h2
      · exact ih _ (by have := depth_nested_lt S g (hparts S g hg) he; omega) h2

/-! ### transparency of the guards -/

/-- cache invariant: if nothing was reported so far, every set whose guard is set is either still
    being walked (`P`) or is accepted by the unguarded walk -/
def CacheOk (parts : List AField → List (List AField)) (leaf : List AField → Bool)
    (P : List AField → Prop) (st : Bool × Done) : Prop :=
  st.1 = true → ∀ T ∈ st.2, P T ∨ Full parts leaf T

theorem cachedCheck_spec (same : List AField → List AField → Bool) (hsame : ∀ a b, same a b = true → a = b)
    (parts : List AField → List (List AField)) (leaf : List AField → Bool)
    (hparts : ∀ S g, g ∈ parts S → ∀ x ∈ g, x ∈ S) :
    ∀ (n : Nat) (S : List AField) (st : Bool × Done) (P : List AField → Prop),
      depthList S < n → (∀ T, P T → depthList S < depthList T) → CacheOk parts leaf P st →
      ((cachedCheck same parts leaf n S st).1 = true ↔ st.1 = true ∧ Full parts leaf S) ∧
        CacheOk parts leaf P (cachedCheck same parts leaf n S st) := by
  intro n
  induction n with
  | zero => intro S st P h; omega
  | succ n ih =>
    intro S st P hd hP hc
    simp only [cachedCheck]
    by_cases hhit : st.2.any (same S) = true
    · -- guard already set
      rw [if_pos hhit]
      refine ⟨?_, hc⟩
      constructor
      · intro hok
        refine ⟨hok, ?_⟩
        obtain ⟨T, hT, hs⟩ := List.any_eq_true.mp hhit
        have hST : S = T := hsame S T hs
        rcases hc hok T hT with hp | hf
        · have := hP T hp; rw [← hST] at this; omega
        · rw [hST]; exact hf
      · exact fun h => h.1
    · rw [if_neg hhit]
      -- the loop over the parts, with `S` itself among the sets being walked
      let P' : List AField → Prop := fun T => P T ∨ T = S
      have hP' : ∀ N, depthList N < depthList S → ∀ T, P' T → depthList N < depthList T := by
        intro N hN T hT
        rcases hT with hT | rfl
        · have := hP T hT; omega
        · exact hN
      have loop : ∀ (gs : List (List AField)), (∀ g ∈ gs, g ∈ parts S) → ∀ (st1 : Bool × Done),
          CacheOk parts leaf P' st1 →
          ((gs.foldl (cachedStep (cachedCheck same parts leaf n) leaf) st1).1 = true ↔
            st1.1 = true ∧ ∀ g ∈ gs, leaf g = true ∧ ((nestedSets g).isEmpty = true ∨ Full parts leaf (nestedSets g))) ∧
          CacheOk parts leaf P' (gs.foldl (cachedStep (cachedCheck same parts leaf n) leaf) st1) := by
        intro gs
        induction gs with
        | nil => intro _ st1 h1; exact ⟨by simp, h1⟩
        | cons g rest ihr =>
          intro hgs st1 h1
          simp only [List.foldl_cons]
          have hg := hgs g (by simp)
          have hst' : CacheOk parts leaf P' (st1.1 && leaf g, st1.2) := by
            intro hok
            simp only [Bool.and_eq_true] at hok
            exact h1 hok.1
          -- one step
          have step : ((cachedStep (cachedCheck same parts leaf n) leaf st1 g).1 = true ↔
                (st1.1 = true ∧ leaf g = true ∧ ((nestedSets g).isEmpty = true ∨ Full parts leaf (nestedSets g)))) ∧
              CacheOk parts leaf P' (cachedStep (cachedCheck same parts leaf n) leaf st1 g) := by
            unfold cachedStep
            cases he : (nestedSets g).isEmpty with
            | true =>
              simp only [if_true]
              refine ⟨?_, hst'⟩
              simp [Bool.and_eq_true]
            | false =>
              simp only [Bool.false_eq_true, if_false]
              have hlt := depth_nested_lt S g (hparts S g hg) he
              have := ih (nestedSets g) (st1.1 && leaf g, st1.2) P' (by omega) (hP' _ hlt) hst'
              refine ⟨?_, this.2⟩
              rw [this.1]
              simp only [Bool.and_eq_true, Bool.false_eq_true, false_or]
              exact ⟨fun ⟨⟨a, b⟩, c⟩ => ⟨a, b, c⟩, fun ⟨a, b, c⟩ => ⟨⟨a, b⟩, c⟩⟩
          have := ihr (fun g' hg' => hgs g' (by simp [hg'])) _ step.2
          refine ⟨?_, this.2⟩
          rw [this.1, step.1]
          simp only [List.mem_cons, forall_eq_or_imp]
          exact ⟨fun ⟨⟨a, b⟩, c⟩ => ⟨a, b, c⟩, fun ⟨a, b, c⟩ => ⟨⟨a, b⟩, c⟩⟩
      have hinit : CacheOk parts leaf P' (st.1, S :: st.2) := by
        intro hok T hT
        rcases List.mem_cons.mp hT with rfl | hT
        · exact Or.inl (Or.inr rfl)
        · exact (hc hok T hT).imp Or.inl id
      have hl := loop (parts S) (fun g hg => hg) _ hinit
      have hres : ((parts S).foldl (cachedStep (cachedCheck same parts leaf n) leaf) (st.1, S :: st.2)).1 = true ↔
          st.1 = true ∧ Full parts leaf S := by
        rw [hl.1, full_iff]
      refine ⟨hres, ?_⟩
      intro hok T hT
      rcases hl.2 hok T hT with (hp | rfl) | hf
      · exact Or.inl hp
      · exact Or.inr (hres.mp hok).2
      · exact Or.inr hf

/-! ### the two walks are instances -/

theorem shape_is_treeCheck : ∀ (n : Nat) (fs : List AField),
    sameResponseShapeByName n fs = treeCheck groupByOutputName shapeLeaf n fs := by
  intro n
  induction n with
  | zero => intro fs; rfl
  | succ n ih =>
    intro fs
    simp only [sameResponseShapeByName, treeCheck, shapeLeaf, ih]

theorem parents_is_treeCheck : ∀ (n : Nat) (fs : List AField),
    sameForCommonParentsByName n fs = treeCheck parentsParts parentsLeaf n fs := by
  intro n
  induction n with
  | zero => intro fs; rfl
  | succ n ih =>
    intro fs
    simp only [sameForCommonParentsByName, treeCheck, parentsLeaf, parentsParts, List.all_flatMap, ih]

theorem shapeParts_sub (S g : List AField) (h : g ∈ groupByOutputName S) : ∀ x ∈ g, x ∈ S := by
  obtain ⟨k, rfl⟩ := group_is_filter S g h
  intro x hx; exact (List.mem_filter.mp hx).1

theorem parentsParts_sub (S g : List AField) (h : g ∈ parentsParts S) : ∀ x ∈ g, x ∈ S := by
  unfold parentsParts at h
  obtain ⟨g0, hg0, hg⟩ := List.mem_flatMap.mp h
  intro x hx
  exact shapeParts_sub S g0 hg0 x (group_subset g0 g hg x hx)

/-- memo invariant between operations: every guarded set is accepted by the unguarded walk, unless a
    conflict was already reported -/
def MemoOk (st : Bool × Memo) : Prop :=
  CacheOk groupByOutputName shapeLeaf (fun _ => False) (st.1, st.2.shapeDone) ∧
    CacheOk parentsParts parentsLeaf (fun _ => False) (st.1, st.2.parentsDone)

theorem xingCachedOp_spec (same : List AField → List AField → Bool) (hsame : ∀ a b, same a b = true → a = b)
    (limit : Nat) (st : Bool × Memo) (fs : List AField) (hd : depthList fs < limit) (hm : MemoOk st) :
    ((xingCachedOp same limit st fs).1 = (st.1 && xingCanMerge limit fs)) ∧ MemoOk (xingCachedOp same limit st fs) := by
  have s1 := cachedCheck_spec same hsame groupByOutputName shapeLeaf shapeParts_sub limit fs
    (st.1, st.2.shapeDone) (fun _ => False) hd (fun _ h => h.elim) hm.1
  have hm2 : CacheOk parentsParts parentsLeaf (fun _ => False)
      ((cachedCheck same groupByOutputName shapeLeaf limit fs (st.1, st.2.shapeDone)).1, st.2.parentsDone) := by
    intro hok
    exact hm.2 (s1.1.mp hok).1
  have s2 := cachedCheck_spec same hsame parentsParts parentsLeaf parentsParts_sub limit fs
    (_, st.2.parentsDone) (fun _ => False) hd (fun _ h => h.elim) hm2
  have e1 : Full groupByOutputName shapeLeaf fs ↔ sameResponseShapeByName limit fs = true := by
    rw [shape_is_treeCheck]
    exact ⟨fun h => h limit, full_of_treeCheck _ _ shapeParts_sub limit fs hd⟩
  have e2 : Full parentsParts parentsLeaf fs ↔ sameForCommonParentsByName limit fs = true := by
    rw [parents_is_treeCheck]
    exact ⟨fun h => h limit, full_of_treeCheck _ _ parentsParts_sub limit fs hd⟩
  refine ⟨?_, ?_, ?_⟩
  · rw [Bool.eq_iff_iff]
    simp only [xingCachedOp, xingCanMerge, Bool.and_eq_true]
    rw [s2.1, s1.1, e1, e2]
    exact ⟨fun ⟨⟨a, b⟩, c⟩ => ⟨a, b, c⟩, fun ⟨a, b, c⟩ => ⟨⟨a, b⟩, c⟩⟩
  · intro hok
    simp only [xingCachedOp] at hok ⊢
    exact s1.2 ((s2.1.mp hok).1)
  · simp only [xingCachedOp]
    exact s2.2

/-- TRANSPARENCY OF THE CACHE, whole document: with one validator (one cache) for all operations, and
    every operation's field tree below the recursion limit, no conflict is reported exactly when the
    unguarded algorithm accepts every operation -/
theorem xingCachedDoc_eq (same : List AField → List AField → Bool) (hsame : ∀ a b, same a b = true → a = b)
    (limit : Nat) (ops : List (List AField)) (hd : ∀ fs ∈ ops, depthList fs < limit) :
    xingCachedDoc same limit ops = ops.all (xingCanMerge limit) := by
  unfold xingCachedDoc
  have gen : ∀ (ops : List (List AField)) (st : Bool × Memo), (∀ fs ∈ ops, depthList fs < limit) → MemoOk st →
      (ops.foldl (xingCachedOp same limit) st).1 = (st.1 && ops.all (xingCanMerge limit)) := by
    intro ops
    induction ops with
    | nil => intro st _ _; simp
    | cons fs rest ih =>
      intro st hd hm
      have h1 := xingCachedOp_spec same hsame limit st fs (hd fs (by simp)) hm
      simp only [List.foldl_cons, List.all_cons]
      rw [ih _ (fun f hf => hd f (by simp [hf])) h1.2, h1.1, Bool.and_assoc]
  have := gen ops (true, { shapeDone := [], parentsDone := [] }) hd
    ⟨fun _ T hT => by simp at hT, fun _ T hT => by simp at hT⟩
  simpa using this

/-! ### the concrete identity -/
mutual
  theorem AField.beq_sound : ∀ (a b : AField), AField.beq a b = true → a = b
    | .mk k p o na s subs, .mk k' p' o' na' s' subs', h => by
      simp only [AField.beq, Bool.and_eq_true, beq_iff_eq] at h
      obtain ⟨⟨⟨⟨⟨h1, h2⟩, h3⟩, h4⟩, h5⟩, h6⟩ := h
      have := AField.beqList_sound subs subs' h6
      subst h1; subst h2; subst h3; subst h4; subst h5; subst this; rfl
  theorem AField.beqList_sound : ∀ (a b : List AField), AField.beqList a b = true → a = b
    | [], [], _ => rfl
    | a :: as, b :: bs, h => by
      simp only [AField.beqList, Bool.and_eq_true] at h
      rw [AField.beq_sound a b h.1, AField.beqList_sound as bs h.2]
    | [], _ :: _, h => by simp [AField.beqList] at h
    | _ :: _, [], h => by simp [AField.beqList] at h
end

end Apollo.ExecVal
