import ApolloModel.Proofs.ParserTree40
/-
C08 growth (pipeline), part 41: the exact recursion budget of an executable definition implies its well-formedness; the
item of the exact soundness calculus and the item of the tree calculus on the same tokens are the same executable
definition.
-/
set_option linter.unusedSimpArgs false
set_option linter.unusedVariables false
namespace Apollo.Parse.Exact
open Apollo.Rowan hiding Str
open Apollo.Lex hiding Str

theorem argsFit_wf {c : Bool} {b : Nat} {args : List (Ast.Str × Ast.Value)} (h : argsFit c b args) : Ast.wfArgs args = true :=
  argsOk_wf c args (fun a ha => (h a ha).1)

theorem dirsFit_wf {c : Bool} {b : Nat} {ds : List Ast.Directive} (h : dirsFit c b ds) : Ast.wfDirs ds = true :=
  dirsOk_wf c ds (fun d hd a ha => (h d hd a ha).1)

mutual
  theorem fitSel_wf : ∀ (s : Ast.Sel) (b : Nat), fitSel s b → Ast.wfSel s = true
    | .field _ _ args dirs sels, b, h => by
      simp only [fitSel] at h
      simp only [Ast.wfSel, Bool.and_eq_true]
      exact ⟨⟨argsFit_wf h.1, dirsFit_wf h.2.1⟩, fitSub_wf sels b h.2.2⟩
    | .spread nm dirs, b, h => by
      simp only [fitSel] at h
      simp only [Ast.wfSel, Bool.and_eq_true, bne_iff_ne, ne_eq]
      exact ⟨h.1, dirsFit_wf h.2⟩
    | .inline _ dirs sels, b, h => by
      simp only [fitSel] at h
      simp only [Ast.wfSel, Bool.and_eq_true]
      refine ⟨⟨dirsFit_wf h.1, fitSels_wf sels (b - 1) h.2.2.2⟩, ?_⟩
      cases sels with
      | nil => exact absurd rfl h.2.1
      | cons a r => rfl
  theorem fitSels_wf : ∀ (ss : Ast.Sels) (b : Nat), fitSels ss b → Ast.wfSels ss = true
    | .nil, _, _ => rfl
    | .cons s tl, b, h => by
      simp only [fitSels] at h
      simp only [Ast.wfSels, Bool.and_eq_true]
      exact ⟨fitSel_wf s b h.1, fitSels_wf tl b h.2⟩
  theorem fitSub_wf : ∀ (ss : Ast.Sels) (b : Nat), fitSub ss b → Ast.wfSels ss = true
    | .nil, _, _ => rfl
    | .cons s tl, b, h => by
      simp only [fitSub] at h
      simp only [Ast.wfSels, Bool.and_eq_true]
      exact ⟨fitSel_wf s (b - 1) h.2.1, fitSels_wf tl (b - 1) h.2.2⟩
end

theorem varsFit_wf {b : Nat} : ∀ (vars : List Ast.VarDef), (∀ v ∈ vars, varFit b v) → Ast.wfVarDefs vars = true
  | [], _ => rfl
  | v :: r, h => by
    simp only [Ast.wfVarDefs, Bool.and_eq_true]
    obtain ⟨_, hd, hdirs⟩ := h v (by simp)
    refine ⟨⟨?_, dirsFit_wf hdirs⟩, varsFit_wf r (fun x hx => h x (by simp [hx]))⟩
    cases hv : v.default with
    | none => rfl
    | some d => exact valueOk_wf true d (hd d hv).1

/-- **the exact budget of an executable definition implies its well-formedness** -/
theorem execFit_wf {rl : Nat} {d : Ast.Definition} (h : execFit rl d) : Ast.wfDefinition d = true := by
  cases d with
  | operation ty name vars dirs sels =>
    obtain ⟨hv, hd, hne, _, hf⟩ := h
    simp only [Ast.wfDefinition, Bool.and_eq_true]
    refine ⟨⟨⟨varsFit_wf vars hv, dirsFit_wf hd⟩, fitSels_wf sels _ hf⟩, ?_⟩
    cases sels with
    | nil => exact absurd rfl hne
    | cons a r => rfl
  | fragment name tc dirs sels =>
    obtain ⟨hn, hd, hne, _, hf⟩ := h
    simp only [Ast.wfDefinition, Bool.and_eq_true, bne_iff_ne, ne_eq]
    refine ⟨⟨⟨hn, dirsFit_wf hd⟩, fitSels_wf sels _ hf⟩, ?_⟩
    cases sels with
    | nil => exact absurd rfl hne
    | cons a r => rfl
  | _ => exact absurd h (by simp [execFit])

/-- **identification, executable definitions**: the item of the exact soundness calculus spelled by the same tokens as an
    executable definition of the tree calculus is that definition; so the definition is within the exact budget -/
theorem exec_item_fit (rl : Nat) (it : Ast.Item) (hw : Ast.wfDefinition it.2 = true) (hex : isExecutable it.2 = true)
    (cs : List Tok) (h1 : TokIs cs (Ast.tDefinition it.1 it.2)) (i' : DocItem) (h2 : TokIs cs i'.toks) (hf : itemFitX rl i') :
    execFit rl it.2 := by
  cases i' with
  | exec oe' d' =>
    have hf' : execFit rl d' := hf
    have hw' := execFit_wf hf'
    have hex' := execFit_executable hf'
    have heq : Ast.tDefinition oe' d' = Ast.tDefinition it.1 it.2 := tokIs_inj h2 h1
    have p1 := Ast.closed_roundtrip oe' d' (max (Ast.szDefinition d') (Ast.szDefinition it.2)) [] (exec_closed hex') hw' (Nat.le_max_left _ _)
    have p2 := Ast.closed_roundtrip it.1 it.2 (max (Ast.szDefinition d') (Ast.szDefinition it.2)) [] (exec_closed hex) hw (Nat.le_max_right _ _)
    rw [heq, p2] at p1
    simp only [Option.some.injEq, Prod.mk.injEq, and_true] at p1
    rw [p1]; exact hf'
  | loose l' =>
    exfalso
    have heq : l'.toks = Ast.tDefinition it.1 it.2 := tokIs_inj h2 h1
    have e1 := looseDef_tsStart l'
    have e2 := exec_head it.1 it.2 [] hex
    rw [List.append_nil, ← heq, e1] at e2
    cases e2

theorem definitionFit_exec {rl : Nat} {d : Ast.Definition} (hex : isExecutable d = true) (h : execFit rl d) : definitionFit rl d := by
  cases d <;> first | exact h | exact absurd hex (by simp [isExecutable])

/-- **exact soundness and the tree calculus on the same run, executable documents**: an accepted document whose tree holds
    executable definitions only — `from_cst` returns well-formed executable definitions, each within the EXACT recursion
    budget `rl` of the accepted run -/
theorem parseExecutableDocument_fit (rl : Nat) (src : Str) (root : Elem)
    (h : (parse .document none rl src).outcome = .tree root) (herr : (parse .document none rl src).errors = [])
    (hexec : ExecRoot root) :
    LexClean src ∧ ∃ (ts : List Tok) (e : Tok) (its : List Ast.Item), sig (srcToks src) = ts ++ [e] ∧ e.kind = .eof ∧
      its ≠ [] ∧ TokIs ts (Ast.itemsToks its) ∧ (∀ i ∈ its, Ast.wfDefinition i.2 = true ∧ definitionFit rl i.2) ∧
      (FromCst.fromCst root).1 = its.map (·.2) := by
  obtain ⟨hclean, ts, e, inner, h1, h2, hroot, items, hne, hts, hsig, hall⟩ :=
    parseDocument_cstS (fun n => defTrs_of_ts n TsAny (tsTrs n)) (fun n => defExactX_of_remaining (defRemaining_done n)) rl src root h herr
  have hall' : ∀ i ∈ items, ∃ (it : Ast.Item) (ed : Elem), TokIs i.1 (Ast.tDefinition it.1 it.2) ∧ Ast.wfDefinition it.2 = true ∧
      i.2 = [ed] ∧ DefConv it.2 ed ∧ definitionFit rl it.2 := by
    intro i hi
    obtain ⟨hq, i', hi1, hi2⟩ := hall i hi
    rcases hq with ⟨it, ed, a, b, c, d, e', _⟩ | ⟨l, ed, a, b, c, d⟩
    · exact ⟨it, ed, a, b, c, d, definitionFit_exec e' (exec_item_fit rl it b e' i.1 a i' hi1 hi2)⟩
    · exfalso
      obtain ⟨K, kcs, rfl, hk1, hk2⟩ := FromCst.defTree_kind l ed d
      have hmem : Elem.node K kcs ∈ inner := by
        apply FromCst.mem_sigE
        rw [hsig]
        exact List.mem_flatten.mpr ⟨i.2, List.mem_map.mpr ⟨i, hi, rfl⟩, by rw [c]; simp⟩
      have := hexec "DOCUMENT" inner hroot _ hmem (by rw [FromCst.nodeP_node]; exact hk1)
      rw [FromCst.nodeP_node, hk2] at this
      cases this
  obtain ⟨its, g1, g2, g3, g4⟩ := document_fromCst_of_itemsX (fun it => definitionFit rl it.2) root inner ts items hroot hne hts hsig hall'
  exact ⟨hclean, ts, e, its, h1, h2, g1, g2, g3, g4⟩

end Apollo.Parse.Exact
