import ApolloModel.Proofs.ParserTree7
import ApolloModel.Proofs.TypeText
/-
C08 growth (pipeline), part 8: stage (i) — the type entry point end to end.
`Parser::parse_type` (CST) followed by `impl Convert for cst::Type` (from_cst.rs) returns the type the tokens spell,
i.e. what the reference parser `pTy` returns on them; on the printed text of a well-formed type it returns that type.
-/
set_option linter.unusedSimpArgs false
set_option linter.unusedVariables false
namespace Apollo.Parse
open Apollo.Rowan hiding Str
open Apollo.Lex hiding Str
open Apollo.FromCst (TyTree ConvE cType size cType_tyTree)

/-- `tTy` is injective (both sides are read back by the reference parser) -/
theorem tTy_injective {t t' : Ast.Ty} (h : Ast.tTy t = Ast.tTy t') : t = t' := by
  have h1 := Ast.ty_roundtrip t (Ast.szTy t + Ast.szTy t') [] (by omega) (by simp)
  have h2 := Ast.ty_roundtrip t' (Ast.szTy t + Ast.szTy t') [] (by omega) (by simp)
  rw [h] at h1
  rw [h1] at h2
  simpa using h2

theorem map_some_inj {α : Type} : ∀ {a b : List α}, a.map some = b.map some → a = b
  | [], [], _ => rfl
  | [], _ :: _, h => by simp at h
  | _ :: _, [], h => by simp at h
  | x :: a, y :: b, h => by
    simp only [List.map_cons, List.cons.injEq, Option.some.injEq] at h
    rw [h.1, map_some_inj h.2]

/-- **stage (i)**: for an accepted source, the CST parser followed by the CST→AST conversion and the reference parser
    on the significant tokens return the same type -/
theorem parseType_fromCst_agrees (rl : Nat) (src : Str) (root : Elem)
    (h : (parse .type none rl src).outcome = .tree root) (herr : (parse .type none rl src).errors = []) :
    ∃ t ts e x, sig (srcToks src) = ts ++ [e] ∧ e.kind = .eof ∧ TokIs ts x ∧
      ConvE (fun R => @cType R (size root)) t root ∧ Ast.pTy (Ast.szTy t) x = some (t, []) := by
  obtain ⟨_, t, ts, e, h1, h2, h3, h4⟩ := parseType_cst rl src root h herr
  refine ⟨t, ts, e, Ast.tTy t, h1, h2, h3, cType_tyTree _ t root h4 (Nat.le_refl _), ?_⟩
  have := Ast.ty_roundtrip t (Ast.szTy t) [] (Nat.le_refl _) (by simp)
  simpa using this

/-- **pipeline_print_parse_type**: the CST parser and the conversion read the printed text of every type `t` (names
    valid, nesting within the recursion limit) back to `t` -/
theorem pipeline_print_parse_type (t : Ast.Ty) (hwf : Ast.tyNamesWf t = true) (rl : Nat) (hd : tyDepth t ≤ rl) :
    (parse .type none rl (Ast.tyText t)).errors = [] ∧
    ∃ root, (parse .type none rl (Ast.tyText t)).outcome = .tree root ∧ TyTree t root ∧
      ConvE (fun R => @cType R (size root)) t root := by
  have herr := parseType_tyText rl t hwf hd
  obtain ⟨root, hroot⟩ := parseType_tree none rl (Ast.tyText t)
  obtain ⟨_, t', ts, e, h1, h2, h3, h4⟩ := parseType_cst rl (Ast.tyText t) root hroot herr
  -- the significant tokens of the printed text are those of `t`
  have hkd : (sig (srcToks (Ast.tyText t))).map kd = tyKDs t ++ [(.eof, [])] := by
    rw [← lexSig_eq]; exact lexSig_tyText t hwf
  rw [h1, List.map_append] at hkd
  have hts : ts.map kd = tyKDs t := by
    have := List.append_inj' hkd (by simp)
    exact this.1
  have hty : IsTy ts t := by
    unfold IsTy
    rw [← map_astOf_kd, hts]
    exact tyKDs_astOf t
  have h3' := isTy_tokIs ts _ hty
  have : t' = t := by
    apply tTy_injective
    unfold TokIs at h3 h3'
    rw [h3] at h3'
    exact map_some_inj h3'
  subst this
  exact ⟨herr, root, hroot, h4, cType_tyTree _ t' root h4 (Nat.le_refl _)⟩

end Apollo.Parse
