import ApolloModel.Proofs.ParserDoc4
/-
C05 growth (top level), part 5: the token-level predicate `IsDocument` (a non-empty list of definitions, each written
in the long form or — for an anonymous query without variables and directives — in the shorthand form `{ … }`,
at any position), and its relation to C08's reference parser `pDocument`.
-/
set_option linter.unusedSimpArgs false
namespace Apollo.Ast

/-- a definition together with the form it is written in (`true`: the shorthand form if it applies) -/
abbrev Item := Bool × Definition

def itemsToks (its : List Item) : List Tok := (its.map (fun i => tDefinition i.1 i.2)).flatten

/-- **IsDocument**: the token list is `Definition+`, each definition printed by C08's `tDefinition`, in either form -/
def IsDocument (x : List Tok) : Prop := ∃ its : List Item, its ≠ [] ∧ x = itemsToks its

/-- `tDocument`, the shape the serializer produces, is the special case "shorthand only in front" -/
theorem tDocument_items (oe : Bool) (d : Definition) (r : List Definition) :
    tDocument oe (d :: r) = itemsToks ((oe, d) :: r.map (fun d => (false, d))) := by
  simp [tDocument, itemsToks, List.map_map, Function.comp_def]

/-- definitions whose last token is always `}`: operations, fragments, schema definitions -/
def closed : Definition → Bool
  | .operation .. => true
  | .fragment .. => true
  | .schemaDef .. => true
  | _ => false

theorem closed_roundtrip_long (d : Definition) (f : Nat) (rest : List Tok) (hc : closed d = true)
    (h : wfDefinition d = true) (hs : szDefinition d ≤ f) :
    pDefinition f (tDefinition false d ++ rest) = some (d, rest) := by
  cases d with
  | operation ty name vars dirs sels =>
    simp only [wfDefinition, Bool.and_eq_true] at h
    simp only [szDefinition] at hs
    have := operation_roundtrip ty name vars dirs sels f rest h.1.1.1 h.1.1.2 h.1.2 (nonNil_ne h.2) (by omega)
    simp only [tDefinition, isShorthand, Bool.false_and, Bool.false_eq_true, if_false, List.cons_append,
      List.append_assoc] at this ⊢
    rw [pDefinition_op]
    exact this
  | fragment name tc dirs sels =>
    simp only [wfDefinition, Bool.and_eq_true, bne_iff_ne, ne_eq] at h
    simp only [szDefinition] at hs
    obtain ⟨b, c⟩ := dirsSelSet_roundtrip dirs sels f rest h.1.1.2 h.1.2 (nonNil_ne h.2) (by omega)
    simp only [tDefinition, List.cons_append, List.append_assoc] at b c ⊢
    simp [pDefinition, opTypeOf, h.1.1.1, b, c]
  | schemaDef desc dirs roots =>
    simp only [wfDefinition, Bool.and_eq_true, Bool.not_eq_true', List.isEmpty_eq_false_iff] at h
    simp only [szDefinition] at hs
    have b := directives_roundtrip dirs f (.p .lCurly :: tRootOpItems roots ++ .p .rCurly :: rest) h.1 (by omega)
      (by simp [dirFollow])
    have c := rootOps_roundtrip roots f rest h.2 (by omega)
    simp only [tDefinition, List.cons_append, List.append_assoc, List.nil_append] at b c ⊢
    rw [typeSystem_dispatch f desc _ _ (by simp [opTypeOf]) (by simp) (by simp)]
    simp [pTypeSystemRest, b, c]
  | _ => simp [closed] at hc

/-- a closed definition reads back whatever follows it — in particular a shorthand query -/
theorem closed_roundtrip (oe : Bool) (d : Definition) (f : Nat) (rest : List Tok) (hc : closed d = true)
    (h : wfDefinition d = true) (hs : szDefinition d ≤ f) :
    pDefinition f (tDefinition oe d ++ rest) = some (d, rest) := by
  cases oe with
  | false => exact closed_roundtrip_long d f rest hc h hs
  | true =>
    cases d with
    | operation ty name vars dirs sels =>
      by_cases hsh : isShorthand true ty name vars dirs = true
      · simp only [wfDefinition, Bool.and_eq_true] at h
        simp only [szDefinition] at hs
        exact shorthand_roundtrip ty name vars dirs sels f rest hsh h.1.2 (nonNil_ne h.2) (by omega)
      · rw [tDefinition_noShorthand _ (by
          intro ty' name' vars' dirs' sels' e
          cases e
          simpa using hsh)]
        exact closed_roundtrip_long _ f rest hc h hs
    | _ =>
      rw [tDefinition_noShorthand _ (by intro ty' name' vars' dirs' sels' e; cases e)]
      exact closed_roundtrip_long _ f rest hc h hs

/-- the decomposition is the one the reference parser finds: every definition is closed, or what follows it is the
    end of the list, a description or a definition keyword (i.e. not a shorthand query) -/
def ItemsFollowOk : List Item → Prop
  | [] => True
  | i :: r => (closed i.2 = true ∨ defFollow (itemsToks r) = true) ∧ ItemsFollowOk r

theorem itemsToks_cons (i : Item) (r : List Item) : itemsToks (i :: r) = tDefinition i.1 i.2 ++ itemsToks r := by
  simp [itemsToks]

theorem items_roundtrip : ∀ (its : List Item) (f : Nat), (∀ i ∈ its, wfDefinition i.2 = true) →
    szDefinitions (its.map (·.2)) ≤ f → ItemsFollowOk its → pDefinitions f (itemsToks its) = some (its.map (·.2))
  | [], f + 1, _, _, _ => by simp [itemsToks, pDefinitions]
  | i :: r, f + 1, h, hs, hf => by
      simp only [List.map_cons, szDefinitions] at hs
      have hw : wfDefinition i.2 = true := h i (by simp)
      have h1 : pDefinition f (tDefinition i.1 i.2 ++ itemsToks r) = some (i.2, itemsToks r) := by
        rcases hf.1 with hc | hd
        · exact closed_roundtrip i.1 i.2 f _ hc hw (by omega)
        · exact first_definition_roundtrip i.1 i.2 f _ hw (by omega) hd
      have h2 := items_roundtrip r f (fun j hj => h j (by simp [hj])) (by omega) hf.2
      rw [itemsToks_cons]
      exact pDefinitions_cons f _ (tDefinition_ne_nil i.1 i.2 _) i.2 _ _ h1 h2
  | [], 0, _, hs, _ | _ :: _, 0, _, hs, _ => by simp [szDefinitions] at hs

/-- **the reference parser agrees**: on the tokens of a document written as the items `its`, `pDocument` returns
    exactly the definitions of `its` -/
theorem items_document_roundtrip (its : List Item) (f : Nat) (hne : its ≠ []) (h : ∀ i ∈ its, wfDefinition i.2 = true)
    (hs : szDefinitions (its.map (·.2)) ≤ f) (hf : ItemsFollowOk its) :
    pDocument f (itemsToks its) = some (its.map (·.2)) := by
  have := items_roundtrip its f h hs hf
  unfold pDocument
  rw [this]
  cases its with
  | nil => exact absurd rfl hne
  | cons i r => rfl

/-- executable documents (operations and fragments only) satisfy `ItemsFollowOk` in every decomposition -/
theorem itemsFollowOk_of_closed : ∀ (its : List Item), (∀ i ∈ its, closed i.2 = true) → ItemsFollowOk its
  | [], _ => trivial
  | i :: r, h => ⟨Or.inl (h i (by simp)), itemsFollowOk_of_closed r (fun j hj => h j (by simp [hj]))⟩

/-- so does the shape the serializer produces (shorthand only in front) -/
theorem followOk_tDocument (oe : Bool) (d : Definition) (r : List Definition) :
    ItemsFollowOk ((oe, d) :: r.map (fun d => (false, d))) := by
  have key : ∀ r : List Definition, ItemsFollowOk (r.map (fun d => ((false, d) : Item))) ∧
      defFollow (itemsToks (r.map (fun d => ((false, d) : Item)))) = true := by
    intro r
    induction r with
    | nil => exact ⟨trivial, rfl⟩
    | cons a r ih =>
      refine ⟨⟨Or.inr ih.2, ih.1⟩, ?_⟩
      simp only [List.map_cons, itemsToks_cons]
      exact defFollow_tDefinition a _
  exact ⟨Or.inr (key r).2, (key r).1⟩

end Apollo.Ast

namespace Apollo.Parse
open Apollo.Rowan hiding Str
open Apollo.Lex hiding Str

/-- one definition as `document()` accepts it, together with the way it is written -/
inductive DocItem where
  /-- an operation or fragment definition; `oe = true`: in the shorthand form when it applies -/
  | exec (oe : Bool) (d : Ast.Definition)
  /-- a type-system definition or extension, up to a leading `&` / `|` and a root operation type without its name -/
  | loose (l : LooseDef)

def DocItem.toks : DocItem → List Ast.Tok
  | .exec oe d => Ast.tDefinition oe d
  | .loose l => l.toks

/-- what is known of the parts: selection sets are non-empty, a fragment is not named `on` -/
def DocItem.ok : DocItem → Prop
  | .exec _ d => (∃ ty name vars dirs sels, d = .operation ty name vars dirs sels ∧ sels ≠ .nil) ∨
      (∃ name tc dirs sels, d = .fragment name tc dirs sels ∧ sels ≠ .nil ∧ name ≠ sOnP)
  | .loose _ => True

def docToks (its : List DocItem) : List Ast.Tok := (its.map DocItem.toks).flatten

/-- **IsAcceptedDocument**: `Definition+`, each definition in either form, up to the two documented liberties -/
def IsAcceptedDocument (x : List Ast.Tok) : Prop := ∃ its : List DocItem, its ≠ [] ∧ (∀ i ∈ its, i.ok) ∧ x = docToks its

/-- the definition C08's printer would write, when the accepted text uses none of the liberties -/
def DocItem.strict : DocItem → Option Ast.Item
  | .exec oe d => some (oe, d)
  | .loose l => l.strict.map (fun d => (false, d))

def strictItems : List DocItem → Option (List Ast.Item)
  | [] => some []
  | i :: r =>
    match i.strict, strictItems r with
    | some a, some b => some (a :: b)
    | _, _ => none

theorem DocItem.toks_strict (i : DocItem) (a : Ast.Item) (h : i.strict = some a) : i.toks = Ast.tDefinition a.1 a.2 := by
  cases i with
  | exec oe d => simp only [DocItem.strict, Option.some.injEq] at h; subst h; rfl
  | loose l =>
    simp only [DocItem.strict, Option.map_eq_some_iff] at h
    obtain ⟨d, hd, rfl⟩ := h
    exact l.toks_strict d hd

theorem strictItems_toks : ∀ (its : List DocItem) (items : List Ast.Item), strictItems its = some items →
    docToks its = Ast.itemsToks items ∧ items.length = its.length
  | [], items, h => by simp only [strictItems, Option.some.injEq] at h; subst h; exact ⟨rfl, rfl⟩
  | i :: r, items, h => by
    unfold strictItems at h
    cases hi : i.strict with
    | none => simp [hi] at h
    | some a =>
      cases hr : strictItems r with
      | none => simp [hi, hr] at h
      | some b =>
        simp only [hi, hr, Option.some.injEq] at h
        subst h
        obtain ⟨ih, hl⟩ := strictItems_toks r b hr
        refine ⟨?_, by simp [hl]⟩
        rw [Ast.itemsToks_cons, ← ih, ← i.toks_strict a hi]
        simp [docToks]

theorem shorthand_toks (sels : Ast.Sels) : Ast.tDefinition true (.operation .query none [] [] sels) = Ast.tSelSet sels := by
  simp [Ast.tDefinition, Ast.isShorthand, Ast.tVarDefs, Ast.tDirectives]

theorem isDef_item (x : List Ast.Tok) (h : IsDef x) : ∃ i : DocItem, i.ok ∧ x = i.toks := by
  rcases h with ⟨sels, hne, ⟨ty, name, vars, dirs, e⟩ | e⟩ | ⟨name, tc, dirs, sels, hne, hn, e⟩ | ⟨l, e⟩
  · exact ⟨.exec false (.operation ty name vars dirs sels), Or.inl ⟨ty, name, vars, dirs, sels, rfl, hne⟩, e⟩
  · exact ⟨.exec true (.operation .query none [] [] sels), Or.inl ⟨_, _, _, _, sels, rfl, hne⟩, by rw [e]; exact (shorthand_toks sels).symm⟩
  · exact ⟨.exec false (.fragment name tc dirs sels), Or.inr ⟨name, tc, dirs, sels, rfl, hne, hn⟩, e⟩
  · exact ⟨.loose l, trivial, e⟩

theorem isDefs_items (x : List Ast.Tok) (h : IsDefs x) : ∃ its : List DocItem, (∀ i ∈ its, i.ok) ∧ x = docToks its := by
  obtain ⟨items, rfl, hall⟩ := h
  induction items with
  | nil => exact ⟨[], by simp, by simp [docToks]⟩
  | cons a r ih =>
    obtain ⟨its, hw, he⟩ := ih (fun i hi => hall i (by simp [hi]))
    obtain ⟨i, hok, ha⟩ := isDef_item a (hall a (by simp))
    refine ⟨i :: its, ?_, ?_⟩
    · intro j hj
      rcases List.mem_cons.mp hj with rfl | hj
      · exact hok
      · exact hw j hj
    · rw [List.flatten_cons, he, ha]; simp [docToks]

theorem isDocumentToks_accepted (x : List Ast.Tok) (h : IsDocumentToks x) : IsAcceptedDocument x := by
  obtain ⟨hne, hd⟩ := h
  obtain ⟨its, hw, rfl⟩ := isDefs_items x hd
  refine ⟨its, ?_, hw, rfl⟩
  rintro rfl
  exact hne rfl

/-- **document_accepted_is_in_grammar** (unconditional).  If the model of `Parser::parse` returns a tree and reports
    no error, the source lexes cleanly and its significant tokens are an accepted document `docToks its` followed by the
    end-of-input token.  Moreover, when `its` uses neither of the two liberties (`strictItems its = some items`), the
    tokens are `Ast.itemsToks items` — every definition printed by C08's `tDefinition`, in the long or shorthand form —
    and C08's reference parser `pDocument` returns exactly the definitions of `items` (given their well-formedness,
    which the per-production lemmas do not export, and `ItemsFollowOk`). -/
theorem document_accepted_items (rl : Nat) (src : Str) (root : Elem)
    (h : (parse .document none rl src).outcome = .tree root) (herr : (parse .document none rl src).errors = []) :
    LexClean src ∧ ∃ (ts : List Tok) (e : Tok) (its : List DocItem), sig (srcToks src) = ts ++ [e] ∧ e.kind = .eof ∧
      its ≠ [] ∧ (∀ i ∈ its, i.ok) ∧ TokIs ts (docToks its) ∧
      ∀ items, strictItems its = some items →
        items ≠ [] ∧ docToks its = Ast.itemsToks items ∧
        ((∀ i ∈ items, Ast.wfDefinition i.2 = true) → Ast.ItemsFollowOk items → ∀ f, Ast.szDefinitions (items.map (·.2)) ≤ f →
          Ast.pDocument f (Ast.itemsToks items) = some (items.map (·.2))) := by
  obtain ⟨hl, ts, x, e, h1, h2, h3, h4⟩ := document_accept_sound' rl src root h herr
  obtain ⟨its, hne, hok, rfl⟩ := isDocumentToks_accepted x h4
  refine ⟨hl, ts, e, its, h1, h2, hne, hok, h3, ?_⟩
  intro items hs
  obtain ⟨ht, hlen⟩ := strictItems_toks its items hs
  have hne' : items ≠ [] := by
    rintro rfl
    cases its with
    | nil => exact hne rfl
    | cons a b => simp at hlen
  exact ⟨hne', ht, fun hw hf f hsz => Ast.items_document_roundtrip items f hne' hw hsz hf⟩

end Apollo.Parse
