import ApolloModel.Proofs.ParserDef5
/-
C05 growth (type-system definitions), part 6: braced / parenthesised non-empty lists of items, and the
productions built from them: arguments definition, field definition(s), input fields, enum values.
-/
set_option linter.unusedSimpArgs false
namespace Apollo.Parse
open Apollo.Rowan hiding Str
open Apollo.Lex hiding Str

def bracedTail (p : Kind → Bool) (item : PI Unit) (closeK : Kind) (closeSk : SK) : PI Unit :=
  peekWhile (itemsBody p item) >>= fun _ => expect closeK closeSk

def bracedBody (openSk : SK) (first : Option Kind → Bool) (p : Kind → Bool) (item : PI Unit) (closeK : Kind) (closeSk : SK) : PI Unit :=
  bump openSk >>= fun _ => peek >>= fun k =>
    if first k then (item >>= fun _ => bracedTail p item closeK closeSk) else (err >>= fun _ => bracedTail p item closeK closeSk)

def BracedR (xo xc : Ast.Tok) (Q : List Ast.Tok → Prop) (x : List Ast.Tok) : Prop :=
  ∃ items : List (List Ast.Tok), items ≠ [] ∧ x = xo :: items.flatten ++ [xc] ∧ ∀ i ∈ items, Q i

theorem acc_braced (openK : Kind) (openSk : SK) (xo : Ast.Tok) (closeK : Kind) (closeSk : SK) (xc : Ast.Tok)
    (first : Option Kind → Bool) (p : Kind → Bool) (item : PI Unit) (Q : List Ast.Tok → Prop)
    (hxo : ∀ t : Tok, t.kind = openK → astOfV t = some xo) (hnio : isIgnoredKind openK = false) (hneo : openK ≠ .eof)
    (hxc : ∀ t : Tok, t.kind = closeK → astOfV t = some xc) (hnic : isIgnoredKind closeK = false) (hnec : closeK ≠ .eof)
    (hfirst : ∀ k, first k = true → ∃ kk, k = some kk ∧ p kk = true)
    (hitem : Acc AtEof (KindP p) item (fun _ => Q)) :
    Acc (fun _ => False) (KindP (· == openK)) (bracedBody openSk first p item closeK closeSk) (fun _ => BracedR xo xc Q) := by
  unfold bracedBody
  have gtail : Good (bracedTail p item closeK closeSk) :=
    good_bind _ _ (good_peekWhile _ (good_itemsBody p item hitem.1)) (fun _ => good_expect _ _)
  have hinner : Acc (fun _ => False) (fun _ => True)
      (peek >>= fun k => if first k then (item >>= fun _ => bracedTail p item closeK closeSk)
        else (err >>= fun _ => bracedTail p item closeK closeSk))
      (fun _ x => ∃ items : List (List Ast.Tok), items ≠ [] ∧ x = items.flatten ++ [xc] ∧ ∀ i ∈ items, Q i) := by
    apply acc_peek
    intro k
    apply acc_ite
    · intro hk
      obtain ⟨kk, hkk, hpk⟩ := hfirst k hk
      have hm : Acc AtEof (fun q => True ∧ q.head?.map (·.kind) = k) (item >>= fun _ => peekWhile (itemsBody p item))
          (fun _ x => ∃ (a : Unit) (x1 x2 : List Ast.Tok), x = x1 ++ x2 ∧ Q x1 ∧ ItemsR Q x2) := by
        refine acc_bind early_atEof (hitem.mono ?_ (fun _ _ h => h)) (fun _ => acc_itemsWhile early_atEof p item Q hitem)
        intro q ⟨_, hq⟩
        rw [hkk] at hq
        cases hh : q.head? with
        | none => rw [hh] at hq; cases hq
        | some t => rw [hh] at hq; exact ⟨t, hh, by simp at hq; rw [hq]; exact hpk⟩
      have hc := acc_close closeK closeSk xc hxc hnic hnec hm
      refine (acc_of_run_eq (fun s => run_assoc item _ _ s) hc).mono (fun _ h => h) ?_
      rintro _ x ⟨_, x1, e, _, y1, y2, e2, hq1, items, hi, hall⟩
      refine ⟨y1 :: items, by simp, by rw [e, e2, hi]; simp, ?_⟩
      intro i hi'
      rcases List.mem_cons.mp hi' with rfl | hi'
      · exact hq1
      · exact hall i hi'
    · intro _
      exact acc_err' _ gtail
  have hb := acc_bumpKind (E := fun _ => False) openK openSk xo hxo hnio hneo
  refine (acc_bind early_false hb (fun _ => hinner)).mono (fun _ h => h) ?_
  rintro _ x ⟨_, x1, x2, e, h1, items, hne, h2, hall⟩
  exact ⟨items, hne, by rw [e, h1, h2]; rfl, hall⟩

theorem isNameOrString_first : ∀ k, isNameOrString k = true → ∃ kk, k = some kk ∧ isNameOrStringK kk = true := by
  intro k hk
  cases k with
  | none => simp [isNameOrString] at hk
  | some kk => exact ⟨kk, rfl, by simpa [isNameOrString, isNameOrStringK] using hk⟩

/-- flattening items of a given shape into the printer's item list -/
theorem flatten_items {β : Type} (Q : List Ast.Tok → Prop) (pr : β → List Ast.Tok) (prAll : List β → List Ast.Tok)
    (hnil : prAll [] = []) (hcons : ∀ v r, prAll (v :: r) = pr v ++ prAll r)
    (hQ : ∀ x, Q x → ∃ v, x = pr v) : ∀ items : List (List Ast.Tok), (∀ i ∈ items, Q i) →
      ∃ vs : List β, items.flatten = prAll vs ∧ vs.length = items.length
  | [], _ => ⟨[], by simp [hnil], rfl⟩
  | x :: items, h => by
    obtain ⟨v, hv⟩ := hQ x (h x (by simp))
    obtain ⟨vs, hvs, hl⟩ := flatten_items Q pr prAll hnil hcons hQ items (fun i hi => h i (by simp [hi]))
    exact ⟨v :: vs, by simp [hcons, hv, hvs], by simp [hl]⟩

/-! ### arguments definition -/

theorem argumentsDefinitionBody_eq (n : Nat) : argumentsDefinitionBody n =
    bracedBody "L_PAREN" isNameOrString isNameOrStringK (inputValueDefinition n) .rParen "R_PAREN" := rfl

theorem acc_argsDefBody (n : Nat) :
    Acc (fun _ => False) (KindP (· == .lParen)) (argumentsDefinitionBody n)
      (fun _ x => ∃ args : List Ast.InputValueDef, args ≠ [] ∧ x = Ast.tArgsDef args) := by
  rw [argumentsDefinitionBody_eq]
  refine (acc_braced .lParen "L_PAREN" (.p .lParen) .rParen "R_PAREN" (.p .rParen) isNameOrString isNameOrStringK
    (inputValueDefinition n) (fun x => ∃ v : Ast.InputValueDef, x = Ast.tIVD v)
    (by intro t ht; simp [astOfV, ht]) rfl (by decide) (by intro t ht; simp [astOfV, ht]) rfl (by decide)
    isNameOrString_first (acc_ivd n)).mono (fun _ h => h) ?_
  rintro _ x ⟨items, hne, e, hall⟩
  obtain ⟨vs, hvs, hl⟩ := flatten_items _ Ast.tIVD Ast.tIVDItems rfl (fun _ _ => rfl) (fun _ h => h) items hall
  have hvne : vs ≠ [] := by
    intro h0; rw [h0] at hl; exact hne (List.eq_nil_of_length_eq_zero hl.symm)
  refine ⟨vs, hvne, ?_⟩
  have : vs.isEmpty = false := by cases vs with | nil => exact absurd rfl hvne | cons _ _ => rfl
  rw [e, hvs]; simp [Ast.tArgsDef, this]

theorem lParen_sig : ∀ k : Kind, (k == Kind.lParen) = true → isIgnoredKind k = false := by
  intro k hk; have : k = .lParen := by simpa using hk
  subst this; rfl

theorem acc_argumentsDefinition (n : Nat) :
    Acc (fun _ => False) (KindP (· == .lParen)) (argumentsDefinition n)
      (fun _ x => ∃ args : List Ast.InputValueDef, args ≠ [] ∧ x = Ast.tArgsDef args) := by
  unfold argumentsDefinition
  exact acc_withNode early_false _ (kindP_sig _ lParen_sig) (acc_argsDefBody n)

end Apollo.Parse
