import ApolloModel.Spec.SchemaBuildRules
import ApolloModel.Proofs.StickyBuild
/-
C14 growth 3: `SchemaBuilder` (one pass over the definitions with a queue of orphan extensions,
Model/SchemaBuild.lean) reports no error iff the document satisfies the specification's two-pass
reading `BuildSpec` (Spec/SchemaBuildRules.lean).  Loop invariant: after a prefix `pre` that produced no
error, the builder's state is the one the specification's reading functions describe (`Inv`), and the
prefix satisfies the order-free part of the specification restricted to what is known so far
(`PrefixSpec`).  `finishRaw` adds exactly the rules that need the whole document.
-/
namespace Apollo.SchemaBuild

/-! ### reverse induction -/

theorem snoc_induction {α : Type} {P : List α → Prop} (nil : P []) (snoc : ∀ l a, P l → P (l ++ [a])) :
    ∀ l, P l := by
  intro l
  have h : ∀ r : List α, P r.reverse := by
    intro r
    induction r with
    | nil => exact nil
    | cons a r ih => rw [List.reverse_cons]; exact snoc _ _ ih
  have := h l.reverse
  rwa [List.reverse_reverse] at this

/-! ### the reading functions on `pre ++ [d]` -/

def names (its : List Item) : List Name := its.map (·.name)

theorem typeDefNames_snoc (pre : List Def) (d : Def) :
    typeDefNames (pre ++ [d]) = typeDefNames pre ++ (if d.defKind.isSome then [d.name] else []) := by
  unfold typeDefNames
  rw [List.filter_append, List.map_append]
  by_cases h : d.defKind.isSome <;> simp [h]

theorem dirDefNames_snoc (pre : List Def) (d : Def) :
    dirDefNames (pre ++ [d]) = dirDefNames pre ++ (if d.isDirectiveDef then [d.name] else []) := by
  unfold dirDefNames
  rw [List.filter_append, List.map_append]
  by_cases h : d.isDirectiveDef <;> simp [h]

theorem definedKind_snoc (pre : List Def) (d : Def) (n : Name) :
    definedKind (pre ++ [d]) n = (definedKind pre n).or (if d.name == n then d.defKind else none) := by
  unfold definedKind
  rw [List.findSome?_append]
  simp

theorem kindOfName_snoc (pre : List Def) (d : Def) (n : Name) :
    kindOfName (pre ++ [d]) n =
      match kindOfName pre n with
      | some k => some k
      | none => if d.name == n then d.defKind else none := by
  unfold kindOfName
  rw [definedKind_snoc]
  cases builtinKind n with
  | some k => rfl
  | none =>
    cases definedKind pre n with
    | some k => rfl
    | none => simp

theorem partsOf_snoc (pre : List Def) (d : Def) (n : Name) :
    partsOf (pre ++ [d]) n = partsOf pre n ++ (if d.isTypePart && d.name == n then [d] else []) := by
  unfold partsOf
  rw [List.filter_append]
  by_cases h : (d.isTypePart && d.name == n) = true
  · simp [h]
  · simp [h]

theorem memberNames_snoc (pre : List Def) (d : Def) (n : Name) :
    memberNames (pre ++ [d]) n = memberNames pre n ++ (if d.isTypePart && d.name == n then names d.members else []) := by
  unfold memberNames
  rw [partsOf_snoc, List.flatMap_append]
  by_cases h : (d.isTypePart && d.name == n) = true
  · simp [h, names]
  · simp [h]

theorem ifaceNames_snoc (pre : List Def) (d : Def) (n : Name) :
    ifaceNames (pre ++ [d]) n = ifaceNames pre n ++ (if d.isTypePart && d.name == n then names d.interfaces else []) := by
  unfold ifaceNames
  rw [partsOf_snoc, List.flatMap_append]
  by_cases h : (d.isTypePart && d.name == n) = true
  · simp [h, names]
  · simp [h]

theorem schemaDefCount_snoc (pre : List Def) (d : Def) :
    schemaDefCount (pre ++ [d]) = schemaDefCount pre + (if d.isSchemaDef then 1 else 0) := by
  unfold schemaDefCount
  rw [List.filter_append, List.length_append]
  by_cases h : d.isSchemaDef <;> simp [h]

theorem schemaExts_snoc (pre : List Def) (d : Def) :
    schemaExts (pre ++ [d]) = schemaExts pre ++ (if d.isSchemaExt then [d] else []) := by
  unfold schemaExts
  rw [List.filter_append]
  by_cases h : d.isSchemaExt <;> simp [h]

theorem schemaOpNames_snoc (pre : List Def) (d : Def) :
    schemaOpNames (pre ++ [d]) = schemaOpNames pre ++ (if d.isSchemaPart then names d.members else []) := by
  unfold schemaOpNames
  rw [List.filter_append, List.flatMap_append]
  by_cases h : d.isSchemaPart <;> simp [h, names]

theorem builtinKind_none_iff (n : Name) : builtinKind n = none ↔ n ∉ builtinTypeNames := by
  unfold builtinKind builtinTypeNames findType
  rw [Option.map_eq_none_iff, List.find?_eq_none]
  simp only [List.mem_map, not_exists, not_and, beq_iff_eq]

theorem definedKind_none_iff (ds : List Def) (n : Name) : definedKind ds n = none ↔ n ∉ typeDefNames ds := by
  unfold definedKind typeDefNames
  rw [List.findSome?_eq_none_iff]
  simp only [List.mem_map, List.mem_filter, not_exists, not_and, and_imp]
  constructor
  · intro h d hd hk heq
    have := h d hd
    rw [heq] at this
    simp at this
    rw [this] at hk; cases hk
  · intro h d hd
    by_cases heq : d.name = n
    · have := fun hk => h d hd hk heq
      cases hdk : d.defKind with
      | none => simp
      | some k => rw [hdk] at this; simp at this
    · simp [heq]

theorem kindOfName_none_iff (ds : List Def) (n : Name) :
    kindOfName ds n = none ↔ n ∉ builtinTypeNames ++ typeDefNames ds := by
  rw [List.mem_append, not_or, ← builtinKind_none_iff, ← definedKind_none_iff]
  unfold kindOfName
  cases builtinKind n with
  | some k => simp
  | none => simp


theorem kindOfName_snoc_noDef (pre : List Def) (d : Def) (n : Name) (h : d.defKind = none) :
    kindOfName (pre ++ [d]) n = kindOfName pre n := by
  rw [kindOfName_snoc, h]
  cases kindOfName pre n <;> simp

theorem kindOfName_snoc_other (pre : List Def) (d : Def) (n : Name) (h : ¬ d.name = n) :
    kindOfName (pre ++ [d]) n = kindOfName pre n := by
  rw [kindOfName_snoc]
  cases kindOfName pre n <;> simp [h]

theorem kindOfName_snoc_known (pre : List Def) (d : Def) (n : Name) (k : Kind) (h : kindOfName pre n = some k) :
    kindOfName (pre ++ [d]) n = some k := by
  rw [kindOfName_snoc, h]

theorem kindOfName_snoc_new (pre : List Def) (d : Def) (h : kindOfName pre d.name = none) :
    kindOfName (pre ++ [d]) d.name = d.defKind := by
  rw [kindOfName_snoc, h]; simp

/-! ### the order-free specification on a prefix -/

/-- the type part of the specification, restricted to what a prefix of the document can know: an extension of
    a name that is not defined *yet* is not judged -/
structure PT (pre : List Def) : Prop where
  uniqueTypes : (builtinTypeNames ++ typeDefNames pre).Nodup
  extensionsMatch : ∀ e ∈ pre, ∀ k, e.tag = .typeExt k → ∀ k', kindOfName pre e.name = some k' → k' = k
  uniqueMembers : ∀ n, kindOfName pre n ≠ none → (memberNames pre n).Nodup
  uniqueInterfaces : ∀ n, kindOfName pre n ≠ none → (ifaceNames pre n).Nodup

/-- what a type definition or extension `d` must satisfy after `pre` -/
def TOK (pre : List Def) (d : Def) : Prop :=
  (∀ k, d.tag = .typeDef k →
      kindOfName pre d.name = none ∧
      (∀ e ∈ pre, e.name = d.name → ∀ k', e.tag = .typeExt k' → k' = k) ∧
      (memberNames pre d.name ++ names d.members).Nodup ∧ (ifaceNames pre d.name ++ names d.interfaces).Nodup) ∧
  (∀ k, d.tag = .typeExt k → ∀ k', kindOfName pre d.name = some k' →
      k' = k ∧ (memberNames pre d.name ++ names d.members).Nodup ∧ (ifaceNames pre d.name ++ names d.interfaces).Nodup)

theorem PT_snoc_typeDef (pre : List Def) (d : Def) (k : Kind) (htag : d.tag = .typeDef k) :
    PT (pre ++ [d]) ↔ PT pre ∧ TOK pre d := by
  have hdk : d.defKind = some k := by simp [Def.defKind, htag]
  have hpart : d.isTypePart = true := by simp [Def.isTypePart, hdk]
  constructor
  · intro h
    have hut := h.uniqueTypes
    rw [typeDefNames_snoc, hdk] at hut
    simp only [Option.isSome_some, if_true] at hut
    rw [← List.append_assoc, List.nodup_append] at hut
    have hnone : kindOfName pre d.name = none := by
      rw [kindOfName_none_iff]
      intro hmem
      exact hut.2.2 _ hmem _ (List.mem_singleton.mpr rfl) rfl
    have hnew : kindOfName (pre ++ [d]) d.name = some k := by rw [kindOfName_snoc_new _ _ hnone, hdk]
    refine ⟨⟨hut.1, ?_, ?_, ?_⟩, ⟨?_, ?_⟩⟩
    · intro e he ke hke k' hk'
      exact h.extensionsMatch e (List.mem_append_left _ he) ke hke k' (kindOfName_snoc_known _ _ _ _ hk')
    · intro n hn
      have hn' : kindOfName (pre ++ [d]) n ≠ none := by
        cases hk : kindOfName pre n with
        | none => exact absurd hk hn
        | some x => rw [kindOfName_snoc_known _ _ _ _ hk]; simp
      have := h.uniqueMembers n hn'
      rw [memberNames_snoc, List.nodup_append] at this
      exact this.1
    · intro n hn
      have hn' : kindOfName (pre ++ [d]) n ≠ none := by
        cases hk : kindOfName pre n with
        | none => exact absurd hk hn
        | some x => rw [kindOfName_snoc_known _ _ _ _ hk]; simp
      have := h.uniqueInterfaces n hn'
      rw [ifaceNames_snoc, List.nodup_append] at this
      exact this.1
    · intro k1 hk1
      have : k1 = k := by rw [htag] at hk1; cases hk1; rfl
      subst this
      refine ⟨hnone, ?_, ?_, ?_⟩
      · intro e he hname k' hk'
        have h1 : kindOfName (pre ++ [d]) e.name = some k1 := by rw [hname]; exact hnew
        exact (h.extensionsMatch e (List.mem_append_left _ he) k' hk' k1 h1).symm
      · have := h.uniqueMembers d.name (by rw [hnew]; simp)
        rw [memberNames_snoc] at this
        simpa [hpart] using this
      · have := h.uniqueInterfaces d.name (by rw [hnew]; simp)
        rw [ifaceNames_snoc] at this
        simpa [hpart] using this
    · intro k1 hk1; rw [htag] at hk1; cases hk1
  · intro ⟨h, hok⟩
    obtain ⟨hnone, hexts, hmem, hifs⟩ := hok.1 k htag
    have hnew : kindOfName (pre ++ [d]) d.name = some k := by rw [kindOfName_snoc_new _ _ hnone, hdk]
    refine ⟨?_, ?_, ?_, ?_⟩
    · rw [typeDefNames_snoc, hdk]
      simp only [Option.isSome_some, if_true]
      rw [← List.append_assoc, List.nodup_append]
      refine ⟨h.uniqueTypes, by simp, ?_⟩
      intro a ha b hb hab
      have hb' : b = d.name := by simpa using hb
      rw [kindOfName_none_iff] at hnone
      exact hnone (by rw [← hb', ← hab]; exact ha)
    · intro e he ke hke k' hk'
      rcases List.mem_append.mp he with he | he
      · cases hk : kindOfName pre e.name with
        | some x =>
          rw [kindOfName_snoc_known _ _ _ _ hk] at hk'
          rw [← Option.some.inj hk']
          exact h.extensionsMatch e he ke hke x hk
        | none =>
          rw [kindOfName_snoc, hk] at hk'
          by_cases hname : d.name = e.name
          · simp [hname, hdk] at hk'
            rw [← hk']
            exact (hexts e he hname.symm ke hke).symm
          · simp [hname] at hk'
      · have : e = d := by simpa using he
        subst this
        rw [htag] at hke; cases hke
    · intro n hn
      by_cases hname : d.name = n
      · subst hname
        rw [memberNames_snoc]; simpa [hpart] using hmem
      · rw [kindOfName_snoc_other _ _ _ hname] at hn
        rw [memberNames_snoc]
        simpa [hname] using h.uniqueMembers n hn
    · intro n hn
      by_cases hname : d.name = n
      · subst hname
        rw [ifaceNames_snoc]; simpa [hpart] using hifs
      · rw [kindOfName_snoc_other _ _ _ hname] at hn
        rw [ifaceNames_snoc]
        simpa [hname] using h.uniqueInterfaces n hn


theorem extKind_some (d : Def) (k : Kind) : d.extKind = some k ↔ d.tag = .typeExt k := by
  unfold Def.extKind
  cases d.tag <;> simp

theorem defKind_some (d : Def) (k : Kind) : d.defKind = some k ↔ d.tag = .typeDef k := by
  unfold Def.defKind
  cases d.tag <;> simp

theorem PT_snoc_noDef (pre : List Def) (d : Def) (hdk : d.defKind = none) :
    PT (pre ++ [d]) ↔ PT pre ∧ TOK pre d := by
  have hk : ∀ n, kindOfName (pre ++ [d]) n = kindOfName pre n := fun n => kindOfName_snoc_noDef pre d n hdk
  have htd : typeDefNames (pre ++ [d]) = typeDefNames pre := by rw [typeDefNames_snoc, hdk]; simp
  constructor
  · intro h
    refine ⟨⟨?_, ?_, ?_, ?_⟩, ⟨?_, ?_⟩⟩
    · rw [← htd]; exact h.uniqueTypes
    · intro e he ke hke k' hk'
      exact h.extensionsMatch e (List.mem_append_left _ he) ke hke k' (by rw [hk]; exact hk')
    · intro n hn
      have := h.uniqueMembers n (by rw [hk]; exact hn)
      rw [memberNames_snoc, List.nodup_append] at this
      exact this.1
    · intro n hn
      have := h.uniqueInterfaces n (by rw [hk]; exact hn)
      rw [ifaceNames_snoc, List.nodup_append] at this
      exact this.1
    · intro k1 hk1
      rw [(defKind_some d k1).mpr hk1] at hdk; cases hdk
    · intro k1 hk1 k' hk'
      have hpart : d.isTypePart = true := by simp [Def.isTypePart, (extKind_some d k1).mpr hk1]
      refine ⟨h.extensionsMatch d (by simp) k1 hk1 k' (by rw [hk]; exact hk'), ?_, ?_⟩
      · have := h.uniqueMembers d.name (by rw [hk, hk']; simp)
        rw [memberNames_snoc] at this
        simpa [hpart] using this
      · have := h.uniqueInterfaces d.name (by rw [hk, hk']; simp)
        rw [ifaceNames_snoc] at this
        simpa [hpart] using this
  · intro ⟨h, hok⟩
    have key : ∀ n, kindOfName pre n ≠ none → (d.isTypePart && d.name == n) = true →
        (memberNames pre n ++ names d.members).Nodup ∧ (ifaceNames pre n ++ names d.interfaces).Nodup := by
      intro n hn hc
      simp only [Bool.and_eq_true, beq_iff_eq] at hc
      obtain ⟨hp, hname⟩ := hc
      subst hname
      have : d.extKind.isSome = true := by simpa [Def.isTypePart, hdk] using hp
      obtain ⟨k1, hk1⟩ := Option.isSome_iff_exists.mp this
      cases hk' : kindOfName pre d.name with
      | none => exact absurd hk' hn
      | some k' => exact (hok.2 k1 ((extKind_some d k1).mp hk1) k' hk').2
    refine ⟨?_, ?_, ?_, ?_⟩
    · rw [htd]; exact h.uniqueTypes
    · intro e he ke hke k' hk'
      rw [hk] at hk'
      rcases List.mem_append.mp he with he | he
      · exact h.extensionsMatch e he ke hke k' hk'
      · have : e = d := by simpa using he
        subst this
        exact (hok.2 ke hke k' hk').1
    · intro n hn
      rw [hk] at hn
      rw [memberNames_snoc]
      by_cases hc : (d.isTypePart && d.name == n) = true
      · rw [if_pos hc]; exact (key n hn hc).1
      · rw [if_neg hc, List.append_nil]; exact h.uniqueMembers n hn
    · intro n hn
      rw [hk] at hn
      rw [ifaceNames_snoc]
      by_cases hc : (d.isTypePart && d.name == n) = true
      · rw [if_pos hc]; exact (key n hn hc).2
      · rw [if_neg hc, List.append_nil]; exact h.uniqueInterfaces n hn

theorem PT_snoc (pre : List Def) (d : Def) : PT (pre ++ [d]) ↔ PT pre ∧ TOK pre d := by
  cases hdk : d.defKind with
  | none => exact PT_snoc_noDef pre d hdk
  | some k => exact PT_snoc_typeDef pre d k ((defKind_some d k).mp hdk)

/-! schema part -/

structure PS (pre : List Def) : Prop where
  loneSchema : schemaDefCount pre ≤ 1
  uniqueOps : schemaDefCount pre ≠ 0 → (schemaOpNames pre).Nodup

def SOK (pre : List Def) (d : Def) : Prop :=
  (d.isSchemaDef = true → schemaDefCount pre = 0 ∧ (schemaOpNames pre ++ names d.members).Nodup) ∧
  (d.isSchemaExt = true → schemaDefCount pre ≠ 0 → (schemaOpNames pre ++ names d.members).Nodup)

theorem schemaDef_not_ext (d : Def) (h : d.isSchemaDef = true) : d.isSchemaExt = false := by
  unfold Def.isSchemaDef at h
  unfold Def.isSchemaExt
  have : d.tag = .schemaDef := by simpa using h
  rw [this]; rfl

theorem PS_snoc (pre : List Def) (d : Def) : PS (pre ++ [d]) ↔ PS pre ∧ SOK pre d := by
  by_cases hsd : d.isSchemaDef = true
  · have hse := schemaDef_not_ext d hsd
    have hpart : d.isSchemaPart = true := by simp [Def.isSchemaPart, hsd]
    constructor
    · intro h
      have h1 := h.loneSchema
      rw [schemaDefCount_snoc, if_pos hsd] at h1
      have h0 : schemaDefCount pre = 0 := by omega
      have h2 := h.uniqueOps (by rw [schemaDefCount_snoc, if_pos hsd]; omega)
      rw [schemaOpNames_snoc, if_pos hpart] at h2
      exact ⟨⟨by omega, fun hne => absurd h0 hne⟩, ⟨fun _ => ⟨h0, h2⟩, fun hx => by rw [hse] at hx; cases hx⟩⟩
    · intro ⟨_, hok⟩
      obtain ⟨h0, h2⟩ := hok.1 hsd
      refine ⟨?_, ?_⟩
      · rw [schemaDefCount_snoc, if_pos hsd]; omega
      · intro _; rw [schemaOpNames_snoc, if_pos hpart]; exact h2
  · have hc : schemaDefCount (pre ++ [d]) = schemaDefCount pre := by rw [schemaDefCount_snoc, if_neg hsd]; rfl
    by_cases hse : d.isSchemaExt = true
    · have hpart : d.isSchemaPart = true := by simp [Def.isSchemaPart, hse]
      constructor
      · intro h
        refine ⟨⟨by rw [← hc]; exact h.loneSchema, ?_⟩, ⟨fun hx => absurd hx hsd, ?_⟩⟩
        · intro hne
          have := h.uniqueOps (by rw [hc]; exact hne)
          rw [schemaOpNames_snoc, List.nodup_append] at this
          exact this.1
        · intro _ hne
          have := h.uniqueOps (by rw [hc]; exact hne)
          rw [schemaOpNames_snoc, if_pos hpart] at this
          exact this
      · intro ⟨h, hok⟩
        refine ⟨by rw [hc]; exact h.loneSchema, ?_⟩
        intro hne
        rw [hc] at hne
        rw [schemaOpNames_snoc, if_pos hpart]
        exact hok.2 hse hne
    · have hpart : d.isSchemaPart = false := by simp [Def.isSchemaPart, hsd, hse]
      have ho : schemaOpNames (pre ++ [d]) = schemaOpNames pre := by rw [schemaOpNames_snoc, hpart]; simp
      constructor
      · intro h
        exact ⟨⟨by rw [← hc]; exact h.loneSchema, fun hne => by rw [← ho]; exact h.uniqueOps (by rw [hc]; exact hne)⟩,
          ⟨fun hx => absurd hx hsd, fun hx => absurd hx hse⟩⟩
      · intro ⟨h, _⟩
        exact ⟨by rw [hc]; exact h.loneSchema, fun hne => by rw [ho]; exact h.uniqueOps (by rw [← hc]; exact hne)⟩

/-! directive definitions and executable definitions -/

theorem PD_snoc (pre : List Def) (d : Def) :
    (dirDefNames (pre ++ [d])).Nodup ↔ (dirDefNames pre).Nodup ∧ (d.isDirectiveDef = true → d.name ∉ dirDefNames pre) := by
  rw [dirDefNames_snoc]
  by_cases h : d.isDirectiveDef = true
  · rw [if_pos h, List.nodup_append]
    constructor
    · intro ⟨h1, _, h3⟩
      exact ⟨h1, fun _ hm => h3 _ hm _ (List.mem_singleton.mpr rfl) rfl⟩
    · intro ⟨h1, h2⟩
      refine ⟨h1, by simp, ?_⟩
      intro a ha b hb hab
      have : b = d.name := by simpa using hb
      exact h2 h (by rw [← this, ← hab]; exact ha)
  · rw [if_neg h, List.append_nil]
    exact ⟨fun h1 => ⟨h1, fun hx => absurd hx h⟩, fun h1 => h1.1⟩

def NoExec (ds : List Def) : Prop := ∀ d ∈ ds, d.tag ≠ .operation ∧ d.tag ≠ .fragment

theorem PX_snoc (pre : List Def) (d : Def) :
    NoExec (pre ++ [d]) ↔ NoExec pre ∧ (d.tag ≠ .operation ∧ d.tag ≠ .fragment) := by
  unfold NoExec
  constructor
  · intro h
    exact ⟨fun e he => h e (List.mem_append_left _ he), h d (by simp)⟩
  · intro ⟨h1, h2⟩ e he
    rcases List.mem_append.mp he with he | he
    · exact h1 e he
    · have : e = d := by simpa using he
      subst this; exact h2

/-- the specification restricted to a prefix -/
structure PrefixSpec (pre : List Def) : Prop where
  noExec : NoExec pre
  dirs : (dirDefNames pre).Nodup
  schema : PS pre
  types : PT pre

/-- what the definition `d` must satisfy after `pre` -/
structure StepOK (pre : List Def) (d : Def) : Prop where
  noExec : d.tag ≠ .operation ∧ d.tag ≠ .fragment
  dirs : d.isDirectiveDef = true → d.name ∉ dirDefNames pre
  schema : SOK pre d
  types : TOK pre d

theorem PrefixSpec_snoc (pre : List Def) (d : Def) : PrefixSpec (pre ++ [d]) ↔ PrefixSpec pre ∧ StepOK pre d := by
  constructor
  · intro ⟨h1, h2, h3, h4⟩
    rw [PX_snoc] at h1; rw [PD_snoc] at h2; rw [PS_snoc] at h3; rw [PT_snoc] at h4
    exact ⟨⟨h1.1, h2.1, h3.1, h4.1⟩, ⟨h1.2, h2.2, h3.2, h4.2⟩⟩
  · intro ⟨⟨a1, a2, a3, a4⟩, ⟨b1, b2, b3, b4⟩⟩
    exact ⟨(PX_snoc pre d).mpr ⟨a1, b1⟩, (PD_snoc pre d).mpr ⟨a2, b2⟩, (PS_snoc pre d).mpr ⟨a3, b3⟩, (PT_snoc pre d).mpr ⟨a4, b4⟩⟩

theorem PrefixSpec_nil : PrefixSpec [] := by
  refine ⟨?_, ?_, ⟨?_, ?_⟩, ⟨?_, ?_, ?_, ?_⟩⟩
  · intro d hd; cases hd
  · simp [dirDefNames]
  · simp [schemaDefCount]
  · simp [schemaOpNames]
  · simp [typeDefNames, builtinTypeNames, builtinTypes]
  · intro e he; cases he
  · intro n _; simp [memberNames, partsOf]
  · intro n _; simp [ifaceNames, partsOf]

end Apollo.SchemaBuild
