import ApolloModel.Proofs.ParserDoc3
/-
C05 growth (top level), part 4: `DefLemmas` instantiated from builderB's lemmas for the executable definitions
(Proofs/ParserSel9.lean) and builderD's for the type-system definitions and extensions (Proofs/ParserDef15–16.lean),
and `acc_fragmentDefinition_desc` (`fragment_definition` entered on a description is never error-free).
-/
set_option linter.unusedSimpArgs false
namespace Apollo.Parse
open Apollo.Rowan hiding Str
open Apollo.Lex hiding Str

theorem Acc.or {α : Type} {E : PState → Prop} {H1 H2 : List Tok → Prop} {m : PI α} {R : α → List Ast.Tok → Prop}
    (h1 : Acc E H1 m R) (h2 : Acc E H2 m R) : Acc E (fun q => H1 q ∨ H2 q) m R :=
  ⟨h1.1, fun s a s' w he hq hr hnd => hq.elim (fun h => h1.2 s a s' w he h hr hnd) (fun h => h2.2 s a s' w he h hr hnd)⟩

theorem dstart_defStart {word : String} {q : List Tok} (h : LexQ q ∧ DStart word.toList q) : LexQ q ∧ DefStart word q := by
  obtain ⟨hl, t, rest, rfl, h⟩ := h
  refine ⟨hl, ?_⟩
  rcases h with ⟨_, hd⟩ | ⟨hk, t2, h2, hd2⟩
  · exact Or.inl ⟨t, rfl, hd⟩
  · exact Or.inr ⟨t, rest, t2, rfl, hk, h2, hd2⟩

theorem estart_ext2 {word : String} {q : List Tok} (h : LexQ q ∧ EStart word.toList q) : LexQ q ∧ Ext2 "extend" word q := by
  obtain ⟨hl, t, rest, t2, rfl, _, hd, h2, hd2⟩ := h
  exact ⟨hl, t, rest, t2, rfl, hd, h2, hd2⟩

theorem dstart_fragment {q : List Tok} (h : LexQ q ∧ DStart "fragment".toList q) :
    AtFragmentKw q ∨ HeadP (fun t : Tok => t.kind = .stringValue) q := by
  obtain ⟨hl, t, rest, rfl, h⟩ := h
  rcases h with ⟨_, hd⟩ | ⟨hk, _⟩
  · left
    have hk : t.kind = .name := hl t (List.mem_cons_self ..) 'f' "ragment".toList (by rw [hd]; rfl) (by decide)
    exact ⟨t, rfl, hk, hd⟩
  · right
    exact ⟨t, rfl, hk⟩

private theorem isDef_loose {x : List Ast.Tok} (l : LooseDef) (e : x = l.toks) : IsDef x := .inr (.inr ⟨l, e⟩)

/-- **`DefLemmas` holds**: every definition parser, entered the way the dispatcher enters it, consumes ONE definition -/
theorem defLemmas (n : Nat) : DefLemmas n where
  directive := (ent_directive n).mono (fun _ h => dstart_defStart h) (by
    rintro _ x ⟨desc, nm, args, rep, lead, first, rest, e, _, _⟩
    exact isDef_loose (.directive desc nm args rep lead first rest) e)
  enumDef := (ent_enum n).mono (fun _ h => dstart_defStart h) (by
    rintro _ x ⟨desc, nm, ds, vs, e⟩; exact isDef_loose (.enum desc nm ds vs) e)
  fragment := ((acc_fragmentDefinition n).mono (fun _ h => h) (fun _ x h => (.inr (.inl h) : IsDef x))
      |>.or (acc_fragmentDefinition_desc n)).mono
    (fun _ h => dstart_fragment h) (fun _ _ h => h)
  input := (ent_input n).mono (fun _ h => dstart_defStart h) (by
    rintro _ x ⟨desc, nm, ds, fs, e⟩; exact isDef_loose (.input desc nm ds fs) e)
  interface := (ent_interface n).mono (fun _ h => dstart_defStart h) (by
    rintro _ x ⟨desc, nm, impl, ds, fs, e⟩; exact isDef_loose (.interface desc nm impl ds fs) e)
  object := (ent_object n).mono (fun _ h => dstart_defStart h) (by
    rintro _ x ⟨desc, nm, impl, ds, fs, e⟩; exact isDef_loose (.object desc nm impl ds fs) e)
  opQuery := (acc_operationDefinition n).mono (fun _ _ => trivial) (fun _ _ h => .inl h)
  opMutation := (acc_operationDefinition n).mono (fun _ _ => trivial) (fun _ _ h => .inl h)
  opSubscription := (acc_operationDefinition n).mono (fun _ _ => trivial) (fun _ _ h => .inl h)
  opShorthand := (acc_operationDefinition n).mono (fun _ _ => trivial) (fun _ _ h => .inl h)
  scalar := (ent_scalar n).mono (fun _ h => dstart_defStart h) (by
    rintro _ x ⟨desc, nm, ds, e⟩; exact isDef_loose (.scalar desc nm ds) e)
  schema := (ent_schema n).mono (fun _ h => dstart_defStart h) (by
    rintro _ x ⟨desc, ds, roots, _, e⟩; exact isDef_loose (.schema desc ds roots) e)
  union := (ent_union n).mono (fun _ h => dstart_defStart h) (by
    rintro _ x ⟨desc, nm, ds, ms, e⟩; exact isDef_loose (.union desc nm ds ms) e)
  schemaExt := (accL_schemaExtension n).mono (fun _ h => estart_ext2 h) (by
    rintro _ x ⟨ds, roots, e⟩; exact isDef_loose (.schemaExt ds roots) e)
  scalarExt := (accL_scalarTypeExtension n).mono (fun _ h => estart_ext2 h) (by
    rintro _ x ⟨nm, ds, e⟩; exact isDef_loose (.scalarExt nm ds) e)
  objectExt := (accL_objectTypeExtension n).mono (fun _ h => estart_ext2 h) (by
    rintro _ x ⟨nm, impl, ds, fs, e⟩; exact isDef_loose (.objectExt nm impl ds fs) e)
  interfaceExt := (accL_interfaceTypeExtension n).mono (fun _ h => estart_ext2 h) (by
    rintro _ x ⟨nm, impl, ds, fs, e⟩; exact isDef_loose (.interfaceExt nm impl ds fs) e)
  unionExt := (accL_unionTypeExtension n).mono (fun _ h => estart_ext2 h) (by
    rintro _ x ⟨nm, ds, ms, e⟩; exact isDef_loose (.unionExt nm ds ms) (by rw [e]; simp [LooseDef.toks, kwE]))
  enumExt := (accL_enumTypeExtension n).mono (fun _ h => estart_ext2 h) (by
    rintro _ x ⟨nm, ds, vs, e⟩; exact isDef_loose (.enumExt nm ds vs) e)
  inputExt := (accL_inputObjectTypeExtension n).mono (fun _ h => estart_ext2 h) (by
    rintro _ x ⟨nm, ds, fs, e⟩; exact isDef_loose (.inputExt nm ds fs) e)

/-- **document_accept_sound, unconditional.** -/
theorem document_accept_sound' (rl : Nat) (src : Str) (root : Elem)
    (h : (parse .document none rl src).outcome = .tree root) (herr : (parse .document none rl src).errors = []) :
    LexClean src ∧ ∃ ts x e, sig (srcToks src) = ts ++ [e] ∧ e.kind = .eof ∧ TokIs ts x ∧ IsDocumentToks x :=
  document_accept_sound defLemmas rl src root h herr

end Apollo.Parse
