import ApolloModel.Proofs.ParserTermination
import ApolloModel.Model.LineColumn
import ApolloModel.Model.TreeRanges
/-
Byte ranges of the elements of a rowan tree, as `text_range()` computes them: the offset of an
element is the sum of the UTF-8 lengths of all leaves before it, its length the sum over its leaves.
Pure list lemmas: whenever the tree's text is the source, every element's range slices the source to
exactly that element's text (in particular: on character boundaries).
-/
namespace Apollo.Rowan
open Apollo.Parse (utf8Len utf8Len_append utf8Len_cons)

/-- `text_range().len()`: UTF-8 bytes of the element's text -/
def Elem.len (e : Elem) : Nat := utf8Len e.text

theorem utf8Len_eq_byteLen (s : Str) : utf8Len s = LC.byteLen s := rfl

/-- the element at a path of child indices -/
def subAt : Elem → List Nat → Option Elem
  | e, [] => some e
  | .node _ cs, i :: p =>
    match cs[i]? with
    | some c => subAt c p
    | none => none
  | .tok _ _, _ :: _ => none

/-- `text_range().start()` relative to the root: bytes of everything before the element -/
def offsetAt : Elem → List Nat → Nat
  | _, [] => 0
  | .node _ cs, i :: p =>
    utf8Len (textList (cs.take i)) + (match cs[i]? with | some c => offsetAt c p | none => 0)
  | .tok _ _, _ :: _ => 0

theorem textList_append' (a b : List Elem) : textList (a ++ b) = textList a ++ textList b := by
  induction a with
  | nil => simp [textList]
  | cons e es ih => simp [textList, ih]

theorem textList_split (cs : List Elem) (i : Nat) (c : Elem) (h : cs[i]? = some c) :
    textList cs = textList (cs.take i) ++ c.text ++ textList (cs.drop (i + 1)) := by
  have hlt : i < cs.length := by
    rcases Nat.lt_or_ge i cs.length with h' | h'
    · exact h'
    · rw [List.getElem?_eq_none h'] at h; cases h
  have hc : cs[i] = c := by
    rw [List.getElem?_eq_getElem hlt] at h; exact Option.some.inj h
  have : cs = cs.take i ++ c :: cs.drop (i + 1) := by
    rw [← hc]
    simp
  conv => lhs; rw [this]
  rw [textList_append']
  simp [textList, List.append_assoc]

/-- RANGE EXACTNESS (pure tree lemma): the text of the root is `pre ++ text(e) ++ post` with exactly
    `offsetAt` bytes in `pre` -/
theorem range_decomposition : ∀ (p : List Nat) (root e : Elem), subAt root p = some e →
    ∃ pre post, root.text = pre ++ e.text ++ post ∧ utf8Len pre = offsetAt root p
  | [], root, e, h => by
    simp only [subAt, Option.some.injEq] at h
    subst h
    exact ⟨[], [], by simp, rfl⟩
  | i :: p, .tok k t, e, h => by simp [subAt] at h
  | i :: p, .node k cs, e, h => by
    simp only [subAt] at h
    cases hc : cs[i]? with
    | none => rw [hc] at h; simp at h
    | some c =>
      rw [hc] at h
      simp only [] at h
      obtain ⟨pre, post, htxt, hlen⟩ := range_decomposition p c e h
      refine ⟨textList (cs.take i) ++ pre, post ++ textList (cs.drop (i + 1)), ?_, ?_⟩
      · simp only [Elem.text]
        rw [textList_split cs i c hc, htxt]
        simp [List.append_assoc]
      · simp only [offsetAt, hc, utf8Len_append, hlen]

/-! ### slicing a `List Char` by UTF-8 byte offsets (prefix sums of `Char.utf8Size`) -/

-- `dropBytes`, `takeBytes`, `sliceBytes` are defined in Model/TreeRanges.lean (executable, used by the driver)

theorem dropBytes_zero (s : Str) : dropBytes 0 s = some s := by cases s <;> simp [dropBytes]
theorem takeBytes_zero (s : Str) : takeBytes 0 s = some [] := by cases s <;> simp [takeBytes]

theorem dropBytes_prefix (pre rest : Str) : dropBytes (utf8Len pre) (pre ++ rest) = some rest := by
  induction pre with
  | nil => simp [utf8Len, dropBytes_zero]
  | cons c cs ih =>
    have hpos := Char.utf8Size_pos c
    rw [utf8Len_cons]
    simp only [List.cons_append, dropBytes]
    rw [if_neg (by omega), if_pos (by omega)]
    have : c.utf8Size + utf8Len cs - c.utf8Size = utf8Len cs := by omega
    rw [this]; exact ih

theorem takeBytes_prefix (mid post : Str) : takeBytes (utf8Len mid) (mid ++ post) = some mid := by
  induction mid with
  | nil => simp [utf8Len, takeBytes_zero]
  | cons c cs ih =>
    have hpos := Char.utf8Size_pos c
    rw [utf8Len_cons]
    simp only [List.cons_append, takeBytes]
    rw [if_neg (by omega), if_pos (by omega)]
    have : c.utf8Size + utf8Len cs - c.utf8Size = utf8Len cs := by omega
    rw [this, ih]; rfl

theorem sliceBytes_decomposition (pre mid post : Str) :
    sliceBytes (pre ++ mid ++ post) (utf8Len pre) (utf8Len mid) = some mid := by
  unfold sliceBytes
  rw [List.append_assoc, dropBytes_prefix]
  exact takeBytes_prefix mid post

/-- TOKEN / NODE RANGE EXACT: whenever the tree's text is `src`, the byte range of the element at
    any path slices `src` to exactly that element's text — so both ends are character boundaries -/
theorem range_exact (root : Elem) (src : Str) (hsrc : root.text = src) (p : List Nat) (e : Elem)
    (h : subAt root p = some e) : sliceBytes src (offsetAt root p) e.len = some e.text := by
  obtain ⟨pre, post, htxt, hlen⟩ := range_decomposition p root e h
  rw [← hsrc, htxt, ← hlen]
  exact sliceBytes_decomposition pre e.text post

/-- every range lies inside the file -/
theorem range_in_file (root : Elem) (p : List Nat) (e : Elem) (h : subAt root p = some e) :
    offsetAt root p + e.len ≤ root.len := by
  obtain ⟨pre, post, htxt, hlen⟩ := range_decomposition p root e h
  unfold Elem.len
  rw [htxt, ← hlen, utf8Len_append, utf8Len_append]
  omega

theorem subAt_append (root : Elem) : ∀ (p q : List Nat) (e : Elem), subAt root p = some e →
    subAt root (p ++ q) = subAt e q := by
  intro p
  induction p generalizing root with
  | nil => intro q e h; simp only [subAt, Option.some.injEq] at h; subst h; rfl
  | cons i p ih =>
    intro q e h
    cases root with
    | tok k t => simp [subAt] at h
    | node k cs =>
      simp only [subAt, List.cons_append] at h ⊢
      cases hc : cs[i]? with
      | none => rw [hc] at h; simp at h
      | some c => rw [hc] at h; exact ih c q e h

theorem offsetAt_append (root : Elem) : ∀ (p q : List Nat) (e : Elem), subAt root p = some e →
    offsetAt root (p ++ q) = offsetAt root p + offsetAt e q := by
  intro p
  induction p generalizing root with
  | nil => intro q e h; simp only [subAt, Option.some.injEq] at h; subst h; simp [offsetAt]
  | cons i p ih =>
    intro q e h
    cases root with
    | tok k t => simp [subAt] at h
    | node k cs =>
      simp only [subAt] at h
      cases hc : cs[i]? with
      | none => rw [hc] at h; simp at h
      | some c =>
        rw [hc] at h
        simp only [List.cons_append, offsetAt, hc]
        rw [ih c q e h]; omega

/-- NESTING: the range of a descendant lies inside the range of its ancestor -/
theorem ranges_nested (root : Elem) (p q : List Nat) (e d : Elem) (he : subAt root p = some e)
    (hd : subAt e q = some d) :
    offsetAt root p ≤ offsetAt root (p ++ q) ∧ offsetAt root (p ++ q) + d.len ≤ offsetAt root p + e.len := by
  rw [offsetAt_append root p q e he]
  have := range_in_file e q d hd
  constructor <;> omega

/-- ADJACENCY: a child starts where its previous sibling ends; the first child starts where the
    parent starts -/
theorem siblings_adjacent (k : SK) (cs : List Elem) (i : Nat) (c : Elem) (h : cs[i]? = some c) :
    offsetAt (.node k cs) [i + 1] = offsetAt (.node k cs) [i] + c.len ∧ offsetAt (.node k cs) [0] = 0 := by
  have hlt : i < cs.length := by
    rcases Nat.lt_or_ge i cs.length with h' | h'
    · exact h'
    · rw [List.getElem?_eq_none h'] at h; cases h
  have hc : cs[i] = c := by rw [List.getElem?_eq_getElem hlt] at h; exact Option.some.inj h
  have e1 : ∀ j : Nat, (match cs[j]? with | some c => offsetAt c [] | none => 0) = 0 := by
    intro j; cases cs[j]? <;> rfl
  constructor
  · have ht : cs.take (i + 1) = cs.take i ++ [c] := by
      rw [List.take_succ, List.getElem?_eq_getElem hlt, hc]; rfl
    show utf8Len (textList (cs.take (i + 1))) + _ = utf8Len (textList (cs.take i)) + _ + c.len
    rw [e1, e1, ht, textList_append', utf8Len_append]
    simp only [textList, List.append_nil, Elem.len, Nat.add_zero]
  · show utf8Len (textList (cs.take 0)) + _ = 0
    rw [e1]
    simp [textList, utf8Len]

/-! ### the executable listing `nameRanges` (Model/TreeRanges.lean, used by the `c11.ranges` stream) lists exactly
the NAME nodes with their `offsetAt` ranges -/

theorem bytes_eq_utf8Len (s : Str) : bytes s = utf8Len s := rfl

mutual
theorem nameRanges_sound : ∀ (e : Elem) (start : Nat) (r : Nat × Nat × Str), r ∈ nameRanges e start →
    ∃ p cs, subAt e p = some (.node "NAME" cs) ∧ r = (start + offsetAt e p, utf8Len (textList cs), textList cs)
  | .tok _ _, _, r, h => by simp [nameRanges] at h
  | .node k cs, start, r, h => by
    simp only [nameRanges, List.mem_append] at h
    rcases h with h | h
    · split at h
      · rename_i hk
        simp at h; subst h
        have : k = "NAME" := by simpa using hk
        subst this
        exact ⟨[], cs, rfl, by simp [offsetAt, bytes_eq_utf8Len]⟩
      · simp at h
    · obtain ⟨i, c, p, cs', hi, hs, hr⟩ := nameRangesList_sound cs start r h
      exact ⟨i :: p, cs', by simp [subAt, hi, hs], by simp [offsetAt, hi, hr, Nat.add_assoc]⟩
theorem nameRangesList_sound : ∀ (es : List Elem) (start : Nat) (r : Nat × Nat × Str), r ∈ nameRangesList es start →
    ∃ i c p cs, es[i]? = some c ∧ subAt c p = some (.node "NAME" cs) ∧
      r = (start + utf8Len (textList (es.take i)) + offsetAt c p, utf8Len (textList cs), textList cs)
  | [], _, r, h => by simp [nameRangesList] at h
  | e :: es, start, r, h => by
    simp only [nameRangesList, List.mem_append] at h
    rcases h with h | h
    · obtain ⟨p, cs, hs, hr⟩ := nameRanges_sound e start r h
      exact ⟨0, e, p, cs, rfl, hs, by simp [hr, textList, utf8Len]⟩
    · obtain ⟨i, c, p, cs, hi, hs, hr⟩ := nameRangesList_sound es (start + bytes e.text) r h
      refine ⟨i + 1, c, p, cs, by simpa using hi, hs, ?_⟩
      rw [hr]
      simp [textList, utf8Len_append, bytes_eq_utf8Len, Nat.add_assoc]
end

theorem nameRangesList_of_child : ∀ (es : List Elem) (i : Nat) (c : Elem) (start : Nat) (x : Nat × Nat × Str),
    es[i]? = some c → x ∈ nameRanges c (start + utf8Len (textList (es.take i))) → x ∈ nameRangesList es start
  | [], i, c, _, _, h, _ => by simp at h
  | e :: es, 0, c, start, x, h, hx => by
    simp at h; subst h
    simp only [nameRangesList, List.mem_append]
    left; simpa [textList, utf8Len] using hx
  | e :: es, i + 1, c, start, x, h, hx => by
    simp only [nameRangesList, List.mem_append]
    right
    apply nameRangesList_of_child es i c (start + bytes e.text) x (by simpa using h)
    simpa [textList, utf8Len_append, bytes_eq_utf8Len, Nat.add_assoc] using hx

/-- conversely every NAME node, at any path, is listed with its `offsetAt` range -/
theorem nameRanges_complete : ∀ (p : List Nat) (e : Elem) (start : Nat) (cs : List Elem),
    subAt e p = some (.node "NAME" cs) →
    (start + offsetAt e p, utf8Len (textList cs), textList cs) ∈ nameRanges e start
  | [], e, start, cs, h => by
    simp only [subAt, Option.some.injEq] at h
    subst h
    simp [nameRanges, offsetAt, bytes_eq_utf8Len]
  | i :: p, .tok _ _, _, _, h => by simp [subAt] at h
  | i :: p, .node k ds, start, cs, h => by
    simp only [subAt] at h
    cases hc : ds[i]? with
    | none => rw [hc] at h; simp at h
    | some c =>
      rw [hc] at h
      simp only [] at h
      have ih := nameRanges_complete p c (start + utf8Len (textList (ds.take i))) cs h
      simp only [nameRanges, List.mem_append]
      right
      apply nameRangesList_of_child ds i c start _ hc
      simpa [offsetAt, hc, Nat.add_assoc] using ih

end Apollo.Rowan
