import ApolloModel.Model.SmithResponse
/-
Shape lemmas for the response builder model: whatever the randomness source answers, a generated
value nests lists exactly as the field type does, is never null below the top of a field, and its
leaves are what the schema says.
-/
namespace Apollo.Smith

/-- JSON kind expected for a leaf of named type `n` -/
def leafOk (s : Schema) (n : Name) : Json → Prop
  | .str v =>
    match s.get? n with
    | some (.enum values) => v ∈ values
    | some .scalar => n ≠ "Boolean" ∧ n ≠ "Int" ∧ n ≠ "Float"
    | _ => False
  | .int i => s.get? n = some .scalar ∧ n = "Int" ∧ 0 ≤ i
  | .bool _ => s.get? n = some .scalar ∧ n = "Boolean"
  | .half => s.get? n = some .scalar ∧ n = "Float"
  | _ => False

def isObj : Json → Prop
  | .obj _ => True
  | _ => False

mutual
/-- `shape s composite ty j`: `j` has one list per list layer of `ty`, no null anywhere, and innermost values
    that are objects (for a field with sub-selections) or leaves of the named type -/
def shape (s : Schema) (composite : Bool) : Ty → Json → Prop
  | .list inner, .arr items | .nonNullList inner, .arr items => shapeAll s composite inner items
  | .named n, j | .nonNullNamed n, j => if composite then isObj j else leafOk s n j
  | _, _ => False
def shapeAll (s : Schema) (composite : Bool) : Ty → Jsons → Prop
  | _, .nil => True
  | ty, .cons j tl => shape s composite ty j ∧ shapeAll s composite ty tl
end

theorem draw_ok {script : List Nat} {v : Nat} {r : List Nat} (h : draw script = .ok v r) : script = v :: r := by
  cases script with
  | nil => simp [draw] at h
  | cons a t => simp [draw] at h; obtain ⟨rfl, rfl⟩ := h; rfl

theorem genString_str {script : List Nat} {j : Json} {r : List Nat} (h : genString script = .ok j r) : ∃ t, j = .str t := by
  unfold genString at h
  split at h <;> try cases h
  split at h <;> try cases h
  exact ⟨_, rfl⟩

theorem generateScalar_leafOk (s : Schema) (n : Name) (hs : s.get? n = some .scalar) {script : List Nat} {j : Json}
    {r : List Nat} (h : generateScalar n script = .ok j r) : leafOk s n j := by
  unfold generateScalar at h
  split at h
  · rename_i hn; split at h <;> try cases h
    simp only [beq_iff_eq] at hn
    exact ⟨hs, hn⟩
  · split at h
    · rename_i hn; split at h <;> try cases h
      simp only [beq_iff_eq] at hn
      exact ⟨hs, hn, Int.natCast_nonneg _⟩
    · split at h
      · rename_i hn; split at h <;> try cases h
        simp only [beq_iff_eq] at hn
        exact ⟨hs, hn⟩
      · rename_i h1 h2 h3
        simp only [beq_iff_eq] at h1 h2 h3
        split at h
        · split at h <;> try cases h
          simp only [leafOk, hs]
          exact ⟨h1, h2, h3⟩
        · obtain ⟨t, rfl⟩ := genString_str h
          simp only [leafOk, hs]
          exact ⟨h1, h2, h3⟩

theorem leafField_leafOk (s : Schema) (n : Name) {script : List Nat} {j : Json} {r : List Nat}
    (h : leafField s n script = .ok j r) : leafOk s n j := by
  unfold leafField at h
  cases hg : s.get? n with
  | none => simp [hg] at h
  | some td =>
    cases td with
    | enum values =>
      simp only [hg] at h
      cases hc : chooseIndex values.length script with
      | ok idx r1 =>
        simp only [hc] at h
        cases hv : values[idx]? with
        | none => simp [hv] at h
        | some v =>
          simp only [hv] at h
          cases h
          simp only [leafOk, hg]
          exact List.mem_of_getElem? hv
      | exhausted => simp [hc] at h
      | emptyChoose => simp [hc] at h
      | panic p => simp [hc] at h
      | outOfFuel => simp [hc] at h
    | scalar => simp only [hg] at h; exact generateScalar_leafOk s n hg h
    | object impls => simp [hg] at h
    | interface => simp [hg] at h
    | union members => simp [hg] at h
    | input => simp [hg] at h

theorem selectionSet_isObj (s : Schema) (frags : Fragments) (cfg : Cfg) (f : Nat) (ty : Name) (sels : Sels)
    (script : List Nat) (j : Json) (r : List Nat) (h : selectionSet s frags cfg f ty sels script = .ok j r) : isObj j := by
  cases f with
  | zero => simp [selectionSet] at h
  | succ f =>
    rw [selectionSet] at h
    split at h <;> try cases h
    split at h <;> try cases h
    split at h <;> try cases h
    trivial

mutual
theorem fieldValue_shape (s : Schema) (frags : Fragments) (cfg : Cfg) : ∀ (f : Nat) (mf : FieldInfo)
    (fields : List FieldInfo) (ty : Ty) (script : List Nat) (j : Json) (r : List Nat),
    fieldValue s frags cfg f mf fields ty script = .ok j r → shape s (!mf.sub.isEmpty) ty j
  | 0, _, _, _, _, _, _, h => by simp [fieldValue] at h
  | f + 1, mf, fields, ty, script, j, r, h => by
    unfold fieldValue at h
    cases ty with
    | list inner =>
      simp only at h
      cases hd : draw script with
      | ok v r1 =>
        simp only [hd] at h
        cases hl : listItems s frags cfg f mf fields inner (cfg.minList + v) r1 with
        | ok items r2 =>
          simp only [hl] at h
          cases h
          simp only [shape]
          exact listItems_shape s frags cfg f mf fields inner _ _ items _ hl
        | exhausted => simp [hl] at h
        | emptyChoose => simp [hl] at h
        | panic p => simp [hl] at h
        | outOfFuel => simp [hl] at h
      | exhausted => simp [hd] at h
      | emptyChoose => simp [hd] at h
      | panic p => simp [hd] at h
      | outOfFuel => simp [hd] at h
    | nonNullList inner =>
      simp only at h
      cases hd : draw script with
      | ok v r1 =>
        simp only [hd] at h
        cases hl : listItems s frags cfg f mf fields inner (cfg.minList + v) r1 with
        | ok items r2 =>
          simp only [hl] at h
          cases h
          simp only [shape]
          exact listItems_shape s frags cfg f mf fields inner _ _ items _ hl
        | exhausted => simp [hl] at h
        | emptyChoose => simp [hl] at h
        | panic p => simp [hl] at h
        | outOfFuel => simp [hl] at h
      | exhausted => simp [hd] at h
      | emptyChoose => simp [hd] at h
      | panic p => simp [hd] at h
      | outOfFuel => simp [hd] at h
    | named n =>
      simp only at h
      split at h
      · rename_i hc
        simp only [shape, hc, if_true]
        exact selectionSet_isObj s frags cfg f _ _ _ _ _ h
      · rename_i hc
        simp only [Bool.not_eq_true] at hc
        simp only [shape, hc]
        exact leafField_leafOk s n h
    | nonNullNamed n =>
      simp only at h
      split at h
      · rename_i hc
        simp only [shape, hc, if_true]
        exact selectionSet_isObj s frags cfg f _ _ _ _ _ h
      · rename_i hc
        simp only [Bool.not_eq_true] at hc
        simp only [shape, hc]
        exact leafField_leafOk s n h
theorem listItems_shape (s : Schema) (frags : Fragments) (cfg : Cfg) : ∀ (f : Nat) (mf : FieldInfo)
    (fields : List FieldInfo) (inner : Ty) (n : Nat) (script : List Nat) (items : Jsons) (r : List Nat),
    listItems s frags cfg f mf fields inner n script = .ok items r → shapeAll s (!mf.sub.isEmpty) inner items
  | 0, _, _, _, _, _, _, _, h => by simp [listItems] at h
  | f + 1, mf, fields, inner, 0, script, items, r, h => by
    simp only [listItems] at h
    cases h
    simp [shapeAll]
  | f + 1, mf, fields, inner, n + 1, script, items, r, h => by
    unfold listItems at h
    cases hv : fieldValue s frags cfg f mf fields inner script with
    | ok v r1 =>
      simp only [hv] at h
      cases hvs : listItems s frags cfg f mf fields inner n r1 with
      | ok vs r2 =>
        simp only [hvs] at h
        cases h
        simp only [shapeAll]
        exact ⟨fieldValue_shape s frags cfg f mf fields inner _ v r1 hv,
          listItems_shape s frags cfg f mf fields inner n _ vs _ hvs⟩
      | exhausted => simp [hvs] at h
      | emptyChoose => simp [hvs] at h
      | panic p => simp [hvs] at h
      | outOfFuel => simp [hvs] at h
    | exhausted => simp [hv] at h
    | emptyChoose => simp [hv] at h
    | panic p => simp [hv] at h
    | outOfFuel => simp [hv] at h
end

/-- the number of items of a generated list is the drawn length: between `min` and `min + answer` -/
def Jsons.length : Jsons → Nat
  | .nil => 0
  | .cons _ tl => tl.length + 1

theorem listItems_length (s : Schema) (frags : Fragments) (cfg : Cfg) : ∀ (f : Nat) (mf : FieldInfo)
    (fields : List FieldInfo) (inner : Ty) (n : Nat) (script : List Nat) (items : Jsons) (r : List Nat),
    listItems s frags cfg f mf fields inner n script = .ok items r → items.length = n
  | 0, _, _, _, _, _, _, _, h => by simp [listItems] at h
  | f + 1, _, _, _, 0, _, _, _, h => by simp only [listItems] at h; cases h; rfl
  | f + 1, mf, fields, inner, n + 1, script, items, r, h => by
    unfold listItems at h
    cases hv : fieldValue s frags cfg f mf fields inner script with
    | ok v r1 =>
      simp only [hv] at h
      cases hvs : listItems s frags cfg f mf fields inner n r1 with
      | ok vs r2 =>
        simp only [hvs] at h
        cases h
        have := listItems_length s frags cfg f mf fields inner n _ vs _ hvs
        simp [Jsons.length, this]
      | exhausted => simp [hvs] at h
      | emptyChoose => simp [hvs] at h
      | panic p => simp [hvs] at h
      | outOfFuel => simp [hvs] at h
    | exhausted => simp [hv] at h
    | emptyChoose => simp [hv] at h
    | panic p => simp [hv] at h
    | outOfFuel => simp [hv] at h

/-! ### concrete types -/

/-- the object types a value of declared type `ty` may have (`GetPossibleTypes`) as the builder sees them -/
def possibleTypes (s : Schema) (ty : Name) : List Name :=
  match s.get? ty with
  | some (.union members) => members
  | some .interface => implementers s ty
  | _ => [ty]

theorem concreteType_possible (s : Schema) (ty : Name) (script : List Nat) (c : Name) (r : List Nat)
    (h : concreteType s ty script = .ok c r) :
    c ∈ possibleTypes s ty ∨ (s.get? ty = some .interface ∧ implementers s ty = [] ∧ c = ty) := by
  unfold concreteType at h
  unfold possibleTypes
  cases hg : s.get? ty with
  | none => simp only [hg] at h; cases h; left; simp
  | some td =>
    cases td with
    | union members =>
      simp only [hg] at h
      cases hc : chooseIndex members.length script with
      | ok idx r1 =>
        simp only [hc] at h
        cases hv : members[idx]? with
        | none => simp [hv] at h
        | some m => simp only [hv] at h; cases h; left; exact List.mem_of_getElem? hv
      | exhausted => simp [hc] at h
      | emptyChoose => simp [hc] at h
      | panic p => simp [hc] at h
      | outOfFuel => simp [hc] at h
    | interface =>
      simp only [hg] at h
      by_cases hlen : ((implementers s ty).length == 0) = true
      · simp only [hlen, if_true] at h
        cases h
        right
        refine ⟨rfl, ?_, rfl⟩
        simpa using hlen
      · simp only [hlen] at h
        cases hc : chooseIndex (implementers s ty).length script with
        | ok idx r1 =>
          simp only [hc] at h
          cases hv : (implementers s ty)[idx]? with
          | none => simp [hv] at h
          | some m => simp only [hv] at h; cases h; left; exact List.mem_of_getElem? hv
        | exhausted => simp [hc] at h
        | emptyChoose => simp [hc] at h
        | panic p => simp [hc] at h
        | outOfFuel => simp [hc] at h
    | scalar => simp only [hg] at h; cases h; left; simp
    | enum vs => simp only [hg] at h; cases h; left; simp
    | object is => simp only [hg] at h; cases h; left; simp
    | input => simp only [hg] at h; cases h; left; simp

/-! ### one response key -/

theorem groupValue_spec (s : Schema) (frags : Fragments) (cfg : Cfg) (f : Nat) (concrete : Name) (mf : FieldInfo)
    (fields : List FieldInfo) (script : List Nat) (v : Json) (r : List Nat)
    (h : groupValue s frags cfg f concrete mf fields script = .ok v r) :
    (mf.name = "__typename" ∧ v = .str concrete)
    ∨ (v = .null ∧ mf.ty.isNonNull = false)
    ∨ shape s (!mf.sub.isEmpty) mf.ty v := by
  cases f with
  | zero => simp [groupValue] at h
  | succ f =>
    rw [groupValue] at h
    split at h
    · rename_i hn
      cases h
      left; exact ⟨by simpa using hn, rfl⟩
    · split at h
      · rename_i hnn
        split at h <;> try cases h
        · right; left
          refine ⟨rfl, ?_⟩
          simpa using hnn
        · right; right
          exact fieldValue_shape s frags cfg f mf fields mf.ty _ v r h
      · right; right
        exact fieldValue_shape s frags cfg f mf fields mf.ty _ v r h

end Apollo.Smith
