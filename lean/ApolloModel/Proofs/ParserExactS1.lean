import ApolloModel.Proofs.ParserExactC9
/-
EXACT SOUNDNESS, part 1 (namespace Apollo.Parse.Exact): builderD's value soundness (ParserValue4, 5) repeated with the
recursion budget — an error-free run consumed a well-formed value whose EXACT nesting depth (`Exact.vdepth`: the items of
a list / object are charged, not the list) is within the budget of the start state.  Statements of the originals are
untouched; these are new lemmas next to them.
-/
set_option linter.unusedSimpArgs false
namespace Apollo.Parse.Exact
open Apollo.Rowan hiding Str
open Apollo.Lex hiding Str


/-- the remaining recursion budget -/
def bud (s : PState) : Nat := s.recLimit - s.recCur

theorem bud_eat {s s' : PState} {c : List Tok} (e : Eat s s' c) : bud s' = bud s := by unfold bud; rw [e.recLimit, e.recCur]
theorem bud_adv {s s' : PState} (a : Adv s s') : bud s' = bud s := by unfold bud; rw [a.recLimit, a.recCur]
theorem bud_peek {s s' : PState} {o : Option Tok} (p : PeekObs s s' o) : bud s' = bud s := by unfold bud; rw [p.recLimit, p.recCur]
theorem bud_obs {s s' : PState} (o : ObsEq s s') : bud s' = bud s := by unfold bud; rw [o.recLimit, o.recCur]

/-- an error-free run of a value production: the consumed tokens are the tokens of a well-formed value WITHIN THE
    RECURSION BUDGET of the start state (`vdepth v + k ≤ bud s`; `k = 1` for a value under `recursion_limit`) — or the
    run stopped at the end of input -/
structure ValOkK (k : Nat) (isConst : Bool) (s s' : PState) : Prop where
  ex : ∃ cs, Toks s = cs ++ Toks s' ∧ NoEof cs ∧
    ((∃ v, TokIs (sig cs) (Ast.tValue v) ∧ valueOk isConst v = true ∧ vdepth v + k ≤ bud s) ∨ AtEof s')
  eof : EofEnd s'

abbrev ValOk (isConst : Bool) (s s' : PState) : Prop := ValOkK 0 isConst s s'

def ValSound (n : Nat) : Prop :=
  ∀ c p s s', TW s → EofEnd s → (value n c p).run s = .ok () s' → ¬ Doomed s' → ValOk c s s'

def ListSound (n : Nat) : Prop :=
  ∀ c s s' t rest, TW s → EofEnd s → Toks s = t :: rest → t.kind = .lBracket →
    (listValue n c).run s = .ok () s' → ¬ Doomed s' → ValOk c s s'

def ObjSound (n : Nat) : Prop :=
  ∀ c s s' t rest, TW s → EofEnd s → Toks s = t :: rest → t.kind = .lCurly →
    (objectValue n c).run s = .ok () s' → ¬ Doomed s' → ValOk c s s'

theorem vdepth_single {v : Ast.Value} {x : Ast.Tok} (h : Ast.tValue v = [x]) : vdepth v = 0 := by
  cases v <;> simp [vdepth]
  · simp [Ast.tValue] at h
  · simp [Ast.tValue] at h

theorem ValOk.of_eat {c : Bool} {s s' : PState} {cs : List Tok} (e : Eat s s' cs) (he : EofEnd s) (hno : NoEof cs)
    (v : Ast.Value) (ht : TokIs (sig cs) (Ast.tValue v)) (hv : valueOk c v = true)
    (hz : vdepth v = 0 := by simp [vdepth]) : ValOk c s s' :=
  ⟨⟨cs, e.toks, hno, Or.inl ⟨v, ht, hv, by rw [hz]; omega⟩⟩, eofEnd_eat he e hno⟩

theorem ValOk.transfer {k : Nat} {c : Bool} {s0 s s' : PState} (h : ValOkK k c s s') (ht : Toks s = Toks s0)
    (hb : bud s = bud s0) : ValOkK k c s0 s' := by
  obtain ⟨⟨cs, a, b, d⟩, e⟩ := h
  refine ⟨⟨cs, by rw [← ht]; exact a, b, ?_⟩, e⟩
  rcases d with ⟨v, h1, h2, h3⟩ | d
  · exact Or.inl ⟨v, h1, h2, by rw [← hb]; exact h3⟩
  · exact Or.inr d

/-- a value that is one token inside one node -/
theorem scalar_branch (K k : SK) (c : Bool) (s s' : PState) (w : TW s) (he : EofEnd s) (t : Tok) (rest : List Tok)
    (ht : Toks s = t :: rest) (hni : isIgnoredKind t.kind = false) (hne : t.kind ≠ .eof)
    (v : Ast.Value) (x : Ast.Tok) (hx : astOfV t = some x) (hv : Ast.tValue v = [x]) (hok : valueOk c v = true)
    (h : (withNode K (bump k)).run s = .ok () s') : ValOk c s s' := by
  obtain ⟨ign, e, hall⟩ := nodeBump_spec K k s s' w t rest ht hni h
  refine ValOk.of_eat e he (noEof_cons hne hall) v ?_ hok (vdepth_single hv)
  rw [sig_cons_ignV t ign hni hall, hv]
  exact TokIs.single t x hx

theorem kw_eq {s : String} {d : Str} (h : kw s d = true) : d = s.toList := by simpa [kw] using h

theorem enumValue_sound (c : Bool) (s s' : PState) (w : TW s) (he : EofEnd s) (t : Tok) (rest : List Tok)
    (ht : Toks s = t :: rest) (hk : t.kind = .name) (hnk : isValueKeyword t.data = false)
    (h : enumValue.run s = .ok () s') (hnd : ¬ Doomed s') : ValOk c s s' := by
  have hni : isIgnoredKind t.kind = false := by rw [hk]; rfl
  have hne : t.kind ≠ .eof := by rw [hk]; decide
  unfold enumValue at h
  obtain ⟨s1, s2, e1, h1, o2⟩ := withNode_peeked _ _ s s' () t rest w ht hni h
  have ht1 : Toks s1 = t :: rest := by have := e1.toks; rw [ht] at this; simpa using this.symm
  have hnd2 : ¬ Doomed s2 := fun d => hnd (o2.doomed.mpr d)
  obtain ⟨o, s3, h3, h4⟩ := bind_dec peekToken _ s1 s2 () h1
  have p := peekToken_obs s1 s3 o e1.w h3
  have ho : o = some t := by have := p.head; rw [ht1] at this; simpa using this
  subst ho
  have hkk : (t.kind == Kind.name) = true := by simp [hk]
  have hkw : (kw "true" t.data || kw "false" t.data || kw "null" t.data) = false := hnk
  simp only [hkk, if_true, hkw, Bool.false_eq_true, if_false] at h4
  have ht3 : Toks s3 = t :: rest := by rw [p.toks]; exact ht1
  obtain ⟨t', rest', ign, hq, _, e, hall⟩ := name_spec s3 s2 p.w (by rw [ht3]; simp) h4 hnd2
  rw [ht3] at hq
  injection hq with hq _
  subst hq
  have etot : Eat s s' (t :: ign) := by simpa using ((e1.trans p.eat).trans e).trans (Eat.ofObsEq o2 e.w)
  refine ValOk.of_eat etot he (noEof_cons hne hall) (.enum t.data) ?_ (by simp [valueOk, hnk])
  rw [sig_cons_ignV t ign hni hall]
  exact TokIs.single t _ (by simp [astOfV, hk])

theorem nameValue_sound (c : Bool) (s s' : PState) (w : TW s) (he : EofEnd s) (t : Tok) (rest : List Tok)
    (ht : Toks s = t :: rest) (hk : t.kind = .name)
    (h : (peekToken >>= nameValueBranch).run s = .ok () s') (hnd : ¬ Doomed s') : ValOk c s s' := by
  have hni : isIgnoredKind t.kind = false := by rw [hk]; rfl
  have hne : t.kind ≠ .eof := by rw [hk]; decide
  obtain ⟨o, s1, h1, h2⟩ := bind_dec peekToken _ s s' () h
  have p := peekToken_obs s s1 o w h1
  have ho : o = some t := by have := p.head; rw [ht] at this; simpa using this
  subst ho
  have ht1 : Toks s1 = t :: rest := by rw [p.toks]; exact ht
  have he1 : EofEnd s1 := eofEnd_eat he p.eat (by intro x hx; cases hx)
  have hx : astOfV t = some (.name t.data) := by simp [astOfV, hk]
  refine ValOk.transfer ?_ p.toks (bud_peek p)
  unfold nameValueBranch at h2
  simp only [] at h2
  by_cases h_t : kw "true" t.data = true
  · simp only [h_t, if_true] at h2
    exact scalar_branch _ _ c s1 s' p.w he1 t rest ht1 hni hne (.bool true) _ hx
      (by simp [Ast.tValue, Ast.sTrue, kw_eq h_t]) rfl h2
  · simp only [h_t, Bool.false_eq_true, if_false] at h2
    by_cases h_f : kw "false" t.data = true
    · simp only [h_f, if_true] at h2
      exact scalar_branch _ _ c s1 s' p.w he1 t rest ht1 hni hne (.bool false) _ hx
        (by simp [Ast.tValue, Ast.sFalse, kw_eq h_f]) rfl h2
    · simp only [h_f, Bool.false_eq_true, if_false] at h2
      by_cases h_n : kw "null" t.data = true
      · simp only [h_n, if_true] at h2
        exact scalar_branch _ _ c s1 s' p.w he1 t rest ht1 hni hne .null _ hx
          (by simp [Ast.tValue, Ast.sNull, kw_eq h_n]) rfl h2
      · simp only [h_n, Bool.false_eq_true, if_false] at h2
        exact enumValue_sound c s1 s' p.w he1 t rest ht1 hk (by simp [isValueKeyword, h_t, h_f, h_n]) h2 hnd

theorem variableBranch_sound (c pp : Bool) (s s' : PState) (w : TW s) (he : EofEnd s) (t : Tok) (rest : List Tok)
    (ht : Toks s = t :: rest) (hk : t.kind = .dollar)
    (h : (variableBranch c pp).run s = .ok () s') (hnd : ¬ Doomed s') : ValOk c s s' := by
  have hni : isIgnoredKind t.kind = false := by rw [hk]; rfl
  have hne : t.kind ≠ .eof := by rw [hk]; decide
  unfold variableBranch at h
  cases c with
  | true =>
    exfalso
    simp only [if_true] at h
    obtain ⟨_, s1, h1, h2⟩ := bind_dec (valueErr pp) _ s s' () h
    have d1 := valueErr_dooms pp s s1 w (by rw [ht]; simp) h1
    have a1 := good_valueErr pp s () s1 w h1
    exact hnd ((good_variableNode s1 () s' a1.w h2).doom d1)
  | false =>
    simp only [Bool.false_eq_true, if_false] at h
    unfold variableNode at h
    obtain ⟨s1, s2, e1, h1, o2⟩ := withNode_peeked _ _ s s' () t rest w ht hni h
    have ht1 : Toks s1 = t :: rest := by have := e1.toks; rw [ht] at this; simpa using this.symm
    have hnd2 : ¬ Doomed s2 := fun d => hnd (o2.doomed.mpr d)
    obtain ⟨_, s3, h3, h4⟩ := bind_dec (bump "DOLLAR") _ s1 s2 () h1
    obtain ⟨ign1, eb, hall1, _⟩ := bump_spec "DOLLAR" s1 s3 e1.w t rest ht1 h3
    have he3 : EofEnd s3 := eofEnd_eat (eofEnd_eat he e1 (by intro x hx; cases hx)) eb (noEof_cons hne hall1)
    have hnd3 : ¬ Doomed s3 := fun d => hnd2 ((good_name s3 () s2 eb.w h4).doom d)
    obtain ⟨t2, rest2, ign2, hq2, hk2, e2, hall2⟩ := name_spec s3 s2 eb.w (eofEnd_nonempty s3 he3 hnd3) h4 hnd2
    have hni2 : isIgnoredKind t2.kind = false := by rw [hk2]; rfl
    have hne2 : t2.kind ≠ .eof := by rw [hk2]; decide
    have etot : Eat s s' ((t :: ign1) ++ (t2 :: ign2)) := by
      simpa using ((e1.trans eb).trans e2).trans (Eat.ofObsEq o2 e2.w)
    refine ValOk.of_eat etot he (noEof_append (noEof_cons hne hall1) (noEof_cons hne2 hall2)) (.var t2.data) ?_ (by simp [valueOk])
    rw [sig_append, sig_cons_ignV t ign1 hni hall1, sig_cons_ignV t2 ign2 hni2 hall2]
    exact TokIs.cons (by simp [astOfV, hk]) (TokIs.single t2 _ (by simp [astOfV, hk2]))


theorem getCurrent_dec {α : Type} (f : Option Tok → PI α) (s s' : PState) (a : α)
    (h : (getCurrent >>= f).run s = .ok a s') : (f s.current).run s = .ok a s' := by
  obtain ⟨o, s1, h1, h2⟩ := bind_dec getCurrent _ s s' a h
  have e : getCurrent.run s = .ok s.current s := rfl
  rw [e] at h1
  cases h1
  exact h2

theorem stuck_not_ok {α : Type} (s s' : PState) (a : α) : (PI.stuck : PI α).run s ≠ .ok a s' := by
  simp [PI.stuck]

/-- result of a run over a sequence of items: the consumed tokens are the concatenation of well-formed items
    (`Q` says what one item is) — or the run stopped at the end of input -/
@[reducible] def ItemsOk (E : PState → Prop) (Q : List Ast.Tok → Prop) (s s' : PState) : Prop :=
  ∃ cs, Toks s = cs ++ Toks s' ∧ NoEof cs ∧ EofEnd s' ∧
    ((∃ items : List (List Ast.Tok), TokIs (sig cs) items.flatten ∧ ∀ x ∈ items, Q x) ∨ E s')

/-- one item: what the loop body must guarantee when it starts on a token of the expected kind -/
@[reducible] def ItemSpecB (B : Nat) (E : PState → Prop) (k : Kind) (body : PI Unit) (Q : List Ast.Tok → Prop) : Prop :=
  ∀ s s' t rest, TW s → EofEnd s → bud s = B → Toks s = t :: rest → t.kind = k → body.run s = .ok () s' → ¬ Doomed s' →
    ∃ cs, Toks s = cs ++ Toks s' ∧ NoEof cs ∧ EofEnd s' ∧ ((∃ x, TokIs (sig cs) x ∧ Q x) ∨ E s')

theorem atEof_rest (s s' : PState) (cs : List Tok) (he : EofEnd s) (hnd : ¬ Doomed s) (ha : AtEof s)
    (ht : Toks s = cs ++ Toks s') (hno : NoEof cs) : AtEof s' := by
  obtain ⟨e, hq, hk⟩ := atEof_single s he hnd ha
  rw [hq] at ht
  cases cs with
  | nil => exact ⟨e, by simp at ht; rw [← ht]; rfl, hk⟩
  | cons x cs =>
    exfalso
    simp only [List.cons_append] at ht
    injection ht with h1 _
    exact hno x (by simp) (h1 ▸ hk)

/-- how the "stopped early" alternative `E` of an item propagates through the rest of a run -/
@[reducible] def Carries (E : PState → Prop) : Prop :=
  ∀ sB s' c2, EofEnd sB → ¬ Doomed sB → E sB → Toks sB = c2 ++ Toks s' → NoEof c2 → E s'

theorem carries_atEof : Carries AtEof := fun sB s' c2 a b d e f => atEof_rest sB s' c2 a b d e f

theorem carries_false : Carries (fun _ => False) := fun _ _ _ _ _ d _ _ => d

theorem peekWhileKindLoop_sound (B : Nat) (E : PState → Prop) (hE : Carries E) (k : Kind) (body : PI Unit) (Q : List Ast.Tok → Prop) (hgood : Good body)
    (hitem : ItemSpecB B E k body Q) : ∀ (fuel : Nat) (s s' : PState), TW s → EofEnd s → bud s = B →
      (peekWhileKindLoop k body fuel).run s = .ok () s' → ¬ Doomed s' → ItemsOk E Q s s'
  | 0, s, s', _, _, _, h, _ => by simp [peekWhileKindLoop, PI.outOfFuel] at h
  | fuel + 1, s, s', w, he, hB, h, hnd => by
    unfold peekWhileKindLoop at h
    obtain ⟨ko, sP, hp, h2⟩ := bind_dec peek _ s s' () h
    obtain ⟨o, p, hko⟩ := peek_obs s sP ko w hp
    subst hko
    have heP : EofEnd sP := eofEnd_eat he p.eat (by intro x hx; cases hx)
    have stop : s' = sP → ItemsOk E Q s s' := by
      intro e
      rw [e]
      unfold ItemsOk
      refine ⟨[], ?_, ?_, heP, Or.inl ⟨[], TokIs.nil, ?_⟩⟩
      · rw [p.toks]; rfl
      · intro x hx; cases hx
      · intro x hx; cases hx
    cases o with
    | none =>
      simp only [Option.map_none] at h2
      rw [run_pure] at h2
      injection h2 with _ h2
      exact stop h2.symm
    | some t =>
      simp only [Option.map_some] at h2
      by_cases hk : (t.kind != k) = true
      · simp only [hk, if_true] at h2
        rw [run_pure] at h2
        injection h2 with _ h2
        exact stop h2.symm
      · simp only [hk, Bool.false_eq_true, if_false] at h2
        have hkk : t.kind = k := by simpa using hk
        have h3 := getCurrent_dec _ sP s' () h2
        obtain ⟨_, sB, hb, h4⟩ := bind_dec body _ sP s' () h3
        have h5 := getCurrent_dec _ sB s' () h4
        have aB := hgood sP () sB p.w hb
        by_cases hsame : (sP.current == sB.current) = true
        · simp only [hsame, if_true] at h5
          exact absurd h5 (stuck_not_ok _ _ _)
        · simp only [hsame, Bool.false_eq_true, if_false] at h5
          have hndB : ¬ Doomed sB := fun d => hnd ((good_peekWhileKindLoop k body hgood fuel sB () s' aB.w h5).doom d)
          have htP : Toks sP = t :: (Toks sP).tail := by
            have := p.head; rw [← p.toks] at this; exact toks_head_cons sP t this.symm
          obtain ⟨c1, hc1, hno1, he1, hr1⟩ := hitem sP sB t _ p.w heP (by rw [bud_peek p]; exact hB) htP hkk hb hndB
          obtain ⟨c2, hc2, hno2, he2, hr2⟩ := peekWhileKindLoop_sound B E hE k body Q hgood hitem fuel sB s' aB.w he1 (by rw [bud_adv aB, bud_peek p]; exact hB) h5 hnd
          refine ⟨c1 ++ c2, by rw [← p.toks, hc1, hc2, List.append_assoc], noEof_append hno1 hno2, he2, ?_⟩
          rcases hr1 with ⟨x, hx, hq⟩ | ha
          · rcases hr2 with ⟨items, hi, hall⟩ | ha2
            · refine Or.inl ⟨x :: items, ?_, ?_⟩
              · rw [sig_append]; simpa using hx.append hi
              · intro y hy
                rcases List.mem_cons.mp hy with rfl | hy
                · exact hq
                · exact hall y hy
            · exact Or.inr ha2
          · exact Or.inr (hE sB s' c2 he1 hndB ha hc2 hno2)

theorem peekWhileKind_sound (B : Nat) (E : PState → Prop) (hE : Carries E) (k : Kind) (body : PI Unit) (Q : List Ast.Tok → Prop) (hgood : Good body)
    (hitem : ItemSpecB B E k body Q) (s s' : PState) (w : TW s) (he : EofEnd s) (hB : bud s = B)
    (h : (peekWhileKind k body).run s = .ok () s') (hnd : ¬ Doomed s') : ItemsOk E Q s s' := by
  unfold peekWhileKind at h
  obtain ⟨n, s1, h1, h2⟩ := bind_dec srcLen _ s s' () h
  have : s1 = s := by
    unfold srcLen at h1
    simp only [] at h1
    injection h1 with _ h1
    exact h1.symm
  subst this
  exact peekWhileKindLoop_sound B E hE k body Q hgood hitem _ s1 s' w he hB h2 hnd

end Apollo.Parse.Exact
