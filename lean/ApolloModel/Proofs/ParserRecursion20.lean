import ApolloModel.Proofs.ParserRecursion19
/-
C04 growth (recursion limit across runs), part 20: "no hit ⇒ no limit error" for value.rs, ty.rs, selection.rs,
every definition parser, `document()` and the entry points.
-/
set_option linter.unusedSimpArgs false
set_option linter.unusedVariables false
namespace Apollo.Parse
open Apollo.Rowan hiding Str
open Apollo.Lex hiding Str

theorem ng_variableNode : NG variableNode := by unfold variableNode; ng_auto
macro_rules | `(tactic| ng_leaf) => `(tactic| exact ng_variableNode)
theorem ng_enumValue : NG enumValue := by unfold enumValue; ng_auto
macro_rules | `(tactic| ng_leaf) => `(tactic| exact ng_enumValue)
theorem ng_namedType : NG namedType := by unfold namedType; ng_auto
macro_rules | `(tactic| ng_leaf) => `(tactic| exact ng_namedType)
theorem ng_alias : NG alias := by unfold alias; ng_auto
macro_rules | `(tactic| ng_leaf) => `(tactic| exact ng_alias)
theorem ng_fragmentName : NG fragmentName := by unfold fragmentName; ng_auto
macro_rules | `(tactic| ng_leaf) => `(tactic| exact ng_fragmentName)
theorem ng_typeCondition : NG typeCondition := by unfold typeCondition; ng_auto
macro_rules | `(tactic| ng_leaf) => `(tactic| exact ng_typeCondition)

/-! ### value.rs -/

structure NAll (n : Nat) : Prop where
  value : ∀ c p, NG (value n c p)
  list : ∀ c, NG (listValue n c)
  obj : ∀ c, NG (objectValue n c)
  field : ∀ c, NG (objectField n c)

theorem ng_valueErr (p : Bool) : NG (valueErr p) := by unfold valueErr; ng_auto
theorem ng_nameValueBranch (o : Option Tok) : NG (nameValueBranch o) := by
  cases o with
  | none => exact ng_pure _
  | some t => unfold nameValueBranch; ng_auto
theorem ng_variableBranch (c p : Bool) : NG (variableBranch c p) := by
  have := ng_valueErr p
  unfold variableBranch; ng_auto

theorem ng_listLoopBody (n : Nat) (c : Bool) (iv : ∀ c p, NG (value n c p)) (k : Kind) : NG (listLoopBody n c k) := by
  unfold listLoopBody; ng_auto

theorem ng_objectFieldTail (n : Nat) (c : Bool) (iv : ∀ c p, NG (value n c p)) (k : Option Kind) : NG (objectFieldTail n c k) := by
  unfold objectFieldTail; ng_auto

theorem nAll : ∀ n, NAll n
  | 0 => ⟨fun _ _ => by simp only [value]; exact ng_of_plainQ plainQ_outOfFuel, fun _ => by simp only [listValue]; exact ng_of_plainQ plainQ_outOfFuel,
      fun _ => by simp only [objectValue]; exact ng_of_plainQ plainQ_outOfFuel, fun _ => by simp only [objectField]; exact ng_of_plainQ plainQ_outOfFuel⟩
  | n + 1 => by
    obtain ⟨iv, il, io, ifd⟩ := nAll n
    refine ⟨?_, ?_, ?_, ?_⟩
    · intro c p
      rw [value_succ]
      refine ng_bind _ _ ng_peek ?_
      intro k
      cases k with
      | none => exact ng_valueErr p
      | some k =>
        cases k <;> first
          | exact ng_valueErr p
          | exact ng_variableBranch c p
          | exact ng_withNode' _ _ (ng_bump _)
          | exact ng_bind _ _ (ng_of_plainQ plainQ_peekToken) ng_nameValueBranch
          | exact il c
          | exact io c
    · intro c
      rw [listValue_succ]
      exact ng_withNode' _ _ (ng_bind _ _ (ng_bump _) (fun _ => ng_peekWhile _ (ng_listLoopBody n c iv)))
    · intro c
      rw [objectValue_succ]
      exact ng_withNode' _ _ (ng_bind _ _ (ng_bump _) (fun _ => ng_bind _ _ (ng_peekWhileKind _ _ (ifd c)) (fun _ => ng_expect _ _)))
    · intro c
      rw [objectField_succ]
      exact ng_withNode' _ _ (ng_bind _ _ ng_name (fun _ => ng_bind _ _ ng_peek (ng_objectFieldTail n c iv)))

theorem ng_value (n : Nat) (c p : Bool) : NG (value n c p) := (nAll n).value c p
macro_rules | `(tactic| ng_leaf) => `(tactic| exact ng_value _ _ _)

theorem ng_argument (n : Nat) (c : Bool) : NG (argument n c) := by rw [argument_eq]; unfold argumentTail; ng_auto
macro_rules | `(tactic| ng_leaf) => `(tactic| exact ng_argument _ _)
theorem ng_arguments (n : Nat) (c : Bool) : NG (arguments n c) := by rw [arguments_eq]; unfold argumentsFirst argumentsRest; ng_auto
macro_rules | `(tactic| ng_leaf) => `(tactic| exact ng_arguments _ _)
theorem ng_directive (n : Nat) (c : Bool) : NG (directive n c) := by rw [directive_eq]; unfold directiveTail; ng_auto
macro_rules | `(tactic| ng_leaf) => `(tactic| exact ng_directive _ _)
theorem ng_directives (n : Nat) (c : Bool) : NG (directives n c) := by unfold directives; ng_auto
macro_rules | `(tactic| ng_leaf) => `(tactic| exact ng_directives _ _)
theorem ng_fragmentSpread (n : Nat) : NG (fragmentSpread n) := by unfold fragmentSpread; ng_auto
macro_rules | `(tactic| ng_leaf) => `(tactic| exact ng_fragmentSpread _)

/-! ### ty.rs -/

theorem ng_tyCond (r : TyRes) : NG (tyCond r) := by
  cases r <;> (unfold tyCond; ng_auto)

theorem ng_tyListBody (n : Nat) (ih : NG (tyParse n)) : NG (tyListBody n) := by
  unfold tyListBody
  refine ng_bind _ _ (ng_bump _) (fun _ => ng_bind _ _
    (ng_withRec _ _ (plain_bind _ _ plain_limitErr (fun _ => plain_pure _)) (ng_bind _ _ ih (fun _ => ng_pure _))) ?_)
  intro inner
  have jp : NG (expect .rBracket "R_BRACK" >>= fun _ => (pure TyRes.ok : PI TyRes)) :=
    ng_bind _ _ (ng_expect _ _) (fun _ => ng_pure _)
  cases inner with
  | none => exact ng_pure _
  | some res =>
    cases res with
    | errTok t => exact ng_bind _ _ (ng_errAtToken t) (fun _ => jp)
    | ok => exact jp
    | early => exact jp
    | errNone => exact jp

theorem ng_tyBody (n : Nat) (ih : NG (tyParse n)) : NG (tyBody n) := by
  unfold tyBody
  refine ng_bind _ _ ng_peek ?_
  intro k
  cases k with
  | none => exact ng_pure _
  | some k =>
    cases k <;> first
      | exact ng_withNode' _ _ (ng_tyListBody n ih)
      | exact ng_withNode' _ _ (ng_withNode' _ _ (ng_bind _ _ (ng_eat _) (fun _ => ng_pure _)))
      | (refine ng_bind _ _ (ng_of_plainQ plainQ_popDrop) ?_
         intro o
         cases o <;> exact ng_pure _)

theorem ng_tyParse : ∀ n, NG (tyParse n)
  | 0 => by unfold tyParse; exact ng_of_plainQ plainQ_outOfFuel
  | n + 1 => by
    have ih := ng_tyParse n
    rw [tyParse_succ]
    refine ng_bind _ _ (ng_wrapIf _ _ _ _ (ng_tyBody n ih) ng_tyCond (ng_eat _)) (fun r => ?_)
    cases r with
    | ok => exact ng_bind _ _ ng_skipIgnored (fun _ => ng_pure _)
    | early => exact ng_bind (pure ()) _ (ng_pure ()) (fun _ => ng_pure _)
    | errTok t => exact ng_bind (pure ()) _ (ng_pure ()) (fun _ => ng_pure _)
    | errNone => exact ng_bind (pure ()) _ (ng_pure ()) (fun _ => ng_pure _)

theorem ng_ty (n : Nat) : NG (ty n) := by
  have := ng_tyParse n
  unfold ty
  ng_auto
macro_rules | `(tactic| ng_leaf) => `(tactic| exact ng_ty _)

/-! ### selection.rs -/

structure NSel (n : Nat) : Prop where
  selSet : NG (selectionSet n)
  sel : NG (selection n)
  field : NG (field n)
  inline : NG (inlineFragment n)

theorem nSel : ∀ n, NSel n
  | 0 => ⟨by unfold selectionSet; exact ng_of_plainQ plainQ_outOfFuel, by unfold selection; exact ng_of_plainQ plainQ_outOfFuel,
          by unfold field; exact ng_of_plainQ plainQ_outOfFuel, by unfold inlineFragment; exact ng_of_plainQ plainQ_outOfFuel⟩
  | n + 1 => by
    obtain ⟨i1, i2, i3, i4⟩ := nSel n
    refine ⟨?_, ?_, ?_, ?_⟩
    · rw [selectionSet_succ]; unfold selSetBody; ng_auto
    · rw [selection_succ]; unfold selBody; ng_auto
    · rw [field_succ]; unfold fieldBody; ng_auto
    · rw [inlineFragment_succ]; unfold inlineBody; ng_auto

theorem ng_selectionSet (n : Nat) : NG (selectionSet n) := (nSel n).selSet
macro_rules | `(tactic| ng_leaf) => `(tactic| exact ng_selectionSet _)
theorem ng_selection (n : Nat) : NG (selection n) := (nSel n).sel
macro_rules | `(tactic| ng_leaf) => `(tactic| exact ng_selection _)

theorem ng_fieldSet (n : Nat) : NG (fieldSet n) := by unfold fieldSet; ng_auto
theorem ng_expectEndOfInput : NG expectEndOfInput := by unfold expectEndOfInput errUnlessEnd; ng_auto

/-! ### definitions, `document()` -/

theorem ng_description : NG description := by unfold description; ng_auto
macro_rules | `(tactic| ng_leaf) => `(tactic| exact ng_description)

theorem ng_operationType : NG operationType := by unfold operationType; ng_auto
macro_rules | `(tactic| ng_leaf) => `(tactic| exact ng_operationType)

theorem ng_defaultValue (n : Nat) : NG (defaultValue n) := by unfold defaultValue; ng_auto
macro_rules | `(tactic| ng_leaf) => `(tactic| exact ng_defaultValue _)

theorem ng_inputValueDefinition (n : Nat) : NG (inputValueDefinition n) := by unfold inputValueDefinition; ng_auto
macro_rules | `(tactic| ng_leaf) => `(tactic| exact ng_inputValueDefinition _)

theorem ng_variableDefinition (n : Nat) : NG (variableDefinition n) := by unfold variableDefinition; ng_auto
macro_rules | `(tactic| ng_leaf) => `(tactic| exact ng_variableDefinition _)

theorem ng_variableDefinitions (n : Nat) : NG (variableDefinitions n) := by unfold variableDefinitions; ng_auto
macro_rules | `(tactic| ng_leaf) => `(tactic| exact ng_variableDefinitions _)

theorem ng_argumentsDefinitionBody (n : Nat) : NG (argumentsDefinitionBody n) := by unfold argumentsDefinitionBody isNameOrString; ng_auto
macro_rules | `(tactic| ng_leaf) => `(tactic| exact ng_argumentsDefinitionBody _)

theorem ng_argumentsDefinition (n : Nat) : NG (argumentsDefinition n) := by unfold argumentsDefinition; ng_auto
macro_rules | `(tactic| ng_leaf) => `(tactic| exact ng_argumentsDefinition _)

theorem ng_fragmentDefinition (n : Nat) : NG (fragmentDefinition n) := by unfold fragmentDefinition; ng_auto
macro_rules | `(tactic| ng_leaf) => `(tactic| exact ng_fragmentDefinition _)

theorem ng_operationDefinition (n : Nat) : NG (operationDefinition n) := by unfold operationDefinition; ng_auto
macro_rules | `(tactic| ng_leaf) => `(tactic| exact ng_operationDefinition _)

theorem ng_fieldDefinition (n : Nat) : NG (fieldDefinition n) := by unfold fieldDefinition; ng_auto
macro_rules | `(tactic| ng_leaf) => `(tactic| exact ng_fieldDefinition _)

theorem ng_fieldsDefinition (n : Nat) : NG (fieldsDefinition n) := by unfold fieldsDefinition isNameOrString; ng_auto
macro_rules | `(tactic| ng_leaf) => `(tactic| exact ng_fieldsDefinition _)

theorem ng_rootOperationTypeDefinition : NG rootOperationTypeDefinition := by unfold rootOperationTypeDefinition; ng_auto
macro_rules | `(tactic| ng_leaf) => `(tactic| exact ng_rootOperationTypeDefinition)

theorem ng_schemaDefinition (n : Nat) : NG (schemaDefinition n) := by unfold schemaDefinition; ng_auto
macro_rules | `(tactic| ng_leaf) => `(tactic| exact ng_schemaDefinition _)

theorem ng_schemaExtension (n : Nat) : NG (schemaExtension n) := by unfold schemaExtension; ng_auto
macro_rules | `(tactic| ng_leaf) => `(tactic| exact ng_schemaExtension _)

theorem ng_nameOrErr : NG nameOrErr := by unfold nameOrErr; ng_auto
macro_rules | `(tactic| ng_leaf) => `(tactic| exact ng_nameOrErr)

theorem ng_scalarTypeDefinition (n : Nat) : NG (scalarTypeDefinition n) := by unfold scalarTypeDefinition; ng_auto
macro_rules | `(tactic| ng_leaf) => `(tactic| exact ng_scalarTypeDefinition _)

theorem ng_scalarTypeExtension (n : Nat) : NG (scalarTypeExtension n) := by unfold scalarTypeExtension; ng_auto
macro_rules | `(tactic| ng_leaf) => `(tactic| exact ng_scalarTypeExtension _)

theorem ng_implementsInterfaces : NG implementsInterfaces := by unfold implementsInterfaces; ng_auto
macro_rules | `(tactic| ng_leaf) => `(tactic| exact ng_implementsInterfaces)

theorem ng_objectTypeDefinition (n : Nat) : NG (objectTypeDefinition n) := by unfold objectTypeDefinition; ng_auto
macro_rules | `(tactic| ng_leaf) => `(tactic| exact ng_objectTypeDefinition _)

theorem ng_objectTypeExtension (n : Nat) : NG (objectTypeExtension n) := by unfold objectTypeExtension; ng_auto
macro_rules | `(tactic| ng_leaf) => `(tactic| exact ng_objectTypeExtension _)

theorem ng_interfaceTypeDefinition (n : Nat) : NG (interfaceTypeDefinition n) := by unfold interfaceTypeDefinition; ng_auto
macro_rules | `(tactic| ng_leaf) => `(tactic| exact ng_interfaceTypeDefinition _)

theorem ng_interfaceTypeExtension (n : Nat) : NG (interfaceTypeExtension n) := by unfold interfaceTypeExtension; ng_auto
macro_rules | `(tactic| ng_leaf) => `(tactic| exact ng_interfaceTypeExtension _)

theorem ng_unionMemberTypes : NG unionMemberTypes := by unfold unionMemberTypes; ng_auto
macro_rules | `(tactic| ng_leaf) => `(tactic| exact ng_unionMemberTypes)

theorem ng_unionTypeDefinition (n : Nat) : NG (unionTypeDefinition n) := by unfold unionTypeDefinition; ng_auto
macro_rules | `(tactic| ng_leaf) => `(tactic| exact ng_unionTypeDefinition _)

theorem ng_unionTypeExtension (n : Nat) : NG (unionTypeExtension n) := by unfold unionTypeExtension; ng_auto
macro_rules | `(tactic| ng_leaf) => `(tactic| exact ng_unionTypeExtension _)

theorem ng_enumValueDefinition (n : Nat) : NG (enumValueDefinition n) := by unfold enumValueDefinition isNameOrString; ng_auto
macro_rules | `(tactic| ng_leaf) => `(tactic| exact ng_enumValueDefinition _)

theorem ng_enumValuesDefinition (n : Nat) : NG (enumValuesDefinition n) := by unfold enumValuesDefinition isNameOrString; ng_auto
macro_rules | `(tactic| ng_leaf) => `(tactic| exact ng_enumValuesDefinition _)

theorem ng_enumTypeDefinition (n : Nat) : NG (enumTypeDefinition n) := by unfold enumTypeDefinition; ng_auto
macro_rules | `(tactic| ng_leaf) => `(tactic| exact ng_enumTypeDefinition _)

theorem ng_enumTypeExtension (n : Nat) : NG (enumTypeExtension n) := by unfold enumTypeExtension; ng_auto
macro_rules | `(tactic| ng_leaf) => `(tactic| exact ng_enumTypeExtension _)

theorem ng_inputFieldsDefinition (n : Nat) : NG (inputFieldsDefinition n) := by unfold inputFieldsDefinition isNameOrString; ng_auto
macro_rules | `(tactic| ng_leaf) => `(tactic| exact ng_inputFieldsDefinition _)

theorem ng_inputObjectTypeDefinition (n : Nat) : NG (inputObjectTypeDefinition n) := by unfold inputObjectTypeDefinition; ng_auto
macro_rules | `(tactic| ng_leaf) => `(tactic| exact ng_inputObjectTypeDefinition _)

theorem ng_inputObjectTypeExtension (n : Nat) : NG (inputObjectTypeExtension n) := by unfold inputObjectTypeExtension; ng_auto
macro_rules | `(tactic| ng_leaf) => `(tactic| exact ng_inputObjectTypeExtension _)

theorem ng_directiveLocation : NG directiveLocation := by unfold directiveLocation; ng_auto
macro_rules | `(tactic| ng_leaf) => `(tactic| exact ng_directiveLocation)

theorem ng_directiveLocations : NG directiveLocations := by unfold directiveLocations; ng_auto
macro_rules | `(tactic| ng_leaf) => `(tactic| exact ng_directiveLocations)

theorem ng_directiveDefinition (n : Nat) : NG (directiveDefinition n) := by unfold directiveDefinition; ng_auto
macro_rules | `(tactic| ng_leaf) => `(tactic| exact ng_directiveDefinition _)

theorem ng_extensions (n : Nat) : NG (extensions n) := by unfold extensions; ng_auto
macro_rules | `(tactic| ng_leaf) => `(tactic| exact ng_extensions _)

theorem ng_selectDefinition (n : Nat) (d : Str) : NG (selectDefinition n d) := by unfold selectDefinition; ng_auto
macro_rules | `(tactic| ng_leaf) => `(tactic| exact ng_selectDefinition _ _)

theorem ng_documentDispatch (n : Nat) (k : Kind) : NG (documentDispatch n k) := by unfold documentDispatch; ng_auto
macro_rules | `(tactic| ng_leaf) => `(tactic| exact ng_documentDispatch _ _)

theorem ng_documentStep (n : Nat) (k : Kind) : NG (documentStep n k) := by unfold documentStep; ng_auto
macro_rules | `(tactic| ng_leaf) => `(tactic| exact ng_documentStep _ _)


theorem ng_documentBody (n : Nat) : NG (documentBody n) := by unfold documentBody errIfEmpty; ng_auto

theorem ng_document (n : Nat) : NG (document n) := by unfold document; exact ng_withNode' _ _ (ng_documentBody n)

theorem ng_entry (e : Entry) (n : Nat) : NG (e.grammar n) := by
  cases e with
  | document => exact ng_document n
  | selectionSet => exact ng_bind _ _ (ng_fieldSet n) (fun _ => ng_expectEndOfInput)
  | type => exact ng_bind _ _ (ng_ty n) (fun _ => ng_expectEndOfInput)

/-- A parse whose recursion limit is never hit (no token limit) reports no limit error. -/
theorem parse_no_limit_error (e : Entry) (R : Nat) (src : Str) (hfree : (parse e none R src).recHigh ≤ R) :
    ¬ HasLim (parse e none R src).errors := by
  obtain ⟨sR, hR, eR1, eR2⟩ := parse_entry_run e R src
  rw [eR1]
  rw [eR2] at hfree
  have g : GI (setL R (entryStart e src)) := by
    cases e <;> exact ⟨rfl, fun h => by simp [setL, entryStart, Entry.standalone, initState] at h,
      fun h => by simp [setL, entryStart, Entry.standalone, initState] at h⟩
  intro hl
  have hc0 : (setL R (entryStart e src)).recCur ≤ (setL R (entryStart e src)).recLimit := by cases e <;> exact Nat.zero_le _
  have := (ng_entry e (fuelFor src)).n _ () sR g hc0 hR (by simpa [setL] using hfree) hl
  have he : (setL R (entryStart e src)).errors = [] := by cases e <;> rfl
  rw [he] at this
  obtain ⟨x, hx, _⟩ := this
  cases hx

end Apollo.Parse
