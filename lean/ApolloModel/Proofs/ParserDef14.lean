import ApolloModel.Proofs.ParserDef13
/-
C05 growth (type-system definitions), part 14: directive definitions and schema definitions.
-/
set_option linter.unusedSimpArgs false
namespace Apollo.Parse
open Apollo.Rowan hiding Str
open Apollo.Lex hiding Str

/-! ### directive definition -/

def dLocs : PI Unit :=
  peek >>= fun k => if (k == some .name || k == some .pipe) then withNode "DIRECTIVE_LOCATIONS" directiveLocations else err
def dOn : PI Unit :=
  peekData >>= fun o => match o with
    | some d => if kw "on" d then (bump "on_KW" >>= fun _ => dLocs) else (err >>= fun _ => dLocs)
    | none => dLocs
def dName (n : Nat) : PI Unit :=
  name >>= fun _ => optKind .lParen (argumentsDefinition n) (optKw "repeatable" "repeatable_KW" dOn)
def dAt (n : Nat) : PI Unit :=
  peek >>= fun k => if k == some .at then (bump "AT" >>= fun _ => dName n) else (err >>= fun _ => dName n)

theorem directiveDefinition_eq (n : Nat) : directiveDefinition n = withNode "DIRECTIVE_DEFINITION"
    (optKind .stringValue description (optKw "directive" "directive_KW" (dAt n))) := rfl

def LocsR (x : List Ast.Tok) : Prop :=
  ∃ lead first rest, x = tSepLead .pipe lead first rest ∧ IsDirLoc first ∧ ∀ r ∈ rest, IsDirLoc r

theorem acc_dLocs {H : List Tok → Prop} : Acc E0 H dLocs (fun _ => LocsR) := by
  unfold dLocs
  exact acc_peekIf _ _ _ _ (acc_withNodeAny early_false _ (acc_directiveLocations early_false)) acc_err

theorem good_dLocs : Good dLocs := (acc_dLocs (H := fun _ => True)).1

theorem accL_dOn : Acc E0 LexQ dOn (fun _ x => ∃ x2, x = .name Ast.sOn :: x2 ∧ LocsR x2) := by
  apply acc_nonempty
  unfold dOn
  apply acc_peekData
  intro o
  cases o with
  | none =>
    refine acc_absurd good_dLocs ?_
    rintro q ⟨⟨_, hne⟩, h2⟩
    cases q with
    | nil => exact hne rfl
    | cons a b => cases h2
  | some t =>
    simp only [Option.map]
    apply acc_ite
    · intro hk
      have hd : t.data = "on".toList := by simpa [kw] using hk
      have hb : Acc E0 (fun q => (LexQ q ∧ q ≠ []) ∧ q.head? = some t) (bump "on_KW") (fun _ x => x = [.name "on".toList]) :=
        (accL_bumpKw "on" kwWord_on "on_KW").mono (fun q ⟨⟨hl, _⟩, hq⟩ => ⟨hl, t, hq, hd⟩) (fun _ _ h => h)
      refine (acc_bind early_false hb (fun _ => acc_dLocs)).mono (fun _ h => h) ?_
      rintro _ x ⟨_, x1, x2, e, h1, h2⟩
      exact ⟨x2, by rw [e, h1]; rfl, h2⟩
    · intro _; exact acc_err' dLocs good_dLocs

def directiveToks (desc : Option Str) (seen : Bool) (nm : Str) (args : List Ast.InputValueDef) (rep lead : Bool)
    (first : Str) (rest : List Str) : List Ast.Tok :=
  Ast.tDescription desc ++ kwPart "directive" seen ++ .p .at :: .name nm :: Ast.tArgsDef args
    ++ kwPart "repeatable" rep ++ .name Ast.sOn :: tSepLead .pipe lead first rest

theorem at_sig : ∀ k : Kind, (k == Kind.at) = true → isIgnoredKind k = false := by
  intro k hk; have : k = .at := by simpa using hk
  subst this; rfl

/-- what follows the `directive` keyword -/
def DirTailR (x : List Ast.Tok) : Prop :=
  ∃ nm args rep x2, x = .p .at :: .name nm :: Ast.tArgsDef args ++ kwPart "repeatable" rep ++ .name Ast.sOn :: x2 ∧ LocsR x2

theorem accL_dAt (n : Nat) : Acc E0 LexQ (dAt n) (fun _ => DirTailR) := by
  have hRep : Acc E0 LexQ (optKw "repeatable" "repeatable_KW" dOn)
      (fun _ x => ∃ rep x2, x = kwPart "repeatable" rep ++ .name Ast.sOn :: x2 ∧ LocsR x2) := by
    refine (accL_optKw early_false "repeatable" kwWord_repeatable _ _ _ accL_dOn).mono (fun _ h => h) ?_
    rintro _ x ⟨rep, x2, e, x3, e3, h3⟩
    exact ⟨rep, x3, by rw [e, e3], h3⟩
  have hName : Acc E0 LexQ (dName n)
      (fun _ x => ∃ nm args rep x2, x = .name nm :: Ast.tArgsDef args ++ kwPart "repeatable" rep ++ .name Ast.sOn :: x2 ∧ LocsR x2) := by
    unfold dName
    refine (accL_bind early_false (fun _ h => h) acc_name
      (fun _ => accL_optKind early_false .lParen (argumentsDefinition n) _ _ _ (acc_argumentsDefinition n) hRep)).mono (fun _ h => h) ?_
    rintro _ x ⟨_, x1, x2, e, ⟨nm, h1⟩, x3, x4, e3, h3, rep, x5, e5, h5⟩
    rcases h3 with ⟨args, _, h3⟩ | h3
    · exact ⟨nm, args, rep, x5, by rw [e, h1, e3, h3, e5]; simp, h5⟩
    · exact ⟨nm, [], rep, x5, by rw [e, h1, e3, h3, e5]; simp [Ast.tArgsDef], h5⟩
  have hAt : Acc E0 LexQ (dAt n)
      (fun _ x => ∃ nm args rep x2, x = .p .at :: .name nm :: Ast.tArgsDef args ++ kwPart "repeatable" rep ++ .name Ast.sOn :: x2 ∧ LocsR x2) := by
    unfold dAt
    apply acc_peek
    intro k
    apply acc_ite
    · intro hk
      have hb : Acc E0 (fun q => LexQ q ∧ q.head?.map (·.kind) = k) (bump "AT") (fun _ x => x = [.p .at]) :=
        (acc_bumpKind .at "AT" (.p .at) (by intro t ht; simp [astOfV, ht]) rfl (by decide)).mono
          (fun q hq => kindP_of_head hq.2 hk) (fun _ _ h => h)
      refine (accL_bind early_false (fun _ h => h.1) hb (fun _ => hName)).mono (fun _ h => h) ?_
      rintro _ x ⟨_, x1, x2, e, h1, nm, args, rep, x3, e3, h3⟩
      exact ⟨nm, args, rep, x3, by rw [e, h1, e3]; rfl, h3⟩
    · intro _; exact acc_err' (dName n) hName.1
  exact hAt

theorem accL_directiveDefinition (n : Nat) :
    Acc E0 LexQ (directiveDefinition n)
      (fun _ x => ∃ desc seen nm args rep lead first rest, x = directiveToks desc seen nm args rep lead first rest
        ∧ IsDirLoc first ∧ ∀ r ∈ rest, IsDirLoc r) := by
  rw [directiveDefinition_eq]
  refine accL_withNodeAny early_false _ ?_
  refine (accL_optDesc early_false _ _ (accL_optKw early_false "directive" kwWord_directive _ _ _ (accL_dAt n))).mono (fun _ h => h) ?_
  rintro _ x ⟨desc, x2, e, seen, x3, e3, nm, args, rep, x4, e4, lead, first, rest, h4, hf, hr⟩
  exact ⟨desc, seen, nm, args, rep, lead, first, rest, by rw [e, e3, e4, h4]; simp [directiveToks], hf, hr⟩

/-! ### schema definition -/

/-- a root operation type as the grammar accepts it: the named type may be missing (KNOWN FINDING) -/
def tRootOpF (r : Ast.OpType × Option Str) : List Ast.Tok :=
  .name r.1.name.toList :: .p .colon :: (match r.2 with | some nm => [.name nm] | none => [])

def tRootOpItemsF (rs : List (Ast.OpType × Option Str)) : List Ast.Tok := (rs.map tRootOpF).flatten

theorem tRootOpItemsF_full (rs : List (Ast.OpType × Str)) :
    tRootOpItemsF (rs.map fun r => (r.1, some r.2)) = Ast.tRootOpItems rs := by
  induction rs with
  | nil => rfl
  | cons r rs ih =>
    simp only [tRootOpItemsF, List.map_cons, List.flatten_cons] at ih ⊢
    rw [ih]; simp [tRootOpF, Ast.tRootOp, Ast.tRootOpItems]

/-- `{ RootOperationTypeDefinition+ }` followed by `K`: the loop with its `has` flag -/
def rootsBlock {α : Type} (K : PI α) : PI α :=
  bump "L_CURLY" >>= fun _ => srcLen >>= fun len =>
    peekWhileKindFlagLoop .name rootOperationTypeDefinition (len + 3) false >>= fun has =>
      if !has then (err >>= fun _ => K) else K

theorem acc_rootsBlock {α : Type} (K : PI α) (R : α → List Ast.Tok → Prop) (hK : Acc E0 (fun _ => True) K R) :
    Acc E0 (KindP (· == .lCurly)) (rootsBlock K)
      (fun a x => ∃ roots x2, roots ≠ [] ∧ x = .p .lCurly :: tRootOpItemsF roots ++ x2 ∧ R a x2) := by
  unfold rootsBlock
  have hloop : ∀ len, Acc E0 (fun _ => True)
      (peekWhileKindFlagLoop .name rootOperationTypeDefinition (len + 3) false >>= fun has => if !has then (err >>= fun _ => K) else K)
      (fun a x => ∃ roots x2, roots ≠ [] ∧ x = tRootOpItemsF roots ++ x2 ∧ R a x2) := by
    intro len
    have hl := acc_flagLoop (H := fun _ => True) early_false .name rootOperationTypeDefinition
      (fun i => ∃ r, i = tRootOpF r)
      ((acc_rootOperationTypeDefinition early_false).mono (fun _ h => h) (by
        rintro _ x ⟨op, h⟩
        rcases h with ⟨nm, h⟩ | h
        · exact ⟨(op, some nm), by rw [h]; rfl⟩
        · exact ⟨(op, none), by rw [h]; rfl⟩)) (len + 3) false
    refine ⟨good_bind _ _ hl.1 (fun has => good_ite _ _ _ (good_bind _ _ good_err (fun _ => hK.1)) hK.1), ?_⟩
    intro s a s' w he hq hr hnd
    have hK' : ∀ has : Bool, Acc E0 (fun _ => True) (if !has then (err >>= fun _ => K) else K) (fun a x => has = true ∧ R a x) := by
      intro has
      cases has with
      | true =>
        have : Acc E0 (fun _ => True) K (fun a x => true = true ∧ R a x) := hK.mono (fun _ h => h) (fun _ _ h => ⟨rfl, h⟩)
        simpa using this
      | false => simpa using (acc_err' (E := E0) (H := fun _ => True) K hK.1)
    obtain ⟨cs, a1, a2, a3, a4⟩ := (acc_bind early_false hl hK').2 s a s' w he hq hr hnd
    refine ⟨cs, a1, a2, a3, ?_⟩
    rcases a4 with ⟨x, hx, has, x1, x2, e, ⟨items, hi, hall, hhas⟩, hh, hR⟩ | h4
    · refine Or.inl ⟨x, hx, ?_⟩
      obtain ⟨roots, hro, hlen⟩ := flatten_items _ tRootOpF tRootOpItemsF rfl (fun v r => by simp [tRootOpItemsF])
        (fun _ h => h) items hall
      refine ⟨roots, x2, ?_, by rw [e, hi, hro], hR⟩
      intro h0
      rw [h0] at hlen
      have : items = [] := List.eq_nil_of_length_eq_zero hlen.symm
      rw [this, hh] at hhas
      simp at hhas
    · exact absurd h4 id
  refine (acc_bind early_false (acc_bumpKind .lCurly "L_CURLY" (.p .lCurly) (by intro t ht; simp [astOfV, ht]) rfl (by decide))
    (fun _ => acc_srcLen hloop)).mono (fun _ h => h) ?_
  rintro a x ⟨_, x1, x2, e, h1, roots, x3, hne, e3, h3⟩
  exact ⟨roots, x3, hne, by rw [e, h1, e3]; rfl, h3⟩

def sBraces : PI Unit :=
  peek >>= fun k => if k == some .lCurly then rootsBlock (expect .rCurly "R_CURLY") else err

theorem schemaDefinition_eq (n : Nat) : schemaDefinition n = withNode "SCHEMA_DEFINITION"
    (optKind .stringValue description (optKw "schema" "schema_KW" (optKind .at (directives n true) sBraces))) := rfl

def schemaToks (desc : Option Str) (seen : Bool) (ds : List Ast.Directive) (roots : List (Ast.OpType × Option Str)) : List Ast.Tok :=
  Ast.tDescription desc ++ kwPart "schema" seen ++ Ast.tDirectives ds ++ .p .lCurly :: tRootOpItemsF roots ++ [.p .rCurly]

/-- what follows the `schema` keyword -/
def SchemaTailR (x : List Ast.Tok) : Prop :=
  ∃ ds roots, roots ≠ [] ∧ x = Ast.tDirectives ds ++ .p .lCurly :: tRootOpItemsF roots ++ [.p .rCurly]

theorem accL_schemaTail (n : Nat) : Acc E0 LexQ (optKind .at (directives n true) sBraces) (fun _ => SchemaTailR) := by
  have hB : Acc E0 LexQ sBraces (fun _ x => ∃ roots, roots ≠ [] ∧ x = .p .lCurly :: tRootOpItemsF roots ++ [.p .rCurly]) := by
    unfold sBraces
    refine acc_ifKind .lCurly _ _ _ ?_ acc_err
    refine (acc_rootsBlock _ _ (acc_expect .rCurly "R_CURLY" (.p .rCurly) (by intro t ht; simp [astOfV, ht]) rfl (by decide))).mono
      (fun _ h => h) ?_
    rintro _ x ⟨roots, x2, hne, e, h2⟩
    exact ⟨roots, hne, by rw [e, h2]⟩
  refine (accL_optDirs early_false n _ _ hB).mono (fun _ h => h) ?_
  rintro _ x ⟨ds, x4, e4, roots, hne, h4⟩
  exact ⟨ds, roots, hne, by rw [e4, h4]; simp⟩

theorem accL_schemaDefinition (n : Nat) :
    Acc E0 LexQ (schemaDefinition n) (fun _ x => ∃ desc seen ds roots, roots ≠ [] ∧ x = schemaToks desc seen ds roots) := by
  rw [schemaDefinition_eq]
  refine accL_withNodeAny early_false _ ?_
  refine (accL_optDesc early_false _ _ (accL_optKw early_false "schema" kwWord_schema _ _ _ (accL_schemaTail n))).mono (fun _ h => h) ?_
  rintro _ x ⟨desc, x2, e, seen, x3, e3, ds, roots, hne, h4⟩
  exact ⟨desc, seen, ds, roots, hne, by rw [e, e3, h4]; simp [schemaToks]⟩

end Apollo.Parse
