import ApolloModel.Proofs.ParserExactS11
import ApolloModel.Proofs.ParserExactC15
import ApolloModel.Proofs.ParserDoc4
import ApolloModel.Proofs.ParserDef19
/-
EXACT SOUNDNESS, part 12 (namespace Apollo.Parse.Exact): executable-only documents.  ParserDoc1-3 (dispatch, loop,
`document()`, `Parser::parse`) repeated for queues WITHOUT a String token and without one of the nine type-system
keywords (`ExecQ`), with the recursion budget: an error-free parse means the significant tokens are one or more
executable definitions within the exact budget (`Exact.IsExecDocFit rl`), the language of
`Exact.parseDocument_complete_sig` — hence an "if and only if" for such sources.
-/
set_option linter.unusedSimpArgs false
namespace Apollo.Parse.Exact
open Apollo.Rowan hiding Str
open Apollo.Lex hiding Str

/-- the text is none of the nine keywords that select a type-system definition or extension -/
def NotTsWord (d : Str) : Prop :=
  d ≠ "directive".toList ∧ d ≠ "enum".toList ∧ d ≠ "extend".toList ∧ d ≠ "input".toList ∧ d ≠ "interface".toList ∧
  d ≠ "type".toList ∧ d ≠ "scalar".toList ∧ d ≠ "schema".toList ∧ d ≠ "union".toList

/-- a queue for an executable-only document: no String token (description) and no type-system keyword -/
def ExecQ (q : List Tok) : Prop := ∀ t ∈ q, t.kind ≠ .stringValue ∧ NotTsWord t.data

theorem ExecQ.suffix {cs q : List Tok} (h : ExecQ (cs ++ q)) : ExecQ q := fun t ht => h t (List.mem_append_right _ ht)

def LExecDefs (B : Nat) (x : List Ast.Tok) : Prop := ∃ items : List (List Ast.Tok), x = items.flatten ∧ ∀ i ∈ items, LExecDef B i

theorem kw_false {w : String} {d : Str} (h : d ≠ w.toList) : kw w d = false := by
  unfold kw; exact beq_false_of_ne h

/-- **the dispatcher of `document()` on an executable-only queue**: an error-free run consumes exactly one executable
    definition within the budget -/
theorem execDispatch_sound (n : Nat) (s s' : PState) (t : Tok) (rest : List Tok)
    (w : TW s) (he : EofEnd s) (hs : LexQ (Toks s)) (hg : ExecQ (Toks s)) (hc : s.current = some t) (ht : Toks s = t :: rest)
    (h : (documentDispatch n t.kind).run s = .ok () s') (hnd : ¬ Doomed s') : Cons s s' (LExecDef (bud s)) := by
  obtain ⟨hks, g1, g2, g3, g4, g5, g6, g7, g8, g9⟩ := hg t (by rw [ht]; exact List.mem_cons_self ..)
  unfold documentDispatch at h
  have hk : (t.kind == Kind.stringValue) = false := beq_false_of_ne hks
  simp only [hk, Bool.false_eq_true, if_false] at h
  by_cases hk2 : (t.kind == .name || t.kind == .lCurly) = true
  · simp only [hk2, if_true] at h
    obtain ⟨d, s1, e1, e2⟩ := bind_dec peekData _ s s' () h
    obtain ⟨rfl, hdat⟩ := peekData_cur s s1 d t hc e1
    subst hdat
    simp only [] at e2
    unfold selectDefinition at e2
    simp only [kw_false g1, kw_false g2, kw_false g3, kw_false g4, kw_false g5, kw_false g6, kw_false g7, kw_false g8,
      kw_false g9, Bool.false_eq_true, if_false] at e2
    by_cases hf : kw "fragment" t.data = true
    · simp only [hf, if_true] at e2
      have hd : t.data = "fragment".toList := kw_iff.mp hf
      have hkn : t.kind = .name := hs.headKw (by rw [ht]; rfl) "fragment" 'f' "ragment".toList rfl rfl hd
      exact (fragmentDefinition_sound n s1 s' t rest w he ht hkn hd e2 hnd).weaken (fun x hx => Or.inr hx)
    · simp only [hf, Bool.false_eq_true, if_false] at e2
      by_cases ho : (kw "query" t.data || kw "mutation" t.data || kw "subscription" t.data || kw "{" t.data) = true
      · simp only [ho, if_true] at e2
        exact (operationDefinition_sound n s1 s' w he e2 hnd).weaken (fun x hx => Or.inl hx)
      · simp only [ho, Bool.false_eq_true, if_false] at e2
        exact absurd (errAndPop_never s1 s' w he e2) hnd
  · simp only [hk2, Bool.false_eq_true, if_false] at h
    exact absurd (errAndPop_never s s' w he h) hnd

/-- **the loop of `document()`**: an error-free run consumes a sequence of definitions of the grammar and stops
    in front of the EOF token, nowhere else -/
theorem docLoop_sound (n B : Nat) : ∀ (fuel : Nat) (s s' : PState), TW s → EofEnd s → LexQ (Toks s) → ExecQ (Toks s) → bud s = B →
    (peekWhileLoop (documentStep n) fuel).run s = .ok () s' → ¬ Doomed s' →
    ∃ cs x, Toks s = cs ++ Toks s' ∧ NoEof cs ∧ EofEnd s' ∧ TokIs (sig cs) x ∧ LExecDefs B x ∧ AtEof s' := by
  intro fuel
  induction fuel with
  | zero => intro s s' _ _ _ _ _ h; simp [peekWhileLoop, PI.outOfFuel] at h
  | succ fuel ih =>
    intro s s' w he hs hg hB h hnd
    unfold peekWhileLoop at h
    obtain ⟨ko, sP, hp, h2⟩ := bind_dec peek _ s s' () h
    obtain ⟨o, p', hko⟩ := peek_obs s sP ko w hp
    subst hko
    have heP : EofEnd sP := eofEnd_eat he p'.eat (by intro x hx; cases hx)
    cases o with
    | none =>
      simp only [Option.map_none] at h2
      rw [run_pure] at h2
      injection h2 with _ h2
      subst h2
      exfalso
      have hndP : ¬ Doomed sP := hnd
      have hne := eofEnd_nonempty sP heP hndP
      have hh := p'.head
      rw [← p'.toks] at hh
      cases hq : Toks sP with
      | nil => exact hne hq
      | cons a b => rw [hq] at hh; cases hh
    | some t =>
      simp only [Option.map_some] at h2
      have h3 := getCurrent_dec _ sP s' () h2
      obtain ⟨b, sB, hb, h4⟩ := bind_dec (documentStep n t.kind) _ sP s' () h3
      have htP : Toks sP = t :: (Toks sP).tail := p'.head_cons
      unfold documentStep at hb
      by_cases hk : (t.kind == .eof) = true
      · -- the EOF token: the loop stops
        simp only [hk, if_true] at hb
        obtain ⟨_, s0, e0, e1⟩ := bind_dec assertRecZero _ sP sB b hb
        rw [assertRecZero_run] at e0
        injection e0 with _ e0
        subst e0
        rw [run_pure] at e1
        injection e1 with e1 e2
        subst e1 e2
        simp only [Bool.false_eq_true, if_false] at h4
        rw [run_pure] at h4
        injection h4 with _ h4
        subst h4
        refine ⟨[], [], by rw [toks_flagged, p'.toks]; rfl, (by intro x hx; cases hx), eofEnd_flagged heP, TokIs.nil,
          ⟨[], rfl, by intro i hi; cases hi⟩, ?_⟩
        exact ⟨t, by rw [toks_flagged, htP]; rfl, by simpa using hk⟩
      · simp only [hk, Bool.false_eq_true, if_false] at hb
        obtain ⟨_, s0, e0, eD⟩ := bind_dec assertRecZero _ sP sB b hb
        rw [assertRecZero_run] at e0
        injection e0 with _ e0
        subst e0
        obtain ⟨_, sD, eD2, e1⟩ := bind_dec (documentDispatch n t.kind) _ (flagged sP) sB b eD
        rw [run_pure] at e1
        injection e1 with e1 e2
        subst e1 e2
        simp only [if_true] at h4
        have h5 := getCurrent_dec _ sD s' () h4
        have aD := good_documentDispatch (defLemmas n) t.kind (flagged sP) () sD (tw_flagged p'.w) eD2
        by_cases hsame : (sP.current == sD.current) = true
        · simp only [hsame, if_true] at h5
          exact absurd h5 (stuck_not_ok _ _ _)
        · simp only [hsame, Bool.false_eq_true, if_false] at h5
          have hndD : ¬ Doomed sD := fun d => hnd ((good_peekWhileLoop _ (good_documentStep (defLemmas n)) fuel sD () s' aD.w h5).doom d)
          have hsP : LexQ (Toks sP) := by rw [p'.toks]; exact hs
          have hgP : ExecQ (Toks sP) := by rw [p'.toks]; exact hg
          have hBf : bud (flagged sP) = B := by rw [show bud (flagged sP) = bud sP from rfl, bud_peek p', hB]
          obtain ⟨c1, x1', t1, n1, e1', hx1', hd1'⟩ := execDispatch_sound n (flagged sP) sD t (Toks sP).tail (tw_flagged p'.w)
            (eofEnd_flagged heP) (by rw [toks_flagged]; exact hsP) (by rw [toks_flagged]; exact hgP) p'.current
            (by rw [toks_flagged]; exact htP) eD2 hndD
          have r1 : (∃ x1, TokIs (sig c1) x1 ∧ LExecDef B x1) ∨ False := Or.inl ⟨x1', hx1', by rw [hBf] at hd1'; exact hd1'⟩
          rw [toks_flagged] at t1
          have hsD : LexQ (Toks sD) := by rw [t1] at hsP; exact hsP.suffix
          have hgD : ExecQ (Toks sD) := by rw [t1] at hgP; exact hgP.suffix
          have hBD : bud sD = B := by rw [bud_adv aD, hBf]
          obtain ⟨c2, x2, t2, n2, e2', hx2, ⟨items, hxi, hall⟩, hat⟩ := ih sD s' aD.w e1' hsD hgD hBD h5 hnd
          rcases r1 with ⟨x1, hx1, hd1⟩ | ev
          · refine ⟨c1 ++ c2, x1 ++ x2, by rw [← p'.toks, t1, t2, List.append_assoc], noEof_append n1 n2, e2', ?_,
              ⟨x1 :: items, by simp [hxi], ?_⟩, hat⟩
            · rw [sig_append]; exact hx1.append hx2
            · intro i hi'
              rcases List.mem_cons.mp hi' with rfl | hi'
              · exact hd1
              · exact hall i hi'
          · exact absurd ev id

theorem documentBody_sound (n B : Nat) (s s' : PState) (w : TW s) (he : EofEnd s) (hs : LexQ (Toks s)) (hg : ExecQ (Toks s)) (hB : bud s = B)
    (hset : Settled s) (h : (documentBody n).run s = .ok () s') (hnd : ¬ Doomed s') :
    ∃ cs x e, Toks s = cs ++ [e] ∧ e.kind = .eof ∧ NoEof cs ∧ TokIs (sig cs) x ∧ IsExecDocFit B x := by
  unfold documentBody at h
  obtain ⟨ko, sP, hp, h2⟩ := bind_dec peek _ s s' () h
  obtain ⟨o, p, hko⟩ := peek_obs s sP ko w hp
  subst hko
  have heP : EofEnd sP := p.eofEnd he
  obtain ⟨_, sE, hE, h3⟩ := bind_dec (errIfEmpty _) _ sP s' () h2
  obtain ⟨_, sL, hL, h4⟩ := bind_dec (peekWhile (documentStep n)) _ sE s' () h3
  have o4 := pushIgnored_obs sL s' h4
  have hndL : ¬ Doomed sL := fun d => hnd (o4.doomed.mpr d)
  -- `errIfEmpty`: an error unless a token other than EOF is there
  unfold errIfEmpty at hE
  by_cases hemp : (o.map (·.kind) == none || o.map (·.kind) == some .eof) = true
  · exfalso
    simp only [hemp, if_true] at hE
    have gE := good_err sP () sE p.w hE
    have gL := good_peekWhile _ (good_documentStep (defLemmas n)) sE () sL gE.w hL
    obtain ⟨_, d⟩ := err_adv sP sE p.w hE
    have hndP : ¬ Doomed sP := fun dd => hndL (gL.doom (gE.doom dd))
    exact hndL (gL.doom (d (eofEnd_nonempty sP heP hndP)))
  · simp only [hemp, Bool.false_eq_true, if_false] at hE
    rw [run_pure] at hE
    injection hE with _ hE
    subst hE
    obtain ⟨fuel, h5⟩ := srcLen_dec _ sP sL () hL
    have hsP : LexQ (Toks sP) := by rw [p.toks]; exact hs
    have hgP : ExecQ (Toks sP) := by rw [p.toks]; exact hg
    have hBP : bud sP = B := by rw [bud_peek p, hB]
    obtain ⟨cs, x, t1, n1, e1, hx, hdefs, hat⟩ := docLoop_sound n B _ sP sL p.w heP hsP hgP hBP h5 hndL
    obtain ⟨e, hte, hke⟩ := atEof_single sL e1 hndL hat
    -- the first token is significant and not EOF, so something was consumed
    obtain ⟨t, ht⟩ : ∃ t, o = some t := by
      cases o with
      | none => simp at hemp
      | some t => exact ⟨t, rfl⟩
    subst ht
    have hkt : t.kind ≠ .eof := by
      intro hk; simp [hk] at hemp
    have hni : isIgnoredKind t.kind = false := by
      have hcur : s.current = some t := by
        have h1 := hset.1
        have h2 := p.head
        rw [h1, ← h2]
      exact hset.2 t hcur
    have htP : Toks sP = t :: (Toks sP).tail := p.head_cons
    have hcs : ∃ cs', cs = t :: cs' := by
      cases cs with
      | nil =>
        exfalso
        rw [hte] at t1
        simp only [List.nil_append] at t1
        rw [t1] at htP
        injection htP with h1 _
        exact hkt (by rw [← h1]; exact hke)
      | cons a cs' =>
        rw [htP] at t1
        injection t1 with h1 _
        exact ⟨cs', by rw [h1]⟩
    obtain ⟨cs', rfl⟩ := hcs
    have hxne : x ≠ [] := by
      intro hx0
      subst hx0
      have : sig (t :: cs') = t :: sig cs' := by simp [sig, hni]
      rw [this] at hx
      simp [TokIs] at hx
    obtain ⟨items, hxi, hall⟩ := hdefs
    refine ⟨t :: cs', x, e, by rw [← p.toks, t1, hte], hke, n1, hx, items, ?_, hxi, hall⟩
    intro hi0
    subst hi0
    exact hxne (by simpa using hxi)


/-- `document()`: the node, the ignored tokens in front, the body -/
theorem document_sound_run (n B : Nat) (s s' : PState) (w : TW s) (he : EofEnd s) (hs : LexQ (Toks s)) (hg : ExecQ (Toks s)) (hB : bud s = B)
    (h : (document n).run s = .ok () s') (hnd : ¬ Doomed s') :
    ∃ ts x e, sig (Toks s) = ts ++ [e] ∧ e.kind = .eof ∧ TokIs ts x ∧ IsExecDocFit B x := by
  unfold document at h
  obtain ⟨s0, s2, o0, hr0, o2⟩ := withNode_dec "DOCUMENT" (documentBody n) s s' () h
  obtain ⟨_, s1, hsk, hb⟩ := bind_dec skipIgnored _ s0 s2 () hr0
  obtain ⟨ign, e01', hall, hset⟩ := skipIgnored_spec s0 s1 (o0.w w) hsk
  have e01 : Eat s s1 ign := by simpa using (Eat.ofObsEq o0 w).trans e01'
  have he1 : EofEnd s1 := eofEnd_eat he e01 (noEof_ignored ign hall)
  have hnd2 : ¬ Doomed s2 := fun d => hnd (o2.doomed.mpr d)
  have hs1 : LexQ (Toks s1) := by rw [e01.toks] at hs; exact hs.suffix
  have hg1 : ExecQ (Toks s1) := by rw [e01.toks] at hg; exact hg.suffix
  have hB1 : bud s1 = B := by rw [bud_eat e01, hB]
  obtain ⟨cs, x, e, t1, hke, _, hx, hdoc⟩ := documentBody_sound n B s1 s2 e01.w he1 hs1 hg1 hB1 hset hb hnd2
  refine ⟨sig cs, x, e, ?_, hke, hx, hdoc⟩
  rw [e01.toks, t1, sig_append, sig_append, sig_ignored ign hall]
  have : sig [e] = [e] := by simp [sig, isIgnoredKind, hke]
  rw [this]; rfl


theorem execDocument_accept_sound (rl : Nat) (src : Str) (root : Elem) (hg : ExecQ (srcToks src))
    (h : (parse .document none rl src).outcome = .tree root) (herr : (parse .document none rl src).errors = []) :
    LexClean src ∧ ∃ ts x e, sig (srcToks src) = ts ++ [e] ∧ e.kind = .eof ∧ TokIs ts x ∧ IsExecDocFit rl x := by
  unfold parse runEntry at h herr
  simp only [Entry.standalone, Entry.grammar] at h herr
  have hinv := init_inv src none rl
  have w0 : TW (initState src none rl) := ⟨rfl, by intro h; simp [initState] at h⟩
  have htoks : Toks (initState src none rl) = srcToks src := rfl
  have hdoom : Doomed (initState src none rl) ↔ ¬ LexClean src := by
    unfold Doomed LexClean
    show ([] ≠ [] ∨ hasErr (stream (initState src none rl).lx) = true) ↔ _
    have : (initState src none rl).lx = (initState src none 0).lx := rfl
    rw [this]
    constructor
    · rintro (h | h)
      · exact absurd rfl h
      · simp [h]
    · intro h; right; simpa using h
  have he0 : EofEnd (initState src none rl) := by
    right
    obtain ⟨pre, e, hp, he, hno⟩ := stream_eof_end src.length (initState src none 0).lx (Nat.le_refl _) rfl rfl
    exact ⟨pre, e, by rw [htoks]; exact hp, he, hno⟩
  cases hr : (document (fuelFor src)).run (initState src none rl) with
  | abort w => simp [hr] at h
  | panic m => simp [hr] at h
  | ok a s =>
    simp only [hr] at h herr
    have gd := good_withNode "DOCUMENT" _ (good_documentBody (defLemmas (fuelFor src))) _ a s w0 (by unfold document at hr; exact hr)
    -- the final state: no error recorded, and the lexer is exhausted
    obtain ⟨hfin, hlim⟩ := PI.run_ok (document (fuelFor src)) _ hinv a s hr
    obtain ⟨cs, s2, _, _, hrun, _, _, hlx, _, _, _⟩ :=
      withNode_result "DOCUMENT" (documentBody (fuelFor src)) _ hinv a s hr
    have hi0 : Inv (rawStartNode "DOCUMENT" { initState src none rl with builder := { (initState src none rl).builder with children := (initState src none rl).builder.children ++ (initState src none rl).pending.map pendingElem }, pending := [] }) :=
      ⟨fun _ => by simp [initState, Builder.new, rawStartNode, Builder.startNode, textList, pendingText, curText],
       fun p hp => by simp [initState, Builder.new, rawStartNode, Builder.startNode] at hp; simp [hp, initState, Builder.new, rawStartNode, Builder.startNode],
       fun hfin => by simp [initState, rawStartNode] at hfin, fun t ht => by simp [initState, rawStartNode] at ht,
       fun ha => by simp [initState, rawStartNode] at ha⟩
    obtain ⟨u, s1, hsk, hbody⟩ := bind_dec skipIgnored _ _ s2 a hrun
    obtain ⟨hi1, hl1⟩ := PI.run_ok skipIgnored _ hi0 u s1 hsk
    have hl1' : s1.lx.limit = none := by rw [hl1]; rfl
    obtain ⟨_, hex2, _⟩ := documentBody_final (fuelFor src) s1 s2 hi1 hl1' hbody
    have hsrc : s.lx.src = [] := by rw [hlx]; exact hex2.2
    have hnd : ¬ Doomed s := by
      rintro (d | d)
      · exact d herr
      · rw [hasErr_src_nil s.lx gd.w.limit hsrc] at d; cases d
    have hnd0 : ¬ Doomed (initState src none rl) := fun d => hnd (gd.doom d)
    refine ⟨Classical.byContradiction (fun hc => hnd0 (hdoom.mpr hc)), ?_⟩
    have := document_sound_run (fuelFor src) rl _ s w0 he0 (by rw [htoks]; exact lexQ_srcToks src) (by rw [htoks]; exact hg) (by simp [bud, initState]) hr hnd
    rw [htoks] at this
    exact this

end Apollo.Parse.Exact
