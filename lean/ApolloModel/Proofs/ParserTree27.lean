import ApolloModel.Proofs.ParserTree26
import ApolloModel.Proofs.ParserDoc4
/-
C08 growth (pipeline), part 27 (stage iv): `grammar/document.rs` in the tree calculus, generically over the
per-definition facts `DefTrs n Q` (what an error-free run of each definition parser, started where the dispatcher
starts it, consumes and builds: `Q tokens elements`).  Everything here is proved from `DefTrs`; instances: the
executable definitions (ParserTree28), the type system (builderA's ParserTreeDef*).
-/
set_option linter.unusedSimpArgs false
set_option linter.unusedVariables false
namespace Apollo.Parse
open Apollo.Rowan hiding Str
open Apollo.Lex hiding Str

abbrev DefTr (Q : List Tok → List Elem → Prop) (H : List Tok → Prop) (m : PI Unit) : Prop := Tr NoE H m (fun _ => Q)

/-- the per-definition statements of the tree calculus the document theorem is parametrised by (same entry
    conditions as `DefLemmas`) -/
structure DefTrs (n : Nat) (Q : List Tok → List Elem → Prop) : Prop where
  directive : DefTr Q (fun q => LexQ q ∧ DStart "directive".toList q) (directiveDefinition n)
  enumDef : DefTr Q (fun q => LexQ q ∧ DStart "enum".toList q) (enumTypeDefinition n)
  fragment : DefTr Q (fun q => LexQ q ∧ DStart "fragment".toList q) (fragmentDefinition n)
  input : DefTr Q (fun q => LexQ q ∧ DStart "input".toList q) (inputObjectTypeDefinition n)
  interface : DefTr Q (fun q => LexQ q ∧ DStart "interface".toList q) (interfaceTypeDefinition n)
  object : DefTr Q (fun q => LexQ q ∧ DStart "type".toList q) (objectTypeDefinition n)
  opQuery : DefTr Q (fun q => LexQ q ∧ DStart "query".toList q) (operationDefinition n)
  opMutation : DefTr Q (fun q => LexQ q ∧ DStart "mutation".toList q) (operationDefinition n)
  opSubscription : DefTr Q (fun q => LexQ q ∧ DStart "subscription".toList q) (operationDefinition n)
  opShorthand : DefTr Q (fun q => LexQ q ∧ DStart "{".toList q) (operationDefinition n)
  scalar : DefTr Q (fun q => LexQ q ∧ DStart "scalar".toList q) (scalarTypeDefinition n)
  schema : DefTr Q (fun q => LexQ q ∧ DStart "schema".toList q) (schemaDefinition n)
  union : DefTr Q (fun q => LexQ q ∧ DStart "union".toList q) (unionTypeDefinition n)
  schemaExt : DefTr Q (fun q => LexQ q ∧ EStart "schema".toList q) (schemaExtension n)
  scalarExt : DefTr Q (fun q => LexQ q ∧ EStart "scalar".toList q) (scalarTypeExtension n)
  objectExt : DefTr Q (fun q => LexQ q ∧ EStart "type".toList q) (objectTypeExtension n)
  interfaceExt : DefTr Q (fun q => LexQ q ∧ EStart "interface".toList q) (interfaceTypeExtension n)
  unionExt : DefTr Q (fun q => LexQ q ∧ EStart "union".toList q) (unionTypeExtension n)
  enumExt : DefTr Q (fun q => LexQ q ∧ EStart "enum".toList q) (enumTypeExtension n)
  inputExt : DefTr Q (fun q => LexQ q ∧ EStart "input".toList q) (inputObjectTypeExtension n)

/-- `extensions()` reached on the Name `extend` -/
theorem extensions_tr {n : Nat} {Q : List Tok → List Elem → Prop} (L : DefTrs n Q) (s s' : PState) (t : Tok) (rest : List Tok) (st : St s) (hc : s.current = some t) (ht : Toks s = t :: rest) (hk : t.kind = .name) (hd : t.data = "extend".toList)
    (h : (extensions n).run s = .ok () s') (hnd : ¬ Doomed s') : TrRes NoE s s' Q := by
  unfold extensions at h
  obtain ⟨d, s1, h1, h2⟩ := bind_dec (peekDataN 2) _ s s' () h
  obtain ⟨rfl, hdat⟩ := peekDataN2_spec s s1 d t rest st.w hc ht (by rw [hk]; rfl) h1
  have start : ∀ wd : String, kwOpt wd d = true → LexQ (Toks s1) ∧ EStart wd.toList (Toks s1) := by
    intro wd hw
    have := kwOpt_eq hw
    rw [hdat] at this
    cases hq : (sig rest).head? with
    | none => rw [hq] at this; cases this
    | some t2 =>
      rw [hq] at this
      exact ⟨st.lq.1, t, rest, t2, ht, hk, hd, hq, by simpa using this⟩
  repeat' split at h2
  all_goals first
    | exact L.schemaExt.2 s1 () s' st.w st.inv st.eof st.lq (start _ (by assumption)) h2 hnd
    | exact L.scalarExt.2 s1 () s' st.w st.inv st.eof st.lq (start _ (by assumption)) h2 hnd
    | exact L.objectExt.2 s1 () s' st.w st.inv st.eof st.lq (start _ (by assumption)) h2 hnd
    | exact L.interfaceExt.2 s1 () s' st.w st.inv st.eof st.lq (start _ (by assumption)) h2 hnd
    | exact L.unionExt.2 s1 () s' st.w st.inv st.eof st.lq (start _ (by assumption)) h2 hnd
    | exact L.enumExt.2 s1 () s' st.w st.inv st.eof st.lq (start _ (by assumption)) h2 hnd
    | exact L.inputExt.2 s1 () s' st.w st.inv st.eof st.lq (start _ (by assumption)) h2 hnd
    | exact (tr_errAndPop (E := NoE) (H := fun _ => True) (R := fun _ => Q)).2 s1 () s' st.w st.inv st.eof st.lq trivial h2 hnd

/-- `select_definition(d)` with `d` the keyword the dispatcher looked at -/
theorem selectDefinition_tr {n : Nat} {Q : List Tok → List Elem → Prop} (L : DefTrs n Q) (d : Str) (s s' : PState) (t : Tok) (rest : List Tok)
    (st : St s) (hc : s.current = some t) (ht : Toks s = t :: rest)
    (hstart : ((t.kind = .name ∨ t.kind = .lCurly) ∧ t.data = d) ∨
      (t.kind = .stringValue ∧ ∃ t2, (sig rest).head? = some t2 ∧ t2.data = d))
    (h : (selectDefinition n d).run s = .ok () s') (hnd : ¬ Doomed s') : TrRes NoE s s' Q := by
  have start : ∀ wd : String, kw wd d = true → LexQ (Toks s) ∧ DStart wd.toList (Toks s) := by
    intro wd hw
    have := kw_eq hw
    subst this
    exact ⟨st.lq.1, t, rest, ht, hstart⟩
  have errc : errAndPop.run s = .ok () s' → TrRes NoE s s' Q := fun h' =>
    (tr_errAndPop (E := NoE) (H := fun _ => True) (R := fun _ => Q)).2 s () s' st.w st.inv st.eof st.lq trivial h' hnd
  unfold selectDefinition at h
  by_cases h1 : kw "directive" d = true
  · simp only [h1, if_true] at h; exact L.directive.2 s () s' st.w st.inv st.eof st.lq (start _ h1) h hnd
  simp only [h1, Bool.false_eq_true, if_false] at h
  by_cases h2 : kw "enum" d = true
  · simp only [h2, if_true] at h; exact L.enumDef.2 s () s' st.w st.inv st.eof st.lq (start _ h2) h hnd
  simp only [h2, Bool.false_eq_true, if_false] at h
  by_cases h3 : kw "extend" d = true
  · simp only [h3, if_true] at h
    have hd := kw_eq h3
    rcases hstart with ⟨hk, hdat⟩ | ⟨hk, t2, hq, hdat⟩
    · rcases hk with hk | hk
      · exact extensions_tr L s s' t rest st hc ht hk (by rw [hdat, hd]) h hnd
      · exfalso
        have := st.lq.1 t (by rw [ht]; exact List.mem_cons_self ..) 'e' "xtend".toList (by rw [hdat, hd]; rfl) (by decide)
        rw [hk] at this
        cases this
    · -- a description followed by `extend`: `extensions` looks at `extend` itself and reports an error
      unfold extensions at h
      obtain ⟨d2, s1, e1, e2⟩ := bind_dec (peekDataN 2) _ s s' () h
      obtain ⟨rfl, hdat2⟩ := peekDataN2_spec s s1 d2 t rest st.w hc ht (by rw [hk]; rfl) e1
      rw [hq] at hdat2
      simp only [Option.map_some] at hdat2
      rw [hdat, hd] at hdat2
      subst hdat2
      have e : ∀ wd : String, wd ≠ "extend" → kwOpt wd (some "extend".toList) = false := by
        intro wd hne
        simp only [kwOpt, beq_eq_false_iff_ne, ne_eq, Option.some.injEq]
        intro h'; exact hne (String.ext_iff.mpr (by simpa using h'.symm))
      simp only [e "schema" (by decide), e "scalar" (by decide), e "type" (by decide), e "interface" (by decide),
        e "union" (by decide), e "enum" (by decide), e "input" (by decide), Bool.false_eq_true, if_false] at e2
      exact errc e2
  simp only [h3, Bool.false_eq_true, if_false] at h
  by_cases h4 : kw "fragment" d = true
  · simp only [h4, if_true] at h; exact L.fragment.2 s () s' st.w st.inv st.eof st.lq (start _ h4) h hnd
  simp only [h4, Bool.false_eq_true, if_false] at h
  by_cases h5 : kw "input" d = true
  · simp only [h5, if_true] at h; exact L.input.2 s () s' st.w st.inv st.eof st.lq (start _ h5) h hnd
  simp only [h5, Bool.false_eq_true, if_false] at h
  by_cases h6 : kw "interface" d = true
  · simp only [h6, if_true] at h; exact L.interface.2 s () s' st.w st.inv st.eof st.lq (start _ h6) h hnd
  simp only [h6, Bool.false_eq_true, if_false] at h
  by_cases h7 : kw "type" d = true
  · simp only [h7, if_true] at h; exact L.object.2 s () s' st.w st.inv st.eof st.lq (start _ h7) h hnd
  simp only [h7, Bool.false_eq_true, if_false] at h
  by_cases h8 : (kw "query" d || kw "mutation" d || kw "subscription" d || kw "{" d) = true
  · simp only [h8, if_true] at h
    simp only [Bool.or_eq_true] at h8
    rcases h8 with ((h8 | h8) | h8) | h8
    · exact L.opQuery.2 s () s' st.w st.inv st.eof st.lq (start _ h8) h hnd
    · exact L.opMutation.2 s () s' st.w st.inv st.eof st.lq (start _ h8) h hnd
    · exact L.opSubscription.2 s () s' st.w st.inv st.eof st.lq (start _ h8) h hnd
    · exact L.opShorthand.2 s () s' st.w st.inv st.eof st.lq (start _ h8) h hnd
  simp only [h8, Bool.false_eq_true, if_false] at h
  by_cases h9 : kw "scalar" d = true
  · simp only [h9, if_true] at h; exact L.scalar.2 s () s' st.w st.inv st.eof st.lq (start _ h9) h hnd
  simp only [h9, Bool.false_eq_true, if_false] at h
  by_cases h10 : kw "schema" d = true
  · simp only [h10, if_true] at h; exact L.schema.2 s () s' st.w st.inv st.eof st.lq (start _ h10) h hnd
  simp only [h10, Bool.false_eq_true, if_false] at h
  by_cases h11 : kw "union" d = true
  · simp only [h11, if_true] at h; exact L.union.2 s () s' st.w st.inv st.eof st.lq (start _ h11) h hnd
  simp only [h11, Bool.false_eq_true, if_false] at h
  exact errc h

/-- **the dispatcher of `document()`**: on a token of a kind other than EOF, an error-free run consumes exactly
    the tokens of one definition of the grammar -/
theorem documentDispatch_tr {n : Nat} {Q : List Tok → List Elem → Prop} (L : DefTrs n Q) (s s' : PState) (t : Tok) (rest : List Tok)
    (st : St s) (hc : s.current = some t) (ht : Toks s = t :: rest)
    (h : (documentDispatch n t.kind).run s = .ok () s') (hnd : ¬ Doomed s') : TrRes NoE s s' Q := by
  have errc : ∀ s1, s1 = s → errAndPop.run s1 = .ok () s' → TrRes NoE s s' Q := fun s1 e h' => by
    subst e
    exact (tr_errAndPop (E := NoE) (H := fun _ => True) (R := fun _ => Q)).2 s1 () s' st.w st.inv st.eof st.lq trivial h' hnd
  unfold documentDispatch at h
  by_cases hk : (t.kind == .stringValue) = true
  · simp only [hk, if_true] at h
    have hk' : t.kind = .stringValue := by simpa using hk
    obtain ⟨d, s1, e1, e2⟩ := bind_dec (peekDataN 2) _ s s' () h
    obtain ⟨rfl, hdat⟩ := peekDataN2_spec s s1 d t rest st.w hc ht (by rw [hk']; rfl) e1
    cases hq : (sig rest).head? with
    | none =>
      rw [hq] at hdat; subst hdat
      exact errc s1 rfl e2
    | some t2 =>
      rw [hq] at hdat; subst hdat
      exact selectDefinition_tr L t2.data s1 s' t rest st hc ht (.inr ⟨hk', t2, hq, rfl⟩) e2 hnd
  · simp only [hk, Bool.false_eq_true, if_false] at h
    by_cases hk2 : (t.kind == .name || t.kind == .lCurly) = true
    · simp only [hk2, if_true] at h
      obtain ⟨d, s1, e1, e2⟩ := bind_dec peekData _ s s' () h
      obtain ⟨rfl, hdat⟩ := peekData_cur s s1 d t hc e1
      subst hdat
      have hk2' : t.kind = .name ∨ t.kind = .lCurly := by simpa using hk2
      exact selectDefinition_tr L t.data s1 s' t rest st hc ht (.inl ⟨hk2', rfl⟩) e2 hnd
    · simp only [hk2, Bool.false_eq_true, if_false] at h
      exact errc s rfl h


/-! ### the loop of `document()` -/

theorem st_flagged {s : PState} (st : St s) : St (flagged s) :=
  ⟨tw_flagged st.w, ⟨st.inv.text, st.inv.parents, st.inv.lexDone, st.inv.eofTok, st.inv.errNonempty⟩, eofEnd_flagged st.eof, st.lq⟩

/-- **the loop of `document()`**: an error-free run consumes a sequence of definitions, appends their elements, and
    stops in front of the EOF token -/
theorem docLoop_tr {n : Nat} {Q : List Tok → List Elem → Prop} (L : DefTrs n Q) : ∀ (fuel : Nat) (s s' : PState), St s →
    (peekWhileLoop (documentStep n) fuel).run s = .ok () s' → ¬ Doomed s' → AtEof s' ∧ TrRes NoE s s' (ItemsT Q) := by
  intro fuel
  induction fuel with
  | zero => intro s s' _ h; simp [peekWhileLoop, PI.outOfFuel] at h
  | succ fuel ih =>
    intro s s' st h hnd
    unfold peekWhileLoop at h
    obtain ⟨ko, sP, hp, h2⟩ := bind_dec peek _ s s' () h
    obtain ⟨o, p', hko⟩ := peek_obs s sP ko st.w hp
    subst hko
    have stP : St sP := ⟨p'.w, (run_inv_added peek s st.inv _ sP hp).1, p'.eofEnd st.eof, by rw [p'.toks]; exact st.lq⟩
    have hbP : sP.builder = s.builder := keeps_peek s _ sP hp
    have heP : EofEnd sP := stP.eof
    cases o with
    | none =>
      simp only [Option.map_none] at h2
      rw [run_pure] at h2
      injection h2 with _ h2
      subst h2
      exfalso
      have hndP : ¬ Doomed sP := hnd
      have hne := eofEnd_nonempty sP heP hndP
      have hh := p'.head
      rw [← p'.toks] at hh
      cases hq : Toks sP with
      | nil => exact hne hq
      | cons a b => rw [hq] at hh; cases hh
    | some t =>
      simp only [Option.map_some] at h2
      have h3 := getCurrent_dec _ sP s' () h2
      obtain ⟨b, sB, hb, h4⟩ := bind_dec (documentStep n t.kind) _ sP s' () h3
      have htP : Toks sP = t :: (Toks sP).tail := p'.head_cons
      unfold documentStep at hb
      by_cases hk : (t.kind == .eof) = true
      · simp only [hk, if_true] at hb
        obtain ⟨_, s0, e0, e1⟩ := bind_dec assertRecZero _ sP sB b hb
        rw [assertRecZero_run] at e0
        injection e0 with _ e0
        subst e0
        rw [run_pure] at e1
        injection e1 with e1 e2
        subst e1 e2
        simp only [Bool.false_eq_true, if_false] at h4
        rw [run_pure] at h4
        injection h4 with _ h4
        subst h4
        refine ⟨⟨t, by rw [toks_flagged, htP]; rfl, by simpa using hk⟩, [], [], by rw [toks_flagged, p'.toks]; rfl,
          (by intro x hx; cases hx), eofEnd_flagged heP, ?_, Or.inl ⟨[], rfl, rfl, by intro i hi; cases hi⟩⟩
        show sP.builder.children = _
        rw [hbP]; simp
      · simp only [hk, Bool.false_eq_true, if_false] at hb
        obtain ⟨_, s0, e0, eD⟩ := bind_dec assertRecZero _ sP sB b hb
        rw [assertRecZero_run] at e0
        injection e0 with _ e0
        subst e0
        obtain ⟨_, sD, eD2, e1⟩ := bind_dec (documentDispatch n t.kind) _ (flagged sP) sB b eD
        rw [run_pure] at e1
        injection e1 with e1 e2
        subst e1 e2
        simp only [if_true] at h4
        have h5 := getCurrent_dec _ sD s' () h4
        have stF := st_flagged stP
        have aD := good_documentDispatch (defLemmas n) t.kind (flagged sP) () sD stF.w eD2
        by_cases hsame : (sP.current == sD.current) = true
        · simp only [hsame, if_true] at h5
          exact absurd h5 (stuck_not_ok _ _ _)
        · simp only [hsame, Bool.false_eq_true, if_false] at h5
          have hndD : ¬ Doomed sD := fun d => hnd ((good_peekWhileLoop _ (good_documentStep (defLemmas n)) fuel sD () s' aD.w h5).doom d)
          obtain ⟨c1, d1, t1, n1, e1', b1, r1⟩ := documentDispatch_tr L (flagged sP) sD t (Toks sP).tail stF p'.current
            (by rw [toks_flagged]; exact htP) eD2 hndD
          rw [toks_flagged] at t1
          have stD : St sD := ⟨aD.w, (run_inv_added (documentDispatch n t.kind) (flagged sP) stF.inv () sD eD2).1, e1',
            LQ.suffix (cs := c1) (by rw [← t1]; exact stP.lq)⟩
          obtain ⟨hat, c2, d2, t2, n2, e2', b2, r2⟩ := ih sD s' stD h5 hnd
          have b1' : sD.builder.children = s.builder.children ++ d1 := by
            rw [b1]; show sP.builder.children ++ d1 = _; rw [hbP]
          rcases r1 with q1 | f
          · rcases r2 with ⟨items, hi1, hi2, hall⟩ | f
            · refine ⟨hat, c1 ++ c2, d1 ++ d2, by rw [← p'.toks, t1, t2, List.append_assoc], noEof_append n1 n2, e2',
                by rw [b2, b1', List.append_assoc], Or.inl ⟨(sig c1, sigE d1) :: items, ?_, ?_, ?_⟩⟩
              · simp [sig_append, hi1]
              · simp [sigE_append, hi2]
              · intro i hi'
                rcases List.mem_cons.mp hi' with rfl | hi'
                · exact q1
                · exact hall i hi'
            · exact absurd f id
          · exact absurd f id

/-! ### `document()` -/

theorem documentBody_tr {n : Nat} {Q : List Tok → List Elem → Prop} (L : DefTrs n Q) (s s' : PState) (st : St s)
    (hset : Settled s) (h : (documentBody n).run s = .ok () s') (hnd : ¬ Doomed s') :
    ∃ cs e added, Toks s = cs ++ [e] ∧ e.kind = .eof ∧ s'.builder.children = s.builder.children ++ added ∧
      ∃ items : List (List Tok × List Elem), items ≠ [] ∧ sig cs = (items.map (·.1)).flatten ∧
        sigE added = (items.map (·.2)).flatten ∧ ∀ i ∈ items, Q i.1 i.2 := by
  unfold documentBody at h
  obtain ⟨ko, sP, hp, h2⟩ := bind_dec peek _ s s' () h
  obtain ⟨o, p, hko⟩ := peek_obs s sP ko st.w hp
  subst hko
  have stP : St sP := ⟨p.w, (run_inv_added peek s st.inv _ sP hp).1, p.eofEnd st.eof, by rw [p.toks]; exact st.lq⟩
  have hbP : sP.builder = s.builder := keeps_peek s _ sP hp
  have heP : EofEnd sP := stP.eof
  obtain ⟨_, sE, hE, h3⟩ := bind_dec (errIfEmpty _) _ sP s' () h2
  obtain ⟨_, sL, hL, h4⟩ := bind_dec (peekWhile (documentStep n)) _ sE s' () h3
  have o4 := pushIgnored_obs sL s' h4
  have hndL : ¬ Doomed sL := fun d => hnd (o4.doomed.mpr d)
  unfold errIfEmpty at hE
  by_cases hemp : (o.map (·.kind) == none || o.map (·.kind) == some .eof) = true
  · exfalso
    simp only [hemp, if_true] at hE
    have gE := good_err sP () sE p.w hE
    have gL := good_peekWhile _ (good_documentStep (defLemmas n)) sE () sL gE.w hL
    obtain ⟨_, d⟩ := err_adv sP sE p.w hE
    have hndP : ¬ Doomed sP := fun dd => hndL (gL.doom (gE.doom dd))
    exact hndL (gL.doom (d (eofEnd_nonempty sP heP hndP)))
  · simp only [hemp, Bool.false_eq_true, if_false] at hE
    rw [run_pure] at hE
    injection hE with _ hE
    subst hE
    obtain ⟨fuel, h5⟩ := srcLen_dec _ sP sL () hL
    obtain ⟨hat, cs, d, t1, n1, e1, b1, r⟩ := docLoop_tr L _ sP sL stP h5 hndL
    obtain ⟨e, hte, hke⟩ := atEof_single sL e1 hndL hat
    obtain ⟨t, ht⟩ : ∃ t, o = some t := by
      cases o with
      | none => simp at hemp
      | some t => exact ⟨t, rfl⟩
    subst ht
    have hkt : t.kind ≠ .eof := by
      intro hk; simp [hk] at hemp
    have hni : isIgnoredKind t.kind = false := by
      have hcur : s.current = some t := by
        have h1 := hset.1
        have h2 := p.head
        rw [h1, ← h2]
      exact hset.2 t hcur
    have htP : Toks sP = t :: (Toks sP).tail := p.head_cons
    have hcs : ∃ cs', cs = t :: cs' := by
      cases cs with
      | nil =>
        exfalso
        rw [hte] at t1
        simp only [List.nil_append] at t1
        rw [t1] at htP
        injection htP with h1 _
        exact hkt (by rw [← h1]; exact hke)
      | cons a cs' =>
        rw [htP] at t1
        injection t1 with h1 _
        exact ⟨cs', by rw [h1]⟩
    obtain ⟨cs', rfl⟩ := hcs
    have e4 : pushIgnored.run sL = .ok () { sL with builder := { sL.builder with children := sL.builder.children ++ sL.pending.map pendingElem }, pending := [] } := rfl
    rw [e4] at h4
    injection h4 with _ h4
    rcases r with ⟨items, hi1, hi2, hall⟩ | f
    · refine ⟨t :: cs', e, d ++ sL.pending.map pendingElem, by rw [← p.toks, t1, hte], hke, ?_, items, ?_, hi1, ?_, hall⟩
      · rw [← h4]
        show sL.builder.children ++ sL.pending.map pendingElem = _
        rw [b1, hbP, List.append_assoc]
      · intro h0
        subst h0
        have : sig (t :: cs') = t :: sig cs' := by simp [sig, hni]
        rw [this] at hi1
        simp at hi1
      · rw [sigE_append, sigE_pending, List.append_nil]; exact hi2
    · exact absurd f id

/-- `document()`: the DOCUMENT node, the ignored tokens in front, the definitions -/
theorem document_tr {n : Nat} {Q : List Tok → List Elem → Prop} (L : DefTrs n Q) (s s' : PState) (st : St s)
    (h : (document n).run s = .ok () s') (hnd : ¬ Doomed s') :
    ∃ ts e inner, sig (Toks s) = ts ++ [e] ∧ e.kind = .eof ∧
      s'.builder.children = s.builder.children ++ s.pending.map pendingElem ++ [Elem.node "DOCUMENT" inner] ∧
      ∃ items : List (List Tok × List Elem), items ≠ [] ∧ ts = (items.map (·.1)).flatten ∧
        sigE inner = (items.map (·.2)).flatten ∧ ∀ i ∈ items, Q i.1 i.2 := by
  unfold document at h
  obtain ⟨s0, s2, inner, o0, hi0, hp0, hr0, o2, hin, hout⟩ := withNode_tree "DOCUMENT" (documentBody n) s st.inv () s' h
  obtain ⟨_, s1, hsk, hb⟩ := bind_dec skipIgnored _ s0 s2 () hr0
  have st0 : St s0 := st.obs o0 hi0
  obtain ⟨ign, e01, hall, hset⟩ := skipIgnored_spec s0 s1 st0.w hsk
  have he1 : EofEnd s1 := eofEnd_eat st0.eof e01 (noEof_ignored ign hall)
  have st1 : St s1 := ⟨e01.w, (run_inv_added skipIgnored s0 hi0 () s1 hsk).1, he1, LQ.suffix (cs := ign) (by rw [← e01.toks]; exact st0.lq)⟩
  have hk1 : s1.builder = s0.builder := keeps_skipIgnored s0 () s1 hsk
  have hnd2 : ¬ Doomed s2 := fun d => hnd (o2.doomed.mpr d)
  obtain ⟨cs, e, added, t1, hke, b1, items, hne, hi1, hi2, hallq⟩ := documentBody_tr L s1 s2 st1 hset hb hnd2
  have hinner : inner = added := by
    rw [hk1] at b1
    rw [hin] at b1
    exact List.append_cancel_left b1
  subst hinner
  refine ⟨sig cs, e, inner, ?_, hke, hout, items, hne, hi1, hi2, hallq⟩
  rw [← o0.toks, e01.toks, t1, sig_append, sig_append, sig_ignored ign hall]
  have : sig [e] = [e] := by simp [sig, isIgnoredKind, hke]
  rw [this]; rfl

/-- **The tree of an accepted document**, over the per-definition facts: `Parser::parse` (model; no token limit, any
    recursion limit) without error returns `DOCUMENT[…]` whose significant children are, definition by definition, the
    elements the definition parsers appended, and the significant tokens are the definitions' tokens, then EOF -/
theorem parseDocument_cst {Q : List Tok → List Elem → Prop} (L : ∀ n, DefTrs n Q) (rl : Nat) (src : Str) (root : Elem)
    (h : (parse .document none rl src).outcome = .tree root) (herr : (parse .document none rl src).errors = []) :
    LexClean src ∧ ∃ ts e inner, sig (srcToks src) = ts ++ [e] ∧ e.kind = .eof ∧ root = Elem.node "DOCUMENT" inner ∧
      ∃ items : List (List Tok × List Elem), items ≠ [] ∧ ts = (items.map (·.1)).flatten ∧
        sigE inner = (items.map (·.2)).flatten ∧ ∀ i ∈ items, Q i.1 i.2 := by
  unfold parse runEntry at h herr
  simp only [Entry.standalone, Entry.grammar] at h herr
  have hinv := init_inv src none rl
  have w0 : TW (initState src none rl) := ⟨rfl, by intro h; simp [initState] at h⟩
  have htoks : Toks (initState src none rl) = srcToks src := rfl
  have hdoom : Doomed (initState src none rl) ↔ ¬ LexClean src := by
    unfold Doomed LexClean
    show ([] ≠ [] ∨ hasErr (stream (initState src none rl).lx) = true) ↔ _
    have : (initState src none rl).lx = (initState src none 0).lx := rfl
    rw [this]
    constructor
    · rintro (h | h)
      · exact absurd rfl h
      · simp [h]
    · intro h; right; simpa using h
  have he0 : EofEnd (initState src none rl) := by
    right
    obtain ⟨pre, e, hp, he, hno⟩ := stream_eof_end src.length (initState src none 0).lx (Nat.le_refl _) rfl rfl
    exact ⟨pre, e, by rw [htoks]; exact hp, he, hno⟩
  have st0 : St (initState src none rl) := ⟨w0, hinv, he0, by rw [htoks]; exact lq_srcToks src⟩
  cases hr : (document (fuelFor src)).run (initState src none rl) with
  | abort w => simp [hr] at h
  | panic m => simp [hr] at h
  | ok a s =>
    simp only [hr] at h herr
    have gd := good_withNode "DOCUMENT" _ (good_documentBody (defLemmas (fuelFor src))) _ a s w0 (by unfold document at hr; exact hr)
    obtain ⟨hfin, hlim⟩ := PI.run_ok (document (fuelFor src)) _ hinv a s hr
    obtain ⟨cs, s2, _, _, hrun, _, _, hlx, _, _, _⟩ :=
      withNode_result "DOCUMENT" (documentBody (fuelFor src)) _ hinv a s hr
    have hi0 : Inv (rawStartNode "DOCUMENT" { initState src none rl with builder := { (initState src none rl).builder with children := (initState src none rl).builder.children ++ (initState src none rl).pending.map pendingElem }, pending := [] }) :=
      ⟨fun _ => by simp [initState, Builder.new, rawStartNode, Builder.startNode, textList, pendingText, curText],
       fun p hp => by simp [initState, Builder.new, rawStartNode, Builder.startNode] at hp; simp [hp, initState, Builder.new, rawStartNode, Builder.startNode],
       fun hfin => by simp [initState, rawStartNode] at hfin, fun t ht => by simp [initState, rawStartNode] at ht,
       fun ha => by simp [initState, rawStartNode] at ha⟩
    obtain ⟨u, s1, hsk, hbody⟩ := bind_dec skipIgnored _ _ s2 a hrun
    obtain ⟨hi1, hl1⟩ := PI.run_ok skipIgnored _ hi0 u s1 hsk
    have hl1' : s1.lx.limit = none := by rw [hl1]; rfl
    obtain ⟨_, hex2, _⟩ := documentBody_final (fuelFor src) s1 s2 hi1 hl1' hbody
    have hsrc : s.lx.src = [] := by rw [hlx]; exact hex2.2
    have hnd : ¬ Doomed s := by
      rintro (d | d)
      · exact d herr
      · rw [hasErr_src_nil s.lx gd.w.limit hsrc] at d; cases d
    have hnd0 : ¬ Doomed (initState src none rl) := fun d => hnd (gd.doom d)
    refine ⟨Classical.byContradiction (fun hc => hnd0 (hdoom.mpr hc)), ?_⟩
    obtain ⟨ts, e, inner, h1, h2, h3, hitems⟩ := document_tr (L (fuelFor src)) _ s st0 hr hnd
    have hchild : s.builder.children = [Elem.node "DOCUMENT" inner] := by rw [h3]; rfl
    simp only [Builder.finish, hchild, Outcome.tree.injEq] at h
    rw [htoks] at h1
    exact ⟨ts, e, inner, h1, h2, h.symm, hitems⟩

end Apollo.Parse
