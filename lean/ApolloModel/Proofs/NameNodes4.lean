import ApolloModel.Proofs.NameNodes3
/-
C11 growth, part 4: every definition parser of the grammar, `document()` and the three entry points,
by the structural automation (one line per grammar function; a changed function body is re-checked by
the same line).
-/
set_option linter.unusedSimpArgs false
set_option linter.unusedVariables false
namespace Apollo.Parse
open Apollo.Rowan hiding Str
open Apollo.Lex hiding Str

set_option maxHeartbeats 1000000 in
theorem ng_description : NG description := by unfold description; ng_go
macro_rules | `(tactic| ng_leaf) => `(tactic| exact ng_description)

set_option maxHeartbeats 1000000 in
theorem ng_operationType : NG operationType := by unfold operationType; ng_go
macro_rules | `(tactic| ng_leaf) => `(tactic| exact ng_operationType)

set_option maxHeartbeats 1000000 in
theorem ng_inputValueDefinition (n : Nat) : NG (inputValueDefinition n) := by unfold inputValueDefinition; ng_go
macro_rules | `(tactic| ng_leaf) => `(tactic| exact ng_inputValueDefinition _)

set_option maxHeartbeats 1000000 in
theorem ng_variableDefinition (n : Nat) : NG (variableDefinition n) := by unfold variableDefinition; ng_go
macro_rules | `(tactic| ng_leaf) => `(tactic| exact ng_variableDefinition _)

set_option maxHeartbeats 1000000 in
theorem ng_variableDefinitions (n : Nat) : NG (variableDefinitions n) := by unfold variableDefinitions; ng_go
macro_rules | `(tactic| ng_leaf) => `(tactic| exact ng_variableDefinitions _)

set_option maxHeartbeats 1000000 in
theorem ng_argumentsDefinitionBody (n : Nat) : NG (argumentsDefinitionBody n) := by unfold argumentsDefinitionBody isNameOrString; ng_go
macro_rules | `(tactic| ng_leaf) => `(tactic| exact ng_argumentsDefinitionBody _)

set_option maxHeartbeats 1000000 in
theorem ng_argumentsDefinition (n : Nat) : NG (argumentsDefinition n) := by unfold argumentsDefinition; ng_go
macro_rules | `(tactic| ng_leaf) => `(tactic| exact ng_argumentsDefinition _)

set_option maxHeartbeats 1000000 in
theorem ng_fragmentDefinition (n : Nat) : NG (fragmentDefinition n) := by unfold fragmentDefinition; ng_go
macro_rules | `(tactic| ng_leaf) => `(tactic| exact ng_fragmentDefinition _)

set_option maxHeartbeats 1000000 in
theorem ng_operationDefinition (n : Nat) : NG (operationDefinition n) := by unfold operationDefinition; ng_go
macro_rules | `(tactic| ng_leaf) => `(tactic| exact ng_operationDefinition _)

set_option maxHeartbeats 1000000 in
theorem ng_fieldDefinition (n : Nat) : NG (fieldDefinition n) := by unfold fieldDefinition; ng_go
macro_rules | `(tactic| ng_leaf) => `(tactic| exact ng_fieldDefinition _)

set_option maxHeartbeats 1000000 in
theorem ng_fieldsDefinition (n : Nat) : NG (fieldsDefinition n) := by unfold fieldsDefinition isNameOrString; ng_go
macro_rules | `(tactic| ng_leaf) => `(tactic| exact ng_fieldsDefinition _)

set_option maxHeartbeats 1000000 in
theorem ng_rootOperationTypeDefinition : NG rootOperationTypeDefinition := by unfold rootOperationTypeDefinition; ng_go
macro_rules | `(tactic| ng_leaf) => `(tactic| exact ng_rootOperationTypeDefinition)

set_option maxHeartbeats 1000000 in
theorem ng_schemaDefinition (n : Nat) : NG (schemaDefinition n) := by unfold schemaDefinition; ng_go
macro_rules | `(tactic| ng_leaf) => `(tactic| exact ng_schemaDefinition _)

set_option maxHeartbeats 1000000 in
theorem ng_schemaExtension (n : Nat) : NG (schemaExtension n) := by unfold schemaExtension; ng_go
macro_rules | `(tactic| ng_leaf) => `(tactic| exact ng_schemaExtension _)

set_option maxHeartbeats 1000000 in
theorem ng_nameOrErr : NG nameOrErr := by unfold nameOrErr; ng_go
macro_rules | `(tactic| ng_leaf) => `(tactic| exact ng_nameOrErr)

set_option maxHeartbeats 1000000 in
theorem ng_scalarTypeDefinition (n : Nat) : NG (scalarTypeDefinition n) := by unfold scalarTypeDefinition; ng_go
macro_rules | `(tactic| ng_leaf) => `(tactic| exact ng_scalarTypeDefinition _)

set_option maxHeartbeats 1000000 in
theorem ng_scalarTypeExtension (n : Nat) : NG (scalarTypeExtension n) := by unfold scalarTypeExtension; ng_go
macro_rules | `(tactic| ng_leaf) => `(tactic| exact ng_scalarTypeExtension _)

set_option maxHeartbeats 1000000 in
theorem ng_implementsInterfaces : NG implementsInterfaces := by unfold implementsInterfaces; ng_go
macro_rules | `(tactic| ng_leaf) => `(tactic| exact ng_implementsInterfaces)

set_option maxHeartbeats 1000000 in
theorem ng_objectTypeDefinition (n : Nat) : NG (objectTypeDefinition n) := by unfold objectTypeDefinition; ng_go
macro_rules | `(tactic| ng_leaf) => `(tactic| exact ng_objectTypeDefinition _)

set_option maxHeartbeats 1000000 in
theorem ng_objectTypeExtension (n : Nat) : NG (objectTypeExtension n) := by unfold objectTypeExtension; ng_go
macro_rules | `(tactic| ng_leaf) => `(tactic| exact ng_objectTypeExtension _)

set_option maxHeartbeats 1000000 in
theorem ng_interfaceTypeDefinition (n : Nat) : NG (interfaceTypeDefinition n) := by unfold interfaceTypeDefinition; ng_go
macro_rules | `(tactic| ng_leaf) => `(tactic| exact ng_interfaceTypeDefinition _)

set_option maxHeartbeats 1000000 in
theorem ng_interfaceTypeExtension (n : Nat) : NG (interfaceTypeExtension n) := by unfold interfaceTypeExtension; ng_go
macro_rules | `(tactic| ng_leaf) => `(tactic| exact ng_interfaceTypeExtension _)

set_option maxHeartbeats 1000000 in
theorem ng_unionMemberTypes : NG unionMemberTypes := by unfold unionMemberTypes; ng_go
macro_rules | `(tactic| ng_leaf) => `(tactic| exact ng_unionMemberTypes)

set_option maxHeartbeats 1000000 in
theorem ng_unionTypeDefinition (n : Nat) : NG (unionTypeDefinition n) := by unfold unionTypeDefinition; ng_go
macro_rules | `(tactic| ng_leaf) => `(tactic| exact ng_unionTypeDefinition _)

set_option maxHeartbeats 1000000 in
theorem ng_unionTypeExtension (n : Nat) : NG (unionTypeExtension n) := by unfold unionTypeExtension; ng_go
macro_rules | `(tactic| ng_leaf) => `(tactic| exact ng_unionTypeExtension _)

set_option maxHeartbeats 1000000 in
theorem ng_enumValueDefinition (n : Nat) : NG (enumValueDefinition n) := by unfold enumValueDefinition isNameOrString; ng_go
macro_rules | `(tactic| ng_leaf) => `(tactic| exact ng_enumValueDefinition _)

set_option maxHeartbeats 1000000 in
theorem ng_enumValuesDefinition (n : Nat) : NG (enumValuesDefinition n) := by unfold enumValuesDefinition isNameOrString; ng_go
macro_rules | `(tactic| ng_leaf) => `(tactic| exact ng_enumValuesDefinition _)

set_option maxHeartbeats 1000000 in
theorem ng_enumTypeDefinition (n : Nat) : NG (enumTypeDefinition n) := by unfold enumTypeDefinition; ng_go
macro_rules | `(tactic| ng_leaf) => `(tactic| exact ng_enumTypeDefinition _)

set_option maxHeartbeats 1000000 in
theorem ng_enumTypeExtension (n : Nat) : NG (enumTypeExtension n) := by unfold enumTypeExtension; ng_go
macro_rules | `(tactic| ng_leaf) => `(tactic| exact ng_enumTypeExtension _)

set_option maxHeartbeats 1000000 in
theorem ng_inputFieldsDefinition (n : Nat) : NG (inputFieldsDefinition n) := by unfold inputFieldsDefinition isNameOrString; ng_go
macro_rules | `(tactic| ng_leaf) => `(tactic| exact ng_inputFieldsDefinition _)

set_option maxHeartbeats 1000000 in
theorem ng_inputObjectTypeDefinition (n : Nat) : NG (inputObjectTypeDefinition n) := by unfold inputObjectTypeDefinition; ng_go
macro_rules | `(tactic| ng_leaf) => `(tactic| exact ng_inputObjectTypeDefinition _)

set_option maxHeartbeats 1000000 in
theorem ng_inputObjectTypeExtension (n : Nat) : NG (inputObjectTypeExtension n) := by unfold inputObjectTypeExtension; ng_go
macro_rules | `(tactic| ng_leaf) => `(tactic| exact ng_inputObjectTypeExtension _)

set_option maxHeartbeats 1000000 in
theorem ng_directiveLocation : NG directiveLocation := by unfold directiveLocation; ng_go
macro_rules | `(tactic| ng_leaf) => `(tactic| exact ng_directiveLocation)

set_option maxHeartbeats 1000000 in
theorem ng_directiveLocations : NG directiveLocations := by unfold directiveLocations; ng_go
macro_rules | `(tactic| ng_leaf) => `(tactic| exact ng_directiveLocations)

set_option maxHeartbeats 1000000 in
theorem ng_directiveDefinition (n : Nat) : NG (directiveDefinition n) := by unfold directiveDefinition; ng_go
macro_rules | `(tactic| ng_leaf) => `(tactic| exact ng_directiveDefinition _)

set_option maxHeartbeats 1000000 in
theorem ng_extensions (n : Nat) : NG (extensions n) := by unfold extensions; ng_go
macro_rules | `(tactic| ng_leaf) => `(tactic| exact ng_extensions _)

set_option maxHeartbeats 1000000 in
theorem ng_selectDefinition (n : Nat) (d : Str) : NG (selectDefinition n d) := by unfold selectDefinition; ng_go
macro_rules | `(tactic| ng_leaf) => `(tactic| exact ng_selectDefinition _ _)

set_option maxHeartbeats 1000000 in
theorem ng_documentDispatch (n : Nat) (k : Kind) : NG (documentDispatch n k) := by unfold documentDispatch; ng_go
macro_rules | `(tactic| ng_leaf) => `(tactic| exact ng_documentDispatch _ _)

set_option maxHeartbeats 1000000 in
theorem ng_documentStep (n : Nat) (k : Kind) : NG (documentStep n k) := by unfold documentStep; ng_go
macro_rules | `(tactic| ng_leaf) => `(tactic| exact ng_documentStep _ _)

set_option maxHeartbeats 1000000 in
theorem ng_documentBody (n : Nat) : NG (documentBody n) := by unfold documentBody errIfEmpty; ng_go

theorem ng_document (n : Nat) : NG (document n) := by
  unfold document
  exact ng_withNode _ _ (by decide) (ng_documentBody n)

theorem ng_expectEndOfInput : NG expectEndOfInput := by unfold expectEndOfInput errUnlessEnd; ng_go

theorem ng_entry (e : Entry) (fuel : Nat) : NG (e.grammar fuel) := by
  cases e
  · exact ng_document fuel
  · exact ng_bind _ _ (ng_fieldSet fuel) (fun _ => ng_expectEndOfInput)
  · exact ng_bind _ _ (ng_ty fuel) (fun _ => ng_expectEndOfInput)

end Apollo.Parse
