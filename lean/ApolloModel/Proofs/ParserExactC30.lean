import ApolloModel.Proofs.ParserExactC29
import ApolloModel.Proofs.ParserExactT11
/-
C05 growth (completeness at the exact budget), part 30: the symmetric side of the recorded finding
`accepts-root-operation-without-type`.  `root_operation_type_definition` calls `named_type`, which does nothing when no
Name follows; hence a root operation type may lack its named type EXACTLY when the next token is not a Name — inside
`{ … }` that is the LAST root only (in `query: mutation: M` the Name `mutation` is taken as the type of `query`, and the
following `:` is an error).  This file: the item rule for a nameless root, the flag loop with a distinguished last item,
`{ Root* NamelessRoot }`.
-/
set_option linter.unusedSimpArgs false
namespace Apollo.Parse.Exact
open Apollo.Rowan hiding Str
open Apollo.Lex hiding Str

/-- `named_type` when no Name follows: nothing is consumed -/
theorem cmp_namedTypeNone : Cmp (fun _ => True) namedType (fun _ x => x = []) (fun k => k ≠ .name) (fun _ => True) := by
  unfold namedType
  apply cmp_peek
  intro k _
  apply cmp_ite
  · intro hk
    apply cmp_absurd
    rintro b x cc q0 rfl hs hf hkk
    have := spells_nil_inv hs
    subst this
    simp only [headK] at hkk
    rw [hkk] at hf
    simp at hk
    exact hf hk
  · intro _
    exact (cmp_pure _ _ ()).mono (fun _ _ => trivial) (fun _ _ h => h) (fun _ _ => trivial) (fun _ _ => trivial)

/-- a root operation type without its named type: `OperationType :` -/
def LRootOpN (_ : Nat) (x : List Ast.Tok) : Prop := ∃ op : Ast.OpType, x = [.name op.name.toList, .p .colon]

theorem cmp_rootOpNameless :
    Cmp (fun _ => True) rootOperationTypeDefinition LRootOpN (fun k => k ≠ .name) (fun _ => True) := by
  unfold rootOperationTypeDefinition
  refine cmp_withNode _ ?_
  have hcolon : Cmp (fun _ => True) (peek >>= fun k => if k == some Kind.colon then (bump "COLON" >>= fun _ => namedType) else err)
      (fun _ x => x = [.p .colon]) (fun k => k ≠ .name) (fun _ => True) := by
    apply cmp_peek
    intro k _
    apply cmp_ite
    · intro _
      have := cmp_bind (Hk := fun k' => k' = k) (F := fun k => k ≠ Kind.name) (F1 := fun _ => True)
        ((cmp_bump "COLON").mono (fun _ _ => trivial) (fun _ _ h => h) (fun _ h => h) (fun _ h => h))
        (fun _ _ => cmp_namedTypeNone) (fun _ _ _ _ => trivial) (fun _ _ => trivial) (fun _ h => h)
      refine this.mono (fun _ h => h) ?_ (fun _ h => h) (fun _ h => h)
      rintro b x rfl
      exact ⟨[.p .colon], [], rfl, ⟨_, rfl⟩, rfl⟩
    · intro hk
      apply cmp_absurd
      rintro b x cc q0 rfl hs _ hkk
      obtain ⟨tk, tl, rfl, hta⟩ := spells_head hs
      simp only [headK] at hkk
      rw [kind_of_astOfV hta] at hkk
      simp [← hkk, kindOfA] at hk
  have := cmp_bind (Hk := fun _ => True) (F := fun k => k ≠ Kind.name) (F1 := fun _ => True) cmp_operationType (fun _ _ => hcolon)
    (fun _ _ _ _ => trivial) (fun _ _ => trivial) (fun _ h => h)
  refine this.mono (fun _ h => h) ?_ (fun _ h => h) (fun _ h => h)
  rintro b x ⟨op, rfl⟩
  exact ⟨[.name op.name.toList], [.p .colon], rfl, ⟨op, rfl⟩, rfl⟩

/-- the kind loop with a flag, the LAST item being of a second language with its own follow condition -/
theorem cmp_flagLoopLast (k : Kind) (item : PI Unit) (Li : Nat → List Ast.Tok → Prop) (Fi : Kind → Prop)
    (Ll : Nat → List Ast.Tok → Prop) (Fl : Kind → Prop)
    (hitem : Cmp (fun _ => True) item Li Fi (fun _ => True)) (hlast : Cmp (fun _ => True) item Ll Fl (fun _ => True))
    (hhead : ∀ b x, Li b x → ∃ a x', x = a :: x' ∧ kindOfA a = k)
    (hheadL : ∀ b x, Ll b x → ∃ a x', x = a :: x' ∧ kindOfA a = k) (hFk : Fi k) :
    ∀ (items : List (List Ast.Tok)) (last : List Ast.Tok) (fuel : Nat) (flag : Bool) (s s' : PState) (r : Bool) (c : List Tok) (q0 : Tok) (rest : List Tok),
      TW s → (peekWhileKindFlagLoop k item fuel flag).run s = .ok r s' → (∀ i ∈ items, Li (s.recLimit - s.recCur) i) →
      Ll (s.recLimit - s.recCur) last →
      Spells c (items.flatten ++ last) → Toks s = c ++ q0 :: rest → Sigf q0 → q0.kind ≠ k → Fl q0.kind →
      Eat s s' c ∧ Toks s' = q0 :: rest ∧ r = true := by
  intro items
  induction items with
  | nil =>
    intro last fuel flag s s' r c q0 rest w hr _ hl hs ht hq hne hfq
    simp only [List.flatten_nil, List.nil_append] at hs
    obtain ⟨a, x', rfl, hka⟩ := hheadL _ last hl
    cases fuel with
    | zero => simp [peekWhileKindFlagLoop, PI.outOfFuel] at hr
    | succ fuel =>
      obtain ⟨t, tl, hc1, hta⟩ := spells_head hs
      unfold peekWhileKindFlagLoop at hr
      obtain ⟨ko, sP, hp, h2⟩ := bind_dec peek _ s s' r hr
      obtain ⟨rfl, eP, htP, _⟩ := peek_head s sP ko t (tl ++ q0 :: rest) w (by rw [ht, hc1]; simp) hp
      have hkt : t.kind = k := by rw [kind_of_astOfV hta, hka]
      have : (t.kind != k) = false := by simp [hkt]
      simp only [this, Bool.false_eq_true, if_false] at h2
      have h3 := getCurrent_dec _ sP s' r h2
      obtain ⟨_, sB, hb, h4⟩ := bind_dec item _ sP s' r h3
      have h5 := getCurrent_dec _ sB s' r h4
      have hbud : sP.recLimit - sP.recCur = s.recLimit - s.recCur := by rw [eP.recLimit, eP.recCur]
      obtain ⟨eB, tB, _⟩ := hlast sP sB () c (a :: x') q0 rest eP.w hb (by rw [hbud]; exact hl) hs
        (by rw [htP, hc1]; simp) hq hfq trivial
      by_cases hsame : (sP.current == sB.current) = true
      · simp only [hsame, if_true] at h5
        exact absurd h5 (stuck_not_ok _ _ _)
      · simp only [hsame, Bool.false_eq_true, if_false] at h5
        obtain ⟨eR, tR, hrR⟩ := cmp_kindWhileFlagLoop k item (fun _ _ => False) (fun _ => True)
          (fun _ _ _ _ _ _ _ _ _ hf _ _ _ _ _ => hf.elim) (fun _ _ hf => hf.elim) trivial [] fuel true sB s' r [] q0 rest eB.w h5
          (by intro i hi; cases hi) (by simpa using spells_nil) (by simpa using tB) hq hne trivial
        exact ⟨by simpa using (eP.trans eB).trans eR, tR, by simp [hrR]⟩
  | cons it items ih =>
    intro last fuel flag s s' r c q0 rest w hr hall hl hs ht hq hne hfq
    obtain ⟨a, x', rfl, hka⟩ := hhead _ it (hall it (by simp))
    cases fuel with
    | zero => simp [peekWhileKindFlagLoop, PI.outOfFuel] at hr
    | succ fuel =>
      obtain ⟨c1, c2, rfl, s1, s2⟩ := spells_split0 (x1 := a :: x') (x2 := items.flatten ++ last) (by simpa [List.append_assoc] using hs)
      obtain ⟨t, tl, hc1, hta⟩ := spells_head s1
      obtain ⟨f, ftl, hfol, hsf, hff⟩ := next_item_head (Li := fun b x => Li b x ∨ Ll b x) (P := fun k' => k' = k) (b := s.recLimit - s.recCur)
        (by rintro b x (h | h); exact hhead b x h; exact hheadL b x h) (items ++ [last])
        (by intro i hi; rcases List.mem_append.mp hi with hi | hi
            · exact Or.inl (hall i (by simp [hi]))
            · rw [List.mem_singleton.mp hi]; exact Or.inr hl) c2 (by simpa using s2) q0 rest hq
      have hFf : Fi f.kind := by
        rcases hff with ⟨h0, _, _⟩ | h
        · simp at h0
        · rw [h]; exact hFk
      unfold peekWhileKindFlagLoop at hr
      obtain ⟨ko, sP, hp, h2⟩ := bind_dec peek _ s s' r hr
      obtain ⟨rfl, eP, htP, _⟩ := peek_head s sP ko t (tl ++ c2 ++ q0 :: rest) w (by rw [ht, hc1]; simp) hp
      have hkt : t.kind = k := by rw [kind_of_astOfV hta, hka]
      have : (t.kind != k) = false := by simp [hkt]
      simp only [this, Bool.false_eq_true, if_false] at h2
      have h3 := getCurrent_dec _ sP s' r h2
      obtain ⟨_, sB, hb, h4⟩ := bind_dec item _ sP s' r h3
      have h5 := getCurrent_dec _ sB s' r h4
      have hbud : sP.recLimit - sP.recCur = s.recLimit - s.recCur := by rw [eP.recLimit, eP.recCur]
      obtain ⟨eB, tB, _⟩ := hitem sP sB () c1 (a :: x') f ftl eP.w hb (by rw [hbud]; exact hall _ (by simp)) s1
        (by rw [htP, hc1, ← hfol]; simp) hsf hFf trivial
      by_cases hsame : (sP.current == sB.current) = true
      · simp only [hsame, if_true] at h5
        exact absurd h5 (stuck_not_ok _ _ _)
      · simp only [hsame, Bool.false_eq_true, if_false] at h5
        have hbud2 : sB.recLimit - sB.recCur = s.recLimit - s.recCur := by rw [eB.recLimit, eB.recCur, hbud]
        obtain ⟨eR, tR, hrR⟩ := ih last fuel true sB s' r c2 q0 rest eB.w h5 (fun i hi => by rw [hbud2]; exact hall i (by simp [hi]))
          (by rw [hbud2]; exact hl) s2 (by rw [tB, hfol]) hq hne hfq
        exact ⟨by simpa using (eP.trans eB).trans eR, tR, hrR⟩

/-- `{ RootOperationTypeDefinition* OperationType : }` then the continuation `K` (which starts with `}`) -/
theorem cmp_rootsBlockN {α : Type} (K : PI α) {Lk : Nat → List Ast.Tok → Prop} {F : Kind → Prop} {Q : α → Prop}
    (hK : Cmp (fun _ => True) K Lk F Q) (hKhead : ∀ b x, Lk b x → ∃ x', x = .p .rCurly :: x') :
    Cmp (fun _ => True) (rootsBlock K)
      (fun b x => ∃ (pre : List (Ast.OpType × Ast.Str)) (op : Ast.OpType) (xk : List Ast.Tok),
        x = .p .lCurly :: (Ast.tRootOpItems pre ++ ([.name op.name.toList, .p .colon] ++ xk)) ∧ Lk b xk) F Q := by
  intro s s' u cv x q0 rest w hr hl hs ht hq hf _
  obtain ⟨pre, op, xk, rfl, hlk⟩ := hl
  obtain ⟨xk', rfl⟩ := hKhead _ _ hlk
  obtain ⟨t, i, c', rfl, hta, hi, hs'⟩ := spells_cons hs
  obtain ⟨c2, c3, rfl, s2, s3⟩ := spells_split (x1 := Ast.tRootOpItems pre ++ [.name op.name.toList, .p .colon]) (x2 := .p .rCurly :: xk')
    (by simpa [List.append_assoc] using hs') (by simp)
  obtain ⟨tb, tlb, hc3, htb⟩ := spells_head s3
  have hkb : tb.kind = .rCurly := kind_of_astOfV htb
  obtain ⟨f, ftl, hfol, hsf, _⟩ := next_item_head (Li := fun b x => LRootOp b x ∨ LRootOpN b x) (P := fun k => k = Kind.name) (b := 0)
    (by rintro b x (⟨r, rfl⟩ | ⟨o, rfl⟩); exact ⟨_, _, rfl, rfl⟩; exact ⟨_, _, rfl, rfl⟩)
    (rootItems pre ++ [[.name op.name.toList, .p .colon]])
    (by intro i hi; rcases List.mem_append.mp hi with hi | hi
        · exact Or.inl (rootItems_ok 0 pre i hi)
        · rw [List.mem_singleton.mp hi]; exact Or.inr ⟨op, rfl⟩) c2
    (by simpa [rootItems_flatten] using s2) tb (tlb ++ q0 :: rest) (sigf_of_astOfV htb)
  unfold rootsBlock at hr
  obtain ⟨_, sA, h1, h2⟩ := bind_dec (bump "L_CURLY") _ s s' u hr
  have hs1 : Spells (t :: i) [.p .lCurly] := by
    refine ⟨?_, by intro hd tl e; injection e with e _; subst e; exact sigf_of_astOfV hta⟩
    rw [sig_cons_ignV t i (sigf_of_astOfV hta) hi]
    exact TokIs.single t _ hta
  obtain ⟨e1, tA, _⟩ := cmp_bump "L_CURLY" s sA () (t :: i) [.p .lCurly] f (ftl) w h1 ⟨_, rfl⟩ hs1
    (by rw [ht, ← hfol, hc3]; simp) hsf trivial trivial
  obtain ⟨len, h3⟩ := srcLen_dec _ sA s' u h2
  obtain ⟨has, sB, h4, h5⟩ := bind_dec _ _ sA s' u h3
  have hbA : sA.recLimit - sA.recCur = s.recLimit - s.recCur := by rw [e1.recLimit, e1.recCur]
  obtain ⟨eB, tB, hhas⟩ := cmp_flagLoopLast .name rootOperationTypeDefinition LRootOp (fun _ => True) LRootOpN (fun k => k ≠ .name)
    cmp_rootOperationTypeDefinition cmp_rootOpNameless (by rintro b x ⟨r, rfl⟩; exact ⟨_, _, rfl, rfl⟩)
    (by rintro b x ⟨o, rfl⟩; exact ⟨_, _, rfl, rfl⟩) trivial (rootItems pre) [.name op.name.toList, .p .colon] _ false sA sB has c2 tb
    (tlb ++ q0 :: rest) e1.w h4 (rootItems_ok _ pre) ⟨op, rfl⟩ (by rw [rootItems_flatten]; exact s2) (by rw [tA, hfol]) (sigf_of_astOfV htb)
    (by rw [hkb]; decide) (by rw [hkb]; decide)
  subst hhas
  simp only [Bool.not_true, Bool.false_eq_true, if_false] at h5
  have hbB : sB.recLimit - sB.recCur = s.recLimit - s.recCur := by rw [eB.recLimit, eB.recCur, hbA]
  obtain ⟨eK, tK, q⟩ := hK sB s' u c3 _ q0 rest eB.w h5 (by rw [hbB]; exact hlk) s3 (by rw [tB, hc3]; simp) hq hf trivial
  exact ⟨by simpa [List.append_assoc] using (e1.trans eB).trans eK, tK, q⟩

end Apollo.Parse.Exact
