import ApolloModel.Proofs.ParserTreeDef5
/-
C08 growth (pipeline), stage (v), part 6: `DefTree l e` — the tree of a loose type-system definition — and the
conversion theorem `cDefinition` on a `DefTree l` returns `looseConv l` (named definitions and extensions; schema and
directive definitions in part 8).
-/
set_option linter.unusedSimpArgs false
set_option linter.unusedVariables false
namespace Apollo.FromCst
open Apollo.Rowan Apollo.Ast
open Apollo.Parse (isJunk isJunkKind sigE nameNode LooseDef sepNames sepLead fullRoots)

variable {R : List Loc}

theorem cDef_scalarDef (n : Nat) (p : PE R) (hk : p.kind = "SCALAR_TYPE_DEFINITION") :
    cDefinition n p = (descOf p >>= fun desc => nameOf p >>= fun name => directivesOf n p >>= fun dirs =>
      pure (.scalarDef desc name dirs)) := by simp [cDefinition, hk]
theorem cDef_scalarExt (n : Nat) (p : PE R) (hk : p.kind = "SCALAR_TYPE_EXTENSION") :
    cDefinition n p = (nameOf p >>= fun name => directivesOf n p >>= fun dirs => pure (.scalarExt name dirs)) := by
  simp [cDefinition, hk]
theorem cDef_objectDef (n : Nat) (p : PE R) (hk : p.kind = "OBJECT_TYPE_DEFINITION") :
    cDefinition n p = (descOf p >>= fun desc => nameOf p >>= fun name => namedTypesOf "IMPLEMENTS_INTERFACES" p >>= fun impls =>
      directivesOf n p >>= fun dirs => fieldsOf n p >>= fun fields => pure (.objectDef desc name impls dirs fields)) := by
  simp [cDefinition, hk]
theorem cDef_interfaceDef (n : Nat) (p : PE R) (hk : p.kind = "INTERFACE_TYPE_DEFINITION") :
    cDefinition n p = (descOf p >>= fun desc => nameOf p >>= fun name => namedTypesOf "IMPLEMENTS_INTERFACES" p >>= fun impls =>
      directivesOf n p >>= fun dirs => fieldsOf n p >>= fun fields => pure (.interfaceDef desc name impls dirs fields)) := by
  simp [cDefinition, hk]
theorem cDef_objectExt (n : Nat) (p : PE R) (hk : p.kind = "OBJECT_TYPE_EXTENSION") :
    cDefinition n p = (nameOf p >>= fun name => namedTypesOf "IMPLEMENTS_INTERFACES" p >>= fun impls =>
      directivesOf n p >>= fun dirs => fieldsOf n p >>= fun fields => pure (.objectExt name impls dirs fields)) := by
  simp [cDefinition, hk]
theorem cDef_interfaceExt (n : Nat) (p : PE R) (hk : p.kind = "INTERFACE_TYPE_EXTENSION") :
    cDefinition n p = (nameOf p >>= fun name => namedTypesOf "IMPLEMENTS_INTERFACES" p >>= fun impls =>
      directivesOf n p >>= fun dirs => fieldsOf n p >>= fun fields => pure (.interfaceExt name impls dirs fields)) := by
  simp [cDefinition, hk]
theorem cDef_unionDef (n : Nat) (p : PE R) (hk : p.kind = "UNION_TYPE_DEFINITION") :
    cDefinition n p = (descOf p >>= fun desc => nameOf p >>= fun name => directivesOf n p >>= fun dirs =>
      namedTypesOf "UNION_MEMBER_TYPES" p >>= fun members => pure (.unionDef desc name dirs members)) := by
  simp [cDefinition, hk]
theorem cDef_unionExt (n : Nat) (p : PE R) (hk : p.kind = "UNION_TYPE_EXTENSION") :
    cDefinition n p = (nameOf p >>= fun name => directivesOf n p >>= fun dirs =>
      namedTypesOf "UNION_MEMBER_TYPES" p >>= fun members => pure (.unionExt name dirs members)) := by
  simp [cDefinition, hk]
theorem cDef_enumDef (n : Nat) (p : PE R) (hk : p.kind = "ENUM_TYPE_DEFINITION") :
    cDefinition n p = (descOf p >>= fun desc => nameOf p >>= fun name => directivesOf n p >>= fun dirs =>
      enumValuesOf n p >>= fun values => pure (.enumDef desc name dirs values)) := by
  simp [cDefinition, hk]
theorem cDef_enumExt (n : Nat) (p : PE R) (hk : p.kind = "ENUM_TYPE_EXTENSION") :
    cDefinition n p = (nameOf p >>= fun name => directivesOf n p >>= fun dirs =>
      enumValuesOf n p >>= fun values => pure (.enumExt name dirs values)) := by
  simp [cDefinition, hk]
theorem cDef_inputDef (n : Nat) (p : PE R) (hk : p.kind = "INPUT_OBJECT_TYPE_DEFINITION") :
    cDefinition n p = (descOf p >>= fun desc => nameOf p >>= fun name => directivesOf n p >>= fun dirs =>
      inputValuesOf n "INPUT_FIELDS_DEFINITION" p >>= fun fields => pure (.inputDef desc name dirs fields)) := by
  simp [cDefinition, hk]
theorem cDef_inputExt (n : Nat) (p : PE R) (hk : p.kind = "INPUT_OBJECT_TYPE_EXTENSION") :
    cDefinition n p = (nameOf p >>= fun name => directivesOf n p >>= fun dirs =>
      inputValuesOf n "INPUT_FIELDS_DEFINITION" p >>= fun fields => pure (.inputExt name dirs fields)) := by
  simp [cDefinition, hk]

/-- the tree of a loose definition with a name (`False` for schema / directive definitions, see part 8) -/
def NamedDefTree : LooseDef → Elem → Prop
  | .scalar desc nm ds, e => ScalarLike "SCALAR_TYPE_DEFINITION" desc nm ds e
  | .object desc nm impl ds fs, e => ObjLike "OBJECT_TYPE_DEFINITION" desc nm (sepNames impl) ds fs e
  | .interface desc nm impl ds fs, e => ObjLike "INTERFACE_TYPE_DEFINITION" desc nm (sepNames impl) ds fs e
  | .union desc nm ds ms, e => UnionLike "UNION_TYPE_DEFINITION" desc nm ds (sepNames ms) e
  | .enum desc nm ds vs, e => EnumLike "ENUM_TYPE_DEFINITION" desc nm ds vs e
  | .input desc nm ds fs, e => InputLike "INPUT_OBJECT_TYPE_DEFINITION" desc nm ds fs e
  | .scalarExt nm ds, e => ScalarLike "SCALAR_TYPE_EXTENSION" none nm ds e
  | .objectExt nm impl ds fs, e => ObjLike "OBJECT_TYPE_EXTENSION" none nm (sepNames impl) ds fs e
  | .interfaceExt nm impl ds fs, e => ObjLike "INTERFACE_TYPE_EXTENSION" none nm (sepNames impl) ds fs e
  | .unionExt nm ds ms, e => UnionLike "UNION_TYPE_EXTENSION" none nm ds (sepNames ms) e
  | .enumExt nm ds vs, e => EnumLike "ENUM_TYPE_EXTENSION" none nm ds vs e
  | .inputExt nm ds fs, e => InputLike "INPUT_OBJECT_TYPE_EXTENSION" none nm ds fs e
  | .directive .., _ => False
  | .schema .., _ => False
  | .schemaExt .., _ => False

theorem kind_of_node (K : SK) (cs : List Elem) (s : Nat) (hp : ∀ x ∈ nameRanges (.node K cs) s, x ∈ R) :
    PE.kind (⟨(.node K cs, s), hp⟩ : PE R) = K := rfl

/-- **conversion of named type-system definitions and extensions** -/
theorem cDefinition_named (n : Nat) (l : LooseDef) (e : Elem) (h : NamedDefTree l e) (hs : size e ≤ n + 1) :
    ConvE (fun R => @cDefinition R n) (looseConv l) e := by
  intro R s hp
  cases l <;> simp only [NamedDefTree] at h
  case scalar desc nm ds =>
    obtain ⟨h1, h2, h3⟩ := scalarLike_conv n _ desc nm ds e h hs
    obtain ⟨cs, _, _, rfl, _⟩ := h
    obtain ⟨l1, e1⟩ := h1 R s hp; obtain ⟨l2, e2⟩ := h2 R s hp; obtain ⟨l3, e3⟩ := h3 R s hp
    exact ⟨_, by show cDefinition n _ = _; rw [cDef_scalarDef n _ rfl]; exact bind_ok e1 (bind_ok e2 (bind_ok e3 (pure_ok _)))⟩
  case scalarExt nm ds =>
    obtain ⟨h1, h2, h3⟩ := scalarLike_conv n _ none nm ds e h hs
    obtain ⟨cs, _, _, rfl, _⟩ := h
    obtain ⟨l2, e2⟩ := h2 R s hp; obtain ⟨l3, e3⟩ := h3 R s hp
    exact ⟨_, by show cDefinition n _ = _; rw [cDef_scalarExt n _ rfl]; exact bind_ok e2 (bind_ok e3 (pure_ok _))⟩
  case object desc nm impl ds fs =>
    obtain ⟨h1, h2, h3, h4, h5⟩ := objLike_conv n _ desc nm _ ds fs e h hs
    obtain ⟨cs, _, _, _, _, rfl, _⟩ := h
    obtain ⟨l1, e1⟩ := h1 R s hp; obtain ⟨l2, e2⟩ := h2 R s hp; obtain ⟨l3, e3⟩ := h3 R s hp
    obtain ⟨l4, e4⟩ := h4 R s hp; obtain ⟨l5, e5⟩ := h5 R s hp
    exact ⟨_, by show cDefinition n _ = _; rw [cDef_objectDef n _ rfl]; exact bind_ok e1 (bind_ok e2 (bind_ok e3 (bind_ok e4 (bind_ok e5 (pure_ok _)))))⟩
  case interface desc nm impl ds fs =>
    obtain ⟨h1, h2, h3, h4, h5⟩ := objLike_conv n _ desc nm _ ds fs e h hs
    obtain ⟨cs, _, _, _, _, rfl, _⟩ := h
    obtain ⟨l1, e1⟩ := h1 R s hp; obtain ⟨l2, e2⟩ := h2 R s hp; obtain ⟨l3, e3⟩ := h3 R s hp
    obtain ⟨l4, e4⟩ := h4 R s hp; obtain ⟨l5, e5⟩ := h5 R s hp
    exact ⟨_, by show cDefinition n _ = _; rw [cDef_interfaceDef n _ rfl]; exact bind_ok e1 (bind_ok e2 (bind_ok e3 (bind_ok e4 (bind_ok e5 (pure_ok _)))))⟩
  case objectExt nm impl ds fs =>
    obtain ⟨h1, h2, h3, h4, h5⟩ := objLike_conv n _ none nm _ ds fs e h hs
    obtain ⟨cs, _, _, _, _, rfl, _⟩ := h
    obtain ⟨l2, e2⟩ := h2 R s hp; obtain ⟨l3, e3⟩ := h3 R s hp
    obtain ⟨l4, e4⟩ := h4 R s hp; obtain ⟨l5, e5⟩ := h5 R s hp
    exact ⟨_, by show cDefinition n _ = _; rw [cDef_objectExt n _ rfl]; exact bind_ok e2 (bind_ok e3 (bind_ok e4 (bind_ok e5 (pure_ok _))))⟩
  case interfaceExt nm impl ds fs =>
    obtain ⟨h1, h2, h3, h4, h5⟩ := objLike_conv n _ none nm _ ds fs e h hs
    obtain ⟨cs, _, _, _, _, rfl, _⟩ := h
    obtain ⟨l2, e2⟩ := h2 R s hp; obtain ⟨l3, e3⟩ := h3 R s hp
    obtain ⟨l4, e4⟩ := h4 R s hp; obtain ⟨l5, e5⟩ := h5 R s hp
    exact ⟨_, by show cDefinition n _ = _; rw [cDef_interfaceExt n _ rfl]; exact bind_ok e2 (bind_ok e3 (bind_ok e4 (bind_ok e5 (pure_ok _))))⟩
  case union desc nm ds ms =>
    obtain ⟨h1, h2, h3, h4⟩ := unionLike_conv n _ desc nm ds _ e h hs
    obtain ⟨cs, _, _, _, rfl, _⟩ := h
    obtain ⟨l1, e1⟩ := h1 R s hp; obtain ⟨l2, e2⟩ := h2 R s hp; obtain ⟨l3, e3⟩ := h3 R s hp; obtain ⟨l4, e4⟩ := h4 R s hp
    exact ⟨_, by show cDefinition n _ = _; rw [cDef_unionDef n _ rfl]; exact bind_ok e1 (bind_ok e2 (bind_ok e3 (bind_ok e4 (pure_ok _))))⟩
  case unionExt nm ds ms =>
    obtain ⟨h1, h2, h3, h4⟩ := unionLike_conv n _ none nm ds _ e h hs
    obtain ⟨cs, _, _, _, rfl, _⟩ := h
    obtain ⟨l2, e2⟩ := h2 R s hp; obtain ⟨l3, e3⟩ := h3 R s hp; obtain ⟨l4, e4⟩ := h4 R s hp
    exact ⟨_, by show cDefinition n _ = _; rw [cDef_unionExt n _ rfl]; exact bind_ok e2 (bind_ok e3 (bind_ok e4 (pure_ok _)))⟩
  case enum desc nm ds vs =>
    obtain ⟨h1, h2, h3, h4⟩ := enumLike_conv n _ desc nm ds vs e h hs
    obtain ⟨cs, _, _, _, rfl, _⟩ := h
    obtain ⟨l1, e1⟩ := h1 R s hp; obtain ⟨l2, e2⟩ := h2 R s hp; obtain ⟨l3, e3⟩ := h3 R s hp; obtain ⟨l4, e4⟩ := h4 R s hp
    exact ⟨_, by show cDefinition n _ = _; rw [cDef_enumDef n _ rfl]; exact bind_ok e1 (bind_ok e2 (bind_ok e3 (bind_ok e4 (pure_ok _))))⟩
  case enumExt nm ds vs =>
    obtain ⟨h1, h2, h3, h4⟩ := enumLike_conv n _ none nm ds vs e h hs
    obtain ⟨cs, _, _, _, rfl, _⟩ := h
    obtain ⟨l2, e2⟩ := h2 R s hp; obtain ⟨l3, e3⟩ := h3 R s hp; obtain ⟨l4, e4⟩ := h4 R s hp
    exact ⟨_, by show cDefinition n _ = _; rw [cDef_enumExt n _ rfl]; exact bind_ok e2 (bind_ok e3 (bind_ok e4 (pure_ok _)))⟩
  case input desc nm ds fs =>
    obtain ⟨h1, h2, h3, h4⟩ := inputLike_conv n _ desc nm ds fs e h hs
    obtain ⟨cs, _, _, _, rfl, _⟩ := h
    obtain ⟨l1, e1⟩ := h1 R s hp; obtain ⟨l2, e2⟩ := h2 R s hp; obtain ⟨l3, e3⟩ := h3 R s hp; obtain ⟨l4, e4⟩ := h4 R s hp
    exact ⟨_, by show cDefinition n _ = _; rw [cDef_inputDef n _ rfl]; exact bind_ok e1 (bind_ok e2 (bind_ok e3 (bind_ok e4 (pure_ok _))))⟩
  case inputExt nm ds fs =>
    obtain ⟨h1, h2, h3, h4⟩ := inputLike_conv n _ none nm ds fs e h hs
    obtain ⟨cs, _, _, _, rfl, _⟩ := h
    obtain ⟨l2, e2⟩ := h2 R s hp; obtain ⟨l3, e3⟩ := h3 R s hp; obtain ⟨l4, e4⟩ := h4 R s hp
    exact ⟨_, by show cDefinition n _ = _; rw [cDef_inputExt n _ rfl]; exact bind_ok e2 (bind_ok e3 (bind_ok e4 (pure_ok _)))⟩

end Apollo.FromCst
