import ApolloModel.Proofs.SmithResponse4
/-
Fuel sufficiency of `collect_fields` for acyclic fragment tables, and the assembled comparison with the
specification's CollectFields.
-/
namespace Apollo.Smith

mutual
/-- number of list cells `collect_fields` walks at this level (field sub-selections belong to the next level) -/
def Sel.sz : Sel → Nat
  | .field _ _ _ _ _ => 0
  | .spread _ => 0
  | .inline _ sub => sub.sz
def Sels.sz : Sels → Nat
  | .nil => 1
  | .cons s tl => 1 + s.sz + tl.sz
end

theorem le_foldl_max (l : List Nat) : ∀ (a : Nat), a ≤ l.foldl max a ∧ ∀ x ∈ l, x ≤ l.foldl max a := by
  induction l with
  | nil => intro a; simp
  | cons y l ih =>
    intro a
    obtain ⟨h1, h2⟩ := ih (max a y)
    refine ⟨by simp only [List.foldl_cons]; omega, ?_⟩
    intro x hx
    simp only [List.foldl_cons]
    rcases List.mem_cons.mp hx with e | e
    · subst e; omega
    · exact h2 x e

/-- the largest fragment body -/
def maxFragSz (frags : Fragments) : Nat := (frags.map (·.2.2.sz)).foldl max 0

theorem frag_sz_le (frags : Fragments) (n cond : Name) (fsels : Sels) (h : frags.get? n = some (cond, fsels)) :
    fsels.sz ≤ maxFragSz frags := by
  unfold Fragments.get? at h
  cases hf : frags.find? (·.1 == n) with
  | none => rw [hf] at h; cases h
  | some e =>
    rw [hf] at h
    simp only [Option.map_some, Option.some.injEq] at h
    have hm := List.mem_of_find?_eq_some hf
    have : e.2.2.sz ∈ frags.map (·.2.2.sz) := List.mem_map.mpr ⟨e, hm, rfl⟩
    have := (le_foldl_max (frags.map (·.2.2.sz)) 0).2 _ this
    rw [h] at this
    exact this

/-- one more than the largest rank of a fragment spread at this level -/
def rankBound (rank : Name → Nat) (sels : Sels) : Nat := (sels.spreads.map rank).foldl max 0 + 1

theorem rank_lt_bound (rank : Name → Nat) (sels : Sels) : ∀ m ∈ sels.spreads, rank m < rankBound rank sels := by
  intro m hm
  have := (le_foldl_max (sels.spreads.map rank) 0).2 (rank m) (List.mem_map.mpr ⟨m, hm, rfl⟩)
  unfold rankBound; omega

/-- the fuel that always suffices for an acyclic fragment table -/
def collectFuel (frags : Fragments) (rank : Name → Nat) (sels : Sels) : Nat :=
  sels.sz + rankBound rank sels * maxFragSz frags

theorem modelFlat_total (s : Schema) (frags : Fragments) (c : Name) (rank : Name → Nat) (hac : Acyclic frags rank) :
    ∀ (B n : Nat) (sels : Sels) (f : Nat), sels.sz ≤ n → (∀ m ∈ sels.spreads, rank m < B) →
      sels.sz + B * maxFragSz frags ≤ f → ∃ l, modelFlat s frags c f sels = some l := by
  intro B
  induction B using Nat.strongRecOn with
  | _ B ihB =>
    intro n
    induction n with
    | zero =>
      intro sels f hn _ _
      cases sels <;> simp [Sels.sz] at hn
    | succ n ihn =>
      intro sels f hn hB hf
      cases sels with
      | nil =>
        cases f with
        | zero => simp [Sels.sz] at hf
        | succ f => exact ⟨[], by simp [modelFlat]⟩
      | cons sel tl =>
        simp only [Sels.sz] at hn hf
        cases f with
        | zero => omega
        | succ f =>
          rw [modelFlat_cons]
          have hBtl : ∀ m ∈ tl.spreads, rank m < B := fun m hm' => hB m (by simp [Sels.spreads, hm'])
          obtain ⟨ltl, htl⟩ := ihn tl f (by omega) hBtl (by omega)
          rw [htl]
          cases sel with
          | field alias name ty subTy sub => exact ⟨_, rfl⟩
          | spread name =>
            simp only
            cases hfr : frags.get? name with
            | none => exact ⟨_, rfl⟩
            | some p =>
              obtain ⟨cond, fsels⟩ := p
              simp only
              split
              · have hrk : rank name < B := hB name (by simp [Sels.spreads, Sel.spreads])
                have hsz := frag_sz_le frags name cond fsels hfr
                have hmul : (rank name + 1) * maxFragSz frags ≤ B * maxFragSz frags := Nat.mul_le_mul_right _ hrk
                rw [Nat.succ_mul] at hmul
                obtain ⟨lf, hlf⟩ := ihB (rank name) hrk fsels.sz fsels f (Nat.le_refl _) (hac name cond fsels hfr) (by omega)
                rw [hlf]; exact ⟨_, rfl⟩
              · exact ⟨_, rfl⟩
          | inline tc sub =>
            have hBsub : ∀ m ∈ sub.spreads, rank m < B := fun m hm' => hB m (by simp [Sels.spreads, Sel.spreads, hm'])
            simp only [Sel.sz] at hn hf
            obtain ⟨lsub, hsub⟩ := ihn sub f (by omega) hBsub (by omega)
            cases tc with
            | none => simp only [if_true]; rw [hsub]; exact ⟨_, rfl⟩
            | some c1 =>
              simp only
              split
              · rw [hsub]; exact ⟨_, rfl⟩
              · exact ⟨_, rfl⟩

/-- with `collectFuel` (or more) `collect_fields` returns a grouped field set -/
theorem collectFields_total (s : Schema) (frags : Fragments) (c : Name) (rank : Name → Nat) (hac : Acyclic frags rank)
    (sels : Sels) (f : Nat) (hf : collectFuel frags rank sels ≤ f) : ∃ g, collectFields s frags c f sels = some g := by
  obtain ⟨l, hl⟩ := modelFlat_total s frags c rank hac (rankBound rank sels) sels.sz sels f (Nat.le_refl _)
    (rank_lt_bound rank sels) hf
  have := collectFields_agree s frags c f sels
  rw [hl] at this
  cases hc : collectFields s frags c f sels with
  | none => rw [hc] at this; exact absurd this (by simp [Agree])
  | some g => exact ⟨g, rfl⟩

/-- **the comparison**: same response keys in the same order; per key, the specification's list is the
    builder's list without repeats of fields that were already collected -/
theorem collect_vs_spec (s : Schema) (hnd : (s.map (·.1)).Nodup) (frags : Fragments) (rank : Name → Nat)
    (hac : Acyclic frags rank) (concrete : Name) (impls : List Name) (hc : s.get? concrete = some (.object impls))
    (sels : Sels) (fm fs : Nat) (g gs : Grouped) (v : List Name)
    (hm : collectFields s frags concrete fm sels = some g)
    (hs : specCollectFields s frags concrete fs [] [] sels = some (gs, v)) :
    g.keys = gs.keys ∧ ∀ k, Redundant [] (g.get k) (gs.get k) := by
  have a1 := collectFields_agree s frags concrete fm sels
  have a2 := specCollect_agree s frags concrete fs [] [] sels List.nodup_nil
  rw [hm] at a1
  rw [hs] at a2
  cases hlm : modelFlat s frags concrete fm sels with
  | none => rw [hlm] at a1; exact absurd a1 (by simp [Agree])
  | some lm =>
    cases hls : specFlat s frags concrete fs [] sels with
    | none => rw [hls] at a2; exact absurd a2 (by simp [SAgree])
    | some r =>
      obtain ⟨ls, v'⟩ := r
      rw [hlm] at a1
      rw [hls] at a2
      obtain ⟨_, k1, g1⟩ := a1
      obtain ⟨_, _, k2, g2⟩ := a2
      have hmatch : ∀ cond, typeConditionMatches s cond concrete = doesFragmentTypeApply s concrete cond :=
        fun cond => typeConditionMatches_eq_apply s hnd cond concrete impls hc
      obtain ⟨hr, _⟩ := flat_related s frags concrete rank hac hmatch fs (rankBound rank sels) [] [] sels fm ls v' lm
        (rank_lt_bound rank sels) (fun n hn => by cases hn) hls hlm
      constructor
      · rw [k1, k2]
        exact redundant_keys hr [] (fun x hx => by cases hx)
      · intro k
        rw [g1 k, g2 k, get_nil, List.nil_append]
        have := (hr.filter (fun e => e.1 == k)).map (·.2)
        simpa [flatGet] using this

end Apollo.Smith
