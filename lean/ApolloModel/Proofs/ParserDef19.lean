import ApolloModel.Proofs.ParserDef18
import ApolloModel.Proofs.ParserType9
import ApolloModel.Proofs.Lexer3
/-
C05 growth (type-system definitions), part 19: the lexer fact `LexQ` holds for the parser's token queue of
every source text — it is a theorem about the lexer model, not an assumption.
-/
set_option linter.unusedSimpArgs false
namespace Apollo.Parse
open Apollo.Rowan hiding Str
open Apollo.Lex hiding Str

theorem lexAux_nameStart : ∀ (fuel count : Nat) (src : Str), ∀ it ∈ lexAux fuel none count src,
    ∀ (k : Kind) (d : Str), it = .tok k d → ∀ c r, d = c :: r → isNameStart c = true → k = .name
  | 0, _, _ => by intro it hit; simp [lexAux] at hit
  | fuel + 1, count, [] => by
    intro it hit k d e c r hd _
    simp [lexAux] at hit
    rw [hit] at e
    injection e with _ e2
    rw [← e2] at hd
    cases hd
  | fuel + 1, count, c0 :: rest0 => by
    intro it hit k d e c r hd hc
    simp only [lexAux, Bool.false_eq_true, if_false, List.mem_cons] at hit
    rcases hit with hit | hit
    · have hcat := advance_concat (c0 :: rest0)
      rw [← hit, e] at hcat
      simp only [Item.data] at hcat
      rw [hd] at hcat
      simp only [List.cons_append, List.cons.injEq] at hcat
      have hc0 : c = c0 := hcat.1
      subst hc0
      rw [lex_name c rest0 hc] at hit
      rw [e] at hit
      injection hit with hk _
    · exact lexAux_nameStart fuel (count + 1) _ it hit k d e c r hd hc

/-- the parser's token queue of any source text satisfies the lexer fact -/
theorem lexQ_srcToks (src : Str) : LexQ (srcToks src) := by
  intro t ht c r hd hc
  have hm : (t.kind, t.data) ∈ lexToks src := by
    rw [← srcToks_lex src]
    exact List.mem_map.mpr ⟨t, ht, rfl⟩
  unfold lexToks at hm
  obtain ⟨it, hit, hkd⟩ := List.mem_filterMap.mp hm
  cases it with
  | tok k d =>
    simp only [itemKD, Option.some.injEq, Prod.mk.injEq] at hkd
    have := lexAux_nameStart _ _ _ (.tok k d) hit k d rfl c r (by rw [hkd.2]; exact hd) hc
    rw [← hkd.1]; exact this
  | err _ => simp [itemKD] at hkd
  | limit => simp [itemKD] at hkd

/-- in particular the queue the parser starts with -/
theorem lexQ_initState (src : Str) (rl : Nat) : LexQ (Toks (initState src none rl)) := lexQ_srcToks src

end Apollo.Parse
