import ApolloModel.Proofs.Lexer3
import ApolloModel.Spec.Lexical
/-
Numbers: the DFA of `Cursor::advance` (states LeadingZero … ExponentDigit, MinusSign) against the
October-2021 grammar of IntValue / FloatValue with their lookahead restrictions (Spec/Lexical.lean).
-/
set_option linter.unusedSimpArgs false
namespace Apollo.Lex
open Apollo.Spec.Lexical (IsIntegerPart IsFractionalPart IsExponentPart IsIntValue IsFloatValue
  NumberLookaheadOk IsNegativeSignOpt)

theorem char_eq_iff (c d : Char) : c = d ↔ c.toNat = d.toNat :=
  ⟨fun h => h ▸ rfl, fun h => by rw [← Char.ofNat_toNat c, ← Char.ofNat_toNat d, h]⟩

theorem char_beq (c d : Char) : (c == d) = (c.toNat == d.toNat) := by
  rw [Bool.eq_iff_iff]
  simp only [beq_iff_eq]
  exact char_eq_iff c d

theorem char_le_iff (a b : Char) : a ≤ b ↔ a.toNat ≤ b.toNat := Iff.rfl

theorem punct_none_of (c : Char) (h : c.toNat ≠ 123 ∧ c.toNat ≠ 125 ∧ c.toNat ≠ 33 ∧ c.toNat ≠ 36 ∧ c.toNat ≠ 38 ∧
    c.toNat ≠ 40 ∧ c.toNat ≠ 41 ∧ c.toNat ≠ 58 ∧ c.toNat ≠ 44 ∧ c.toNat ≠ 91 ∧ c.toNat ≠ 93 ∧ c.toNat ≠ 61 ∧
    c.toNat ≠ 64 ∧ c.toNat ≠ 124) : punctuationKind c = none := by
  unfold punctuationKind
  split <;> first | rfl | omega

/-! ### character classes as ranges of code points -/
def D (c : Char) : Prop := 48 ≤ c.toNat ∧ c.toNat ≤ 57
def NS (c : Char) : Prop := (65 ≤ c.toNat ∧ c.toNat ≤ 90) ∨ c.toNat = 95 ∨ (97 ≤ c.toNat ∧ c.toNat ≤ 122)
def Ex (c : Char) : Prop := c.toNat = 101 ∨ c.toNat = 69

theorem specDigit_iff (c : Char) : Spec.Lexical.isDigit c = true ↔ D c := by
  simp only [Spec.Lexical.isDigit, Bool.and_eq_true, decide_eq_true_eq, char_le_iff, D]
  exact Iff.rfl
theorem specDigit_false_iff (c : Char) : Spec.Lexical.isDigit c = false ↔ ¬ D c := by
  rw [← specDigit_iff]; simp
theorem specNonZero_iff (c : Char) : Spec.Lexical.isNonZeroDigit c = true ↔ (49 ≤ c.toNat ∧ c.toNat ≤ 57) := by
  simp only [Spec.Lexical.isNonZeroDigit, Bool.and_eq_true, decide_eq_true_eq, char_le_iff]
  exact Iff.rfl
theorem specNameStart_iff (c : Char) : Spec.Lexical.isNameStart c = true ↔ NS c := by
  simp only [Spec.Lexical.isNameStart, Spec.Lexical.isLetter, Bool.or_eq_true, Bool.and_eq_true,
    decide_eq_true_eq, char_le_iff, beq_iff_eq, char_eq_iff c '_', NS]
  show ((65 ≤ c.toNat ∧ c.toNat ≤ 90) ∨ (97 ≤ c.toNat ∧ c.toNat ≤ 122)) ∨ c.toNat = 95 ↔ _
  omega
theorem specNameStart_false_iff (c : Char) : Spec.Lexical.isNameStart c = false ↔ ¬ NS c := by
  rw [← specNameStart_iff]; simp
theorem lexDigit_iff (c : Char) : isAsciiDigit c = true ↔ D c := by
  simp [isAsciiDigit, D]
theorem lexNameStart_iff (c : Char) : isNameStart c = true ↔ NS c := by
  simp only [isNameStart, Bool.or_eq_true, Bool.and_eq_true, decide_eq_true_eq, beq_iff_eq, NS]
  omega

/-- the lexer's and the grammar's character classes coincide -/
theorem classes_agree (c : Char) :
    isAsciiDigit c = Spec.Lexical.isDigit c ∧ isNameStart c = Spec.Lexical.isNameStart c := by
  constructor
  · rw [Bool.eq_iff_iff, lexDigit_iff, specDigit_iff]
  · rw [Bool.eq_iff_iff, lexNameStart_iff, specNameStart_iff]

/-! ### one step in each number state, by character class (no pending error) -/

theorem step_leadingZero (k : Kind) (acc : Str) (c : Char) :
    (c.toNat = 46 ∧ step .leadingZero k false acc c = .goto .decimalPoint .float false) ∨
    (Ex c ∧ step .leadingZero k false acc c = .goto .exponentIndicator .float false) ∨
    ((D c ∨ NS c) ∧ ¬ Ex c ∧ step .leadingZero k false acc c = .incl .err) ∨
    (¬ D c ∧ c.toNat ≠ 46 ∧ ¬ NS c ∧ step .leadingZero k false acc c = .excl (.tok k)) := by
  simp only [step, done, isAsciiDigit, isNameStart, char_beq, Char.reduceToNat, D, NS, Ex, beq_iff_eq,
    Bool.or_eq_true, Bool.and_eq_true, decide_eq_true_eq, Bool.false_eq_true, if_false]
  repeat' split
  all_goals (simp; omega)

theorem step_integerPart (k : Kind) (acc : Str) (c : Char) :
    (D c ∧ step .integerPart k false acc c = .goto .integerPart k false) ∨
    (c.toNat = 46 ∧ step .integerPart k false acc c = .goto .decimalPoint .float false) ∨
    (Ex c ∧ step .integerPart k false acc c = .goto .exponentIndicator .float false) ∨
    (NS c ∧ ¬ Ex c ∧ step .integerPart k false acc c = .incl .err) ∨
    (¬ D c ∧ c.toNat ≠ 46 ∧ ¬ NS c ∧ step .integerPart k false acc c = .excl (.tok k)) := by
  simp only [step, done, isAsciiDigit, isNameStart, char_beq, Char.reduceToNat, D, NS, Ex, beq_iff_eq,
    Bool.or_eq_true, Bool.and_eq_true, decide_eq_true_eq, Bool.false_eq_true, if_false]
  repeat' split
  all_goals (simp; omega)

theorem step_decimalPoint (k : Kind) (acc : Str) (c : Char) :
    (D c ∧ step .decimalPoint k false acc c = .goto .fractionalPart k false) ∨
    (¬ D c ∧ step .decimalPoint k false acc c = .incl .err) := by
  simp only [step, done, isAsciiDigit, isNameStart, char_beq, Char.reduceToNat, D, NS, Ex, beq_iff_eq,
    Bool.or_eq_true, Bool.and_eq_true, decide_eq_true_eq, Bool.false_eq_true, if_false]
  repeat' split
  all_goals (simp; omega)

theorem step_fractionalPart (k : Kind) (acc : Str) (c : Char) :
    (D c ∧ step .fractionalPart k false acc c = .goto .fractionalPart k false) ∨
    (Ex c ∧ step .fractionalPart k false acc c = .goto .exponentIndicator k false) ∨
    ((c.toNat = 46 ∨ NS c) ∧ ¬ Ex c ∧ step .fractionalPart k false acc c = .incl .err) ∨
    (¬ D c ∧ c.toNat ≠ 46 ∧ ¬ NS c ∧ step .fractionalPart k false acc c = .excl (.tok k)) := by
  simp only [step, done, isAsciiDigit, isNameStart, char_beq, Char.reduceToNat, D, NS, Ex, beq_iff_eq,
    Bool.or_eq_true, Bool.and_eq_true, decide_eq_true_eq, Bool.false_eq_true, if_false]
  repeat' split
  all_goals (simp; omega)

theorem step_exponentIndicator (k : Kind) (acc : Str) (c : Char) :
    (D c ∧ step .exponentIndicator k false acc c = .goto .exponentDigit k false) ∨
    ((c.toNat = 43 ∨ c.toNat = 45) ∧ step .exponentIndicator k false acc c = .goto .exponentSign k false) ∨
    (¬ D c ∧ c.toNat ≠ 43 ∧ c.toNat ≠ 45 ∧ step .exponentIndicator k false acc c = .incl .err) := by
  simp only [step, done, isAsciiDigit, isNameStart, char_beq, Char.reduceToNat, D, NS, Ex, beq_iff_eq,
    Bool.or_eq_true, Bool.and_eq_true, decide_eq_true_eq, Bool.false_eq_true, if_false]
  repeat' split
  all_goals (simp; omega)

theorem step_exponentSign (k : Kind) (acc : Str) (c : Char) :
    (D c ∧ step .exponentSign k false acc c = .goto .exponentDigit k false) ∨
    (¬ D c ∧ step .exponentSign k false acc c = .incl .err) := by
  simp only [step, done, isAsciiDigit, isNameStart, char_beq, Char.reduceToNat, D, NS, Ex, beq_iff_eq,
    Bool.or_eq_true, Bool.and_eq_true, decide_eq_true_eq, Bool.false_eq_true, if_false]
  repeat' split
  all_goals (simp; omega)

theorem step_exponentDigit (k : Kind) (acc : Str) (c : Char) :
    (D c ∧ step .exponentDigit k false acc c = .goto .exponentDigit k false) ∨
    ((c.toNat = 46 ∨ NS c) ∧ step .exponentDigit k false acc c = .incl .err) ∨
    (¬ D c ∧ c.toNat ≠ 46 ∧ ¬ NS c ∧ step .exponentDigit k false acc c = .excl (.tok k)) := by
  simp only [step, done, isAsciiDigit, isNameStart, char_beq, Char.reduceToNat, D, NS, Ex, beq_iff_eq,
    Bool.or_eq_true, Bool.and_eq_true, decide_eq_true_eq, Bool.false_eq_true, if_false]
  repeat' split
  all_goals (simp; omega)

theorem step_minusSign (k : Kind) (acc : Str) (c : Char) :
    (c.toNat = 48 ∧ step .minusSign k false acc c = .goto .leadingZero k false) ∨
    (49 ≤ c.toNat ∧ c.toNat ≤ 57 ∧ step .minusSign k false acc c = .goto .integerPart k false) ∨
    (¬ D c ∧ step .minusSign k false acc c = .incl .err) := by
  simp only [step, done, isAsciiDigit, isNameStart, char_beq, Char.reduceToNat, D, NS, Ex, beq_iff_eq,
    Bool.or_eq_true, Bool.and_eq_true, decide_eq_true_eq, Bool.false_eq_true, if_false]
  repeat' split
  all_goals (simp; omega)

/-- the first character of a number -/
theorem step_start_number (c : Char) :
    (c.toNat = 48 → step .start .eof false [] c = .goto .leadingZero .int false) ∧
    (49 ≤ c.toNat ∧ c.toNat ≤ 57 → step .start .eof false [] c = .goto .integerPart .int false) ∧
    (c.toNat = 45 → step .start .eof false [] c = .goto .minusSign .int false) := by
  refine ⟨?_, ?_, ?_⟩ <;> intro h <;>
  · have hp : punctuationKind c = none := punct_none_of c (by omega)
    simp only [step, hp, isAsciiDigit, isNameStart, isWhitespaceAssimilated, char_beq, Char.reduceToNat, bne,
      beq_iff_eq, Bool.or_eq_true, Bool.and_eq_true, decide_eq_true_eq, Bool.not_eq_true', Bool.false_eq_true, if_false]
    repeat' split
    all_goals first | rfl | omega | (simp at *; omega)

/-! ### soundness: whatever the number states emit is a spec IntValue / FloatValue -/

/-- IntegerPart optionally followed by FractionalPart -/
def IsMantissa (m : Str) : Prop := ∃ i f, m = i ++ f ∧ IsIntegerPart i ∧ (f = [] ∨ IsFractionalPart f)

def AllD (ds : Str) : Prop := ds.all Spec.Lexical.isDigit = true

/-- what has been consumed so far in each number state -/
inductive NumInv : State → Kind → Str → Prop where
  | minus : NumInv .minusSign .int ['-']
  | zero {neg : Str} : IsNegativeSignOpt neg → NumInv .leadingZero .int (neg ++ ['0'])
  | intPart {neg : Str} {d : Char} {ds : Str} : IsNegativeSignOpt neg → Spec.Lexical.isNonZeroDigit d = true →
      AllD ds → NumInv .integerPart .int (neg ++ d :: ds)
  | point {i : Str} : IsIntegerPart i → NumInv .decimalPoint .float (i ++ ['.'])
  | frac {i ds : Str} : IsIntegerPart i → ds ≠ [] → AllD ds → NumInv .fractionalPart .float (i ++ '.' :: ds)
  | expInd {m : Str} {c : Char} : IsMantissa m → Ex c → NumInv .exponentIndicator .float (m ++ [c])
  | expSign {m : Str} {c s : Char} : IsMantissa m → Ex c → (s.toNat = 43 ∨ s.toNat = 45) →
      NumInv .exponentSign .float (m ++ [c, s])
  | expDigit {m : Str} {c : Char} {sign ds : Str} : IsMantissa m → Ex c →
      (sign = [] ∨ sign = ['+'] ∨ sign = ['-']) → ds ≠ [] → AllD ds →
      NumInv .exponentDigit .float (m ++ c :: (sign ++ ds))

/-- the token is an IntValue of kind Int or a FloatValue of kind Float -/
def Final (k : Kind) (t : Str) : Prop := (k = .int ∧ IsIntValue t) ∨ (k = .float ∧ IsFloatValue t)

theorem ex_char {c : Char} (h : Ex c) : c = 'e' ∨ c = 'E' := by
  rcases h with h | h
  · left; exact (char_eq_iff c 'e').mpr h
  · right; exact (char_eq_iff c 'E').mpr h

theorem allD_snoc {ds : Str} {c : Char} (h : AllD ds) (hc : D c) : AllD (ds ++ [c]) := by
  simp only [AllD, List.all_append, Bool.and_eq_true] at *
  exact ⟨h, by simp [(specDigit_iff c).mpr hc]⟩

theorem intPart_zero {neg : Str} (h : IsNegativeSignOpt neg) : IsIntegerPart (neg ++ ['0']) :=
  ⟨neg, ['0'], rfl, h, Or.inl rfl⟩
theorem intPart_digits {neg : Str} {d : Char} {ds : Str} (h : IsNegativeSignOpt neg)
    (hd : Spec.Lexical.isNonZeroDigit d = true) (hds : AllD ds) : IsIntegerPart (neg ++ d :: ds) :=
  ⟨neg, d :: ds, rfl, h, Or.inr ⟨d, ds, rfl, hd, hds⟩⟩

theorem float_of_mantissa_exp {m : Str} {c : Char} {sign ds : Str} (hm : IsMantissa m) (hc : Ex c)
    (hs : sign = [] ∨ sign = ['+'] ∨ sign = ['-']) (hne : ds ≠ []) (hds : AllD ds) :
    IsFloatValue (m ++ c :: (sign ++ ds)) := by
  obtain ⟨i, f, rfl, hi, hf⟩ := hm
  have he : IsExponentPart (c :: (sign ++ ds)) := ⟨c, sign, ds, rfl, ex_char hc, hs, hne, hds⟩
  rcases hf with rfl | hf
  · exact ⟨i, [], c :: (sign ++ ds), by simp, hi, Or.inr (Or.inr ⟨rfl, he⟩)⟩
  · exact ⟨i, f, c :: (sign ++ ds), by simp, hi, Or.inl ⟨hf, he⟩⟩

theorem inv_final {st : State} {k : Kind} {acc : Str} (h : NumInv st k acc)
    (hst : st = .leadingZero ∨ st = .integerPart ∨ st = .fractionalPart ∨ st = .exponentDigit) : Final k acc := by
  cases h with
  | minus => simp at hst
  | zero hn => exact Or.inl ⟨rfl, intPart_zero hn⟩
  | intPart hn hd hds => exact Or.inl ⟨rfl, intPart_digits hn hd hds⟩
  | point _ => simp at hst
  | frac hi hne hds =>
    exact Or.inr ⟨rfl, _, _, [], by simp, hi, Or.inr (Or.inl ⟨⟨_, rfl, hne, hds⟩, rfl⟩)⟩
  | expInd _ _ => simp at hst
  | expSign _ _ _ => simp at hst
  | expDigit hm hc hs hne hds => exact Or.inr ⟨rfl, float_of_mantissa_exp hm hc hs hne hds⟩

theorem inv_eof {st : State} {k : Kind} {acc : Str} (h : NumInv st k acc) :
    (eofItem st k acc = .tok k acc ∧ Final k acc) ∨ eofItem st k acc = .err acc := by
  cases h with
  | minus => right; rfl
  | zero hn => left; exact ⟨rfl, inv_final (.zero hn) (by simp)⟩
  | intPart hn hd hds => left; exact ⟨rfl, inv_final (.intPart hn hd hds) (by simp)⟩
  | point _ => right; rfl
  | frac hi hne hds => left; exact ⟨rfl, inv_final (.frac hi hne hds) (by simp)⟩
  | expInd _ _ => right; rfl
  | expSign _ _ _ => right; rfl
  | expDigit hm hc hs hne hds => left; exact ⟨rfl, inv_final (.expDigit hm hc hs hne hds) (by simp)⟩

theorem mantissa_int {i : Str} (h : IsIntegerPart i) : IsMantissa i := ⟨i, [], by simp, h, Or.inl rfl⟩

/-- one step from a number state: stay in the invariant, report an error, or end the token before a
    character the lookahead restriction allows -/
theorem inv_step {st : State} {k : Kind} {acc : Str} (h : NumInv st k acc) (c : Char) :
    (∃ st' k', step st k false acc c = .goto st' k' false ∧ NumInv st' k' (acc ++ [c])) ∨
    step st k false acc c = .incl .err ∨
    (step st k false acc c = .excl (.tok k) ∧ Final k acc ∧ ¬ D c ∧ c.toNat ≠ 46 ∧ ¬ NS c) := by
  cases h with
  | minus =>
    rcases step_minusSign .int ['-'] c with ⟨h0, hs⟩ | ⟨h1, h2, hs⟩ | ⟨_, hs⟩
    · left; refine ⟨_, _, hs, ?_⟩
      have : c = '0' := (char_eq_iff c '0').mpr h0
      subst this; exact NumInv.zero (neg := ['-']) (Or.inr rfl)
    · left; refine ⟨_, _, hs, ?_⟩
      exact NumInv.intPart (neg := ['-']) (ds := []) (Or.inr rfl) ((specNonZero_iff c).mpr ⟨h1, h2⟩) (by simp [AllD])
    · right; left; exact hs
  | zero hn =>
    rename_i neg
    rcases step_leadingZero .int (neg ++ ['0']) c with ⟨h0, hs⟩ | ⟨he, hs⟩ | ⟨_, _, hs⟩ | ⟨h1, h2, h3, hs⟩
    · left; refine ⟨_, _, hs, ?_⟩
      have : c = '.' := (char_eq_iff c '.').mpr h0
      subst this; exact NumInv.point (intPart_zero hn)
    · left; exact ⟨_, _, hs, NumInv.expInd (mantissa_int (intPart_zero hn)) he⟩
    · right; left; exact hs
    · right; right; exact ⟨hs, inv_final (.zero hn) (by simp), h1, h2, h3⟩
  | intPart hn hd hds =>
    rename_i neg d ds
    rcases step_integerPart .int (neg ++ d :: ds) c with ⟨hD, hs⟩ | ⟨h0, hs⟩ | ⟨he, hs⟩ | ⟨_, _, hs⟩ | ⟨h1, h2, h3, hs⟩
    · left; refine ⟨_, _, hs, ?_⟩
      have := NumInv.intPart hn hd (allD_snoc hds hD)
      simpa using this
    · left; refine ⟨_, _, hs, ?_⟩
      have : c = '.' := (char_eq_iff c '.').mpr h0
      subst this; exact NumInv.point (intPart_digits hn hd hds)
    · left; exact ⟨_, _, hs, NumInv.expInd (mantissa_int (intPart_digits hn hd hds)) he⟩
    · right; left; exact hs
    · right; right; exact ⟨hs, inv_final (.intPart hn hd hds) (by simp), h1, h2, h3⟩
  | point hi =>
    rename_i i
    rcases step_decimalPoint .float (i ++ ['.']) c with ⟨hD, hs⟩ | ⟨_, hs⟩
    · left; refine ⟨_, _, hs, ?_⟩
      have := NumInv.frac (ds := [c]) hi (by simp) (by simp [AllD, (specDigit_iff c).mpr hD])
      simpa using this
    · right; left; exact hs
  | frac hi hne hds =>
    rename_i i ds
    rcases step_fractionalPart .float (i ++ '.' :: ds) c with ⟨hD, hs⟩ | ⟨he, hs⟩ | ⟨_, _, hs⟩ | ⟨h1, h2, h3, hs⟩
    · left; refine ⟨_, _, hs, ?_⟩
      have := NumInv.frac hi (by simp : ds ++ [c] ≠ []) (allD_snoc hds hD)
      simpa using this
    · left; refine ⟨_, _, hs, ?_⟩
      exact NumInv.expInd ⟨i, '.' :: ds, rfl, hi, Or.inr ⟨ds, rfl, hne, hds⟩⟩ he
    · right; left; exact hs
    · right; right; exact ⟨hs, inv_final (.frac hi hne hds) (by simp), h1, h2, h3⟩
  | expInd hm he =>
    rename_i m c0
    rcases step_exponentIndicator .float (m ++ [c0]) c with ⟨hD, hs⟩ | ⟨hsg, hs⟩ | ⟨_, _, _, hs⟩
    · left; refine ⟨_, _, hs, ?_⟩
      have := NumInv.expDigit (sign := []) (ds := [c]) hm he (Or.inl rfl) (by simp)
        (by simp [AllD, (specDigit_iff c).mpr hD])
      simpa using this
    · left; refine ⟨_, _, hs, ?_⟩
      have := NumInv.expSign hm he hsg
      simpa using this
    · right; left; exact hs
  | expSign hm he hsg =>
    rename_i m c0 s0
    rcases step_exponentSign .float (m ++ [c0, s0]) c with ⟨hD, hs⟩ | ⟨_, hs⟩
    · left; refine ⟨_, _, hs, ?_⟩
      have hs0 : [s0] = ['+'] ∨ [s0] = ['-'] := by
        rcases hsg with h | h
        · left; rw [(char_eq_iff s0 '+').mpr h]
        · right; rw [(char_eq_iff s0 '-').mpr h]
      have := NumInv.expDigit (sign := [s0]) (ds := [c]) hm he (Or.inr hs0) (by simp)
        (by simp [AllD, (specDigit_iff c).mpr hD])
      simpa using this
    · right; left; exact hs
  | expDigit hm he hsg hne hds =>
    rename_i m c0 sign ds
    rcases step_exponentDigit .float (m ++ c0 :: (sign ++ ds)) c with ⟨hD, hs⟩ | ⟨_, hs⟩ | ⟨h1, h2, h3, hs⟩
    · left; refine ⟨_, _, hs, ?_⟩
      have := NumInv.expDigit hm he hsg (by simp : ds ++ [c] ≠ []) (allD_snoc hds hD)
      simpa using this
    · right; left; exact hs
    · right; right; exact ⟨hs, inv_final (.expDigit hm he hsg hne hds) (by simp), h1, h2, h3⟩

theorem lookahead_of {c : Char} {rest : Str} (h1 : ¬ D c) (h2 : c.toNat ≠ 46) (h3 : ¬ NS c) :
    NumberLookaheadOk (c :: rest) :=
  ⟨(specDigit_false_iff c).mpr h1, fun h => h2 (by rw [h]; rfl), (specNameStart_false_iff c).mpr h3⟩

/-- every token that comes out of a number state is a spec number of the right kind, followed by
    something the lookahead restriction allows -/
theorem num_sound : ∀ (src : Str) (st : State) (k : Kind) (acc : Str), NumInv st k acc →
    ∀ k' t rest, runD st k false acc src = (.tok k' t, rest) → Final k' t ∧ NumberLookaheadOk rest
  | [], st, k, acc, h, k', t, rest, hr => by
    simp only [runD, Prod.mk.injEq] at hr
    rcases inv_eof h with ⟨he, hf⟩ | he
    · rw [he] at hr
      obtain ⟨h1, rfl⟩ := hr
      cases h1
      exact ⟨hf, trivial⟩
    · rw [he] at hr; simp at hr
  | c :: src, st, k, acc, h, k', t, rest, hr => by
    unfold runD at hr
    rcases inv_step h c with ⟨st', k2, hs, hinv⟩ | hs | ⟨hs, hf, h1, h2, h3⟩
    · rw [hs] at hr
      exact num_sound src st' k2 (acc ++ [c]) hinv k' t rest hr
    · rw [hs] at hr; simp [Out.mk] at hr
    · rw [hs] at hr
      simp only [Out.mk, Prod.mk.injEq, Item.tok.injEq] at hr
      obtain ⟨⟨rfl, rfl⟩, rfl⟩ := hr
      exact ⟨hf, lookahead_of h1 h2 h3⟩

/-! ### tokens of kind Int / Float only come out of the number states -/

def isNumState : State → Bool
  | .minusSign | .leadingZero | .integerPart | .decimalPoint | .fractionalPart
  | .exponentIndicator | .exponentSign | .exponentDigit => true
  | _ => false

/-- outside the number states a transition never changes the token kind and never enters a number state -/
def keepsKind (k : Kind) (a : Action) : Prop :=
  match a with
  | .goto st' k' _ => isNumState st' = false ∧ st' ≠ .start ∧ k' = k
  | .incl (.tok k') => k' = k
  | .excl (.tok k') => k' = k
  | _ => True

theorem keepsKind_done_incl (k : Kind) (e : Bool) : keepsKind k (.incl (done k e)) := by
  unfold done; split <;> simp [keepsKind]
theorem keepsKind_done_excl (k : Kind) (e : Bool) : keepsKind k (.excl (done k e)) := by
  unfold done; split <;> simp [keepsKind]
theorem keepsKind_block (k : Kind) (e : Bool) (c : Char) : keepsKind k (blockStep k e c) := by
  unfold blockStep; repeat' split
  all_goals simp [keepsKind, isNumState]

theorem step_keepsKind (st : State) (k : Kind) (e : Bool) (acc : Str) (c : Char)
    (hn : isNumState st = false) (hs : st ≠ .start) : keepsKind k (step st k e acc c) := by
  cases st <;> simp [isNumState] at hn hs
  all_goals
    simp only [step]
    repeat' split
    all_goals first
      | exact keepsKind_done_incl _ _
      | exact keepsKind_done_excl _ _
      | exact keepsKind_block _ _ _
      | simp [keepsKind, isNumState]

theorem runD_keepsKind : ∀ (src : Str) (st : State) (k : Kind) (e : Bool) (acc : Str),
    isNumState st = false → st ≠ .start →
    ∀ k' t rest, runD st k e acc src = (.tok k' t, rest) → k' = k
  | [], st, k, e, acc, hn, hs, k', t, rest, hr => by
    simp only [runD, Prod.mk.injEq] at hr
    cases st <;> simp [eofItem, isNumState] at hr hn hs <;> exact hr.1.1.symm
  | c :: src, st, k, e, acc, hn, hs, k', t, rest, hr => by
    have hk := step_keepsKind st k e acc c hn hs
    unfold runD at hr
    cases hst : step st k e acc c with
    | goto st' k2 e2 =>
      simp only [hst, keepsKind] at hr hk
      obtain ⟨h1, h2, rfl⟩ := hk
      exact runD_keepsKind src st' k2 e2 (acc ++ [c]) h1 h2 k' t rest hr
    | incl o =>
      simp only [hst] at hr hk
      cases o with
      | tok k2 => simp only [keepsKind] at hk; simp only [Out.mk, Prod.mk.injEq, Item.tok.injEq] at hr; rw [← hr.1.1, hk]
      | err => simp [Out.mk] at hr
    | excl o =>
      simp only [hst] at hr hk
      cases o with
      | tok k2 => simp only [keepsKind] at hk; simp only [Out.mk, Prod.mk.injEq, Item.tok.injEq] at hr; rw [← hr.1.1, hk]
      | err => simp [Out.mk] at hr

theorem nonnum_contra {st : State} {k0 k : Kind} {e : Bool} {acc src t rest : Str}
    (hn : isNumState st = false) (hs : st ≠ .start) (hk0 : k0 ≠ .int ∧ k0 ≠ .float)
    (h : runD st k0 e acc src = (.tok k t, rest)) (hk : k = .int ∨ k = .float) : False := by
  have := runD_keepsKind src st k0 e acc hn hs k t rest h
  subst this
  rcases hk with hk | hk
  · exact hk0.1 hk
  · exact hk0.2 hk

theorem punct_not_number (c : Char) (k : Kind) (h : punctuationKind c = some k) : k ≠ .int ∧ k ≠ .float := by
  revert h
  unfold punctuationKind
  split <;> simp <;> (intro h; subst h; simp)

/-- SOUNDNESS for numbers: whenever `advance` emits a token of kind Int (Float), its text is a spec
    IntValue (FloatValue) and what follows satisfies the lookahead restriction. -/
theorem lex_number_sound (src : Str) (k : Kind) (t rest : Str) (h : advance src = (.tok k t, rest))
    (hk : k = .int ∨ k = .float) : Final k t ∧ NumberLookaheadOk rest := by
  cases src with
  | nil => simp [advance, runD, eofItem] at h; rcases hk with hk | hk <;> (rw [hk] at h; simp at h)
  | cons c src =>
    unfold advance runD at h
    cases hst : step .start .eof false [] c with
    | incl o =>
      rw [hst] at h
      cases o with
      | err => simp [Out.mk] at h
      | tok k2 =>
        -- only punctuators end a token at the first character
        simp only [Out.mk, Prod.mk.injEq, Item.tok.injEq] at h
        obtain ⟨⟨rfl, _⟩, _⟩ := h
        cases hp : punctuationKind c with
        | some k3 =>
          simp only [step, hp] at hst
          cases hst
          have := punct_not_number c _ hp
          rcases hk with hk | hk <;> simp [hk] at this
        | none =>
          simp only [step, hp] at hst
          repeat' split at hst
          all_goals simp at hst
    | excl o => exact absurd hst (step_start_not_excl _ _ _ _ _)
    | goto st' k2 e2 =>
      rw [hst] at h
      simp only [List.nil_append] at h
      cases hp : punctuationKind c with
      | some k3 => simp [step, hp] at hst
      | none =>
        simp only [step, hp] at hst
        repeat' split at hst
        all_goals first
          | (simp only [Action.goto.injEq] at hst; obtain ⟨rfl, rfl, rfl⟩ := hst)
          | (exfalso; simp at hst)
        -- ident, stringLiteralStart, comment, spread1, whitespace keep their (non-number) kind
        all_goals first
          | exact (nonnum_contra rfl (by simp) (by simp) h hk).elim
          | skip
        · -- non-zero digit
          rename_i hd
          simp only [bne, Bool.and_eq_true, Bool.not_eq_true', beq_eq_false_iff_ne, ne_eq] at hd
          have hD := (lexDigit_iff c).mp hd.2
          have h0 : c.toNat ≠ 48 := fun e => hd.1 ((char_eq_iff c '0').mpr e)
          have hinv := NumInv.intPart (neg := []) (d := c) (ds := []) (Or.inl rfl)
            ((specNonZero_iff c).mpr (by unfold D at hD; omega)) (by simp [AllD])
          exact num_sound src _ _ _ hinv k t rest h
        · -- minus sign
          rename_i hm
          have : c = '-' := by simpa using hm
          subst this
          exact num_sound src _ _ _ NumInv.minus k t rest h
        · -- zero
          rename_i hz
          have : c = '0' := by simpa using hz
          subst this
          exact num_sound src _ _ _ (NumInv.zero (neg := []) (Or.inl rfl)) k t rest h

/-! ### completeness: every spec number followed by an allowed character is emitted as that token -/

/-- close a goal from contradictory character-class facts -/
macro "cls" : tactic => `(tactic| ((try simp only [D, NS, Ex] at *); omega))


def AllDn (ds : Str) : Prop := ∀ d ∈ ds, D d

theorem allD_iff (ds : Str) : AllD ds ↔ AllDn ds := by
  simp only [AllD, AllDn, List.all_eq_true]
  exact ⟨fun h d hd => (specDigit_iff d).mp (h d hd), fun h d hd => (specDigit_iff d).mpr (h d hd)⟩

/-- the three digit-looping states consume a run of digits -/
theorem digits_loop (st : State) (hst : st = .integerPart ∨ st = .fractionalPart ∨ st = .exponentDigit) (k : Kind) :
    ∀ (ds acc rest : Str), AllDn ds → runD st k false acc (ds ++ rest) = runD st k false (acc ++ ds) rest
  | [], acc, rest, _ => by simp
  | d :: ds, acc, rest, h => by
    have hd : D d := h d (by simp)
    have hstep : step st k false acc d = .goto st k false := by
      rcases hst with rfl | rfl | rfl
      · rcases step_integerPart k acc d with ⟨_, hs⟩ | ⟨h1, _⟩ | ⟨h1, _⟩ | ⟨h1, _, _⟩ | ⟨h1, _⟩
        · exact hs
        all_goals cls
      · rcases step_fractionalPart k acc d with ⟨_, hs⟩ | ⟨h1, _⟩ | ⟨h1, _, _⟩ | ⟨h1, _⟩
        · exact hs
        all_goals cls
      · rcases step_exponentDigit k acc d with ⟨_, hs⟩ | ⟨h1, _⟩ | ⟨h1, _⟩
        · exact hs
        all_goals cls
    simp only [List.cons_append, runD, hstep]
    rw [digits_loop st hst k ds (acc ++ [d]) rest (fun x hx => h x (by simp [hx]))]
    simp

theorem lookahead_classes {c : Char} {rest : Str} (h : NumberLookaheadOk (c :: rest)) :
    ¬ D c ∧ c.toNat ≠ 46 ∧ ¬ NS c := by
  obtain ⟨h1, h2, h3⟩ := h
  exact ⟨(specDigit_false_iff c).mp h1, fun e => h2 ((char_eq_iff c '.').mpr e), (specNameStart_false_iff c).mp h3⟩

/-- in a final number state, an allowed lookahead ends the token -/
theorem number_end (st : State)
    (hst : st = .leadingZero ∨ st = .integerPart ∨ st = .fractionalPart ∨ st = .exponentDigit)
    (k : Kind) (acc rest : Str) (hl : NumberLookaheadOk rest) :
    runD st k false acc rest = (.tok k acc, rest) := by
  cases rest with
  | nil => rcases hst with rfl | rfl | rfl | rfl <;> rfl
  | cons c rest =>
    obtain ⟨h1, h2, h3⟩ := lookahead_classes hl
    have hstep : step st k false acc c = .excl (.tok k) := by
      rcases hst with rfl | rfl | rfl | rfl
      · rcases step_leadingZero k acc c with ⟨h, _⟩ | ⟨h, _⟩ | ⟨h, _, _⟩ | ⟨_, _, _, hs⟩
        · exact absurd h h2
        · cls
        · cls
        · exact hs
      · rcases step_integerPart k acc c with ⟨h, _⟩ | ⟨h, _⟩ | ⟨h, _⟩ | ⟨h, _, _⟩ | ⟨_, _, _, hs⟩
        · exact absurd h h1
        · exact absurd h h2
        · cls
        · exact absurd h h3
        · exact hs
      · rcases step_fractionalPart k acc c with ⟨h, _⟩ | ⟨h, _⟩ | ⟨h, _, _⟩ | ⟨_, _, _, hs⟩
        · exact absurd h h1
        · cls
        · cls
        · exact hs
      · rcases step_exponentDigit k acc c with ⟨h, _⟩ | ⟨h, _⟩ | ⟨_, _, _, hs⟩
        · exact absurd h h1
        · cls
        · exact hs
    simp [runD, hstep, Out.mk]

/-- after an IntegerPart the DFA is in LeadingZero or IntegerPart, kind Int, having consumed it -/
theorem int_prefix {i : Str} (hi : IsIntegerPart i) :
    ∃ st, (st = .leadingZero ∨ st = .integerPart) ∧
      ∀ tail, advance (i ++ tail) = runD st .int false i tail := by
  obtain ⟨neg, ds, rfl, hneg, hds⟩ := hi
  have h48 : ('0' : Char).toNat = 48 := rfl
  have h45 : ('-' : Char).toNat = 45 := rfl
  rcases hds with rfl | ⟨d, more, rfl, hd, hmore⟩
  · refine ⟨.leadingZero, Or.inl rfl, fun tail => ?_⟩
    rcases hneg with rfl | rfl
    · simp [advance, runD, (step_start_number '0').1 h48]
    · have hm : step .minusSign .int false ['-'] '0' = .goto .leadingZero .int false := by
        rcases step_minusSign .int ['-'] '0' with ⟨_, hs⟩ | ⟨h, _⟩ | ⟨h, _⟩
        · exact hs
        · simp at h
        · exact absurd (by unfold D; simp) h
      simp [advance, runD, (step_start_number '-').2.2 h45, hm]
  · refine ⟨.integerPart, Or.inr rfl, fun tail => ?_⟩
    have hd' := (specNonZero_iff d).mp hd
    have hmore' := (allD_iff more).mp hmore
    rcases hneg with rfl | rfl
    · simp only [advance, List.nil_append, List.cons_append, runD, (step_start_number d).2.1 hd']
      rw [digits_loop .integerPart (Or.inl rfl) .int more [d] tail hmore']
      simp
    · have hm : step .minusSign .int false ['-'] d = .goto .integerPart .int false := by
        rcases step_minusSign .int ['-'] d with ⟨h, _⟩ | ⟨_, _, hs⟩ | ⟨h, _⟩
        · omega
        · exact hs
        · exact absurd (by unfold D; omega) h
      simp only [advance, List.cons_append, List.nil_append, runD, (step_start_number '-').2.2 h45, hm]
      rw [digits_loop .integerPart (Or.inl rfl) .int more ['-', d] tail hmore']
      simp

/-- a FractionalPart after the integer part -/
theorem frac_run (st : State) (hst : st = .leadingZero ∨ st = .integerPart) (acc f tail : Str)
    (hf : IsFractionalPart f) :
    runD st .int false acc (f ++ tail) = runD .fractionalPart .float false (acc ++ f) tail := by
  obtain ⟨ds, rfl, hne, hds⟩ := hf
  cases ds with
  | nil => exact absurd rfl hne
  | cons d ds =>
    have hds' := (allD_iff _).mp hds
    have hd : D d := hds' d (by simp)
    have h46 : ('.' : Char).toNat = 46 := rfl
    have h1 : step st .int false acc '.' = .goto .decimalPoint .float false := by
      rcases hst with rfl | rfl
      · rcases step_leadingZero .int acc '.' with ⟨_, hs⟩ | ⟨h, _⟩ | ⟨h, _⟩ | ⟨_, h, _⟩
        · exact hs
        · simp [Ex] at h
        · simp [D, NS] at h
        · exact absurd h46 h
      · rcases step_integerPart .int acc '.' with ⟨h, _⟩ | ⟨_, hs⟩ | ⟨h, _⟩ | ⟨h, _⟩ | ⟨_, h, _⟩
        · simp [D] at h
        · exact hs
        · simp [Ex] at h
        · simp [NS] at h
        · exact absurd h46 h
    have h2 : step .decimalPoint .float false (acc ++ ['.']) d = .goto .fractionalPart .float false := by
      rcases step_decimalPoint .float (acc ++ ['.']) d with ⟨_, hs⟩ | ⟨h, _⟩
      · exact hs
      · exact absurd hd h
    simp only [List.cons_append, runD, h1, h2]
    rw [digits_loop .fractionalPart (Or.inr (Or.inl rfl)) .float ds _ tail (fun x hx => hds' x (by simp [hx]))]
    simp

/-- an ExponentPart after the mantissa -/
theorem exp_run (st : State) (k : Kind)
    (hst : ((st = .leadingZero ∨ st = .integerPart)) ∨ (st = .fractionalPart ∧ k = .float))
    (acc e tail : Str) (he : IsExponentPart e) :
    runD st k false acc (e ++ tail) = runD .exponentDigit .float false (acc ++ e) tail := by
  obtain ⟨c, sign, ds, rfl, hc, hsign, hne, hds⟩ := he
  have hds' := (allD_iff _).mp hds
  have hEx : Ex c := by rcases hc with rfl | rfl <;> simp [Ex]
  have h1 : step st k false acc c = .goto .exponentIndicator .float false := by
    rcases hst with (rfl | rfl) | ⟨rfl, rfl⟩
    · rcases step_leadingZero k acc c with ⟨h, _⟩ | ⟨_, hs⟩ | ⟨_, h, _⟩ | ⟨_, _, h, _⟩
      · cls
      · exact hs
      · exact absurd hEx h
      · cls
    · rcases step_integerPart k acc c with ⟨h, _⟩ | ⟨h, _⟩ | ⟨_, hs⟩ | ⟨_, h, _⟩ | ⟨_, _, h, _⟩
      · cls
      · cls
      · exact hs
      · exact absurd hEx h
      · cls
    · rcases step_fractionalPart .float acc c with ⟨h, _⟩ | ⟨_, hs⟩ | ⟨_, h, _⟩ | ⟨_, _, h, _⟩
      · cls
      · exact hs
      · exact absurd hEx h
      · cls
  cases ds with
  | nil => exact absurd rfl hne
  | cons d ds =>
    have hd : D d := hds' d (by simp)
    have hrest : AllDn ds := fun x hx => hds' x (by simp [hx])
    have hdig : ∀ acc', step .exponentIndicator .float false acc' d = .goto .exponentDigit .float false := by
      intro acc'
      rcases step_exponentIndicator .float acc' d with ⟨_, hs⟩ | ⟨h, _⟩ | ⟨h, _⟩
      · exact hs
      · cls
      · exact absurd hd h
    have hdig2 : ∀ acc', step .exponentSign .float false acc' d = .goto .exponentDigit .float false := by
      intro acc'
      rcases step_exponentSign .float acc' d with ⟨_, hs⟩ | ⟨h, _⟩
      · exact hs
      · exact absurd hd h
    rcases hsign with rfl | rfl | rfl
    · simp only [List.nil_append, List.cons_append, runD, h1, hdig]
      rw [digits_loop .exponentDigit (Or.inr (Or.inr rfl)) .float ds _ tail hrest]
      simp
    · have hs : step .exponentIndicator .float false (acc ++ [c]) '+' = .goto .exponentSign .float false := by
        rcases step_exponentIndicator .float (acc ++ [c]) '+' with ⟨h, _⟩ | ⟨_, hs⟩ | ⟨_, h, _⟩
        · simp [D] at h
        · exact hs
        · simp at h
      simp only [List.cons_append, List.nil_append, runD, h1, hs, hdig2]
      rw [digits_loop .exponentDigit (Or.inr (Or.inr rfl)) .float ds _ tail hrest]
      simp
    · have hs : step .exponentIndicator .float false (acc ++ [c]) '-' = .goto .exponentSign .float false := by
        rcases step_exponentIndicator .float (acc ++ [c]) '-' with ⟨h, _⟩ | ⟨_, hs⟩ | ⟨_, _, h, _⟩
        · simp [D] at h
        · exact hs
        · simp at h
      simp only [List.cons_append, List.nil_append, runD, h1, hs, hdig2]
      rw [digits_loop .exponentDigit (Or.inr (Or.inr rfl)) .float ds _ tail hrest]
      simp

/-- COMPLETENESS, IntValue: a spec IntValue followed by an allowed character (or the end of the
    input) is lexed as exactly that Int token. -/
theorem lex_int_complete (t rest : Str) (ht : IsIntValue t) (hl : NumberLookaheadOk rest) :
    advance (t ++ rest) = (.tok .int t, rest) := by
  obtain ⟨st, hst, hrun⟩ := int_prefix ht
  rw [hrun rest]
  exact number_end st (by rcases hst with h | h <;> simp [h]) .int t rest hl

/-- COMPLETENESS, FloatValue (all three alternatives). -/
theorem lex_float_complete (t rest : Str) (ht : IsFloatValue t) (hl : NumberLookaheadOk rest) :
    advance (t ++ rest) = (.tok .float t, rest) := by
  obtain ⟨i, f, e, rfl, hi, halt⟩ := ht
  obtain ⟨st, hst, hrun⟩ := int_prefix hi
  rcases halt with ⟨hf, he⟩ | ⟨hf, rfl⟩ | ⟨rfl, he⟩
  · have : i ++ f ++ e ++ rest = i ++ (f ++ (e ++ rest)) := by simp
    rw [this, hrun, frac_run st hst i f _ hf,
      exp_run .fractionalPart .float (Or.inr ⟨rfl, rfl⟩) (i ++ f) e rest he]
    exact number_end .exponentDigit (by simp) .float _ rest hl
  · have : i ++ f ++ [] ++ rest = i ++ (f ++ rest) := by simp
    rw [this, hrun, frac_run st hst i f _ hf]
    simpa using number_end .fractionalPart (by simp) .float (i ++ f) rest hl
  · have : i ++ [] ++ e ++ rest = i ++ (e ++ rest) := by simp
    rw [this, hrun, exp_run st .int (Or.inl hst) i e rest he]
    simpa using number_end .exponentDigit (by simp) .float (i ++ e) rest hl

end Apollo.Lex
