import ApolloModel.Proofs.ParserSel8
/-
C05 / C07 growth (executable definitions), part 9: variable definitions, operation and fragment definitions.
-/
set_option linter.unusedSimpArgs false
namespace Apollo.Parse
open Apollo.Rowan hiding Str
open Apollo.Lex hiding Str

theorem dollar_sig : ∀ k : Kind, (k == Kind.dollar) = true → isIgnoredKind k = false := by
  intro k hk; have : k = .dollar := by simpa using hk
  subst this; rfl

theorem variableDefinition_eq (n : Nat) :
    variableDefinition n = withNode "VARIABLE_DEFINITION" (variableNode >>= fun _ => ivdColon n) := rfl

/-- `$ Name : Type DefaultValue? Directives?` -/
theorem acc_variableDefinition (n : Nat) :
    Acc AtEof (KindP (· == .dollar)) (variableDefinition n) (fun _ x => ∃ v : Ast.VarDef, x = Ast.tVarDef v) := by
  rw [variableDefinition_eq]
  refine acc_withNode early_atEof _ (kindP_sig _ dollar_sig) ?_
  have hAfter : Acc AtEof (fun _ => True) (ivdAfterTy n) (fun _ x => ∃ d ds, x = Ast.tDefault d ++ Ast.tDirectives ds) := by
    refine (acc_optKind early_atEof .eq (defaultValue n) (optDirsEnd n) _ _ (acc_defaultValue n) (acc_optDirsEnd n)).mono (fun _ h => h) ?_
    rintro _ x ⟨x1, x2, e, h1, ds, hds⟩
    rcases h1 with ⟨v, hv⟩ | h1
    · exact ⟨some v, ds, by rw [e, hv, hds]⟩
    · exact ⟨none, ds, by rw [e, h1, hds]; rfl⟩
  have hType : Acc AtEof (fun _ => True) (ivdType n) (fun _ x => ∃ t d ds, x = Ast.tTy t ++ Ast.tDefault d ++ Ast.tDirectives ds) := by
    unfold ivdType
    apply acc_peekIf
    · refine (acc_bind early_atEof (acc_ty n) (fun _ => hAfter)).mono (fun _ h => h) ?_
      rintro _ x ⟨_, x1, x2, e, ⟨t, ht⟩, d, ds, hd⟩
      exact ⟨t, d, ds, by rw [e, ht, hd, List.append_assoc]⟩
    · exact acc_err
  have hColon : Acc AtEof (fun _ => True) (ivdColon n)
      (fun _ x => ∃ t d ds, x = .p .colon :: Ast.tTy t ++ Ast.tDefault d ++ Ast.tDirectives ds) := by
    unfold ivdColon
    apply acc_ifKind
    · refine (acc_bind early_atEof acc_colon (fun _ => hType)).mono (fun _ h => h) ?_
      rintro _ x ⟨_, x1, x2, e, h1, t, d, ds, h2⟩
      exact ⟨t, d, ds, by rw [e, h1, h2]; rfl⟩
    · exact acc_err
  have hVar : Acc AtEof (KindP (· == .dollar)) variableNode (fun _ x => ∃ nm, x = [.p .dollar, .name nm]) := by
    unfold variableNode
    refine acc_withNode early_atEof _ (kindP_sig _ dollar_sig) ?_
    have hb := acc_bumpKind (E := AtEof) .dollar "DOLLAR" (.p .dollar) (by intro t ht; simp [astOfV, ht]) rfl (by decide)
    refine (acc_bind early_atEof hb (fun _ => acc_name)).mono (fun _ h => h) ?_
    rintro _ x ⟨_, x1, x2, e, h1, nm, h2⟩
    exact ⟨nm, by rw [e, h1, h2]; rfl⟩
  refine (acc_bind early_atEof hVar (fun _ => hColon)).mono (fun _ h => h) ?_
  rintro _ x ⟨_, x1, x2, e, ⟨nm, h1⟩, t, d, ds, h2⟩
  exact ⟨⟨nm, t, d, ds⟩, by rw [e, h1, h2]; simp [Ast.tVarDef, List.append_assoc]⟩

/-- the tail of `variable_definitions`: more definitions, then `)` -/
def varDefsTail (n : Nat) : PI Unit := peekWhileKind .dollar (variableDefinition n) >>= fun _ => expect .rParen "R_PAREN"

def varDefsBody (n : Nat) : PI Unit :=
  bump "L_PAREN" >>= fun _ => peek >>= fun k =>
    if k == some .dollar then (variableDefinition n >>= fun _ => varDefsTail n) else (err >>= fun _ => varDefsTail n)

theorem variableDefinitions_eq (n : Nat) : variableDefinitions n = withNode "VARIABLE_DEFINITIONS" (varDefsBody n) := rfl

/-- `( VariableDefinition+ )` -/
theorem acc_variableDefinitions (n : Nat) :
    Acc (fun _ => False) (KindP (· == .lParen)) (variableDefinitions n)
      (fun _ x => ∃ vs : List Ast.VarDef, vs ≠ [] ∧ x = Ast.tVarDefs vs) := by
  rw [variableDefinitions_eq]
  refine acc_withNode early_false _ (kindP_sig _ lParen_sig) ?_
  unfold varDefsBody
  have hitem := acc_variableDefinition n
  have gtail : Good (varDefsTail n) :=
    good_bind _ _ (good_peekWhileKind _ _ hitem.1) (fun _ => good_expect _ _)
  have hinner : Acc (fun _ => False) (fun _ => True)
      (peek >>= fun k => if k == some Kind.dollar then (variableDefinition n >>= fun _ => varDefsTail n)
        else (err >>= fun _ => varDefsTail n))
      (fun _ x => ∃ vs : List Ast.VarDef, vs ≠ [] ∧ x = Ast.tVarDefItems vs ++ [.p .rParen]) := by
    apply acc_ifKind
    · have hm : Acc AtEof (KindP (· == Kind.dollar)) (variableDefinition n >>= fun _ => peekWhileKind .dollar (variableDefinition n))
          (fun _ x => ∃ (a : Unit) (x1 x2 : List Ast.Tok), x = x1 ++ x2 ∧ (∃ v : Ast.VarDef, x1 = Ast.tVarDef v) ∧
            ItemsR (fun y => ∃ v : Ast.VarDef, y = Ast.tVarDef v) x2) :=
        acc_bind early_atEof hitem (fun _ => acc_kindWhile early_atEof .dollar _ _ hitem)
      have hc := acc_close .rParen "R_PAREN" (.p .rParen) (by intro t ht; simp [astOfV, ht]) rfl (by decide) hm
      refine (acc_of_run_eq (fun s => run_assoc (variableDefinition n) _ _ s) hc).mono (fun _ h => h) ?_
      rintro _ x ⟨_, x1, e, _, y1, y2, e2, ⟨v, hv⟩, items, hi, hall⟩
      obtain ⟨vs, hvs, _⟩ := flatten_items _ Ast.tVarDef Ast.tVarDefItems rfl (fun _ _ => rfl) (fun _ h => h) items hall
      exact ⟨v :: vs, by simp, by rw [e, e2, hv, hi, hvs]; simp [Ast.tVarDefItems]⟩
    · exact acc_err' _ gtail
  have hb := acc_bumpKind (E := fun _ => False) .lParen "L_PAREN" (.p .lParen) (by intro t ht; simp [astOfV, ht]) rfl (by decide)
  refine (acc_bind early_false hb (fun _ => hinner)).mono (fun _ h => h) ?_
  rintro _ x ⟨_, x1, x2, e, h1, vs, hne, h2⟩
  refine ⟨vs, hne, ?_⟩
  have : vs.isEmpty = false := by cases vs with | nil => exact absurd rfl hne | cons _ _ => rfl
  rw [e, h1, h2]; simp [Ast.tVarDefs, this]

end Apollo.Parse

namespace Apollo.Parse
open Apollo.Rowan hiding Str
open Apollo.Lex hiding Str

/-! ### operation definition -/

def opSel (n : Nat) : PI Unit := peek >>= fun k => if k == some Kind.lCurly then selectionSet n else errAndPop
def opBody (n : Nat) : PI Unit :=
  operationType >>= fun _ => optKind .name name (optKind .lParen (variableDefinitions n) (optKind .at (directives n false) (opSel n)))

def opDispatch (n : Nat) : Option Kind → PI Unit
  | some .name => withNode "OPERATION_DEFINITION" (opBody n)
  | some .lCurly => withNode "OPERATION_DEFINITION" (selectionSet n)
  | _ => errAndPop

theorem operationDefinition_eq (n : Nat) : operationDefinition n = peek >>= opDispatch n := rfl

/-- the tokens of a full (non-shorthand) operation definition -/
def tOperation (ty : Ast.OpType) (name : Option Ast.Str) (vars : List Ast.VarDef) (dirs : List Ast.Directive) (sels : Ast.Sels) :
    List Ast.Tok :=
  .name ty.name.toList :: (match name with | some n => [.name n] | none => []) ++ Ast.tVarDefs vars ++ Ast.tDirectives dirs
    ++ Ast.tSelSet sels

theorem tOperation_eq (ty : Ast.OpType) (name : Option Ast.Str) (vars : List Ast.VarDef) (dirs : List Ast.Directive) (sels : Ast.Sels) :
    Ast.tDefinition false (.operation ty name vars dirs sels) = tOperation ty name vars dirs sels := by
  cases name <;> simp [Ast.tDefinition, Ast.isShorthand, tOperation]

/-- what `operation_definition` accepts: a full operation definition, or the shorthand `{ Selection+ }` -/
def IsOperation (x : List Ast.Tok) : Prop :=
  ∃ sels, sels ≠ Ast.Sels.nil ∧
    ((∃ ty name vars dirs, x = Ast.tDefinition false (.operation ty name vars dirs sels)) ∨ x = Ast.tSelSet sels)

theorem acc_operationDefinition (n : Nat) :
    Acc (fun _ => False) (fun _ => True) (operationDefinition n) (fun _ => IsOperation) := by
  rw [operationDefinition_eq]
  apply acc_peek
  intro k
  have hselset := acc_selectionSet (E := fun _ => False) n
  have hSel : Acc (fun _ => False) (fun _ => True) (opSel n) (fun _ x => ∃ ss, ss ≠ Ast.Sels.nil ∧ x = Ast.tSelSet ss) :=
    acc_ifKind .lCurly _ _ _ hselset acc_errAndPop
  have hDirs : Acc (fun _ => False) (fun _ => True) (optKind .at (directives n false) (opSel n))
      (fun _ x => ∃ ds ss, ss ≠ Ast.Sels.nil ∧ x = Ast.tDirectives ds ++ Ast.tSelSet ss) := by
    refine (acc_optKind early_false .at (directives n false) (opSel n) _ _ (acc_directives n false) hSel).mono (fun _ h => h) ?_
    rintro _ x ⟨x1, x2, e, h1, ss, hne, h2⟩
    rcases h1 with ⟨ds, hd, _⟩ | h1
    · exact ⟨ds, ss, hne, by rw [e, hd, h2]⟩
    · exact ⟨[], ss, hne, by rw [e, h1, h2]; rfl⟩
  have hVars : Acc (fun _ => False) (fun _ => True) (optKind .lParen (variableDefinitions n) (optKind .at (directives n false) (opSel n)))
      (fun _ x => ∃ vs ds ss, ss ≠ Ast.Sels.nil ∧ x = Ast.tVarDefs vs ++ Ast.tDirectives ds ++ Ast.tSelSet ss) := by
    refine (acc_optKind early_false .lParen (variableDefinitions n) _ _ _ (acc_variableDefinitions n) hDirs).mono (fun _ h => h) ?_
    rintro _ x ⟨x1, x2, e, h1, ds, ss, hne, h2⟩
    rcases h1 with ⟨vs, _, hv⟩ | h1
    · exact ⟨vs, ds, ss, hne, by rw [e, hv, h2, List.append_assoc]⟩
    · exact ⟨[], ds, ss, hne, by rw [e, h1, h2]; simp [Ast.tVarDefs]⟩
  have hName : Acc (fun _ => False) (fun _ => True)
      (optKind .name name (optKind .lParen (variableDefinitions n) (optKind .at (directives n false) (opSel n))))
      (fun _ x => ∃ (nm : Option Ast.Str) (vs : List Ast.VarDef) (ds : List Ast.Directive) (ss : Ast.Sels), ss ≠ Ast.Sels.nil ∧
        x = (match nm with | some n => [.name n] | none => []) ++ Ast.tVarDefs vs ++ Ast.tDirectives ds ++ Ast.tSelSet ss) := by
    refine (acc_optKind early_false .name name _ _ _ acc_name hVars).mono (fun _ h => h) ?_
    rintro _ x ⟨x1, x2, e, h1, vs, ds, ss, hne, h2⟩
    rcases h1 with ⟨nm, h1⟩ | h1
    · exact ⟨some nm, vs, ds, ss, hne, by rw [e, h1, h2]; simp [List.append_assoc]⟩
    · exact ⟨none, vs, ds, ss, hne, by rw [e, h1, h2]; simp [List.append_assoc]⟩
  have hOp : Acc (fun _ => False) (KindP (· == Kind.name)) (opBody n)
      (fun _ x => ∃ (ty : Ast.OpType) (nm : Option Ast.Str) (vs : List Ast.VarDef) (ds : List Ast.Directive) (ss : Ast.Sels),
        ss ≠ Ast.Sels.nil ∧ x = tOperation ty nm vs ds ss) := by
    refine (acc_bind early_false (acc_operationType early_false) (fun _ => hName)).mono (fun _ h => h) ?_
    rintro _ x ⟨_, x1, x2, e, ⟨ty, h1⟩, nm, vs, ds, ss, hne, h2⟩
    exact ⟨ty, nm, vs, ds, ss, hne, by rw [e, h1, h2]; simp [tOperation, List.append_assoc]⟩
  have hkind : ∀ (k0 : Kind) (q : List Tok), (True ∧ q.head?.map (·.kind) = some k0) → KindP (· == k0) q := by
    intro k0 q hq
    obtain ⟨_, hq2⟩ := hq
    cases hh : q.head? with
    | none => rw [hh] at hq2; cases hq2
    | some t => rw [hh] at hq2; exact ⟨t, hh, by simpa using hq2⟩
  cases k with
  | none => exact acc_errAndPop
  | some kk =>
    cases kk <;> first
      | exact acc_errAndPop
      | exact (acc_withNode early_false _ (kindP_sig _ lCurly_sig) hselset).mono (hkind .lCurly)
          (by rintro _ x ⟨ss, hne, rfl⟩; exact ⟨ss, hne, Or.inr rfl⟩)
      | exact (acc_withNode early_false _ (kindP_sig _ name_sig) hOp).mono (hkind .name)
          (by rintro _ x ⟨ty, nm, vs, ds, ss, hne, rfl⟩
              exact ⟨ss, hne, Or.inl ⟨ty, nm, vs, ds, (tOperation_eq ty nm vs ds ss)⟩⟩)

end Apollo.Parse

namespace Apollo.Parse
open Apollo.Rowan hiding Str
open Apollo.Lex hiding Str

/-! ### fragment definition -/

def fragSel (n : Nat) : PI Unit := peek >>= fun k => if k == some Kind.lCurly then selectionSet n else err
def fragBody (n : Nat) : PI Unit :=
  bump "fragment_KW" >>= fun _ => fragmentName >>= fun _ => typeCondition >>= fun _ => optKind .at (directives n false) (fragSel n)

/-- the body of `fragment_definition`: a description in front is reported (`err_and_pop`), then the definition proper -/
def fragGuard (n : Nat) : PI Unit := optKind .stringValue errAndPop (fragBody n)

theorem fragmentDefinition_eq (n : Nat) : fragmentDefinition n = withNode "FRAGMENT_DEFINITION" (fragGuard n) := rfl

/-- `err_and_pop` followed by anything: never error-free -/
theorem acc_errAndPop' {α : Type} {E : PState → Prop} {H : List Tok → Prop} (rest : PI α) (hg : Good rest)
    {R : α → List Ast.Tok → Prop} : Acc E H (errAndPop >>= fun _ => rest) R := by
  refine ⟨good_bind _ _ good_errAndPop (fun _ => hg), ?_⟩
  intro s a s' w he _ hr hnd
  exfalso
  obtain ⟨_, s1, h1, h2⟩ := bind_dec errAndPop _ s s' a hr
  have ad := good_errAndPop s () s1 w h1
  have hnds : ¬ Doomed s := fun dd => hnd ((hg s1 a s' ad.w h2).doom (ad.doom dd))
  exact hnd ((hg s1 a s' ad.w h2).doom
    (valueErr_dooms true s s1 w (eofEnd_nonempty s he hnds) (by simpa [valueErr] using h1)))

/-- the head of the queue is the keyword `fragment` (a Name token) -/
def AtFragmentKw (q : List Tok) : Prop := HeadP (fun t => t.kind = .name ∧ t.data = "fragment".toList) q

def IsFragment (x : List Ast.Tok) : Prop :=
  ∃ name tc dirs sels, sels ≠ Ast.Sels.nil ∧ name ≠ sOnP ∧ x = Ast.tDefinition false (.fragment name tc dirs sels)

theorem acc_fragBody (n : Nat) : Acc (fun _ => False) AtFragmentKw (fragBody n) (fun _ => IsFragment) := by
  have hP : TokOk (fun t : Tok => t.kind = .name ∧ t.data = "fragment".toList) (fun x => x = [.name "fragment".toList]) := by
    rintro t ⟨hk, hd⟩
    exact ⟨by rw [hk]; rfl, by rw [hk]; decide, .name "fragment".toList, by simp [astOfV, hk, hd], rfl⟩
  have hSel : Acc (fun _ => False) (fun _ => True) (fragSel n) (fun _ x => ∃ ss, ss ≠ Ast.Sels.nil ∧ x = Ast.tSelSet ss) :=
    acc_ifKind .lCurly _ _ _ (acc_selectionSet n) acc_err
  have hDirs : Acc (fun _ => False) (fun _ => True) (optKind .at (directives n false) (fragSel n))
      (fun _ x => ∃ ds ss, ss ≠ Ast.Sels.nil ∧ x = Ast.tDirectives ds ++ Ast.tSelSet ss) := by
    refine (acc_optKind early_false .at (directives n false) (fragSel n) _ _ (acc_directives n false) hSel).mono (fun _ h => h) ?_
    rintro _ x ⟨x1, x2, e, h1, ss, hne, h2⟩
    rcases h1 with ⟨ds, hd, _⟩ | h1
    · exact ⟨ds, ss, hne, by rw [e, hd, h2]⟩
    · exact ⟨[], ss, hne, by rw [e, h1, h2]; rfl⟩
  have h3 := acc_bind early_false (acc_typeCondition (H := fun _ => True) early_false) (fun _ => hDirs)
  have h2 := acc_bind early_false (acc_fragmentName (H := fun _ => True) early_false) (fun _ => h3)
  have h1 := acc_bind early_false (acc_bump (E := fun _ => False) "fragment_KW" _ _ hP) (fun _ => h2)
  refine h1.mono (fun _ h => h) ?_
  rintro _ x ⟨_, x1, x2, e, hx1, _, y1, y2, e2, ⟨nm, hne, hy1⟩, _, z1, z2, e3, ⟨tc, hz1⟩, ds, ss, hss, hz2⟩
  refine ⟨nm, tc, ds, ss, hss, hne, ?_⟩
  rw [e, hx1, e2, hy1, e3, hz1, hz2]
  simp [Ast.tDefinition, sOnP, Ast.sOn]

theorem good_fragBody (n : Nat) : Good (fragBody n) := (acc_fragBody n).1

theorem acc_fragmentDefinition (n : Nat) :
    Acc (fun _ => False) AtFragmentKw (fragmentDefinition n) (fun _ => IsFragment) := by
  rw [fragmentDefinition_eq]
  have hP : TokOk (fun t : Tok => t.kind = .name ∧ t.data = "fragment".toList) (fun x => x = [.name "fragment".toList]) := by
    rintro t ⟨hk, hd⟩
    exact ⟨by rw [hk]; rfl, by rw [hk]; decide, .name "fragment".toList, by simp [astOfV, hk, hd], rfl⟩
  refine acc_withNode early_false _ (headP_sig hP) ?_
  have hbody := acc_fragBody n
  -- the description check: the head is the Name `fragment`, so the `err_and_pop` branch is not taken
  unfold fragGuard optKind
  apply acc_peek
  intro k
  refine acc_ite _ (fun hc => acc_absurd (good_bind _ _ good_errAndPop (fun _ => hbody.1)) ?_)
    (fun _ => hbody.mono (fun _ h => h.1) (fun _ _ h => h))
  rintro q ⟨⟨t, hh, hk, _⟩, hkind⟩
  rw [hh] at hkind
  simp only [Option.map_some] at hkind
  rw [← hkind, hk] at hc
  revert hc; decide

end Apollo.Parse

namespace Apollo.Parse
open Apollo.Rowan hiding Str
open Apollo.Lex hiding Str

/-- **`fragment_definition` entered on a description** (a String token — `document()` selects the definition by the
    token AFTER a description): never error-free. -/
theorem acc_fragmentDefinition_desc (n : Nat) {R : Unit → List Ast.Tok → Prop} :
    Acc (fun _ => False) (HeadP (fun t : Tok => t.kind = .stringValue)) (fragmentDefinition n) R := by
  rw [fragmentDefinition_eq]
  have hP : TokOk (fun t : Tok => t.kind = .stringValue) (fun x => ∃ d, x = [Ast.Tok.str d]) := by
    intro t hk
    exact ⟨by rw [hk]; rfl, by rw [hk]; decide, .str ((Strs.decodeStringToken t.data).getD []), by simp [astOfV, hk], _, rfl⟩
  refine acc_withNode early_false _ (headP_sig hP) ?_
  have hg : Good (fragBody n) := good_fragBody n
  unfold fragGuard optKind
  apply acc_peek
  intro k
  refine acc_ite _ (fun _ => acc_errAndPop' _ hg) (fun hc => acc_absurd hg ?_)
  rintro q ⟨⟨t, hh, hk⟩, hkind⟩
  rw [hh] at hkind
  simp only [Option.map_some] at hkind
  rw [← hkind, hk] at hc
  revert hc; decide

end Apollo.Parse
