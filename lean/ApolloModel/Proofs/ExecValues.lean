import ApolloModel.Spec.ExecValues
import ApolloModel.Proofs.ValueCheck
import ApolloModel.Properties.C29
/-!
  Proofs for the §5.6 values family at executable positions (`Model.ExecValues` against `Spec.ExecValues`).
-/
set_option linter.unusedSimpArgs false
set_option linter.unusedVariables false
namespace Apollo.ExecValues
open Apollo Apollo.Spec Apollo.ValueCheck Apollo.ValueCheck.Spec

/-! ### proofs -/

theorem varDefined_checkVars (vars : List XVarDef) (n : Name) :
    varDefined (checkVars vars) n = vars.any fun v => v.name == n := by
  simp [varDefined, checkVars, List.any_map, Function.comp_def]

theorem find_checkVars (vars : List XVarDef) (n : Name) :
    (checkVars vars).find? (fun v => v.name == n) = (vars.find? fun v => v.name == n).map fun v => { name := v.name, ty := v.ty } := by
  induction vars with
  | nil => rfl
  | cons v rest ih =>
    simp only [checkVars, List.map_cons, List.find?_cons]
    by_cases h : (v.name == n) = true
    · simp [h]
    · simp only [h, Bool.false_eq_true, if_false]; exact ih

mutual
theorem opaqueV_iff (vars : List XVarDef) : ∀ (v : Value), opaqueDiags (checkVars vars) v = [] ↔ OpaqueOK vars v
  | .int i => by simp [opaqueDiags]; exact .leaf _ trivial
  | .float b => by simp [opaqueDiags]; exact .leaf _ trivial
  | .string => by simp [opaqueDiags]; exact .leaf _ trivial
  | .boolean => by simp [opaqueDiags]; exact .leaf _ trivial
  | .null => by simp [opaqueDiags]; exact .leaf _ trivial
  | .enum e => by simp [opaqueDiags]; exact .leaf _ trivial
  | .variable n => by
    simp only [opaqueDiags, varDefined_checkVars]
    constructor
    · intro h
      by_cases hd : (vars.any fun v => v.name == n) = true
      · exact .variable n hd
      · simp [hd] at h
    · intro h
      cases h with
      | leaf _ hl => exact absurd hl (by simp [IsLeaf])
      | «variable» _ hd => simp [hd]
  | .list vs => by
    simp only [opaqueDiags]
    rw [opaqueListV_iff vars vs]
    constructor
    · intro h; exact .list vs h
    · intro h
      cases h with
      | leaf _ hl => exact absurd hl (by simp [IsLeaf])
      | list _ h => exact h
  | .object fs => by
    simp only [opaqueDiags]
    rw [List.append_eq_nil_iff, uniqueDiags_iff, opaqueFieldsV_iff vars fs]
    constructor
    · intro ⟨h1, h2⟩; exact .object fs h1 h2
    · intro h
      cases h with
      | leaf _ hl => exact absurd hl (by simp [IsLeaf])
      | object _ h1 h2 => exact ⟨h1, h2⟩
theorem opaqueListV_iff (vars : List XVarDef) : ∀ (vs : Values), opaqueList (checkVars vars) vs = [] ↔ ∀ v ∈ vs.toList, OpaqueOK vars v
  | .nil => by simp [opaqueList, Values.toList]
  | .cons v tl => by
    simp only [opaqueList, Values.toList, List.mem_cons, forall_eq_or_imp]
    rw [List.append_eq_nil_iff, opaqueV_iff vars v, opaqueListV_iff vars tl]
theorem opaqueFieldsV_iff (vars : List XVarDef) : ∀ (fs : Fields), opaqueFields (checkVars vars) fs = [] ↔ ∀ p ∈ fs.toList, OpaqueOK vars p.2
  | .nil => by simp [opaqueFields, Fields.toList]
  | .cons n v tl => by
    simp only [opaqueFields, Fields.toList, List.mem_cons, forall_eq_or_imp]
    rw [List.append_eq_nil_iff, opaqueV_iff vars v, opaqueFieldsV_iff vars tl]
end

theorem check_leaf (S : Schema) (vs : List VarDef) (ty : ValueCheck.Ty) (v : Value) (h : IsLeaf v) :
    check S vs ty v = check S [] ty v := by
  cases v <;> simp [IsLeaf] at h <;> simp [check]

theorem innerNamed_itemType (ty : ValueCheck.Ty) : ty.itemType.innerNamed = ty.innerNamed := by
  cases ty <;> simp [Ty.itemType, Ty.innerNamed]

theorem isInput_iff (td : TypeDef) : td.isInputType = true ↔ td ≠ .other := by cases td <;> simp [TypeDef.isInputType]

theorem leaf_case (S : Schema) (hS : Closed S) (vars : List XVarDef) (rule : VarRule) (v : Value) (hl : IsLeaf v)
    (ty : ValueCheck.Ty) (hd : Bool) (hdef : Defined S ty) :
    check S (checkVars vars) ty v = [] ↔ CoercesV S vars rule ty hd v := by
  rw [check_leaf S _ ty v hl, value_rule_iff_spec S hS ty hdef v]
  constructor
  · intro h; exact .leaf ty hd v hl h
  · intro h
    cases h with
    | leaf _ _ _ _ h => exact h
    | «variable» _ _ _ _ _ _ => exact absurd hl (by simp [IsLeaf])
    | listItems _ _ _ _ _ => exact absurd hl (by simp [IsLeaf])
    | customList _ _ _ _ _ _ => exact absurd hl (by simp [IsLeaf])
    | customObject _ _ _ _ _ => exact absurd hl (by simp [IsLeaf])
    | inputObject _ _ _ _ _ _ _ _ _ => exact absurd hl (by simp [IsLeaf])

mutual
theorem checkV_iff (S : Schema) (hS : Closed S) (vars : List XVarDef) : ∀ (v : Value) (ty : ValueCheck.Ty) (hd : Bool), Defined S ty →
    (check S (checkVars vars) ty v = [] ↔ CoercesV S vars (NamedRule S) ty hd v)
  | .int i, ty, hd, hdef => leaf_case S hS vars _ (.int i) (by simp [IsLeaf]) ty hd hdef
  | .float b, ty, hd, hdef => leaf_case S hS vars _ (.float b) (by simp [IsLeaf]) ty hd hdef
  | .string, ty, hd, hdef => leaf_case S hS vars _ .string (by simp [IsLeaf]) ty hd hdef
  | .boolean, ty, hd, hdef => leaf_case S hS vars _ .boolean (by simp [IsLeaf]) ty hd hdef
  | .null, ty, hd, hdef => leaf_case S hS vars _ .null (by simp [IsLeaf]) ty hd hdef
  | .enum e, ty, hd, hdef => leaf_case S hS vars _ (.enum e) (by simp [IsLeaf]) ty hd hdef
  | .variable n, ty, hd, hdef => by
    obtain ⟨td, hl, hin⟩ := hdef
    simp only [check, hl, variableDiags, find_checkVars]
    constructor
    · intro h
      cases hf : vars.find? (fun v => v.name == n) with
      | none => simp [hf] at h
      | some vd =>
        simp only [hf, Option.map_some] at h
        refine .variable ty hd n vd hf ⟨⟨td, hl, hin⟩, ?_⟩
        cases td with
        | other => simp [TypeDef.isInputType] at hin
        | scalar b => simpa using h
        | enum vs => simpa using h
        | input fs => simpa using h
    · intro h
      cases h with
      | leaf _ _ _ hl' _ => exact absurd hl' (by simp [IsLeaf])
      | «variable» _ _ _ vd hf hr =>
        simp only [hf, Option.map_some]
        obtain ⟨_, hne⟩ := hr
        cases td with
        | other => simp [TypeDef.isInputType] at hin
        | scalar b => simp [hne]
        | enum vs => simp [hne]
        | input fs => simp [hne]
  | .list vs, ty, hd, hdef => by
    obtain ⟨td, hl, hin⟩ := hdef
    by_cases hlist : ty.isList = true
    · have hdi : Defined S ty.itemType := ⟨td, by rw [innerNamed_itemType]; exact hl, hin⟩
      simp only [check, hl, hlist, Bool.true_or, Bool.not_true, Bool.false_eq_true, if_false, hin, if_true]
      rw [checkItemsV_iff S hS vars vs ty.itemType hdi]
      constructor
      · intro h; exact .listItems ty hd vs hlist h
      · intro h
        cases h with
        | leaf _ _ _ hl' _ => exact absurd hl' (by simp [IsLeaf])
        | listItems _ _ _ _ h => exact h
        | customList _ _ _ hnl _ _ => rw [hlist] at hnl; cases hnl
    · have hlist' : ty.isList = false := by simpa using hlist
      by_cases hc : td = .scalar false
      · subst hc
        simp only [check, hl, hlist', Bool.false_or, Bool.not_true, Bool.false_eq_true, if_false, Bool.not_false, if_true]
        rw [opaqueListV_iff vars vs]
        constructor
        · intro h; exact .customList ty hd vs hlist' hl (.list vs h)
        · intro h
          cases h with
          | leaf _ _ _ hl' _ => exact absurd hl' (by simp [IsLeaf])
          | listItems _ _ _ hli _ => rw [hlist'] at hli; cases hli
          | customList _ _ _ _ _ ho =>
            cases ho with
            | leaf _ hl' => exact absurd hl' (by simp [IsLeaf])
            | list _ h => exact h
      · simp only [check, hl, hlist', Bool.false_or, not_custom_match td hc, Bool.not_false, if_true, reduceCtorEq, false_iff]
        intro h
        cases h with
        | leaf _ _ _ hl' _ => exact absurd hl' (by simp [IsLeaf])
        | listItems _ _ _ hli _ => rw [hlist'] at hli; cases hli
        | customList _ _ _ _ hcu _ => rw [hl] at hcu; exact hc (Option.some.inj hcu)
  | .object fs, ty, hd, hdef => by
    obtain ⟨td, hl, hin⟩ := hdef
    simp only [check, hl]
    cases td with
    | other => simp [TypeDef.isInputType] at hin
    | scalar b =>
      cases b with
      | false =>
        simp only []
        rw [List.append_eq_nil_iff, uniqueDiags_iff, opaqueFieldsV_iff vars fs]
        constructor
        · intro ⟨h1, h2⟩; exact .customObject ty hd fs hl (.object fs h1 h2)
        · intro h
          cases h with
          | leaf _ _ _ hl' _ => exact absurd hl' (by simp [IsLeaf])
          | customObject _ _ _ _ ho =>
            cases ho with
            | leaf _ hl' => exact absurd hl' (by simp [IsLeaf])
            | object _ h1 h2 => exact ⟨h1, h2⟩
          | inputObject _ _ fields _ h1 => rw [h1] at hl; cases hl
      | true =>
        simp only [reduceCtorEq, false_iff]
        intro h
        cases h with
        | leaf _ _ _ hl' _ => exact absurd hl' (by simp [IsLeaf])
        | customObject _ _ _ h1 _ => rw [h1] at hl; cases hl
        | inputObject _ _ fields _ h1 => rw [h1] at hl; cases hl
    | enum vs =>
      simp only [reduceCtorEq, false_iff]
      intro h
      cases h with
      | leaf _ _ _ hl' _ => exact absurd hl' (by simp [IsLeaf])
      | customObject _ _ _ h1 _ => rw [h1] at hl; cases hl
      | inputObject _ _ fields _ h1 => rw [h1] at hl; cases hl
    | input fields =>
      have hfields : ∀ f ∈ fields, Defined S f.ty := hS _ fields hl
      simp only []
      rw [List.append_eq_nil_iff, List.append_eq_nil_iff, uniqueDiags_iff, undefinedFieldDiags_iff, List.flatMap_eq_nil_iff]
      constructor
      · intro ⟨⟨hnd, hdefd⟩, hall⟩
        refine .inputObject ty hd fields fs hl hnd hdefd ?_ ?_
        · intro f hf
          have := hall f hf
          rw [List.append_eq_nil_iff] at this
          exact (requiredDiags_iff f fs).mp this.1
        · intro p hp f hf hname
          have := hall f hf
          rw [List.append_eq_nil_iff] at this
          have hfirst := (checkFirstV_iff S hS vars fs f.ty f.hasDefault f.name (hfields f hf)).mp this.2
          apply hfirst
          rw [first_iff_mem f.name p.2 fs hnd, hname]
          exact hp
      · intro h
        cases h with
        | leaf _ _ _ hl' _ => exact absurd hl' (by simp [IsLeaf])
        | customObject _ _ _ h1 _ => rw [h1] at hl; cases hl
        | inputObject _ _ fields' _ h1 hnd hdefd hreq hco =>
          rw [h1] at hl
          have : fields' = fields := by cases hl; rfl
          subst this
          refine ⟨⟨hnd, hdefd⟩, ?_⟩
          intro f hf
          rw [List.append_eq_nil_iff]
          refine ⟨(requiredDiags_iff f fs).mpr (hreq f hf), ?_⟩
          rw [checkFirstV_iff S hS vars fs f.ty f.hasDefault f.name (hfields f hf)]
          intro v hv
          exact hco (f.name, v) (first_mem f.name v fs hv) f hf rfl
theorem checkItemsV_iff (S : Schema) (hS : Closed S) (vars : List XVarDef) : ∀ (vs : Values) (ty : ValueCheck.Ty), Defined S ty →
    (checkItems S (checkVars vars) ty vs = [] ↔ ∀ v ∈ vs.toList, CoercesV S vars (NamedRule S) ty false v)
  | .nil, ty, _ => by simp [checkItems, Values.toList]
  | .cons v tl, ty, hdef => by
    simp only [checkItems, Values.toList, List.mem_cons, forall_eq_or_imp]
    rw [List.append_eq_nil_iff, checkV_iff S hS vars v ty false hdef, checkItemsV_iff S hS vars tl ty hdef]
theorem checkFirstV_iff (S : Schema) (hS : Closed S) (vars : List XVarDef) : ∀ (fs : Fields) (ty : ValueCheck.Ty) (hd : Bool) (name : Name), Defined S ty →
    (checkFirst S (checkVars vars) ty name fs = [] ↔ ∀ v, fs.first name = some v → CoercesV S vars (NamedRule S) ty hd v)
  | .nil, ty, hd, name, _ => by simp [checkFirst, Fields.first]
  | .cons n x tl, ty, hd, name, hdef => by
    simp only [checkFirst, Fields.first]
    by_cases hn : (n == name) = true
    · simp only [hn, if_true]
      rw [checkV_iff S hS vars x ty hd hdef]
      constructor
      · intro h v hv; rw [← Option.some.inj hv]; exact h
      · intro h; exact h x rfl
    · simp only [hn, if_false]
      exact checkFirstV_iff S hS vars tl ty hd name hdef
end

theorem arg_values_iff (S : Schema) (hS : Closed S) (vars : List XVarDef) (ty : ValueCheck.Ty) (hd : Bool) (v : Value)
    (hdef : Defined S ty) : argValueDiags S vars ty hd v = [] ↔ ExecArgOK S vars ty hd v := by
  unfold argValueDiags ExecArgOK
  by_cases hf : usageFails vars ty hd v = true
  · simp only [hf, if_true, reduceCtorEq, false_iff]
    rintro ⟨h1, _⟩
    cases v with
    | «variable» n =>
      simp only [usageFails] at hf
      cases hfind : vars.find? (fun x => x.name == n) with
      | none => simp [hfind] at hf
      | some vd =>
        simp only [hfind, Bool.not_eq_true'] at hf
        have := h1 n vd rfl hfind
        simp only [UsageRule, ← C29.usage_allowed_iff] at this
        rw [hf] at this; cases this
    | _ => simp [usageFails] at hf
  · simp only [hf, Bool.false_eq_true, if_false, List.map_eq_nil_iff]
    rw [checkV_iff S hS vars v ty hd hdef]
    constructor
    · intro h
      refine ⟨?_, h⟩
      intro n vd hv hfind
      subst hv
      simp only [usageFails, hfind, Bool.not_eq_true', Bool.not_eq_false] at hf
      simp only [UsageRule, ← C29.usage_allowed_iff]
      exact hf
    · exact fun h => h.2

/-! ### the specification's rule for variables implies the code's -/

def STy.inner : STy → String
  | .named n => n
  | .list t => STy.inner t
  | .nonNull t => STy.inner t

theorem compat_inner : ∀ (a b : STy), STy.compat a b = true → STy.inner a = STy.inner b
  | .nonNull v, .nonNull l, h => by simp only [STy.compat] at h; simpa [STy.inner] using compat_inner v l h
  | .named _, .nonNull _, h => by simp [STy.compat] at h
  | .list _, .nonNull _, h => by simp [STy.compat] at h
  | .nonNull v, .named l, h => by simp only [STy.compat] at h; simpa [STy.inner] using compat_inner v (.named l) h
  | .nonNull v, .list l, h => by simp only [STy.compat] at h; simpa [STy.inner] using compat_inner v (.list l) h
  | .list v, .list l, h => by simp only [STy.compat] at h; simpa [STy.inner] using compat_inner v l h
  | .named _, .list _, h => by simp [STy.compat] at h
  | .list _, .named _, h => by simp [STy.compat] at h
  | .named a, .named b, h => by simpa [STy.compat, STy.inner] using h

theorem inner_embed (t : ValueCheck.Ty) : STy.inner (embed (toTy t)) = t.innerNamed := by
  induction t with
  | named n => rfl
  | nonNullNamed n => rfl
  | list t ih => simpa [toTy, embed, STy.inner, ValueCheck.Ty.innerNamed] using ih
  | nonNullList t ih => simpa [toTy, embed, STy.inner, ValueCheck.Ty.innerNamed] using ih

theorem usage_inner (vd : XVarDef) (ty : ValueCheck.Ty) (hd : Bool) (h : UsageRule vd ty hd) :
    vd.ty.innerNamed = ty.innerNamed := by
  unfold UsageRule variableUsageAllowed at h
  rw [← inner_embed vd.ty, ← inner_embed ty]
  split at h
  · rename_i nl heq1 heq2
    simp only [] at h
    by_cases hc : (!(vd.default == DefaultValue.nonNullValue) && !hd) = true
    · simp [hc] at h
    · simp only [hc, Bool.false_eq_true, if_false] at h
      have := compat_inner _ _ h
      rw [this, heq1]; rfl
  · exact compat_inner _ _ h

/-- SPEC ⇒ CODE for one argument: whatever §5.6 + §5.8.5 accept (every variable, wherever it stands, passes
    IsVariableUsageAllowed at its position) is accepted by `validate_variable_usage` + `value_of_correct_type` -/
theorem coercesV_usage_to_named (S : Schema) (hS : Closed S) (vars : List XVarDef) :
    ∀ (ty : ValueCheck.Ty) (hd : Bool) (v : Value), CoercesV S vars UsageRule ty hd v → Defined S ty →
      CoercesV S vars (NamedRule S) ty hd v := by
  intro ty hd v h
  induction h with
  | leaf ty hd v hl hc => intro _; exact .leaf ty hd v hl hc
  | «variable» ty hd n vd hf hr => intro hdef; exact .variable ty hd n vd hf ⟨hdef, usage_inner vd ty hd hr⟩
  | listItems ty hd vs hl _ ih =>
    intro hdef
    obtain ⟨td, hlk, hin⟩ := hdef
    exact .listItems ty hd vs hl (fun v hv => ih v hv ⟨td, by rw [innerNamed_itemType]; exact hlk, hin⟩)
  | customList ty hd vs h1 h2 h3 => intro _; exact .customList ty hd vs h1 h2 h3
  | customObject ty hd fs h1 h2 => intro _; exact .customObject ty hd fs h1 h2
  | inputObject ty hd fields fs h1 h2 h3 h4 _ ih =>
    intro _
    exact .inputObject ty hd fields fs h1 h2 h3 h4 (fun p hp f hf hn => ih p hp f hf hn (hS _ fields h1 f hf))

theorem spec_value_accepted (S : Schema) (hS : Closed S) (vars : List XVarDef) (ty : ValueCheck.Ty) (hd : Bool) (v : Value)
    (hdef : Defined S ty) (h : CoercesV S vars UsageRule ty hd v) : argValueDiags S vars ty hd v = [] := by
  rw [arg_values_iff S hS vars ty hd v hdef]
  refine ⟨?_, coercesV_usage_to_named S hS vars ty hd v h hdef⟩
  intro n vd hv hfind
  subst hv
  cases h with
  | leaf _ _ _ hl _ => exact absurd hl (by simp [IsLeaf])
  | «variable» _ _ _ vd' hf hr => rw [hfind] at hf; cases hf; exact hr


theorem varFreeList_mem : ∀ (vs : Values), varFreeList vs = true → ∀ v ∈ vs.toList, varFree v = true
  | .nil, _, v, hv => by simp [Values.toList] at hv
  | .cons x tl, h, v, hv => by
    simp only [varFreeList, Bool.and_eq_true] at h
    simp only [Values.toList, List.mem_cons] at hv
    rcases hv with rfl | hv
    · exact h.1
    · exact varFreeList_mem tl h.2 v hv

theorem varFreeFields_mem : ∀ (fs : Fields), varFreeFields fs = true → ∀ p ∈ fs.toList, varFree p.2 = true
  | .nil, _, p, hp => by simp [Fields.toList] at hp
  | .cons n x tl, h, p, hp => by
    simp only [varFreeFields, Bool.and_eq_true] at h
    simp only [Fields.toList, List.mem_cons] at hp
    rcases hp with rfl | hp
    · exact h.1
    · exact varFreeFields_mem tl h.2 p hp

/-- a variable-free literal is judged the same whatever the rule for variables -/
theorem coercesV_varFree (S : Schema) (vars : List XVarDef) (r r' : VarRule) :
    ∀ (ty : ValueCheck.Ty) (hd : Bool) (v : Value), CoercesV S vars r ty hd v → varFree v = true → CoercesV S vars r' ty hd v := by
  intro ty hd v h
  induction h with
  | leaf ty hd v hl hc => intro _; exact .leaf ty hd v hl hc
  | «variable» ty hd n vd hf hr => intro hv; simp [varFree] at hv
  | listItems ty hd vs hl _ ih =>
    intro hv
    simp only [varFree] at hv
    exact .listItems ty hd vs hl (fun v hm => ih v hm (varFreeList_mem vs hv v hm))
  | customList ty hd vs h1 h2 h3 => intro _; exact .customList ty hd vs h1 h2 h3
  | customObject ty hd fs h1 h2 => intro _; exact .customObject ty hd fs h1 h2
  | inputObject ty hd fields fs h1 h2 h3 h4 _ ih =>
    intro hv
    simp only [varFree] at hv
    exact .inputObject ty hd fields fs h1 h2 h3 h4 (fun p hp f hf hn => ih p hp f hf hn (varFreeFields_mem fs hv p hp))


/-- §5.6 + §5.8.5 for one argument, EXACT when no variable stands inside a list or object literal: the code
    reports nothing iff the value is a value of the argument's type, a variable being judged by
    IsVariableUsageAllowed (the remaining case is the known finding `nested-position`) -/
theorem arg_values_iff_spec (S : Schema) (hS : Closed S) (vars : List XVarDef) (ty : ValueCheck.Ty) (hd : Bool) (v : Value)
    (hdef : Defined S ty) (hn : NoNestedVariable v) :
    argValueDiags S vars ty hd v = [] ↔ CoercesV S vars UsageRule ty hd v := by
  constructor
  · intro h
    obtain ⟨h1, h2⟩ := (arg_values_iff S hS vars ty hd v hdef).mp h
    rcases hn with ⟨n, rfl⟩ | hvf
    · cases h2 with
      | leaf _ _ _ hl _ => exact absurd hl (by simp [IsLeaf])
      | «variable» _ _ _ vd hf _ => exact .variable ty hd n vd hf (h1 n vd rfl hf)
    · exact coercesV_varFree S vars _ _ ty hd v h2 hvf
  · exact spec_value_accepted S hS vars ty hd v hdef

end Apollo.ExecValues
