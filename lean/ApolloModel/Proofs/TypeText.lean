import ApolloModel.Proofs.AstText6
import ApolloModel.Proofs.AstValues
import ApolloModel.Proofs.ParserType10
/-
C10 growth: the text that `Display for ast::Type` prints (ast/serialize.rs), for every type reference of
unbounded nesting, lexes (Model/Lexer.lean) to exactly the tokens of the type followed by EOF, with no
ignored token and no error item — proved directly with `lex_name` / `lex_punctuator`.
-/
namespace Apollo.Ast
open Apollo.Lex (advance lex Item Kind punctuationKind isNameStart isNameContinue lex_punctuator lex_name)

/-- `impl fmt::Display for Type`: `{name}`, `{name}!`, `[{inner}]`, `[{inner}]!` -/
def tyText : Ty → Str
  | .named n => n
  | .nonNullNamed n => n ++ ['!']
  | .list t => '[' :: tyText t ++ [']']
  | .nonNullList t => '[' :: tyText t ++ [']', '!']

/-- the names of a type are `Name`s (`[_A-Za-z][_0-9A-Za-z]*`) -/
def tyNamesWf : Ty → Bool
  | .named n | .nonNullNamed n => wfName n
  | .list t | .nonNullList t => tyNamesWf t

/-- the lexer items of a type -/
def tyItems : Ty → List Item
  | .named n => [.tok .name n]
  | .nonNullNamed n => [.tok .name n, .tok .bang ['!']]
  | .list t => .tok .lBracket ['['] :: tyItems t ++ [.tok .rBracket [']']]
  | .nonNullList t => .tok .lBracket ['['] :: tyItems t ++ [.tok .rBracket [']'], .tok .bang ['!']]

/-- what follows cannot continue a name -/
def NameBreak : Str → Prop
  | [] => True
  | c :: _ => isNameContinue c = false

theorem takeWhile_append_break (r rest : Str) (hr : r.all isNameContinue = true) (hb : NameBreak rest) :
    (r ++ rest).takeWhile isNameContinue = r ∧ (r ++ rest).dropWhile isNameContinue = rest := by
  induction r with
  | nil =>
    cases rest with
    | nil => simp
    | cons c cs => simp only [NameBreak] at hb; simp [List.takeWhile_cons, List.dropWhile_cons, hb]
  | cons x xs ih =>
    simp only [List.all_cons, Bool.and_eq_true] at hr
    have := ih hr.2
    simp [List.takeWhile_cons, List.dropWhile_cons, hr.1, this.1, this.2]

theorem lex_name_text (n rest : Str) (h : wfName n = true) (hb : NameBreak rest) :
    lex none (n ++ rest) = .tok .name n :: lex none rest := by
  cases n with
  | nil => simp [wfName] at h
  | cons c r =>
    simp only [wfName, Bool.and_eq_true] at h
    have ht := takeWhile_append_break r rest h.2 hb
    rw [List.cons_append, lex_cons, lex_name c (r ++ rest) h.1]
    simp only [ht.1, ht.2]

theorem lex_punct_text (c : Char) (k : Kind) (rest : Str) (h : punctuationKind c = some k) :
    lex none (c :: rest) = .tok k [c] :: lex none rest := by
  rw [lex_cons, lex_punctuator c k rest h]

/-- **lexing the printed text of a type**, whatever follows it (that cannot continue a name) -/
theorem lex_tyText : ∀ (t : Ty) (rest : Str), tyNamesWf t = true → NameBreak rest →
    lex none (tyText t ++ rest) = tyItems t ++ lex none rest
  | .named n, rest, h, hb => by simpa [tyText, tyItems] using lex_name_text n rest h hb
  | .nonNullNamed n, rest, h, _ => by
    have h1 := lex_name_text n ('!' :: rest) h (by simp [NameBreak]; decide)
    simp only [tyText, tyItems, List.append_assoc, List.cons_append, List.nil_append]
    rw [h1, lex_punct_text '!' .bang rest (by decide)]
  | .list t, rest, h, _ => by
    have ih := lex_tyText t (']' :: rest) h (by simp [NameBreak]; decide)
    simp only [tyText, tyItems, List.append_assoc, List.cons_append, List.nil_append]
    rw [lex_punct_text '[' .lBracket _ (by decide), ih, lex_punct_text ']' .rBracket rest (by decide)]
  | .nonNullList t, rest, h, _ => by
    have ih := lex_tyText t (']' :: '!' :: rest) h (by simp [NameBreak]; decide)
    simp only [tyText, tyItems, List.append_assoc, List.cons_append, List.nil_append]
    rw [lex_punct_text '[' .lBracket _ (by decide), ih, lex_punct_text ']' .rBracket _ (by decide),
      lex_punct_text '!' .bang rest (by decide)]

/-- the whole lexer output for the printed text: the type's items, then EOF -/
theorem lex_tyText_whole (t : Ty) (h : tyNamesWf t = true) :
    lex none (tyText t) = tyItems t ++ [.tok .eof []] := by
  have := lex_tyText t [] h trivial
  rwa [List.append_nil, lex_nil] at this

theorem tyItems_no_err_all (t : Ty) : (tyItems t).all (fun it => !it.isErr) = true := by
  induction t with
  | named n => simp [tyItems, Item.isErr]
  | nonNullNamed n => simp [tyItems, Item.isErr]
  | list t ih => simp only [tyItems, List.all_cons, List.all_append, List.all_nil, ih]; rfl
  | nonNullList t ih => simp only [tyItems, List.all_cons, List.all_append, List.all_nil, ih]; rfl

theorem tyItems_no_err (t : Ty) : ∀ it ∈ tyItems t, it.isErr = false := by
  intro it hit
  have := List.all_eq_true.mp (tyItems_no_err_all t) it hit
  simpa using this

/-- the tokens the reference parser sees (C08's view of the lexer output) -/
theorem sigToks_tyItems (t : Ty) (tail : List Item) (ts : List Tok) (h : sigToks tail = some ts) :
    sigToks (tyItems t ++ tail) = some (tTy t ++ ts) := by
  induction t generalizing tail ts with
  | named n => simp [tyItems, tTy, sigToks, sigItem, h]
  | nonNullNamed n => simp [tyItems, tTy, sigToks, sigItem, punctOfKind, h]
  | list t ih =>
    have := ih (.tok .rBracket [']'] :: tail) (.p .rBracket :: ts) (by simp [sigToks, sigItem, punctOfKind, h])
    simp only [tyItems, tTy, List.cons_append, List.append_assoc, List.nil_append]
    simp [sigToks, sigItem, punctOfKind, this]
  | nonNullList t ih =>
    have := ih (.tok .rBracket [']'] :: .tok .bang ['!'] :: tail) (.p .rBracket :: .p .bang :: ts)
      (by simp [sigToks, sigItem, punctOfKind, h])
    simp only [tyItems, tTy, List.cons_append, List.append_assoc, List.nil_append]
    simp [sigToks, sigItem, punctOfKind, this]

theorem sigToks_tyText (t : Ty) (h : tyNamesWf t = true) : sigToks (lex none (tyText t)) = some (tTy t) := by
  rw [lex_tyText_whole t h]
  have := sigToks_tyItems t [.tok .eof []] [] (by simp [sigToks, sigItem])
  simpa using this

end Apollo.Ast

namespace Apollo.Parse
open Apollo.Lex (lex Item Kind)

/-- the (kind, text) pairs of a type's items -/
def tyKDs : Ast.Ty → List (Kind × Str)
  | .named n => [(.name, n)]
  | .nonNullNamed n => [(.name, n), (.bang, ['!'])]
  | .list t => (.lBracket, ['[']) :: tyKDs t ++ [(.rBracket, [']'])]
  | .nonNullList t => (.lBracket, ['[']) :: tyKDs t ++ [(.rBracket, [']']), (.bang, ['!'])]

theorem filterMap_tyItems (t : Ast.Ty) : (Ast.tyItems t).filterMap itemKD = tyKDs t := by
  induction t with
  | named n => rfl
  | nonNullNamed n => rfl
  | list t ih => simp [Ast.tyItems, tyKDs, itemKD, List.filterMap_append, ih]
  | nonNullList t ih => simp [Ast.tyItems, tyKDs, itemKD, List.filterMap_append, ih]

theorem tyKDs_not_ignored_all (t : Ast.Ty) : (tyKDs t).all (fun p => !isIgnoredKind p.1) = true := by
  induction t with
  | named n => simp [tyKDs, isIgnoredKind]
  | nonNullNamed n => simp [tyKDs, isIgnoredKind]
  | list t ih => simp only [tyKDs, List.all_cons, List.all_append, List.all_nil, ih]; rfl
  | nonNullList t ih => simp only [tyKDs, List.all_cons, List.all_append, List.all_nil, ih]; rfl

theorem tyKDs_not_ignored (t : Ast.Ty) : ∀ p ∈ tyKDs t, isIgnoredKind p.1 = false := by
  intro p hp
  have := List.all_eq_true.mp (tyKDs_not_ignored_all t) p hp
  simpa using this

theorem tyKDs_astOf (t : Ast.Ty) : (tyKDs t).map astOfKD = (Ast.tTy t).map some := by
  induction t with
  | named n => rfl
  | nonNullNamed n => rfl
  | list t ih => simp [tyKDs, Ast.tTy, ih, astOfKD, astOf]
  | nonNullList t ih => simp [tyKDs, Ast.tTy, ih, astOfKD, astOf]

theorem lexToks_tyText (t : Ast.Ty) (h : Ast.tyNamesWf t = true) :
    lexToks (Ast.tyText t) = tyKDs t ++ [(.eof, [])] := by
  unfold lexToks
  rw [Ast.lex_tyText_whole t h, List.filterMap_append, filterMap_tyItems]
  rfl

theorem lexSig_tyText (t : Ast.Ty) (h : Ast.tyNamesWf t = true) :
    lexSig (Ast.tyText t) = tyKDs t ++ [(.eof, [])] := by
  unfold lexSig sigKD
  rw [lexToks_tyText t h, List.filter_append]
  have : (tyKDs t).filter (fun p => !isIgnoredKind p.1) = tyKDs t := by
    rw [List.filter_eq_self]
    intro p hp
    simp [tyKDs_not_ignored t p hp]
  rw [this]
  rfl

theorem tyKDs_ne_nil (t : Ast.Ty) : tyKDs t ≠ [] := by cases t <;> simp [tyKDs]

/-- **the type entry point accepts the printed text**, for every nesting up to the recursion limit -/
theorem parseType_tyText (rl : Nat) (t : Ast.Ty) (h : Ast.tyNamesWf t = true) (hd : tyDepth t ≤ rl) :
    (parse .type none rl (Ast.tyText t)).errors = [] := by
  refine parseType_complete_lex rl (Ast.tyText t) t (tyKDs t) (.eof, [])
    (fun it hit => ?_) (lexSig_tyText t h) rfl (tyKDs_astOf t) hd ?_
  · rw [Ast.lex_tyText_whole t h] at hit
    rcases List.mem_append.mp hit with h1 | h1
    · exact Ast.tyItems_no_err t it h1
    · have : it = .tok .eof [] := by simpa using h1
      rw [this]; rfl
  · intro p hp
    rw [lexToks_tyText t h] at hp
    cases hk : tyKDs t with
    | nil => exact absurd hk (tyKDs_ne_nil t)
    | cons q qs =>
      rw [hk] at hp
      have : p = q := by simpa using hp.symm
      subst this
      exact tyKDs_not_ignored t p (by rw [hk]; exact List.mem_cons_self)

end Apollo.Parse
