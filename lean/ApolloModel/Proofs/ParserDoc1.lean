import ApolloModel.Proofs.ParserDef19
import ApolloModel.Proofs.ParserSel9
import ApolloModel.Proofs.AstDocument3
/-
C05 growth (top level), part 1: the dispatcher of `grammar/document.rs`.

`DefLemmas n` bundles, for every definition parser the dispatcher can reach, the statement "an error-free run
started where the dispatcher starts it consumes exactly the tokens of one well-formed definition of the grammar"
(in builderD's `Acc` calculus, no early exit).  Everything in ParserDoc*.lean is proved from `DefLemmas`;
instantiating it makes the document theorem unconditional.
-/
set_option linter.unusedSimpArgs false
namespace Apollo.Parse
open Apollo.Rowan hiding Str
open Apollo.Lex hiding Str

/-- the tokens of ONE definition as `document()` accepts it: an operation definition in the long or the shorthand form
    (builderB's `IsOperation`), a fragment definition (`IsFragment`), or a type-system definition or extension up to the
    two documented liberties (builderD's `LooseDef`) -/
def IsDef (x : List Ast.Tok) : Prop :=
  IsOperation x ∨ IsFragment x ∨ (∃ l : LooseDef, x = l.toks)

/-- where `select_definition` starts a definition parser for keyword `w`: on the keyword itself (a Name, or the
    `{` of a shorthand query), or on a description (String) whose next significant token is the keyword -/
def DStart (w : Str) (q : List Tok) : Prop :=
  ∃ t rest, q = t :: rest ∧
    (((t.kind = .name ∨ t.kind = .lCurly) ∧ t.data = w) ∨
     (t.kind = .stringValue ∧ ∃ t2, (sig rest).head? = some t2 ∧ t2.data = w))

/-- where `extensions` starts an extension parser: on `extend`, the next significant token being the keyword -/
def EStart (w : Str) (q : List Tok) : Prop :=
  ∃ t rest t2, q = t :: rest ∧ t.kind = .name ∧ t.data = "extend".toList ∧ (sig rest).head? = some t2 ∧ t2.data = w

abbrev DefAcc (H : List Tok → Prop) (m : PI Unit) : Prop := Acc (fun _ => False) H m (fun _ => IsDef)

/-- the per-definition soundness statements the document theorem is parametrised by -/
structure DefLemmas (n : Nat) : Prop where
  directive : DefAcc (fun q => LexQ q ∧ DStart "directive".toList q) (directiveDefinition n)
  enumDef : DefAcc (fun q => LexQ q ∧ DStart "enum".toList q) (enumTypeDefinition n)
  fragment : DefAcc (fun q => LexQ q ∧ DStart "fragment".toList q) (fragmentDefinition n)
  input : DefAcc (fun q => LexQ q ∧ DStart "input".toList q) (inputObjectTypeDefinition n)
  interface : DefAcc (fun q => LexQ q ∧ DStart "interface".toList q) (interfaceTypeDefinition n)
  object : DefAcc (fun q => LexQ q ∧ DStart "type".toList q) (objectTypeDefinition n)
  opQuery : DefAcc (fun q => LexQ q ∧ DStart "query".toList q) (operationDefinition n)
  opMutation : DefAcc (fun q => LexQ q ∧ DStart "mutation".toList q) (operationDefinition n)
  opSubscription : DefAcc (fun q => LexQ q ∧ DStart "subscription".toList q) (operationDefinition n)
  opShorthand : DefAcc (fun q => LexQ q ∧ DStart "{".toList q) (operationDefinition n)
  scalar : DefAcc (fun q => LexQ q ∧ DStart "scalar".toList q) (scalarTypeDefinition n)
  schema : DefAcc (fun q => LexQ q ∧ DStart "schema".toList q) (schemaDefinition n)
  union : DefAcc (fun q => LexQ q ∧ DStart "union".toList q) (unionTypeDefinition n)
  schemaExt : DefAcc (fun q => LexQ q ∧ EStart "schema".toList q) (schemaExtension n)
  scalarExt : DefAcc (fun q => LexQ q ∧ EStart "scalar".toList q) (scalarTypeExtension n)
  objectExt : DefAcc (fun q => LexQ q ∧ EStart "type".toList q) (objectTypeExtension n)
  interfaceExt : DefAcc (fun q => LexQ q ∧ EStart "interface".toList q) (interfaceTypeExtension n)
  unionExt : DefAcc (fun q => LexQ q ∧ EStart "union".toList q) (unionTypeExtension n)
  enumExt : DefAcc (fun q => LexQ q ∧ EStart "enum".toList q) (enumTypeExtension n)
  inputExt : DefAcc (fun q => LexQ q ∧ EStart "input".toList q) (inputObjectTypeExtension n)

/-! ### look-ahead -/

/-- with a significant current token, `peek_data_n(2)` is the data of the first significant token of the rest -/
theorem peekDataN2_spec (s s' : PState) (d : Option Str) (t : Tok) (rest : List Tok) (w : TW s)
    (hc : s.current = some t) (ht : Toks s = t :: rest) (hni : isIgnoredKind t.kind = false)
    (h : (peekDataN 2).run s = .ok d s') : s' = s ∧ d = ((sig rest).head?).map (·.data) := by
  obtain ⟨o, s1, h1, h2⟩ := bind_dec (peekTokenN 2) _ s s' d h
  unfold peekTokenN at h1
  simp only [] at h1
  injection h1 with h1 h1'
  subst h1'
  rw [run_pure] at h2
  injection h2 with h2 h3
  subst h3
  refine ⟨rfl, ?_⟩
  rw [← h2, ← h1]
  have hrest : rest = toksOf (stream s.lx) := by
    unfold Toks at ht
    rw [hc] at ht
    simp only [Option.toList, List.cons_append, List.nil_append, List.cons.injEq, true_and] at ht
    exact ht.symm
  unfold lookahead
  rw [hc]
  have hnk : (t.kind == .whitespace || t.kind == .comment || t.kind == .comma) = false := by
    simp only [isIgnoredKind] at hni
    cases hk : t.kind <;> simp [hk] at hni ⊢
  simp only [hnk, Bool.false_eq_true, if_false]
  have : ¬ (2 ≤ 1) := by omega
  simp only [this, if_false]
  show Option.map _ (aheadLoop _ s.lx 1) = _
  rw [aheadLoop_one _ s.lx w.limit (by omega), hrest]

theorem peekData_cur (s s' : PState) (d : Option Str) (t : Tok) (hc : s.current = some t)
    (h : peekData.run s = .ok d s') : s' = s ∧ d = some t.data := by
  obtain ⟨o, s1, h1, h2⟩ := bind_dec peekToken _ s s' d h
  have e : peekToken.run s = .ok (some t) s := by
    show (match s.current with | some t => Res.ok (some t) s | none => _) = _
    rw [hc]
  rw [e] at h1
  injection h1 with h1 h1'
  subst h1 h1'
  rw [run_pure] at h2
  injection h2 with h2 h3
  exact ⟨h3.symm, h2.symm⟩

/-! ### extensions.rs, select_definition -/

theorem kwOpt_eq {w : String} {d : Option Str} (h : kwOpt w d = true) : d = some w.toList := by
  simpa [kwOpt] using h

/-- `extensions()` reached on the Name `extend` -/
theorem extensionsL_sound {n : Nat} (L : DefLemmas n) (s s' : PState) (t : Tok) (rest : List Tok) (w : TW s) (he : EofEnd s)
    (hs : LexQ (Toks s)) (hc : s.current = some t) (ht : Toks s = t :: rest) (hk : t.kind = .name) (hd : t.data = "extend".toList)
    (h : (extensions n).run s = .ok () s') (hnd : ¬ Doomed s') : AccRes (fun _ => False) s s' IsDef := by
  unfold extensions at h
  obtain ⟨d, s1, h1, h2⟩ := bind_dec (peekDataN 2) _ s s' () h
  obtain ⟨rfl, hdat⟩ := peekDataN2_spec s s1 d t rest w hc ht (by rw [hk]; rfl) h1
  have start : ∀ wd : String, kwOpt wd d = true → LexQ (Toks s1) ∧ EStart wd.toList (Toks s1) := by
    intro wd hw
    have := kwOpt_eq hw
    rw [hdat] at this
    cases hq : (sig rest).head? with
    | none => rw [hq] at this; cases this
    | some t2 =>
      rw [hq] at this
      exact ⟨hs, t, rest, t2, ht, hk, hd, hq, by simpa using this⟩
  repeat' split at h2
  all_goals first
    | exact L.schemaExt.2 s1 () s' w he (start _ (by assumption)) h2 hnd
    | exact L.scalarExt.2 s1 () s' w he (start _ (by assumption)) h2 hnd
    | exact L.objectExt.2 s1 () s' w he (start _ (by assumption)) h2 hnd
    | exact L.interfaceExt.2 s1 () s' w he (start _ (by assumption)) h2 hnd
    | exact L.unionExt.2 s1 () s' w he (start _ (by assumption)) h2 hnd
    | exact L.enumExt.2 s1 () s' w he (start _ (by assumption)) h2 hnd
    | exact L.inputExt.2 s1 () s' w he (start _ (by assumption)) h2 hnd
    | exact (acc_errAndPop (E := fun _ => False) (H := fun _ => True) (R := fun _ => IsDef)).2 s1 () s' w he trivial h2 hnd

/-- `select_definition(d)` with `d` the keyword the dispatcher looked at -/
theorem selectDefinition_sound {n : Nat} (L : DefLemmas n) (d : Str) (s s' : PState) (t : Tok) (rest : List Tok)
    (w : TW s) (he : EofEnd s) (hs : LexQ (Toks s)) (hc : s.current = some t) (ht : Toks s = t :: rest)
    (hstart : ((t.kind = .name ∨ t.kind = .lCurly) ∧ t.data = d) ∨
      (t.kind = .stringValue ∧ ∃ t2, (sig rest).head? = some t2 ∧ t2.data = d))
    (h : (selectDefinition n d).run s = .ok () s') (hnd : ¬ Doomed s') : AccRes (fun _ => False) s s' IsDef := by
  have start : ∀ wd : String, kw wd d = true → LexQ (Toks s) ∧ DStart wd.toList (Toks s) := by
    intro wd hw
    have := kw_eq hw
    subst this
    exact ⟨hs, t, rest, ht, hstart⟩
  have errc : errAndPop.run s = .ok () s' → AccRes (fun _ => False) s s' IsDef := fun h' =>
    (acc_errAndPop (E := fun _ => False) (H := fun _ => True) (R := fun _ => IsDef)).2 s () s' w he trivial h' hnd
  unfold selectDefinition at h
  by_cases h1 : kw "directive" d = true
  · simp only [h1, if_true] at h; exact L.directive.2 s () s' w he (start _ h1) h hnd
  simp only [h1, Bool.false_eq_true, if_false] at h
  by_cases h2 : kw "enum" d = true
  · simp only [h2, if_true] at h; exact L.enumDef.2 s () s' w he (start _ h2) h hnd
  simp only [h2, Bool.false_eq_true, if_false] at h
  by_cases h3 : kw "extend" d = true
  · simp only [h3, if_true] at h
    have hd := kw_eq h3
    rcases hstart with ⟨hk, hdat⟩ | ⟨hk, t2, hq, hdat⟩
    · rcases hk with hk | hk
      · exact extensionsL_sound L s s' t rest w he hs hc ht hk (by rw [hdat, hd]) h hnd
      · exfalso
        have := hs t (by rw [ht]; exact List.mem_cons_self ..) 'e' "xtend".toList (by rw [hdat, hd]; rfl) (by decide)
        rw [hk] at this
        cases this
    · -- a description followed by `extend`: `extensions` looks at `extend` itself and reports an error
      unfold extensions at h
      obtain ⟨d2, s1, e1, e2⟩ := bind_dec (peekDataN 2) _ s s' () h
      obtain ⟨rfl, hdat2⟩ := peekDataN2_spec s s1 d2 t rest w hc ht (by rw [hk]; rfl) e1
      rw [hq] at hdat2
      simp only [Option.map_some] at hdat2
      rw [hdat, hd] at hdat2
      subst hdat2
      have e : ∀ wd : String, wd ≠ "extend" → kwOpt wd (some "extend".toList) = false := by
        intro wd hne
        simp only [kwOpt, beq_eq_false_iff_ne, ne_eq, Option.some.injEq]
        intro h'; exact hne (String.ext_iff.mpr (by simpa using h'.symm))
      simp only [e "schema" (by decide), e "scalar" (by decide), e "type" (by decide), e "interface" (by decide),
        e "union" (by decide), e "enum" (by decide), e "input" (by decide), Bool.false_eq_true, if_false] at e2
      exact errc e2
  simp only [h3, Bool.false_eq_true, if_false] at h
  by_cases h4 : kw "fragment" d = true
  · simp only [h4, if_true] at h; exact L.fragment.2 s () s' w he (start _ h4) h hnd
  simp only [h4, Bool.false_eq_true, if_false] at h
  by_cases h5 : kw "input" d = true
  · simp only [h5, if_true] at h; exact L.input.2 s () s' w he (start _ h5) h hnd
  simp only [h5, Bool.false_eq_true, if_false] at h
  by_cases h6 : kw "interface" d = true
  · simp only [h6, if_true] at h; exact L.interface.2 s () s' w he (start _ h6) h hnd
  simp only [h6, Bool.false_eq_true, if_false] at h
  by_cases h7 : kw "type" d = true
  · simp only [h7, if_true] at h; exact L.object.2 s () s' w he (start _ h7) h hnd
  simp only [h7, Bool.false_eq_true, if_false] at h
  by_cases h8 : (kw "query" d || kw "mutation" d || kw "subscription" d || kw "{" d) = true
  · simp only [h8, if_true] at h
    simp only [Bool.or_eq_true] at h8
    rcases h8 with ((h8 | h8) | h8) | h8
    · exact L.opQuery.2 s () s' w he (start _ h8) h hnd
    · exact L.opMutation.2 s () s' w he (start _ h8) h hnd
    · exact L.opSubscription.2 s () s' w he (start _ h8) h hnd
    · exact L.opShorthand.2 s () s' w he (start _ h8) h hnd
  simp only [h8, Bool.false_eq_true, if_false] at h
  by_cases h9 : kw "scalar" d = true
  · simp only [h9, if_true] at h; exact L.scalar.2 s () s' w he (start _ h9) h hnd
  simp only [h9, Bool.false_eq_true, if_false] at h
  by_cases h10 : kw "schema" d = true
  · simp only [h10, if_true] at h; exact L.schema.2 s () s' w he (start _ h10) h hnd
  simp only [h10, Bool.false_eq_true, if_false] at h
  by_cases h11 : kw "union" d = true
  · simp only [h11, if_true] at h; exact L.union.2 s () s' w he (start _ h11) h hnd
  simp only [h11, Bool.false_eq_true, if_false] at h
  exact errc h

/-- **the dispatcher of `document()`**: on a token of a kind other than EOF, an error-free run consumes exactly
    the tokens of one definition of the grammar -/
theorem documentDispatch_sound {n : Nat} (L : DefLemmas n) (s s' : PState) (t : Tok) (rest : List Tok)
    (w : TW s) (he : EofEnd s) (hs : LexQ (Toks s)) (hc : s.current = some t) (ht : Toks s = t :: rest)
    (h : (documentDispatch n t.kind).run s = .ok () s') (hnd : ¬ Doomed s') : AccRes (fun _ => False) s s' IsDef := by
  have errc : ∀ s1, s1 = s → errAndPop.run s1 = .ok () s' → AccRes (fun _ => False) s s' IsDef := fun s1 e h' => by
    subst e
    exact (acc_errAndPop (E := fun _ => False) (H := fun _ => True) (R := fun _ => IsDef)).2 s1 () s' w he trivial h' hnd
  unfold documentDispatch at h
  by_cases hk : (t.kind == .stringValue) = true
  · simp only [hk, if_true] at h
    have hk' : t.kind = .stringValue := by simpa using hk
    obtain ⟨d, s1, e1, e2⟩ := bind_dec (peekDataN 2) _ s s' () h
    obtain ⟨rfl, hdat⟩ := peekDataN2_spec s s1 d t rest w hc ht (by rw [hk']; rfl) e1
    cases hq : (sig rest).head? with
    | none =>
      rw [hq] at hdat; subst hdat
      exact errc s1 rfl e2
    | some t2 =>
      rw [hq] at hdat; subst hdat
      exact selectDefinition_sound L t2.data s1 s' t rest w he hs hc ht (.inr ⟨hk', t2, hq, rfl⟩) e2 hnd
  · simp only [hk, Bool.false_eq_true, if_false] at h
    by_cases hk2 : (t.kind == .name || t.kind == .lCurly) = true
    · simp only [hk2, if_true] at h
      obtain ⟨d, s1, e1, e2⟩ := bind_dec peekData _ s s' () h
      obtain ⟨rfl, hdat⟩ := peekData_cur s s1 d t hc e1
      subst hdat
      have hk2' : t.kind = .name ∨ t.kind = .lCurly := by simpa using hk2
      exact selectDefinition_sound L t.data s1 s' t rest w he hs hc ht (.inl ⟨hk2', rfl⟩) e2 hnd
    · simp only [hk2, Bool.false_eq_true, if_false] at h
      exact errc s rfl h

end Apollo.Parse
