import ApolloModel.Proofs.SchemaBuildSpec3
/-
C14 growth 3, fourth part: schema definitions / extensions, directive definitions, executable definitions.
-/
namespace Apollo.SchemaBuild

theorem fresh_nil_right (M : List Name) : Fresh M [] := by simp [Fresh]

theorem extendSchema_spec (sd : SchemaDefn) (e : Def) (errs : List Err) (M : List Name)
    (hM : Views sd.body.members M) (hI : Views sd.body.interfaces []) (he : e.interfaces = []) :
    Views (extendSchema sd e errs).1.body.members (M ++ mems e) ∧
    Views (extendSchema sd e errs).1.body.interfaces [] ∧
    (extendSchema sd e errs).1.pos = sd.pos ∧
    Grow errs (extendSchema sd e errs).2 (Fresh M (mems e)) := by
  obtain ⟨h1, h2, h3⟩ := extendBody_spec noIface dupRoot (some e.pos) sd.body e errs M [] hM hI
  refine ⟨h1, ?_, rfl, h3.congr ?_⟩
  · have : ([] : List Name) ++ names e.interfaces = [] := by rw [he]; rfl
    rw [this] at h2; exact h2
  · rw [he]; simp [names, fresh_nil_right, mems]

theorem schemaOfDef_spec (d : Def) (errs : List Err) (hd : d.interfaces = []) :
    Views (schemaOfDef d errs).1.body.members (mems d) ∧
    Views (schemaOfDef d errs).1.body.interfaces [] ∧
    Grow errs (schemaOfDef d errs).2 (mems d).Nodup := by
  obtain ⟨h1, h2, h3⟩ := extendBody_spec noIface dupRoot none Body.empty d errs [] [] views_nil views_nil
  refine ⟨h1, ?_, h3.congr ?_⟩
  · have : ([] : List Name) ++ names d.interfaces = [] := by rw [hd]; rfl
    rw [this] at h2; exact h2
  · rw [hd, fresh_nil]; simp [names, fresh_nil_right, mems]

theorem schemaFold_spec : ∀ (exts : List Def) (acc : SchemaDefn × List Err) (M : List Name),
    Views acc.1.body.members M → Views acc.1.body.interfaces [] → (∀ e ∈ exts, e.interfaces = []) →
    Views (exts.foldl schemaStep acc).1.body.members (M ++ exts.flatMap mems) ∧
    Views (exts.foldl schemaStep acc).1.body.interfaces [] ∧
    Grow acc.2 (exts.foldl schemaStep acc).2 (ChainFresh mems M exts) := by
  intro exts
  induction exts with
  | nil =>
    intro acc M hM hI _
    exact ⟨by simpa using hM, hI, (Grow.refl _).congr (by simp [ChainFresh])⟩
  | cons e r ih =>
    intro acc M hM hI hwf
    rw [List.foldl_cons]
    obtain ⟨v1, v2, _, g1⟩ := extendSchema_spec acc.1 e acc.2 M hM hI (hwf e List.mem_cons_self)
    obtain ⟨v3, v4, g2⟩ := ih (schemaStep acc e) (M ++ mems e) v1 v2 (fun x hx => hwf x (List.mem_cons_of_mem _ hx))
    refine ⟨?_, v4, (g1.trans g2).congr (by simp [ChainFresh])⟩
    simpa [List.flatMap_cons, List.append_assoc] using v3

theorem no_schemaDef_of_count {pre : List Def} (h : schemaDefCount pre = 0) : ∀ e ∈ pre, e.isSchemaDef = false := by
  intro e he
  unfold schemaDefCount at h
  have := List.length_eq_zero_iff.mp h
  cases hk : e.isSchemaDef with
  | false => rfl
  | true =>
    have : e ∈ pre.filter Def.isSchemaDef := List.mem_filter.mpr ⟨he, hk⟩
    simp_all

theorem schemaOpNames_of_count {pre : List Def} (h : schemaDefCount pre = 0) :
    schemaOpNames pre = (schemaExts pre).flatMap mems := by
  unfold schemaOpNames schemaExts
  have : pre.filter Def.isSchemaPart = pre.filter Def.isSchemaExt := by
    apply List.filter_congr
    intro e he
    simp [Def.isSchemaPart, no_schemaDef_of_count h e he]
  rw [this]; rfl

theorem isSchemaDef_iff (d : Def) : d.isSchemaDef = true ↔ d.tag = .schemaDef := by simp [Def.isSchemaDef]
theorem isSchemaExt_iff (d : Def) : d.isSchemaExt = true ↔ d.tag = .schemaExt := by simp [Def.isSchemaExt]
theorem isDirectiveDef_iff (d : Def) : d.isDirectiveDef = true ↔ d.tag = .directiveDef := by simp [Def.isDirectiveDef]

/-- the schema-definition case of `step` -/
def stepSchemaDef (s : Builder) (d : Def) : Builder :=
  if s.schemaFound then push s d.pos .schemaDefinitionCollision
  else
    { s with schemaDef := (schemaFromAst d s.orphanSchemaExts s.errors).1, schemaFound := true, orphanSchemaExts := [],
             errors := (schemaFromAst d s.orphanSchemaExts s.errors).2 }

theorem step_schemaDef (s : Builder) (d : Def) (h : d.tag = .schemaDef) : step s d = stepSchemaDef s d := by
  unfold step stepSchemaDef; rw [h]

/-- the schema-extension case of `step` -/
def stepSchemaExt (s : Builder) (d : Def) : Builder :=
  if s.schemaFound then
    { s with schemaDef := (extendSchema s.schemaDef d s.errors).1, errors := (extendSchema s.schemaDef d s.errors).2 }
  else { s with orphanSchemaExts := s.orphanSchemaExts ++ [d] }

theorem step_schemaExt (s : Builder) (d : Def) (h : d.tag = .schemaExt) : step s d = stepSchemaExt s d := by
  unfold step stepSchemaExt; rw [h]

theorem stepSchemaDef_spec (pre : List Def) (s : Builder) (d : Def) (hi : SInv pre s) (hwf : WellFormed (pre ++ [d]))
    (htag : d.tag = .schemaDef) :
    Grow s.errors (stepSchemaDef s d).errors (SOK pre d) ∧
    ((stepSchemaDef s d).errors = s.errors → SInv (pre ++ [d]) (stepSchemaDef s d)) := by
  have hsd : d.isSchemaDef = true := (isSchemaDef_iff d).mpr htag
  have hse : d.isSchemaExt = false := schemaDef_not_ext d hsd
  have hpart : d.isSchemaPart = true := by simp [Def.isSchemaPart, hsd]
  have hdi : d.interfaces = [] := hwf d (by simp) hpart
  have hsok : SOK pre d ↔ schemaDefCount pre = 0 ∧ (schemaOpNames pre ++ names d.members).Nodup := by
    unfold SOK
    constructor
    · intro h; exact h.1 hsd
    · intro h; exact ⟨fun _ => h, fun hx => by rw [hse] at hx; cases hx⟩
  rw [hsok]
  unfold stepSchemaDef
  by_cases hfound : s.schemaFound = true
  · rw [if_pos hfound]
    refine ⟨(Grow.push _ _).congr ?_, fun h => by simp [push] at h⟩
    constructor
    · intro h; exact absurd h id
    · intro h; exact hi.found.mp hfound h.1
  · rw [if_neg hfound]
    have hnf : s.schemaFound = false := by simpa using hfound
    have hc : schemaDefCount pre = 0 := by
      cases hcc : schemaDefCount pre with
      | zero => rfl
      | succ m => exact absurd (hi.found.mpr (by rw [hcc]; simp)) hfound
    obtain ⟨hq, hsdef⟩ := hi.whenNot hnf
    have hops := schemaOpNames_of_count hc
    obtain ⟨v1, v2, g1⟩ := schemaOfDef_spec d s.errors hdi
    have hwfq : ∀ e ∈ s.orphanSchemaExts, e.interfaces = [] := by
      intro e he
      rw [hq] at he
      unfold schemaExts at he
      obtain ⟨hm, hx⟩ := List.mem_filter.mp he
      exact hwf e (List.mem_append_left _ hm) (by simp [Def.isSchemaPart, hx])
    obtain ⟨v3, v4, g2⟩ := schemaFold_spec s.orphanSchemaExts (schemaOfDef d s.errors) (mems d) v1 v2 hwfq
    have hfa : schemaFromAst d s.orphanSchemaExts s.errors = s.orphanSchemaExts.foldl schemaStep (schemaOfDef d s.errors) := rfl
    rw [hfa]
    refine ⟨(g1.trans g2).congr ?_, fun _ => ⟨?_, ?_, ?_⟩⟩
    · rw [chain_nodup mems, hops, hq, List.perm_append_comm.nodup_iff]
      constructor
      · intro h; exact ⟨hc, h⟩
      · intro h; exact h.2
    · rw [schemaDefCount_snoc, if_pos hsd]; simp
    · intro _
      refine ⟨rfl, ?_, v4⟩
      rw [schemaOpNames_snoc, if_pos hpart, hops, ← hq]
      exact views_comm v3
    · intro h; cases h

theorem stepSchemaExt_spec (pre : List Def) (s : Builder) (d : Def) (hi : SInv pre s) (hp : PS pre)
    (hwf : WellFormed (pre ++ [d])) (htag : d.tag = .schemaExt) :
    Grow s.errors (stepSchemaExt s d).errors (SOK pre d) ∧
    ((stepSchemaExt s d).errors = s.errors → SInv (pre ++ [d]) (stepSchemaExt s d)) := by
  have hse : d.isSchemaExt = true := (isSchemaExt_iff d).mpr htag
  have hsd : d.isSchemaDef = false := by simp [Def.isSchemaDef, htag]
  have hpart : d.isSchemaPart = true := by simp [Def.isSchemaPart, hse]
  have hdi : d.interfaces = [] := hwf d (by simp) hpart
  have hc : schemaDefCount (pre ++ [d]) = schemaDefCount pre := by rw [schemaDefCount_snoc, hsd]; rfl
  have hsok : SOK pre d ↔ (schemaDefCount pre ≠ 0 → (schemaOpNames pre ++ names d.members).Nodup) := by
    unfold SOK
    constructor
    · intro h; exact h.2 hse
    · intro h; exact ⟨fun hx => (by rw [hsd] at hx; cases hx), fun _ => h⟩
  rw [hsok]
  unfold stepSchemaExt
  by_cases hfound : s.schemaFound = true
  · rw [if_pos hfound]
    have hne := hi.found.mp hfound
    obtain ⟨hq, vM, vI⟩ := hi.whenFound hfound
    obtain ⟨v1, v2, _, g⟩ := extendSchema_spec s.schemaDef d s.errors _ vM vI hdi
    refine ⟨g.congr ?_, fun _ => ⟨?_, ?_, ?_⟩⟩
    · have hnd := hp.uniqueOps hne
      constructor
      · intro h _; exact (nodup_append_fresh _ _).mpr ⟨hnd, h⟩
      · intro h; exact ((nodup_append_fresh _ _).mp (h hne)).2
    · rw [hc]; exact hi.found
    · intro _
      refine ⟨hq, ?_, v2⟩
      rw [schemaOpNames_snoc, if_pos hpart]; exact v1
    · intro h; exact absurd hfound (by rw [show s.schemaFound = false from h]; simp)
  · rw [if_neg hfound]
    have hnf : s.schemaFound = false := by simpa using hfound
    have hc0 : schemaDefCount pre = 0 := by
      cases hcc : schemaDefCount pre with
      | zero => rfl
      | succ m => exact absurd (hi.found.mpr (by rw [hcc]; simp)) hfound
    obtain ⟨hq, hsdef⟩ := hi.whenNot hnf
    refine ⟨(Grow.refl _).congr ?_, fun _ => ⟨?_, ?_, ?_⟩⟩
    · constructor
      · intro _ hne; exact absurd hc0 hne
      · intro _; trivial
    · rw [hc]; exact hi.found
    · intro h; exact absurd h hfound
    · intro _
      refine ⟨?_, hsdef⟩
      show s.orphanSchemaExts ++ [d] = _
      rw [schemaExts_snoc, if_pos hse, hq]


/-! ### a directive definition -/

theorem findDir_append (ds : List DirEntry) (x : DirEntry) (n : Name) :
    findDir (ds ++ [x]) n = (findDir ds n).or (if x.name == n then some x else none) := by
  unfold findDir
  rw [List.find?_append]
  simp [List.find?_cons]
  split <;> simp_all

theorem findDir_replace (ds : List DirEntry) (a : Name) (y : DirEntry) (h : y.name = a) (n : Name) :
    findDir (ds.map (fun x => if x.name == a then y else x)) n =
      if n = a then (findDir ds a).map (fun _ => y) else findDir ds n := by
  unfold findDir
  exact find_replace (fun t : DirEntry => t.name) a y h n ds

theorem stepDirectiveDef_frame (s : Builder) (d : Def) :
    (stepDirectiveDef s d).adopt = s.adopt ∧ (stepDirectiveDef s d).ignoreBuiltin = s.ignoreBuiltin ∧
    (stepDirectiveDef s d).types = s.types ∧ (stepDirectiveDef s d).orphanQ = s.orphanQ ∧
    (stepDirectiveDef s d).schemaDef = s.schemaDef ∧
    (stepDirectiveDef s d).schemaFound = s.schemaFound ∧ (stepDirectiveDef s d).orphanSchemaExts = s.orphanSchemaExts := by
  unfold stepDirectiveDef
  cases findDir s.directiveDefs d.name with
  | none => exact ⟨rfl, rfl, rfl, rfl, rfl, rfl, rfl⟩
  | some prev =>
    by_cases h : prev.builtin = true
    · simp [h]
    · simp [h, push]

theorem stepDirectiveDef_spec (pre : List Def) (s : Builder) (d : Def) (hi : DInv pre s) (htag : d.tag = .directiveDef) :
    Grow s.errors (stepDirectiveDef s d).errors (d.name ∉ dirDefNames pre) ∧
    ((stepDirectiveDef s d).errors = s.errors → DInv (pre ++ [d]) (stepDirectiveDef s d)) := by
  have hdd : d.isDirectiveDef = true := (isDirectiveDef_iff d).mpr htag
  have hnames : dirDefNames (pre ++ [d]) = dirDefNames pre ++ [d.name] := by rw [dirDefNames_snoc, if_pos hdd]
  cases hf : findDir s.directiveDefs d.name with
  | none =>
    have heq : stepDirectiveDef s d = { s with directiveDefs := s.directiveDefs ++ [⟨d.name, some d.pos, false⟩] } := by
      unfold stepDirectiveDef; rw [hf]
    rw [heq]
    refine ⟨(Grow.refl _).congr ⟨fun _ => hi.unknown _ hf, fun _ => trivial⟩, fun _ => ⟨?_, ?_⟩⟩
    · intro n hn
      change findDir (s.directiveDefs ++ [_]) n = none at hn
      rw [findDir_append, Option.or_eq_none_iff] at hn
      rw [hnames, List.mem_append, not_or]
      refine ⟨hi.unknown n hn.1, ?_⟩
      intro hmem
      have : n = d.name := by simpa using hmem
      simp [this] at hn
    · intro n e he
      change findDir (s.directiveDefs ++ [_]) n = some e at he
      rw [findDir_append, Option.or_eq_some_iff] at he
      rw [hnames, List.mem_append, not_or]
      rcases he with he | ⟨hn, he⟩
      · have hne : ¬ n = d.name := fun h => by rw [h, hf] at he; cases he
        rw [hi.builtin n e he]
        simp [hne]
      · by_cases hnd : d.name = n
        · have : e = ⟨d.name, some d.pos, false⟩ := by simpa [hnd] using he.symm
          rw [this]
          simp [hnd]
        · simp [hnd] at he
  | some prev =>
    by_cases hb : prev.builtin = true
    · have heq : stepDirectiveDef s d = { s with directiveDefs := s.directiveDefs.map (fun x => if x.name == d.name then ⟨d.name, some d.pos, false⟩ else x) } := by
        unfold stepDirectiveDef; rw [hf]; simp only [hb, if_true]
      rw [heq]
      have hnot := (hi.builtin _ _ hf).mp hb
      refine ⟨(Grow.refl _).congr ⟨fun _ => hnot, fun _ => trivial⟩, fun _ => ⟨?_, ?_⟩⟩
      · intro n hn
        change findDir (s.directiveDefs.map _) n = none at hn
        rw [findDir_replace s.directiveDefs d.name ⟨d.name, some d.pos, false⟩ rfl n] at hn
        by_cases hnd : n = d.name
        · rw [if_pos hnd, hf] at hn; cases hn
        · rw [if_neg hnd] at hn
          rw [hnames, List.mem_append, not_or]
          exact ⟨hi.unknown n hn, by simpa using hnd⟩
      · intro n e he
        change findDir (s.directiveDefs.map _) n = some e at he
        rw [findDir_replace s.directiveDefs d.name ⟨d.name, some d.pos, false⟩ rfl n] at he
        rw [hnames, List.mem_append, not_or]
        by_cases hnd : n = d.name
        · rw [if_pos hnd, hf] at he
          have : e = ⟨d.name, some d.pos, false⟩ := by simpa using he.symm
          rw [this]
          simp [hnd]
        · rw [if_neg hnd] at he
          rw [hi.builtin n e he]
          simp [hnd]
    · have heq : stepDirectiveDef s d = push s d.namePos (.directiveDefinitionCollision d.name) := by
        unfold stepDirectiveDef; rw [hf]; simp only [hb]; rfl
      rw [heq]
      refine ⟨(Grow.push _ _).congr ?_, fun h => by simp [push] at h⟩
      constructor
      · intro h; exact absurd h id
      · intro h; exact hb ((hi.builtin _ _ hf).mpr h)

/-! ### one step, any definition -/

theorem SOK_other (pre : List Def) (d : Def) (h : d.isSchemaPart = false) : SOK pre d := by
  unfold SOK
  constructor
  · intro hx; simp [Def.isSchemaPart, hx] at h
  · intro hx; simp [Def.isSchemaPart, hx] at h

theorem stepSchemaDef_frame (s : Builder) (d : Def) :
    (stepSchemaDef s d).adopt = s.adopt ∧ (stepSchemaDef s d).ignoreBuiltin = s.ignoreBuiltin ∧
    (stepSchemaDef s d).types = s.types ∧ (stepSchemaDef s d).orphanQ = s.orphanQ ∧
    (stepSchemaDef s d).directiveDefs = s.directiveDefs := by
  unfold stepSchemaDef
  by_cases h : s.schemaFound = true
  · rw [if_pos h]; exact ⟨rfl, rfl, rfl, rfl, rfl⟩
  · rw [if_neg h]; exact ⟨rfl, rfl, rfl, rfl, rfl⟩

theorem stepSchemaExt_frame (s : Builder) (d : Def) :
    (stepSchemaExt s d).adopt = s.adopt ∧ (stepSchemaExt s d).ignoreBuiltin = s.ignoreBuiltin ∧
    (stepSchemaExt s d).types = s.types ∧ (stepSchemaExt s d).orphanQ = s.orphanQ ∧
    (stepSchemaExt s d).directiveDefs = s.directiveDefs := by
  unfold stepSchemaExt
  by_cases h : s.schemaFound = true
  · rw [if_pos h]; exact ⟨rfl, rfl, rfl, rfl, rfl⟩
  · rw [if_neg h]; exact ⟨rfl, rfl, rfl, rfl, rfl⟩

theorem step_spec (pre : List Def) (s : Builder) (d : Def) (hi : Inv pre s) (hp : PrefixSpec pre)
    (hwf : WellFormed (pre ++ [d])) :
    Grow s.errors (step s d).errors (StepOK pre d) ∧ ((step s d).errors = s.errors → Inv (pre ++ [d]) (step s d)) := by
  cases htag : d.tag with
  | schemaDef =>
    have h1 : d.isTypePart = false := by simp [Def.isTypePart, Def.defKind, Def.extKind, htag]
    have h2 : d.isDirectiveDef = false := by simp [Def.isDirectiveDef, htag]
    rw [step_schemaDef s d htag]
    obtain ⟨g, hinv⟩ := stepSchemaDef_spec pre s d hi.sch hwf htag
    obtain ⟨f1, f2, f3, f4, f5⟩ := stepSchemaDef_frame s d
    refine ⟨g.congr ?_, fun hs => ⟨f1.trans hi.adopt, f2.trans hi.ignore, TInv_other hi.t h1 f3 f4, hinv hs, DInv_other hi.d h2 f5⟩⟩
    exact ⟨fun h => ⟨by simp [htag], fun hx => (by rw [h2] at hx; cases hx), h, TOK_other pre d h1⟩, fun h => h.schema⟩
  | schemaExt =>
    have h1 : d.isTypePart = false := by simp [Def.isTypePart, Def.defKind, Def.extKind, htag]
    have h2 : d.isDirectiveDef = false := by simp [Def.isDirectiveDef, htag]
    rw [step_schemaExt s d htag]
    obtain ⟨g, hinv⟩ := stepSchemaExt_spec pre s d hi.sch hp.schema hwf htag
    obtain ⟨f1, f2, f3, f4, f5⟩ := stepSchemaExt_frame s d
    refine ⟨g.congr ?_, fun hs => ⟨f1.trans hi.adopt, f2.trans hi.ignore, TInv_other hi.t h1 f3 f4, hinv hs, DInv_other hi.d h2 f5⟩⟩
    exact ⟨fun h => ⟨by simp [htag], fun hx => (by rw [h2] at hx; cases hx), h, TOK_other pre d h1⟩, fun h => h.schema⟩
  | directiveDef =>
    have h1 : d.isTypePart = false := by simp [Def.isTypePart, Def.defKind, Def.extKind, htag]
    have h2 : d.isSchemaPart = false := by simp [Def.isSchemaPart, Def.isSchemaDef, Def.isSchemaExt, htag]
    have heq : step s d = stepDirectiveDef s d := by unfold step; rw [htag]
    rw [heq]
    obtain ⟨g, hinv⟩ := stepDirectiveDef_spec pre s d hi.d htag
    obtain ⟨f1, f2, f3, f4, f5, f6, f7⟩ := stepDirectiveDef_frame s d
    refine ⟨g.congr ?_, fun hs => ⟨f1.trans hi.adopt, f2.trans hi.ignore, TInv_other hi.t h1 f3 f4, SInv_other hi.sch h2 f6 f5 f7, hinv hs⟩⟩
    exact ⟨fun h => ⟨by simp [htag], fun _ => h, SOK_other pre d h2, TOK_other pre d h1⟩,
      fun h => h.dirs ((isDirectiveDef_iff d).mpr htag)⟩
  | typeDef k =>
    have h2 : d.isSchemaPart = false := by simp [Def.isSchemaPart, Def.isSchemaDef, Def.isSchemaExt, htag]
    have h3 : d.isDirectiveDef = false := by simp [Def.isDirectiveDef, htag]
    have heq : step s d = stepTypeDef s k d := by unfold step; rw [htag]
    rw [heq]
    obtain ⟨g, hinv⟩ := stepTypeDef_spec pre s d k hi.t hi.ignore htag
    obtain ⟨f1, f2, f3, f4, f5, f6⟩ := stepTypeDef_frame s k d
    refine ⟨g.congr ?_, fun hs => ⟨f1.trans hi.adopt, f2.trans hi.ignore, hinv hs, SInv_other hi.sch h2 f5 f4 f6, DInv_other hi.d h3 f3⟩⟩
    exact ⟨fun h => ⟨by simp [htag], fun hx => (by rw [h3] at hx; cases hx), SOK_other pre d h2, h⟩, fun h => h.types⟩
  | typeExt k =>
    have h2 : d.isSchemaPart = false := by simp [Def.isSchemaPart, Def.isSchemaDef, Def.isSchemaExt, htag]
    have h3 : d.isDirectiveDef = false := by simp [Def.isDirectiveDef, htag]
    have heq : step s d = stepTypeExt s k d := by unfold step; rw [htag]
    rw [heq]
    obtain ⟨g, hinv⟩ := stepTypeExt_spec pre s d k hi.t hp.types htag
    obtain ⟨f1, f2, f3, f4, f5, f6⟩ := stepTypeExt_frame s k d
    refine ⟨g.congr ?_, fun hs => ⟨f1.trans hi.adopt, f2.trans hi.ignore, hinv hs, SInv_other hi.sch h2 f5 f4 f6, DInv_other hi.d h3 f3⟩⟩
    exact ⟨fun h => ⟨by simp [htag], fun hx => (by rw [h3] at hx; cases hx), SOK_other pre d h2, h⟩, fun h => h.types⟩
  | operation =>
    have heq : step s d = push s d.pos (.executableDefinition false) := by unfold step; rw [htag]
    rw [heq]
    refine ⟨(Grow.push _ _).congr ⟨fun h => absurd h id, fun h => h.noExec.1 htag⟩, fun h => by simp [push] at h⟩
  | fragment =>
    have heq : step s d = push s d.pos (.executableDefinition true) := by unfold step; rw [htag]
    rw [heq]
    refine ⟨(Grow.push _ _).congr ⟨fun h => absurd h id, fun h => h.noExec.2 htag⟩, fun h => by simp [push] at h⟩

end Apollo.SchemaBuild
