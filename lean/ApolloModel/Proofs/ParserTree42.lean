import ApolloModel.Proofs.ParserTree41
import ApolloModel.Proofs.ParserTreeInj2
/-
C08 growth (pipeline), part 42: step (1) for the type system — the exact budget of a loose definition implies the
well-formedness facts (`looseFitX → LooseDef.wf`), so the item of the exact soundness calculus and the strict loose
definition of the tree calculus on the same tokens are the same (builderA's `loose_tokens_strict`); every strict item of an
accepted document is within the exact budget of the accepted run.
-/
set_option linter.unusedSimpArgs false
set_option linter.unusedVariables false
namespace Apollo.Parse.Exact
open Apollo.Rowan hiding Str
open Apollo.Lex hiding Str
open Apollo.FromCst (All2 looseConv)

theorem ivdsFit_wf {b : Nat} : ∀ (fs : List Ast.InputValueDef), (∀ v ∈ fs, ivdFit b v) → Ast.wfIVDs fs = true
  | [], _ => rfl
  | v :: r, h => by
    simp only [Ast.wfIVDs, Bool.and_eq_true]
    obtain ⟨_, hd, hdirs⟩ := h v (by simp)
    refine ⟨⟨?_, dirsFit_wf hdirs⟩, ivdsFit_wf r (fun x hx => h x (by simp [hx]))⟩
    cases hv : v.default with
    | none => rfl
    | some d => exact valueOk_wf true d (hd d hv).1

theorem fieldsFit_wf {b : Nat} : ∀ (fs : List Ast.FieldDef), (∀ f ∈ fs, fieldFit b f) → Ast.wfFieldDefs fs = true
  | [], _ => rfl
  | f :: r, h => by
    simp only [Ast.wfFieldDefs, Bool.and_eq_true]
    obtain ⟨ha, _, hd⟩ := h f (by simp)
    exact ⟨⟨ivdsFit_wf f.args ha, dirsFit_wf hd⟩, fieldsFit_wf r (fun x hx => h x (by simp [hx]))⟩

theorem enumValsFit_wf {b : Nat} : ∀ (vs : List Ast.EnumValueDef), (∀ v ∈ vs, enumValFit b v) →
    Ast.wfEnumValueDefs vs = true ∧ vs.all (fun v => !isValueKeyword v.value) = true
  | [], _ => ⟨rfl, rfl⟩
  | v :: r, h => by
    obtain ⟨h1, h2⟩ := h v (by simp)
    obtain ⟨i1, i2⟩ := enumValsFit_wf r (fun x hx => h x (by simp [hx]))
    simp only [Ast.wfEnumValueDefs, List.all_cons, Bool.and_eq_true]
    exact ⟨⟨dirsFit_wf h2, i1⟩, by simp [h1], i2⟩

/-- **the exact budget of a loose type-system definition implies the well-formedness facts** -/
theorem looseFitX_wf (b : Nat) (l : LooseDef) (h : looseFitX b l) : l.wf = true := by
  cases l <;> simp only [looseFitX, looseFit, objFit] at h <;> simp only [LooseDef.wf, Bool.and_eq_true]
  case scalar => exact dirsFit_wf h
  case object => exact ⟨dirsFit_wf h.1, fieldsFit_wf _ h.2⟩
  case interface => exact ⟨dirsFit_wf h.1, fieldsFit_wf _ h.2⟩
  case union => exact dirsFit_wf h
  case enum => exact ⟨⟨dirsFit_wf h.1, (enumValsFit_wf _ h.2).1⟩, (enumValsFit_wf _ h.2).2⟩
  case input => exact ⟨dirsFit_wf h.1, ivdsFit_wf _ h.2⟩
  case directive => exact ivdsFit_wf _ h.1
  case schema desc ds roots =>
    refine ⟨dirsFit_wf h.1, ?_⟩
    cases roots with
    | nil => exact absurd rfl h.2
    | cons a r => rfl
  case scalarExt => exact dirsFit_wf h.2
  case objectExt => exact ⟨dirsFit_wf h.2.1, fieldsFit_wf _ h.2.2⟩
  case interfaceExt => exact ⟨dirsFit_wf h.2.1, fieldsFit_wf _ h.2.2⟩
  case unionExt => exact dirsFit_wf h.2
  case enumExt => exact ⟨⟨dirsFit_wf h.2.1, (enumValsFit_wf _ h.2.2).1⟩, (enumValsFit_wf _ h.2.2).2⟩
  case inputExt => exact ⟨dirsFit_wf h.2.1, ivdsFit_wf _ h.2.2⟩
  case schemaExt => exact dirsFit_wf h.2

/-- **identification, type-system definitions**: the item of the exact soundness calculus spelled by the same tokens as a
    STRICT loose definition of the tree calculus is that loose definition -/
theorem loose_item_fit (rl : Nat) (l : LooseDef) (d : Ast.Definition) (hs : l.strict = some d) (hw : l.wf = true)
    (cs : List Tok) (h1 : TokIs cs l.toks) (i' : DocItem) (h2 : TokIs cs i'.toks) (hf : itemFitX rl i') : looseFitX rl l := by
  have hwd : Ast.wfDefinition d = true := LooseDef.wf_strict l d hs hw
  have hlt : l.toks = Ast.tDefinition false d := LooseDef.toks_strict l d hs
  cases i' with
  | exec oe' d' =>
    exfalso
    have hf' : execFit rl d' := hf
    have heq : Ast.tDefinition oe' d' = l.toks := tokIs_inj h2 h1
    have e1 := looseDef_tsStart l
    have e2 := exec_head oe' d' [] (execFit_executable hf')
    rw [List.append_nil, heq, e1] at e2
    cases e2
  | loose l' =>
    have hf' : looseFitX rl l' := hf
    have heq : l'.toks = Ast.tDefinition false d := (tokIs_inj h2 h1).trans hlt
    have hs' := loose_tokens_strict l' d (looseFitX_wf rl l' hf') hwd heq
    have e1 := itemOfDef_of_strict l d hs
    have e2 := itemOfDef_of_strict l' d hs'
    have : l' = l := by
      rw [e1] at e2
      exact (DocItem.loose.inj e2).symm
    rw [← this]; exact hf'

/-- one definition of an accepted document with the exact budget of the run when it is strict -/
theorem docItem_fitX (rl : Nat) (cs : List Tok) (e : List Elem) (h : FitQ (fun cs e => ExecItemR cs e ∨ TsAny cs e) rl cs e) :
    ∃ (i : DocItem) (ed : Elem), TokIs cs i.toks ∧ i.wfB ∧ e = [ed] ∧ DefConv i.conv ed ∧
      (∀ a, i.strict = some a → itemFitX rl i) := by
  obtain ⟨hq, i', hi1, hi2⟩ := h
  rcases hq with ⟨it, ed, a, b, c, d, e', _⟩ | ⟨l, ed, a, b, c, d⟩
  · exact ⟨.exec it.1 it.2, ed, a, b, c, d, fun _ _ => exec_item_fit rl it b e' cs a i' hi1 hi2⟩
  · obtain ⟨i, ed', x1, x2, x3, x4⟩ := docItemR_of_ts ⟨l, ed, a, b, c, d⟩
    obtain ⟨K, kcs, rfl, hk, _⟩ := FromCst.defTree_kind l ed d
    refine ⟨.loose l, _, a, b, c, ⟨by rw [FromCst.nodeP_node]; exact hk, fun m hm => FromCst.cDefinition_defTree m l _ d hm⟩, ?_⟩
    intro a' ha'
    simp only [DocItem.strict, Option.map_eq_some_iff] at ha'
    obtain ⟨dd, hdd, _⟩ := ha'
    exact loose_item_fit rl l dd hdd b cs a i' hi1 hi2

theorem docItems_collectX (P : DocItem → Prop) : ∀ (items : List (List Tok × List Elem)),
    (∀ i ∈ items, ∃ (it : DocItem) (ed : Elem), TokIs i.1 it.toks ∧ it.wfB ∧ i.2 = [ed] ∧ DefConv it.conv ed ∧ P it) →
    ∃ (its : List DocItem) (eds : List Elem), TokIs (items.map (·.1)).flatten (docToks its) ∧
      (items.map (·.2)).flatten = eds ∧ its.length = items.length ∧ (∀ i ∈ its, i.wfB ∧ P i) ∧
      All2 (fun e (i : DocItem) => DefConv i.conv e) eds its
  | [], _ => ⟨[], [], TokIs.nil, rfl, rfl, (by intro i hi; cases hi), All2.nil⟩
  | i :: items, h => by
    obtain ⟨its, eds, h1, h2, h3, h4, h5⟩ := docItems_collectX P items (fun j hj => h j (List.mem_cons_of_mem _ hj))
    obtain ⟨it, ed, ht, hw, he, hc, hp⟩ := h i List.mem_cons_self
    refine ⟨it :: its, ed :: eds, ?_, ?_, by simp [h3], ?_, All2.cons hc h5⟩
    · simp only [List.map_cons, List.flatten_cons, docToks]
      exact ht.append h1
    · simp only [List.map_cons, List.flatten_cons, he, h2]; rfl
    · intro j hj
      rcases List.mem_cons.mp hj with rfl | hj
      · exact ⟨hw, hp⟩
      · exact h4 j hj

theorem strict_each : ∀ (its : List DocItem) (items : List Ast.Item), strictItems its = some items →
    ∀ i ∈ its, ∃ a, i.strict = some a
  | [], _, _, i, hi => by cases hi
  | j :: r, items, hs, i, hi => by
    simp only [strictItems] at hs
    cases hj : j.strict with
    | none => rw [hj] at hs; simp at hs
    | some a =>
      cases hr : strictItems r with
      | none => rw [hj, hr] at hs; simp at hs
      | some b =>
        rcases List.mem_cons.mp hi with rfl | hi'
        · exact ⟨a, hj⟩
        · exact strict_each r b hr i hi'

/-- **every accepted document, with the exact budget**: as `parseDocument_agrees`, and in the strict case every
    definition `from_cst` returns is within the EXACT recursion budget `rl` of the accepted run -/
theorem parseDocument_agrees_fit (rl : Nat) (src : Str) (root : Elem)
    (h : (parse .document none rl src).outcome = .tree root) (herr : (parse .document none rl src).errors = []) :
    LexClean src ∧ ∃ (ts : List Tok) (e : Tok) (its : List DocItem), sig (srcToks src) = ts ++ [e] ∧ e.kind = .eof ∧
      its ≠ [] ∧ TokIs ts (docToks its) ∧ (FromCst.fromCst root).1 = its.map DocItem.conv ∧
      ∀ items, strictItems its = some items →
        items ≠ [] ∧ TokIs ts (Ast.itemsToks items) ∧ (∀ a ∈ items, Ast.wfDefinition a.2 = true) ∧
        (FromCst.fromCst root).1 = items.map (·.2) ∧ ∀ x ∈ items.map (·.2), definitionFit rl x := by
  obtain ⟨hclean, ts, e, inner, h1, h2, hroot, items, hne, hts, hsig, hall⟩ :=
    parseDocument_cstS (fun n => defTrs_of_ts n TsAny (tsTrs n)) (fun n => defExactX_of_remaining (defRemaining_done n)) rl src root h herr
  obtain ⟨its, eds, g1, g2, g3, g4, g5⟩ := docItems_collectX (fun i => ∀ a, i.strict = some a → itemFitX rl i) items
    (fun i hi => docItem_fitX rl i.1 i.2 (hall i hi))
  have hne' : its ≠ [] := by
    intro h0
    rw [h0] at g3
    cases items with
    | nil => exact hne rfl
    | cons a b => simp at g3
  have hfrom : (FromCst.fromCst root).1 = its.map DocItem.conv := by
    rw [hroot]
    have := fromCst_document inner eds (its.map (fun i => ((false, i.conv) : Ast.Item))) (by rw [hsig, g2])
      (all2_map_right _ _ _ _ g5)
    rw [this, List.map_map]
    rfl
  refine ⟨hclean, ts, e, its, h1, h2, hne', by rw [hts]; exact g1, hfrom, ?_⟩
  intro sitems hs
  obtain ⟨ht, hlen⟩ := strictItems_toks its sitems hs
  obtain ⟨hc, hw⟩ := strictItems_conv its sitems hs (fun i hi => (g4 i hi).1)
  have hne'' : sitems ≠ [] := by
    rintro rfl
    cases its with
    | nil => exact hne' rfl
    | cons a b => simp at hlen
  have hfit : ∀ i ∈ its, itemFit rl i := by
    intro i hi
    obtain ⟨a, ha⟩ := strict_each its sitems hs i hi
    exact itemFit_of_itemFitX_strict rl i a ha ((g4 i hi).2 a ha)
  exact ⟨hne'', by rw [← ht, hts]; exact g1, hw, by rw [hfrom, hc], definitionFit_of_strict_items rl its sitems hs hfit⟩

end Apollo.Parse.Exact
