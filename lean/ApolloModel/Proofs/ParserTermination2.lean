import ApolloModel.Proofs.ParserTermination
/-
Termination of the grammar functions, family by family.
-/
set_option linter.unusedSimpArgs false
set_option linter.unusedVariables false
namespace Apollo.Parse
open Apollo.Rowan hiding Str
open Apollo.Lex hiding Str

abbrev Any {α : Type} : α → Option Tok → LexSt → Prop := fun _ _ _ => True

/-- from "peek returned `some kind`" to "there is a current token" -/
theorem cur_of_peek {s s1 : PState} {kind : Kind}
    (hq : some kind = s1.current.map (·.kind) ∧ Looked s s1.current s1.lx) :
    ∃ t, s1.current = some t ∧ t.kind = kind := by
  cases hc : s1.current with
  | none => rw [hc] at hq; simp at hq
  | some t => rw [hc] at hq; simp at hq; exact ⟨t, rfl, hq.1.symm⟩

/-- `withNode kind (bump …; rest)` entered with a current token: after the bump the measure dropped -/
theorem strict_after_skip_bump {s1 s2 s3 : PState} (hs : s1.current.isSome = true)
    (hk12 : Keep s1 s2) (hm12 : Mono s1 s2) (hm23 : Mono s2 s3) (hcons : Consumed s2 s3.current s3.lx) :
    Mm s3 < Mm s1 :=
  (keep_then_strict hk12 hm12 hs hcons.1 hm23).1

theorem tyParse_term : ∀ (n : Nat) (s : PState), W s → Mm s + 1 ≤ n → Term (tyParse n) s Any
  | 0, s, _, h => by omega
  | n + 1, s, hw, hn => by
    unfold tyParse
    refine term_bind (Q1 := Any) ?_ ?_
    · -- the `wrapIf`
      refine wrapIf_term (Q1 := Any) _ _ _ _ s hw ?_ ?_ (fun _ _ _ _ => trivial)
      · intro s1 hw1 hc1 hl1
        have hM1 : Mm s1 = Mm s := Mm_congr hc1 hl1
        refine term_bind (Q1 := Any) ?_ ?_
        · -- body
          apply term_bind (peek_run' s1 hw1).term
          intro k s2 hw2 hm2 hk2 hq2
          cases k with
          | none => exact term_pure _ s2 hw2 trivial
          | some kind =>
            obtain ⟨t, ht, htk⟩ := cur_of_peek hq2
            have hM2 : Mm s2 ≤ Mm s1 := hm2.1
            by_cases hlb : kind = .lBracket
            · subst hlb
              simp only []
              refine withNode_term _ _ s2 hw2 ?_
              intro s3 hw3 hc3 hl3
              apply term_bind (skipIgnored_run s3 hw3).term
              intro _ s4 hw4 hm4 hk4 _
              apply term_bind (bump_run "L_BRACK" s4 hw4).term
              intro _ s5 hw5 hm5 hk5 hq5
              have hM5 : Mm s5 < Mm s3 := strict_after_skip_bump (by rw [hc3, ht]; rfl) hk4 hm4 hm5 hq5.1
              have hM3 : Mm s3 = Mm s2 := Mm_congr hc3 hl3
              refine term_bind (Q1 := Any) ?_ ?_
              · refine withRec_term _ _ s5 hw5 ?_ ?_
                · intro s6 hw6 _ _
                  apply term_bind (limitErr_run s6 hw6).term
                  intro _ s7 hw7 _ _ _
                  exact term_pure _ s7 hw7 trivial
                · intro s6 hw6 hc6 hl6
                  have hM6 : Mm s6 = Mm s5 := Mm_congr hc6 hl6
                  apply term_bind (tyParse_term n s6 hw6 (by omega))
                  intro r s7 hw7 _ _ _
                  exact term_pure _ s7 hw7 trivial
              · intro inner s6 hw6 _ _ _
                cases inner with
                | none => exact term_pure _ s6 hw6 trivial
                | some res =>
                  simp only []
                  have hexp : ∀ s7, W s7 → Term (do expect Kind.rBracket "R_BRACK"; pure TyRes.ok) s7 Any := by
                    intro s7 hw7
                    apply term_bind (expect_run .rBracket "R_BRACK" s7 hw7).term
                    intro _ s8 hw8 _ _ _
                    exact term_pure _ s8 hw8 trivial
                  cases res with
                  | errTok t' =>
                    simp only []
                    apply term_bind (errAtToken_run t' s6 hw6).term
                    intro _ s7 hw7 _ _ _
                    exact hexp s7 hw7
                  | ok => exact hexp s6 hw6
                  | early => exact hexp s6 hw6
                  | errNone => exact hexp s6 hw6
            · by_cases hnm : kind = .name
              · subst hnm
                simp only []
                refine withNode_term _ _ s2 hw2 ?_
                intro s3 hw3 _ _
                apply term_bind (skipIgnored_run s3 hw3).term
                intro _ s4 hw4 _ _ _
                refine withNode_term _ _ s4 hw4 ?_
                intro s5 hw5 _ _
                apply term_bind (skipIgnored_run s5 hw5).term
                intro _ s6 hw6 _ _ _
                apply term_bind (eat_run "IDENT" s6 hw6).term
                intro _ s7 hw7 _ _ _
                exact term_pure _ s7 hw7 trivial
              · -- any other token: popped and dropped
                have hgen : Term (do
                    match ← popDrop with
                    | some t => pure (TyRes.errTok t)
                    | none => pure TyRes.errNone) s2 Any := by
                  apply term_bind (popDrop_run s2 hw2).term
                  intro r s3 hw3 _ _ _
                  cases r <;> exact term_pure _ s3 hw3 trivial
                cases kind <;> first | exact absurd rfl hlb | exact absurd rfl hnm | exact hgen
        · -- cond
          intro r s2 hw2 _ _ _
          refine term_bind (Q1 := Any) ?_ ?_
          · cases r with
            | ok =>
              simp only []
              apply term_bind (skipIgnored_run s2 hw2).term
              intro _ s3 hw3 _ _ _
              apply term_bind (peek_run' s3 hw3).term
              intro k s4 hw4 _ _ _
              exact term_pure _ s4 hw4 trivial
            | early => exact term_pure _ s2 hw2 trivial
            | errTok t => exact term_pure _ s2 hw2 trivial
            | errNone => exact term_pure _ s2 hw2 trivial
          · intro c s3 hw3 _ _ _
            exact term_pure _ s3 hw3 trivial
      · intro a s2 hw2 _ _ _
        exact (eat_run "BANG" s2 hw2).term.weaken (fun _ _ _ _ => trivial)
    · intro r s1 hw1 _ _ _
      cases r with
      | ok =>
        simp only []
        apply term_bind (skipIgnored_run s1 hw1).term
        intro _ s2 hw2 _ _ _
        exact term_pure _ s2 hw2 trivial
      | early => exact term_pure _ s1 hw1 trivial
      | errTok t => exact term_pure _ s1 hw1 trivial
      | errNone => exact term_pure _ s1 hw1 trivial

theorem ty_term (n : Nat) (s : PState) (hw : W s) (hn : Mm s + 1 ≤ n) : Term (ty n) s Any := by
  unfold ty
  apply term_bind (tyParse_term n s hw hn)
  intro r s1 hw1 _ _ _
  cases r with
  | errTok t => exact (errAtToken_run t s1 hw1).term.weaken (fun _ _ _ _ => trivial)
  | errNone => exact (err_run s1 hw1).term.weaken (fun _ _ _ _ => trivial)
  | ok => exact term_pure _ s1 hw1 trivial
  | early => exact term_pure _ s1 hw1 trivial

theorem expectEndOfInput_term (s : PState) (hw : W s) : Term expectEndOfInput s Any := by
  unfold expectEndOfInput
  apply term_bind (skipIgnored_run s hw).term
  intro _ s1 hw1 _ _ _
  apply term_bind (peek_run' s1 hw1).term
  intro k s2 hw2 _ _ _
  unfold errUnlessEnd
  split
  · exact term_pure _ s2 hw2 trivial
  · exact (err_run s2 hw2).term.weaken (fun _ _ _ _ => trivial)

theorem init_W (src : Str) (tl : Option Nat) (rl : Nat) : W (initState src tl rl) :=
  ⟨by simp [initState], fun t h => by simp [initState] at h, fun t h => by simp [initState] at h,
   fun t h => by simp [initState] at h⟩

theorem init_Mm (src : Str) (tl : Option Nat) (rl : Nat) : Mm (initState src tl rl) = src.length + 1 := by
  simp [Mm, MmT, lexM, initState]

/-- an entry point aborts only when its grammar does, run from the initial state with (possibly) a
    temporary root node opened -/
theorem runEntry_abort (e : Entry) (fuel : Nat) (s0 : PState) (w : Abort)
    (h : (runEntry e fuel s0).outcome = .abort w) :
    ∃ s0', s0'.current = s0.current ∧ s0'.lx = s0.lx ∧ (e.grammar fuel).run s0' = .abort w := by
  cases e <;>
  · simp only [runEntry, Entry.standalone] at h
    split at h
    · simp only [] at h; split at h <;> simp at h
    · rename_i w' hr
      simp only [Outcome.abort.injEq] at h
      subst h
      exact ⟨_, by first | rfl | exact rfl, by first | rfl | exact rfl, hr⟩
    · simp at h

/-- `Parser::parse_type` terminates: neither out of fuel nor stuck, for every input and limits -/
theorem parse_type_terminates (tl : Option Nat) (rl : Nat) (src : Str) (w : Abort) :
    (parse .type tl rl src).outcome ≠ .abort w := by
  intro h
  obtain ⟨s0, hc, hl, habort⟩ := runEntry_abort .type (fuelFor src) (initState src tl rl) w h
  simp only [Entry.grammar] at habort
  have hw0 : W s0 := W_congr hc hl (init_W src tl rl)
  have hM : Mm s0 = src.length + 1 := by rw [Mm_congr hc hl, init_Mm]
  have ht : Term (ty (fuelFor src) >>= fun _ => expectEndOfInput) s0 Any := by
    apply term_bind (ty_term (fuelFor src) s0 hw0 (by unfold fuelFor; omega))
    intro _ s1 hw1 _ _ _
    exact expectEndOfInput_term s1 hw1
  exact ht.1 w habort

/-! ### building blocks for the remaining families (value.rs, selection.rs, definitions) -/

/-- post-condition "made strict progress if there was a current token" -/
def ConsP (s : PState) : Unit → Option Tok → LexSt → Prop := fun _ c l => s.current.isSome = true → StrictT s c l

theorem strict_to_T {s s' : PState} (h : Strict s s') : StrictT s s'.current s'.lx := h

/-- `withNode kind (bump k)`: consumes the current token -/
theorem withNode_bump_term (kind k : SK) (s : PState) (hw : W s) : Term (withNode kind (bump k)) s (ConsP s) := by
  refine withNode_term _ _ s hw ?_
  intro s1 hw1 hc1 hl1
  apply term_bind (skipIgnored_run s1 hw1).term
  intro _ s2 hw2 hm2 hk2 _
  obtain ⟨a, s3, hr, hw3, hm3, hk3, hq3⟩ := bump_run k s2 hw2
  refine (Run.term ⟨a, s3, hr, hw3, hm3, hk3, ?_⟩)
  intro hs
  have hs1 : s1.current.isSome = true := by rw [hc1]; exact hs
  have := keep_then_strict hk2 hm2 hs1 hq3.1.1 hm3
  exact strictT_of_congr hc1 hl1 this

/-- `name`: consumes the current token when it is a Name -/
theorem name_term (s : PState) (hw : W s) :
    Term name s (fun _ c l => ∀ t, s.current = some t → t.kind = .name → StrictT s c l) := by
  unfold name
  apply term_bind (peekToken_run' s hw).term
  intro a s1 hw1 hm1 hk1 hq1
  cases a with
  | none =>
    refine (err_run s1 hw1).term.weaken ?_
    intro _ c l _ t ht _
    have := hq1.2.2 (by simp [ht])
    rw [← hq1.1, ht] at this; simp at this
  | some t =>
    simp only []
    by_cases hk : (t.kind == Kind.name) = true
    · simp only [hk, if_true]
      refine (withNode_bump_term "NAME" "IDENT" s1 hw1).weaken ?_
      intro _ c l h t' ht' _
      have hsame := hq1.2.2 (by simp [ht'])
      exact strictT_of_congr hsame.1 hsame.2 (h (by rw [← hq1.1]; rfl))
    · simp only [hk, Bool.false_eq_true, if_false]
      refine (err_run s1 hw1).term.weaken ?_
      intro _ c l _ t' ht' hk'
      have hsame := hq1.2.2 (by simp [ht'])
      rw [← hq1.1, ht'] at hsame
      simp only [Option.some.injEq] at hsame
      rw [← hsame.1] at hk'
      simp [hk'] at hk

end Apollo.Parse
