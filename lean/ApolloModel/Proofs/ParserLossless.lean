import ApolloModel.Proofs.Parser
/-
C02/C04: what the tree of a document covers.  With no token limit, when `document()` returns the
lexer is exhausted, so the invariant `Inv.text` says the tree text is the whole input (unless the
`dropped` ghost flag was raised, i.e. ty.rs threw a token away).
-/
namespace Apollo.Parse
open Apollo.Rowan hiding Str
open Apollo.Lex hiding Str

theorem advance_ne_limit (src : Lex.Str) : (advance src).1 ≠ .limit := by
  have key : ∀ (src : Lex.Str) (st : State) (kind : Kind) (e : Bool) (acc : Lex.Str),
      (runD st kind e acc src).1 ≠ .limit := by
    intro src
    induction src with
    | nil => intro st kind e acc; cases st <;> simp [runD, eofItem]
    | cons c rest ih =>
      intro st kind e acc
      unfold runD
      cases h : step st kind e acc c with
      | goto st' k' e' => exact ih st' k' e' _
      | incl o => cases o <;> simp [Out.mk]
      | excl o => cases o <;> simp [Out.mk]
  exact key src .start .eof false []

/-- an error item handed out by the lexer is non-empty and shrinks the input -/
theorem lexNext_err_progress (l : LexSt) (d : Str) (i : Nat) (h : (lexNext l).1 = some (.err d i)) :
    (lexNext l).2.src.length < l.src.length := by
  unfold lexNext at h ⊢
  by_cases hf : l.finished = true
  · simp [hf] at h
  · simp only [hf, Bool.false_eq_true, if_false] at h ⊢
    by_cases hc : (lexCheck l).1 = true
    · simp [hc] at h
    · simp only [hc, Bool.false_eq_true, if_false] at h ⊢
      cases hs : l.src with
      | nil => simp [hs] at h
      | cons c rest =>
        simp only [hs] at h ⊢
        have hp := Lex.advance_progress c rest
        cases hr : (advance (c :: rest)).1 with
        | tok k d' => simp [hr] at h
        | err d' => simp only [hr]; exact hp.2
        | limit => exact absurd hr (advance_ne_limit _)

theorem lexNext_none_iff (l : LexSt) (h : (lexNext l).1 = none) : l.finished = true ∧ (lexNext l).2 = l := by
  unfold lexNext at h ⊢
  by_cases hf : l.finished = true
  · simp [hf]
  · simp only [hf, Bool.false_eq_true, if_false] at h
    by_cases hc : (lexCheck l).1 = true
    · simp [hc] at h
    · simp only [hc, Bool.false_eq_true, if_false] at h
      cases hs : l.src with
      | nil => simp [hs] at h
      | cons c rest =>
        simp only [hs] at h
        cases hr : (advance (c :: rest)).1 <;> simp [hr] at h

theorem nextTokenRaw_finished (fuel : Nat) (s : PState) (h : s.lx.finished = true) :
    (nextTokenRaw fuel s).2.lx.finished = true ∧ (nextTokenRaw fuel s).1 = none := by
  cases fuel with
  | zero => exact ⟨h, rfl⟩
  | succ n =>
    have := lexNext_finished s.lx h
    simp [nextTokenRaw, this, h]

/-- with enough fuel, `next_token` returns `None` only when the lexer has finished -/
theorem nextTokenRaw_none_finished : ∀ (fuel : Nat) (s : PState), s.lx.src.length + 2 ≤ fuel →
    (nextTokenRaw fuel s).1 = none → (nextTokenRaw fuel s).2.lx.finished = true
  | 0, s, hf, _ => by omega
  | fuel + 1, s, hf, h => by
    unfold nextTokenRaw at h ⊢
    cases hl : lexNext s.lx with
    | mk o l' =>
      simp only [hl] at h ⊢
      cases o with
      | none =>
        have := lexNext_none_iff s.lx (by rw [hl])
        rw [hl] at this
        simp only [] at this ⊢
        rw [this.2]; exact this.1
      | some out =>
        cases out with
        | tok t => simp at h
        | err d i =>
          simp only [] at h ⊢
          have hp := lexNext_err_progress s.lx d i (by rw [hl])
          rw [hl] at hp
          simp only [] at hp
          exact nextTokenRaw_none_finished fuel _ (by simp only []; omega) h
        | limit i =>
          simp only [] at h ⊢
          have hfin := lexNext_limit_finished s.lx i (by rw [hl])
          rw [hl] at hfin
          exact (nextTokenRaw_finished fuel _ hfin).1

/-- `peek_token` returns `None` only at the very end: nothing is current and the lexer is finished -/
theorem peekToken_none (s s' : PState) (h : peekToken.run s = .ok none s') :
    s'.current = none ∧ s'.lx.finished = true := by
  unfold peekToken at h
  simp only [] at h
  cases hc : s.current with
  | some t => simp [hc] at h
  | none =>
    simp only [hc, Res.ok.injEq] at h
    obtain ⟨h1, rfl⟩ := h
    refine ⟨h1, ?_⟩
    exact nextTokenRaw_none_finished _ s (by omega) h1

theorem peekToken_some (s s' : PState) (t : Tok) (h : peekToken.run s = .ok (some t) s') :
    s'.current = some t := by
  unfold peekToken at h
  simp only [] at h
  cases hc : s.current with
  | some t' => simp only [hc, Res.ok.injEq, Option.some.injEq] at h; obtain ⟨rfl, rfl⟩ := h; exact hc
  | none =>
    simp only [hc, Res.ok.injEq] at h
    obtain ⟨h1, rfl⟩ := h
    exact h1

theorem peekToken_total (s : PState) : ∃ o s', peekToken.run s = .ok o s' := by
  unfold peekToken
  simp only []
  cases s.current <;> exact ⟨_, _, rfl⟩

theorem peek_run (s : PState) : ∃ o s', peekToken.run s = .ok o s' ∧ peek.run s = .ok (o.map (·.kind)) s' := by
  obtain ⟨o, s', h⟩ := peekToken_total s
  refine ⟨o, s', h, ?_⟩
  show (peekToken >>= fun t => pure (t.map (·.kind))).run s = _
  rw [run_bind, h]
  rfl

/-- the lexer is exhausted and nothing with text is waiting -/
def Exhausted (s : PState) : Prop := curText s.current = [] ∧ s.lx.src = []

theorem exhausted_of_peek_none (s s' : PState) (hi : Inv s') (hl : s'.lx.limit = none)
    (h : peekToken.run s = .ok none s') : Exhausted s' := by
  obtain ⟨hc, hf⟩ := peekToken_none s s' h
  exact ⟨by simp [hc, curText], hi.lexDone hf hl⟩

theorem exhausted_of_peek_eof (s s' : PState) (t : Tok) (hi : Inv s') (hk : t.kind = .eof)
    (h : peekToken.run s = .ok (some t) s') : Exhausted s' := by
  have hc := peekToken_some s s' t h
  obtain ⟨hd, hs, _⟩ := hi.eofTok t hc hk
  exact ⟨by simp [hc, curText, hd], hs⟩

/-- `m >>= fun _ => pure b` can only return `b` -/
theorem bind_pure_const {α β : Type} (m : PI α) (b : β) (s s' : PState) (r : β)
    (h : (m >>= fun _ => pure b).run s = .ok r s') : r = b := by
  rw [run_bind] at h
  cases hm : m.run s with
  | ok a s1 => simp only [hm] at h; rw [run_pure] at h; simp only [Res.ok.injEq] at h; exact h.1.symm
  | abort w => simp [hm] at h
  | panic msg => simp [hm] at h

/-- the closure of `document()` stops (returns `Break`) only on the EOF token, without touching
    the token stream -/
theorem documentStep_false (n : Nat) (kind : Kind) (s s' : PState)
    (h : (documentStep n kind).run s = .ok false s') :
    kind = .eof ∧ s'.current = s.current ∧ s'.lx = s.lx ∧ s'.pending = s.pending ∧ s'.builder = s.builder := by
  unfold documentStep at h
  by_cases hk : (kind == .eof) = true
  · simp only [hk, if_true] at h
    refine ⟨by simpa using hk, ?_⟩
    rw [run_bind] at h
    have : assertRecZero.run s = .ok () { s with deadBranch := s.deadBranch || !(s.recCur == 0) } := rfl
    simp only [this, run_pure, Res.ok.injEq] at h
    obtain ⟨_, rfl⟩ := h
    exact ⟨rfl, rfl, rfl, rfl⟩
  · simp only [hk, Bool.false_eq_true, if_false] at h
    exfalso
    rw [run_bind] at h
    have : assertRecZero.run s = .ok () { s with deadBranch := s.deadBranch || !(s.recCur == 0) } := rfl
    simp only [this] at h
    have := bind_pure_const _ true _ s' false h
    simp at this

end Apollo.Parse

namespace Apollo.Parse
open Apollo.Rowan hiding Str
open Apollo.Lex hiding Str

theorem peekWhileLoop_doc_exit (n : Nat) : ∀ (fuel : Nat) (s s' : PState), Inv s → s.lx.limit = none →
    (peekWhileLoop (documentStep n) fuel).run s = .ok () s' → Exhausted s' ∧ Inv s' ∧ s'.lx.limit = none
  | 0, s, s', _, _, h => by simp [peekWhileLoop, PI.outOfFuel] at h
  | fuel + 1, s, s', hi, hl, h => by
    unfold peekWhileLoop at h
    rw [run_bind] at h
    obtain ⟨o, s1, hpt, hpk⟩ := peek_run s
    have hp1 := peekToken.ok s hi
    simp only [hpt, Post] at hp1
    obtain ⟨hi1, hf1⟩ := hp1
    have hl1 : s1.lx.limit = none := by rw [hf1.limit]; exact hl
    rw [hpk] at h
    cases o with
    | none =>
      simp only [Option.map_none, run_pure, Res.ok.injEq] at h
      obtain ⟨_, rfl⟩ := h
      exact ⟨exhausted_of_peek_none s s1 hi1 hl1 hpt, hi1, hl1⟩
    | some t =>
      simp only [Option.map_some] at h
      rw [run_bind] at h
      have hg : getCurrent.run s1 = .ok s1.current s1 := rfl
      simp only [hg] at h
      rw [run_bind] at h
      have hd := (documentStep n t.kind).ok s1 hi1
      cases hds : (documentStep n t.kind).run s1 with
      | abort w => simp [hds] at h
      | panic m => simp [hds, Post] at hd
      | ok b s2 =>
        simp only [hds, Post] at h hd
        obtain ⟨hi2, hf2⟩ := hd
        have hl2 : s2.lx.limit = none := by rw [hf2.limit]; exact hl1
        cases b with
        | false =>
          simp only [Bool.false_eq_true, if_false, run_pure, Res.ok.injEq] at h
          obtain ⟨_, rfl⟩ := h
          obtain ⟨hk, hc, hx, _⟩ := documentStep_false n t.kind s1 s2 hds
          have hex := exhausted_of_peek_eof s s1 t hi1 hk hpt
          exact ⟨⟨by rw [hc]; exact hex.1, by rw [hx]; exact hex.2⟩, hi2, hl2⟩
        | true =>
          simp only [if_true] at h
          rw [run_bind] at h
          have hg2 : getCurrent.run s2 = .ok s2.current s2 := rfl
          simp only [hg2] at h
          by_cases hb : (s1.current == s2.current) = true
          · simp [hb, PI.stuck] at h
          · simp only [hb, Bool.false_eq_true, if_false] at h
            exact peekWhileLoop_doc_exit n fuel s2 s' hi2 hl2 h

/-- generic: running a `PI` from an `Inv` state to completion gives an `Inv` state with the same limit -/
theorem PI.run_ok {α : Type} (m : PI α) (s : PState) (hi : Inv s) (a : α) (s' : PState)
    (h : m.run s = .ok a s') : Inv s' ∧ s'.lx.limit = s.lx.limit := by
  have := m.ok s hi
  simp only [h, Post] at this
  exact ⟨this.1, this.2.limit⟩

/-- when the body of `document()` completes without a token limit, nothing is pending and the
    input is exhausted -/
theorem documentBody_final (n : Nat) (s s' : PState) (hi : Inv s) (hl : s.lx.limit = none)
    (h : (documentBody n).run s = .ok () s') : s'.pending = [] ∧ Exhausted s' ∧ Inv s' := by
  unfold documentBody at h
  rw [run_bind] at h
  cases h1 : peek.run s with
  | abort w => simp [h1] at h
  | panic m => simp [h1] at h
  | ok k s1 =>
    obtain ⟨hi1, hl1⟩ := PI.run_ok peek s hi k s1 h1
    simp only [h1] at h
    rw [run_bind] at h
    cases h2 : (errIfEmpty k).run s1 with
    | abort w => simp [h2] at h
    | panic m => simp [h2] at h
    | ok u s2 =>
      obtain ⟨hi2, hl2⟩ := PI.run_ok _ s1 hi1 u s2 h2
      simp only [h2] at h
      rw [run_bind] at h
      cases h3 : (peekWhile (documentStep n)).run s2 with
      | abort w => simp [h3] at h
      | panic m => simp [h3] at h
      | ok u3 s3 =>
        simp only [h3] at h
        have hpi : pushIgnored.run s3 = .ok () { s3 with builder := { s3.builder with children := s3.builder.children ++ s3.pending.map pendingElem }, pending := [] } := rfl
        rw [hpi] at h
        simp only [Res.ok.injEq, true_and] at h
        -- the loop
        unfold peekWhile at h3
        rw [run_bind] at h3
        have hsl : srcLen.run s2 = .ok s2.lx.src.length s2 := rfl
        simp only [hsl] at h3
        obtain ⟨hex, hi3, _⟩ := peekWhileLoop_doc_exit n _ s2 s3 hi2 (by rw [hl2, hl1]; exact hl) h3
        have hi' := (PI.run_ok pushIgnored s3 hi3 () _ hpi).1
        subst h
        exact ⟨rfl, hex, hi'⟩

theorem textList_single (e : Elem) : textList [e] = e.text := by simp [textList]

/-- **C02** — the document syntax tree is lossless: with no token limit, whenever `Parser::parse`
    returns a tree and no token was thrown away by ty.rs, the tree's text is exactly the input. -/
theorem lossless_document (rl : Nat) (src : Str) (root : Elem)
    (h : (parse .document none rl src).outcome = .tree root)
    (hd : (parse .document none rl src).dropped = false) : root.text = src := by
  unfold parse runEntry at h hd
  simp only [Entry.standalone, Entry.grammar] at h hd
  have hinv := init_inv src none rl
  cases hr : (Parse.document (fuelFor src)).run (initState src none rl) with
  | abort w => simp [hr] at h
  | panic m => simp [hr] at h
  | ok a s =>
    simp only [hr] at h hd
    obtain ⟨cs, s2, hc, _, hrun, hpend, hcur, hlx, hdrop, horig, _⟩ :=
      withNode_result "DOCUMENT" (documentBody (fuelFor src)) _ hinv a s hr
    have hch : s.builder.children = [Elem.node "DOCUMENT" cs] := by simpa [initState, Builder.new] using hc
    simp only [finish_single s.builder _ _ hch, Outcome.tree.injEq] at h
    subst h
    -- the state in which the body ended
    have hi0 : Inv (rawStartNode "DOCUMENT" { initState src none rl with builder := { (initState src none rl).builder with children := (initState src none rl).builder.children ++ (initState src none rl).pending.map pendingElem }, pending := [] }) :=
      ⟨fun _ => by simp [initState, Builder.new, rawStartNode, Builder.startNode, textList, pendingText, curText],
       fun p hp => by simp [initState, Builder.new, rawStartNode, Builder.startNode] at hp; simp [hp, initState, Builder.new, rawStartNode, Builder.startNode],
       fun hfin => by simp [initState, rawStartNode] at hfin, fun t ht => by simp [initState, rawStartNode] at ht,
       fun ha => by simp [initState, rawStartNode] at ha⟩
    rw [run_bind] at hrun
    cases hsk : skipIgnored.run (rawStartNode "DOCUMENT" { initState src none rl with builder := { (initState src none rl).builder with children := (initState src none rl).builder.children ++ (initState src none rl).pending.map pendingElem }, pending := [] }) with
    | abort w => simp [hsk] at hrun
    | panic m => simp [hsk] at hrun
    | ok u s1 =>
      simp only [hsk] at hrun
      obtain ⟨hi1, hl1⟩ := PI.run_ok skipIgnored _ hi0 u s1 hsk
      have hl1' : s1.lx.limit = none := by rw [hl1]; rfl
      obtain ⟨hp2, hex2, hi2⟩ := documentBody_final (fuelFor src) s1 s2 hi1 hl1' hrun
      -- the invariant of the final state
      have hfin := (PI.run_ok (Parse.document (fuelFor src)) _ hinv a s hr).1
      have ht := hfin.text hd
      have horig' : s.original = src := by
        have := (Parse.document (fuelFor src)).ok _ hinv
        simp only [hr, Post] at this
        rw [this.2.original]; rfl
      rw [hch, hpend, hp2, hcur, hlx, hex2.1, hex2.2, horig'] at ht
      simpa [textList_single, pendingText] using ht

/-- **C04 (prefix clause)** — with any token limit and any recursion limit, the text of the tree
    returned by `Parser::parse` is a prefix of the input (unless ty.rs dropped a token). -/
theorem tree_text_prefix (tl : Option Nat) (rl : Nat) (src : Str) (root : Elem)
    (h : (parse .document tl rl src).outcome = .tree root)
    (hd : (parse .document tl rl src).dropped = false) : root.text <+: src := by
  unfold parse runEntry at h hd
  simp only [Entry.standalone, Entry.grammar] at h hd
  have hinv := init_inv src tl rl
  cases hr : (Parse.document (fuelFor src)).run (initState src tl rl) with
  | abort w => simp [hr] at h
  | panic m => simp [hr] at h
  | ok a s =>
    simp only [hr] at h hd
    obtain ⟨cs, s2, hc, _⟩ := withNode_result "DOCUMENT" (documentBody (fuelFor src)) _ hinv a s hr
    have hch : s.builder.children = [Elem.node "DOCUMENT" cs] := by simpa [initState, Builder.new] using hc
    simp only [finish_single s.builder _ _ hch, Outcome.tree.injEq] at h
    subst h
    have hok := (Parse.document (fuelFor src)).ok _ hinv
    simp only [hr, Post] at hok
    have ht := hok.1.text hd
    have horig' : s.original = src := by rw [hok.2.original]; rfl
    rw [hch, horig', textList_single] at ht
    exact ⟨pendingText s.pending ++ (curText s.current ++ s.lx.src), by rw [← ht]; simp [List.append_assoc]⟩

/-- **C04 (no error after the token limit)** — once the token-limit error has been recorded (the
    lexer is finished and the parser stopped accepting errors), no later step adds an error. -/
theorem errors_frozen_after_limit {α : Type} (m : PI α) (s s' : PState) (a : α) (hi : Inv s)
    (hz : s.acceptErrors = false ∧ s.lx.finished = true) (h : m.run s = .ok a s') :
    s'.errors = s.errors := by
  have := m.ok s hi
  simp only [h, Post] at this
  exact (this.2.frozen hz).1

end Apollo.Parse
