import ApolloModel.Proofs.ParserExactS12
/-
EXACT SOUNDNESS, part 13 (namespace Apollo.Parse.Exact): `Parser::parse` on executable-only sources — zero errors if and
only if the significant tokens are one or more executable definitions within the exact recursion budget.
-/
set_option linter.unusedSimpArgs false
namespace Apollo.Parse.Exact
open Apollo.Rowan hiding Str
open Apollo.Lex hiding Str

/-- the guard of the executable-document theorem, on the SIGNIFICANT tokens of the source: none is a String (a
    description) and none has the text of one of the nine keywords that make `select_definition` start a type-system
    definition or extension (`directive enum extend input interface type scalar schema union`) -/
def ExecOnly (src : Str) : Prop := ∀ t ∈ sig (srcToks src), t.kind ≠ .stringValue ∧ NotTsWord t.data

/-- ignored tokens satisfy the guard anyway (lexer fact `LexQ`: a text that starts like a name is a Name token) -/
theorem execQ_of_execOnly (src : Str) (h : ExecOnly src) : ExecQ (srcToks src) := by
  intro t ht
  by_cases hi : isIgnoredKind t.kind = true
  · refine ⟨(by intro hk; rw [hk] at hi; cases hi), ?_⟩
    have hl := lexQ_srcToks src t ht
    have nk : ∀ (word : String) (c : Char) (r : Str), word.toList = c :: r → isNameStart c = true → t.data ≠ word.toList := by
      intro word c r hw hc hd
      have := hl c r (hd.trans hw) hc
      rw [this] at hi
      cases hi
    exact ⟨nk "directive" 'd' "irective".toList rfl rfl, nk "enum" 'e' "num".toList rfl rfl, nk "extend" 'e' "xtend".toList rfl rfl,
      nk "input" 'i' "nput".toList rfl rfl, nk "interface" 'i' "nterface".toList rfl rfl, nk "type" 't' "ype".toList rfl rfl,
      nk "scalar" 's' "calar".toList rfl rfl, nk "schema" 's' "chema".toList rfl rfl, nk "union" 'u' "nion".toList rfl rfl⟩
  · exact h t (by unfold sig; exact List.mem_filter.mpr ⟨ht, by simpa using hi⟩)

/-- **`Parser::parse` on an executable-only source: acceptance = grammar.**  For a source whose significant tokens
    contain no String and none of the nine type-system keywords: ZERO errors if and only if the source lexes cleanly and
    its significant tokens are one or more executable definitions — full operation definitions, shorthand selection
    sets, fragment definitions with a name other than `on` — each within the exact recursion budget `rl`
    (`Exact.IsExecDocFit rl`), followed by the end of input.  The direction ⇐ needs no guard. -/
theorem parseDocument_exec_iff (rl : Nat) (src : Str) (hg : ExecOnly src) :
    (parse .document none rl src).errors = [] ↔
      LexClean src ∧ ∃ ts x e, sig (srcToks src) = ts ++ [e] ∧ e.kind = .eof ∧ TokIs ts x ∧ IsExecDocFit rl x := by
  constructor
  · intro herr
    obtain ⟨root, hroot⟩ := parseDocument_tree none rl src
    exact execDocument_accept_sound rl src root (execQ_of_execOnly src hg) hroot herr
  · rintro ⟨hclean, ts, x, e, h1, h2, h3, h4⟩
    exact parseDocument_complete_sig rl src x ts e hclean h1 h2 h3 h4

end Apollo.Parse.Exact
