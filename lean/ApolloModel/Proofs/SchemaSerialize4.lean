import ApolloModel.Proofs.SchemaSerialize3
/-
C12 growth, part 3: the round trip lifted from one type to the list of (non built-in) types of a schema, in
map order, and to the explicit schema definition with its extensions.
-/
set_option linter.unusedSimpArgs false
namespace Apollo.SchemaSerialize
open Apollo.SchemaBuild

/-- what `to_ast` needs to know about a non built-in type entry -/
structure TypeWF (t : TypeEntry) : Prop where
  body : BodyWF t.body
  notBuiltin : t.builtin = false
  located : ∃ p, t.pos = some p

theorem groupedBody_exts_eq_regroup (b : Body) : groupedBody b (extensionsOf b) = regroupBody b := rfl

/-- the definitions of one type, added to a builder that does not know the name and has nothing queued:
    the regrouped type is appended, nothing else changes, no diagnostic -/
theorem addDocument_toAstType (u : Builder) (t : TypeEntry) (wf : TypeWF t)
    (hfresh : findType u.types t.name = none) (hq : u.orphanQ = []) :
    addDocument u (toAstType t) = { u with types := u.types ++ [regroupType t] } := by
  obtain ⟨p, hp⟩ := wf.located
  have hlist : toAstType t = defOfBody (.typeDef t.kind) t.name p none t.body
      :: (extensionsOf t.body).map (fun e => defOfBody (.typeExt t.kind) t.name e (some e) t.body) := by
    simp [toAstType, wf.notBuiltin, hp]
  rw [hlist]
  -- the definition
  have hstep : step u (defOfBody (.typeDef t.kind) t.name p none t.body)
      = { u with types := u.types ++ [{ name := t.name, kind := t.kind, builtin := false, pos := some p,
                                        body := groupedBody t.body [] }] } := by
    unfold step
    simp only [defOfBody]
    unfold stepTypeDef
    simp only [hfresh, hq, List.filter_nil, typeFromAst, List.foldl_nil, typeOfDef]
    have := extendBody_def (dupIface t.kind t.name) (dupMember t.kind t.name) t.body wf.body (.typeDef t.kind) t.name p u.errors
    unfold defOfBody at this
    simp only [this]
  show addDocument (step u _) _ = _
  rw [hstep]
  -- the extensions, in place
  have hexts := addDocument_exts_defined t.name t.kind u.types hfresh
    ((extensionsOf t.body).map (fun e => defOfBody (.typeExt t.kind) t.name e (some e) t.body))
    { u with types := u.types ++ [{ name := t.name, kind := t.kind, builtin := false, pos := some p,
                                    body := groupedBody t.body [] }] }
    { name := t.name, kind := t.kind, builtin := false, pos := some p, body := groupedBody t.body [] }
    rfl rfl rfl
    (by intro e he; obtain ⟨x, _, rfl⟩ := List.mem_map.mp he; exact ⟨⟨t.kind, rfl⟩, rfl⟩)
  rw [hexts]
  have hfold := foldl_adoptStep_exts t.kind t.name t.body wf.body
    { name := t.name, kind := t.kind, builtin := false, pos := some p, body := t.body }
    (extensionsOf t.body) [] u.errors (by simpa [extensionsOf] using firstOcc_nodup (extOrigins t.body))
  simp only [List.nil_append] at hfold
  simp only [hfold]
  obtain ⟨n, k, bi, pos, body⟩ := t
  have hb := wf.notBuiltin
  simp only at hp hb
  subst hp hb
  cases u
  simp [regroupType, groupedBody_exts_eq_regroup]

/-- `Schema::to_ast` restricted to the types: definition and extensions of every type, type after type in map
    order, re-built: the same types in the same order, each regrouped, no diagnostics, nothing else touched -/
theorem addDocument_toAstTypes : ∀ (U : List TypeEntry) (u : Builder),
    (∀ t ∈ U, TypeWF t) → (U.map (·.name)).Nodup → (∀ t ∈ U, findType u.types t.name = none) → u.orphanQ = [] →
    addDocument u (U.flatMap toAstType) = { u with types := u.types ++ U.map regroupType } := by
  intro U
  induction U with
  | nil => intro u _ _ _ _; simp [addDocument]
  | cons t U ih =>
    intro u hwf hnd hfresh hq
    have hn : t.name ∉ U.map (·.name) ∧ (U.map (·.name)).Nodup := List.nodup_cons.mp hnd
    rw [List.flatMap_cons, addDocument_append, addDocument_toAstType u t (hwf t (by simp)) (hfresh t (by simp)) hq]
    have hfresh' : ∀ x ∈ U, findType ({ u with types := u.types ++ [regroupType t] } : Builder).types x.name = none := by
      intro x hx
      apply findType_append_none _ _ _ (hfresh x (by simp [hx]))
      show (regroupType t).name ≠ x.name
      intro c
      exact hn.1 (by rw [show t.name = x.name from c]; exact List.mem_map_of_mem hx)
    have := ih { u with types := u.types ++ [regroupType t] } (fun x hx => hwf x (by simp [hx])) hn.2 hfresh' hq
    rw [this]
    simp

/-! ### the explicit schema definition and its extensions -/

theorem foldl_schemaStep_exts (b : Body) (wf : BodyWF b) (pos : Option Pos) :
    ∀ (es P : List Pos) (errs : List Err), (P ++ es).Nodup →
      (es.map (fun e => defOfBody .schemaExt "" e (some e) b)).foldl schemaStep (⟨pos, groupedBody b P⟩, errs)
        = (⟨pos, groupedBody b (P ++ es)⟩, errs) := by
  intro es
  induction es with
  | nil => intro P errs _; simp
  | cons e es ih =>
    intro P errs hnd
    have he : e ∉ P := by
      intro h
      exact (List.nodup_append.mp hnd).2.2 e h e (by simp) rfl
    simp only [List.map_cons, List.foldl_cons]
    have hstep : schemaStep (⟨pos, groupedBody b P⟩, errs) (defOfBody .schemaExt "" e (some e) b)
        = (⟨pos, groupedBody b (P ++ [e])⟩, errs) := by
      unfold schemaStep extendSchema
      simp only [defOfBody]
      have := extendBody_ext noIface dupRoot b wf P e he .schemaExt "" errs
      unfold defOfBody at this
      simp only [this]
    rw [hstep]
    have := ih (P ++ [e]) errs (by simpa using hnd)
    simpa using this

/-- an explicit `schema` definition followed by its extensions, added to a builder that has seen neither:
    the schema definition with directives and root operations regrouped; no diagnostic -/
theorem addDocument_toAstSchema (u : Builder) (sd : SchemaDefn) (types : List TypeEntry) (p : Pos)
    (wf : BodyWF (schemaBody sd)) (hp : sd.pos = some p) (hexpl : implicitSchema sd types = false)
    (hfound : u.schemaFound = false) (hq : u.orphanSchemaExts = []) :
    addDocument u (toAstSchema sd types)
      = { u with schemaDef := ⟨some p, regroupBody (schemaBody sd)⟩, schemaFound := true } := by
  have hlist : toAstSchema sd types = defOfBody .schemaDef "" p none (schemaBody sd)
      :: (extensionsOf (schemaBody sd)).map (fun e => defOfBody .schemaExt "" e (some e) (schemaBody sd)) := by
    simp [toAstSchema, hexpl, hp]
  rw [hlist]
  have hstep : step u (defOfBody .schemaDef "" p none (schemaBody sd))
      = { u with schemaDef := ⟨some p, groupedBody (schemaBody sd) []⟩, schemaFound := true, orphanSchemaExts := [] } := by
    unfold step
    simp only [defOfBody, hfound, hq, schemaFromAst, List.foldl_nil, schemaOfDef]
    have := extendBody_def noIface dupRoot (schemaBody sd) wf .schemaDef "" p u.errors
    unfold defOfBody at this
    simp only [this]
    simp
  show addDocument (step u _) _ = _
  rw [hstep]
  rw [addDocument_schemaExts_found _ _ rfl
    (by intro e he; obtain ⟨x, _, rfl⟩ := List.mem_map.mp he; rfl)]
  have hfold := foldl_schemaStep_exts (schemaBody sd) wf (some p) (extensionsOf (schemaBody sd)) [] u.errors
    (by simpa [extensionsOf] using firstOcc_nodup (extOrigins (schemaBody sd)))
  simp only [List.nil_append] at hfold
  simp only [hfold]
  cases u
  simp_all [groupedBody_exts_eq_regroup]

/-! ### directive definitions with new names -/

theorem addDocument_dirDefs : ∀ (D : List DirEntry) (u : Builder),
    (D.map (·.name)).Nodup → (∀ d ∈ D, findDir u.directiveDefs d.name = none) →
    addDocument u (D.map (fun d => (⟨.directiveDef, d.name, d.pos.getD 0, d.pos.getD 0, [], [], []⟩ : Def)))
      = { u with directiveDefs := u.directiveDefs ++ D.map (fun d => ⟨d.name, some (d.pos.getD 0), false⟩) } := by
  intro D
  induction D with
  | nil => intro u _ _; simp [addDocument]
  | cons d D ih =>
    intro u hnd hfresh
    have hn : d.name ∉ D.map (·.name) ∧ (D.map (·.name)).Nodup := List.nodup_cons.mp hnd
    simp only [List.map_cons, addDocument, List.foldl_cons]
    have hstep : step u ⟨.directiveDef, d.name, d.pos.getD 0, d.pos.getD 0, [], [], []⟩
        = { u with directiveDefs := u.directiveDefs ++ [⟨d.name, some (d.pos.getD 0), false⟩] } := by
      unfold step
      simp only []
      unfold stepDirectiveDef
      simp only [hfresh d (by simp)]
    rw [hstep]
    have := ih { u with directiveDefs := u.directiveDefs ++ [⟨d.name, some (d.pos.getD 0), false⟩] } hn.2 (by
      intro x hx
      have h0 := hfresh x (by simp [hx])
      unfold findDir at h0 ⊢
      rw [List.find?_append, h0]
      have : d.name ≠ x.name := fun c => hn.1 (by rw [c]; exact List.mem_map_of_mem hx)
      simp [this])
    simp only [addDocument] at this
    rw [this]
    simp

end Apollo.SchemaSerialize

