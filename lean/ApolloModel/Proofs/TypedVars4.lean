import ApolloModel.Proofs.TypedVars3
/-
C18 on top of the typed executable rules, part 4: the variables an operation USES — written in its own selection
tree or, through spreads at any depth, in the directives and bodies of the fragments it reaches (the fields that
`all_fields` yields are the fields of these trees) — are declared by the operation when its validation is quiet.
-/
namespace Apollo.ExecRules
open Apollo Apollo.Spec

/-- variable `n` is used by the selection set `t` of a document: it is written (in a directive or an argument, at
    any nesting of the value) in `t` itself, or `t` spreads — at any depth of fields and inline fragments — a defined
    fragment in whose directives it is written or whose body uses it -/
inductive UsesSels (doc : RBuilt) : RSels → String → Prop
  | here {t : RSels} {n : String} : n ∈ localVars t → UsesSels doc t n
  | fragDirs {t : RSels} {f : String} {d : RFrag} {n : String} :
      f ∈ allSpreads t → doc.findFrag f = some d → n ∈ dirsVars d.dirs → UsesSels doc t n
  | fragBody {t : RSels} {f : String} {d : RFrag} {n : String} :
      f ∈ allSpreads t → doc.findFrag f = some d → UsesSels doc d.sels n → UsesSels doc t n

theorem uses_declared (vars : List RVarDef) (doc : RBuilt) (W : List String) (hclosed : ∀ g ∈ W, Done vars doc W g) :
    ∀ (t : RSels) (n : String), UsesSels doc t n → (∀ g ∈ allSpreads t, g ∈ W) →
      (∀ m ∈ localVars t, declared vars m = true) → declared vars n = true := by
  intro t n hu
  induction hu with
  | here h => intro _ hl; exact hl _ h
  | fragDirs hf hd hn =>
    intro hs _
    obtain ⟨d', hd', hvars, _⟩ := hclosed _ (hs _ hf)
    rw [hd] at hd'; cases hd'
    exact hvars _ (List.mem_append_left _ hn)
  | fragBody hf hd _ ih =>
    intro hs _
    obtain ⟨d', hd', hvars, hsp⟩ := hclosed _ (hs _ hf)
    rw [hd] at hd'; cases hd'
    exact ih hsp (fun m hm => hvars m (List.mem_append_right _ hm))

/-- the structural facts about a built document (each clause is what one structural rule of validation
    establishes; see `SelsOk`, `FragOk`, `dirsOk`, `litOk`) -/
structure DocOk (s : RSchema) (doc : RBuilt) : Prop where
  frags : ∀ f d, doc.findFrag f = some d → FragOk s doc d
  ops : ∀ o ∈ doc.ops, dirsOk s o.dirs ∧ ∃ t, s.root o.ty = some t ∧ SelsOk s doc t o.sels

/-- one operation: a quiet `validate_operation` (typed rules) declares every variable the operation uses -/
theorem operation_variables_defined (s : RSchema) (doc : RBuilt) (o : ROp)
    (hfr : ∀ f d, doc.findFrag f = some d → FragOk s doc d) (hdirs : dirsOk s o.dirs)
    (t : String) (hroot : s.root o.ty = some t) (hsels : SelsOk s doc t o.sels) (h : opDiags s doc o = []) :
    ∀ n, (n ∈ dirsVars o.dirs ∨ UsesSels doc o.sels n) → declared o.vars n = true := by
  unfold opDiags at h
  rw [hroot] at h
  simp only [List.append_eq_nil_iff] at h
  obtain ⟨⟨h1, _⟩, h3⟩ := h
  have hw := walkSels_walkOk s doc o.vars hfr _ 0
    (enterFrag_handlerOk s doc o.vars hfr doc.frags.length 1 (by omega)) o.sels t [] _ hsels List.nodup_nil
    (by intro x hx; cases hx) (Nat.zero_le _) (Prod.ext h3 rfl)
  have hclosed : ∀ g ∈ (walkSels s doc o.vars (enterFrag s doc o.vars doc.frags.length) (some t) o.sels []).2,
      Done o.vars doc (walkSels s doc o.vars (enterFrag s doc o.vars doc.frags.length) (some t) o.sels []).2 g := by
    intro g hg
    rcases hw.fresh g hg with hn | hd
    · cases hn
    · exact hd
  intro n hn
  rcases hn with hn | hn
  · exact dirsDiags_complete s o.vars o.dirs hdirs h1 n hn
  · exact uses_declared o.vars doc _ hclosed o.sels n hn hw.spreads hw.locals

/-- **every used variable is declared**, for every operation of a document on which the typed rules report nothing -/
theorem document_variables_defined (s : RSchema) (ast : RAst) (hok : DocOk s (build s ast)) (h : typedDiags s ast = []) :
    ∀ o ∈ (build s ast).ops, ∀ n, (n ∈ dirsVars o.dirs ∨ UsesSels (build s ast) o.sels n) → declared o.vars n = true := by
  intro o ho
  unfold typedDiags at h
  simp only [List.flatMap_eq_nil_iff] at h
  obtain ⟨hd, t, hr, hs⟩ := hok.ops o ho
  exact operation_variables_defined s (build s ast) o hok.frags hd t hr hs (h o ho)

end Apollo.ExecRules
