import ApolloModel.Proofs.ParserTreeDef11
/-
C08 growth (pipeline), stage (v), part 12: the type-system definitions and extensions through the dispatcher
(`documentDispatch` → `selectDefinition` / `extensions`): `tr_typeSystemDefinition`, and the well-formedness facts of
the accepted loose definition in one Boolean (`LooseDef.wf`), enough for the printer/parser round trip
(`LooseDef.wf_strict`).
-/
set_option linter.unusedSimpArgs false
set_option linter.unusedVariables false
namespace Apollo.Parse
open Apollo.Rowan hiding Str
open Apollo.Lex hiding Str
open Apollo.FromCst (DefTree NamedDefTree defTree_of_named)

/-- the well-formedness facts the parser establishes for an accepted loose definition -/
def LooseDef.wf : LooseDef → Bool
  | .scalar _ _ ds => Ast.wfDirs ds
  | .object _ _ _ ds fs => Ast.wfDirs ds && Ast.wfFieldDefs fs
  | .interface _ _ _ ds fs => Ast.wfDirs ds && Ast.wfFieldDefs fs
  | .union _ _ ds _ => Ast.wfDirs ds
  | .enum _ _ ds vs => Ast.wfDirs ds && Ast.wfEnumValueDefs vs && vs.all (fun v => !isValueKeyword v.value)
  | .input _ _ ds fs => Ast.wfDirs ds && Ast.wfIVDs fs
  | .directive _ _ args _ _ _ _ => Ast.wfIVDs args
  | .schema _ ds roots => Ast.wfDirs ds && !roots.isEmpty
  | .scalarExt _ ds => Ast.wfDirs ds
  | .objectExt _ _ ds fs => Ast.wfDirs ds && Ast.wfFieldDefs fs
  | .interfaceExt _ _ ds fs => Ast.wfDirs ds && Ast.wfFieldDefs fs
  | .unionExt _ ds _ => Ast.wfDirs ds
  | .enumExt _ ds vs => Ast.wfDirs ds && Ast.wfEnumValueDefs vs && vs.all (fun v => !isValueKeyword v.value)
  | .inputExt _ ds fs => Ast.wfDirs ds && Ast.wfIVDs fs
  | .schemaExt ds _ => Ast.wfDirs ds

theorem fullRoots_isEmpty : ∀ (rs : List (Ast.OpType × Option Ast.Str)) (rs' : List (Ast.OpType × Ast.Str)),
    fullRoots rs = some rs' → rs'.isEmpty = rs.isEmpty
  | [], rs', h => by simp [fullRoots] at h; subst h; rfl
  | (op, some nm) :: r, rs', h => by
    simp only [fullRoots, Option.map_eq_some_iff] at h
    obtain ⟨r', _, e⟩ := h
    subst e; rfl
  | (_, none) :: _, _, h => by simp [fullRoots] at h

/-- without the two deviations, the accepted definition satisfies the hypotheses of the printer/parser round trip -/
theorem LooseDef.wf_strict (l : LooseDef) (d : Ast.Definition) (h : l.strict = some d) (hw : l.wf = true) :
    Ast.wfDefinition d = true := by
  cases l <;> simp only [LooseDef.strict] at h
  case scalar => injection h with h; subst h; exact hw
  case object desc nm impl ds fs =>
    split at h
    · cases h
    · injection h with h; subst h; exact hw
  case interface desc nm impl ds fs =>
    split at h
    · cases h
    · injection h with h; subst h; exact hw
  case union desc nm ds ms =>
    split at h
    · cases h
    · injection h with h; subst h; exact hw
  case enum desc nm ds vs =>
    injection h with h; subst h
    simp only [LooseDef.wf, Bool.and_eq_true] at hw
    simp [Ast.wfDefinition, hw.1.1, hw.1.2]
  case input => injection h with h; subst h; exact hw
  case directive desc nm args rep lead first rest =>
    split at h
    · cases h
    · injection h with h; subst h
      simp only [LooseDef.wf] at hw
      simp [Ast.wfDefinition, hw]
  case schema desc ds roots =>
    simp only [Option.map_eq_some_iff] at h
    obtain ⟨rs', hr, e⟩ := h
    subst e
    simp only [LooseDef.wf] at hw
    simp only [Ast.wfDefinition, fullRoots_isEmpty roots rs' hr]
    exact hw
  case scalarExt => injection h with h; subst h; exact hw
  case objectExt nm impl ds fs =>
    split at h
    · cases h
    · injection h with h; subst h; exact hw
  case interfaceExt nm impl ds fs =>
    split at h
    · cases h
    · injection h with h; subst h; exact hw
  case unionExt nm ds ms =>
    split at h
    · cases h
    · injection h with h; subst h; exact hw
  case enumExt nm ds vs =>
    injection h with h; subst h
    simp only [LooseDef.wf, Bool.and_eq_true] at hw
    simp [Ast.wfDefinition, hw.1.1, hw.1.2]
  case inputExt => injection h with h; subst h; exact hw
  case schemaExt ds roots =>
    simp only [Option.map_eq_some_iff] at h
    obtain ⟨rs', hr, e⟩ := h
    subst e
    exact hw

/-- what one type-system definition / extension contributes: the tokens of ONE loose definition `l` with the keywords
    `ks`, ONE element, the tree of `l` -/
def TsR (ks : List String) (cs : List Tok) (e : List Elem) : Prop :=
  ∃ (l : LooseDef) (ed : Elem), l.kws = ks ∧ TokIs cs l.toks ∧ l.wf = true ∧ e = [ed] ∧ DefTree l ed

theorem all_notKeyword {vs : List Ast.EnumValueDef} (h : ∀ v ∈ vs, isValueKeyword v.value = false) :
    vs.all (fun v => !isValueKeyword v.value) = true :=
  List.all_eq_true.mpr (fun v hv => by simp [h v hv])

/-- a definition function entered the way the dispatcher enters it -/
theorem selected_definition_tree (n : Nat) (word : String) (hword : word ∈ defWords) (s s' : PState) (st : St s)
    (hq : DefStart word (Toks s)) (h : (selectDefinition n word.toList).run s = .ok () s') (hnd : ¬ Doomed s') :
    St s' ∧ TrRes NoE s s' (TsR [word]) := by
  simp only [defWords, List.mem_cons, List.mem_singleton, List.not_mem_nil, or_false] at hword
  rcases hword with rfl | rfl | rfl | rfl | rfl | rfl | rfl | rfl
  · have e : selectDefinition n "directive".toList = directiveDefinition n := rfl
    rw [e] at h
    obtain ⟨st', res⟩ := St.step (tr_directiveDefinition n) st hq h hnd
    refine ⟨st', res.weaken ?_⟩
    rintro cs e ⟨desc, nm, args, rep, lead, first, rest, ed, h1, h2, h3, h4⟩
    exact ⟨.directive desc nm args rep lead first rest, ed, rfl, h1, h2, h3, h4⟩
  · have e : selectDefinition n "enum".toList = enumTypeDefinition n := rfl
    rw [e] at h
    obtain ⟨st', res⟩ := St.step (tr_enumTypeDefinition n) st hq h hnd
    refine ⟨st', res.weaken ?_⟩
    rintro cs e ⟨desc, nm, ds, vs, ed, h1, h2, h3, h4, h5, h6⟩
    exact ⟨.enum desc nm ds vs, ed, rfl, h1, by simp [LooseDef.wf, h2, h3, all_notKeyword h4], h5, defTree_of_named h6⟩
  · have e : selectDefinition n "input".toList = inputObjectTypeDefinition n := rfl
    rw [e] at h
    obtain ⟨st', res⟩ := St.step (tr_inputObjectTypeDefinition n) st hq h hnd
    refine ⟨st', res.weaken ?_⟩
    rintro cs e ⟨desc, nm, ds, fs, ed, h1, h2, h3, h5, h6⟩
    exact ⟨.input desc nm ds fs, ed, rfl, h1, by simp [LooseDef.wf, h2, h3], h5, defTree_of_named h6⟩
  · have e : selectDefinition n "interface".toList = interfaceTypeDefinition n := rfl
    rw [e] at h
    obtain ⟨st', res⟩ := St.step (tr_interfaceTypeDefinition n) st hq h hnd
    refine ⟨st', res.weaken ?_⟩
    rintro cs e ⟨desc, nm, impl, ds, fs, ed, h1, h2, h3, h5, h6⟩
    exact ⟨.interface desc nm impl ds fs, ed, rfl, h1, by simp [LooseDef.wf, h2, h3], h5, defTree_of_named h6⟩
  · have e : selectDefinition n "type".toList = objectTypeDefinition n := rfl
    rw [e] at h
    obtain ⟨st', res⟩ := St.step (tr_objectTypeDefinition n) st hq h hnd
    refine ⟨st', res.weaken ?_⟩
    rintro cs e ⟨desc, nm, impl, ds, fs, ed, h1, h2, h3, h5, h6⟩
    exact ⟨.object desc nm impl ds fs, ed, rfl, h1, by simp [LooseDef.wf, h2, h3], h5, defTree_of_named h6⟩
  · have e : selectDefinition n "scalar".toList = scalarTypeDefinition n := rfl
    rw [e] at h
    obtain ⟨st', res⟩ := St.step (tr_scalarTypeDefinition n) st hq h hnd
    refine ⟨st', res.weaken ?_⟩
    rintro cs e ⟨desc, nm, ds, ed, h1, h2, h5, h6⟩
    exact ⟨.scalar desc nm ds, ed, rfl, h1, h2, h5, defTree_of_named h6⟩
  · have e : selectDefinition n "schema".toList = schemaDefinition n := rfl
    rw [e] at h
    obtain ⟨st', res⟩ := St.step (tr_schemaDefinition n) st hq h hnd
    refine ⟨st', res.weaken ?_⟩
    rintro cs e ⟨desc, ds, roots, ed, h1, h2, hne, h5, h6⟩
    have hemp : roots.isEmpty = false := by cases roots with | nil => exact absurd rfl hne | cons _ _ => rfl
    exact ⟨.schema desc ds roots, ed, rfl, h1, by simp [LooseDef.wf, h2, hemp], h5, h6⟩
  · have e : selectDefinition n "union".toList = unionTypeDefinition n := rfl
    rw [e] at h
    obtain ⟨st', res⟩ := St.step (tr_unionTypeDefinition n) st hq h hnd
    refine ⟨st', res.weaken ?_⟩
    rintro cs e ⟨desc, nm, ds, ms, ed, h1, h2, h5, h6⟩
    exact ⟨.union desc nm ds ms, ed, rfl, h1, h2, h5, defTree_of_named h6⟩

/-- the `peek_data` branch of the dispatcher, at the state level, keeping the tree builder -/
theorem peekData_match_st (f : Str → PI Unit) (g : PI Unit) (s s' : PState) (t : Tok) (rest : List Tok) (st : St s)
    (ht : Toks s = t :: rest)
    (h : (peekData >>= fun o => match o with | some d => f d | none => g).run s = .ok () s') :
    ∃ sP, St sP ∧ Toks sP = Toks s ∧ sP.current = some t ∧ sP.builder = s.builder ∧ (f t.data).run sP = .ok () s' := by
  obtain ⟨d, s1, h1, h2⟩ := bind_dec peekData _ s s' () h
  unfold peekData at h1
  obtain ⟨o, sP, h3, h4⟩ := bind_dec peekToken _ s s1 d h1
  have p := peekToken_obs s sP o st.w h3
  rw [run_pure] at h4
  injection h4 with h4 h5
  subst h5
  have ho : o = some t := by rw [p.head, ht]; rfl
  subst ho
  rw [← h4] at h2
  exact ⟨sP, ⟨p.w, (run_inv_added peekToken s st.inv _ sP h3).1, eofEnd_eat st.eof p.eat (by intro x hx; cases hx),
    st.lq.of_eq p.toks⟩, p.toks, p.current, keeps_peekToken s _ sP h3, h2⟩

theorem TrRes.from_peeked {s sP s' : PState} {L : List Tok → List Elem → Prop} (ht : Toks sP = Toks s) (hb : sP.builder = s.builder)
    (h : TrRes NoE sP s' L) : TrRes NoE s s' L := by
  obtain ⟨cs, ad, a1, a2, a3, a4, a5⟩ := h
  exact ⟨cs, ad, by rw [← ht]; exact a1, a2, a3, by rw [a4, hb], a5⟩

/-- **The type-system definitions through the dispatcher.** `document()` calls the dispatcher with the kind of the
    current token `t`; if the selecting text (the token after a description, else `t` itself) is one of the eight
    definition keywords and no error is added, the run consumed the tokens of ONE loose definition of that kind and
    appended its tree. -/
theorem dispatch_definition_tree (n : Nat) (word : String) (hword : word ∈ defWords) (s s' : PState) (t : Tok) (rest : List Tok)
    (st : St s) (hc : s.current = some t) (ht : Toks s = t :: rest)
    (hsel : (t.kind = .stringValue ∧ ∃ t2, (sig rest).head? = some t2 ∧ t2.data = word.toList) ∨ t.data = word.toList)
    (h : (documentDispatch n t.kind).run s = .ok () s') (hnd : ¬ Doomed s') : St s' ∧ TrRes NoE s s' (TsR [word]) := by
  have hkw : KwWord word := kwWord_of_defWords word hword
  have hl : LexQ (Toks s) := st.lq.1
  unfold documentDispatch at h
  rcases hsel with ⟨hk, t2, hh2, hd2⟩ | hd
  · rw [hk] at h
    simp only [beq_self_eq_true, if_true] at h
    have h2 := peekDataN2_dec _ s s' () t rest st.w hc ht (by rw [hk]; rfl) h
    rw [hh2] at h2
    simp only [Option.map_some, hd2] at h2
    exact selected_definition_tree n word hword s s' st (Or.inr ⟨t, rest, t2, ht, hk, hh2, hd2⟩) h2 hnd
  · obtain ⟨c, r, hc1, hc2⟩ := hkw
    have hkn : t.kind = .name := hl.headKw (by rw [ht]; rfl) word c r hc1 hc2 hd
    rw [hkn] at h
    have e1 : (Kind.name == Kind.stringValue) = false := by decide
    simp only [e1, Bool.false_eq_true, if_false, beq_self_eq_true, Bool.true_or, if_true] at h
    obtain ⟨sP, stP, htP, _, hbP, h2⟩ := peekData_match_st _ _ s s' t rest st ht h
    rw [hd] at h2
    obtain ⟨st', res⟩ := selected_definition_tree n word hword sP s' stP (Or.inl ⟨t, by rw [htP, ht]; rfl, hd⟩) h2 hnd
    exact ⟨st', res.from_peeked htP hbP⟩

/-- `extensions()` entered on the `extend` token, the next significant token being an extension keyword -/
theorem extensions_tree (n : Nat) (w2 : String) (hw2 : w2 ∈ extWords) (s s' : PState) (t : Tok) (rest : List Tok) (t2 : Tok)
    (st : St s) (hc : s.current = some t) (ht : Toks s = t :: rest)
    (hd : t.data = "extend".toList) (hh2 : (sig rest).head? = some t2) (hd2 : t2.data = w2.toList)
    (h : (extensions n).run s = .ok () s') (hnd : ¬ Doomed s') : St s' ∧ TrRes NoE s s' (TsR ["extend", w2]) := by
  have hl : LexQ (Toks s) := st.lq.1
  obtain ⟨c, r, hc1, hc2⟩ := kwWord_extend
  have hkn : t.kind = .name := hl.headKw (by rw [ht]; rfl) "extend" c r hc1 hc2 hd
  rw [extensions_eq] at h
  have h2 := peekDataN2_dec _ s s' () t rest st.w hc ht (by rw [hkn]; rfl) h
  rw [hh2] at h2
  simp only [Option.map_some, hd2] at h2
  have hq : ∀ w2', t2.data = w2'.toList → Ext2 "extend" w2' (Toks s) := fun w2' hd' => ⟨t, rest, t2, ht, hd, hh2, hd'⟩
  simp only [extWords, List.mem_cons, List.mem_singleton, List.not_mem_nil, or_false] at hw2
  rcases hw2 with rfl | rfl | rfl | rfl | rfl | rfl | rfl
  · have e : extSel n (some "schema".toList) = schemaExtension n := rfl
    rw [e] at h2
    obtain ⟨st', res⟩ := St.step (tr_schemaExtension n) st (hq _ hd2) h2 hnd
    refine ⟨st', res.weaken ?_⟩
    rintro cs e ⟨ds, roots, ed, h1, h2, h5, h6⟩
    exact ⟨.schemaExt ds roots, ed, rfl, h1, h2, h5, h6⟩
  · have e : extSel n (some "scalar".toList) = scalarTypeExtension n := rfl
    rw [e] at h2
    obtain ⟨st', res⟩ := St.step (tr_scalarTypeExtension n) st (hq _ hd2) h2 hnd
    refine ⟨st', res.weaken ?_⟩
    rintro cs e ⟨nm, ds, ed, h1, h2, h5, h6⟩
    exact ⟨.scalarExt nm ds, ed, rfl, h1, h2, h5, defTree_of_named h6⟩
  · have e : extSel n (some "type".toList) = objectTypeExtension n := rfl
    rw [e] at h2
    obtain ⟨st', res⟩ := St.step (tr_objectTypeExtension n) st (hq _ hd2) h2 hnd
    refine ⟨st', res.weaken ?_⟩
    rintro cs e ⟨nm, impl, ds, fs, ed, h1, h2, h3, h5, h6⟩
    exact ⟨.objectExt nm impl ds fs, ed, rfl, h1, by simp [LooseDef.wf, h2, h3], h5, defTree_of_named h6⟩
  · have e : extSel n (some "interface".toList) = interfaceTypeExtension n := rfl
    rw [e] at h2
    obtain ⟨st', res⟩ := St.step (tr_interfaceTypeExtension n) st (hq _ hd2) h2 hnd
    refine ⟨st', res.weaken ?_⟩
    rintro cs e ⟨nm, impl, ds, fs, ed, h1, h2, h3, h5, h6⟩
    exact ⟨.interfaceExt nm impl ds fs, ed, rfl, h1, by simp [LooseDef.wf, h2, h3], h5, defTree_of_named h6⟩
  · have e : extSel n (some "union".toList) = unionTypeExtension n := rfl
    rw [e] at h2
    obtain ⟨st', res⟩ := St.step (tr_unionTypeExtension n) st (hq _ hd2) h2 hnd
    refine ⟨st', res.weaken ?_⟩
    rintro cs e ⟨nm, ds, ms, ed, h1, h2, h5, h6⟩
    exact ⟨.unionExt nm ds ms, ed, rfl, h1, h2, h5, defTree_of_named h6⟩
  · have e : extSel n (some "enum".toList) = enumTypeExtension n := rfl
    rw [e] at h2
    obtain ⟨st', res⟩ := St.step (tr_enumTypeExtension n) st (hq _ hd2) h2 hnd
    refine ⟨st', res.weaken ?_⟩
    rintro cs e ⟨nm, ds, vs, ed, h1, h2, h3, h4, h5, h6⟩
    exact ⟨.enumExt nm ds vs, ed, rfl, h1, by simp [LooseDef.wf, h2, h3, all_notKeyword h4], h5, defTree_of_named h6⟩
  · have e : extSel n (some "input".toList) = inputObjectTypeExtension n := rfl
    rw [e] at h2
    obtain ⟨st', res⟩ := St.step (tr_inputObjectTypeExtension n) st (hq _ hd2) h2 hnd
    refine ⟨st', res.weaken ?_⟩
    rintro cs e ⟨nm, ds, fs, ed, h1, h2, h3, h5, h6⟩
    exact ⟨.inputExt nm ds fs, ed, rfl, h1, by simp [LooseDef.wf, h2, h3], h5, defTree_of_named h6⟩

/-- **The type-system extensions through the dispatcher**: the current token reads `extend`, the next significant
    token one of the seven extension keywords. -/
theorem dispatch_extension_tree (n : Nat) (w2 : String) (hw2 : w2 ∈ extWords) (s s' : PState) (t : Tok) (rest : List Tok) (t2 : Tok)
    (st : St s) (ht : Toks s = t :: rest)
    (hd : t.data = "extend".toList) (hh2 : (sig rest).head? = some t2) (hd2 : t2.data = w2.toList)
    (h : (documentDispatch n t.kind).run s = .ok () s') (hnd : ¬ Doomed s') : St s' ∧ TrRes NoE s s' (TsR ["extend", w2]) := by
  have hl : LexQ (Toks s) := st.lq.1
  obtain ⟨c, r, hc1, hc2⟩ := kwWord_extend
  have hkn : t.kind = .name := hl.headKw (by rw [ht]; rfl) "extend" c r hc1 hc2 hd
  unfold documentDispatch at h
  rw [hkn] at h
  have e1 : (Kind.name == Kind.stringValue) = false := by decide
  simp only [e1, Bool.false_eq_true, if_false, beq_self_eq_true, Bool.true_or, if_true] at h
  obtain ⟨sP, stP, htP, hcP, hbP, h2⟩ := peekData_match_st _ _ s s' t rest st ht h
  rw [hd] at h2
  have e : selectDefinition n "extend".toList = extensions n := rfl
  rw [e] at h2
  obtain ⟨st', res⟩ := extensions_tree n w2 hw2 sP s' t rest t2 stP hcP (by rw [htP]; exact ht) hd hh2 hd2 h2 hnd
  exact ⟨st', res.from_peeked htP hbP⟩

/-- how the dispatcher selects a type-system definition or extension: by the text of the current token `t`, or of
    the next significant token when `t` is a description (definitions) or reads `extend` (extensions) -/
inductive TsSel (t : Tok) (rest : List Tok) : List String → Prop
  | kw (word : String) (hw : word ∈ defWords) (hd : t.data = word.toList) : TsSel t rest [word]
  | desc (word : String) (hw : word ∈ defWords) (hk : t.kind = .stringValue) (t2 : Tok) (hh : (sig rest).head? = some t2)
      (hd : t2.data = word.toList) : TsSel t rest [word]
  | ext (w2 : String) (hw : w2 ∈ extWords) (hd : t.data = "extend".toList) (t2 : Tok) (hh : (sig rest).head? = some t2)
      (hd2 : t2.data = w2.toList) : TsSel t rest ["extend", w2]

/-- **every type-system definition and extension through the dispatcher**: an error-free run of `documentDispatch` on
    a selecting token consumed the tokens of ONE loose definition `l` (with the selected keywords) and appended ONE
    element, the tree of `l`; `l` is well-formed -/
theorem tr_typeSystemDefinition (n : Nat) (s s' : PState) (t : Tok) (rest : List Tok) (ks : List String) (st : St s)
    (hc : s.current = some t) (ht : Toks s = t :: rest) (hsel : TsSel t rest ks)
    (h : (documentDispatch n t.kind).run s = .ok () s') (hnd : ¬ Doomed s') : St s' ∧ TrRes NoE s s' (TsR ks) := by
  cases hsel with
  | kw word hw hd => exact dispatch_definition_tree n word hw s s' t rest st hc ht (Or.inr hd) h hnd
  | desc word hw hk t2 hh hd => exact dispatch_definition_tree n word hw s s' t rest st hc ht (Or.inl ⟨hk, t2, hh, hd⟩) h hnd
  | ext w2 hw hd t2 hh hd2 => exact dispatch_extension_tree n w2 hw s s' t rest t2 st ht hd hh hd2 h hnd

end Apollo.Parse
