import ApolloModel.Proofs.Standalone
/-
Property C18, second sentence, on the validation model of Model/Standalone.lean: what a with-schema run
that reports nothing guarantees about the selection tree of every operation.
-/
namespace Apollo.Standalone

/-- every field resolves on its parent type, composite fields have a sub-selection, leaf fields have none,
    every spread names a fragment of the document -/
def treeOk (sc : Schema) (doc : BuiltDoc) : Name → Sels → Bool
  | _, .nil => true
  | parent, .field name _ _ sub rest =>
    (match sc.field parent name with
     | some fd =>
       !(sub.isNil && sc.kind fd.ty == some .composite) && !(!sub.isNil && sc.kind fd.ty == some .leaf) &&
         treeOk sc doc fd.ty sub
     | none => false) && treeOk sc doc parent rest
  | parent, .spread f _ rest => (doc.findFrag f).isSome && treeOk sc doc parent rest
  | parent, .inline tc _ sub rest => treeOk sc doc (tc.getD parent) sub && treeOk sc doc parent rest

theorem walkSels_treeOk (p : Params) (sc : Schema) (doc : BuiltDoc)
    (e : Frag → List Name → List Diag × List Name) (t : Sels) :
    ∀ (ty : Name) (V V' : List Name), typed sc ty t = true →
      walkSels p (some sc) doc e (some ty) t V = ([], V') → treeOk sc doc ty t = true := by
  induction t with
  | nil => intro ty V V' _ _; simp [treeOk]
  | field name dirs args sub rest ihs ihr =>
    intro ty V V' ht h
    simp only [typed, Bool.and_eq_true] at ht
    obtain ⟨htf, htr⟩ := ht
    cases hf : sc.field ty name with
    | none => simp [hf] at htf
    | some fd =>
      simp only [hf, Bool.and_eq_true] at htf
      simp only [walkSels, hf] at h
      by_cases hm : (sub.isNil && sc.kind fd.ty == some Kind.composite) = true
      · simp [hm] at h
      · simp only [hm, Bool.false_eq_true, ↓reduceIte, Prod.mk.injEq, List.append_eq_nil_iff] at h
        obtain ⟨⟨⟨_, _, h3⟩, h4⟩, hV⟩ := h
        have e3 := ihs fd.ty V _ htf.2 (Prod.ext h3 rfl)
        have e4 := ihr ty _ V' htr (Prod.ext h4 hV)
        simp only [treeOk, hf, e3, e4, Bool.and_true, Bool.and_eq_true, Bool.not_eq_true']
        refine ⟨by simpa using hm, ?_⟩
        have h1 := htf.1
        cases hs : sub.isNil <;> cases hl : (sc.kind fd.ty == some Kind.leaf) <;> simp_all
  | spread f dirs rest ihr =>
    intro ty V V' ht h
    simp only [typed] at ht
    simp only [walkSels] at h
    cases hf : doc.findFrag f with
    | none => simp [hf] at h
    | some d =>
      simp only [hf, Prod.mk.injEq, List.append_eq_nil_iff] at h
      obtain ⟨⟨_, h4⟩, hV⟩ := h
      have e4 := ihr ty _ V' ht (Prod.ext h4 hV)
      simp [treeOk, hf, e4]
  | inline tc dirs sub rest ihs ihr =>
    intro ty V V' ht h
    simp only [typed, Bool.and_eq_true] at ht
    obtain ⟨hts, htr⟩ := ht
    cases tc with
    | none =>
      simp only [walkSels, List.isEmpty_nil, ↓reduceIte, List.append_nil, Prod.mk.injEq, List.append_eq_nil_iff] at h
      obtain ⟨⟨⟨_, h3⟩, h4⟩, hV⟩ := h
      have e3 := ihs ty V _ hts (Prod.ext h3 rfl)
      have e4 := ihr ty _ V' htr (Prod.ext h4 hV)
      simp [treeOk, e3, e4]
    | some t =>
      simp only [Bool.and_eq_true] at hts
      simp only [walkSels] at h
      by_cases hk : (sc.kind t == some Kind.composite) = true
      · simp only [hk, ↓reduceIte, List.isEmpty_nil, List.append_nil, Prod.mk.injEq, List.append_eq_nil_iff] at h
        obtain ⟨⟨⟨_, h3⟩, h4⟩, hV⟩ := h
        have e3 := ihs t V _ hts.2 (Prod.ext h3 rfl)
        have e4 := ihr ty _ V' htr (Prod.ext h4 hV)
        simp [treeOk, e3, e4]
      · simp [hk] at h

/-- every operation of a document that validates against a schema -/
theorem valid_ops_treeOk (p : Params) (hp : p.undefinedDirectiveWithoutSchema = false) (sc : Schema) (ast : Ast)
    (h : validate p (some sc) ast = []) :
    ∀ o, o ∈ (build (some sc) ast).doc.ops →
      ∃ t, sc.root o.ty = some t ∧ treeOk sc (build (some sc) ast).doc t o.sels = true := by
  simp only [validate, List.append_eq_nil_iff] at h
  obtain ⟨⟨hb, hv⟩, _⟩ := h
  have r := build_rel p sc ast (.inl hp) hb
  intro o ho
  obtain ⟨⟨t, hr, ht⟩, _⟩ := r.ok.ops o ho
  refine ⟨t, hr, ?_⟩
  simp only [validateBuilt, List.append_eq_nil_iff, List.flatMap_eq_nil_iff] at hv
  have hop := hv.1.1 o ho
  simp only [validateOp, List.append_eq_nil_iff, Option.bind_some, hr] at hop
  exact walkSels_treeOk p sc _ _ o.sels t [] _ ht (Prod.ext hop.2 rfl)

/-- a fragment definition that validation entered: its type condition is composite, it is not on a cycle,
    and its body is well shaped -/
theorem enterFrag_treeOk (p : Params) (sc : Schema) (doc : BuiltDoc) (n : Nat) (f : Frag) (V V' : List Name)
    (ht : typed sc f.tc f.sels = true) (h : enterFrag p (some sc) doc n f V = ([], V')) :
    sc.kind f.tc = some .composite ∧ ¬ f.name ∈ reach doc f.sels ∧ treeOk sc doc f.tc f.sels = true := by
  cases n with
  | zero => simp [enterFrag] at h
  | succ n =>
    simp only [enterFrag] at h
    by_cases hc : (sc.kind f.tc == some Kind.composite) = true
    · by_cases hy : f.name ∈ reach doc f.sels
      · simp [hc, hy] at h
      · simp only [hc, hy, ↓reduceIte, List.isEmpty_nil, Bool.and_self, Prod.mk.injEq, List.append_eq_nil_iff] at h
        obtain ⟨⟨_, hw⟩, hV⟩ := h
        have hk : sc.kind f.tc = some .composite := by simpa using hc
        have hty : fragTy (some sc) f = some f.tc := by simp [fragTy, hk]
        rw [hty] at hw hV
        exact ⟨hk, hy, walkSels_treeOk p sc doc _ f.sels f.tc V V' ht (Prod.ext hw hV)⟩
    · simp [hc] at h

end Apollo.Standalone
