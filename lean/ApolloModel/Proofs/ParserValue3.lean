import ApolloModel.Proofs.ParserValue2
/-
C05 growth (values), part 3: token-level specifications of the small productions.
-/
set_option linter.unusedSimpArgs false
namespace Apollo.Parse
open Apollo.Rowan hiding Str
open Apollo.Lex hiding Str

/-- the head of the queue is the end-of-input token -/
def AtEof (s : PState) : Prop := ∃ e, (Toks s).head? = some e ∧ e.kind = .eof

theorem atEof_single (s : PState) (he : EofEnd s) (hnd : ¬ Doomed s) (ha : AtEof s) : ∃ e, Toks s = [e] ∧ e.kind = .eof := by
  obtain ⟨e, hh, hk⟩ := ha
  rcases he with d | ⟨pre, x, hq, hx, hno⟩
  · exact absurd d hnd
  · cases pre with
    | nil => exact ⟨x, hq, hx⟩
    | cons y pre =>
      exfalso
      rw [hq] at hh
      simp only [List.cons_append, List.head?_cons, Option.some.injEq] at hh
      subst hh
      exact hno y (by simp) hk

theorem toks_head_cons (s : PState) (t : Tok) (h : (Toks s).head? = some t) : Toks s = t :: (Toks s).tail := by
  cases hq : Toks s with
  | nil => rw [hq] at h; cases h
  | cons a b => rw [hq] at h; injection h with h; subst h; rfl

theorem noEof_cons {t : Tok} {ign : List Tok} (ht : t.kind ≠ .eof) (hall : ∀ x ∈ ign, isIgnoredKind x.kind = true) :
    NoEof (t :: ign) := by
  intro x hx
  rcases List.mem_cons.mp hx with rfl | hx
  · exact ht
  · exact noEof_ignored ign hall x hx

theorem sig_cons_ignV (t : Tok) (ign : List Tok) (hni : isIgnoredKind t.kind = false)
    (hall : ∀ x ∈ ign, isIgnoredKind x.kind = true) : sig (t :: ign) = [t] := by
  have : t :: ign = [t] ++ ign := rfl
  rw [this, sig_append, sig_single t hni, sig_ignored ign hall]; rfl

/-- `bump` moves the head of the queue to the tree and skips what is ignored after it -/
theorem bump_spec (k : SK) (s s' : PState) (w : TW s) (t : Tok) (rest : List Tok) (ht : Toks s = t :: rest)
    (h : (bump k).run s = .ok () s') :
    ∃ ign, Eat s s' (t :: ign) ∧ (∀ x ∈ ign, isIgnoredKind x.kind = true) ∧ Settled s' := by
  unfold bump at h
  obtain ⟨_, s1, h1, h2⟩ := bind_dec (eat k) _ s s' () h
  have e1 : Eat s s1 [t] := by
    rcases eat_spec k s s1 w h1 with ⟨t', rest', hq, e, _⟩ | ⟨hq, _⟩
    · rw [ht] at hq; injection hq with hq _; subst hq; exact e
    · rw [ht] at hq; cases hq
  obtain ⟨ign, e2, hall, hset⟩ := skipIgnored_spec s1 s' e1.w h2
  exact ⟨ign, by simpa using e1.trans e2, hall, hset⟩

/-- a one-token node: `let _g = p.start_node(K); p.bump(k)` on a significant head -/
theorem nodeBump_spec (K k : SK) (s s' : PState) (w : TW s) (t : Tok) (rest : List Tok) (ht : Toks s = t :: rest)
    (hni : isIgnoredKind t.kind = false) (h : (withNode K (bump k)).run s = .ok () s') :
    ∃ ign, Eat s s' (t :: ign) ∧ (∀ x ∈ ign, isIgnoredKind x.kind = true) := by
  obtain ⟨s1, s2, e1, h1, o2⟩ := withNode_peeked K (bump k) s s' () t rest w ht hni h
  have ht1 : Toks s1 = t :: rest := by have := e1.toks; rw [ht] at this; simpa using this.symm
  obtain ⟨ign, e, hall, _⟩ := bump_spec k s1 s2 e1.w t rest ht1 h1
  exact ⟨ign, by simpa using (e1.trans e).trans (Eat.ofObsEq o2 e.w), hall⟩

/-- `name::name`: on a non-empty queue either the head is a Name token and it is consumed, or an error is recorded -/
theorem name_spec (s s' : PState) (w : TW s) (hne : Toks s ≠ []) (h : name.run s = .ok () s') (hnd : ¬ Doomed s') :
    ∃ t rest ign, Toks s = t :: rest ∧ t.kind = .name ∧ Eat s s' (t :: ign) ∧ (∀ x ∈ ign, isIgnoredKind x.kind = true) := by
  unfold name at h
  obtain ⟨o, s1, h1, h2⟩ := bind_dec peekToken _ s s' () h
  have p := peekToken_obs s s1 o w h1
  have hne1 : Toks s1 ≠ [] := by rw [p.toks]; exact hne
  cases o with
  | none =>
    exfalso
    simp only [] at h2
    exact hnd ((err_adv s1 s' p.w h2).2 hne1)
  | some t =>
    simp only [] at h2
    have htq : Toks s = t :: (Toks s).tail := toks_head_cons s t p.head.symm
    by_cases hk : (t.kind == .name) = true
    · simp only [hk, if_true] at h2
      have hkk : t.kind = .name := by simpa using hk
      have ht1 : Toks s1 = t :: (Toks s).tail := by rw [p.toks]; exact htq
      obtain ⟨ign, e, hall⟩ := nodeBump_spec "NAME" "IDENT" s1 s' p.w t _ ht1 (by rw [hkk]; rfl) h2
      exact ⟨t, _, ign, htq, hkk, by simpa using p.eat.trans e, hall⟩
    · exfalso
      simp only [hk, Bool.false_eq_true, if_false] at h2
      exact hnd ((err_adv s1 s' p.w h2).2 hne1)

theorem valueErr_dooms (p : Bool) (s s' : PState) (w : TW s) (hne : Toks s ≠ []) (h : (valueErr p).run s = .ok () s') :
    Doomed s' := by
  unfold valueErr at h
  cases p with
  | false => simp only [Bool.false_eq_true, if_false] at h; exact (err_adv s s' w h).2 hne
  | true =>
    simp only [if_true] at h
    unfold errAndPop at h
    obtain ⟨_, s1, h1, h2⟩ := bind_dec pushIgnored _ s s' () h
    have o1 := pushIgnored_obs s s1 h1
    obtain ⟨o, s2, h3, h4⟩ := bind_dec peekToken _ s1 s' () h2
    have p2 := peekToken_obs s1 s2 o (o1.w w) h3
    cases o with
    | none =>
      exfalso
      have hh := p2.head
      rw [o1.toks] at hh
      cases hq : Toks s with
      | nil => exact hne hq
      | cons a b => rw [hq] at hh; cases hh
    | some t =>
      simp only [] at h4
      obtain ⟨_, s3, h5, h6⟩ := bind_dec (moveCurToTree "ERROR") _ s2 s' () h4
      obtain ⟨_, s4, h7, h8⟩ := bind_dec (pushErr (tokErr t)) _ s3 s' () h6
      have w3 : TW s3 := by
        rcases moveCurToTree_spec "ERROR" s2 s3 p2.w h5 with ⟨_, _, e, _⟩ | ⟨_, rfl⟩
        · exact e.w
        · exact p2.w
      obtain ⟨a4, d4⟩ := pushErr_adv _ s3 s4 w3 h7
      exact (good_skipIgnored s4 () s' a4.w h8).doom d4

theorem eofEnd_toks_ne (s : PState) (he : EofEnd s) (hnd : ¬ Doomed s) : Toks s ≠ [] := eofEnd_nonempty s he hnd

end Apollo.Parse
