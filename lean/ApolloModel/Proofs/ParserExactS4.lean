import ApolloModel.Proofs.ParserExactS3
/-
EXACT SOUNDNESS, part 4 (namespace Apollo.Parse.Exact): ParserSel3/4 repeated with the recursion budget and the
well-formedness facts — optional arguments / directives, fragment spread, field.
-/
set_option linter.unusedSimpArgs false
namespace Apollo.Parse.Exact
open Apollo.Rowan hiding Str
open Apollo.Lex hiding Str

/-- `if p.peek() == Some(T![@]) { directives }` -/
theorem optDirectives_sound (n : Nat) (s s' : PState) (w : TW s) (he : EofEnd s)
    (h : (peek >>= fun k => if k == some Kind.at then directives n false else pure ()).run s = .ok () s') (hnd : ¬ Doomed s') :
    Cons s s' (fun x => ∃ ds, x = Ast.tDirectives ds ∧ dirsFit false (bud s) ds) := by
  obtain ⟨sP, o, p, hor⟩ := ifPeek_dec .at _ _ s s' () w h
  have heP := p.eofEnd he
  rcases hor with ⟨_, h2⟩ | ⟨_, h2⟩
  · obtain ⟨cs, ds, a, b, c, d, hf⟩ := directives_sound n false sP s' p.w heP h2 hnd
    exact ⟨cs, _, by rw [← p.toks]; exact a, b, c, d, ds, rfl, by rw [← bud_peek p]; exact hf⟩
  · rw [run_pure] at h2
    injection h2 with _ h2
    subst h2
    exact (Cons.nil p.toks heP).weaken (by rintro x rfl; exact ⟨[], rfl, by intro d hd; cases hd⟩)

/-- `if p.peek() == Some(T!['(']) { arguments }` -/
theorem optArguments_sound (n : Nat) (s s' : PState) (w : TW s) (he : EofEnd s)
    (h : (peek >>= fun k => if k == some Kind.lParen then arguments n false else pure ()).run s = .ok () s') (hnd : ¬ Doomed s') :
    Cons s s' (fun x => ∃ args, x = Ast.tArguments args ∧ argsFit false (bud s) args) := by
  obtain ⟨sP, o, p, hor⟩ := ifPeek_dec .lParen _ _ s s' () w h
  have heP := p.eofEnd he
  rcases hor with ⟨hk, h2⟩ | ⟨_, h2⟩
  · obtain ⟨t, rfl, hkt⟩ : ∃ t, o = some t ∧ t.kind = .lParen := by
      cases o with
      | none => simp at hk
      | some t => exact ⟨t, rfl, by simpa using hk⟩
    obtain ⟨cs, args, a, b, c, _, d, hf⟩ := arguments_sound n false sP s' t _ p.w heP p.head_cons hkt h2 hnd
    exact ⟨cs, _, by rw [← p.toks]; exact a, b, c, d, args, rfl, by rw [← bud_peek p]; exact hf⟩
  · rw [run_pure] at h2
    injection h2 with _ h2
    subst h2
    exact (Cons.nil p.toks heP).weaken (by rintro x rfl; exact ⟨[], rfl, by intro a ha; cases ha⟩)

/-- `... FragmentName Directives?` -/
theorem fragmentSpread_sound (n : Nat) (s s' : PState) (t : Tok) (rest : List Tok) (w : TW s) (he : EofEnd s)
    (ht : Toks s = t :: rest) (hk : t.kind = .spread) (h : (fragmentSpread n).run s = .ok () s') (hnd : ¬ Doomed s') :
    Cons s s' (fun x => ∃ nm ds, x = Ast.tSel (.spread nm ds) ∧ fitSel (.spread nm ds) (bud s)) := by
  have hni : isIgnoredKind t.kind = false := by rw [hk]; rfl
  unfold fragmentSpread at h
  obtain ⟨s1, s2, e1, h1, o2⟩ := withNode_peeked "FRAGMENT_SPREAD" _ s s' () t rest w ht hni h
  have ht1 : Toks s1 = t :: rest := by have := e1.toks; rw [ht] at this; simpa using this.symm
  have hnd2 : ¬ Doomed s2 := fun d => hnd (o2.doomed.mpr d)
  have he1 : EofEnd s1 := eofEnd_eat he e1 (by intro x hx; cases hx)
  obtain ⟨_, s3, h3, h4⟩ := bind_dec (bump "SPREAD") _ s1 s2 () h1
  obtain ⟨ign, e3, hall, _⟩ := bump_spec "SPREAD" s1 s3 e1.w t rest ht1 h3
  have hno3 : NoEof (t :: ign) := noEof_cons (by rw [hk]; decide) hall
  have c0 : Cons s1 s3 (fun x => x = [.p .spread]) :=
    Cons.ofEat e3 he1 hno3 (tokIs_punct t ign .spread hni (by simp [astOfV, hk]) hall)
  have he3 := c0.eofEnd
  have gjp : Good (peek >>= fun k => if k == some Kind.at then directives n false else pure ()) :=
    good_bind _ _ good_peek (fun k => good_ite _ _ _ (good_directives n false) (good_pure _))
  obtain ⟨sP, o, p, hor⟩ := ifPeek_dec .name (fragmentName >>= fun _ => (peek >>= fun k => if k == some Kind.at then directives n false else pure ()))
    (err >>= fun _ => (peek >>= fun k => if k == some Kind.at then directives n false else pure ())) s3 s2 () e3.w h4
  have heP := p.eofEnd he3
  rcases hor with ⟨hkn, h5⟩ | ⟨_, h5⟩
  · obtain ⟨t2, rfl, hk2⟩ : ∃ t2, o = some t2 ∧ t2.kind = .name := by
      cases o with
      | none => simp at hkn
      | some t2 => exact ⟨t2, rfl, by simpa using hkn⟩
    obtain ⟨_, s4, h6, h7⟩ := bind_dec fragmentName _ sP s2 () h5
    have a6 := good_fragmentName sP () s4 p.w h6
    have hnd4 : ¬ Doomed s4 := fun d => hnd2 ((gjp s4 () s2 a6.w h7).doom d)
    obtain ⟨c1, hne⟩ := fragmentName_sound sP s4 t2 _ p.w heP p.head_cons hk2 h6 hnd4
    have c1' : Cons s3 s4 (IsNameTok t2) := c1.transport p.toks.symm rfl c1.eofEnd
    have c2 := optDirectives_sound n s4 s2 a6.w c1.eofEnd h7 hnd2
    have h0 : Toks s = Toks s1 := by simpa using e1.toks
    have c := ((c0.seq c1').seq c2).transport h0 o2.toks (eofEnd_same _ _ c2.eofEnd o2.current o2.lx o2.errors)
    have hb4 : bud s4 = bud s := by rw [bud_adv a6, bud_peek p, bud_eat e3, bud_eat e1]
    exact c.weaken (by
      rintro z ⟨xy, y, rfl, ⟨x1, x2, rfl, rfl, rfl⟩, ds, rfl, hfd⟩
      exact ⟨t2.data, ds, by simp [Ast.tSel], by rw [fitSel]; exact ⟨hne, by rw [← hb4]; exact hfd⟩⟩)
  · exfalso
    obtain ⟨_, s4, h6, h7⟩ := bind_dec err _ sP s2 () h5
    obtain ⟨a6, d6⟩ := err_adv sP s4 p.w h6
    have hndP : ¬ Doomed sP := fun d => hnd2 ((gjp s4 () s2 a6.w h7).doom (a6.doom d))
    exact hnd2 ((gjp s4 () s2 a6.w h7).doom (d6 (eofEnd_nonempty sP heP hndP)))

def SelSetSound (n : Nat) : Prop :=
  ∀ s s' t rest, TW s → EofEnd s → Toks s = t :: rest → t.kind = .lCurly → (selectionSet n).run s = .ok () s' → ¬ Doomed s' →
    Cons s s' (LSet (bud s))

def SelsSound (n : Nat) : Prop :=
  ∀ s s', TW s → EofEnd s → (selection n).run s = .ok () s' → ¬ Doomed s' →
    Cons s s' (LSels (bud s))

def SelFieldSound (n : Nat) : Prop :=
  ∀ s s' t rest, TW s → EofEnd s → Toks s = t :: rest → t.kind = .name → (field n).run s = .ok () s' → ¬ Doomed s' →
    Cons s s' (fun x => ∃ f, x = Ast.tSel f ∧ fitSel f (bud s))

def InlineSound (n : Nat) : Prop :=
  ∀ s s' t rest, TW s → EofEnd s → Toks s = t :: rest → t.kind = .spread → (inlineFragment n).run s = .ok () s' → ¬ Doomed s' →
    Cons s s' (fun x => ∃ f, x = Ast.tSel f ∧ fitSel f (bud s))

/-- `if peek == k { A }; R` splits into the optional part and the rest -/
theorem optThen_dec (k : Kind) (A R : PI Unit) (s s' : PState)
    (h : (peek >>= fun x => if x == some k then (A >>= fun _ => R) else R).run s = .ok () s') :
    ∃ s1, (peek >>= fun x => if x == some k then A else pure ()).run s = .ok () s1 ∧ R.run s1 = .ok () s' := by
  obtain ⟨ko, sP, hp, h2⟩ := bind_dec peek _ s s' () h
  by_cases hc : (ko == some k) = true
  · simp only [hc, if_true] at h2
    obtain ⟨_, s1, h3, h4⟩ := bind_dec A _ sP s' () h2
    refine ⟨s1, ?_, h4⟩
    rw [run_bind, hp]
    simp only [hc, if_true]
    exact h3
  · simp only [hc, Bool.false_eq_true, if_false] at h2
    refine ⟨sP, ?_, h2⟩
    rw [run_bind, hp]
    simp only [hc, Bool.false_eq_true, if_false]
    rfl

theorem good_opt (k : Kind) (A : PI Unit) (ha : Good A) : Good (peek >>= fun x => if x == some k then A else pure ()) :=
  good_ifPeek k A ha

/-- `if p.peek() == Some(T!['{']) { selection_set }` -/
theorem optSelSet_sound (n : Nat) (ih : SelSetSound n) (s s' : PState) (w : TW s) (he : EofEnd s)
    (h : (peek >>= fun k => if k == some Kind.lCurly then selectionSet n else pure ()).run s = .ok () s') (hnd : ¬ Doomed s') :
    Cons s s' (fun x => ∃ sub, x = Ast.tSubSels sub ∧ fitSub sub (bud s)) := by
  obtain ⟨sP, o, p, hor⟩ := ifPeek_dec .lCurly _ _ s s' () w h
  have heP := p.eofEnd he
  rcases hor with ⟨hk, h2⟩ | ⟨_, h2⟩
  · obtain ⟨t, rfl, hkt⟩ : ∃ t, o = some t ∧ t.kind = .lCurly := by
      cases o with
      | none => simp at hk
      | some t => exact ⟨t, rfl, by simpa using hk⟩
    have c := ih sP s' t _ p.w heP p.head_cons hkt h2 hnd
    refine (c.transport p.toks.symm rfl c.eofEnd).weaken ?_
    rintro x ⟨ss, hne, rfl, hb1, hfs⟩
    rw [bud_peek p] at hb1 hfs
    cases ss with
    | nil => exact absurd rfl hne
    | cons a tl =>
      rw [fitSels] at hfs
      exact ⟨.cons a tl, by rw [Ast.tSubSels_cons], by rw [fitSub]; exact ⟨hb1, hfs.1, hfs.2⟩⟩
  · rw [run_pure] at h2
    injection h2 with _ h2
    subst h2
    exact (Cons.nil p.toks heP).weaken (by rintro x rfl; exact ⟨.nil, by simp [Ast.tSubSels], by simp [fitSub]⟩)



/-- the tail of a field: `Arguments? Directives? SelectionSet?` -/
theorem fieldTail_sound (n : Nat) (ih : SelSetSound n) (s s' : PState) (w : TW s) (he : EofEnd s)
    (h : (fieldT1 n).run s = .ok () s')
    (hnd : ¬ Doomed s') :
    Cons s s' (fun x => ∃ args ds sub, x = Ast.tArguments args ++ Ast.tDirectives ds ++ Ast.tSubSels sub ∧
      argsFit false (bud s) args ∧ dirsFit false (bud s) ds ∧ fitSub sub (bud s)) := by
  obtain ⟨s1, h1, h2⟩ := optThen_dec .lParen (arguments n false) (fieldT2 n) s s' h
  obtain ⟨s2, h3, h4⟩ := optThen_dec .at (directives n false) (fieldT3 n) s1 s' h2
  have g3 := good_opt .lCurly _ (goodSel n).selSet
  have g2 := good_opt .at _ (good_directives n false)
  have a1 := good_opt .lParen _ (good_arguments n false) s () s1 w h1
  have a2 := g2 s1 () s2 a1.w h3
  have hnd2 : ¬ Doomed s2 := fun d => hnd ((g3 s2 () s' a2.w h4).doom d)
  have hnd1 : ¬ Doomed s1 := fun d => hnd2 (a2.doom d)
  have c1 := optArguments_sound n s s1 w he h1 hnd1
  have c2 := optDirectives_sound n s1 s2 a1.w c1.eofEnd h3 hnd2
  have c3 := optSelSet_sound n ih s2 s' a2.w c2.eofEnd h4 hnd
  have hb1 : bud s1 = bud s := bud_adv a1
  have hb2 : bud s2 = bud s := by rw [bud_adv a2, hb1]
  exact ((c1.seq c2).seq c3).weaken (by
    rintro z ⟨xy, y, rfl, ⟨x1, x2, rfl, ⟨args, rfl, ha⟩, ⟨ds, rfl, hd⟩⟩, ⟨sub, rfl, hs⟩⟩
    exact ⟨args, ds, sub, rfl, ha, by rw [← hb1]; exact hd, by rw [← hb2]; exact hs⟩)


theorem field_sound_step (n : Nat) (ih : SelSetSound n) : SelFieldSound (n + 1) := by
  intro s s' t rest w he ht hk h hnd
  have hni : isIgnoredKind t.kind = false := by rw [hk]; rfl
  rw [field_succ] at h
  obtain ⟨s1, s2, e1, h1, o2⟩ := withNode_peeked "FIELD" _ s s' () t rest w ht hni h
  have ht1 : Toks s1 = t :: rest := by have := e1.toks; rw [ht] at this; simpa using this.symm
  have hnd2 : ¬ Doomed s2 := fun d => hnd (o2.doomed.mpr d)
  have he1 : EofEnd s1 := eofEnd_eat he e1 (by intro x hx; cases hx)
  have h0 : Toks s = Toks s1 := by simpa using e1.toks
  unfold fieldBody at h1
  obtain ⟨sP, o, p, hor⟩ := ifPeek_dec .name _ _ s1 s2 () e1.w h1
  have ho : o = some t := by rw [p.head, ht1]; rfl
  subst ho
  have htP : Toks sP = t :: rest := by rw [p.toks]; exact ht1
  have heP := p.eofEnd he1
  -- the tail is Good
  have gtail := good_fieldBody n (goodSel n)
  rcases hor with ⟨_, h2⟩ | ⟨hne, _⟩
  · obtain ⟨k2, sQ, hq, h3⟩ := bind_dec (peekN 2) _ sP s2 () h2
    obtain ⟨rfl, hk2⟩ := peekN2_spec sP sQ k2 t rest p.w p.current htP hni hq
    by_cases hc : (k2 == some Kind.colon) = true
    · -- alias
      simp only [hc, if_true] at h3
      obtain ⟨_, s3, h4, h5⟩ := bind_dec alias _ sQ s2 () h3
      obtain ⟨_, s4, h6, h7⟩ := bind_dec name _ s3 s2 () h5
      have a3 := good_alias sQ () s3 p.w h4
      have a4 := good_name s3 () s4 a3.w h6
      have h7' : (fieldT1 n).run s4 = .ok () s2 := h7
      have hnd4 : ¬ Doomed s4 := fun d => hnd2 ((good_fieldT1 n s4 () s2 a4.w h7').doom d)
      have hnd3 : ¬ Doomed s3 := fun d => hnd4 (a4.doom d)
      have ca := alias_sound sQ s3 t rest p.w heP htP hk (by rw [← hk2]; simpa using hc) h4
      obtain ⟨t2, r2, ign2, hq2, hk2', e2, hall2⟩ := name_spec s3 s4 a3.w (eofEnd_nonempty s3 ca.eofEnd hnd3) h6 hnd4
      have cn := cons_of_name e2 ca.eofEnd hk2' hall2
      have ct := fieldTail_sound n ih s4 s2 a4.w cn.eofEnd h7' hnd2
      have c := (((ca.seq cn).seq ct).transport (h0.trans p.toks.symm) o2.toks (eofEnd_same _ _ ct.eofEnd o2.current o2.lx o2.errors))
      have hb4 : bud s4 = bud s := by rw [bud_adv a4, bud_adv a3, bud_peek p, bud_eat e1]
      exact c.weaken (by
        rintro z ⟨xy, y, rfl, ⟨x1, x2, rfl, rfl, rfl⟩, ⟨args, ds, sub, rfl, ha, hd, hs⟩⟩
        rw [hb4] at ha hd hs
        exact ⟨.field (some t.data) t2.data args ds sub, by simp [Ast.tSel, List.append_assoc], by rw [fitSel]; exact ⟨ha, hd, hs⟩⟩)
    · simp only [hc, Bool.false_eq_true, if_false] at h3
      obtain ⟨_, s4, h6, h7⟩ := bind_dec name _ sQ s2 () h3
      obtain ⟨ign, e4, hall, _⟩ := name_settled sQ s4 t rest p.w htP hk h6
      have cn := cons_of_name e4 heP hk hall
      have ct := fieldTail_sound n ih s4 s2 e4.w cn.eofEnd (show (fieldT1 n).run s4 = .ok () s2 from h7) hnd2
      have c := ((cn.seq ct).transport (h0.trans p.toks.symm) o2.toks (eofEnd_same _ _ ct.eofEnd o2.current o2.lx o2.errors))
      have hb4 : bud s4 = bud s := by rw [bud_eat e4, bud_peek p, bud_eat e1]
      exact c.weaken (by
        rintro z ⟨x, y, rfl, rfl, ⟨args, ds, sub, rfl, ha, hd, hs⟩⟩
        rw [hb4] at ha hd hs
        exact ⟨.field none t.data args ds sub, by simp [Ast.tSel, List.append_assoc], by rw [fitSel]; exact ⟨ha, hd, hs⟩⟩)
  · exact absurd (by simp [hk]) hne

end Apollo.Parse.Exact
