import ApolloModel.Proofs.ParserType2
import ApolloModel.Proofs.AstValues
/-
C07 / C05 growth (type entry point), part 3: soundness of `ty.rs` — if parsing a type leaves no error, the
tokens it consumed are the tokens of one `Type` of the grammar `Type : NamedType | [Type] | Type!`.
-/
set_option linter.unusedSimpArgs false
namespace Apollo.Parse
open Apollo.Rowan hiding Str
open Apollo.Lex hiding Str

/-! ### `ty.rs::parse` cut into named pieces -/

def tyListBody (n : Nat) : PI TyRes := do
  bump "L_BRACK"
  let inner ← withRec (do limitErr; pure none) (do pure (some (← tyParse n)))
  match inner with
  | none => pure TyRes.early
  | some res =>
    match res with
    | .errTok t => errAtToken t
    | _ => pure ()
    expect .rBracket "R_BRACK"
    pure TyRes.ok

def tyBody (n : Nat) : PI TyRes := do
  match ← peek with
  | some .lBracket => withNode "LIST_TYPE" (tyListBody n)
  | some .name => withNode "NAMED_TYPE" (withNode "NAME" (do eat "IDENT"; pure TyRes.ok))
  | some _ => do
    match ← popDrop with
    | some t => pure (TyRes.errTok t)
    | none => pure TyRes.errNone
  | none => pure TyRes.errNone

def tyCond (r : TyRes) : PI Bool :=
  match r with
  | .ok => do
    skipIgnored
    pure ((← peek) == some .bang)
  | _ => pure false

theorem tyParse_succ (n : Nat) : tyParse (n + 1) = (do
    let r ← wrapIf "NON_NULL_TYPE" (tyBody n) tyCond (eat "BANG")
    match r with
    | .ok => skipIgnored
    | _ => pure ()
    pure r) := rfl

/-! ### every piece is `Good` (errors only accumulate, the recursion counter is restored) -/

theorem good_tyCond (r : TyRes) : Good (tyCond r) := by
  cases r <;> first
    | exact good_pure _
    | exact good_bind _ _ good_skipIgnored (fun _ => good_bind _ _ good_peek (fun _ => good_pure _))

theorem good_tyListBody (n : Nat) (ih : Good (tyParse n)) : Good (tyListBody n) := by
  unfold tyListBody
  refine good_bind _ _ (good_bump _) (fun _ => good_bind _ _
    (good_withRec _ _ (good_bind _ _ good_limitErr (fun _ => good_pure _)) (good_bind _ _ ih (fun _ => good_pure _))) ?_)
  intro inner
  cases inner with
  | none => exact good_pure _
  | some res =>
    have jp : Good (expect .rBracket "R_BRACK" >>= fun _ => (pure TyRes.ok : PI TyRes)) :=
      good_bind _ _ (good_expect _ _) (fun _ => good_pure _)
    cases res <;> first
      | exact jp
      | exact good_bind _ _ (good_pushErr _) (fun _ => jp)

theorem good_tyBody (n : Nat) (ih : Good (tyParse n)) : Good (tyBody n) := by
  unfold tyBody
  refine good_bind _ _ good_peek ?_
  intro k
  cases k with
  | none => exact good_pure _
  | some k =>
    cases k <;> first
      | exact good_withNode _ _ (good_tyListBody n ih)
      | exact good_withNode _ _ (good_withNode _ _ (good_bind _ _ (good_eat _) (fun _ => good_pure _)))
      | (refine good_bind _ _ good_popDrop ?_
         intro o
         cases o <;> exact good_pure _)

theorem good_tyParse : ∀ (n : Nat), Good (tyParse n)
  | 0 => by intro s a s' _ h; simp [tyParse, PI.outOfFuel] at h
  | n + 1 => by
    rw [tyParse_succ]
    refine good_bind _ _ (good_wrapIf _ _ _ _ (good_tyBody n (good_tyParse n)) good_tyCond (good_eat _)) ?_
    intro r
    cases r <;> first
      | exact good_pure _
      | exact good_bind _ _ good_skipIgnored (fun _ => good_pure _)

/-! ### significant tokens, types, the end-of-file sentinel -/

def sig (ts : List Tok) : List Tok := ts.filter (fun t => !isIgnoredKind t.kind)

/-- a parser token as a token of the reference grammar (only the kinds a type is made of) -/
def astOf (t : Tok) : Option Ast.Tok :=
  match t.kind with
  | .name => some (.name t.data)
  | .bang => some (.p .bang)
  | .lBracket => some (.p .lBracket)
  | .rBracket => some (.p .rBracket)
  | _ => none

/-- the tokens `ts` are exactly the tokens of the type reference `t` -/
def IsTy (ts : List Tok) (t : Ast.Ty) : Prop := ts.map astOf = (Ast.tTy t).map some

def NoEof (c : List Tok) : Prop := ∀ x ∈ c, x.kind ≠ .eof

/-- unless the parse is already doomed, the queue ends with the EOF token and contains no other -/
def EofEnd (s : PState) : Prop :=
  Doomed s ∨ ∃ pre e, Toks s = pre ++ [e] ∧ e.kind = .eof ∧ NoEof pre

theorem sig_append (a b : List Tok) : sig (a ++ b) = sig a ++ sig b := by simp [sig]

theorem sig_ignored (ign : List Tok) (h : ∀ t ∈ ign, isIgnoredKind t.kind = true) : sig ign = [] := by
  apply List.filter_eq_nil_iff.mpr
  intro t ht
  simp [h t ht]

theorem sig_single (t : Tok) (h : isIgnoredKind t.kind = false) : sig [t] = [t] := by simp [sig, h]

theorem eofEnd_nonempty (s : PState) (h : EofEnd s) (hd : ¬ Doomed s) : Toks s ≠ [] := by
  rcases h with h | ⟨pre, e, h, _, _⟩
  · exact absurd h hd
  · rw [h]; simp

theorem split_eof : ∀ (c pre r : List Tok) (e : Tok), pre ++ [e] = c ++ r → e.kind = .eof → NoEof c → NoEof pre →
    ∃ pre', r = pre' ++ [e] ∧ NoEof pre' := by
  intro c
  induction c with
  | nil => intro pre r e h _ _ hp; exact ⟨pre, by simpa using h.symm, hp⟩
  | cons x c ih =>
    intro pre r e h he hc hp
    cases pre with
    | nil =>
      simp only [List.nil_append, List.cons_append] at h
      injection h with h1 _
      exact absurd (h1 ▸ he) (hc x (by simp))
    | cons y pre =>
      simp only [List.cons_append] at h
      injection h with _ h2
      exact ih pre r e h2 he (fun z hz => hc z (by simp [hz])) (fun z hz => hp z (by simp [hz]))

theorem eofEnd_eat {s s' : PState} {c : List Tok} (h : EofEnd s) (e : Eat s s' c) (hc : NoEof c) : EofEnd s' := by
  rcases h with h | ⟨pre, x, h, hx, hp⟩
  · exact Or.inl (e.doom.mpr h)
  · rw [e.toks] at h
    obtain ⟨pre', h', hp'⟩ := split_eof c pre (Toks s') x h.symm hx hc hp
    exact Or.inr ⟨pre', x, h', hx, hp'⟩

theorem eofEnd_same (s s' : PState) (h : EofEnd s) (hc : s'.current = s.current) (hl : s'.lx = s.lx)
    (he : s'.errors = s.errors) : EofEnd s' := by
  have ht : Toks s' = Toks s := by unfold Toks; rw [hc, hl]
  rcases h with h | h
  · exact Or.inl ((doomed_same _ _ he hl).mpr h)
  · rw [← ht] at h; exact Or.inr h

theorem noEof_ignored (ign : List Tok) (h : ∀ t ∈ ign, isIgnoredKind t.kind = true) : NoEof ign := by
  intro x hx hk
  have := h x hx
  rw [hk] at this
  simp [isIgnoredKind] at this

theorem noEof_append {a b : List Tok} (ha : NoEof a) (hb : NoEof b) : NoEof (a ++ b) := by
  intro x hx
  rcases List.mem_append.mp hx with h | h
  · exact ha x h
  · exact hb x h

/-- after `peek` saw a significant token, `skip_ignored` has nothing to skip -/
theorem skip_nothing (s s' : PState) (t : Tok) (rest ign : List Tok) (ht : Toks s = t :: rest)
    (hni : isIgnoredKind t.kind = false) (e : Eat s s' ign) (hall : ∀ x ∈ ign, isIgnoredKind x.kind = true) : ign = [] := by
  cases ign with
  | nil => rfl
  | cons x ign =>
    have := e.toks
    rw [ht] at this
    simp only [List.cons_append] at this
    injection this with h1 _
    have := hall x (by simp)
    rw [← h1, hni] at this
    cases this

end Apollo.Parse
