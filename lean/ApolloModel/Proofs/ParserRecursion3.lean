import ApolloModel.Proofs.ParserRecursion2
/-
C04 growth (recursion limit across runs), part 3: `ty.rs::parse` against the nesting depth of the input.

For the type grammar the guarded construct is the list type, and a list type holds exactly one inner type:
the number of simultaneously open guarded constructs is the number of leading `[` tokens of the token queue
(ignored tokens allowed after each of them).
-/
set_option linter.unusedSimpArgs false
namespace Apollo.Parse
open Apollo.Rowan hiding Str
open Apollo.Lex hiding Str

def isLB (t : Tok) : Bool := t.kind == .lBracket

/-- number of leading `[` of a list of significant tokens -/
def lbCount (ts : List Tok) : Nat := (ts.takeWhile isLB).length

/-- nesting depth of the type at the head of the token queue: the leading `[`, with ignored tokens allowed
    after a `[` but not in front of the first one (`ty.rs` peeks before it skips) -/
def lead (ts : List Tok) : Nat :=
  match ts with
  | [] => 0
  | t :: _ => if isIgnoredKind t.kind then 0 else lbCount (sig ts)

theorem lead_not_bracket (t : Tok) (rest : List Tok) (h : t.kind ≠ .lBracket) : lead (t :: rest) = 0 := by
  unfold lead
  simp only []
  split
  · rfl
  · next hi =>
    have hi' : isIgnoredKind t.kind = false := by simpa using hi
    have : isLB t = false := by simp [isLB, h]
    simp [sig, hi', lbCount, List.takeWhile, this]

theorem lead_settled (ts : List Tok) (h : ∀ t, ts.head? = some t → isIgnoredKind t.kind = false) :
    lead ts = lbCount (sig ts) := by
  cases ts with
  | nil => simp [lead, sig, lbCount]
  | cons t rest =>
    have := h t rfl
    simp [lead, this]

theorem lead_bracket (t : Tok) (ign rest : List Tok) (hk : t.kind = .lBracket)
    (hall : ∀ x ∈ ign, isIgnoredKind x.kind = true)
    (hs : ∀ x, rest.head? = some x → isIgnoredKind x.kind = false) :
    lead (t :: (ign ++ rest)) = lead rest + 1 := by
  have hni : isIgnoredKind t.kind = false := by rw [hk]; rfl
  have hlb : isLB t = true := by simp [isLB, hk]
  rw [lead_settled rest hs]
  unfold lead
  simp only [hni, Bool.false_eq_true, if_false]
  have : sig (t :: (ign ++ rest)) = t :: sig rest := by
    have h1 : sig (t :: (ign ++ rest)) = sig [t] ++ (sig ign ++ sig rest) := by
      rw [← sig_append, ← sig_append]; rfl
    rw [h1, sig_single t hni, sig_ignored ign hall]
    rfl
  rw [this]
  simp [lbCount, List.takeWhile, hlb]

/-- the queue ends with the EOF token, which is the only one (whether or not errors were recorded) -/
def EofE (s : PState) : Prop := ∃ pre e, Toks s = pre ++ [e] ∧ e.kind = .eof ∧ NoEof pre

theorem eofE_eat {s s' : PState} {c : List Tok} (h : EofE s) (e : Eat s s' c) (hc : NoEof c) : EofE s' := by
  obtain ⟨pre, x, h, hx, hp⟩ := h
  rw [e.toks] at h
  obtain ⟨pre', h', hp'⟩ := split_eof c pre (Toks s') x h.symm hx hc hp
  exact ⟨pre', x, h', hx, hp'⟩

theorem eofE_same (s s' : PState) (h : EofE s) (hc : s'.current = s.current) (hl : s'.lx = s.lx) : EofE s' := by
  have ht : Toks s' = Toks s := by unfold Toks; rw [hc, hl]
  unfold EofE
  rw [ht]
  exact h

theorem eofE_nonempty (s : PState) (h : EofE s) : Toks s ≠ [] := by
  obtain ⟨pre, e, h, _, _⟩ := h
  rw [h]; simp

/-- what a run of `ty.rs::parse` does to the recursion bookkeeping, `L` being the nesting depth at its start -/
structure RecOut (s s' : PState) (L : Nat) : Prop where
  under : s.recCur + L ≤ s.recLimit →
    s'.recHigh = max s.recHigh (s.recCur + L) ∧ (HasLim s'.errors ↔ HasLim s.errors) ∧ s'.acceptErrors = s.acceptErrors
  over : s.recCur + L > s.recLimit →
    s'.recHigh = max s.recHigh (s.recLimit + 1) ∧ (s.acceptErrors = true → HasLim s'.errors) ∧
      (HasLim s.errors → HasLim s'.errors)

/-- a prefix that did not touch the bookkeeping -/
structure Pre (s s1 : PState) : Prop where
  q : Q s s1
  recCur : s1.recCur = s.recCur
  recLimit : s1.recLimit = s.recLimit

theorem Pre.refl (s : PState) : Pre s s := ⟨Q.refl s, rfl, rfl⟩

theorem Pre.trans {a b c : PState} (h1 : Pre a b) (h2 : Pre b c) : Pre a c :=
  ⟨h1.q.trans h2.q, h2.recCur.trans h1.recCur, h2.recLimit.trans h1.recLimit⟩

theorem Pre.ofSame {s s' : PState} (h : Same s s') : Pre s s' := ⟨h.q, h.recCur, h.recLimit⟩

theorem Pre.ofAdv {s s' : PState} (a : Adv s s') (q : Q s s') : Pre s s' := ⟨q, a.recCur, a.recLimit⟩

theorem recOut_pre {s s1 s2 : PState} {L : Nat} (p : Pre s s1) (h : RecOut s1 s2 L) : RecOut s s2 L := by
  refine ⟨?_, ?_⟩
  · intro hu
    obtain ⟨h1, h2, h3⟩ := h.under (by rw [p.recCur, p.recLimit]; exact hu)
    exact ⟨by rw [h1, p.q.recHigh, p.recCur], h2.trans p.q.lim, h3.trans p.q.accept⟩
  · intro ho
    obtain ⟨h1, h2, h3⟩ := h.over (by rw [p.recCur, p.recLimit]; exact ho)
    exact ⟨by rw [h1, p.q.recHigh, p.recLimit], fun ha => h2 (by rw [p.q.accept]; exact ha), fun hl => h3 (p.q.lim.mpr hl)⟩

theorem recOut_post {s s1 s2 : PState} {L : Nat} (h : RecOut s s1 L) (q : Q s1 s2) : RecOut s s2 L := by
  refine ⟨?_, ?_⟩
  · intro hu
    obtain ⟨h1, h2, h3⟩ := h.under hu
    exact ⟨by rw [q.recHigh, h1], q.lim.trans h2, q.accept.trans h3⟩
  · intro ho
    obtain ⟨h1, h2, h3⟩ := h.over ho
    exact ⟨by rw [q.recHigh, h1], fun ha => q.lim.mpr (h2 ha), fun hl => q.lim.mpr (h3 hl)⟩

/-- no nesting: a quiet run -/
theorem recOut_zero {s s' : PState} (q : Q s s') (hrc : s.recCur ≤ s.recLimit) (hH : s.recCur ≤ s.recHigh) :
    RecOut s s' 0 := by
  refine ⟨fun _ => ⟨?_, q.lim, q.accept⟩, fun ho => ?_⟩
  · rw [q.recHigh]; omega
  · omega

end Apollo.Parse
