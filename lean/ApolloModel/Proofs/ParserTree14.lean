import ApolloModel.Proofs.ParserTree13
/-
C08 growth (pipeline), part 14: argument.rs and directive.rs (applications) in the tree calculus.
-/
set_option linter.unusedSimpArgs false
set_option linter.unusedVariables false
namespace Apollo.Parse
open Apollo.Rowan hiding Str
open Apollo.Lex hiding Str
open Apollo.FromCst (ValTree ArgTree ArgsNode OptArgs DirTree DirsNode OptDirs All2)

/-! ### re-association of binds (runs are equal) -/

theorem Tr.of_run {α : Type} {E : PState → Prop} {H : List Tok → Prop} {m m' : PI α} {R : α → List Tok → List Elem → Prop}
    (h : Tr E H m R) (hrun : ∀ s, m'.run s = m.run s) : Tr E H m' R := by
  refine ⟨fun s a s' w hr => h.1 s a s' w (by rw [← hrun]; exact hr), ?_⟩
  intro s a s' w hi he hlq hq hr hnd
  exact h.2 s a s' w hi he hlq hq (by rw [← hrun]; exact hr) hnd

/-! ### arguments -/

/-- one argument `name : Value` -/
def ArgR (c : Bool) (cs : List Tok) (e : List Elem) : Prop :=
  ∃ (a : Ast.Str × Ast.Value) (ea : Elem), TokIs cs (.name a.1 :: .p .colon :: Ast.tValue a.2) ∧ valueOk c a.2 = true ∧
    e = [ea] ∧ ArgTree a ea

theorem tr_argument (n : Nat) (c : Bool) : Tr AtEof (HeadK .name) (argument n c) (fun _ => ArgR c) := by
  unfold argument
  have hval := tr_value n c false
  have hcolon := tr_bind early_atEof (tr_bump (E := AtEof) "COLON" (by decide) (fun t => t.kind = .colon)
    (by intro t h; rw [h]; exact ⟨rfl, by decide⟩)) (fun _ => hval)
  have hrest : Tr AtEof (fun _ => True) (peek >>= fun k => if k == some Kind.colon then
      (bump "COLON" >>= fun _ => value n c false) else err)
      (fun _ cs e => ∃ (t : Tok) (v : Ast.Value) (ev : Elem), t.kind = Kind.colon ∧ TokIs cs (.p .colon :: Ast.tValue v) ∧
        valueOk c v = true ∧ e = [Elem.tok "COLON" t.data, ev] ∧ ValTree v ev) := by
    refine (tr_ifKind .colon _ _ _ (hcolon.mono (fun q hq => ?_) (fun _ _ _ h => h)) tr_err).mono (fun _ h => h) ?_
    · obtain ⟨t, hh, hk⟩ := hq; exact ⟨t, hh, by simpa using hk⟩
    · rintro _ cs e ⟨_, c1, c2, e1, e2, rfl, rfl, ⟨t, hk, _, rfl, rfl⟩, v, ev, h1, h2, rfl, h4⟩
      exact ⟨t, v, ev, hk, TokIs.cons (by simp [astOfV, hk]) h1, h2, rfl, h4⟩
  have hb := tr_bind early_atEof (tr_name (E := AtEof) (H := HeadK .name)) (fun _ => hrest)
  refine (tr_withNode early_atEof "ARGUMENT" (hsig_headK .name rfl) hb).mono (fun _ h => h) ?_
  rintro _ cs e ⟨inner, rfl, _, c1, c2, e1, e2, rfl, hin, ⟨t, hk, hvn, rfl, rfl⟩, t2, v, ev, hk2, h1, h2, rfl, h4⟩
  exact ⟨(t.data, v), _, TokIs.cons (by simp [astOfV, hk]) h1, h2, rfl,
    inner, t2.data, ev, rfl, hvn, by rw [hin]; rfl, h4⟩

theorem itemsT_args (c : Bool) : ∀ (cs : List Tok) (e : List Elem), ItemsT (ArgR c) cs e →
    ∃ args : List (Ast.Str × Ast.Value), TokIs cs (Ast.tArgItems args) ∧ (∀ a ∈ args, valueOk c a.2 = true) ∧
      All2 (fun e a => ArgTree a e) e args := by
  rintro cs e ⟨items, rfl, rfl, hall⟩
  induction items with
  | nil => exact ⟨[], TokIs.nil, by simp, All2.nil⟩
  | cons i items ih =>
    obtain ⟨args, h1, h2, h3⟩ := ih (fun j hj => hall j (List.mem_cons_of_mem _ hj))
    obtain ⟨a, ea, ha1, ha2, ha3, ha4⟩ := hall i List.mem_cons_self
    refine ⟨a :: args, ?_, ?_, ?_⟩
    · simp only [List.map_cons, List.flatten_cons, Ast.tArgItems]
      have := ha1.append h1
      simpa [List.append_assoc] using this
    · intro b hb
      rcases List.mem_cons.mp hb with rfl | hb
      · exact ha2
      · exact h2 b hb
    · simp only [List.map_cons, List.flatten_cons, ha3]
      exact All2.cons ha4 h3

/-- the arguments list `( Argument+ )`, with its closing `)` (so no early exit is left) -/
def ArgsR (c : Bool) (cs : List Tok) (e : List Elem) : Prop :=
  ∃ (args : List (Ast.Str × Ast.Value)) (ea : Elem), args ≠ [] ∧ TokIs cs (Ast.tArguments args) ∧
    (∀ a ∈ args, valueOk c a.2 = true) ∧ e = [ea] ∧ ArgsNode args ea

/-- `first; items*; )` — the part of `arguments` after the look-ahead found a Name -/
theorem tr_argsTail (n : Nat) (c : Bool) :
    Tr NoE (HeadK .name) (argument n c >>= fun _ => peekWhileKind .name (argument n c) >>= fun _ => expect .rParen "R_PAREN")
      (fun _ cs e => ∃ (args : List (Ast.Str × Ast.Value)) (t : Tok), args ≠ [] ∧ t.kind = .rParen ∧
        TokIs cs (Ast.tArgItems args ++ [.p .rParen]) ∧ (∀ a ∈ args, valueOk c a.2 = true) ∧
        ∃ es, e = es ++ [Elem.tok "R_PAREN" t.data] ∧ All2 (fun e a => ArgTree a e) es args) := by
  have hloop := tr_kindWhile (E := AtEof) early_atEof (H := fun _ => True) .name (argument n c) (ArgR c)
    ((tr_argument n c).mono (fun q hq => by obtain ⟨t, hh, hk⟩ := hq; unfold HeadK; rw [hh]; simpa using hk) (fun _ _ _ h => h))
  have h12 := tr_bind early_atEof (tr_argument n c) (fun _ => hloop)
  have hc := tr_close .rParen "R_PAREN" (by decide) rfl (by decide) h12
  refine (hc.of_run (fun s => run_assoc _ _ _ s)).mono (fun _ h => h) ?_
  rintro _ cs e ⟨_, c1, e1, t, rfl, rfl, hk, _, x1, x2, y1, y2, rfl, rfl, hfirst, hitems⟩
  obtain ⟨args, h1, h2, h3⟩ := itemsT_args c x2 y2 hitems
  obtain ⟨a, ea, ha1, ha2, ha3, ha4⟩ := hfirst
  refine ⟨a :: args, t, by simp, hk, ?_, ?_, ea :: y2, by rw [ha3]; simp, All2.cons ha4 h3⟩
  · have hp : TokIs [t] [Ast.Tok.p .rParen] := TokIs.single t _ (by simp [astOfV, hk])
    have := (ha1.append h1).append hp
    simpa [Ast.tArgItems, List.append_assoc] using this
  · intro b hb
    rcases List.mem_cons.mp hb with rfl | hb
    · exact ha2
    · exact h2 b hb

theorem good_argsTail (n : Nat) (c : Bool) :
    Good (peekWhileKind .name (argument n c) >>= fun _ => expect .rParen "R_PAREN") :=
  good_bind _ _ (good_peekWhileKind _ _ (tr_argument n c).1) (fun _ => good_expect _ _)

/-- **`argument.rs::arguments`** entered on `(` -/
theorem tr_arguments (n : Nat) (c : Bool) : Tr NoE (HeadK .lParen) (arguments n c) (fun _ => ArgsR c) := by
  unfold arguments
  have hsel : Tr NoE (fun _ => True) (peek >>= fun k => if k == some Kind.name then
      (argument n c >>= fun _ => peekWhileKind .name (argument n c) >>= fun _ => expect .rParen "R_PAREN")
      else (err >>= fun _ => peekWhileKind .name (argument n c) >>= fun _ => expect .rParen "R_PAREN")) _ :=
    tr_ifKind .name _ _ _ ((tr_argsTail n c).mono (fun q hq => by
        obtain ⟨t, hh, hk⟩ := hq; unfold HeadK; rw [hh]; simpa using hk) (fun _ _ _ h => h))
      (tr_never (acc_err' _ (good_argsTail n c)))
  have hb := tr_bind early_false (tr_bump (E := NoE) "L_PAREN" (by decide) (fun t => t.kind = .lParen)
    (by intro t h; rw [h]; exact ⟨rfl, by decide⟩)) (fun _ => hsel)
  refine (tr_withNode early_false "ARGUMENTS" (hsig_headK .lParen rfl) (hb.mono (fun _ h => headP_of_headK h) (fun _ _ _ h => h))).mono
    (fun _ h => h) ?_
  rintro _ cs e ⟨inner, rfl, _, c1, c2, e1, e2, rfl, hin, ⟨t, hk, _, rfl, rfl⟩, args, t2, hne, hk2, h1, h2, es, rfl, hall⟩
  refine ⟨args, _, hne, ?_, h2, rfl, inner, t.data, t2.data, es, rfl, by rw [hin]; simp, hall⟩
  have hp : TokIs [t] [Ast.Tok.p .lParen] := TokIs.single t _ (by simp [astOfV, hk])
  have := hp.append h1
  cases args with
  | nil => exact absurd rfl hne
  | cons a r => simpa [Ast.tArguments] using this


/-! ### directives -/

/-- one directive `@name Arguments?` -/
def DirR (c : Bool) (cs : List Tok) (e : List Elem) : Prop :=
  ∃ (d : Ast.Directive) (ed : Elem), TokIs cs (.p .at :: .name d.name :: Ast.tArguments d.args) ∧ argsOk c d.args ∧
    e = [ed] ∧ DirTree d ed

/-- optional arguments -/
theorem tr_optArguments (n : Nat) (c : Bool) {H : List Tok → Prop} :
    Tr NoE H (peek >>= fun k => if k == some Kind.lParen then arguments n c else pure ())
      (fun _ cs e => ∃ (args : List (Ast.Str × Ast.Value)), TokIs cs (Ast.tArguments args) ∧ argsOk c args ∧ OptArgs args e) := by
  refine tr_ifKind .lParen _ _ _ ((tr_arguments n c).mono (fun q hq => by
      obtain ⟨t, hh, hk⟩ := hq; unfold HeadK; rw [hh]; simpa using hk) ?_) ((tr_pure NoE _ ()).mono (fun _ h => h) ?_)
  · rintro _ cs e ⟨args, ea, hne, h1, h2, rfl, h4⟩
    exact ⟨args, h1, h2, Or.inr ⟨ea, rfl, h4⟩⟩
  · rintro _ cs e ⟨_, rfl, rfl⟩
    exact ⟨[], TokIs.nil, (by intro a ha; cases ha), Or.inl ⟨rfl, rfl⟩⟩

theorem tr_directive (n : Nat) (c : Bool) : Tr NoE (HeadK .at) (directive n c) (fun _ => DirR c) := by
  unfold directive
  have hb := tr_bind early_false (tr_expect (E := NoE) (H := HeadK .at) .at "AT" (by decide) rfl (by decide))
    (fun _ => tr_bind early_false (tr_name (E := NoE) (H := fun _ => True)) (fun _ => tr_optArguments n c (H := fun _ => True)))
  refine (tr_withNode early_false "DIRECTIVE" (hsig_headK .at rfl) hb).mono (fun _ h => h) ?_
  rintro _ cs e ⟨inner, rfl, _, c1, c2, e1, e2, rfl, hin, ⟨t, hk, rfl, rfl⟩, _, c3, c4, e3, e4, rfl, rfl,
    ⟨t2, hk2, hv2, rfl, rfl⟩, args, h1, h2, h3⟩
  refine ⟨⟨t2.data, args⟩, _, ?_, h2, rfl, inner, t.data, e4, rfl, hv2, by rw [hin]; rfl, h3⟩
  exact TokIs.cons (by simp [astOfV, hk]) (TokIs.cons (by simp [astOfV, hk2]) h1)

theorem itemsT_dirs (c : Bool) : ∀ (cs : List Tok) (e : List Elem), ItemsT (DirR c) cs e →
    ∃ ds : List Ast.Directive, TokIs cs (Ast.tDirectives ds) ∧ dirsOk c ds ∧ All2 (fun e d => DirTree d e) e ds ∧
      (cs ≠ [] → ds ≠ []) := by
  rintro cs e ⟨items, rfl, rfl, hall⟩
  induction items with
  | nil => exact ⟨[], TokIs.nil, (by intro d hd; cases hd), All2.nil, fun h => absurd rfl h⟩
  | cons i items ih =>
    obtain ⟨ds, h1, h2, h3, _⟩ := ih (fun j hj => hall j (List.mem_cons_of_mem _ hj))
    obtain ⟨d, ed, hd1, hd2, hd3, hd4⟩ := hall i List.mem_cons_self
    refine ⟨d :: ds, ?_, ?_, ?_, fun _ => by simp⟩
    · simp only [List.map_cons, List.flatten_cons, Ast.tDirectives]
      have := hd1.append h1
      simpa [List.append_assoc] using this
    · intro b hb
      rcases List.mem_cons.mp hb with rfl | hb
      · exact hd2
      · exact h2 b hb
    · simp only [List.map_cons, List.flatten_cons, hd3]
      exact All2.cons hd4 h3

/-- **`directive.rs::directives`** entered on `@`: `Directive+` under one DIRECTIVES node -/
theorem tr_directives (n : Nat) (c : Bool) :
    Tr NoE (HeadK .at) (directives n c)
      (fun _ cs e => ∃ (ds : List Ast.Directive) (ed : Elem), TokIs cs (Ast.tDirectives ds) ∧ dirsOk c ds ∧
        e = [ed] ∧ DirsNode ds ed) := by
  unfold directives
  have hloop := tr_kindWhile (E := NoE) early_false (H := HeadK .at) .at (directive n c) (DirR c)
    ((tr_directive n c).mono (fun q hq => by obtain ⟨t, hh, hk⟩ := hq; unfold HeadK; rw [hh]; simpa using hk) (fun _ _ _ h => h))
  refine (tr_withNode early_false "DIRECTIVES" (hsig_headK .at rfl) hloop).mono (fun _ h => h) ?_
  rintro _ cs e ⟨inner, rfl, hitems⟩
  obtain ⟨ds, h1, h2, h3, _⟩ := itemsT_dirs c cs (sigE inner) hitems
  exact ⟨ds, _, h1, h2, rfl, inner, rfl, h3⟩

end Apollo.Parse
