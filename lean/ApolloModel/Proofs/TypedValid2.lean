import ApolloModel.Proofs.TypedValid
/-
Property C18, valid documents: every fragment that an operation reaches through spreads is ENTERED by that
operation's validation walk (`validate_fragment_definition` is run for it with that operation's variables), and
— with the unused-fragment rule — every fragment of a valid document is entered by some operation's walk.
-/
namespace Apollo.Standalone

/-- names of the fragment spreads written in a selection tree (through fields and inline fragments) -/
def allSpreads : Sels → List Name
  | .nil => []
  | .field _ _ _ sub rest => allSpreads sub ++ allSpreads rest
  | .spread f _ rest => f :: allSpreads rest
  | .inline _ _ sub rest => allSpreads sub ++ allSpreads rest

/-- `validate_fragment_definition` ran on `d` and reported nothing -/
def Entered (p : Params) (sc : Schema) (doc : BuiltDoc) (d : Frag) : Prop :=
  ∃ n W W', enterFrag p (some sc) doc n d W = ([], W')

/-- `g` names a defined fragment that was entered, and everything its body spreads is marked in `W` -/
def Done (p : Params) (sc : Schema) (doc : BuiltDoc) (W : List Name) (g : Name) : Prop :=
  ∃ d, doc.findFrag g = some d ∧ Entered p sc doc d ∧ ∀ h ∈ allSpreads d.sels, h ∈ W

theorem Done.mono {p : Params} {sc : Schema} {doc : BuiltDoc} {W W' : List Name} {g : Name}
    (h : Done p sc doc W g) (hs : ∀ x ∈ W, x ∈ W') : Done p sc doc W' g := by
  obtain ⟨d, h1, h2, h3⟩ := h
  exact ⟨d, h1, h2, fun x hx => hs x (h3 x hx)⟩

/-- what a quiet walk from `V` to `V'` over `t` achieves -/
structure WalkOk (p : Params) (sc : Schema) (doc : BuiltDoc) (t : Sels) (V V' : List Name) : Prop where
  mono : ∀ x ∈ V, x ∈ V'
  spreads : ∀ g ∈ allSpreads t, g ∈ V'
  fresh : ∀ g ∈ V', g ∈ V ∨ Done p sc doc V' g

/-- the same for the handler of a fragment definition -/
def HandlerOk (p : Params) (sc : Schema) (doc : BuiltDoc) (e : Frag → List Name → List Diag × List Name) : Prop :=
  ∀ d W W', e d W = ([], W') → typed sc d.tc d.sels = true →
    Entered p sc doc d ∧ WalkOk p sc doc d.sels W W'

theorem WalkOk.trans {p : Params} {sc : Schema} {doc : BuiltDoc} {a b : Sels} {V V1 V2 : List Name}
    (h1 : WalkOk p sc doc a V V1) (h2 : WalkOk p sc doc b V1 V2) :
    (∀ x ∈ V, x ∈ V2) ∧ (∀ g ∈ allSpreads a ++ allSpreads b, g ∈ V2) ∧ (∀ g ∈ V2, g ∈ V ∨ Done p sc doc V2 g) := by
  refine ⟨fun x hx => h2.mono x (h1.mono x hx), ?_, ?_⟩
  · intro g hg
    simp only [List.mem_append] at hg
    rcases hg with hg | hg
    · exact h2.mono g (h1.spreads g hg)
    · exact h2.spreads g hg
  · intro g hg
    rcases h2.fresh g hg with h | h
    · rcases h1.fresh g h with h' | h'
      · exact .inl h'
      · exact .inr (h'.mono h2.mono)
    · exact .inr h

theorem walkOk_refl (p : Params) (sc : Schema) (doc : BuiltDoc) (V : List Name) : WalkOk p sc doc .nil V V :=
  ⟨fun _ h => h, by simp [allSpreads], fun _ h => .inl h⟩

/-- fragment bodies of the document are typed under their type condition (what `from_ast` guarantees) -/
def FragsTyped (sc : Schema) (doc : BuiltDoc) : Prop := ∀ f, f ∈ doc.frags → typed sc f.tc f.sels = true

theorem walkSels_walkOk (p : Params) (sc : Schema) (doc : BuiltDoc) (hft : FragsTyped sc doc)
    (e : Frag → List Name → List Diag × List Name) (he : HandlerOk p sc doc e) (t : Sels) :
    ∀ (ty : Name) (V V' : List Name), typed sc ty t = true →
      walkSels p (some sc) doc e (some ty) t V = ([], V') → WalkOk p sc doc t V V' := by
  induction t with
  | nil =>
    intro ty V V' _ h
    simp only [walkSels, Prod.mk.injEq, true_and] at h
    subst h
    exact walkOk_refl p sc doc V
  | field name dirs args sub rest ihs ihr =>
    intro ty V V' ht h
    simp only [typed, Bool.and_eq_true] at ht
    obtain ⟨htf, htr⟩ := ht
    cases hf : sc.field ty name with
    | none => simp [hf] at htf
    | some fd =>
      simp only [hf, Bool.and_eq_true] at htf
      simp only [walkSels, hf] at h
      by_cases hm : (sub.isNil && sc.kind fd.ty == some Kind.composite) = true
      · simp [hm] at h
      · simp only [hm, Bool.false_eq_true, ↓reduceIte, Prod.mk.injEq, List.append_eq_nil_iff] at h
        obtain ⟨⟨⟨_, _, h3⟩, h4⟩, hV⟩ := h
        have e3 := ihs fd.ty V _ htf.2 (Prod.ext h3 rfl)
        have e4 := ihr ty _ V' htr (Prod.ext h4 hV)
        obtain ⟨m, s, f⟩ := e3.trans e4
        exact ⟨m, by simpa [allSpreads] using s, f⟩
  | spread f dirs rest ihr =>
    intro ty V V' ht h
    simp only [typed] at ht
    simp only [walkSels] at h
    cases hf : doc.findFrag f with
    | none => simp [hf] at h
    | some d =>
      have hmem : d ∈ doc.frags := List.mem_of_find?_eq_some hf
      simp only [hf] at h
      by_cases hv : f ∈ V
      · simp only [hv, ↓reduceIte, Prod.mk.injEq, List.append_eq_nil_iff, List.append_nil] at h
        obtain ⟨⟨_, h4⟩, hV⟩ := h
        have e4 := ihr ty V V' ht (Prod.ext h4 hV)
        refine ⟨e4.mono, ?_, e4.fresh⟩
        intro g hg
        simp only [allSpreads, List.mem_cons] at hg
        rcases hg with hg | hg
        · subst hg; exact e4.mono _ hv
        · exact e4.spreads g hg
      · simp only [hv, ↓reduceIte, Prod.mk.injEq, List.append_eq_nil_iff] at h
        obtain ⟨⟨⟨_, h2⟩, h4⟩, hV⟩ := h
        obtain ⟨hent, e2⟩ := he d (f :: V) _ (Prod.ext h2 rfl) (hft d hmem)
        have e4 := ihr ty _ V' ht (Prod.ext h4 hV)
        have hfV1 : f ∈ (e d (f :: V)).2 := e2.mono f (List.mem_cons_self ..)
        refine ⟨fun x hx => e4.mono x (e2.mono x (List.mem_cons_of_mem _ hx)), ?_, ?_⟩
        · intro g hg
          simp only [allSpreads, List.mem_cons] at hg
          rcases hg with hg | hg
          · subst hg; exact e4.mono _ hfV1
          · exact e4.spreads g hg
        · intro g hg
          rcases e4.fresh g hg with hg1 | hg1
          · rcases e2.fresh g hg1 with hg2 | hg2
            · simp only [List.mem_cons] at hg2
              rcases hg2 with hg2 | hg2
              · subst hg2
                exact .inr ⟨d, hf, hent, fun x hx => e4.mono x (e2.spreads x hx)⟩
              · exact .inl hg2
            · exact .inr (hg2.mono e4.mono)
          · exact .inr hg1
  | inline tc dirs sub rest ihs ihr =>
    intro ty V V' ht h
    simp only [typed, Bool.and_eq_true] at ht
    obtain ⟨hts, htr⟩ := ht
    cases tc with
    | none =>
      simp only [walkSels, List.isEmpty_nil, ↓reduceIte, List.append_nil, Prod.mk.injEq, List.append_eq_nil_iff] at h
      obtain ⟨⟨⟨_, h3⟩, h4⟩, hV⟩ := h
      have e3 := ihs ty V _ hts (Prod.ext h3 rfl)
      have e4 := ihr ty _ V' htr (Prod.ext h4 hV)
      obtain ⟨m, s, f⟩ := e3.trans e4
      exact ⟨m, by simpa [allSpreads] using s, f⟩
    | some t =>
      simp only [Bool.and_eq_true] at hts
      simp only [walkSels] at h
      by_cases hk : (sc.kind t == some Kind.composite) = true
      · simp only [hk, ↓reduceIte, List.isEmpty_nil, List.append_nil, Prod.mk.injEq, List.append_eq_nil_iff] at h
        obtain ⟨⟨⟨_, h3⟩, h4⟩, hV⟩ := h
        have e3 := ihs t V _ hts.2 (Prod.ext h3 rfl)
        have e4 := ihr ty _ V' htr (Prod.ext h4 hV)
        obtain ⟨m, s, f⟩ := e3.trans e4
        exact ⟨m, by simpa [allSpreads] using s, f⟩
      · simp [hk] at h

theorem enterFrag_handlerOk (p : Params) (sc : Schema) (doc : BuiltDoc) (hft : FragsTyped sc doc) (n : Nat) :
    HandlerOk p sc doc (enterFrag p (some sc) doc n) := by
  induction n with
  | zero => intro d W W' h _; simp [enterFrag] at h
  | succ n ih =>
    intro d W W' h ht
    refine ⟨⟨n + 1, W, W', h⟩, ?_⟩
    simp only [enterFrag] at h
    by_cases hc : (sc.kind d.tc == some Kind.composite) = true
    · by_cases hy : d.name ∈ reach doc d.sels
      · simp [hc, hy] at h
      · simp only [hc, hy, ↓reduceIte, List.isEmpty_nil, Bool.and_self, Prod.mk.injEq, List.append_eq_nil_iff] at h
        obtain ⟨⟨_, hw⟩, hV⟩ := h
        have hk : sc.kind d.tc = some .composite := by simpa using hc
        have hty : fragTy (some sc) d = some d.tc := by simp [fragTy, hk]
        rw [hty] at hw hV
        exact walkSels_walkOk p sc doc hft _ ih d.sels d.tc W W' ht (Prod.ext hw hV)
    · simp [hc] at h

/-! ### `reach` stays inside a closed set of marked fragments -/

theorem reachSels_sub (doc : BuiltDoc) (W : List Name)
    (hclosed : ∀ g ∈ W, ∀ d, doc.findFrag g = some d → ∀ h ∈ allSpreads d.sels, h ∈ W)
    (enter : Name → List Name → List Name)
    (henter : ∀ f seen, f ∈ W → (∀ x ∈ seen, x ∈ W) → ∀ x ∈ enter f seen, x ∈ W) (t : Sels) :
    ∀ seen, (∀ x ∈ seen, x ∈ W) → (∀ g ∈ allSpreads t, g ∈ W) → ∀ x ∈ reachSels enter t seen, x ∈ W := by
  induction t with
  | nil => intro seen hs _ x hx; exact hs x (by simpa [reachSels] using hx)
  | field name dirs args sub rest ihs ihr =>
    intro seen hs ht x hx
    simp only [allSpreads, List.mem_append] at ht
    simp only [reachSels] at hx
    exact ihr _ (ihs seen hs (fun g hg => ht g (.inl hg))) (fun g hg => ht g (.inr hg)) x hx
  | spread f dirs rest ihr =>
    intro seen hs ht x hx
    simp only [allSpreads, List.mem_cons] at ht
    simp only [reachSels] at hx
    refine ihr _ ?_ (fun g hg => ht g (.inr hg)) x hx
    intro y hy
    split at hy
    · exact hs y hy
    · refine henter f (f :: seen) (ht f (.inl rfl)) ?_ y hy
      intro z hz
      simp only [List.mem_cons] at hz
      rcases hz with hz | hz
      · subst hz; exact ht _ (.inl rfl)
      · exact hs z hz
  | inline tc dirs sub rest ihs ihr =>
    intro seen hs ht x hx
    simp only [allSpreads, List.mem_append] at ht
    simp only [reachSels] at hx
    exact ihr _ (ihs seen hs (fun g hg => ht g (.inl hg))) (fun g hg => ht g (.inr hg)) x hx

theorem reachFrag_sub (doc : BuiltDoc) (W : List Name)
    (hclosed : ∀ g ∈ W, ∀ d, doc.findFrag g = some d → ∀ h ∈ allSpreads d.sels, h ∈ W) (n : Nat) :
    ∀ f seen, f ∈ W → (∀ x ∈ seen, x ∈ W) → ∀ x ∈ reachFrag doc n f seen, x ∈ W := by
  induction n with
  | zero => intro f seen _ hs x hx; exact hs x (by simpa [reachFrag] using hx)
  | succ n ih =>
    intro f seen hf hs x hx
    simp only [reachFrag] at hx
    cases hd : doc.findFrag f with
    | none => rw [hd] at hx; exact hs x hx
    | some d =>
      rw [hd] at hx
      exact reachSels_sub doc W hclosed _ ih d.sels seen hs (hclosed f hf d hd) x hx

/-- everything an operation reaches is marked by its (quiet) walk -/
theorem reach_sub_walk (p : Params) (sc : Schema) (doc : BuiltDoc) (t : Sels) (V' : List Name)
    (h : WalkOk p sc doc t [] V') : ∀ x ∈ reach doc t, x ∈ V' := by
  have hclosed : ∀ g ∈ V', ∀ d, doc.findFrag g = some d → ∀ h ∈ allSpreads d.sels, h ∈ V' := by
    intro g hg d hd x hx
    rcases h.fresh g hg with hn | ⟨d', hd', _, hsp⟩
    · simp at hn
    · rw [hd] at hd'; cases hd'; exact hsp x hx
  unfold reach
  exact reachSels_sub doc V' hclosed _ (reachFrag_sub doc V' hclosed _) t [] (by simp) h.spreads

end Apollo.Standalone
