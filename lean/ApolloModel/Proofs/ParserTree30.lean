import ApolloModel.Proofs.ParserTree29
/-
C08 growth (pipeline), part 30 (stage iv): the CST parser and `Document::from_cst` read the printer's tokens of an
executable document back to that document (which definition parser ran is decided by the tokens, not assumed).
-/
set_option linter.unusedSimpArgs false
set_option linter.unusedVariables false

namespace Apollo.Parse
open Apollo.Rowan hiding Str
open Apollo.Lex hiding Str
open Apollo.FromCst (All2)

theorem tokIs_split {a b : List Tok} {X xa : List Ast.Tok} (h : TokIs (a ++ b) X) (ha : TokIs a xa) :
    ∃ Y, X = xa ++ Y ∧ TokIs b Y := by
  unfold TokIs at h ha
  rw [List.map_append] at h
  obtain ⟨X1, X2, rfl, h1, h2⟩ := List.map_eq_append_iff.mp h.symm
  have : X1 = xa := map_some_inj (h1.trans ha)
  subst this
  exact ⟨X2, rfl, h2.symm⟩

/-- the tokens of an executable definition do not start like a type-system definition -/
theorem exec_head (oe : Bool) (d : Ast.Definition) (rest : List Ast.Tok) (h : isExecutable d = true) :
    (Ast.tDefinition oe d ++ rest).head?.map tsStart = some false := by
  cases d with
  | operation ty name vars dirs sels =>
    by_cases hsh : Ast.isShorthand oe ty name vars dirs = true
    · simp [Ast.tDefinition, hsh, Ast.tSelSet, tsStart]
    · cases ty <;> simp [Ast.tDefinition, hsh, tsStart, Ast.OpType.name] <;> decide
  | fragment name tc dirs sels => simp [Ast.tDefinition, tsStart]
  | _ => simp [isExecutable] at h

/-- **which parser ran is decided by the tokens**: if the tokens consumed by the loop of `document()` (executable
    instance) are the printer's tokens of the executable definitions `its0`, every item is one of these definitions, in
    order, and its node converts to it -/
theorem exec_items_match : ∀ (items : List (List Tok × List Elem)) (its0 : List Ast.Item),
    (∀ i ∈ items, ExecOrOther i.1 i.2) → (∀ it ∈ its0, Ast.wfDefinition it.2 = true ∧ isExecutable it.2 = true) →
    TokIs (items.map (·.1)).flatten (Ast.itemsToks its0) →
    ∃ eds, (items.map (·.2)).flatten = eds ∧ All2 (fun e (it : Ast.Item) => DefConv it.2 e) eds its0
  | [], its0, _, _, ht => by
    cases its0 with
    | nil => exact ⟨[], rfl, All2.nil⟩
    | cons it0 r0 =>
      exfalso
      simp only [List.map_nil, List.flatten_nil, TokIs, List.map_nil] at ht
      rw [Ast.itemsToks_cons] at ht
      exact Ast.tDefinition_ne_nil it0.1 it0.2 _ (List.map_eq_nil_iff.mp ht.symm)
  | i :: items, its0, hall, h0, ht => by
    simp only [List.map_cons, List.flatten_cons] at ht
    have hi := hall i List.mem_cons_self
    cases its0 with
    | nil =>
      exfalso
      simp only [Ast.itemsToks, List.map_nil, List.flatten_nil, TokIs, List.map_append, List.append_eq_nil_iff,
        List.map_eq_nil_iff] at ht
      rcases hi with ⟨it, ed, a, _⟩ | ⟨K, inner', x, _, _, _, hx, hh⟩
      · rw [ht.1] at a
        simp only [TokIs, List.map_nil] at a
        exact Ast.tDefinition_ne_nil it.1 it.2 [] (by rw [List.append_nil]; exact List.map_eq_nil_iff.mp a.symm)
      · rw [ht.1] at hx
        simp only [TokIs, List.map_nil] at hx
        have : x = [] := List.map_eq_nil_iff.mp hx.symm
        rw [this] at hh
        cases hh
    | cons it0 r0 =>
      rw [Ast.itemsToks_cons] at ht
      obtain ⟨hw0, he0⟩ := h0 it0 List.mem_cons_self
      rcases hi with ⟨it, ed, a, hw, he, hc, hex, _⟩ | ⟨K, inner', x, _, _, _, hx, hh⟩
      · obtain ⟨Y, hY, hrest⟩ := tokIs_split ht a
        have f := max (Ast.szDefinition it.2) (Ast.szDefinition it0.2)
        have p1 := Ast.closed_roundtrip it.1 it.2 (max (Ast.szDefinition it.2) (Ast.szDefinition it0.2)) Y
          (exec_closed hex) hw (Nat.le_max_left _ _)
        have p2 := Ast.closed_roundtrip it0.1 it0.2 (max (Ast.szDefinition it.2) (Ast.szDefinition it0.2)) (Ast.itemsToks r0)
          (exec_closed he0) hw0 (Nat.le_max_right _ _)
        rw [← hY, p2] at p1
        simp only [Option.some.injEq, Prod.mk.injEq] at p1
        obtain ⟨hd, hYr⟩ := p1
        rw [← hYr] at hrest
        obtain ⟨eds, h1, h2⟩ := exec_items_match items r0 (fun j hj => hall j (List.mem_cons_of_mem _ hj))
          (fun j hj => h0 j (List.mem_cons_of_mem _ hj)) hrest
        refine ⟨ed :: eds, by simp only [List.map_cons, List.flatten_cons, he, h1]; rfl, All2.cons ?_ h2⟩
        rw [hd]; exact hc
      · exfalso
        obtain ⟨Y, hY, _⟩ := tokIs_split ht hx
        have h1 := exec_head it0.1 it0.2 (Ast.itemsToks r0) he0
        rw [hY] at h1
        cases x with
        | nil => cases hh
        | cons a x' =>
          simp only [List.cons_append, List.head?_cons, Option.map_some, Option.some.injEq] at h1 hh
          rw [hh] at h1
          cases h1

/-- **pipeline, executable documents, token level**: a source accepted by `Parser::parse` whose significant tokens are
    the printer's tokens of the well-formed executable definitions `its0` (each in either form) — `Document::from_cst` on
    the tree returns exactly these definitions -/
theorem pipeline_exec_of_tokens (rl : Nat) (src : Str) (root : Elem) (its0 : List Ast.Item)
    (h : (parse .document none rl src).outcome = .tree root) (herr : (parse .document none rl src).errors = [])
    (h0 : ∀ it ∈ its0, Ast.wfDefinition it.2 = true ∧ isExecutable it.2 = true)
    (ts : List Tok) (e : Tok) (hsig : sig (srcToks src) = ts ++ [e]) (hx : TokIs ts (Ast.itemsToks its0)) :
    (FromCst.fromCst root).1 = its0.map (·.2) := by
  obtain ⟨_, ts', e', inner, h1, h2, hroot, items, hne, hts, hsigE, hall⟩ := parseDocument_cst execDefTrs rl src root h herr
  have hts' : ts' = ts := by
    have hh := hsig.symm.trans h1
    have hl := congrArg List.length hh
    simp at hl
    exact ((List.append_inj hh hl).1).symm
  subst hts'
  rw [hts] at hx
  obtain ⟨eds, g1, g2⟩ := exec_items_match items its0 hall h0 hx
  rw [hroot]
  exact fromCst_document inner eds its0 (by rw [hsigE, g1]) g2

end Apollo.Parse
