import ApolloModel.Proofs.SchemaBuildSpec5
/-
C13 growth: whether `SchemaBuilder::build` reports an error depends on the *names* in the document only
(definition kinds, names, member / interface / operation names, in order) — not on positions, and therefore not
on anything the abstraction leaves out (descriptions, field types, arguments, values, directive applications).
Corollary of `build_errors_iff_spec`: the specification side reads names only.
-/
namespace Apollo.SchemaBuild

def Item.bare (i : Item) : Item := ⟨i.name, 0, 0, ""⟩

/-- the definition with everything but names erased -/
def Def.skeleton (d : Def) : Def := ⟨d.tag, d.name, 0, 0, [], d.interfaces.map Item.bare, d.members.map Item.bare⟩

theorem skel_tag (d : Def) : d.skeleton.tag = d.tag := rfl
theorem skel_name (d : Def) : d.skeleton.name = d.name := rfl
theorem skel_defKind (d : Def) : d.skeleton.defKind = d.defKind := rfl
theorem skel_extKind (d : Def) : d.skeleton.extKind = d.extKind := rfl
theorem skel_members (d : Def) : d.skeleton.members.map (·.name) = d.members.map (·.name) := by
  simp [Def.skeleton, Item.bare, List.map_map, Function.comp_def]
theorem skel_interfaces (d : Def) : d.skeleton.interfaces.map (·.name) = d.interfaces.map (·.name) := by
  simp [Def.skeleton, Item.bare, List.map_map, Function.comp_def]

theorem filter_map_skel (p : Def → Bool) (hp : ∀ d, p d.skeleton = p d) (ds : List Def) :
    (ds.map Def.skeleton).filter p = (ds.filter p).map Def.skeleton := by
  rw [List.filter_map]
  congr 1
  apply List.filter_congr
  intro d _; exact hp d

theorem skel_typeDefNames (ds : List Def) : typeDefNames (ds.map Def.skeleton) = typeDefNames ds := by
  unfold typeDefNames
  rw [filter_map_skel _ (fun d => rfl), List.map_map]; rfl

theorem skel_dirDefNames (ds : List Def) : dirDefNames (ds.map Def.skeleton) = dirDefNames ds := by
  unfold dirDefNames
  rw [filter_map_skel _ (fun d => rfl), List.map_map]; rfl

theorem skel_definedKind (ds : List Def) (n : Name) : definedKind (ds.map Def.skeleton) n = definedKind ds n := by
  unfold definedKind
  induction ds with
  | nil => rfl
  | cons d r ih => simp only [List.map_cons, List.findSome?_cons, skel_name, skel_defKind, ih] <;> rfl

theorem skel_kindOfName (ds : List Def) (n : Name) : kindOfName (ds.map Def.skeleton) n = kindOfName ds n := by
  unfold kindOfName; rw [skel_definedKind]

theorem skel_memberNames (ds : List Def) (n : Name) : memberNames (ds.map Def.skeleton) n = memberNames ds n := by
  unfold memberNames partsOf
  rw [filter_map_skel _ (fun d => rfl), List.flatMap_map]
  congr 1
  funext d; exact skel_members d

theorem skel_ifaceNames (ds : List Def) (n : Name) : ifaceNames (ds.map Def.skeleton) n = ifaceNames ds n := by
  unfold ifaceNames partsOf
  rw [filter_map_skel _ (fun d => rfl), List.flatMap_map]
  congr 1
  funext d; exact skel_interfaces d

theorem skel_schemaDefCount (ds : List Def) : schemaDefCount (ds.map Def.skeleton) = schemaDefCount ds := by
  unfold schemaDefCount
  rw [filter_map_skel _ (fun d => rfl), List.length_map]

theorem skel_schemaExts_nil (ds : List Def) : schemaExts (ds.map Def.skeleton) = [] ↔ schemaExts ds = [] := by
  unfold schemaExts
  rw [filter_map_skel _ (fun d => rfl), List.map_eq_nil_iff]

theorem skel_schemaOpNames (ds : List Def) : schemaOpNames (ds.map Def.skeleton) = schemaOpNames ds := by
  unfold schemaOpNames
  rw [filter_map_skel _ (fun d => rfl), List.flatMap_map]
  congr 1
  funext d; exact skel_members d

theorem skel_implicitOps (ds : List Def) : implicitOps (ds.map Def.skeleton) = implicitOps ds := by
  unfold implicitOps
  simp only [skel_kindOfName]

theorem skel_rootOpNames (ds : List Def) : rootOpNames (ds.map Def.skeleton) = rootOpNames ds := by
  unfold rootOpNames
  rw [skel_schemaDefCount, skel_implicitOps, skel_schemaOpNames]

/-- the specification reads names only -/
theorem BuildSpec_skeleton (ds : List Def) : BuildSpec (ds.map Def.skeleton) ↔ BuildSpec ds := by
  constructor
  · intro h
    refine ⟨?_, ?_, ?_, ?_, ?_, ?_, ?_, ?_, ?_⟩
    · intro d hd; exact h.noExecutable d.skeleton (List.mem_map_of_mem hd)
    · rw [← skel_schemaDefCount]; exact h.loneSchema
    · rw [← skel_typeDefNames]; exact h.uniqueTypes
    · rw [← skel_dirDefNames]; exact h.uniqueDirectives
    · intro e he k hk
      rw [← skel_kindOfName]; exact h.extensionsMatch e.skeleton (List.mem_map_of_mem he) k hk
    · intro hx
      rw [← skel_schemaDefCount, ← skel_implicitOps]
      exact h.schemaExtended (fun hn => hx ((skel_schemaExts_nil ds).mp hn))
    · intro n hn; rw [← skel_memberNames]; exact h.uniqueMembers n (by rw [skel_kindOfName]; exact hn)
    · intro n hn; rw [← skel_ifaceNames]; exact h.uniqueInterfaces n (by rw [skel_kindOfName]; exact hn)
    · rw [← skel_rootOpNames]; exact h.uniqueRootOps
  · intro h
    refine ⟨?_, ?_, ?_, ?_, ?_, ?_, ?_, ?_, ?_⟩
    · intro d hd
      obtain ⟨d0, hd0, rfl⟩ := List.mem_map.mp hd
      exact h.noExecutable d0 hd0
    · rw [skel_schemaDefCount]; exact h.loneSchema
    · rw [skel_typeDefNames]; exact h.uniqueTypes
    · rw [skel_dirDefNames]; exact h.uniqueDirectives
    · intro e he k hk
      obtain ⟨e0, he0, rfl⟩ := List.mem_map.mp he
      rw [skel_kindOfName]; exact h.extensionsMatch e0 he0 k hk
    · intro hx
      rw [skel_schemaDefCount, skel_implicitOps]
      exact h.schemaExtended (fun hn => hx ((skel_schemaExts_nil ds).mpr hn))
    · intro n hn; rw [skel_memberNames]; exact h.uniqueMembers n (by rw [← skel_kindOfName]; exact hn)
    · intro n hn; rw [skel_ifaceNames]; exact h.uniqueInterfaces n (by rw [← skel_kindOfName]; exact hn)
    · rw [skel_rootOpNames]; exact h.uniqueRootOps

/-- **the build verdict depends on names only**: two documents with the same kinds and names (in order), whatever
    their positions and payloads, are both accepted or both rejected by the builder -/
theorem build_verdict_depends_on_names_only (ds ds' : List Def) (hwf : WellFormed ds) (hwf' : WellFormed ds')
    (h : ds.map Def.skeleton = ds'.map Def.skeleton) :
    (build (Builder.new false false) [ds]).errors = [] ↔ (build (Builder.new false false) [ds']).errors = [] := by
  rw [build_errors_iff_spec ds hwf, build_errors_iff_spec ds' hwf', ← BuildSpec_skeleton ds, ← BuildSpec_skeleton ds', h]

end Apollo.SchemaBuild
