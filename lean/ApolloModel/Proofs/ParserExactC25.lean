import ApolloModel.Proofs.ParserExactC24
import ApolloModel.Proofs.ParserComplete25
/-
EXACT-BUDGET COPY of ParserComplete25 (namespace Apollo.Parse.Exact, exact `vdepth`).
C05 growth (completeness of the whole Document grammar), part 25: `select_definition` and `extensions` on the
keywords of the type system; the exact guards of the type-system definitions (`looseFit`, `looseFollow`) over
builderD's `LooseDef`; the document dispatch for type-system definitions.
-/
set_option linter.unusedSimpArgs false
namespace Apollo.Parse.Exact
open Apollo.Rowan hiding Str
open Apollo.Lex hiding Str

theorem selectDefinition_directive (n : Nat) : selectDefinition n "directive".toList = directiveDefinition n := by
  unfold selectDefinition
  have h0 : kw "directive" "directive".toList = true := by decide
  simp only [h0, Bool.false_eq_true, if_false, if_true]

theorem selectDefinition_enum (n : Nat) : selectDefinition n "enum".toList = enumTypeDefinition n := by
  unfold selectDefinition
  have h0 : kw "directive" "enum".toList = false := by decide
  have h1 : kw "enum" "enum".toList = true := by decide
  simp only [h0, h1, Bool.false_eq_true, if_false, if_true]

theorem selectDefinition_extend (n : Nat) : selectDefinition n "extend".toList = extensions n := by
  unfold selectDefinition
  have h0 : kw "directive" "extend".toList = false := by decide
  have h1 : kw "enum" "extend".toList = false := by decide
  have h2 : kw "extend" "extend".toList = true := by decide
  simp only [h0, h1, h2, Bool.false_eq_true, if_false, if_true]

theorem selectDefinition_input (n : Nat) : selectDefinition n "input".toList = inputObjectTypeDefinition n := by
  unfold selectDefinition
  have h0 : kw "directive" "input".toList = false := by decide
  have h1 : kw "enum" "input".toList = false := by decide
  have h2 : kw "extend" "input".toList = false := by decide
  have h3 : kw "fragment" "input".toList = false := by decide
  have h4 : kw "input" "input".toList = true := by decide
  simp only [h0, h1, h2, h3, h4, Bool.false_eq_true, if_false, if_true]

theorem selectDefinition_interface (n : Nat) : selectDefinition n "interface".toList = interfaceTypeDefinition n := by
  unfold selectDefinition
  have h0 : kw "directive" "interface".toList = false := by decide
  have h1 : kw "enum" "interface".toList = false := by decide
  have h2 : kw "extend" "interface".toList = false := by decide
  have h3 : kw "fragment" "interface".toList = false := by decide
  have h4 : kw "input" "interface".toList = false := by decide
  have h5 : kw "interface" "interface".toList = true := by decide
  simp only [h0, h1, h2, h3, h4, h5, Bool.false_eq_true, if_false, if_true]

theorem selectDefinition_type (n : Nat) : selectDefinition n "type".toList = objectTypeDefinition n := by
  unfold selectDefinition
  have h0 : kw "directive" "type".toList = false := by decide
  have h1 : kw "enum" "type".toList = false := by decide
  have h2 : kw "extend" "type".toList = false := by decide
  have h3 : kw "fragment" "type".toList = false := by decide
  have h4 : kw "input" "type".toList = false := by decide
  have h5 : kw "interface" "type".toList = false := by decide
  have h6 : kw "type" "type".toList = true := by decide
  simp only [h0, h1, h2, h3, h4, h5, h6, Bool.false_eq_true, if_false, if_true]

theorem selectDefinition_scalar (n : Nat) : selectDefinition n "scalar".toList = scalarTypeDefinition n := by
  unfold selectDefinition
  have h0 : kw "directive" "scalar".toList = false := by decide
  have h1 : kw "enum" "scalar".toList = false := by decide
  have h2 : kw "extend" "scalar".toList = false := by decide
  have h3 : kw "fragment" "scalar".toList = false := by decide
  have h4 : kw "input" "scalar".toList = false := by decide
  have h5 : kw "interface" "scalar".toList = false := by decide
  have h6 : kw "type" "scalar".toList = false := by decide
  have h7 : (kw "query" "scalar".toList || kw "mutation" "scalar".toList || kw "subscription" "scalar".toList || kw "{" "scalar".toList) = false := by decide
  have h8 : kw "scalar" "scalar".toList = true := by decide
  simp only [h0, h1, h2, h3, h4, h5, h6, h7, h8, Bool.false_eq_true, if_false, if_true]

theorem selectDefinition_schema (n : Nat) : selectDefinition n "schema".toList = schemaDefinition n := by
  unfold selectDefinition
  have h0 : kw "directive" "schema".toList = false := by decide
  have h1 : kw "enum" "schema".toList = false := by decide
  have h2 : kw "extend" "schema".toList = false := by decide
  have h3 : kw "fragment" "schema".toList = false := by decide
  have h4 : kw "input" "schema".toList = false := by decide
  have h5 : kw "interface" "schema".toList = false := by decide
  have h6 : kw "type" "schema".toList = false := by decide
  have h7 : (kw "query" "schema".toList || kw "mutation" "schema".toList || kw "subscription" "schema".toList || kw "{" "schema".toList) = false := by decide
  have h8 : kw "scalar" "schema".toList = false := by decide
  have h9 : kw "schema" "schema".toList = true := by decide
  simp only [h0, h1, h2, h3, h4, h5, h6, h7, h8, h9, Bool.false_eq_true, if_false, if_true]

theorem selectDefinition_union (n : Nat) : selectDefinition n "union".toList = unionTypeDefinition n := by
  unfold selectDefinition
  have h0 : kw "directive" "union".toList = false := by decide
  have h1 : kw "enum" "union".toList = false := by decide
  have h2 : kw "extend" "union".toList = false := by decide
  have h3 : kw "fragment" "union".toList = false := by decide
  have h4 : kw "input" "union".toList = false := by decide
  have h5 : kw "interface" "union".toList = false := by decide
  have h6 : kw "type" "union".toList = false := by decide
  have h7 : (kw "query" "union".toList || kw "mutation" "union".toList || kw "subscription" "union".toList || kw "{" "union".toList) = false := by decide
  have h8 : kw "scalar" "union".toList = false := by decide
  have h9 : kw "schema" "union".toList = false := by decide
  have h10 : kw "union" "union".toList = true := by decide
  simp only [h0, h1, h2, h3, h4, h5, h6, h7, h8, h9, h10, Bool.false_eq_true, if_false, if_true]

theorem extSel_schema (n : Nat) : extSel n (some "schema".toList) = schemaExtension n := by
  unfold extSel
  have h0 : kwOpt "schema" (some "schema".toList) = true := by decide
  simp only [h0, Bool.false_eq_true, if_false, if_true]

theorem extSel_scalar (n : Nat) : extSel n (some "scalar".toList) = scalarTypeExtension n := by
  unfold extSel
  have h0 : kwOpt "schema" (some "scalar".toList) = false := by decide
  have h1 : kwOpt "scalar" (some "scalar".toList) = true := by decide
  simp only [h0, h1, Bool.false_eq_true, if_false, if_true]

theorem extSel_type (n : Nat) : extSel n (some "type".toList) = objectTypeExtension n := by
  unfold extSel
  have h0 : kwOpt "schema" (some "type".toList) = false := by decide
  have h1 : kwOpt "scalar" (some "type".toList) = false := by decide
  have h2 : kwOpt "type" (some "type".toList) = true := by decide
  simp only [h0, h1, h2, Bool.false_eq_true, if_false, if_true]

theorem extSel_interface (n : Nat) : extSel n (some "interface".toList) = interfaceTypeExtension n := by
  unfold extSel
  have h0 : kwOpt "schema" (some "interface".toList) = false := by decide
  have h1 : kwOpt "scalar" (some "interface".toList) = false := by decide
  have h2 : kwOpt "type" (some "interface".toList) = false := by decide
  have h3 : kwOpt "interface" (some "interface".toList) = true := by decide
  simp only [h0, h1, h2, h3, Bool.false_eq_true, if_false, if_true]

theorem extSel_union (n : Nat) : extSel n (some "union".toList) = unionTypeExtension n := by
  unfold extSel
  have h0 : kwOpt "schema" (some "union".toList) = false := by decide
  have h1 : kwOpt "scalar" (some "union".toList) = false := by decide
  have h2 : kwOpt "type" (some "union".toList) = false := by decide
  have h3 : kwOpt "interface" (some "union".toList) = false := by decide
  have h4 : kwOpt "union" (some "union".toList) = true := by decide
  simp only [h0, h1, h2, h3, h4, Bool.false_eq_true, if_false, if_true]

theorem extSel_enum (n : Nat) : extSel n (some "enum".toList) = enumTypeExtension n := by
  unfold extSel
  have h0 : kwOpt "schema" (some "enum".toList) = false := by decide
  have h1 : kwOpt "scalar" (some "enum".toList) = false := by decide
  have h2 : kwOpt "type" (some "enum".toList) = false := by decide
  have h3 : kwOpt "interface" (some "enum".toList) = false := by decide
  have h4 : kwOpt "union" (some "enum".toList) = false := by decide
  have h5 : kwOpt "enum" (some "enum".toList) = true := by decide
  simp only [h0, h1, h2, h3, h4, h5, Bool.false_eq_true, if_false, if_true]

theorem extSel_input (n : Nat) : extSel n (some "input".toList) = inputObjectTypeExtension n := by
  unfold extSel
  have h0 : kwOpt "schema" (some "input".toList) = false := by decide
  have h1 : kwOpt "scalar" (some "input".toList) = false := by decide
  have h2 : kwOpt "type" (some "input".toList) = false := by decide
  have h3 : kwOpt "interface" (some "input".toList) = false := by decide
  have h4 : kwOpt "union" (some "input".toList) = false := by decide
  have h5 : kwOpt "enum" (some "input".toList) = false := by decide
  have h6 : kwOpt "input" (some "input".toList) = true := by decide
  simp only [h0, h1, h2, h3, h4, h5, h6, Bool.false_eq_true, if_false, if_true]


/-! ### the exact guards of a type-system definition or extension -/

/-- **within the recursion budget and well formed**: directives and default values are `Const` and within the budget,
    type references within the budget, enum values are not `true` / `false` / `null`, directive locations are among
    the nineteen names, a schema has at least one root operation type (all with their named type), an extension has
    at least one component -/
def looseFit (b : Nat) : LooseDef → Prop
  | .scalar _ _ ds => dirsFit true b ds
  | .object _ _ _ ds fs => objFit b ds fs
  | .interface _ _ _ ds fs => objFit b ds fs
  | .union _ _ ds _ => dirsFit true b ds
  | .enum _ _ ds vs => dirsFit true b ds ∧ ∀ v ∈ vs, enumValFit b v
  | .input _ _ ds fs => dirsFit true b ds ∧ ∀ v ∈ fs, ivdFit b v
  | .directive _ _ args _ _ first rest => (∀ a ∈ args, ivdFit b a) ∧ IsDirLoc first ∧ ∀ r ∈ rest, IsDirLoc r
  | .schema _ ds roots => dirsFit true b ds ∧ roots ≠ [] ∧ ∀ r ∈ roots, r.2 ≠ none
  | .scalarExt _ ds => ds ≠ [] ∧ dirsFit true b ds
  | .objectExt _ impl ds fs => (impl ≠ none ∨ ds ≠ [] ∨ fs ≠ []) ∧ objFit b ds fs
  | .interfaceExt _ impl ds fs => (impl ≠ none ∨ ds ≠ [] ∨ fs ≠ []) ∧ objFit b ds fs
  | .unionExt _ ds ms => (ds ≠ [] ∨ ms ≠ none) ∧ dirsFit true b ds
  | .enumExt _ ds vs => (ds ≠ [] ∨ vs ≠ []) ∧ dirsFit true b ds ∧ ∀ v ∈ vs, enumValFit b v
  | .inputExt _ ds fs => (ds ≠ [] ∨ fs ≠ []) ∧ dirsFit true b ds ∧ ∀ v ∈ fs, ivdFit b v
  | .schemaExt ds roots => (ds ≠ [] ∨ roots ≠ []) ∧ dirsFit true b ds ∧ ∀ r ∈ roots, r.2 ≠ none

/-- **what may follow**: the token after the definition must not continue it -/
def looseFollow : LooseDef → Tok → Prop
  | .scalar .., t => t.kind ≠ .at ∧ t.kind ≠ .lParen
  | .scalarExt .., t => t.kind ≠ .at ∧ t.kind ≠ .lParen
  | .object .., t => FObj t
  | .interface .., t => FObj t
  | .objectExt .., t => FObj t
  | .interfaceExt .., t => FObj t
  | .union .., t => t.kind ≠ .at ∧ t.kind ≠ .lParen ∧ t.kind ≠ .eq ∧ t.kind ≠ .pipe
  | .unionExt .., t => t.kind ≠ .at ∧ t.kind ≠ .lParen ∧ t.kind ≠ .eq ∧ t.kind ≠ .pipe
  | .enum .., t => Fbody t.kind
  | .input .., t => Fbody t.kind
  | .enumExt .., t => Fbody t.kind
  | .inputExt .., t => Fbody t.kind
  | .schemaExt .., t => Fbody t.kind
  | .directive .., t => t.kind ≠ .pipe
  | .schema .., _ => True

theorem strict_roots : ∀ roots : List (Ast.OpType × Option Ast.Str), (∀ r ∈ roots, r.2 ≠ none) →
    ∃ roots' : List (Ast.OpType × Ast.Str), roots = roots'.map fun r => (r.1, some r.2)
  | [], _ => ⟨[], rfl⟩
  | (op, none) :: _, h => absurd rfl (h (op, none) (by simp))
  | (op, some nm) :: r, h => by
    obtain ⟨r', hr'⟩ := strict_roots r (fun x hx => h x (by simp [hx]))
    exact ⟨(op, nm) :: r', by simp [hr']⟩

/-! ### the dispatch reaches `select_definition` with the keyword -/

theorem dispatch_kw (n : Nat) (sP s2 : PState) (t : Tok) (tl1 : List Tok) (desc : Option Ast.Str) (word : Ast.Str) (x' : List Ast.Tok)
    (q1 : Tok) (r1 : List Tok) (w : TW sP) (hcur : sP.current = some t)
    (hs : Spells (t :: tl1) (Ast.tDescription desc ++ .name word :: x')) (ht : Toks sP = (t :: tl1) ++ q1 :: r1) (hq : Sigf q1)
    (h : (documentDispatch n t.kind).run sP = .ok () s2) : (selectDefinition n word).run sP = .ok () s2 := by
  unfold documentDispatch at h
  cases desc with
  | none =>
    simp only [Ast.tDescription, List.nil_append] at hs
    obtain ⟨t', tl', e', hta⟩ := spells_head hs
    injection e' with e1 _
    subst e1
    have hk : t.kind = .name := kind_of_astOfV hta
    have hd : t.data = word := data_of_astOfV_name hta
    simp only [hk, show (Kind.name == Kind.stringValue) = false from rfl, show (Kind.name == Kind.name || Kind.name == Kind.lCurly) = true from rfl,
      Bool.false_eq_true, if_false, if_true] at h
    obtain ⟨d, sQ, hq2, h3⟩ := bind_dec peekData _ sP s2 () h
    obtain ⟨hsQ, hdd⟩ := peekData_cur sP sQ d t hcur hq2
    subst hsQ hdd
    simp only [] at h3
    rw [hd] at h3
    exact h3
  | some dstr =>
    simp only [Ast.tDescription, List.cons_append, List.nil_append] at hs
    obtain ⟨t', i, c', e', hta, hi, hs'⟩ := spells_cons hs
    injection e' with e1 e2
    subst e1
    have hk : t.kind = .stringValue := kind_of_astOfV hta
    simp only [hk, beq_self_eq_true, if_true] at h
    obtain ⟨d, sQ, hq2, h3⟩ := bind_dec (peekDataN 2) _ sP s2 () h
    obtain ⟨hsQ, hdd⟩ := peekDataN2_spec sP sQ d t (tl1 ++ q1 :: r1) w hcur (by simpa using ht) (sigf_of_astOfV hta) hq2
    subst hsQ
    obtain ⟨t2, hh, hor⟩ := sig_head_after i c' q1 r1 _ hi hs' hq
    rcases hor with ⟨h0, _⟩ | ⟨a2, x2, e, hta2⟩
    · cases h0
    · injection e with e _
      subst e
      have hd2 : t2.data = word := data_of_astOfV_name hta2
      have : d = some word := by
        rw [hdd, e2]
        have : sig (i.append c' ++ q1 :: r1) = sig (i ++ (c' ++ q1 :: r1)) := by
          show sig ((i ++ c') ++ q1 :: r1) = _
          rw [List.append_assoc]
        rw [this, hh]; simp [hd2]
      subst this
      simp only [] at h3
      exact h3

theorem dispatch_ext (n : Nat) (sP s2 : PState) (t : Tok) (tl1 : List Tok) (word : Ast.Str) (x' : List Ast.Tok)
    (q1 : Tok) (r1 : List Tok) (w : TW sP) (hcur : sP.current = some t)
    (hs : Spells (t :: tl1) (.name "extend".toList :: .name word :: x')) (ht : Toks sP = (t :: tl1) ++ q1 :: r1) (hq : Sigf q1)
    (h : (documentDispatch n t.kind).run sP = .ok () s2) : (extSel n (some word)).run sP = .ok () s2 := by
  have h1 := dispatch_kw n sP s2 t tl1 none "extend".toList (.name word :: x') q1 r1 w hcur (by simpa [Ast.tDescription] using hs) ht hq h
  rw [selectDefinition_extend, extensions_eq] at h1
  obtain ⟨t', i, c', e', hta, hi, hs'⟩ := spells_cons hs
  injection e' with e1 e2
  subst e1
  obtain ⟨d, sQ, hq2, h3⟩ := bind_dec (peekDataN 2) _ sP s2 () h1
  obtain ⟨hsQ, hdd⟩ := peekDataN2_spec sP sQ d t (tl1 ++ q1 :: r1) w hcur (by simpa using ht) (sigf_of_astOfV hta) hq2
  subst hsQ
  obtain ⟨t2, hh, hor⟩ := sig_head_after i c' q1 r1 _ hi hs' hq
  rcases hor with ⟨h0, _⟩ | ⟨a2, x2, e, hta2⟩
  · cases h0
  · injection e with e _
    subst e
    have hd2 : t2.data = word := data_of_astOfV_name hta2
    have : d = some word := by
      rw [hdd, e2]
      have : sig (i.append c' ++ q1 :: r1) = sig (i ++ (c' ++ q1 :: r1)) := by
        show sig ((i ++ c') ++ q1 :: r1) = _
        rw [List.append_assoc]
      rw [this, hh]; simp [hd2]
    subst this
    exact h3

end Apollo.Parse.Exact
