import ApolloModel.Proofs.ParserRecursion10
/-
C04 growth (recursion limit across runs), part 11: selection.rs / field.rs / fragment.rs — the mutual family
`selection_set` / `selection` / `field` / `inline_fragment`, with the guard of `selection_set` sitting right
after `bump(L_CURLY)`.
-/
set_option linter.unusedSimpArgs false
set_option linter.unusedVariables false
namespace Apollo.Parse
open Apollo.Rowan hiding Str
open Apollo.Lex hiding Str

/-- `skip_ignored` does not move when the current token is significant -/
theorem post_skipIgnored_keep (k : Kind) (hk : isIgnoredKind k = false) :
    PostC (fun cur => cur.map (·.kind) = some k) skipIgnored (fun _ cur => cur.map (·.kind) = some k) := by
  intro s a s' g hc h
  unfold skipIgnored at h
  obtain ⟨n, s1, h1, h2⟩ := bind_dec srcLen _ s s' () h
  have : s1 = s := by
    unfold srcLen at h1
    simp only [] at h1
    injection h1 with _ h1
    exact h1.symm
  subst this
  cases hcur : s1.current with
  | none => rw [hcur] at hc; cases hc
  | some t =>
    have htk : t.kind = k := by rw [hcur] at hc; simpa using hc
    unfold skipIgnoredLoop at h2
    obtain ⟨o, s2, h3, h4⟩ := bind_dec peekToken _ s1 s' () h2
    unfold peekToken at h3
    simp only [hcur, Res.ok.injEq] at h3
    obtain ⟨rfl, rfl⟩ := h3
    obtain ⟨b, s3, h5, h6⟩ := bind_dec moveCurToPending _ s1 s' () h4
    unfold moveCurToPending at h5
    simp only [hcur, htk, hk, Bool.false_eq_true, if_false] at h5
    injection h5 with hb hs3
    subst hb hs3
    replace h6 : (pure () : PI Unit).run s1 = .ok () s' := h6
    rw [run_pure] at h6
    injection h6 with _ h6
    subst h6
    exact hc

theorem plain_okTail (ok : Bool) : Plain (if ok then expect .rCurly "R_CURLY" else pure ()) :=
  plain_ite _ _ _ (plain_expect _ _) (plain_pure _)

theorem bg_selSetBody (n : Nat) (ih : XG (selection n)) : BG (selSetBody n) := by
  unfold selSetBody
  exact bg_bind _ _ (bg_of_plain (plain_bump _)) (fun _ => bg_bind _ _
    (bg_withRec _ _ (plain_bind _ _ plain_limitErr (fun _ => plain_pure _)) (bg_bind _ _ ih.b (fun _ => bg_of_plain (plain_pure _))))
    (fun ok => bg_of_plain (plain_okTail ok)))

/-- the body of a selection set, entered with `{` as the current token: `bump` leaves a current token, so
    the guard has a token to report the limit error at -/
theorem xc_selSetBody (n : Nat) (ih : XG (selection n)) :
    XC (fun cur => cur.map (·.kind) = some .lCurly) (selSetBody n) := by
  unfold selSetBody
  refine xc_bind (c' := fun _ cur => cur.isSome = true) _ _ (xc_of_plain (plain_bump _)) (bg_of_plain (plain_bump _)) ?_ ?_ ?_
  · intro s a s' g hc h
    refine post_bump "L_CURLY" s a s' g ?_ h
    cases hcur : s.current with
    | none => rw [hcur] at hc; cases hc
    | some t =>
      rw [hcur] at hc
      simp only [Option.map_some, Option.some.injEq] at hc
      exact ⟨t, rfl, by rw [hc]; decide⟩
  · intro _
    refine xc_bind (c' := fun _ _ => True) _ _ ?_ ?_ (post_trivial _ _) (fun ok => xc_of_plain (plain_okTail ok))
      (fun ok => bg_of_plain (plain_okTail ok))
    · exact xc_withRec _ _ (plain_bind _ _ plain_limitErr (fun _ => plain_pure _))
        (fun s a s' g hc h => limitErrPure_records false s a s' g hc h)
        (xc_weaken (xc_bind' _ _ ih.x ih.b (fun _ => xc_of_plain (plain_pure _)) (fun _ => bg_of_plain (plain_pure _))))
        (bg_bind _ _ ih.b (fun _ => bg_of_plain (plain_pure _)))
    · exact bg_withRec _ _ (plain_bind _ _ plain_limitErr (fun _ => plain_pure _)) (bg_bind _ _ ih.b (fun _ => bg_of_plain (plain_pure _)))
  · intro _
    exact bg_bind _ _
      (bg_withRec _ _ (plain_bind _ _ plain_limitErr (fun _ => plain_pure _)) (bg_bind _ _ ih.b (fun _ => bg_of_plain (plain_pure _))))
      (fun ok => bg_of_plain (plain_okTail ok))

structure XSel (n : Nat) : Prop where
  selSet : XG (selectionSet n)
  sel : XG (selection n)
  field : XG (field n)
  inline : XG (inlineFragment n)

theorem xg_ifPeek (k : Kind) (a : PI Unit) (ha : XG a) :
    XG (peek >>= fun x => if x == some k then a else pure ()) :=
  xg_bind _ _ xg_peek (fun _ => xg_ite _ _ _ ha (xg_pure _))

theorem xg_selBody (n : Nat) (ih : XSel n) (k : Kind) : XG (selBody n k) := by
  unfold selBody
  by_cases h1 : (k == Kind.spread) = true
  · simp only [h1, if_true]
    refine xg_bind _ _ (xg_of_plain (plain_peekTokenN 2)) (fun o => ?_)
    cases o with
    | none => exact xg_bind _ _ (xg_of_plain plain_errAndPop) (fun _ => xg_pure _)
    | some next =>
      simp only []
      by_cases h2 : (next.kind == Kind.name && !kw "on" next.data) = true
      · simp only [h2, if_true]
        exact xg_bind _ _ (xg_fragmentSpread n) (fun _ => xg_pure _)
      · simp only [h2, Bool.false_eq_true, if_false]
        by_cases h3 : (next.kind == Kind.at || next.kind == Kind.name || next.kind == Kind.lCurly) = true
        · simp only [h3, if_true]
          exact xg_bind _ _ ih.inline (fun _ => xg_pure _)
        · simp only [h3, Bool.false_eq_true, if_false]
          exact xg_bind _ _ xg_err (fun _ => xg_bind _ _ (xg_bump _) (fun _ => xg_pure _))
  · simp only [h1, Bool.false_eq_true, if_false]
    by_cases h2 : (k == Kind.lCurly) = true
    · simp only [h2, if_true]; exact xg_pure _
    · simp only [h2, Bool.false_eq_true, if_false]
      by_cases h3 : (k == Kind.name) = true
      · simp only [h3, if_true]; exact xg_bind _ _ ih.field (fun _ => xg_pure _)
      · simp only [h3, Bool.false_eq_true, if_false]; exact xg_pure _

theorem xg_fieldBody (n : Nat) (ih : XSel n) : XG (fieldBody n) := by
  unfold fieldBody
  have t3 := xg_ifPeek .lCurly _ ih.selSet
  have t2 : XG (peek >>= fun x => if x == some Kind.at then (directives n false >>= fun _ =>
      (peek >>= fun x => if x == some Kind.lCurly then selectionSet n else pure ()))
      else (peek >>= fun x => if x == some Kind.lCurly then selectionSet n else pure ())) :=
    xg_bind _ _ xg_peek (fun _ => xg_ite _ _ _ (xg_bind _ _ (xg_directives n false) (fun _ => t3)) t3)
  have t1 : XG (peek >>= fun x => if x == some Kind.lParen then (arguments n false >>= fun _ => (peek >>= fun x => if x == some Kind.at then (directives n false >>= fun _ =>
      (peek >>= fun x => if x == some Kind.lCurly then selectionSet n else pure ()))
      else (peek >>= fun x => if x == some Kind.lCurly then selectionSet n else pure ())))
      else (peek >>= fun x => if x == some Kind.at then (directives n false >>= fun _ =>
      (peek >>= fun x => if x == some Kind.lCurly then selectionSet n else pure ()))
      else (peek >>= fun x => if x == some Kind.lCurly then selectionSet n else pure ()))) :=
    xg_bind _ _ xg_peek (fun _ => xg_ite _ _ _ (xg_bind _ _ (xg_arguments n false) (fun _ => t2)) t2)
  refine xg_bind _ _ xg_peek (fun k => ?_)
  by_cases h : (k == some Kind.name) = true
  · simp only [h, if_true]
    refine xg_bind _ _ (xg_of_plain (plain_peekN 2)) (fun k2 => ?_)
    by_cases h2 : (k2 == some Kind.colon) = true
    · simp only [h2, if_true]
      exact xg_bind _ _ (xg_of_plain plain_alias) (fun _ => xg_bind _ _ xg_name (fun _ => t1))
    · simp only [h2, Bool.false_eq_true, if_false]
      exact xg_bind _ _ xg_name (fun _ => t1)
  · simp only [h, Bool.false_eq_true, if_false]
    exact xg_bind _ _ xg_err (fun _ => t1)

theorem xg_inlineBody (n : Nat) (ih : XSel n) : XG (inlineBody n) := by
  unfold inlineBody
  have t3 : XG (peek >>= fun x => if x == some Kind.lCurly then selectionSet n else err) :=
    xg_bind _ _ xg_peek (fun _ => xg_ite _ _ _ ih.selSet xg_err)
  have t2 : XG (peek >>= fun x => if x == some Kind.at then (directives n false >>= fun _ =>
      (peek >>= fun x => if x == some Kind.lCurly then selectionSet n else err))
      else (peek >>= fun x => if x == some Kind.lCurly then selectionSet n else err)) :=
    xg_bind _ _ xg_peek (fun _ => xg_ite _ _ _ (xg_bind _ _ (xg_directives n false) (fun _ => t3)) t3)
  refine xg_bind _ _ (xg_bump _) (fun _ => xg_bind _ _ xg_peek (fun k => ?_))
  exact xg_ite _ _ _ (xg_bind _ _ (xg_of_plain plain_typeCondition) (fun _ => t2)) t2

theorem xg_selectionSet_succ (n : Nat) (ih : XG (selection n)) : XG (selectionSet (n + 1)) := by
  rw [selectionSet_succ]
  have bgBranch : ∀ k : Option Kind, BG (if k == some Kind.lCurly then withNode "SELECTION_SET" (selSetBody n) else pure ()) :=
    fun k => bg_ite _ _ _ (bg_withNode _ _ (bg_selSetBody n ih)) (bg_of_plain (plain_pure _))
  refine ⟨?_, bg_bind _ _ (bg_of_plain plain_peek) bgBranch⟩
  refine xc_bind (c' := fun k cur => cur.map (·.kind) = k) _ _ (xc_of_plain plain_peek) (bg_of_plain plain_peek) (post_peek _) ?_ bgBranch
  intro k
  by_cases hk : k = some .lCurly
  · subst hk
    simp only [beq_self_eq_true, if_true]
    refine xc_withNode _ _ ?_
    exact xc_bind (c' := fun _ cur => cur.map (·.kind) = some .lCurly) _ _ (xc_of_plain plain_skipIgnored)
      (bg_of_plain plain_skipIgnored) (post_skipIgnored_keep .lCurly rfl) (fun _ => xc_selSetBody n ih) (fun _ => bg_selSetBody n ih)
  · have : (k == some Kind.lCurly) = false := by
      cases hb : (k == some Kind.lCurly) with
      | false => rfl
      | true => exact absurd (by simpa using hb) hk
    simp only [this, Bool.false_eq_true, if_false]
    exact xc_of_plain (plain_pure _)

theorem xSel : ∀ n, XSel n
  | 0 => ⟨by unfold selectionSet; exact xg_of_plain plain_outOfFuel, by unfold selection; exact xg_of_plain plain_outOfFuel,
          by unfold field; exact xg_of_plain plain_outOfFuel, by unfold inlineFragment; exact xg_of_plain plain_outOfFuel⟩
  | n + 1 => by
    have ih := xSel n
    refine ⟨xg_selectionSet_succ n ih.sel, ?_, ?_, ?_⟩
    · rw [selection_succ]
      refine xg_bind _ _ (xg_of_plain plain_srcLen) (fun len => xg_bind _ _ (xg_peekWhileFlagLoop _ (xg_selBody n ih) _ _) (fun b => ?_))
      exact xg_ite _ _ _ xg_err (xg_pure _)
    · rw [field_succ]; exact xg_withNode _ _ (xg_fieldBody n ih)
    · rw [inlineFragment_succ]; exact xg_withNode _ _ (xg_inlineBody n ih)

end Apollo.Parse
