import ApolloModel.Proofs.AstText5
/-
Text level, part 3 continued: tokens lex back; the main theorem `lex_segments`.
-/
namespace Apollo.Ast
open Apollo.Lex (advance lex Item Kind punctuationKind isNameStart isNameContinue lex_punctuator lex_name runD step)

/-- what may directly follow a token of a class in the text -/
def followChar (cls : Cls) (c : Char) : Bool :=
  match cls with
  | .word => !isNameContinue c
  | .num => !isNameContinue c && c != '.'
  | .str => c != '"'
  | _ => true

def FollowOk (cls : Cls) : Str → Prop
  | [] => True
  | c :: _ => followChar cls c = true

/-- the first character of a token text of a class -/
def headChar (cls : Cls) (c : Char) : Bool :=
  !isIgnoredChar c &&
  (match cls with
   | .word => isNameStart c
   | .num => Lex.isAsciiDigit c || c == '-'
   | .str => c == '"'
   | .spread => c == '.'
   | .other => !isNameContinue c && c != '.' && c != '"' && c != '-')

def HeadOk (cls : Cls) : Str → Prop
  | [] => False
  | c :: _ => headChar cls c = true

/-- the token text, on its own, lexes to the token, leaving whatever may follow it -/
def TokLexes (t : Tok) (text : Str) : Prop :=
  ∀ rest, FollowOk (clsTok t) rest → ∃ k d, advance (text ++ rest) = (.tok k d, rest) ∧ sigItem k d = some (some t)

def TokOk (t : Tok) (text : Str) : Prop := HeadOk (clsTok t) text ∧ TokLexes t text

/-- a GraphQL name: `[_A-Za-z][_0-9A-Za-z]*` -/
def wfName : Str → Bool
  | [] => false
  | c :: r => isNameStart c && r.all isNameContinue

theorem nameStart_facts (c : Char) (h : isNameStart c = true) : isIgnoredChar c = false := by
  cases hi : isIgnoredChar c with
  | false => rfl
  | true =>
    exfalso
    simp only [isIgnoredChar, Bool.or_eq_true, beq_iff_eq] at hi
    rcases hi with ((((hi | hi) | hi) | hi) | hi) | hi <;> subst hi <;> revert h <;> decide

/-- **names lex back** (maximal munch: what follows must not continue the name) -/
theorem tokOk_name (n : Str) (h : wfName n = true) : TokOk (.name n) n := by
  cases n with
  | nil => simp [wfName] at h
  | cons c r =>
    simp only [wfName, Bool.and_eq_true] at h
    obtain ⟨hc, hr⟩ := h
    refine ⟨by simp [HeadOk, headChar, clsTok, hc, nameStart_facts c hc], ?_⟩
    intro rest hf
    refine ⟨.name, c :: r, ?_, rfl⟩
    simp only [List.cons_append]
    rw [lex_name c (r ++ rest) hc]
    have hall : ∀ x ∈ r, isNameContinue x = true := by simpa using hr
    have h1 : (r ++ rest).takeWhile isNameContinue = r := by
      rw [List.takeWhile_append_of_pos hall]
      cases rest with
      | nil => simp
      | cons x xs =>
        have : isNameContinue x = false := by simpa [FollowOk, followChar, clsTok] using hf
        simp [List.takeWhile_cons, this]
    have h2 : (r ++ rest).dropWhile isNameContinue = rest := by
      rw [List.dropWhile_append_of_pos hall]
      cases rest with
      | nil => simp
      | cons x xs =>
        have : isNameContinue x = false := by simpa [FollowOk, followChar, clsTok] using hf
        simp [List.dropWhile_cons, this]
    rw [h1, h2]

theorem lex_spread (rest : Str) : advance ('.' :: '.' :: '.' :: rest) = (.tok .spread ['.', '.', '.'], rest) := by
  have h1 : step .start .eof false [] '.' = .goto .spread1 .spread false := rfl
  have h2 : step .spread1 .spread false ([] ++ ['.']) '.' = .goto .spread2 .spread false := rfl
  have h3 : step .spread2 .spread false ([] ++ ['.'] ++ ['.']) '.' = .incl (.tok .spread) := rfl
  unfold advance
  rw [runD, h1]; simp only []
  rw [runD, h2]; simp only []
  rw [runD, h3]
  simp [Lex.Out.mk]

def punctKind : P → Kind
  | .bang => .bang | .dollar => .dollar | .amp => .amp | .spread => .spread | .colon => .colon | .eq => .eq
  | .at => .at | .lParen => .lParen | .rParen => .rParen | .lBracket => .lBracket | .rBracket => .rBracket
  | .lCurly => .lCurly | .rCurly => .rCurly | .pipe => .pipe

theorem tokOk_punct_aux (k : P) (c : Char) (kd : Kind) (ht : tokText (.p k) = [c])
    (hk : punctuationKind c = some kd) (hs : sigItem kd [c] = some (some (.p k)))
    (hh : headChar (clsTok (.p k)) c = true) : TokOk (.p k) (tokText (.p k)) := by
  rw [ht]
  refine ⟨hh, ?_⟩
  intro rest _
  exact ⟨kd, [c], by simpa using lex_punctuator c kd rest hk, hs⟩

/-- **punctuators lex back**, whatever follows -/
theorem tokOk_punct : ∀ k : P, TokOk (.p k) (tokText (.p k))
  | .spread => by
    refine ⟨by simp [HeadOk, headChar, clsTok, tokText]; decide, ?_⟩
    intro rest _
    exact ⟨.spread, _, by simpa [tokText] using lex_spread rest, rfl⟩
  | .bang => tokOk_punct_aux _ '!' .bang rfl (by decide) rfl (by decide)
  | .dollar => tokOk_punct_aux _ '$' .dollar rfl (by decide) rfl (by decide)
  | .amp => tokOk_punct_aux _ '&' .amp rfl (by decide) rfl (by decide)
  | .colon => tokOk_punct_aux _ ':' .colon rfl (by decide) rfl (by decide)
  | .eq => tokOk_punct_aux _ '=' .eq rfl (by decide) rfl (by decide)
  | .at => tokOk_punct_aux _ '@' .at rfl (by decide) rfl (by decide)
  | .lParen => tokOk_punct_aux _ '(' .lParen rfl (by decide) rfl (by decide)
  | .rParen => tokOk_punct_aux _ ')' .rParen rfl (by decide) rfl (by decide)
  | .lBracket => tokOk_punct_aux _ '[' .lBracket rfl (by decide) rfl (by decide)
  | .rBracket => tokOk_punct_aux _ ']' .rBracket rfl (by decide) rfl (by decide)
  | .lCurly => tokOk_punct_aux _ '{' .lCurly rfl (by decide) rfl (by decide)
  | .rCurly => tokOk_punct_aux _ '}' .rCurly rfl (by decide) rfl (by decide)
  | .pipe => tokOk_punct_aux _ '|' .pipe rfl (by decide) rfl (by decide)

/-- numbers and string literals: the lexer lemmas are not available; kept as explicit hypotheses -/
def NumbersLex (segs : List Seg) : Prop :=
  ∀ t x, Seg.tok t x ∈ segs → clsTok t = .num → TokOk t x
def StringsLex (segs : List Seg) : Prop :=
  ∀ t x, Seg.tok t x ∈ segs → clsTok t = .str → TokOk t x

/-- every segment is what part 2 produces: ignored text, or a token text that lexes back -/
def SegsWf (segs : List Seg) : Prop :=
  ∀ g ∈ segs, match g with
    | .tok t x => TokOk t x
    | .ign s => strIgnored s = true

theorem follow_of_head (prev cls : Cls) (x : Str) (hc : conflict prev cls = false) (hx : HeadOk cls x) (r : Str) :
    FollowOk prev (x ++ r) := by
  cases x with
  | nil => exact hx.elim
  | cons c xs =>
    simp only [HeadOk, headChar, Bool.and_eq_true, Bool.not_eq_true'] at hx
    obtain ⟨_, hx⟩ := hx
    simp only [List.cons_append, FollowOk, followChar]
    cases prev <;> cases cls <;> simp_all [conflict]
    all_goals (try (subst hx; decide))
    all_goals (try (obtain ⟨⟨⟨h1, h2⟩, h3⟩, h4⟩ := hx; simp_all))
    all_goals (try (intro hq; subst hq; revert hx; decide))

theorem follow_of_ignored (prev : Cls) (c : Char) (r : Str) (h : isIgnoredChar c = true) : FollowOk prev (c :: r) := by
  simp only [FollowOk, followChar]
  simp only [isIgnoredChar, Bool.or_eq_true, beq_iff_eq] at h
  rcases h with ((((h | h) | h) | h) | h) | h <;> subst h <;> cases prev <;> decide

theorem follow_of_scan : ∀ (r : List Seg) (cls : Cls) (e : Option Cls), SegsWf r → segScan (some cls) r = some e →
    FollowOk cls (segsText r)
  | [], _, _, _, _ => by simp [segsText, FollowOk]
  | .ign s :: r', cls, e, hwf, h => by
    have hs : strIgnored s = true := hwf (.ign s) (List.mem_cons_self ..)
    cases s with
    | nil =>
      simp only [segScan, segSepStep, List.isEmpty_nil, if_true, Option.bind_some] at h
      simpa [segsText, Seg.text] using follow_of_scan r' cls e (fun g hg => hwf g (List.mem_cons_of_mem _ hg)) h
    | cons c cs =>
      have : isIgnoredChar c = true := by
        have := hs; simp only [strIgnored, List.all_cons, Bool.and_eq_true] at this; exact this.1
      simpa [segsText, Seg.text] using follow_of_ignored cls c (cs ++ segsText r') this
  | .tok t x :: r', cls, e, hwf, h => by
    have ht : TokOk t x := hwf (.tok t x) (List.mem_cons_self ..)
    simp only [segScan, segSepStep] at h
    split at h
    · simp at h
    · next hc =>
      have := follow_of_head cls (clsTok t) x (by simpa [conflictO] using hc) ht.1 (segsText r')
      simpa [segsText, Seg.text] using this

theorem headNotIgnored_of_head (cls : Cls) (x r : Str) (h : HeadOk cls x) : HeadNotIgnored (x ++ r) := by
  cases x with
  | nil => exact h.elim
  | cons c xs =>
    simp only [HeadOk, headChar, Bool.and_eq_true, Bool.not_eq_true'] at h
    exact h.1

/-- **Lexing a segmentation.**  If every ignored segment is ignored text, every token text lexes back on its
    own (`TokOk`), and no two tokens that would merge are adjacent (`segScan` succeeds), then the lexer model
    reads the concatenated text — after any ignored prefix `ws` — as exactly the tokens of the segments. -/
theorem lex_segments : ∀ (segs : List Seg) (ws : Str) (s e : Option Cls), SegsWf segs → strIgnored ws = true →
    segScan s segs = some e → sigToks (lex none (ws ++ segsText segs)) = some (segsToks segs)
  | [], ws, _, _, _, hws, _ => by
    have := skip_ignored ws.length ws [] (Nat.le_refl _) hws trivial
    simp only [segsText, List.flatMap_nil] at this ⊢
    rw [this, lex_nil]
    simp [sigToks, sigItem, segsToks]
  | .ign x :: r, ws, s, e, hwf, hws, h => by
    have hx : strIgnored x = true := hwf (.ign x) (List.mem_cons_self ..)
    have hws' : strIgnored (ws ++ x) = true := by simp_all [strIgnored]
    obtain ⟨s1, _, h1⟩ : ∃ s1, segSepStep s (.ign x) = some s1 ∧ segScan s1 r = some e := by
      simp only [segScan] at h
      cases hq : segSepStep s (.ign x) with
      | none => simp [hq] at h
      | some s1 => exact ⟨s1, rfl, by simpa [hq] using h⟩
    have := lex_segments r (ws ++ x) s1 e (fun g hg => hwf g (List.mem_cons_of_mem _ hg)) hws' h1
    simpa [segsText, Seg.text, segsToks, Seg.tok?, List.append_assoc, List.filterMap_cons] using this
  | .tok t x :: r, ws, s, e, hwf, hws, h => by
    have ht : TokOk t x := hwf (.tok t x) (List.mem_cons_self ..)
    have hr : SegsWf r := fun g hg => hwf g (List.mem_cons_of_mem _ hg)
    have h1 : segScan (some (clsTok t)) r = some e := by
      simp only [segScan, segSepStep] at h
      split at h
      · simp at h
      · simpa using h
    have hfollow := follow_of_scan r (clsTok t) e hr h1
    obtain ⟨k, d, hadv, hsig⟩ := ht.2 (segsText r) hfollow
    have htext : segsText (.tok t x :: r) = x ++ segsText r := by simp [segsText, Seg.text]
    rw [htext, skip_ignored ws.length ws (x ++ segsText r) (Nat.le_refl _) hws (headNotIgnored_of_head _ x _ ht.1)]
    have hne : x ++ segsText r ≠ [] := by
      cases x with
      | nil => exact ht.1.elim
      | cons c xs => simp
    obtain ⟨c, tl, hct⟩ : ∃ c tl, x ++ segsText r = c :: tl := by
      cases hq : x ++ segsText r with
      | nil => exact absurd hq hne
      | cons c tl => exact ⟨c, tl, rfl⟩
    rw [hct, lex_cons, ← hct, hadv]
    simp only [sigToks, hsig]
    have ih := lex_segments r [] (some (clsTok t)) e hr rfl h1
    simp only [List.nil_append] at ih
    rw [ih]
    simp [segsToks, Seg.tok?]

end Apollo.Ast
