import ApolloModel.Proofs.ParserTree16
/-
C08 growth (pipeline), part 17: selection.rs in the tree calculus — the flag loop, fragment spreads, type conditions.
-/
set_option linter.unusedSimpArgs false
set_option linter.unusedVariables false
namespace Apollo.Parse
open Apollo.Rowan hiding Str
open Apollo.Lex hiding Str
open Apollo.FromCst (OptArgs OptDirs DirsNode ArgsNode SelTree SelSetNode SelsTree OptSS AliasPre TcPre)

/-! ### well-formedness facts carried by the accepted arguments / directives -/

theorem argsOk_wf (c : Bool) : ∀ args : List (Ast.Str × Ast.Value), argsOk c args → Ast.wfArgs args = true
  | [], _ => rfl
  | a :: r, h => by
    simp only [Ast.wfArgs, Bool.and_eq_true]
    exact ⟨valueOk_wf c a.2 (h a List.mem_cons_self), argsOk_wf c r (fun b hb => h b (List.mem_cons_of_mem _ hb))⟩

theorem dirsOk_wf (c : Bool) : ∀ ds : List Ast.Directive, dirsOk c ds → Ast.wfDirs ds = true
  | [], _ => rfl
  | d :: r, h => by
    simp only [Ast.wfDirs, Bool.and_eq_true]
    exact ⟨argsOk_wf c d.args (h d List.mem_cons_self), dirsOk_wf c r (fun b hb => h b (List.mem_cons_of_mem _ hb))⟩

/-! ### `peek_while` with a captured flag -/

theorem tr_flagLoop {E : PState → Prop} (hE : Early E) (body : Kind → PI (Bool × Bool)) (Q : List Tok → List Elem → Prop)
    (hbody : ∀ k, Tr E (HeadK k) (body k)
      (fun r cs e => (r = (true, true) ∧ Q cs e) ∨ (r = (false, false) ∧ cs = [] ∧ e = []))) :
    ∀ fuel flag, Tr E (fun _ => True) (peekWhileFlagLoop body fuel flag)
      (fun res cs e => ∃ items : List (List Tok × List Elem), cs = (items.map (·.1)).flatten ∧ e = (items.map (·.2)).flatten ∧
        (∀ i ∈ items, Q i.1 i.2) ∧ res = (flag || !items.isEmpty)) := by
  intro fuel
  induction fuel with
  | zero => intro flag; exact ⟨good_outOfFuel, by intro s a s' _ _ _ _ _ h; simp [peekWhileFlagLoop, PI.outOfFuel] at h⟩
  | succ fuel ih =>
    intro flag
    refine ⟨good_peekWhileFlagLoop body (fun k => (hbody k).1) (fuel + 1) flag, ?_⟩
    intro s a s' w hi he hlq _ h hnd
    unfold peekWhileFlagLoop at h
    obtain ⟨ko, sP, hp, h2⟩ := bind_dec peek _ s s' a h
    obtain ⟨o, p', hko⟩ := peek_obs s sP ko w hp
    subst hko
    have heP : EofEnd sP := eofEnd_eat he p'.eat (by intro x hx; cases hx)
    have hiP := (run_inv_added peek s hi _ sP hp).1
    have hbP : sP.builder = s.builder := keeps_peek s _ sP hp
    cases o with
    | none =>
      exfalso
      simp only [Option.map_none] at h2
      rw [run_pure] at h2
      injection h2 with _ h2
      subst h2
      have hh := p'.head
      have : Toks s = [] := by
        cases ht : Toks s with
        | nil => rfl
        | cons a b => rw [ht] at hh; cases hh
      exact eofEnd_nonempty s he (fun d => hnd (p'.doom.mpr d)) this
    | some t =>
      simp only [Option.map_some] at h2
      have h3 := getCurrent_dec _ sP s' a h2
      obtain ⟨r, sB, hb, h4⟩ := bind_dec (body t.kind) _ sP s' a h3
      have aB := (hbody t.kind).1 sP r sB p'.w hb
      have hq : HeadK t.kind (Toks sP) := by unfold HeadK; rw [p'.toks, ← p'.head]; rfl
      have hiB := (run_inv_added (body t.kind) sP hiP r sB hb).1
      obtain ⟨cont, set⟩ := r
      simp only [] at h4
      cases cont with
      | false =>
        simp only [Bool.false_eq_true, if_false] at h4
        rw [run_pure] at h4
        injection h4 with h4a h4
        subst h4
        obtain ⟨c1, d1, t1, n1, e1, b1, r1⟩ := (hbody t.kind).2 sP _ sB p'.w hiP heP (hlq.of_eq p'.toks) hq hb hnd
        refine ⟨c1, d1, by rw [← p'.toks]; exact t1, n1, e1, by rw [b1, hbP], ?_⟩
        rcases r1 with (⟨hx, _⟩ | ⟨hx, hc, hd⟩) | ev
        · cases hx
        · left
          injection hx with _ hset
          refine ⟨[], by rw [hc]; rfl, by rw [hd]; rfl, (by intro i hi'; cases hi'), ?_⟩
          rw [← h4a, hset]; simp
        · exact Or.inr ev
      | true =>
        simp only [if_true] at h4
        have h5 := getCurrent_dec _ sB s' a h4
        by_cases hsame : (sP.current == sB.current) = true
        · simp only [hsame, if_true] at h5
          exact absurd h5 (stuck_not_ok _ _ _)
        · simp only [hsame, Bool.false_eq_true, if_false] at h5
          have hndB : ¬ Doomed sB := fun d => hnd ((good_peekWhileFlagLoop body (fun k => (hbody k).1) fuel _ sB a s' aB.w h5).doom d)
          obtain ⟨c1, d1, t1, n1, e1, b1, r1⟩ := (hbody t.kind).2 sP _ sB p'.w hiP heP (hlq.of_eq p'.toks) hq hb hndB
          obtain ⟨c2, d2, t2, n2, e2, b2, r2⟩ := (ih (flag || set)).2 sB a s' aB.w hiB e1
            (LQ.suffix (cs := c1) (by rw [← t1, p'.toks]; exact hlq)) trivial h5 hnd
          refine ⟨c1 ++ c2, d1 ++ d2, by rw [← p'.toks, t1, t2, List.append_assoc], noEof_append n1 n2, e2,
            by rw [b2, b1, hbP, List.append_assoc], ?_⟩
          rcases r1 with (⟨hx, hq1⟩ | ⟨hx, _⟩) | ev
          · rcases r2 with ⟨items, hc, hee, hall, hres⟩ | ev2
            · left
              refine ⟨(sig c1, sigE d1) :: items, by rw [sig_append, hc]; rfl, by rw [sigE_append, hee]; rfl, ?_, ?_⟩
              · intro i hi'
                rcases List.mem_cons.mp hi' with rfl | hi'
                · exact hq1
                · exact hall i hi'
              · injection hx with _ hset
                rw [hres, hset]; cases flag <;> simp
            · exact Or.inr ev2
          · cases hx
          · exact Or.inr (hE.carries sB s' c2 e1 hndB ev t2 n2)

/-- optional directives -/
theorem tr_optDirectives (n : Nat) (c : Bool) {α : Type} (rest : PI α) {R : α → List Tok → List Elem → Prop}
    (hr : Tr NoE (fun _ => True) rest R) {H : List Tok → Prop} :
    Tr NoE H (optKind .at (directives n c) rest)
      (fun a cs e => ∃ (ds : List Ast.Directive) (c1 c2 : List Tok) (td e2 : List Elem), cs = c1 ++ c2 ∧ e = td ++ e2 ∧ TokIs c1 (Ast.tDirectives ds) ∧
        dirsOk c ds ∧ OptDirs ds td ∧ R a c2 e2) := by
  refine (tr_optKind early_false .at (directives n c) rest _ R ((tr_directives n c).mono (fun q hq => by
    obtain ⟨t, hh, hk⟩ := hq; unfold HeadK; rw [hh]; simpa using hk) (fun _ _ _ h => h)) hr).mono (fun _ _ => trivial) ?_
  rintro a cs e ⟨c1, c2, e1, e2, rfl, rfl, h1, h2⟩
  rcases h1 with ⟨ds, ed, hd1, hd2, rfl, hd4⟩ | ⟨rfl, rfl⟩
  · exact ⟨ds, c1, c2, [ed], e2, rfl, rfl, hd1, hd2, Or.inr ⟨ed, rfl, hd4⟩, h2⟩
  · exact ⟨[], [], c2, [], e2, rfl, rfl, TokIs.nil, (by intro d hd; cases hd), Or.inl ⟨rfl, rfl⟩, h2⟩


/-- optional arguments, followed by `rest` -/
theorem tr_optArgsThen (n : Nat) (c : Bool) {α : Type} (rest : PI α) {R : α → List Tok → List Elem → Prop}
    (hr : Tr NoE (fun _ => True) rest R) {H : List Tok → Prop} :
    Tr NoE H (optKind .lParen (arguments n c) rest)
      (fun a cs e => ∃ (args : List (Ast.Str × Ast.Value)) (c1 c2 : List Tok) (ta e2 : List Elem), cs = c1 ++ c2 ∧ e = ta ++ e2 ∧
        TokIs c1 (Ast.tArguments args) ∧ argsOk c args ∧ OptArgs args ta ∧ R a c2 e2) := by
  refine (tr_optKind early_false .lParen (arguments n c) rest _ R ((tr_arguments n c).mono (fun q hq => by
    obtain ⟨t, hh, hk⟩ := hq; unfold HeadK; rw [hh]; simpa using hk) (fun _ _ _ h => h)) hr).mono (fun _ _ => trivial) ?_
  rintro a cs e ⟨c1, c2, e1, e2, rfl, rfl, h1, h2⟩
  rcases h1 with ⟨args, ea, _, ha1, ha2, rfl, ha4⟩ | ⟨rfl, rfl⟩
  · exact ⟨args, c1, c2, [ea], e2, rfl, rfl, ha1, ha2, Or.inr ⟨ea, rfl, ha4⟩, h2⟩
  · exact ⟨[], [], c2, [], e2, rfl, rfl, TokIs.nil, (by intro d hd; cases hd), Or.inl ⟨rfl, rfl⟩, h2⟩

/-- optional directives at the end of a node -/
theorem tr_optDirs (n : Nat) (c : Bool) {H : List Tok → Prop} :
    Tr NoE H (peek >>= fun k => if k == some Kind.at then directives n c else pure ())
      (fun _ cs e => ∃ (ds : List Ast.Directive), TokIs cs (Ast.tDirectives ds) ∧ dirsOk c ds ∧ OptDirs ds e) := by
  refine tr_ifKind .at _ _ _ ((tr_directives n c).mono (fun q hq => by
      obtain ⟨t, hh, hk⟩ := hq; unfold HeadK; rw [hh]; simpa using hk) ?_) ((tr_pure NoE _ ()).mono (fun _ h => h) ?_)
  · rintro _ cs e ⟨ds, ed, h1, h2, rfl, h4⟩
    exact ⟨ds, h1, h2, Or.inr ⟨ed, rfl, h4⟩⟩
  · rintro _ cs e ⟨_, rfl, rfl⟩
    exact ⟨[], TokIs.nil, (by intro d hd; cases hd), Or.inl ⟨rfl, rfl⟩⟩

/-! ### fragment names, spreads -/

theorem tr_fragmentName {H : List Tok → Prop} :
    Tr NoE H fragmentName (fun _ cs e => ∃ (t : Tok) (inner : List Elem), t.kind = .name ∧ isValidName t.data = true ∧
      t.data ≠ "on".toList ∧ cs = [t] ∧ e = [Elem.node "FRAGMENT_NAME" inner] ∧ sigE inner = [nameNode t.data]) := by
  unfold fragmentName
  refine (tr_withNodeAny (R := fun _ cs e => ∃ t : Tok, t.kind = .name ∧ isValidName t.data = true ∧ t.data ≠ "on".toList ∧
      cs = [t] ∧ e = [nameNode t.data]) early_false "FRAGMENT_NAME" ?_).mono (fun _ _ => trivial) ?_
  · apply tr_peekToken
    intro o
    cases o with
    | none => exact tr_err
    | some t =>
      simp only []
      refine tr_ite _ (fun _ => tr_err) (fun hon => tr_ite _ (fun hk => ?_) (fun _ => tr_err))
      have hk' : t.kind = .name := by simpa using hk
      refine (tr_nameAt (E := NoE) t).mono (fun _ h => h.2) ?_
      rintro _ cs e ⟨h1, h2, h3, h4⟩
      refine ⟨t, h1, h2, ?_, h3, h4⟩
      intro hd
      simp [hk', kw, hd] at hon
  · rintro _ cs e ⟨inner, rfl, t, h1, h2, h3, h4, h5⟩
    exact ⟨t, inner, h1, h2, h3, h4, rfl, h5⟩

/-- ONE selection: the tokens `tSel sel` and the tree `SelTree sel` -/
def SelR (cs : List Tok) (e : List Elem) : Prop :=
  ∃ (sel : Ast.Sel) (es : Elem), TokIs cs (Ast.tSel sel) ∧ Ast.wfSel sel = true ∧ e = [es] ∧ SelTree sel es

theorem tr_fragmentSpread (n : Nat) : Tr NoE (HeadK .spread) (fragmentSpread n) (fun _ => SelR) := by
  unfold fragmentSpread
  have hdirs := tr_optDirs n false (H := fun _ => True)
  have hname : Tr NoE (fun _ => True) (peek >>= fun k => if k == some Kind.name then
      (fragmentName >>= fun _ => (peek >>= fun k => if k == some Kind.at then directives n false else pure ())) else
      (err >>= fun _ => (peek >>= fun k => if k == some Kind.at then directives n false else pure ()))) _ :=
    tr_ifKind .name _ _ _ ((tr_bind early_false (tr_fragmentName (H := fun _ => True)) (fun _ => hdirs)).mono (fun _ _ => trivial) (fun _ _ _ h => h))
      (tr_never (acc_err' _ hdirs.1))
  have hb := tr_bind early_false (tr_bump (E := NoE) "SPREAD" (by decide) (fun t => t.kind = .spread)
    (by intro t h; rw [h]; exact ⟨rfl, by decide⟩)) (fun _ => hname)
  refine (tr_withNode early_false "FRAGMENT_SPREAD" (hsig_headK .spread rfl) (hb.mono (fun _ h => headP_of_headK h) (fun _ _ _ h => h))).mono
    (fun _ h => h) ?_
  rintro _ cs e ⟨inner, rfl, _, c1, c2, e1, e2, rfl, hin, ⟨t, hk, _, rfl, rfl⟩, _, c3, c4, e3, e4, rfl, rfl,
    ⟨t2, fin, hk2, hv2, hon, rfl, rfl, hfin⟩, ds, hd1, hd2, hd3⟩
  have h1 : TokIs [t] [Ast.Tok.p .spread] := TokIs.single t _ (by simp [astOfV, hk])
  have h2 : TokIs [t2] [Ast.Tok.name t2.data] := TokIs.single t2 _ (by simp [astOfV, hk2])
  refine ⟨.spread t2.data ds, _, ?_, ?_, rfl, SelTree.spread t2.data ds inner fin e4 t.data hv2 hd3 hfin (by rw [hin]; simp)⟩
  · have := h1.append (h2.append hd1)
    simpa [Ast.tSel] using this
  · simp only [Ast.wfSel, Bool.and_eq_true, bne_iff_ne, ne_eq, Ast.sOn]
    exact ⟨hon, dirsOk_wf false ds hd2⟩

end Apollo.Parse
