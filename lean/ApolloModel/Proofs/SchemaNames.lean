import ApolloModel.Spec.SchemaNames
namespace Apollo.SchemaNames
open Apollo.SchemaNames.Spec

theorem startsWith2_iff (cs : List Char) : startsWith2 cs = true ↔ Reserved cs := by
  unfold Reserved
  constructor
  · intro h
    unfold startsWith2 at h
    split at h
    · exact ⟨_, rfl⟩
    · cases h
  · rintro ⟨rest, rfl⟩; rfl

theorem mem_checkName (site site' : Site) (n : N) (cs : List Char) :
    (site', cs) ∈ checkName site n ↔ site' = site ∧ cs = n.chars ∧ n.builtIn = false ∧ Reserved n.chars := by
  unfold checkName
  by_cases h : (!n.builtIn && startsWith2 n.chars) = true
  · rw [if_pos h]
    simp only [Bool.and_eq_true, Bool.not_eq_true', startsWith2_iff] at h
    simp [h.1, h.2]
  · rw [if_neg h]
    simp only [Bool.and_eq_true, Bool.not_eq_true', startsWith2_iff, not_and] at h
    simp only [List.not_mem_nil, false_iff, not_and]
    intro _ _ hb; exact h hb

/-- **exactness of the walk**: a `ReservedName` diagnostic is pushed for exactly the names the document
    introduces outside the built-in file that start with two underscores -/
theorem reserved_diag_iff (s : SchemaNames) (site : Site) (cs : List Char) :
    (site, cs) ∈ reservedDiags s ↔ ∃ n, NamesOf s site n ∧ n.chars = cs ∧ n.builtIn = false ∧ Reserved cs := by
  constructor
  · intro h
    unfold reservedDiags at h
    rcases List.mem_append.mp h with h | h
    · obtain ⟨d, hd, h⟩ := List.mem_flatMap.mp h
      unfold dirDiags at h
      rcases List.mem_append.mp h with h | h
      · obtain ⟨rfl, rfl, hb, hr⟩ := (mem_checkName _ _ _ _).mp h
        exact ⟨d.name, .directive d hd, rfl, hb, hr⟩
      · obtain ⟨a, ha, h⟩ := List.mem_flatMap.mp h
        obtain ⟨rfl, rfl, hb, hr⟩ := (mem_checkName _ _ _ _).mp h
        exact ⟨a, .directiveArg d a hd ha, rfl, hb, hr⟩
    · obtain ⟨t, ht, h⟩ := List.mem_flatMap.mp h
      unfold typeDiags at h
      rcases List.mem_append.mp h with h | h
      · obtain ⟨rfl, rfl, hb, hr⟩ := (mem_checkName _ _ _ _).mp h
        exact ⟨t.name, .type t ht, rfl, hb, hr⟩
      · cases hm : t.members with
        | none => rw [hm] at h; simp [membersDiags] at h
        | fields fs =>
          rw [hm] at h
          obtain ⟨f, hf, h⟩ := List.mem_flatMap.mp h
          unfold fieldDiags at h
          rcases List.mem_append.mp h with h | h
          · obtain ⟨rfl, rfl, hb, hr⟩ := (mem_checkName _ _ _ _).mp h
            exact ⟨f.name, .field t fs f ht hm hf, rfl, hb, hr⟩
          · obtain ⟨a, ha, h⟩ := List.mem_flatMap.mp h
            obtain ⟨rfl, rfl, hb, hr⟩ := (mem_checkName _ _ _ _).mp h
            exact ⟨a, .fieldArg t fs f a ht hm hf ha, rfl, hb, hr⟩
        | values vs =>
          rw [hm] at h
          obtain ⟨v, hv, h⟩ := List.mem_flatMap.mp h
          obtain ⟨rfl, rfl, hb, hr⟩ := (mem_checkName _ _ _ _).mp h
          exact ⟨v, .enumValue t vs v ht hm hv, rfl, hb, hr⟩
        | inputFields fs =>
          rw [hm] at h
          obtain ⟨f, hf, h⟩ := List.mem_flatMap.mp h
          obtain ⟨rfl, rfl, hb, hr⟩ := (mem_checkName _ _ _ _).mp h
          exact ⟨f, .inputField t fs f ht hm hf, rfl, hb, hr⟩
  · rintro ⟨n, hn, rfl, hb, hr⟩
    unfold reservedDiags
    cases hn with
    | directive d hd =>
      exact List.mem_append_left _ (List.mem_flatMap.mpr ⟨d, hd, List.mem_append_left _ ((mem_checkName _ _ _ _).mpr ⟨rfl, rfl, hb, hr⟩)⟩)
    | directiveArg d a hd ha =>
      exact List.mem_append_left _ (List.mem_flatMap.mpr ⟨d, hd, List.mem_append_right _
        (List.mem_flatMap.mpr ⟨_, ha, (mem_checkName _ _ _ _).mpr ⟨rfl, rfl, hb, hr⟩⟩)⟩)
    | type t ht =>
      exact List.mem_append_right _ (List.mem_flatMap.mpr ⟨t, ht, List.mem_append_left _ ((mem_checkName _ _ _ _).mpr ⟨rfl, rfl, hb, hr⟩)⟩)
    | field t fs f ht hm hf =>
      refine List.mem_append_right _ (List.mem_flatMap.mpr ⟨t, ht, List.mem_append_right _ ?_⟩)
      rw [hm]
      exact List.mem_flatMap.mpr ⟨f, hf, List.mem_append_left _ ((mem_checkName _ _ _ _).mpr ⟨rfl, rfl, hb, hr⟩)⟩
    | fieldArg t fs f a ht hm hf ha =>
      refine List.mem_append_right _ (List.mem_flatMap.mpr ⟨t, ht, List.mem_append_right _ ?_⟩)
      rw [hm]
      exact List.mem_flatMap.mpr ⟨f, hf, List.mem_append_right _
        (List.mem_flatMap.mpr ⟨_, ha, (mem_checkName _ _ _ _).mpr ⟨rfl, rfl, hb, hr⟩⟩)⟩
    | enumValue t vs v ht hm hv =>
      refine List.mem_append_right _ (List.mem_flatMap.mpr ⟨t, ht, List.mem_append_right _ ?_⟩)
      rw [hm]
      exact List.mem_flatMap.mpr ⟨_, hv, (mem_checkName _ _ _ _).mpr ⟨rfl, rfl, hb, hr⟩⟩
    | inputField t fs f ht hm hf =>
      refine List.mem_append_right _ (List.mem_flatMap.mpr ⟨t, ht, List.mem_append_right _ ?_⟩)
      rw [hm]
      exact List.mem_flatMap.mpr ⟨_, hf, (mem_checkName _ _ _ _).mpr ⟨rfl, rfl, hb, hr⟩⟩

/-- **reserved names**: `validate_schema` pushes no `ReservedName` diagnostic iff no name the document
    introduces (type, directive, field, argument, enum value, input field) starts with two underscores -/
theorem reserved_rule_iff_spec (s : SchemaNames) : reservedDiags s = [] ↔ NoReservedNames s := by
  unfold NoReservedNames
  constructor
  · intro h site n hn hb hr
    have := (reserved_diag_iff s site n.chars).mpr ⟨n, hn, rfl, hb, hr⟩
    rw [h] at this; cases this
  · intro h
    cases hl : reservedDiags s with
    | nil => rfl
    | cons p r =>
      exfalso
      have hm : (p.1, p.2) ∈ reservedDiags s := by rw [hl]; simp
      obtain ⟨n, hn, hc, hb, hr⟩ := (reserved_diag_iff s p.1 p.2).mp hm
      exact h p.1 n hn hb (hc ▸ hr)

end Apollo.SchemaNames
