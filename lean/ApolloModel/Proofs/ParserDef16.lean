import ApolloModel.Proofs.ParserDef15
/-
C05 growth (type-system definitions), part 16: definitions entered the way the dispatcher enters them — on the
keyword token, or on a description whose next significant token is the keyword: the keyword IS consumed.
-/
set_option linter.unusedSimpArgs false
namespace Apollo.Parse
open Apollo.Rowan hiding Str
open Apollo.Lex hiding Str

/-- `bind` with a custom fact about the queue after the first part -/
theorem acc_bind_transfer {α β : Type} {E : PState → Prop} (hE : Early E) {H H2 : List Tok → Prop} {m : PI α} {f : α → PI β}
    {R1 : α → List Ast.Tok → Prop} {R2 : α → β → List Ast.Tok → Prop}
    (h1 : Acc E H m R1)
    (htr : ∀ s a s', TW s → H (Toks s) → m.run s = .ok a s' → H2 (Toks s'))
    (h2 : ∀ a, Acc E H2 (f a) (R2 a)) :
    Acc E H (m >>= f) (fun b x => ∃ a x1 x2, x = x1 ++ x2 ∧ R1 a x1 ∧ R2 a b x2) := by
  refine ⟨good_bind _ _ h1.1 (fun a => (h2 a).1), ?_⟩
  intro s b s'' w he hq hr hnd
  obtain ⟨a, s', hr1, hr2⟩ := bind_dec m f s s'' b hr
  have ad := h1.1 s a s' w hr1
  have hnd' : ¬ Doomed s' := fun d => hnd (((h2 a).1 s' b s'' ad.w hr2).doom d)
  obtain ⟨c1, t1, n1, e1, r1⟩ := h1.2 s a s' w he hq hr1 hnd'
  obtain ⟨c2, t2, n2, e2, r2⟩ := (h2 a).2 s' b s'' ad.w e1 (htr s a s' w hq hr1) hr2 hnd
  refine ⟨c1 ++ c2, by rw [t1, t2, List.append_assoc], noEof_append n1 n2, e2, ?_⟩
  rcases r1 with ⟨x1, hx1, hr1'⟩ | ev
  · rcases r2 with ⟨x2, hx2, hr2'⟩ | ev2
    · refine Or.inl ⟨x1 ++ x2, ?_, a, x1, x2, rfl, hr1', hr2'⟩
      rw [sig_append]; exact hx1.append hx2
    · exact Or.inr ev2
  · exact Or.inr (hE.carries s' s'' c2 e1 hnd' ev t2 n2)

theorem settled_obsEq {s s' : PState} (o : ObsEq s s') (h : Settled s) : Settled s' :=
  ⟨by rw [o.current, o.toks]; exact h.1, fun t' ht' => h.2 t' (by rw [← o.current]; exact ht')⟩

/-- `description` consumes the head token and what is ignored after it, and leaves a significant token in front -/
theorem description_spec (s s' : PState) (w : TW s) (t : Tok) (rest : List Tok) (ht : Toks s = t :: rest)
    (hni : isIgnoredKind t.kind = false) (h : description.run s = .ok () s') :
    ∃ ign, Eat s s' (t :: ign) ∧ (∀ x ∈ ign, isIgnoredKind x.kind = true) ∧ Settled s' := by
  unfold description at h
  obtain ⟨s1, s2, e1, h1, o2⟩ := withNode_peeked _ _ s s' () t rest w ht hni h
  have ht1 : Toks s1 = t :: rest := by have := e1.toks; rw [ht] at this; simpa using this.symm
  obtain ⟨s3, s4, e3, h3, o4⟩ := withNode_peeked _ _ s1 s2 () t rest e1.w ht1 hni h1
  have ht3 : Toks s3 = t :: rest := by have := e3.toks; rw [ht1] at this; simpa using this.symm
  obtain ⟨ign, e, hall, set⟩ := bump_spec _ s3 s4 e3.w t rest ht3 h3
  have e4 : Eat s3 s2 (t :: ign) := by simpa using e.trans (Eat.ofObsEq o4 e.w)
  have e13 : Eat s1 s2 (t :: ign) := by simpa using e3.trans e4
  have e2 : Eat s1 s' (t :: ign) := by simpa using e13.trans (Eat.ofObsEq o2 e13.w)
  exact ⟨ign, by simpa using e1.trans e2, hall, settled_obsEq o2 (settled_obsEq o4 set)⟩

/-- the keyword is there: it is consumed -/
theorem accL_optKw_there {α : Type} {E : PState → Prop} (hE : Early E) (word : String) (hw : KwWord word) (sk : SK)
    (rest : PI α) (R : α → List Ast.Tok → Prop) (hr : Acc E LexQ rest R) :
    Acc E (fun q => LexQ q ∧ HeadData word q) (optKw word sk rest) (fun a x => ∃ x2, x = .name word.toList :: x2 ∧ R a x2) := by
  unfold optKw
  apply acc_peekData
  intro o
  apply acc_ite
  · intro _
    have hb : Acc E (fun q => (LexQ q ∧ HeadData word q) ∧ q.head? = o) (bump sk) (fun _ x => x = [.name word.toList]) :=
      (accL_bumpKw word hw sk).mono (fun q hq => hq.1) (fun _ _ h => h)
    have := accL_bind hE (fun _ h => h.1.1) hb (fun _ => hr)
    exact this.mono (fun _ h => h) (fun a x ⟨_, x1, x2, e, h1, h2⟩ => ⟨x2, by rw [e, h1]; rfl, h2⟩)
  · intro hk
    refine acc_absurd hr.1 ?_
    rintro q ⟨⟨_, t, hh, hd⟩, h2⟩
    rw [hh] at h2
    subst h2
    simp [kwOpt, hd] at hk

/-- a description, and the next significant token reads `word` -/
def Desc2 (word : String) (q : List Tok) : Prop :=
  ∃ t rest t2, q = t :: rest ∧ t.kind = .stringValue ∧ (sig rest).head? = some t2 ∧ t2.data = word.toList

/-- how the dispatcher enters a definition -/
def DefStart (word : String) (q : List Tok) : Prop := HeadData word q ∨ Desc2 word q

theorem accL_defEntered (K : SK) (word : String) (hw : KwWord word) (sk : SK) (tail : PI Unit) (L : List Ast.Tok → Prop)
    (ht : Acc E0 LexQ tail (fun _ => L)) :
    Acc E0 (fun q => LexQ q ∧ DefStart word q) (withNode K (optKind .stringValue description (optKw word sk tail)))
      (fun _ x => ∃ desc x2, x = Ast.tDescription desc ++ .name word.toList :: x2 ∧ L x2) := by
  have hkw := accL_optKw_there early_false word hw sk tail _ ht
  have hname : ∀ q t, LexQ q → q.head? = some t → t.data = word.toList → t.kind = .name := by
    intro q t hl hh hd
    obtain ⟨c, r, hc1, hc2⟩ := hw
    exact hl.headKw hh word c r hc1 hc2 hd
  refine acc_withNode early_false _ ?_ ?_
  · rintro q ⟨hl, hs⟩
    rcases hs with hs | ⟨t, rest, t2, hq, hk, _, _⟩
    · exact kwWord_sig hw q ⟨hl, hs⟩
    · exact ⟨t, rest, hq, by rw [hk]; rfl⟩
  unfold optKind
  apply acc_peek
  intro k
  apply acc_ite
  · intro hk
    have hk' : k = some Kind.stringValue := by simpa using hk
    -- the head is a string: the description case
    have hd : Acc E0 (fun q => (LexQ q ∧ DefStart word q) ∧ q.head?.map (·.kind) = k) description
        (fun _ x => ∃ d, x = Ast.tDescription (some d)) :=
      (acc_description early_false).mono (fun q hq => kindP_of_head hq.2 hk) (fun _ _ h => h)
    refine (acc_bind_transfer early_false (H2 := fun q => LexQ q ∧ HeadData word q) hd ?_ (fun _ => hkw)).mono (fun _ h => h) ?_
    · rintro s _ s1 w ⟨⟨hl, hs⟩, hkind⟩ hrun
      rcases hs with ⟨t, hh, hd'⟩ | ⟨t, rest, t2, hq, hkt, hh2, hd2⟩
      · exfalso
        have := hname _ t hl hh hd'
        rw [hh, hk'] at hkind
        simp [this] at hkind
      · obtain ⟨ign, e1, hall, set1⟩ := description_spec s s1 w t rest hq (by rw [hkt]; rfl) hrun
        have hrest : rest = ign ++ Toks s1 := by
          have := e1.toks; rw [hq] at this; simpa using this
        refine ⟨by have := hl; rw [e1.toks] at this; exact this.suffix, t2, ?_, hd2⟩
        rw [hrest, sig_append, sig_ignored ign hall] at hh2
        simp only [List.nil_append] at hh2
        cases hq1 : Toks s1 with
        | nil => rw [hq1] at hh2; cases hh2
        | cons a b =>
          have hsa : isIgnoredKind a.kind = false := set1.2 a (by rw [set1.1, hq1]; rfl)
          have hab : a :: b = [a] ++ b := rfl
          rw [hq1, hab, sig_append, sig_single a hsa] at hh2
          simpa using hh2
    · rintro _ x ⟨_, x1, x2, e, ⟨d, h1⟩, x3, e3, h3⟩
      exact ⟨some d, x3, by rw [e, h1, e3], h3⟩
  · intro hk
    refine hkw.mono ?_ (fun _ x ⟨x2, e, h2⟩ => ⟨none, x2, by rw [e]; rfl, h2⟩)
    rintro q ⟨⟨hl, hs⟩, hkind⟩
    rcases hs with hs | ⟨t, rest, t2, hq, hkt, _, _⟩
    · exact ⟨hl, hs⟩
    · exfalso
      rw [hq] at hkind
      simp only [List.head?_cons, Option.map_some] at hkind
      rw [← hkind, hkt] at hk
      simp at hk

/-- the six definitions of the shape `Description? keyword Name tail` -/
theorem accL_defShapeEntered (K : SK) (word : String) (hw : KwWord word) (sk : SK) (n : Nat) (tail : PI Unit) (L : List Ast.Tok → Prop)
    (ht : Acc E0 LexQ tail (fun _ => L)) :
    Acc E0 (fun q => LexQ q ∧ DefStart word q) (withNode K (defShape word sk n tail))
      (fun _ x => ∃ desc nm x2, x = Ast.tDescription desc ++ kwPart word true ++ .name nm :: x2 ∧ L x2) := by
  have h1 : Acc E0 LexQ (nameOrErr >>= fun _ => tail) (fun _ x => ∃ nm x2, x = .name nm :: x2 ∧ L x2) := by
    refine (accL_bind early_false (fun _ h => h) acc_nameOrErr (fun _ => ht)).mono (fun _ h => h) ?_
    rintro _ x ⟨_, x1, x2, e, ⟨nm, h1⟩, h2⟩
    exact ⟨nm, x2, by rw [e, h1]; rfl, h2⟩
  unfold defShape
  refine (accL_defEntered K word hw sk _ _ h1).mono (fun _ h => h) ?_
  rintro _ x ⟨desc, x2, e, nm, x3, e3, h3⟩
  exact ⟨desc, nm, x3, by rw [e, e3]; simp [kwPart], h3⟩

theorem ent_scalar (n : Nat) : Acc E0 (fun q => LexQ q ∧ DefStart "scalar" q) (scalarTypeDefinition n)
    (fun _ x => ∃ desc nm ds, x = scalarToks desc true nm ds) := by
  rw [scalarTypeDefinition_eq]
  refine (accL_defShapeEntered _ "scalar" kwWord_scalar _ n _ _ ((acc_optDirsEnd (E := E0) (H := LexQ) n))).mono (fun _ h => h) ?_
  rintro _ x ⟨desc, nm, x2, e, ds, h2⟩
  exact ⟨desc, nm, ds, by rw [e, h2]; rfl⟩

theorem ent_enum (n : Nat) : Acc E0 (fun q => LexQ q ∧ DefStart "enum" q) (enumTypeDefinition n)
    (fun _ x => ∃ desc nm ds vs, x = enumToks desc true nm ds vs) := by
  rw [enumTypeDefinition_eq']
  refine (accL_defShapeEntered _ "enum" kwWord_enum _ n _ _ (accL_dirsBody n .lCurly _ _ (acc_enumValuesDefinition n))).mono (fun _ h => h) ?_
  rintro _ x ⟨desc, nm, x2, e, ds, x3, e3, h3⟩
  rcases h3 with ⟨vs, _, h3⟩ | h3
  · exact ⟨desc, nm, ds, vs, by rw [e, e3, h3]; simp [enumToks, Ast.tEnumBody]⟩
  · exact ⟨desc, nm, ds, [], by rw [e, e3, h3]; simp [enumToks, Ast.tEnumBody, Ast.tBraced, Ast.tEnumValueDefItems]⟩

theorem ent_input (n : Nat) : Acc E0 (fun q => LexQ q ∧ DefStart "input" q) (inputObjectTypeDefinition n)
    (fun _ x => ∃ desc nm ds fs, x = inputToks desc true nm ds fs) := by
  rw [inputObjectTypeDefinition_eq']
  refine (accL_defShapeEntered _ "input" kwWord_input _ n _ _ (accL_dirsBody n .lCurly _ _ (acc_inputFieldsDefinition n))).mono (fun _ h => h) ?_
  rintro _ x ⟨desc, nm, x2, e, ds, x3, e3, h3⟩
  rcases h3 with ⟨vs, _, h3⟩ | h3
  · exact ⟨desc, nm, ds, vs, by rw [e, e3, h3]; simp [inputToks, Ast.tInputBody]⟩
  · exact ⟨desc, nm, ds, [], by rw [e, e3, h3]; simp [inputToks, Ast.tInputBody, Ast.tBraced, Ast.tIVDItems]⟩

theorem ent_union (n : Nat) : Acc E0 (fun q => LexQ q ∧ DefStart "union" q) (unionTypeDefinition n)
    (fun _ x => ∃ desc nm ds ms, x = unionToks desc true nm ds ms) := by
  rw [unionTypeDefinition_eq]
  refine (accL_defShapeEntered _ "union" kwWord_union _ n _ _ (accL_dirsBody n .eq _ _ (acc_unionMemberTypes early_false))).mono (fun _ h => h) ?_
  rintro _ x ⟨desc, nm, x2, e, ds, x3, e3, h3⟩
  rcases h3 with ⟨lead, first, rest, h3⟩ | h3
  · exact ⟨desc, nm, ds, some (lead, first, rest), by rw [e, e3, h3]; simp [unionToks, tSepOpt]⟩
  · exact ⟨desc, nm, ds, none, by rw [e, e3, h3]; simp [unionToks, tSepOpt]⟩

theorem ent_object (n : Nat) : Acc E0 (fun q => LexQ q ∧ DefStart "type" q) (objectTypeDefinition n)
    (fun _ x => ∃ desc nm impl ds fs, x = Ast.tDescription desc ++ kwPart "type" true ++ objectLikeToks nm impl ds fs) := by
  rw [objectTypeDefinition_eq]
  refine (accL_defShapeEntered _ "type" kwWord_type _ n _ _ (accL_optImplTok _ _ (accL_fieldsTail n))).mono (fun _ h => h) ?_
  rintro _ x ⟨desc, nm, x2, e, impl, x3, e3, ds, fs, h3⟩
  exact ⟨desc, nm, impl, ds, fs, by rw [e, e3, h3]; simp [objectLikeToks]⟩

theorem ent_interface (n : Nat) : Acc E0 (fun q => LexQ q ∧ DefStart "interface" q) (interfaceTypeDefinition n)
    (fun _ x => ∃ desc nm impl ds fs, x = Ast.tDescription desc ++ kwPart "interface" true ++ objectLikeToks nm impl ds fs) := by
  rw [interfaceTypeDefinition_eq]
  refine (accL_defShapeEntered _ "interface" kwWord_interface _ n _ _
    (accL_optImplData _ _ _ (accL_fieldsTail n) (accL_fieldsTail n))).mono (fun _ h => h) ?_
  rintro _ x ⟨desc, nm, x2, e, impl, x3, e3, ds, fs, h3⟩
  exact ⟨desc, nm, impl, ds, fs, by rw [e, e3, h3]; simp [objectLikeToks]⟩

theorem ent_directive (n : Nat) : Acc E0 (fun q => LexQ q ∧ DefStart "directive" q) (directiveDefinition n)
    (fun _ x => ∃ desc nm args rep lead first rest, x = directiveToks desc true nm args rep lead first rest
      ∧ IsDirLoc first ∧ ∀ r ∈ rest, IsDirLoc r) := by
  rw [directiveDefinition_eq]
  refine (accL_defEntered _ "directive" kwWord_directive _ _ _ (accL_dAt n)).mono (fun _ h => h) ?_
  rintro _ x ⟨desc, x2, e, nm, args, rep, x4, e4, lead, first, rest, h4, hf, hr⟩
  exact ⟨desc, nm, args, rep, lead, first, rest, by rw [e, e4, h4]; simp only [directiveToks, kwPart, if_true, List.append_assoc, List.cons_append, List.nil_append], hf, hr⟩

theorem ent_schema (n : Nat) : Acc E0 (fun q => LexQ q ∧ DefStart "schema" q) (schemaDefinition n)
    (fun _ x => ∃ desc ds roots, roots ≠ [] ∧ x = schemaToks desc true ds roots) := by
  rw [schemaDefinition_eq]
  refine (accL_defEntered _ "schema" kwWord_schema _ _ _ (accL_schemaTail n)).mono (fun _ h => h) ?_
  rintro _ x ⟨desc, x2, e, ds, roots, hne, h4⟩
  exact ⟨desc, ds, roots, hne, by rw [e, h4]; simp only [schemaToks, kwPart, if_true, List.append_assoc, List.cons_append, List.nil_append]⟩

end Apollo.Parse
