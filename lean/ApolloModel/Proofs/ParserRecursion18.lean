import ApolloModel.Proofs.ParserRecursion17
/-
C04 growth (recursion limit across runs), part 18: a run that never hits its recursion limit (and has no
token limit) records no limit error.  `limit_err` is only reached when `check_and_increment` fails, and then
the high-water mark exceeds the limit.
-/
set_option linter.unusedSimpArgs false
set_option linter.unusedVariables false
namespace Apollo.Parse
open Apollo.Rowan hiding Str
open Apollo.Lex hiding Str

/-- no new limit error unless the high-water mark went beyond the limit -/
def NL {α : Type} (m : PI α) : Prop :=
  ∀ s a s', GI s → s.recCur ≤ s.recLimit → m.run s = .ok a s' → s'.recHigh ≤ s.recLimit →
    HasLim s'.errors → HasLim s.errors

structure NG {α : Type} (m : PI α) : Prop where
  b : BG m
  n : NL m

/-- `Plain` and adding no limit error at all -/
structure PlainQ {α : Type} (m : PI α) : Prop where
  p : Plain m
  q : ∀ s a s', GI s → m.run s = .ok a s' → HasLim s'.errors → HasLim s.errors

theorem ng_of_plainQ {α : Type} {m : PI α} (h : PlainQ m) : NG m :=
  ⟨bg_of_plain h.p, fun s a s' g _ hr _ hl => h.q s a s' g hr hl⟩

theorem plainQ_pure {α : Type} (a : α) : PlainQ (pure a : PI α) :=
  ⟨plain_pure a, fun s a' s' _ h hl => by rw [run_pure] at h; injection h with _ h; subst h; exact hl⟩

theorem ng_pure {α : Type} (a : α) : NG (pure a : PI α) := ng_of_plainQ (plainQ_pure a)

theorem ng_bind {α β : Type} (m : PI α) (f : α → PI β) (hm : NG m) (hf : ∀ a, NG (f a)) : NG (m >>= f) := by
  refine ⟨bg_bind _ _ hm.b (fun a => (hf a).b), ?_⟩
  intro s b s'' g hc h hhi hl
  obtain ⟨a, s', h1, h2⟩ := bind_dec m f s s'' b h
  have b1 := hm.b s a s' hc h1
  have hc1 : s'.recCur ≤ s'.recLimit := by rw [b1.recCur, b1.recLimit]; exact hc
  have b2 := (hf a).b s' b s'' hc1 h2
  have hl1 := (hf a).n s' b s'' (b1.gi g) hc1 h2 (by rw [b1.recLimit]; exact hhi) hl
  exact hm.n s a s' g hc h1 (Nat.le_trans b2.lo hhi) hl1

theorem ng_ite {α : Type} (c : Bool) (a b : PI α) (ha : NG a) (hb : NG b) : NG (if c then a else b) := by
  cases c <;> simp [ha, hb]

theorem ng_withNode {α : Type} (kind : SK) (body : PI α) (hs : NG skipIgnored) (hb : NG body) : NG (withNode kind body) := by
  have hin := ng_bind _ _ hs (fun _ => hb)
  refine ⟨bg_withNode _ _ hb.b, ?_⟩
  intro s a s' g hc h hhi hl
  rw [withNode_run] at h
  cases hr : (skipIgnored >>= fun _ => body).run (wnPre kind s) with
  | abort w => rw [hr] at h; cases h
  | panic m => rw [hr] at h; cases h
  | ok a2 s2 =>
    rw [hr] at h
    simp only [] at h
    cases hf : s2.builder.finishNode with
    | none => rw [hf] at h; cases h
    | some b =>
      rw [hf] at h
      injection h with h1 h2
      subst h1 h2
      exact hin.n (wnPre kind s) a2 s2 ⟨g.lim, g.acc, g.nf⟩ hc hr hhi hl

theorem ng_withRec {α : Type} (onLimit body : PI α) (hl : Plain onLimit) (hb : NG body) : NG (withRec onLimit body) := by
  refine ⟨bg_withRec _ _ hl hb.b, ?_⟩
  intro s a s' g hc h hhi hlim
  rcases withRec_decH onLimit body s s' a h with ⟨hover, hrun⟩ | ⟨hunder, s2, hrun, hs'⟩
  · exfalso
    have o := hl.out _ a s' hrun
    have : s'.recHigh = max s.recHigh (s.recCur + 1) := o.recHigh
    omega
  · subst hs'
    exact hb.n { s with recCur := s.recCur + 1, recHigh := max s.recHigh (s.recCur + 1) } a s2 ⟨g.lim, g.acc, g.nf⟩ (by simpa using hunder) hrun hhi hlim

theorem ng_wrapIf {α : Type} (kind : SK) (body : PI α) (cond : α → PI Bool) (inner : PI Unit)
    (hb : NG body) (hc : ∀ a, NG (cond a)) (hi : NG inner) : NG (wrapIf kind body cond inner) := by
  refine ⟨bg_wrapIf _ _ _ _ hb.b (fun a => (hc a).b) hi.b, ?_⟩
  intro s a s' g hcur h hhi hl
  obtain ⟨s1, s2, s3, c, o1, h1, h2, hrest⟩ := wrapIf_decS kind body cond inner s s' a h
  have gs : ∀ {x y : PState}, Same x y → GI x → GI y := fun {x y} o gx =>
    ⟨by rw [o.lx]; exact gx.lim, by rw [o.accept, o.errors]; exact gx.acc, by rw [o.lx, o.current]; exact gx.nf⟩
  have g1 := gs o1 g
  have hc1 : s1.recCur ≤ s1.recLimit := by rw [o1.recCur, o1.recLimit]; exact hcur
  have b2 := hb.b s1 a s2 hc1 h1
  have hc2 : s2.recCur ≤ s2.recLimit := by rw [b2.recCur, b2.recLimit]; exact hc1
  have b3 := (hc a).b s2 c s3 hc2 h2
  have hc3 : s3.recCur ≤ s3.recLimit := by rw [b3.recCur, b3.recLimit]; exact hc2
  have hlim1 : s1.recLimit = s.recLimit := o1.recLimit
  have hlim2 : s2.recLimit = s.recLimit := by rw [b2.recLimit, hlim1]
  have hlim3 : s3.recLimit = s.recLimit := by rw [b3.recLimit, hlim2]
  -- from a limit error in `s3` back to `s`
  have back3 : s3.recHigh ≤ s.recLimit → HasLim s3.errors → HasLim s.errors := by
    intro hh3 hl3
    have hl2 := (hc a).n s2 c s3 (b2.gi g1) hc2 h2 (by rw [hlim2]; exact hh3) hl3
    have hl1 := hb.n s1 a s2 g1 hc1 h1 (by rw [hlim1]; exact Nat.le_trans b3.lo hh3) hl2
    rw [o1.errors] at hl1
    exact hl1
  rcases hrest with ⟨_, rfl⟩ | ⟨_, s4, s5, o4, h5, o5⟩
  · exact back3 hhi hl
  · have g3 := b3.gi (b2.gi g1)
    have g4 := gs o4 g3
    have hc4 : s4.recCur ≤ s4.recLimit := by rw [o4.recCur, o4.recLimit]; exact hc3
    have b5 := hi.b s4 () s5 hc4 h5
    have hh5 : s5.recHigh ≤ s.recLimit := by rw [← o5.recHigh]; exact hhi
    have hl5 : HasLim s5.errors := by rw [← o5.errors]; exact hl
    have hl4 := hi.n s4 () s5 g4 hc4 h5 (by rw [o4.recLimit, hlim3]; exact hh5) hl5
    rw [o4.errors] at hl4
    exact back3 (by rw [← o4.recHigh]; exact Nat.le_trans b5.lo hh5) hl4

/-! ### primitives -/

theorem plainQ_outOfFuel {α : Type} : PlainQ (PI.outOfFuel : PI α) :=
  ⟨plain_outOfFuel, fun s a s' _ h => by simp [PI.outOfFuel] at h⟩
theorem plainQ_stuck {α : Type} : PlainQ (PI.stuck : PI α) :=
  ⟨plain_stuck, fun s a s' _ h => by simp [PI.stuck] at h⟩

theorem plainQ_peekToken : PlainQ peekToken := by
  refine ⟨plain_peekToken, ?_⟩
  intro s o s' g h hl
  unfold peekToken at h
  simp only [] at h
  cases hc : s.current with
  | some t => simp only [hc, Res.ok.injEq] at h; obtain ⟨_, rfl⟩ := h; exact hl
  | none =>
    simp only [hc, Res.ok.injEq] at h
    obtain ⟨_, rfl⟩ := h
    exact (nextTokenRaw_q (s.lx.src.length + 3) s g.lim).lim.mp hl

theorem plainQ_same {α : Type} {m : PI α} (hp : Plain m) (he : ∀ s a s', m.run s = .ok a s' → s'.errors = s.errors) : PlainQ m :=
  ⟨hp, fun s a s' _ h hl => by rw [he s a s' h] at hl; exact hl⟩

theorem plainQ_moveCurToPending : PlainQ moveCurToPending := by
  refine plainQ_same plain_moveCurToPending ?_
  intro s b s' h
  unfold moveCurToPending at h
  simp only [] at h
  cases hc : s.current with
  | none => simp only [hc] at h; injection h with _ h; subst h; rfl
  | some t => simp only [hc] at h; split at h <;> (injection h with _ h; subst h; rfl)

theorem plainQ_srcLen : PlainQ srcLen :=
  plainQ_same plain_srcLen (fun s a s' h => by unfold srcLen at h; simp only [] at h; injection h with _ h; subst h; rfl)

theorem plainQ_getCurrent : PlainQ getCurrent :=
  plainQ_same plain_getCurrent (fun s a s' h => by unfold getCurrent at h; simp only [] at h; injection h with _ h; subst h; rfl)

theorem plainQ_pushIgnored : PlainQ pushIgnored :=
  plainQ_same plain_pushIgnored (fun s a s' h => by unfold pushIgnored at h; simp only [] at h; injection h with _ h; subst h; rfl)

theorem plainQ_moveCurToTree (kind : SK) : PlainQ (moveCurToTree kind) := by
  refine plainQ_same (plain_moveCurToTree kind) ?_
  intro s a s' h
  unfold moveCurToTree at h
  simp only [] at h
  cases hc : s.current with
  | none => simp only [hc] at h; injection h with _ h; subst h; rfl
  | some t => simp only [hc] at h; injection h with _ h; subst h; rfl

theorem plainQ_popDrop : PlainQ popDrop := by
  refine plainQ_same plain_popDrop ?_
  intro s a s' h
  unfold popDrop at h
  simp only [] at h
  cases hc : s.current with
  | none => simp only [hc] at h; injection h with _ h; subst h; rfl
  | some t => simp only [hc] at h; injection h with _ h; subst h; rfl

theorem plainQ_peekTokenN (n : Nat) : PlainQ (peekTokenN n) :=
  plainQ_same (plain_peekTokenN n) (fun s a s' h => by unfold peekTokenN at h; simp only [] at h; injection h with _ h; subst h; rfl)

theorem plainQ_assertRecZero : PlainQ assertRecZero :=
  plainQ_same plain_assertRecZero (fun s a s' h => by unfold assertRecZero at h; simp only [] at h; injection h with _ h; subst h; rfl)

/-- `push_err` of an error that is not a limit error -/
theorem plainQ_pushErr (e : PErr) (he : e.kind ≠ .limit) : PlainQ (pushErr e) := by
  refine ⟨plain_pushErr e, ?_⟩
  intro s a s' _ h hl
  unfold pushErr errUpdate at h
  simp only [] at h
  injection h with _ h
  subst h
  simp only [] at hl
  split at hl
  · rcases (hasLim_append _ _).mp hl with h1 | h1
    · exact h1
    · exact absurd ((hasLim_single _).mp h1) he
  · exact hl

end Apollo.Parse
