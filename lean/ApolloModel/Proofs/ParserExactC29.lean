import ApolloModel.Proofs.ParserExactC28
/-
EXACT COMPLETENESS, part 29 (namespace Apollo.Parse.Exact): towards completeness for the exact follow condition `DocFollowX` —
a type-system definition whose braces body IS written may be followed by ANY token (in particular by the `{` of a shorthand
query).  Generic rules (`cmp_optU_present`, `cmp_dirsBodyP`: `Directives? Body` with the body present has the follow set of
the body) and the body-present forms of the enum and input object type definitions.
-/
set_option linter.unusedSimpArgs false
namespace Apollo.Parse.Exact
open Apollo.Rowan hiding Str
open Apollo.Lex hiding Str

/-- `if peek == k0 { m }` on sentences of `m` (which start with `k0`): the branch is taken, nothing is asked of the follow
    token beyond what `m` asks -/
theorem cmp_optU_present {Hk : Kind → Prop} (k0 : Kind) (m : PI Unit) {Lm : Nat → List Ast.Tok → Prop} {Fm : Kind → Prop}
    (hm : Cmp (fun _ => True) m Lm Fm (fun _ => True))
    (hmhead : ∀ b x, Lm b x → ∃ a x', x = a :: x' ∧ kindOfA a = k0) :
    Cmp Hk (optU k0 m) Lm Fm (fun _ => True) := by
  intro s s' a c x q0 rst w hrun hl hs ht hq hf _
  unfold optU at hrun
  obtain ⟨ko, sP, hp, h2⟩ := bind_dec peek _ s s' a hrun
  obtain ⟨t, tl, htt, hkt⟩ := headK_toks c q0 rst
  obtain ⟨hko, eP, htP, _⟩ := peek_head s sP ko t tl w (by rw [ht]; exact htt) hp
  subst hko
  have hb : sP.recLimit - sP.recCur = s.recLimit - s.recCur := by rw [eP.recLimit, eP.recCur]
  have hTP : Toks sP = c ++ q0 :: rst := by rw [htP, ← htt]
  obtain ⟨a1, x1', rfl, hk1⟩ := hmhead _ _ hl
  obtain ⟨t1, tl1, hc, hta⟩ := spells_head hs
  have hkk : t.kind = k0 := by
    rw [hkt, hc]; simp only [headK]; rw [kind_of_astOfV hta, hk1]
  simp only [hkk, beq_self_eq_true, if_true] at h2
  obtain ⟨e, t2, _⟩ := hm sP s' a c _ q0 rst eP.w h2 (by rw [hb]; exact hl) hs hTP hq hf trivial
  exact ⟨by simpa using eP.trans e, t2, trivial⟩

/-- `Directives? Body` with the body PRESENT: the follow set is the body's -/
theorem cmp_dirsBodyP {Hk : Kind → Prop} (n : Nat) (k0 : Kind) (body : PI Unit) {Lb : Nat → List Ast.Tok → Prop} {Fb : Kind → Prop}
    (hb : Cmp (fun _ => True) body Lb Fb (fun _ => True))
    (hbhead : ∀ b x, Lb b x → ∃ a x', x = a :: x' ∧ kindOfA a = k0) (hk1 : k0 ≠ .at) (hk2 : k0 ≠ .lParen) :
    Cmp Hk (dirsBody n k0 body)
      (fun b x => ∃ ds x2, x = Ast.tDirectives ds ++ x2 ∧ dirsFit true b ds ∧ Lb b x2) Fb (fun _ => True) := by
  unfold dirsBody
  have hopt : Cmp (fun _ => True) (optBodyK k0 body) Lb Fb (fun _ => True) :=
    cmp_optU_present (Hk := fun _ => True) k0 body hb hbhead
  have := cmp_optKind_ne (Hk := Hk) (F := Fb) .at (directives n true) (optBodyK k0 body)
    (cmp_directivesNeB n true) hopt (fun b x h => ldirsNeB_head h)
    (by intro b a x h
        obtain ⟨a', x', e, hk⟩ := hbhead _ _ h
        injection e with e _
        subst e
        rw [hk]; exact ⟨hk1, hk1, hk2⟩)
    (by intro b h
        obtain ⟨a', x', e, _⟩ := hbhead _ _ h
        cases e)
    (fun k h => h)
  refine this.mono (fun _ h => h) ?_ (fun _ h => h) (fun _ h => h)
  rintro b x ⟨ds, x2, rfl, hd, h2⟩
  exact ⟨_, x2, rfl, ldirsB_split true b ds hd, h2⟩

/-! ### enum and input object type definitions with their body written -/

def LEnumP (b : Nat) (x : List Ast.Tok) : Prop :=
  ∃ desc nm ds vs, vs ≠ [] ∧ x = enumToks desc true nm ds vs ∧ dirsFit true b ds ∧ ∀ v ∈ vs, enumValFit b v

/-- **enum type definition with its values written: anything may follow** -/
theorem cmpT_enumTypeDefinitionP (n : Nat) :
    CmpT (fun _ => True) (enumTypeDefinition n) LEnumP (fun _ => True) (fun _ => True) := by
  rw [enumTypeDefinition_eq']
  refine cmpT_withNode _ ?_
  have hb := cmp_dirsBodyP (Hk := fun _ => True) n .lCurly (enumValuesDefinition n) (cmp_enumValuesDefinition n)
    (fun b x h => lenumVals_head h) (by decide) (by decide)
  refine (cmpT_defShape (Hk := fun _ => True) "enum" "enum_KW" n _ hb.toT).mono (fun _ h => h) ?_ (fun _ _ => trivial) (fun _ h => h)
  rintro b x ⟨desc, nm, ds, vs, hvs, rfl, hd, hv⟩
  exact ⟨desc, nm, Ast.tDirectives ds ++ Ast.tBraced (Ast.tEnumValueDefItems vs) vs.isEmpty,
    by simp [enumToks, kwPart, Ast.tEnumBody], ds, Ast.tBraced (Ast.tEnumValueDefItems vs) vs.isEmpty, rfl, hd, vs, hvs, rfl, hv⟩

def LInputP (b : Nat) (x : List Ast.Tok) : Prop :=
  ∃ desc nm ds fs, fs ≠ [] ∧ x = inputToks desc true nm ds fs ∧ dirsFit true b ds ∧ ∀ v ∈ fs, ivdFit b v

/-- **input object type definition with its fields written: anything may follow** -/
theorem cmpT_inputObjectTypeDefinitionP (n : Nat) :
    CmpT (fun _ => True) (inputObjectTypeDefinition n) LInputP (fun _ => True) (fun _ => True) := by
  rw [inputObjectTypeDefinition_eq']
  refine cmpT_withNode _ ?_
  have hb := cmp_dirsBodyP (Hk := fun _ => True) n .lCurly (inputFieldsDefinition n) (cmp_inputFieldsDefinition n)
    (fun b x h => linputFields_head h) (by decide) (by decide)
  refine (cmpT_defShape (Hk := fun _ => True) "input" "input_KW" n _ hb.toT).mono (fun _ h => h) ?_ (fun _ _ => trivial) (fun _ h => h)
  rintro b x ⟨desc, nm, ds, vs, hvs, rfl, hd, hv⟩
  exact ⟨desc, nm, Ast.tDirectives ds ++ Ast.tBraced (Ast.tIVDItems vs) vs.isEmpty,
    by simp [inputToks, kwPart, Ast.tInputBody], ds, Ast.tBraced (Ast.tIVDItems vs) vs.isEmpty, rfl, hd, vs, hvs, rfl, hv⟩

/-! ### object and interface type definitions with their fields written -/

def LFieldsTailP (b : Nat) (x : List Ast.Tok) : Prop :=
  ∃ ds x2, x = Ast.tDirectives ds ++ x2 ∧ dirsFit true b ds ∧ LFields b x2

theorem cmp_fieldsTailP (n : Nat) :
    Cmp (fun _ => True) (dirsBody n .lCurly (fieldsDefinition n)) LFieldsTailP (fun _ => True) (fun _ => True) :=
  cmp_dirsBodyP (Hk := fun _ => True) n .lCurly (fieldsDefinition n) (cmp_fieldsDefinition n) (fun b x h => lfields_head h) (by decide) (by decide)

theorem lfieldsTailP_head {b : Nat} {a : Ast.Tok} {x : List Ast.Tok} (h : LFieldsTailP b (a :: x)) : kindOfA a ≠ .name ∧ kindOfA a ≠ .amp := by
  obtain ⟨ds, x2, e, hd, h2⟩ := h
  exact lfieldsTail_head (b := b) ⟨ds, x2, e, hd, Or.inl h2⟩

/-- what may follow an object / interface type whose fields are written: anything but `&` and the Name `implements`
    (both can never start a definition) -/
def FObjP (t : Tok) : Prop := t.kind ≠ .amp ∧ NotImplTok t

def LObjectP (word : String) (b : Nat) (x : List Ast.Tok) : Prop :=
  ∃ desc nm impl ds fs, fs ≠ [] ∧ x = Ast.tDescription desc ++ kwPart word true ++ objectLikeToks nm impl ds fs ∧ objFit b ds fs

theorem objectLike_tailP (b : Nat) (nm : Ast.Str) (impl : Option (Bool × Ast.Str × List Ast.Str)) (ds : List Ast.Directive)
    (fs : List Ast.FieldDef) (hne : fs ≠ []) (h : objFit b ds fs) :
    ∃ x2, objectLikeToks nm impl ds fs = .name nm :: x2 ∧ LImplThen LFieldsTailP b x2 :=
  ⟨tSepOpt [.name Ast.sImplements] .amp impl ++ (Ast.tDirectives ds ++ Ast.tBraced (Ast.tFieldDefItems fs) fs.isEmpty),
    by simp [objectLikeToks, List.append_assoc], impl, _, rfl, ds, _, rfl, h.1, fs, hne, rfl, h.2⟩

/-- **object type definition with its fields written: `{` may follow** -/
theorem cmpT_objectTypeDefinitionP (n : Nat) :
    CmpT (fun _ => True) (objectTypeDefinition n) (LObjectP "type") FObjP (fun _ => True) := by
  rw [objectTypeDefinition_eq]
  refine cmpT_withNode _ ?_
  have ht := cmpT_optImplTok (Hk := fun _ => True) _ (cmp_fieldsTailP n) (fun b a x h => lfieldsTailP_head h)
  refine (cmpT_defShape (Hk := fun _ => True) "type" "type_KW" n _ ht).mono (fun _ h => h) ?_ (fun t h => ⟨trivial, h.1, h.2⟩) (fun _ h => h)
  rintro b x ⟨desc, nm, impl, ds, fs, hne, rfl, hfit⟩
  obtain ⟨x2, e, h2⟩ := objectLike_tailP b nm impl ds fs hne hfit
  exact ⟨desc, nm, x2, by rw [e]; simp [kwPart], h2⟩

/-- **interface type definition with its fields written: `{` may follow** -/
theorem cmpT_interfaceTypeDefinitionP (n : Nat) :
    CmpT (fun _ => True) (interfaceTypeDefinition n) (LObjectP "interface") FObjP (fun _ => True) := by
  rw [interfaceTypeDefinition_eq]
  refine cmpT_withNode _ ?_
  have ht := cmpT_optDataImpl (Hk := fun _ => True) _ _ (cmp_fieldsTailP n) (cmp_fieldsTailP n) (fun b a x h => lfieldsTailP_head h)
  refine (cmpT_defShape (Hk := fun _ => True) "interface" "interface_KW" n _ ht).mono (fun _ h => h) ?_ (fun t h => ⟨trivial, h.1, h.2⟩) (fun _ h => h)
  rintro b x ⟨desc, nm, impl, ds, fs, hne, rfl, hfit⟩
  obtain ⟨x2, e, h2⟩ := objectLike_tailP b nm impl ds fs hne hfit
  exact ⟨desc, nm, x2, by rw [e]; simp [kwPart], h2⟩

/-! ### extensions with their body written -/

/-- `if peek == k0 { m; restT } else { restF }` when neither continuation accepts the empty sentence: nothing is asked of the
    follow token beyond what the continuations ask -/
theorem cmp_optKind2_ne {α : Type} {Hk : Kind → Prop} (k0 : Kind) (m : PI Unit) (restT restF : PI α)
    {Lm LT LF : Nat → List Ast.Tok → Prop} {Fm F : Kind → Prop} {Q : α → Prop}
    (hm : Cmp (fun _ => True) m Lm Fm (fun _ => True)) (hT : Cmp (fun _ => True) restT LT F Q)
    (hF : Cmp (fun _ => True) restF LF F Q)
    (hmhead : ∀ b x, Lm b x → ∃ a x', x = a :: x' ∧ kindOfA a = k0)
    (hThead : ∀ b a x, LT b (a :: x) → Fm (kindOfA a)) (hTne : ∀ b, ¬ LT b [])
    (hFhead : ∀ b a x, LF b (a :: x) → kindOfA a ≠ k0) (hFne : ∀ b, ¬ LF b []) :
    Cmp Hk (optKind2 k0 m restT restF)
      (fun b x => (∃ x1 x2, x = x1 ++ x2 ∧ Lm b x1 ∧ LT b x2) ∨ LF b x) F Q := by
  intro s s' a c x q0 rst w hrun hl hs ht hq hf _
  unfold optKind2 at hrun
  obtain ⟨ko, sP, hp, h2⟩ := bind_dec peek _ s s' a hrun
  obtain ⟨t, tl, htt, hkt⟩ := headK_toks c q0 rst
  obtain ⟨hko, eP, htP, _⟩ := peek_head s sP ko t tl w (by rw [ht]; exact htt) hp
  subst hko
  have hb : sP.recLimit - sP.recCur = s.recLimit - s.recCur := by rw [eP.recLimit, eP.recCur]
  have hTP : Toks sP = c ++ q0 :: rst := by rw [htP, ← htt]
  rcases hl with ⟨x1, x2, rfl, hl1, hl2⟩ | hl
  · obtain ⟨a1, x1', rfl, hk1⟩ := hmhead _ _ hl1
    obtain ⟨t1, tl1, hc, hta⟩ := spells_head (x := x1' ++ x2) (by simpa using hs)
    have hkk : t.kind = k0 := by
      rw [hkt, hc]; simp only [headK]; rw [kind_of_astOfV hta, hk1]
    simp only [hkk, beq_self_eq_true, if_true] at h2
    have hcomb := cmp_bind_ne (Hk := fun _ => True) (F := F) hm (fun _ _ => hT) hThead hTne (fun _ h => h)
    obtain ⟨e, t2, q⟩ := hcomb sP s' a c _ q0 rst eP.w h2 ⟨_, _, rfl, by rw [hb]; exact hl1, by rw [hb]; exact hl2⟩ hs hTP hq hf trivial
    exact ⟨by simpa using eP.trans e, t2, q⟩
  · have hkk : (some t.kind == some k0) = false := by
      have : t.kind ≠ k0 := by
        rw [hkt]
        cases x with
        | nil => exact absurd hl (hFne _)
        | cons a2 x2' =>
          obtain ⟨t1, tl1, hc, hta⟩ := spells_head hs
          rw [hc]; simp only [headK]; rw [kind_of_astOfV hta]
          exact hFhead _ _ _ hl
      simpa using this
    simp only [hkk, Bool.false_eq_true, if_false] at h2
    obtain ⟨e, t2, q⟩ := hF sP s' a c x q0 rst eP.w h2 (by rw [hb]; exact hl) hs hTP hq hf trivial
    exact ⟨by simpa using eP.trans e, t2, q⟩

/-- the body of an extension, PRESENT -/
theorem cmp_extBodyKP {Hk : Kind → Prop} (k0 : Kind) (body : PI Unit) (meets : Bool) {Lb : Nat → List Ast.Tok → Prop} {Fb : Kind → Prop}
    (hb : Cmp (fun _ => True) body Lb Fb (fun _ => True)) (hbhead : ∀ b x, Lb b x → ∃ a x', x = a :: x' ∧ kindOfA a = k0) :
    Cmp Hk (extBodyK k0 body meets) Lb Fb (fun _ => True) := by
  intro s s' a c x q0 rst w hrun hl hs ht hq hf _
  unfold extBodyK optKind2 at hrun
  obtain ⟨ko, sP, hp, h2⟩ := bind_dec peek _ s s' a hrun
  obtain ⟨t, tl, htt, hkt⟩ := headK_toks c q0 rst
  obtain ⟨hko, eP, htP, _⟩ := peek_head s sP ko t tl w (by rw [ht]; exact htt) hp
  subst hko
  have hbud : sP.recLimit - sP.recCur = s.recLimit - s.recCur := by rw [eP.recLimit, eP.recCur]
  have hTP : Toks sP = c ++ q0 :: rst := by rw [htP, ← htt]
  obtain ⟨a1, x1', rfl, hk1⟩ := hbhead _ _ hl
  obtain ⟨t1, tl1, hc, hta⟩ := spells_head hs
  have hkk : t.kind = k0 := by
    rw [hkt, hc]; simp only [headK]; rw [kind_of_astOfV hta, hk1]
  simp only [hkk, beq_self_eq_true, if_true] at h2
  have hcomb := cmp_bind (Hk := fun _ => True) (F := Fb) hb (fun _ _ => cmp_extEnd (Hk := fun _ => True) (F := Fb) true)
    (by rintro b a x ⟨h, _⟩; cases h) (fun _ h => h) (fun _ h => h)
  obtain ⟨e, t2, _⟩ := hcomb sP s' a c _ q0 rst eP.w h2 ⟨a1 :: x1', [], by simp, by rw [hbud]; exact hl, rfl, rfl⟩ hs hTP hq hf trivial
  exact ⟨by simpa using eP.trans e, t2, trivial⟩

/-- `Directives?` of an extension in front of a continuation that never accepts the empty sentence -/
theorem cmp_extDirsP {Hk : Kind → Prop} (n : Nat) (next : Bool → PI Unit) (meets : Bool) {Ln : Nat → List Ast.Tok → Prop} {F : Kind → Prop}
    (hn : ∀ m, Cmp (fun _ => True) (next m) Ln F (fun _ => True))
    (hnhead : ∀ b a x, Ln b (a :: x) → kindOfA a ≠ .at ∧ kindOfA a ≠ .lParen) (hnne : ∀ b, ¬ Ln b []) :
    Cmp Hk (extDirs n next meets)
      (fun b x => ∃ ds x2, x = Ast.tDirectives ds ++ x2 ∧ dirsFit true b ds ∧ Ln b x2) F (fun _ => True) := by
  unfold extDirs
  have := cmp_optKind2_ne (Hk := Hk) (F := F) .at (directives n true) (next true) (next meets) (cmp_directivesNeB n true) (hn true) (hn meets)
    (fun b x h => ldirsNeB_head h) (fun b a x h => hnhead b a x h) hnne (fun b a x h => (hnhead b a x h).1) hnne
  refine this.mono (fun _ h => h) ?_ (fun _ h => h) (fun _ h => h)
  rintro b x ⟨ds, x2, rfl, hd, h2⟩
  cases ds with
  | nil => right; simpa [Ast.tDirectives] using h2
  | cons d r => left; exact ⟨_, x2, rfl, ⟨d :: r, by simp, rfl, hd⟩, h2⟩

/-- `Name Directives? Body` of an extension with the body PRESENT -/
theorem cmp_nameDirsBodyExtP (n : Nat) (k0 : Kind) (body : PI Unit) {Lb : Nat → List Ast.Tok → Prop} {Fb : Kind → Prop}
    (hb : Cmp (fun _ => True) body Lb Fb (fun _ => True)) (hbhead : ∀ b x, Lb b x → ∃ a x', x = a :: x' ∧ kindOfA a = k0)
    (hk1 : k0 ≠ .at) (hk2 : k0 ≠ .lParen) :
    Cmp (fun _ => True) (nameDirsBodyExt n k0 body)
      (fun b x => ∃ nm ds x2, x = .name nm :: (Ast.tDirectives ds ++ x2) ∧ dirsFit true b ds ∧ Lb b x2) Fb (fun _ => True) := by
  unfold nameDirsBodyExt
  have hd := cmp_extDirsP (Hk := fun _ => True) (F := Fb) n (extBodyK k0 body) false (Ln := Lb)
    (fun m => cmp_extBodyKP (Hk := fun _ => True) k0 body m hb hbhead)
    (by intro b a x h
        obtain ⟨a', x', e, hk⟩ := hbhead _ _ h
        injection e with e _
        subst e; rw [hk]; exact ⟨hk1, hk2⟩)
    (by intro b h
        obtain ⟨a', x', e, _⟩ := hbhead _ _ h
        cases e)
  have := cmp_bind (Hk := fun _ => True) (F := Fb) (F1 := fun _ => True)
    cmp_nameOrErr (fun _ _ => hd) (fun _ _ _ _ => trivial) (fun _ _ => trivial) (fun _ h => h)
  refine this.mono (fun _ h => h) ?_ (fun _ h => h) (fun _ h => h)
  rintro b x ⟨nm, ds, x2, rfl, hdf, h2⟩
  exact ⟨[.name nm], _, rfl, ⟨nm, rfl⟩, ds, x2, rfl, hdf, h2⟩

def LEnumExtP (b : Nat) (x : List Ast.Tok) : Prop :=
  ∃ nm ds vs, vs ≠ [] ∧ x = kwE "enum" ++ Ast.tEnumBody nm ds vs ∧ dirsFit true b ds ∧ ∀ v ∈ vs, enumValFit b v

/-- **enum type extension with its values written: anything may follow** -/
theorem cmpT_enumTypeExtensionP (n : Nat) :
    CmpT (fun _ => True) (enumTypeExtension n) LEnumExtP (fun _ => True) (fun _ => True) := by
  rw [enumTypeExtension_eq]
  refine cmpT_withNode _ ?_
  have hb := cmp_nameDirsBodyExtP n .lCurly (enumValuesDefinition n) (cmp_enumValuesDefinition n)
    (fun b x h => lenumVals_head h) (by decide) (by decide)
  refine (cmpT_ext (Hk := fun _ => True) "enum" _ _ _ hb.toT).mono (fun _ h => h) ?_ (fun _ _ => trivial) (fun _ h => h)
  rintro b x ⟨nm, ds, vs, hvs, rfl, hd, hv⟩
  exact ⟨.name nm :: (Ast.tDirectives ds ++ Ast.tBraced (Ast.tEnumValueDefItems vs) vs.isEmpty), by simp [Ast.tEnumBody], nm, ds, _, rfl, hd,
    vs, hvs, rfl, hv⟩

def LInputExtP (b : Nat) (x : List Ast.Tok) : Prop :=
  ∃ nm ds fs, fs ≠ [] ∧ x = kwE "input" ++ Ast.tInputBody nm ds fs ∧ dirsFit true b ds ∧ ∀ v ∈ fs, ivdFit b v

/-- **input object type extension with its fields written: anything may follow** -/
theorem cmpT_inputObjectTypeExtensionP (n : Nat) :
    CmpT (fun _ => True) (inputObjectTypeExtension n) LInputExtP (fun _ => True) (fun _ => True) := by
  rw [inputObjectTypeExtension_eq]
  refine cmpT_withNode _ ?_
  have hb := cmp_nameDirsBodyExtP n .lCurly (inputFieldsDefinition n) (cmp_inputFieldsDefinition n)
    (fun b x h => linputFields_head h) (by decide) (by decide)
  refine (cmpT_ext (Hk := fun _ => True) "input" _ _ _ hb.toT).mono (fun _ h => h) ?_ (fun _ _ => trivial) (fun _ h => h)
  rintro b x ⟨nm, ds, vs, hvs, rfl, hd, hv⟩
  exact ⟨.name nm :: (Ast.tDirectives ds ++ Ast.tBraced (Ast.tIVDItems vs) vs.isEmpty), by simp [Ast.tInputBody], nm, ds, _, rfl, hd,
    vs, hvs, rfl, hv⟩

end Apollo.Parse.Exact
