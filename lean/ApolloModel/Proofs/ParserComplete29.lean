import ApolloModel.Proofs.ParserComplete28
import ApolloModel.Proofs.ParserRecursion5
/-
C07 growth: `type_accept_iff` — the exact accepted language of `Parser::parse_type`.  Soundness (ParserType1–6) gives
the type; the two guards of completeness are recovered from an error-free run: the list nesting is within the
recursion limit (C04: no limit error ⇒ `typeDepth src ≤ rl`, and `typeDepth` of `tTy t` is `tyDepth t`), and the input
does not start with an ignored token (`ty.rs` peeks before it skips: the ignored token is dropped with an error).
-/
set_option linter.unusedSimpArgs false
namespace Apollo.Parse
open Apollo.Rowan hiding Str
open Apollo.Lex hiding Str

/-- on an ignored first token `ty.rs::parse` does not return `Ok` -/
theorem tyParse_ignored_head (n : Nat) (s s' : PState) (r : TyRes) (t : Tok) (rest : List Tok) (w : TW s)
    (ht : Toks s = t :: rest) (hi : isIgnoredKind t.kind = true) (h : (tyParse (n + 1)).run s = .ok r s') : r ≠ TyRes.ok := by
  rw [tyParse_succ] at h
  obtain ⟨r0, sW, hw, h2⟩ := bind_dec _ _ s s' r h
  obtain ⟨s1, s2, s3, c, o1, hb, _, _⟩ := wrapIf_dec _ _ _ _ s sW r0 hw
  have hr0 : r0 ≠ TyRes.ok := by
    unfold tyBody at hb
    obtain ⟨ko, sP, hp, h3⟩ := bind_dec peek _ s1 s2 r0 hb
    obtain ⟨rfl, _, _, _⟩ := peek_head s1 sP ko t rest (o1.w w) (by rw [o1.toks]; exact ht) hp
    have hk : t.kind = .comment ∨ t.kind = .whitespace ∨ t.kind = .comma := by
      cases hk : t.kind <;> simp [hk, isIgnoredKind] at hi <;> simp
    rcases hk with hk | hk | hk <;> simp only [hk] at h3 <;>
      (obtain ⟨o, sQ, _, h4⟩ := bind_dec popDrop _ sP s2 r0 h3
       cases o <;> simp only [] at h4 <;> rw [run_pure] at h4 <;> injection h4 with h4 _ <;> rw [← h4] <;> intro hc <;> cases hc)
  cases r0 with
  | ok => exact absurd rfl hr0
  | errTok tk =>
    simp only [] at h2
    rw [run_pure] at h2
    injection h2 with h2 _
    rw [← h2]; intro hc; cases hc
  | errNone =>
    simp only [] at h2
    rw [run_pure] at h2
    injection h2 with h2 _
    rw [← h2]; intro hc; cases hc
  | early =>
    simp only [] at h2
    rw [run_pure] at h2
    injection h2 with h2 _
    rw [← h2]; intro hc; cases hc

/-- an error-free `parse_type` did not start on an ignored token -/
theorem parseType_head (rl : Nat) (src : Str) (herr : (parse .type none rl src).errors = []) : HeadSig (srcToks src) := by
  intro hd tl hsrc
  obtain ⟨root, h⟩ := parseType_tree none rl src
  unfold parse runEntry at h herr
  simp only [Entry.standalone, Entry.grammar] at h herr
  generalize hs0 : ({ initState src none rl with builder := (initState src none rl).builder.startNode "NAMED_TYPE" } : PState) = s0 at h herr
  have hinv : Inv s0 := by
    subst hs0
    exact ⟨fun _ => by simp [initState, Builder.new, Builder.startNode, textList, pendingText, curText],
      fun p hp => by simp [initState, Builder.new, Builder.startNode] at hp; simp [hp, initState, Builder.new],
      fun h => by simp [initState] at h, fun t h => by simp [initState] at h, fun h => by simp [initState] at h⟩
  have w0 : TW s0 := by subst hs0; exact ⟨rfl, by intro h; simp [initState] at h⟩
  have htoks : Toks s0 = srcToks src := by subst hs0; rfl
  have he0 : EofEnd s0 := by
    right
    obtain ⟨pre, e, hp, he, hno⟩ := stream_eof_end src.length (initState src none 0).lx (Nat.le_refl _) rfl rfl
    exact ⟨pre, e, by rw [htoks]; exact hp, he, hno⟩
  cases hr : (ty (fuelFor src) >>= fun _ => expectEndOfInput).run s0 with
  | abort w => simp [hr] at h
  | panic m => simp [hr] at h
  | ok a s =>
    simp only [hr] at h herr
    -- as in `type_sound_run`: the result of `ty.rs::parse` is `Ok`
    obtain ⟨_, s1, h1, h2⟩ := bind_dec (ty (fuelFor src)) _ s0 s () hr
    obtain ⟨hi1, hl1⟩ := PI.run_ok _ s0 hinv _ s1 h1
    have a1 := good_ty (fuelFor src) s0 () s1 w0 h1
    have a2 := good_expectEndOfInput s1 () s a1.w h2
    have hex := expectEndOfInput_exhausted s1 s hi1 a1.w.limit h2 herr
    have hnd : ¬ Doomed s := by
      rintro (hd | hd)
      · exact hd herr
      · rw [hasErr_src_nil s.lx a2.w.limit hex.2] at hd; cases hd
    have hnd1 : ¬ Doomed s1 := fun d => hnd (a2.doom d)
    unfold ty at h1
    obtain ⟨r, sT, hT, h3⟩ := bind_dec (tyParse (fuelFor src)) _ s0 s1 () h1
    have aT := good_tyParse (fuelFor src) s0 r sT w0 hT
    have hok : r = .ok := by
      cases r with
      | ok => rfl
      | early =>
        exfalso
        simp only [] at h3; rw [run_pure] at h3; injection h3 with _ h3; subst h3
        rcases tyParse_sound (fuelFor src) s0 sT _ w0 he0 hT hnd1 with ⟨tk, hx⟩ | ⟨hx, _⟩ <;> cases hx
      | errTok tk =>
        exfalso
        simp only [] at h3
        exact hnd1 (errAtToken_adv tk sT s1 aT.w h3).2
      | errNone =>
        exfalso
        simp only [] at h3
        have hndT : ¬ Doomed sT := fun d => hnd1 ((good_err sT () s1 aT.w h3).doom d)
        rcases tyParse_sound (fuelFor src) s0 sT _ w0 he0 hT hndT with ⟨tk, hx⟩ | ⟨hx, _⟩ <;> cases hx
    subst hok
    by_cases hig : isIgnoredKind hd.kind = true
    · exfalso
      have hf : fuelFor src = (4 * src.length + 19) + 1 := by unfold fuelFor; omega
      rw [hf] at hT
      exact tyParse_ignored_head _ s0 sT _ hd tl w0 (by rw [htoks]; exact hsrc) hig hT rfl
    · unfold Sigf; simpa using hig

/-- the leading `[` of the tokens of a type are its list nesting -/
theorem lbCount_tTy : ∀ (t : Ast.Ty) (ts suf : List Tok), ts.map astOf = (Ast.tTy t).map some → lbCount (ts ++ suf) = tyDepth t := by
  intro t
  induction t with
  | named n =>
    intro ts suf h
    simp only [Ast.tTy, List.map_cons, List.map_nil] at h
    obtain ⟨x, l, rfl, hx, hl⟩ := List.map_eq_cons_iff.mp h
    have hk : x.kind = .name := by unfold astOf at hx; cases hk : x.kind <;> simp [hk] at hx <;> rfl
    simp [lbCount, isLB, hk, tyDepth]
  | nonNullNamed n =>
    intro ts suf h
    simp only [Ast.tTy, List.map_cons, List.map_nil] at h
    obtain ⟨x, l, rfl, hx, hl⟩ := List.map_eq_cons_iff.mp h
    have hk : x.kind = .name := by unfold astOf at hx; cases hk : x.kind <;> simp [hk] at hx <;> rfl
    simp [lbCount, isLB, hk, tyDepth]
  | list u ih =>
    intro ts suf h
    simp only [Ast.tTy, List.map_cons, List.map_append] at h
    obtain ⟨x, l, rfl, hx, hl⟩ := List.map_eq_cons_iff.mp h
    obtain ⟨l1, l2, rfl, h1, h2⟩ := List.map_eq_append_iff.mp hl
    have hk : x.kind = .lBracket := (astOf_p hx).2.1 rfl
    have := ih l1 (l2 ++ suf) h1
    simp only [lbCount, List.cons_append, List.append_assoc] at this ⊢
    simp [List.takeWhile_cons, isLB, hk, tyDepth, this]
  | nonNullList u ih =>
    intro ts suf h
    simp only [Ast.tTy, List.map_cons, List.map_append] at h
    obtain ⟨x, l, rfl, hx, hl⟩ := List.map_eq_cons_iff.mp h
    obtain ⟨l1, l2, rfl, h1, h2⟩ := List.map_eq_append_iff.mp hl
    have hk : x.kind = .lBracket := (astOf_p hx).2.1 rfl
    have := ih l1 (l2 ++ suf) h1
    simp only [lbCount, List.cons_append, List.append_assoc] at this ⊢
    simp [List.takeWhile_cons, isLB, hk, tyDepth, this]

/-- **`type_accept_iff`** (proof level) -/
theorem parseType_iff (rl : Nat) (src : Str) :
    (parse .type none rl src).errors = [] ↔
      (LexClean src ∧ ∃ (t : Ast.Ty) (ts : List Tok) (e : Tok), sig (srcToks src) = ts ++ [e] ∧ e.kind = .eof ∧
        ts.map astOf = (Ast.tTy t).map some ∧ tyDepth t ≤ rl ∧ HeadSig (srcToks src)) := by
  constructor
  · intro herr
    obtain ⟨hclean, t, ts, e, h1, h2, h3⟩ := parseType_sound' rl src herr
    have hhead := parseType_head rl src herr
    refine ⟨hclean, t, ts, e, h1, h2, h3, ?_, hhead⟩
    have hlim := (parseType_rec_limit rl src (fun w => parse_type_terminates none rl src w)).1
    have hno : ¬ HasLim (parse .type none rl src).errors := by
      rw [herr]; rintro ⟨x, hx, _⟩; cases hx
    have hd : typeDepth src ≤ rl := by
      by_cases hgt : typeDepth src > rl
      · exact absurd (hlim.mpr hgt) hno
      · omega
    have hlead : typeDepth src = tyDepth t := by
      unfold typeDepth lead
      cases hs : srcToks src with
      | nil => rw [hs] at h1; simp [sig] at h1
      | cons x r =>
        have hx : isIgnoredKind x.kind = false := by
          have := hhead x r hs; unfold Sigf at this; exact this
        simp only [hx, Bool.false_eq_true, if_false]
        rw [← hs, h1]
        exact lbCount_tTy t ts [e] h3
    rw [← hlead]; exact hd
  · rintro ⟨hclean, t, ts, e, h1, h2, h3, h4, h5⟩
    exact parseType_complete_sig rl src t ts e hclean h1 h2 h3 h4 h5

end Apollo.Parse
