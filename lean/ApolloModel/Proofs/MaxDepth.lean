import ApolloModel.Model.MaxDepth
/- Helper lemmas for C25: the memoised depth-first check computes the expanded depth. -/
namespace Apollo.MaxDepth

theorem bounded_mono {k k' : Nat} (h : k ≤ k') : ∀ s, Bounded k s = true → Bounded k' s = true
  | .nil, _ => rfl
  | .field _ sub rest, hb => by
    simp only [Bounded, Bool.and_eq_true] at hb ⊢
    exact ⟨bounded_mono h sub hb.1, bounded_mono h rest hb.2⟩
  | .inline sub rest, hb => by
    simp only [Bounded, Bool.and_eq_true] at hb ⊢
    exact ⟨bounded_mono h sub hb.1, bounded_mono h rest hb.2⟩
  | .spread j rest, hb => by
    simp only [Bounded, Bool.and_eq_true, decide_eq_true_eq] at hb ⊢
    exact ⟨by omega, bounded_mono h rest hb.2⟩

theorem relSels_congr {R R' : Nat → Nat} {k : Nat} (h : ∀ j, j < k → R j = R' j) :
    ∀ s, Bounded k s = true → relSels R s = relSels R' s
  | .nil, _ => rfl
  | .field _ sub rest, hb => by
    simp only [Bounded, Bool.and_eq_true] at hb
    simp [relSels, relSels_congr h sub hb.1, relSels_congr h rest hb.2]
  | .inline sub rest, hb => by
    simp only [Bounded, Bool.and_eq_true] at hb
    simp [relSels, relSels_congr h sub hb.1, relSels_congr h rest hb.2]
  | .spread j rest, hb => by
    simp only [Bounded, Bool.and_eq_true, decide_eq_true_eq] at hb
    simp [relSels, h j hb.1, relSels_congr h rest hb.2]

theorem table_length (doc : Doc) : ∀ n, (table doc n).length = n
  | 0 => rfl
  | n + 1 => by simp [table, table_length doc n]

theorem table_prefix (doc : Doc) (m : Nat) : ∀ n, m ≤ n → ∀ i, i < m → (table doc n).getD i 0 = (table doc m).getD i 0
  | 0, h, i, hi => by omega
  | n + 1, h, i, hi => by
    by_cases hm : m = n + 1
    · subst hm; rfl
    · have ih := table_prefix doc m n (by omega) i hi
      rw [← ih]
      have hl := table_length doc n
      simp only [table]
      simp only [List.getD_eq_getElem?_getD]
      rw [List.getElem?_append_left (by omega)]

theorem frag_lt (doc : Doc) {j : Nat} {body : Sels} (h : doc.frag j = some body) : j < doc.frags.length := by
  unfold Doc.frag at h
  exact (List.getElem?_eq_some_iff.mp h).1

/-- the expanded depth of a fragment is the depth of its selection set -/
theorem fragDepth_unfold (doc : Doc) (wf : doc.WF) {j : Nat} {body : Sels} (h : doc.frag j = some body) :
    fragDepth doc j = relSels (fragDepth doc) body := by
  have hj := frag_lt doc h
  unfold fragDepth
  rw [table_prefix doc (j + 1) doc.frags.length (by omega) j (by omega)]
  have hl := table_length doc j
  simp only [table, h]
  simp only [List.getD_eq_getElem?_getD]
  rw [List.getElem?_append_right (by omega)]
  simp only [hl, Nat.sub_self, List.getElem?_cons_zero, Option.getD_some]
  apply relSels_congr (k := j) _ body (wf j body h)
  intro i hi
  have := table_prefix doc j doc.frags.length (by omega) i hi
  simp only [List.getD_eq_getElem?_getD] at this
  exact this.symm

def MemoOK (doc : Doc) (memo : Memo) : Prop := ∀ j r, memo.lookup j = some r → r = fragDepth doc j

/-- what a call on a selection set must do, at depth `d` with running maximum `acc` -/
def Spec (MAX : Nat) (doc : Doc) (f : Memo → Nat → Nat → Res) (s : Sels) : Prop :=
  ∀ memo d acc, MemoOK doc memo → d < MAX → d ≤ acc →
    (MAX ≤ d + relSels (fragDepth doc) s → f memo d acc = .error .tooDeep) ∧
    (d + relSels (fragDepth doc) s < MAX →
      ∃ memo', f memo d acc = .ok (max acc (d + relSels (fragDepth doc) s), memo') ∧ MemoOK doc memo')

def SpecSet (MAX : Nat) (doc : Doc) (f : Memo → Nat → Res) (s : Sels) : Prop :=
  ∀ memo d, MemoOK doc memo → d < MAX →
    (MAX ≤ d + relSels (fragDepth doc) s → f memo d = .error .tooDeep) ∧
    (d + relSels (fragDepth doc) s < MAX →
      ∃ memo', f memo d = .ok (d + relSels (fragDepth doc) s, memo') ∧ MemoOK doc memo')

theorem memoOK_insert {doc : Doc} {memo : Memo} {j r : Nat} (h : MemoOK doc memo) (hr : r = fragDepth doc j) :
    MemoOK doc ((j, r) :: memo) := by
  intro i x hx
  simp only [List.lookup] at hx
  split at hx
  · rename_i heq
    have : i = j := by simpa using heq
    simp only [Option.some.injEq] at hx
    subst hx; subst this; exact hr
  · exact h i x hx

theorem go_spec (MAX : Nat) (doc : Doc) (wf : doc.WF) (rec : Sels → Memo → Nat → Res) (k : Nat)
    (hrec : ∀ j body, j < k → doc.frag j = some body → SpecSet MAX doc (rec body) body) :
    ∀ s, Bounded k s = true → Spec MAX doc (fun memo d acc => go MAX doc rec s memo d acc) s
  | .nil, _ => by
    intro memo d acc hm hd hacc
    simp only [relSels, go, Nat.add_zero]
    exact ⟨fun h => by omega, fun _ => ⟨memo, by simp; omega, hm⟩⟩
  | .inline sub rest, hb => by
    simp only [Bounded, Bool.and_eq_true] at hb
    have ihs := go_spec MAX doc wf rec k hrec sub hb.1
    have ihr := go_spec MAX doc wf rec k hrec rest hb.2
    intro memo d acc hm hd hacc
    simp only [Spec, SpecSet, relSels, go] at *
    by_cases h1 : MAX ≤ d + relSels (fragDepth doc) sub
    · have := (ihs memo d d hm hd (Nat.le_refl _)).1 h1
      simp only [this]
      exact ⟨fun _ => trivial, fun h => by omega⟩
    · obtain ⟨memo1, e1, hm1⟩ := (ihs memo d d hm hd (Nat.le_refl _)).2 (by omega)
      simp only [e1]
      have := ihr memo1 d (max acc (max d (d + relSels (fragDepth doc) sub))) hm1 hd (by omega)
      refine ⟨fun h => this.1 (by omega), fun h => ?_⟩
      obtain ⟨memo2, e2, hm2⟩ := this.2 (by omega)
      exact ⟨memo2, by rw [e2]; first | rfl | (congr 2; omega), hm2⟩
  | .field isList sub rest, hb => by
    simp only [Bounded, Bool.and_eq_true] at hb
    have ihs := go_spec MAX doc wf rec k hrec sub hb.1
    have ihr := go_spec MAX doc wf rec k hrec rest hb.2
    intro memo d acc hm hd hacc
    simp only [Spec, SpecSet, relSels, go] at *
    cases isList with
    | false =>
      simp only [Bool.false_and, Bool.false_eq_true, if_false, Nat.zero_add]
      by_cases h1 : MAX ≤ d + relSels (fragDepth doc) sub
      · have := (ihs memo d d hm hd (Nat.le_refl _)).1 h1
        simp only [this]
        exact ⟨fun _ => trivial, fun h => by omega⟩
      · obtain ⟨memo1, e1, hm1⟩ := (ihs memo d d hm hd (Nat.le_refl _)).2 (by omega)
        simp only [e1]
        have := ihr memo1 d (max acc (max d (d + relSels (fragDepth doc) sub))) hm1 hd (by omega)
        refine ⟨fun h => this.1 (by omega), fun h => ?_⟩
        obtain ⟨memo2, e2, hm2⟩ := this.2 (by omega)
        exact ⟨memo2, by rw [e2]; first | rfl | (congr 2; omega), hm2⟩
    | true =>
      simp only [if_true, Bool.true_and, decide_eq_true_eq, ge_iff_le]
      by_cases h0 : MAX ≤ d + 1
      · simp only [h0, if_true]
        exact ⟨fun _ => trivial, fun h => by omega⟩
      · simp only [h0, if_false]
        by_cases h1 : MAX ≤ d + 1 + relSels (fragDepth doc) sub
        · have := (ihs memo (d + 1) (d + 1) hm (by omega) (Nat.le_refl _)).1 h1
          simp only [this]
          exact ⟨fun _ => trivial, fun h => by omega⟩
        · obtain ⟨memo1, e1, hm1⟩ := (ihs memo (d + 1) (d + 1) hm (by omega) (Nat.le_refl _)).2 (by omega)
          simp only [e1]
          have := ihr memo1 d (max acc (max (d + 1) (d + 1 + relSels (fragDepth doc) sub))) hm1 hd (by omega)
          refine ⟨fun h => this.1 (by omega), fun h => ?_⟩
          obtain ⟨memo2, e2, hm2⟩ := this.2 (by omega)
          exact ⟨memo2, by rw [e2]; first | rfl | (congr 2; omega), hm2⟩
  | .spread j rest, hb => by
    simp only [Bounded, Bool.and_eq_true, decide_eq_true_eq] at hb
    have ihr := go_spec MAX doc wf rec k hrec rest hb.2
    intro memo d acc hm hd hacc
    simp only [Spec, SpecSet, relSels, go] at *
    cases hf : doc.frag j with
    | none =>
      have hz : fragDepth doc j = 0 := by
        unfold fragDepth
        have : doc.frags.length ≤ j := by
          unfold Doc.frag at hf; exact List.getElem?_eq_none_iff.mp hf
        simp only [List.getD_eq_getElem?_getD]
        rw [List.getElem?_eq_none (by rw [table_length]; exact this)]
        rfl
      simp only [hz]
      have := ihr memo d acc hm hd hacc
      refine ⟨fun h => this.1 (by omega), fun h => ?_⟩
      obtain ⟨memo2, e2, hm2⟩ := this.2 (by omega)
      exact ⟨memo2, by rw [e2]; first | rfl | (congr 2; omega), hm2⟩
    | some body =>
      simp only []
      cases hl : memo.lookup j with
      | some r =>
        have hr := hm j r hl
        subst hr
        simp only [ge_iff_le]
        by_cases h0 : MAX ≤ d + fragDepth doc j
        · simp only [h0, if_true]
          exact ⟨fun _ => trivial, fun h => by omega⟩
        · simp only [h0, if_false]
          have := ihr memo d (max acc (d + fragDepth doc j)) hm hd (by omega)
          refine ⟨fun h => this.1 (by omega), fun h => ?_⟩
          obtain ⟨memo2, e2, hm2⟩ := this.2 (by omega)
          exact ⟨memo2, by rw [e2]; first | rfl | (congr 2; omega), hm2⟩
      | none =>
        simp only []
        have hb' := hrec j body hb.1 hf memo d hm hd
        have hu := fragDepth_unfold doc wf hf
        simp only [← hu] at hb'
        by_cases h0 : MAX ≤ d + fragDepth doc j
        · simp only [hb'.1 h0]
          exact ⟨fun _ => trivial, fun h => by omega⟩
        · obtain ⟨memo1, e1, hm1⟩ := hb'.2 (by omega)
          simp only [e1]
          have hins : MemoOK doc ((j, (d + fragDepth doc j) - d) :: memo1) :=
            memoOK_insert hm1 (by omega)
          have := ihr _ d (max acc ((d + fragDepth doc j))) hins hd (by omega)
          refine ⟨fun h => this.1 (by omega), fun h => ?_⟩
          obtain ⟨memo2, e2, hm2⟩ := this.2 (by omega)
          exact ⟨memo2, by rw [e2]; first | rfl | (congr 2; omega), hm2⟩

theorem checkSet_spec (MAX : Nat) (doc : Doc) (wf : doc.WF) :
    ∀ k s, Bounded k s = true → SpecSet MAX doc (checkSet MAX doc k s) s
  | 0, s, hb => by
    intro memo d hm hd
    have := go_spec MAX doc wf (fun _ _ _ => .error .fuel) 0 (fun j body hj _ => by omega) s hb memo d d hm hd (Nat.le_refl _)
    simp only [checkSet]
    refine ⟨this.1, fun h => ?_⟩
    obtain ⟨m, e, hm'⟩ := this.2 h
    exact ⟨m, by simp only [] at e; rw [e]; congr 2; omega, hm'⟩
  | k + 1, s, hb => by
    intro memo d hm hd
    have hrec : ∀ j body, j < k + 1 → doc.frag j = some body →
        SpecSet MAX doc (checkSet MAX doc k body) body := by
      intro j body hj hf
      exact checkSet_spec MAX doc wf k body (bounded_mono (by omega) body (wf j body hf))
    have := go_spec MAX doc wf (checkSet MAX doc k) (k + 1) hrec s hb memo d d hm hd (Nat.le_refl _)
    simp only [checkSet]
    refine ⟨this.1, fun h => ?_⟩
    obtain ⟨m, e, hm'⟩ := this.2 h
    exact ⟨m, by simp only [] at e; rw [e]; congr 2; omega, hm'⟩

end Apollo.MaxDepth
