import ApolloModel.Proofs.ParserExactS17
import ApolloModel.Proofs.ParserExactC43
import ApolloModel.Proofs.ParserExactT15
/-
EXACT CHARACTERISATION, part 18 (namespace Apollo.Parse.Exact): `document_accept_iff`.  The sound side (ParserExactS14 repeated with the
guard `itemFitXX`: builderD's `looseFitXX` — only the LAST root operation type of a schema definition / extension may lack its named
type) with all fifteen fields discharged, the complete side (ParserExactC43) for the same guard and the exact follow condition
`DocFollowX`, and their conjunction: `Parser::parse` reports zero errors IF AND ONLY IF the significant tokens are `docToks its ++ EOF`
for a non-empty `its` with `itemFitXX rl` on every item and `DocFollowX its`.
-/
set_option linter.unusedSimpArgs false
namespace Apollo.Parse.Exact
open Apollo.Rowan hiding Str
open Apollo.Lex hiding Str

/-- **the exact item guard**: within the recursion budget and well formed; the two liberties of the accepted language are part of
    `DocItem` (leading `&` / `|`; the last root operation type of a schema definition / extension without its named type) -/
def itemFitXX (b : Nat) : DocItem → Prop
  | .exec _ d => execFit b d
  | .loose l => looseFitXX b l

theorem itemFitXX_of_fit (b : Nat) (i : DocItem) (h : itemFit b i) : itemFitXX b i := by
  cases i with
  | exec oe d => exact h
  | loose l => exact looseFitXX_of_looseFit b l h

theorem itemFitX_of_XX (b : Nat) (i : DocItem) (h : itemFitXX b i) : itemFitX b i := by
  cases i with
  | exec oe d => exact h
  | loose l => exact looseFitX_of_XX b l h

end Apollo.Parse.Exact

namespace Apollo.Parse.Exact.XX
open Apollo.Rowan hiding Str
open Apollo.Lex hiding Str

/-- what one call of a definition parser establishes: it consumed the tokens of ONE item within the budget of the start
    state, and the next significant token may follow it -/
@[reducible] def ItemRes (s s' : PState) : Prop :=
  ∃ (cs : List Tok) (i : DocItem), Toks s = cs ++ Toks s' ∧ NoEof cs ∧ EofEnd s' ∧ TokIs (sig cs) (DocItem.toks i) ∧
    itemFitXX (bud s) i ∧ ∀ q, (sig (Toks s')).head? = some q → itemFollowQ i q

/-- exact soundness of one definition parser, entered the way the dispatcher enters it on a lexer queue -/
def DefSound (H : List Tok → Prop) (m : PI Unit) : Prop :=
  ∀ s s', TW s → EofEnd s → (LexQ (Toks s) ∧ H (Toks s)) → m.run s = .ok () s' → ¬ Doomed s' → ItemRes s s'

/-- **the hypotheses of the document theorem**: exact soundness of the eight type-system definition parsers and the seven
    extension parsers (operation and fragment definitions are theorems: `op_item`, `frag_item`) -/
structure DefExact (n : Nat) : Prop where
  directive : DefSound (DStart "directive".toList) (directiveDefinition n)
  enumDef : DefSound (DStart "enum".toList) (enumTypeDefinition n)
  input : DefSound (DStart "input".toList) (inputObjectTypeDefinition n)
  interface : DefSound (DStart "interface".toList) (interfaceTypeDefinition n)
  object : DefSound (DStart "type".toList) (objectTypeDefinition n)
  scalar : DefSound (DStart "scalar".toList) (scalarTypeDefinition n)
  schema : DefSound (DStart "schema".toList) (schemaDefinition n)
  union : DefSound (DStart "union".toList) (unionTypeDefinition n)
  schemaExt : DefSound (EStart "schema".toList) (schemaExtension n)
  scalarExt : DefSound (EStart "scalar".toList) (scalarTypeExtension n)
  objectExt : DefSound (EStart "type".toList) (objectTypeExtension n)
  interfaceExt : DefSound (EStart "interface".toList) (interfaceTypeExtension n)
  unionExt : DefSound (EStart "union".toList) (unionTypeExtension n)
  enumExt : DefSound (EStart "enum".toList) (enumTypeExtension n)
  inputExt : DefSound (EStart "input".toList) (inputObjectTypeExtension n)

/-! ### executable definitions as items -/

theorem item_of_lexec (b : Nat) (x : List Ast.Tok) (h : LExecDef b x) : ∃ i : DocItem, i.toks = x ∧ itemFitXX b i ∧ ∀ q, itemFollowQ i q := by
  rcases h with (⟨ty, nm, vs, ds, ss, rfl, hv, hd, hne, hb, hf⟩ | ⟨ss, hne, rfl, hb, hf⟩) | ⟨nm, tc, ds, ss, rfl, hn, hd, hne, hb, hf⟩
  · exact ⟨.exec false (.operation ty nm vs ds ss), tOperation_eq ty nm vs ds ss, ⟨hv, hd, hne, hb, hf⟩, fun _ => trivial⟩
  · refine ⟨.exec true (.operation .query none [] [] ss), ?_, ⟨(by intro v hv; cases hv), (by intro d hd; cases hd), hne, hb, hf⟩, fun _ => trivial⟩
    show Ast.tDefinition true (.operation .query none [] [] ss) = _
    rw [shorthand_toks]; simp [Ast.tSelSet]
  · exact ⟨.exec false (.fragment nm tc ds ss), rfl, ⟨hn, hd, hne, hb, hf⟩, fun _ => trivial⟩

theorem itemRes_of_cons {s s' : PState} (c : Cons s s' (LExecDef (bud s))) : ItemRes s s' := by
  obtain ⟨cs, x, a, b, e, d, hl⟩ := c
  obtain ⟨i, rfl, hfit, hfol⟩ := item_of_lexec _ _ hl
  exact ⟨cs, i, a, b, e, d, hfit, fun q _ => hfol q⟩

/-- `operation_definition`, from any state -/
theorem op_item (n : Nat) (s s' : PState) (w : TW s) (he : EofEnd s)
    (h : (operationDefinition n).run s = .ok () s') (hnd : ¬ Doomed s') : ItemRes s s' :=
  itemRes_of_cons ((operationDefinition_sound n s s' w he h hnd).weaken (fun _ hx => Or.inl hx))

/-- `fragment_definition`, entered on the keyword (on a description it is never error-free) -/
theorem frag_item (n : Nat) (s s' : PState) (w : TW s) (he : EofEnd s)
    (hq : LexQ (Toks s) ∧ DStart "fragment".toList (Toks s))
    (h : (fragmentDefinition n).run s = .ok () s') (hnd : ¬ Doomed s') : ItemRes s s' := by
  obtain ⟨hs, t, rest, ht, hstart⟩ := hq
  rcases hstart with ⟨_, hd⟩ | ⟨hk, _⟩
  · have hkn : t.kind = .name := hs.headKw (by rw [ht]; rfl) "fragment" 'f' "ragment".toList rfl rfl hd
    exact itemRes_of_cons ((fragmentDefinition_sound n s s' t rest w he ht hkn hd h hnd).weaken (fun _ hx => Or.inr hx))
  · exfalso
    obtain ⟨_, _, _, _, a4⟩ := (acc_fragmentDefinition_desc n (R := fun _ _ => False)).2 s () s' w he ⟨t, by rw [ht]; rfl, hk⟩ h hnd
    rcases a4 with ⟨_, _, f⟩ | f <;> exact f

/-! ### the dispatch -/

/-- `extensions()` reached on the Name `extend` -/
theorem extensions_soundG {n : Nat} (L : DefExact n) (s s' : PState) (t : Tok) (rest : List Tok) (w : TW s) (he : EofEnd s)
    (hs : LexQ (Toks s)) (hc : s.current = some t) (ht : Toks s = t :: rest) (hk : t.kind = .name) (hd : t.data = "extend".toList)
    (h : (extensions n).run s = .ok () s') (hnd : ¬ Doomed s') : ItemRes s s' := by
  unfold extensions at h
  obtain ⟨d, s1, h1, h2⟩ := bind_dec (peekDataN 2) _ s s' () h
  obtain ⟨rfl, hdat⟩ := peekDataN2_spec s s1 d t rest w hc ht (by rw [hk]; rfl) h1
  have start : ∀ wd : String, kwOpt wd d = true → LexQ (Toks s1) ∧ EStart wd.toList (Toks s1) := by
    intro wd hw
    have := kwOpt_eq hw
    rw [hdat] at this
    cases hq : (sig rest).head? with
    | none => rw [hq] at this; cases this
    | some t2 =>
      rw [hq] at this
      exact ⟨hs, t, rest, t2, ht, hk, hd, hq, by simpa using this⟩
  repeat' split at h2
  all_goals first
    | exact L.schemaExt s1 s' w he (start _ (by assumption)) h2 hnd
    | exact L.scalarExt s1 s' w he (start _ (by assumption)) h2 hnd
    | exact L.objectExt s1 s' w he (start _ (by assumption)) h2 hnd
    | exact L.interfaceExt s1 s' w he (start _ (by assumption)) h2 hnd
    | exact L.unionExt s1 s' w he (start _ (by assumption)) h2 hnd
    | exact L.enumExt s1 s' w he (start _ (by assumption)) h2 hnd
    | exact L.inputExt s1 s' w he (start _ (by assumption)) h2 hnd
    | exact absurd (errAndPop_never s1 s' w he h2) hnd


/-- `select_definition(d)` with `d` the keyword the dispatcher looked at -/
theorem selectDefinition_soundG {n : Nat} (L : DefExact n) (d : Str) (s s' : PState) (t : Tok) (rest : List Tok)
    (w : TW s) (he : EofEnd s) (hs : LexQ (Toks s)) (hc : s.current = some t) (ht : Toks s = t :: rest)
    (hstart : ((t.kind = .name ∨ t.kind = .lCurly) ∧ t.data = d) ∨
      (t.kind = .stringValue ∧ ∃ t2, (sig rest).head? = some t2 ∧ t2.data = d))
    (h : (selectDefinition n d).run s = .ok () s') (hnd : ¬ Doomed s') : ItemRes s s' := by
  have start : ∀ wd : String, kw wd d = true → LexQ (Toks s) ∧ DStart wd.toList (Toks s) := by
    intro wd hw
    have := kw_eq hw
    subst this
    exact ⟨hs, t, rest, ht, hstart⟩
  have errc : errAndPop.run s = .ok () s' → ItemRes s s' := fun h' => absurd (errAndPop_never s s' w he h') hnd
  unfold selectDefinition at h
  by_cases h1 : kw "directive" d = true
  · simp only [h1, if_true] at h; exact L.directive s s' w he (start _ h1) h hnd
  simp only [h1, Bool.false_eq_true, if_false] at h
  by_cases h2 : kw "enum" d = true
  · simp only [h2, if_true] at h; exact L.enumDef s s' w he (start _ h2) h hnd
  simp only [h2, Bool.false_eq_true, if_false] at h
  by_cases h3 : kw "extend" d = true
  · simp only [h3, if_true] at h
    have hd := kw_eq h3
    rcases hstart with ⟨hk, hdat⟩ | ⟨hk, t2, hq, hdat⟩
    · rcases hk with hk | hk
      · exact extensions_soundG L s s' t rest w he hs hc ht hk (by rw [hdat, hd]) h hnd
      · exfalso
        have := hs t (by rw [ht]; exact List.mem_cons_self ..) 'e' "xtend".toList (by rw [hdat, hd]; rfl) (by decide)
        rw [hk] at this
        cases this
    · -- a description followed by `extend`: `extensions` looks at `extend` itself and reports an error
      unfold extensions at h
      obtain ⟨d2, s1, e1, e2⟩ := bind_dec (peekDataN 2) _ s s' () h
      obtain ⟨rfl, hdat2⟩ := peekDataN2_spec s s1 d2 t rest w hc ht (by rw [hk]; rfl) e1
      rw [hq] at hdat2
      simp only [Option.map_some] at hdat2
      rw [hdat, hd] at hdat2
      subst hdat2
      have e : ∀ wd : String, wd ≠ "extend" → kwOpt wd (some "extend".toList) = false := by
        intro wd hne
        simp only [kwOpt, beq_eq_false_iff_ne, ne_eq, Option.some.injEq]
        intro h'; exact hne (String.ext_iff.mpr (by simpa using h'.symm))
      simp only [e "schema" (by decide), e "scalar" (by decide), e "type" (by decide), e "interface" (by decide),
        e "union" (by decide), e "enum" (by decide), e "input" (by decide), Bool.false_eq_true, if_false] at e2
      exact errc e2
  simp only [h3, Bool.false_eq_true, if_false] at h
  by_cases h4 : kw "fragment" d = true
  · simp only [h4, if_true] at h; exact frag_item n s s' w he (start _ h4) h hnd
  simp only [h4, Bool.false_eq_true, if_false] at h
  by_cases h5 : kw "input" d = true
  · simp only [h5, if_true] at h; exact L.input s s' w he (start _ h5) h hnd
  simp only [h5, Bool.false_eq_true, if_false] at h
  by_cases h6 : kw "interface" d = true
  · simp only [h6, if_true] at h; exact L.interface s s' w he (start _ h6) h hnd
  simp only [h6, Bool.false_eq_true, if_false] at h
  by_cases h7 : kw "type" d = true
  · simp only [h7, if_true] at h; exact L.object s s' w he (start _ h7) h hnd
  simp only [h7, Bool.false_eq_true, if_false] at h
  by_cases h8 : (kw "query" d || kw "mutation" d || kw "subscription" d || kw "{" d) = true
  · simp only [h8, if_true] at h
    simp only [Bool.or_eq_true] at h8
    rcases h8 with ((h8 | h8) | h8) | h8
    · exact op_item n s s' w he h hnd
    · exact op_item n s s' w he h hnd
    · exact op_item n s s' w he h hnd
    · exact op_item n s s' w he h hnd
  simp only [h8, Bool.false_eq_true, if_false] at h
  by_cases h9 : kw "scalar" d = true
  · simp only [h9, if_true] at h; exact L.scalar s s' w he (start _ h9) h hnd
  simp only [h9, Bool.false_eq_true, if_false] at h
  by_cases h10 : kw "schema" d = true
  · simp only [h10, if_true] at h; exact L.schema s s' w he (start _ h10) h hnd
  simp only [h10, Bool.false_eq_true, if_false] at h
  by_cases h11 : kw "union" d = true
  · simp only [h11, if_true] at h; exact L.union s s' w he (start _ h11) h hnd
  simp only [h11, Bool.false_eq_true, if_false] at h
  exact errc h

/-- **the dispatcher of `document()`**: on a token of a kind other than EOF, an error-free run consumes exactly

    the tokens of one definition of the grammar -/
theorem dispatch_soundG {n : Nat} (L : DefExact n) (s s' : PState) (t : Tok) (rest : List Tok)
    (w : TW s) (he : EofEnd s) (hs : LexQ (Toks s)) (hc : s.current = some t) (ht : Toks s = t :: rest)
    (h : (documentDispatch n t.kind).run s = .ok () s') (hnd : ¬ Doomed s') : ItemRes s s' := by
  have errc : ∀ s1, s1 = s → errAndPop.run s1 = .ok () s' → ItemRes s s' := fun s1 e h' => by
    subst e
    exact absurd (errAndPop_never s1 s' w he h') hnd
  unfold documentDispatch at h
  by_cases hk : (t.kind == .stringValue) = true
  · simp only [hk, if_true] at h
    have hk' : t.kind = .stringValue := by simpa using hk
    obtain ⟨d, s1, e1, e2⟩ := bind_dec (peekDataN 2) _ s s' () h
    obtain ⟨rfl, hdat⟩ := peekDataN2_spec s s1 d t rest w hc ht (by rw [hk']; rfl) e1
    cases hq : (sig rest).head? with
    | none =>
      rw [hq] at hdat; subst hdat
      exact errc s1 rfl e2
    | some t2 =>
      rw [hq] at hdat; subst hdat
      exact selectDefinition_soundG L t2.data s1 s' t rest w he hs hc ht (.inr ⟨hk', t2, hq, rfl⟩) e2 hnd
  · simp only [hk, Bool.false_eq_true, if_false] at h
    by_cases hk2 : (t.kind == .name || t.kind == .lCurly) = true
    · simp only [hk2, if_true] at h
      obtain ⟨d, s1, e1, e2⟩ := bind_dec peekData _ s s' () h
      obtain ⟨rfl, hdat⟩ := peekData_cur s s1 d t hc e1
      subst hdat
      have hk2' : t.kind = .name ∨ t.kind = .lCurly := by simpa using hk2
      exact selectDefinition_soundG L t.data s1 s' t rest w he hs hc ht (.inl ⟨hk2', rfl⟩) e2 hnd
    · simp only [hk2, Bool.false_eq_true, if_false] at h
      exact errc s rfl h


/-! ### follow conditions: from the actual token to the abstract syntax -/

theorem itemFollowX_of_tok (i : DocItem) (f : Option Ast.Tok) (q : Tok) (hq : FollowTokOf f q) (h : itemFollowQ i q) : itemFollowX i f := by
  cases i with
  | exec oe d => trivial
  | loose l =>
    intro ho hf
    subst hf
    have ha : astOfV q = some (.p .lCurly) := hq
    exact h ho (kind_of_astOfV ha)

theorem looseToks_ne (l : LooseDef) : l.toks ≠ [] := by
  intro h
  have hl := congrArg List.length h
  cases l <;>
    simp only [LooseDef.toks, scalarToks, unionToks, enumToks, inputToks, directiveToks, schemaToks, objectLikeToks, kwE, kwPart_true,
      Ast.tEnumBody, Ast.tInputBody, List.length_append, List.length_cons, List.length_nil] at hl <;> omega

theorem itemToks_ne (b : Nat) (i : DocItem) (h : itemFitXX b i) : i.toks ≠ [] := by
  cases i with
  | loose l => exact looseToks_ne l
  | exec oe d =>
    have hl := execFit_lexec b oe d h
    rcases hl with (⟨ty, nm, vs, ds, ss, e, _⟩ | ⟨ss, _, e, _⟩) | ⟨nm, tc, ds, ss, e, _⟩
    · show Ast.tDefinition oe d ≠ []
      rw [e]; simp [tOperation]
    · show Ast.tDefinition oe d ≠ []
      rw [e]; simp
    · show Ast.tDefinition oe d ≠ []
      rw [e]; simp [Ast.tDefinition]

/-- the first significant token of a queue that starts with the spelling of a non-empty token list -/
theorem sig_head_spelled (cs rest : List Tok) (x : List Ast.Tok) (hx : TokIs (sig cs) x) (hne : x ≠ []) :
    ∃ q, (sig (cs ++ rest)).head? = some q ∧ FollowTokOf x.head? q := by
  cases x with
  | nil => exact absurd rfl hne
  | cons a x' =>
    cases hc : sig cs with
    | nil => rw [hc] at hx; simp [TokIs] at hx
    | cons q c' =>
      rw [hc] at hx
      refine ⟨q, by rw [sig_append, hc]; rfl, ?_⟩
      have : astOfV q = some a := by
        have := congrArg List.head? hx
        simpa using this
      exact this

/-! ### the loop of `document()` -/

theorem docLoop_soundG {n : Nat} (L : DefExact n) (B : Nat) : ∀ (fuel : Nat) (s s' : PState), TW s → EofEnd s → LexQ (Toks s) → bud s = B →
    (peekWhileLoop (documentStep n) fuel).run s = .ok () s' → ¬ Doomed s' →
    ∃ (cs : List Tok) (its : List DocItem), Toks s = cs ++ Toks s' ∧ NoEof cs ∧ EofEnd s' ∧ TokIs (sig cs) (docToks its) ∧
      (∀ i ∈ its, itemFitXX B i) ∧ DocFollowX its ∧ AtEof s' ∧
      ∀ q, (sig (Toks s)).head? = some q → FollowTokOf (docToks its).head? q := by
  intro fuel
  induction fuel with
  | zero => intro s s' _ _ _ _ h; simp [peekWhileLoop, PI.outOfFuel] at h
  | succ fuel ih =>
    intro s s' w he hs hB h hnd
    unfold peekWhileLoop at h
    obtain ⟨ko, sP, hp, h2⟩ := bind_dec peek _ s s' () h
    obtain ⟨o, p', hko⟩ := peek_obs s sP ko w hp
    subst hko
    have heP : EofEnd sP := eofEnd_eat he p'.eat (by intro x hx; cases hx)
    cases o with
    | none =>
      simp only [Option.map_none] at h2
      rw [run_pure] at h2
      injection h2 with _ h2
      subst h2
      exfalso
      have hndP : ¬ Doomed sP := hnd
      have hne := eofEnd_nonempty sP heP hndP
      have hh := p'.head
      rw [← p'.toks] at hh
      cases hq : Toks sP with
      | nil => exact hne hq
      | cons a b => rw [hq] at hh; cases hh
    | some t =>
      simp only [Option.map_some] at h2
      have h3 := getCurrent_dec _ sP s' () h2
      obtain ⟨b, sB, hb, h4⟩ := bind_dec (documentStep n t.kind) _ sP s' () h3
      have htP : Toks sP = t :: (Toks sP).tail := p'.head_cons
      unfold documentStep at hb
      by_cases hk : (t.kind == .eof) = true
      · -- the EOF token: the loop stops
        simp only [hk, if_true] at hb
        obtain ⟨_, s0, e0, e1⟩ := bind_dec assertRecZero _ sP sB b hb
        rw [assertRecZero_run] at e0
        injection e0 with _ e0
        subst e0
        rw [run_pure] at e1
        injection e1 with e1 e2
        subst e1 e2
        simp only [Bool.false_eq_true, if_false] at h4
        rw [run_pure] at h4
        injection h4 with _ h4
        subst h4
        have hke : t.kind = .eof := by simpa using hk
        refine ⟨[], [], by rw [toks_flagged, p'.toks]; rfl, (by intro x hx; cases hx), eofEnd_flagged heP, TokIs.nil,
          (by intro i hi; cases hi), trivial, ⟨t, by rw [toks_flagged, htP]; rfl, hke⟩, ?_⟩
        intro q hq
        rw [← p'.toks, htP] at hq
        have hsg : sig (t :: (Toks sP).tail) = t :: sig (Toks sP).tail := by simp [sig, isIgnoredKind, hke]
        rw [hsg] at hq
        simp only [List.head?_cons, Option.some.injEq] at hq
        subst hq
        exact hke
      · simp only [hk, Bool.false_eq_true, if_false] at hb
        obtain ⟨_, s0, e0, eD⟩ := bind_dec assertRecZero _ sP sB b hb
        rw [assertRecZero_run] at e0
        injection e0 with _ e0
        subst e0
        obtain ⟨_, sD, eD2, e1⟩ := bind_dec (documentDispatch n t.kind) _ (flagged sP) sB b eD
        rw [run_pure] at e1
        injection e1 with e1 e2
        subst e1 e2
        simp only [if_true] at h4
        have h5 := getCurrent_dec _ sD s' () h4
        have aD := good_documentDispatch (defLemmas n) t.kind (flagged sP) () sD (tw_flagged p'.w) eD2
        by_cases hsame : (sP.current == sD.current) = true
        · simp only [hsame, if_true] at h5
          exact absurd h5 (stuck_not_ok _ _ _)
        · simp only [hsame, Bool.false_eq_true, if_false] at h5
          have hndD : ¬ Doomed sD := fun d => hnd ((good_peekWhileLoop _ (good_documentStep (defLemmas n)) fuel sD () s' aD.w h5).doom d)
          have hsP : LexQ (Toks sP) := by rw [p'.toks]; exact hs
          have hBf : bud (flagged sP) = B := by rw [show bud (flagged sP) = bud sP from rfl, bud_peek p', hB]
          obtain ⟨c1, i1, t1, n1, e1', hx1, hfit1, hfol1⟩ := dispatch_soundG L (flagged sP) sD t (Toks sP).tail (tw_flagged p'.w)
            (eofEnd_flagged heP) (by rw [toks_flagged]; exact hsP) p'.current (by rw [toks_flagged]; exact htP) eD2 hndD
          rw [hBf] at hfit1
          rw [toks_flagged] at t1
          have hsD : LexQ (Toks sD) := by rw [t1] at hsP; exact hsP.suffix
          have hBD : bud sD = B := by rw [bud_adv aD, hBf]
          obtain ⟨c2, its2, t2, n2, e2', hx2, hfit2, hfol2, hat, hlink⟩ := ih sD s' aD.w e1' hsD hBD h5 hnd
          have hne1 := itemToks_ne B i1 hfit1
          refine ⟨c1 ++ c2, i1 :: its2, by rw [← p'.toks, t1, t2, List.append_assoc], noEof_append n1 n2, e2', ?_, ?_, ⟨?_, hfol2⟩, hat, ?_⟩
          · rw [sig_append]
            have : docToks (i1 :: its2) = i1.toks ++ docToks its2 := by simp [docToks]
            rw [this]; exact hx1.append hx2
          · intro i hi'
            rcases List.mem_cons.mp hi' with rfl | hi'
            · exact hfit1
            · exact hfit2 i hi'
          · -- the follow condition of the first item: the next significant token is the head of what follows
            have hnD : Toks sD ≠ [] := eofEnd_nonempty sD e1' hndD
            cases hsg : (sig (Toks sD)).head? with
            | none =>
              exfalso
              obtain ⟨e, hh, hke⟩ : ∃ e, (sig (Toks sD)).getLast? = some e ∧ e.kind = .eof := by
                rcases e1' with d | ⟨pre, e, hq, hke, _⟩
                · exact absurd d hndD
                · refine ⟨e, ?_, hke⟩
                  rw [hq, sig_append]
                  have : sig [e] = [e] := by simp [sig, isIgnoredKind, hke]
                  rw [this]; simp
              cases hs0 : sig (Toks sD) with
              | nil => rw [hs0] at hh; cases hh
              | cons a r => rw [hs0] at hsg; cases hsg
            | some q => exact itemFollowX_of_tok i1 _ q (hlink q hsg) (hfol1 q hsg)
          · intro q hq
            have : docToks (i1 :: its2) = i1.toks ++ docToks its2 := by simp [docToks]
            rw [this]
            obtain ⟨q', hq', hf'⟩ := sig_head_spelled c1 (Toks sD) i1.toks hx1 hne1
            rw [← p'.toks, t1, hq'] at hq
            injection hq with hq
            subst hq
            cases hti : i1.toks with
            | nil => exact absurd hti hne1
            | cons a x' => rw [hti] at hf'; exact hf'

/-! ### `document()` and the entry point -/

theorem documentBody_soundG {n : Nat} (L : DefExact n) (B : Nat) (s s' : PState) (w : TW s) (he : EofEnd s) (hs : LexQ (Toks s)) (hB : bud s = B)
    (hset : Settled s) (h : (documentBody n).run s = .ok () s') (hnd : ¬ Doomed s') :
    ∃ (cs : List Tok) (its : List DocItem) (e : Tok), Toks s = cs ++ [e] ∧ e.kind = .eof ∧ NoEof cs ∧ TokIs (sig cs) (docToks its) ∧ its ≠ [] ∧
      (∀ i ∈ its, itemFitXX B i) ∧ DocFollowX its := by
  unfold documentBody at h
  obtain ⟨ko, sP, hp, h2⟩ := bind_dec peek _ s s' () h
  obtain ⟨o, p, hko⟩ := peek_obs s sP ko w hp
  subst hko
  have heP : EofEnd sP := p.eofEnd he
  obtain ⟨_, sE, hE, h3⟩ := bind_dec (errIfEmpty _) _ sP s' () h2
  obtain ⟨_, sL, hL, h4⟩ := bind_dec (peekWhile (documentStep n)) _ sE s' () h3
  have o4 := pushIgnored_obs sL s' h4
  have hndL : ¬ Doomed sL := fun d => hnd (o4.doomed.mpr d)
  -- `errIfEmpty`: an error unless a token other than EOF is there
  unfold errIfEmpty at hE
  by_cases hemp : (o.map (·.kind) == none || o.map (·.kind) == some .eof) = true
  · exfalso
    simp only [hemp, if_true] at hE
    have gE := good_err sP () sE p.w hE
    have gL := good_peekWhile _ (good_documentStep (defLemmas n)) sE () sL gE.w hL
    obtain ⟨_, d⟩ := err_adv sP sE p.w hE
    have hndP : ¬ Doomed sP := fun dd => hndL (gL.doom (gE.doom dd))
    exact hndL (gL.doom (d (eofEnd_nonempty sP heP hndP)))
  · simp only [hemp, Bool.false_eq_true, if_false] at hE
    rw [run_pure] at hE
    injection hE with _ hE
    subst hE
    obtain ⟨fuel, h5⟩ := srcLen_dec _ sP sL () hL
    have hsP : LexQ (Toks sP) := by rw [p.toks]; exact hs
    have hBP : bud sP = B := by rw [bud_peek p, hB]
    obtain ⟨cs, its, t1, n1, e1, hx, hfit, hfol, hat, _⟩ := docLoop_soundG L B _ sP sL p.w heP hsP hBP h5 hndL
    obtain ⟨e, hte, hke⟩ := atEof_single sL e1 hndL hat
    -- the first token is significant and not EOF, so something was consumed
    obtain ⟨t, ht⟩ : ∃ t, o = some t := by
      cases o with
      | none => simp at hemp
      | some t => exact ⟨t, rfl⟩
    subst ht
    have hkt : t.kind ≠ .eof := by
      intro hk; simp [hk] at hemp
    have hni : isIgnoredKind t.kind = false := by
      have hcur : s.current = some t := by
        have h1 := hset.1
        have h2 := p.head
        rw [h1, ← h2]
      exact hset.2 t hcur
    have htP : Toks sP = t :: (Toks sP).tail := p.head_cons
    have hcs : ∃ cs', cs = t :: cs' := by
      cases cs with
      | nil =>
        exfalso
        rw [hte] at t1
        simp only [List.nil_append] at t1
        rw [t1] at htP
        injection htP with h1 _
        exact hkt (by rw [← h1]; exact hke)
      | cons a cs' =>
        rw [htP] at t1
        injection t1 with h1 _
        exact ⟨cs', by rw [h1]⟩
    obtain ⟨cs', rfl⟩ := hcs
    refine ⟨t :: cs', its, e, by rw [← p.toks, t1, hte], hke, n1, hx, ?_, hfit, hfol⟩
    intro hi0
    subst hi0
    have : sig (t :: cs') = t :: sig cs' := by simp [sig, hni]
    rw [this] at hx
    simp [TokIs, docToks] at hx


/-- `document()`: the node, the ignored tokens in front, the body -/
theorem document_sound_runG {n : Nat} (L : DefExact n) (B : Nat) (s s' : PState) (w : TW s) (he : EofEnd s) (hs : LexQ (Toks s)) (hB : bud s = B)
    (h : (document n).run s = .ok () s') (hnd : ¬ Doomed s') :
    ∃ (ts : List Tok) (its : List DocItem) (e : Tok), sig (Toks s) = ts ++ [e] ∧ e.kind = .eof ∧ TokIs ts (docToks its) ∧ its ≠ [] ∧
      (∀ i ∈ its, itemFitXX B i) ∧ DocFollowX its := by
  unfold document at h
  obtain ⟨s0, s2, o0, hr0, o2⟩ := withNode_dec "DOCUMENT" (documentBody n) s s' () h
  obtain ⟨_, s1, hsk, hb⟩ := bind_dec skipIgnored _ s0 s2 () hr0
  obtain ⟨ign, e01', hall, hset⟩ := skipIgnored_spec s0 s1 (o0.w w) hsk
  have e01 : Eat s s1 ign := by simpa using (Eat.ofObsEq o0 w).trans e01'
  have he1 : EofEnd s1 := eofEnd_eat he e01 (noEof_ignored ign hall)
  have hnd2 : ¬ Doomed s2 := fun d => hnd (o2.doomed.mpr d)
  have hs1 : LexQ (Toks s1) := by rw [e01.toks] at hs; exact hs.suffix
  have hB1 : bud s1 = B := by rw [bud_eat e01, hB]
  obtain ⟨cs, its, e, t1, hke, _, hx, hdoc⟩ := documentBody_soundG L B s1 s2 e01.w he1 hs1 hB1 hset hb hnd2
  refine ⟨sig cs, its, e, ?_, hke, hx, hdoc⟩
  rw [e01.toks, t1, sig_append, sig_append, sig_ignored ign hall]
  have : sig [e] = [e] := by simp [sig, isIgnoredKind, hke]
  rw [this]; rfl


theorem parseDocument_sound_exactG (L : ∀ n, DefExact n) (rl : Nat) (src : Str) (root : Elem)
    (h : (parse .document none rl src).outcome = .tree root) (herr : (parse .document none rl src).errors = []) :
    LexClean src ∧ ∃ (ts : List Tok) (its : List DocItem) (e : Tok), sig (srcToks src) = ts ++ [e] ∧ e.kind = .eof ∧
      TokIs ts (docToks its) ∧ its ≠ [] ∧ (∀ i ∈ its, itemFitXX rl i) ∧ DocFollowX its := by
  unfold parse runEntry at h herr
  simp only [Entry.standalone, Entry.grammar] at h herr
  have hinv := init_inv src none rl
  have w0 : TW (initState src none rl) := ⟨rfl, by intro h; simp [initState] at h⟩
  have htoks : Toks (initState src none rl) = srcToks src := rfl
  have hdoom : Doomed (initState src none rl) ↔ ¬ LexClean src := by
    unfold Doomed LexClean
    show ([] ≠ [] ∨ hasErr (stream (initState src none rl).lx) = true) ↔ _
    have : (initState src none rl).lx = (initState src none 0).lx := rfl
    rw [this]
    constructor
    · rintro (h | h)
      · exact absurd rfl h
      · simp [h]
    · intro h; right; simpa using h
  have he0 : EofEnd (initState src none rl) := by
    right
    obtain ⟨pre, e, hp, he, hno⟩ := stream_eof_end src.length (initState src none 0).lx (Nat.le_refl _) rfl rfl
    exact ⟨pre, e, by rw [htoks]; exact hp, he, hno⟩
  cases hr : (document (fuelFor src)).run (initState src none rl) with
  | abort w => simp [hr] at h
  | panic m => simp [hr] at h
  | ok a s =>
    simp only [hr] at h herr
    have gd := good_withNode "DOCUMENT" _ (good_documentBody (defLemmas (fuelFor src))) _ a s w0 (by unfold document at hr; exact hr)
    -- the final state: no error recorded, and the lexer is exhausted
    obtain ⟨hfin, hlim⟩ := PI.run_ok (document (fuelFor src)) _ hinv a s hr
    obtain ⟨cs, s2, _, _, hrun, _, _, hlx, _, _, _⟩ :=
      withNode_result "DOCUMENT" (documentBody (fuelFor src)) _ hinv a s hr
    have hi0 : Inv (rawStartNode "DOCUMENT" { initState src none rl with builder := { (initState src none rl).builder with children := (initState src none rl).builder.children ++ (initState src none rl).pending.map pendingElem }, pending := [] }) :=
      ⟨fun _ => by simp [initState, Builder.new, rawStartNode, Builder.startNode, textList, pendingText, curText],
       fun p hp => by simp [initState, Builder.new, rawStartNode, Builder.startNode] at hp; simp [hp, initState, Builder.new, rawStartNode, Builder.startNode],
       fun hfin => by simp [initState, rawStartNode] at hfin, fun t ht => by simp [initState, rawStartNode] at ht,
       fun ha => by simp [initState, rawStartNode] at ha⟩
    obtain ⟨u, s1, hsk, hbody⟩ := bind_dec skipIgnored _ _ s2 a hrun
    obtain ⟨hi1, hl1⟩ := PI.run_ok skipIgnored _ hi0 u s1 hsk
    have hl1' : s1.lx.limit = none := by rw [hl1]; rfl
    obtain ⟨_, hex2, _⟩ := documentBody_final (fuelFor src) s1 s2 hi1 hl1' hbody
    have hsrc : s.lx.src = [] := by rw [hlx]; exact hex2.2
    have hnd : ¬ Doomed s := by
      rintro (d | d)
      · exact d herr
      · rw [hasErr_src_nil s.lx gd.w.limit hsrc] at d; cases d
    have hnd0 : ¬ Doomed (initState src none rl) := fun d => hnd (gd.doom d)
    refine ⟨Classical.byContradiction (fun hc => hnd0 (hdoom.mpr hc)), ?_⟩
    have := document_sound_runG (L (fuelFor src)) rl _ s w0 he0 (by rw [htoks]; exact lexQ_srcToks src) (by simp [bud, initState]) hr hnd
    rw [htoks] at this
    exact this


/-- **the document sandwich at the exact budget, parameterised**: given the exact soundness of the fifteen type-system
    definition / extension parsers, zero errors IMPLIES the item decomposition with `itemFit rl` and the exact follow
    condition `DocFollowX`, and the decomposition with the (stronger) guard `DocFollowOk` IMPLIES zero errors.  The two
    differ exactly by documents in which `{` (a shorthand query) directly follows a type-system definition whose braces
    body IS written (`type T { a: Int } { b }` is accepted). -/
theorem document_sandwichG (L : ∀ n, DefExact n) (rl : Nat) (src : Str) :
    ((parse .document none rl src).errors = [] →
      LexClean src ∧ ∃ (ts : List Tok) (its : List DocItem) (e : Tok), sig (srcToks src) = ts ++ [e] ∧ e.kind = .eof ∧
        TokIs ts (docToks its) ∧ its ≠ [] ∧ (∀ i ∈ its, itemFitXX rl i) ∧ DocFollowX its) ∧
    ((LexClean src ∧ ∃ (ts : List Tok) (its : List DocItem) (e : Tok), sig (srcToks src) = ts ++ [e] ∧ e.kind = .eof ∧
        TokIs ts (docToks its) ∧ its ≠ [] ∧ (∀ i ∈ its, itemFit rl i) ∧ DocFollowOk its) →
      (parse .document none rl src).errors = []) := by
  constructor
  · intro herr
    obtain ⟨root, hroot⟩ := parseDocument_tree none rl src
    exact parseDocument_sound_exactG L rl src root hroot herr
  · rintro ⟨hclean, ts, its, e, h1, h2, h3, h4, h5, h6⟩
    exact parseDocument_complete_items rl src its ts e hclean h1 h2 h3 h4 h5 h6

/-- adaptor for the per-parser lemmas: consumed `l.toks` within the budget, the state afterwards is settled, and the
    current token is not `{` when the braces body is absent -/
theorem defSound_of_loose (H : List Tok → Prop) (m : PI Unit)
    (h : ∀ s s', TW s → EofEnd s → LexQ (Toks s) → H (Toks s) → m.run s = .ok () s' → ¬ Doomed s' →
      ∃ (cs : List Tok) (l : LooseDef), Toks s = cs ++ Toks s' ∧ NoEof cs ∧ EofEnd s' ∧ TokIs (sig cs) l.toks ∧ looseFitXX (bud s) l ∧
        Settled s' ∧ (openBody l → ∀ t, s'.current = some t → t.kind ≠ .lCurly)) : DefSound H m := by
  intro s s' w he hq hr hnd
  obtain ⟨cs, l, a, b, c, d, e, hset, f⟩ := h s s' w he hq.1 hq.2 hr hnd
  refine ⟨cs, .loose l, a, b, c, d, e, ?_⟩
  intro q hq' ho
  refine f ho q ?_
  rw [hset.1, ← settled_sig_head s' hset]
  exact hq'

/-- a field proved against the guard `itemFit` is a field for `itemFitXX` -/
theorem defSound_of_fit (H : List Tok → Prop) (m : PI Unit) (h : Exact.DefSound H m) : DefSound H m := by
  intro s s' w he hq hr hnd
  obtain ⟨cs, i, a, b, c, d, e, f⟩ := h s s' w he hq hr hnd
  exact ⟨cs, i, a, b, c, d, itemFitXX_of_fit _ _ e, f⟩

end Apollo.Parse.Exact.XX

namespace Apollo.Parse.Exact
open Apollo.Rowan hiding Str
open Apollo.Lex hiding Str

/-- all fifteen fields, for the exact guard -/
theorem defExactXX (n : Nat) : XX.DefExact n where
  directive := XX.defSound_of_fit _ _ (directiveDef_sound n)
  enumDef := XX.defSound_of_fit _ _ (enumDef_sound n)
  input := XX.defSound_of_fit _ _ (inputDef_sound n)
  interface := XX.defSound_of_fit _ _ (interfaceDef_sound n)
  object := XX.defSound_of_fit _ _ (objectDef_sound n)
  scalar := XX.defSound_of_fit _ _ (scalarDef_sound n)
  schema := XX.defSound_of_loose _ _ (fun s s' w he hq hs hr hnd => schemaDef_soundXX n s s' w he hq hs hr hnd)
  union := XX.defSound_of_fit _ _ (unionDef_sound n)
  schemaExt := XX.defSound_of_loose _ _ (fun s s' w he hq hs hr hnd => schemaExt_soundXX n s s' w he hq hs hr hnd)
  scalarExt := XX.defSound_of_fit _ _ (scalarExt_sound n)
  objectExt := XX.defSound_of_fit _ _ (objectExt_sound n)
  interfaceExt := XX.defSound_of_fit _ _ (interfaceExt_sound n)
  unionExt := XX.defSound_of_fit _ _ (unionExt_sound n)
  enumExt := XX.defSound_of_fit _ _ (enumExt_sound n)
  inputExt := XX.defSound_of_fit _ _ (inputExt_sound n)

theorem item_headAXX (b : Nat) (i : DocItem) (h : itemFitXX b i) : ∃ a x', i.toks = a :: x' ∧ HeadA a := by
  cases i with
  | loose l => exact looseDef_headA l
  | exec oe d => exact item_headA b (.exec oe d) h

theorem docToks_headXX (b : Nat) : ∀ r : List DocItem, (∀ i ∈ r, itemFitXX b i) →
    (docToks r).head? = none ∨ ∃ a, (docToks r).head? = some a ∧ HeadA a
  | [], _ => Or.inl rfl
  | j :: r', h => by
    obtain ⟨a, x', e, ha⟩ := item_headAXX b j (h j (by simp))
    refine Or.inr ⟨a, ?_, ha⟩
    have : docToks (j :: r') = j.toks ++ docToks r' := by simp [docToks]
    rw [this, e]; rfl

theorem docOkZ_of_items (rl : Nat) : ∀ its : List DocItem, (∀ i ∈ its, itemFitXX rl i) → DocFollowX its → Z.DocOk rl (its.map DocItem.toks)
  | [], _, _ => trivial
  | i :: r, hfit, hfol => by
    refine ⟨?_, docOkZ_of_items rl r (fun j hj => hfit j (by simp [hj])) hfol.2⟩
    intro q hq
    have hq' : FollowTokOf (docToks r).head? q := hq
    have hi := hfit i (by simp)
    cases i with
    | exec oe d => exact Or.inl (execFit_lexec rl oe d hi)
    | loose l =>
      have hg := followGood_of hq' (docToks_headXX rl r (fun j hj => hfit j (by simp [hj])))
      refine Or.inr ⟨l, rfl, hi, looseFollowY_of_good l q hg ?_⟩
      intro ho hk
      have hX : openBody l → (docToks r).head? ≠ some (.p .lCurly) := hfol.1
      apply hX ho
      cases hf : (docToks r).head? with
      | none => rw [hf] at hq'; have : q.kind = .eof := hq'; rw [this] at hk; cases hk
      | some a =>
        rw [hf] at hq'
        have hv : astOfV q = some a := hq'
        have hka := kind_of_astOfV hv
        rw [hk] at hka
        cases a with
        | p pp => cases pp <;> first | rfl | (simp [kindOfA] at hka)
        | name w => simp [kindOfA] at hka
        | int w => simp [kindOfA] at hka
        | float w => simp [kindOfA] at hka
        | str w => simp [kindOfA] at hka

/-- **document_accept_iff — the exact characterisation of the accepted language.**  `Parser::parse` (model; no token limit, any
    recursion limit `rl`) reports ZERO errors if and only if the source lexes cleanly and its significant tokens are, followed by
    EOF, `docToks its` for a non-empty list of items, every item within the exact guard `itemFitXX rl`, the list satisfying the exact
    follow condition `DocFollowX`. -/
theorem document_iff (rl : Nat) (src : Str) :
    (parse .document none rl src).errors = [] ↔
      LexClean src ∧ ∃ (ts : List Tok) (its : List DocItem) (e : Tok), sig (srcToks src) = ts ++ [e] ∧ e.kind = .eof ∧
        TokIs ts (docToks its) ∧ its ≠ [] ∧ (∀ i ∈ its, itemFitXX rl i) ∧ DocFollowX its := by
  constructor
  · intro herr
    exact (XX.document_sandwichG defExactXX rl src).1 herr
  · rintro ⟨hclean, ts, its, e, h1, h2, h3, h4, h5, h6⟩
    exact Z.parseDocument_completeG_sig rl src _ ts e hclean h1 h2 h3
      ⟨its.map DocItem.toks, by simpa using h4, rfl, docOkZ_of_items rl its h5 h6⟩

/-! ### the strict-grammar corollary -/

theorem fullRoots_named : ∀ (roots : List (Ast.OpType × Option Ast.Str)) (rs : List (Ast.OpType × Ast.Str)), fullRoots roots = some rs →
    ∀ r ∈ roots, r.2 ≠ none
  | [], _, _ => by intro r hr; cases hr
  | (op, some nm) :: rest, rs, h => by
    simp only [fullRoots, Option.map_eq_some_iff] at h
    obtain ⟨r', hr', _⟩ := h
    intro r hr
    rcases List.mem_cons.mp hr with rfl | hr
    · intro h0; cases h0
    · exact fullRoots_named rest r' hr' r hr
  | (_, none) :: _, _, h => by simp [fullRoots] at h

/-- an item that uses neither liberty and satisfies the exact guard satisfies the strict guard -/
theorem itemFit_of_strict (b : Nat) (i : DocItem) (a : Ast.Item) (hs : i.strict = some a) (h : itemFitXX b i) : itemFit b i := by
  cases i with
  | exec oe d => exact h
  | loose l =>
    simp only [DocItem.strict, Option.map_eq_some_iff] at hs
    obtain ⟨d, hd, _⟩ := hs
    cases l with
    | schema desc ds roots =>
      simp only [LooseDef.strict, Option.map_eq_some_iff] at hd
      obtain ⟨rs, hrs, _⟩ := hd
      exact ⟨h.1, h.2.1, fullRoots_named roots rs hrs⟩
    | schemaExt ds roots =>
      simp only [LooseDef.strict, Option.map_eq_some_iff] at hd
      obtain ⟨rs, hrs, _⟩ := hd
      exact ⟨h.1, h.2.1, fullRoots_named roots rs hrs⟩
    | _ => exact h

theorem strictItems_mem : ∀ (its : List DocItem) (items : List Ast.Item), strictItems its = some items → ∀ i ∈ its, ∃ a, i.strict = some a
  | [], _, _ => by intro i hi; cases hi
  | j :: r, items, h => by
    unfold strictItems at h
    cases hj : j.strict with
    | none => simp [hj] at h
    | some a =>
      cases hr : strictItems r with
      | none => simp [hj, hr] at h
      | some bs =>
        intro i hi
        rcases List.mem_cons.mp hi with rfl | hi
        · exact ⟨a, hj⟩
        · exact strictItems_mem r bs hr i hi

/-- **accepted ⇒ a strict grammar document, or a named liberty is used.**  Zero errors: the tokens are `docToks its` (exact guards);
    and EITHER no liberty is used (`strictItems its = some items`): then the tokens are the printer's tokens `itemsToks items` of a
    document of the strict grammar and every item satisfies the strict guard `itemFit rl`; OR `strictItems its = none`: some item uses
    a leading `&` / `|` or a root operation type without its named type. -/
theorem document_accepted_strict_or_liberty (rl : Nat) (src : Str) (herr : (parse .document none rl src).errors = []) :
    LexClean src ∧ ∃ (ts : List Tok) (its : List DocItem) (e : Tok), sig (srcToks src) = ts ++ [e] ∧ e.kind = .eof ∧
      TokIs ts (docToks its) ∧ its ≠ [] ∧ (∀ i ∈ its, itemFitXX rl i) ∧ DocFollowX its ∧
      ((∃ items, strictItems its = some items ∧ docToks its = Ast.itemsToks items ∧ ∀ i ∈ its, itemFit rl i) ∨ strictItems its = none) := by
  obtain ⟨hc, ts, its, e, h1, h2, h3, h4, h5, h6⟩ := (document_iff rl src).mp herr
  refine ⟨hc, ts, its, e, h1, h2, h3, h4, h5, h6, ?_⟩
  cases hs : strictItems its with
  | none => exact Or.inr rfl
  | some items =>
    refine Or.inl ⟨items, rfl, (strictItems_toks its items hs).1, ?_⟩
    intro i hi
    obtain ⟨a, ha⟩ := strictItems_mem its items hs i hi
    exact itemFit_of_strict rl i a ha (h5 i hi)

end Apollo.Parse.Exact
