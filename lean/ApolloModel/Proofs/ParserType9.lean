import ApolloModel.Proofs.ParserType8
/-
C07 / C05 growth (type entry point), part 9: `Parser::parse_type` accepts every type whose nesting fits under
the recursion limit; the token queue in terms of the lexer model `Lex.lex`.
-/
set_option linter.unusedSimpArgs false
namespace Apollo.Parse
open Apollo.Rowan hiding Str
open Apollo.Lex hiding Str

/-- **`Parser::parse_type`, acceptance is complete** at the level of the token queue: if the source lexes
    cleanly and its token queue spells a type `t` (ignored tokens allowed after every token, none in front)
    followed by the end of input, and the list nesting of `t` is at most the recursion limit, then no error is
    reported. -/
theorem parseType_complete (rl : Nat) (src : Str) (t : Ast.Ty) (c : List Tok) (e : Tok)
    (hclean : LexClean src) (htoks : srcToks src = c ++ [e]) (hsp : Spell t c) (he : e.kind = .eof)
    (hdepth : tyDepth t ≤ rl) : (parse .type none rl src).errors = [] := by
  obtain ⟨root, htree⟩ := parseType_tree none rl src
  unfold parse runEntry at htree ⊢
  simp only [Entry.standalone, Entry.grammar] at htree ⊢
  generalize hs0 : ({ initState src none rl with builder := (initState src none rl).builder.startNode "NAMED_TYPE" } : PState) = s0 at htree ⊢
  have w0 : TW s0 := by subst hs0; exact ⟨rfl, by intro h; simp [initState] at h⟩
  have ht0 : Toks s0 = c ++ e :: [] := by subst hs0; exact htoks
  have hnd0 : ¬ Doomed s0 := by
    subst hs0
    rintro (h | h)
    · exact h rfl
    · have : (initState src none rl).lx = (initState src none 0).lx := rfl
      unfold LexClean at hclean
      rw [show ({ initState src none rl with builder := (initState src none rl).builder.startNode "NAMED_TYPE" } : PState).lx
        = (initState src none 0).lx from rfl, hclean] at h
      cases h
  have hrec0 : s0.recCur + tyDepth t ≤ s0.recLimit := by subst hs0; simpa [initState] using hdepth
  cases hr : (ty (fuelFor src) >>= fun _ => expectEndOfInput).run s0 with
  | abort w => simp [hr] at htree
  | panic m => simp [hr] at htree
  | ok a s =>
    simp only []
    obtain ⟨_, s1, h1, h2⟩ := bind_dec (ty (fuelFor src)) _ s0 s a hr
    unfold ty at h1
    obtain ⟨r, sT, hT, h3⟩ := bind_dec (tyParse (fuelFor src)) _ s0 s1 () h1
    have hse : Sigf e := by unfold Sigf; rw [he]; rfl
    have hnb : NoBangAfter t e := by unfold NoBangAfter; cases t <;> simp [he]
    obtain ⟨hr0, eT, htT, _⟩ := tyParse_comp (fuelFor src) s0 sT r t c e [] w0 hT hsp ht0 hse hnb hrec0
    subst hr0
    simp only [] at h3
    rw [run_pure] at h3
    injection h3 with _ h3
    subst h3
    unfold expectEndOfInput at h2
    obtain ⟨_, sK, hK, h4⟩ := bind_dec skipIgnored _ sT s a h2
    obtain ⟨eK, htK, _⟩ := skip_exact sT sK [] e [] eT.w hK (by simpa using htT) (by intro x hx; cases hx) hse
    obtain ⟨k, sP, hP, h5⟩ := bind_dec peek _ sK s a h4
    obtain ⟨hk, eP, _, _⟩ := peek_head sK sP k e [] eK.w htK hP
    subst hk
    have h5' : (pure () : PI Unit).run sP = .ok a s := by
      simpa [errUnlessEnd, he] using h5
    rw [run_pure] at h5'
    injection h5' with _ h5'
    subst h5'
    have hnd : ¬ Doomed sP := by
      intro d
      exact hnd0 (eT.doom.mp (eK.doom.mp (eP.doom.mp d)))
    by_cases herr : sP.errors = []
    · exact herr
    · exact absurd (Or.inl herr) hnd

/-! ### the parser's token queue is the output of the lexer model -/

def outItem : LexOut → Item
  | .tok t => .tok t.kind t.data
  | .err d _ => .err d
  | .limit _ => .limit

theorem lexNext_nonempty (l : LexSt) (hl : l.limit = none) (hf : l.finished = false) (c : Char) (rest : Str)
    (hs : l.src = c :: rest) :
    ∃ o l', lexNext l = (some o, l') ∧ outItem o = (advance (c :: rest)).1 ∧ l'.src = (advance (c :: rest)).2
      ∧ l'.limit = none ∧ l'.finished = false := by
  have hc : (lexCheck l).1 = false := lexCheck_no_limit l hl
  unfold lexNext
  simp only [hf, Bool.false_eq_true, if_false, hc, hs]
  cases hr : (advance (c :: rest)).1 with
  | tok k d => exact ⟨_, _, rfl, rfl, rfl, hl, rfl⟩
  | err d => exact ⟨_, _, rfl, rfl, rfl, hl, rfl⟩
  | limit => exact absurd hr (advance_ne_limit _)

/-- the stream of an unfinished, unlimited lexer is `Lex.lex` of the rest of the input -/
theorem stream_lexAux : ∀ (n : Nat) (l : LexSt) (count : Nat), l.src.length < n → l.limit = none → l.finished = false →
    (stream l).map outItem = lexAux n none count l.src := by
  intro n
  induction n with
  | zero => intro l _ h; omega
  | succ n ih =>
    intro l count hn hl hf
    have hu := stream_unfold l hl
    cases hs : l.src with
    | nil =>
      rcases lexNext_cases l hl with ⟨h1, _⟩ | ⟨_, _, l', h, hfin, _, _⟩ | ⟨_, o, l', h, hlen, _, _, _⟩
      · rw [hf] at h1; cases h1
      · rw [h] at hu
        simp only [] at hu
        have : stream l' = [] := by unfold stream; exact pull_finished _ _ hfin
        rw [hu, this]
        simp [lexAux, outItem]
      · rw [hs] at hlen; simp at hlen
    | cons c rest =>
      obtain ⟨o, l', h, ho, hsrc, hl', hf'⟩ := lexNext_nonempty l hl hf c rest hs
      rw [h] at hu
      simp only [] at hu
      have hp := Lex.advance_progress c rest
      have := ih l' (count + 1) (by rw [hsrc]; rw [hs] at hn; simp only [List.length_cons] at hn hp; omega) hl' hf'
      rw [hu]
      simp only [List.map_cons, lexAux, Bool.false_eq_true, if_false, ho, this, hsrc]

def itemKD : Item → Option (Kind × Str)
  | .tok k d => some (k, d)
  | _ => none

/-- the tokens of the lexer model's output (kind and text) -/
def lexToks (src : Str) : List (Kind × Str) := (lex none src).filterMap itemKD

/-- **the parser's token queue = the lexer model's tokens** (positions aside) -/
theorem srcToks_lex (src : Str) : (srcToks src).map (fun t => (t.kind, t.data)) = lexToks src := by
  have h := stream_lexAux (src.length + 1) (initState src none 0).lx 0 (by simp [initState]) rfl rfl
  unfold lexToks lex srcToks toksOf
  have hs : (initState src none 0).lx.src = src := rfl
  rw [hs] at h
  rw [← h, List.filterMap_map, List.map_filterMap]
  congr 1
  funext o
  cases o <;> rfl

/-- … and a lexer error waits in the parser's input iff the lexer model's output has an error item -/
theorem lexClean_lex (src : Str) : LexClean src ↔ ∀ it ∈ lex none src, it.isErr = false := by
  have h := stream_lexAux (src.length + 1) (initState src none 0).lx 0 (by simp [initState]) rfl rfl
  have hs : (initState src none 0).lx.src = src := rfl
  rw [hs] at h
  unfold LexClean hasErr lex
  rw [← h]
  simp only [List.any_eq_false, List.mem_map, forall_exists_index, and_imp, forall_apply_eq_imp_iff₂]
  constructor
  · intro hh o ho
    have := hh o ho
    cases o <;> simp [outBad, outItem, Item.isErr] at this ⊢
  · intro hh o ho
    have := hh o ho
    cases o <;> simp [outBad, outItem, Item.isErr] at this ⊢

end Apollo.Parse
