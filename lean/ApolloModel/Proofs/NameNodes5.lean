import ApolloModel.Proofs.NameNodes4
/-
C11 growth, part 5: every NAME node of every parsed tree — any entry point, any token limit, any
recursion limit, any input, errors or not — is exactly one IDENT token.
-/
set_option linter.unusedSimpArgs false
set_option linter.unusedVariables false
namespace Apollo.Parse
open Apollo.Rowan hiding Str
open Apollo.Lex hiding Str

theorem namesAreIdentsList_of_finish (b : Builder) (root : Elem) (h : b.finish = some root)
    (hc : namesAreIdentsList b.children = true) : namesAreIdents root = true := by
  unfold Builder.finish at h
  split at h
  · rename_i k cs heq
    injection h with h
    subst h
    rw [heq] at hc
    simpa [namesAreIdentsList] using hc
  · cases h

/-- `finish_standalone`: the temporary root (never a NAME node) wraps everything, and is unwrapped
    only to one of its own children -/
theorem standalone_ok (b : Builder) (k : SK) (first : Nat) (expected : List SK) (root : Elem)
    (hp : b.parents = [(k, first)]) (hk : (k == "NAME") = false)
    (hc : namesAreIdentsList b.children = true) (h : finishStandalone b expected = some root) :
    namesAreIdents root = true := by
  have hk' : k ≠ "NAME" := by simpa using hk
  have hsplit : namesAreIdentsList (b.children.take first) = true ∧ namesAreIdentsList (b.children.drop first) = true := by
    have := hc
    rw [← List.take_append_drop first b.children, namesAreIdentsList_append] at this
    simpa using this
  have hnode : namesAreIdentsList (b.children.take first ++ [Elem.node k (b.children.drop first)]) = true := by
    rw [namesAreIdentsList_append, hsplit.1]
    simp [namesAreIdentsList, namesAreIdents_node k _ hk' hsplit.2]
  unfold finishStandalone at h
  simp only [Builder.finishNode, hp] at h
  generalize hb' : ({ parents := [], children := b.children.take first ++ [Elem.node k (b.children.drop first)] } : Builder) = b' at h
  have hc' : namesAreIdentsList b'.children = true := by rw [← hb']; exact hnode
  cases hfin : b'.finish with
  | none => rw [hfin] at h; simp at h
  | some r =>
    have hr := namesAreIdentsList_of_finish b' r hfin hc'
    rw [hfin] at h
    split at h
    · rename_i k1 k2 cs2 heq
      injection heq with heq
      subst heq
      split at h
      · injection h with h
        subst h
        have h1 : namesAreIdentsList [Elem.node k2 cs2] = true := by
          simp only [namesAreIdents, Bool.and_eq_true] at hr; exact hr.2
        simp only [namesAreIdentsList, Bool.and_eq_true, and_true] at h1
        exact h1
      · injection h with h
        subst h
        exact hr
    · injection h with h
      subst h
      exact hr

theorem all_name_nodes_one_ident (e : Entry) (tl : Option Nat) (rl : Nat) (src : Str) (root : Elem)
    (h : (parse e tl rl src).outcome = .tree root) : namesAreIdents root = true := by
  unfold parse runEntry at h
  cases e with
  | document =>
    simp only [Entry.standalone, Entry.grammar] at h
    cases hr : (Parse.document (fuelFor src)).run (initState src tl rl) with
    | abort w => rw [hr] at h; cases h
    | panic m => rw [hr] at h; cases h
    | ok u s =>
      rw [hr] at h
      simp only [] at h
      obtain ⟨added, hadd, hok⟩ := (ng_document (fuelFor src)).out _ (init_inv src tl rl) u s hr
      have hc : namesAreIdentsList s.builder.children = true := by
        rw [hadd]; simpa [initState, Builder.new] using hok
      cases hf : s.builder.finish with
      | none => rw [hf] at h; cases h
      | some r =>
        rw [hf] at h
        injection h with h
        subst h
        exact namesAreIdentsList_of_finish _ _ hf hc
  | selectionSet =>
    simp only [Entry.standalone, Entry.grammar] at h
    have hinv : Inv { initState src tl rl with builder := (initState src tl rl).builder.startNode "SELECTION_SET" } :=
      ⟨fun _ => by simp [initState, Builder.new, Builder.startNode, textList, pendingText, curText],
       fun p hp => by simp [initState, Builder.new, Builder.startNode] at hp; simp [hp, initState, Builder.new],
       fun h => by simp [initState] at h, fun t h => by simp [initState] at h, fun h => by simp [initState] at h⟩
    cases hr : (fieldSet (fuelFor src) >>= fun _ => expectEndOfInput).run { initState src tl rl with builder := (initState src tl rl).builder.startNode "SELECTION_SET" } with
    | abort w => rw [hr] at h; cases h
    | panic m => rw [hr] at h; cases h
    | ok u s =>
      rw [hr] at h
      simp only [] at h
      obtain ⟨added, hadd, hok⟩ := (ng_entry .selectionSet (fuelFor src)).out _ hinv u s hr
      have hf := (inv_of_ok _ _ hinv u s hr).2
      have hc : namesAreIdentsList s.builder.children = true := by
        rw [hadd]; simpa [initState, Builder.new, Builder.startNode] using hok
      have hp : s.builder.parents = [("SELECTION_SET", 0)] := by
        rw [hf.parents]; simp [initState, Builder.new, Builder.startNode]
      exact standalone_ok s.builder _ _ _ root hp (by decide) hc (by
        cases hfs : finishStandalone s.builder ["SELECTION_SET"] with
        | none => rw [hfs] at h; cases h
        | some r => rw [hfs] at h; injection h with h; rw [h])
  | type =>
    simp only [Entry.standalone, Entry.grammar] at h
    have hinv : Inv { initState src tl rl with builder := (initState src tl rl).builder.startNode "NAMED_TYPE" } :=
      ⟨fun _ => by simp [initState, Builder.new, Builder.startNode, textList, pendingText, curText],
       fun p hp => by simp [initState, Builder.new, Builder.startNode] at hp; simp [hp, initState, Builder.new],
       fun h => by simp [initState] at h, fun t h => by simp [initState] at h, fun h => by simp [initState] at h⟩
    cases hr : (ty (fuelFor src) >>= fun _ => expectEndOfInput).run { initState src tl rl with builder := (initState src tl rl).builder.startNode "NAMED_TYPE" } with
    | abort w => rw [hr] at h; cases h
    | panic m => rw [hr] at h; cases h
    | ok u s =>
      rw [hr] at h
      simp only [] at h
      obtain ⟨added, hadd, hok⟩ := (ng_entry .type (fuelFor src)).out _ hinv u s hr
      have hf := (inv_of_ok _ _ hinv u s hr).2
      have hc : namesAreIdentsList s.builder.children = true := by
        rw [hadd]; simpa [initState, Builder.new, Builder.startNode] using hok
      have hp : s.builder.parents = [("NAMED_TYPE", 0)] := by
        rw [hf.parents]; simp [initState, Builder.new, Builder.startNode]
      exact standalone_ok s.builder _ _ _ root hp (by decide) hc (by
        cases hfs : finishStandalone s.builder ["NAMED_TYPE", "LIST_TYPE", "NON_NULL_TYPE"] with
        | none => rw [hfs] at h; cases h
        | some r => rw [hfs] at h; injection h with h; rw [h])

/-! ### from the Bool-valued check to the shape of the node at a path -/

theorem namesAreIdentsList_getElem (cs : List Elem) (h : namesAreIdentsList cs = true) :
    ∀ (i : Nat) (c : Elem), cs[i]? = some c → namesAreIdents c = true := by
  induction cs with
  | nil => intro i c hc; simp at hc
  | cons e es ih =>
    simp only [namesAreIdentsList, Bool.and_eq_true] at h
    intro i c hc
    cases i with
    | zero => simp at hc; subst hc; exact h.1
    | succ i => exact ih h.2 i c (by simpa using hc)

theorem namesAreIdents_subAt : ∀ (p : List Nat) (root e : Elem), namesAreIdents root = true →
    subAt root p = some e → namesAreIdents e = true
  | [], root, e, hr, h => by
    simp only [subAt, Option.some.injEq] at h; subst h; exact hr
  | i :: p, .tok _ _, e, _, h => by simp [subAt] at h
  | i :: p, .node k cs, e, hr, h => by
    simp only [subAt] at h
    cases hc : cs[i]? with
    | none => rw [hc] at h; simp at h
    | some c =>
      rw [hc] at h
      simp only [] at h
      have hcs : namesAreIdentsList cs = true := by
        simp only [namesAreIdents, Bool.and_eq_true] at hr; exact hr.2
      exact namesAreIdents_subAt p c e (namesAreIdentsList_getElem cs hcs i c hc) h

theorem name_node_shape (cs : List Elem) (h : namesAreIdents (.node "NAME" cs) = true) :
    ∃ d, cs = [Elem.tok "IDENT" d] := by
  simp only [namesAreIdents, bne_self_eq_false, Bool.false_or, Bool.and_eq_true] at h
  have h1 := h.1
  split at h1
  · rename_i d; exact ⟨d, rfl⟩
  · cases h1

end Apollo.Parse
