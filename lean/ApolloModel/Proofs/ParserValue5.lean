import ApolloModel.Proofs.ParserValue4
/-
C05 growth (values), part 5: the loops (`peek_while_kind` over items of one kind, the list loop).
-/
set_option linter.unusedSimpArgs false
namespace Apollo.Parse
open Apollo.Rowan hiding Str
open Apollo.Lex hiding Str

theorem getCurrent_dec {α : Type} (f : Option Tok → PI α) (s s' : PState) (a : α)
    (h : (getCurrent >>= f).run s = .ok a s') : (f s.current).run s = .ok a s' := by
  obtain ⟨o, s1, h1, h2⟩ := bind_dec getCurrent _ s s' a h
  have e : getCurrent.run s = .ok s.current s := rfl
  rw [e] at h1
  cases h1
  exact h2

theorem stuck_not_ok {α : Type} (s s' : PState) (a : α) : (PI.stuck : PI α).run s ≠ .ok a s' := by
  simp [PI.stuck]

/-- result of a run over a sequence of items: the consumed tokens are the concatenation of well-formed items
    (`Q` says what one item is) — or the run stopped at the end of input -/
@[reducible] def ItemsOk (E : PState → Prop) (Q : List Ast.Tok → Prop) (s s' : PState) : Prop :=
  ∃ cs, Toks s = cs ++ Toks s' ∧ NoEof cs ∧ EofEnd s' ∧
    ((∃ items : List (List Ast.Tok), TokIs (sig cs) items.flatten ∧ ∀ x ∈ items, Q x) ∨ E s')

/-- one item: what the loop body must guarantee when it starts on a token of the expected kind -/
@[reducible] def ItemSpec (E : PState → Prop) (k : Kind) (body : PI Unit) (Q : List Ast.Tok → Prop) : Prop :=
  ∀ s s' t rest, TW s → EofEnd s → Toks s = t :: rest → t.kind = k → body.run s = .ok () s' → ¬ Doomed s' →
    ∃ cs, Toks s = cs ++ Toks s' ∧ NoEof cs ∧ EofEnd s' ∧ ((∃ x, TokIs (sig cs) x ∧ Q x) ∨ E s')

theorem atEof_rest (s s' : PState) (cs : List Tok) (he : EofEnd s) (hnd : ¬ Doomed s) (ha : AtEof s)
    (ht : Toks s = cs ++ Toks s') (hno : NoEof cs) : AtEof s' := by
  obtain ⟨e, hq, hk⟩ := atEof_single s he hnd ha
  rw [hq] at ht
  cases cs with
  | nil => exact ⟨e, by simp at ht; rw [← ht]; rfl, hk⟩
  | cons x cs =>
    exfalso
    simp only [List.cons_append] at ht
    injection ht with h1 _
    exact hno x (by simp) (h1 ▸ hk)

/-- how the "stopped early" alternative `E` of an item propagates through the rest of a run -/
@[reducible] def Carries (E : PState → Prop) : Prop :=
  ∀ sB s' c2, EofEnd sB → ¬ Doomed sB → E sB → Toks sB = c2 ++ Toks s' → NoEof c2 → E s'

theorem carries_atEof : Carries AtEof := fun sB s' c2 a b d e f => atEof_rest sB s' c2 a b d e f

theorem carries_false : Carries (fun _ => False) := fun _ _ _ _ _ d _ _ => d

theorem peekWhileKindLoop_sound (E : PState → Prop) (hE : Carries E) (k : Kind) (body : PI Unit) (Q : List Ast.Tok → Prop) (hgood : Good body)
    (hitem : ItemSpec E k body Q) : ∀ (fuel : Nat) (s s' : PState), TW s → EofEnd s →
      (peekWhileKindLoop k body fuel).run s = .ok () s' → ¬ Doomed s' → ItemsOk E Q s s'
  | 0, s, s', _, _, h, _ => by simp [peekWhileKindLoop, PI.outOfFuel] at h
  | fuel + 1, s, s', w, he, h, hnd => by
    unfold peekWhileKindLoop at h
    obtain ⟨ko, sP, hp, h2⟩ := bind_dec peek _ s s' () h
    obtain ⟨o, p, hko⟩ := peek_obs s sP ko w hp
    subst hko
    have heP : EofEnd sP := eofEnd_eat he p.eat (by intro x hx; cases hx)
    have stop : s' = sP → ItemsOk E Q s s' := by
      intro e
      rw [e]
      unfold ItemsOk
      refine ⟨[], ?_, ?_, heP, Or.inl ⟨[], TokIs.nil, ?_⟩⟩
      · rw [p.toks]; rfl
      · intro x hx; cases hx
      · intro x hx; cases hx
    cases o with
    | none =>
      simp only [Option.map_none] at h2
      rw [run_pure] at h2
      injection h2 with _ h2
      exact stop h2.symm
    | some t =>
      simp only [Option.map_some] at h2
      by_cases hk : (t.kind != k) = true
      · simp only [hk, if_true] at h2
        rw [run_pure] at h2
        injection h2 with _ h2
        exact stop h2.symm
      · simp only [hk, Bool.false_eq_true, if_false] at h2
        have hkk : t.kind = k := by simpa using hk
        have h3 := getCurrent_dec _ sP s' () h2
        obtain ⟨_, sB, hb, h4⟩ := bind_dec body _ sP s' () h3
        have h5 := getCurrent_dec _ sB s' () h4
        have aB := hgood sP () sB p.w hb
        by_cases hsame : (sP.current == sB.current) = true
        · simp only [hsame, if_true] at h5
          exact absurd h5 (stuck_not_ok _ _ _)
        · simp only [hsame, Bool.false_eq_true, if_false] at h5
          have hndB : ¬ Doomed sB := fun d => hnd ((good_peekWhileKindLoop k body hgood fuel sB () s' aB.w h5).doom d)
          have htP : Toks sP = t :: (Toks sP).tail := by
            have := p.head; rw [← p.toks] at this; exact toks_head_cons sP t this.symm
          obtain ⟨c1, hc1, hno1, he1, hr1⟩ := hitem sP sB t _ p.w heP htP hkk hb hndB
          obtain ⟨c2, hc2, hno2, he2, hr2⟩ := peekWhileKindLoop_sound E hE k body Q hgood hitem fuel sB s' aB.w he1 h5 hnd
          refine ⟨c1 ++ c2, by rw [← p.toks, hc1, hc2, List.append_assoc], noEof_append hno1 hno2, he2, ?_⟩
          rcases hr1 with ⟨x, hx, hq⟩ | ha
          · rcases hr2 with ⟨items, hi, hall⟩ | ha2
            · refine Or.inl ⟨x :: items, ?_, ?_⟩
              · rw [sig_append]; simpa using hx.append hi
              · intro y hy
                rcases List.mem_cons.mp hy with rfl | hy
                · exact hq
                · exact hall y hy
            · exact Or.inr ha2
          · exact Or.inr (hE sB s' c2 he1 hndB ha hc2 hno2)

theorem peekWhileKind_sound (E : PState → Prop) (hE : Carries E) (k : Kind) (body : PI Unit) (Q : List Ast.Tok → Prop) (hgood : Good body)
    (hitem : ItemSpec E k body Q) (s s' : PState) (w : TW s) (he : EofEnd s)
    (h : (peekWhileKind k body).run s = .ok () s') (hnd : ¬ Doomed s') : ItemsOk E Q s s' := by
  unfold peekWhileKind at h
  obtain ⟨n, s1, h1, h2⟩ := bind_dec srcLen _ s s' () h
  have : s1 = s := by
    unfold srcLen at h1
    simp only [] at h1
    injection h1 with _ h1
    exact h1.symm
  subst this
  exact peekWhileKindLoop_sound E hE k body Q hgood hitem _ s1 s' w he h2 hnd

end Apollo.Parse
