import ApolloModel.Proofs.ParserTree43
/-
C08 growth (pipeline), part 44: the leading-separator liberty.  An item of an accepted document all of whose root
operation types are named is within the exact budget of the run, leading separator or not; the AST `from_cst` returns is the
strict reading of the items without their leading separators.
-/
set_option linter.unusedSimpArgs false
set_option linter.unusedVariables false
namespace Apollo.Parse.Exact
open Apollo.Rowan hiding Str
open Apollo.Lex hiding Str
open Apollo.FromCst (All2 looseConv)

/-- **identification with a leading separator**: the item of the exact soundness calculus spelled by the same tokens as a
    loose definition of the tree calculus with all root names present has the same reading without the separator -/
theorem lead_item_fit (rl : Nat) (l : LooseDef) (hw : l.wf = true) (hn : l.named)
    (cs : List Tok) (h1 : TokIs cs l.toks) (i' : DocItem) (h2 : TokIs cs i'.toks) (hf : itemFitX rl i') : looseFitX rl l := by
  cases i' with
  | exec oe' d' =>
    exfalso
    have hf' : execFit rl d' := hf
    have heq : Ast.tDefinition oe' d' = l.toks := tokIs_inj h2 h1
    have e1 := looseDef_tsStart l
    have e2 := exec_head oe' d' [] (execFit_executable hf')
    rw [List.append_nil, heq, e1] at e2
    cases e2
  | loose l' =>
    have hf' : looseFitX rl l' := hf
    have hw' := looseFitX_wf rl l' hf'
    have heq : l'.toks = l.toks := tokIs_inj h2 h1
    have pA := loose_parse_named l hw hn (Ast.szDefinition (looseConv l) + Ast.szDefinition (looseConv l')) (by omega)
    have hn' : l'.named := by
      by_cases hn' : l'.named
      · exact hn'
      · exfalso
        have pB := loose_parse_nameless l' hw' hn' (Ast.szDefinition (looseConv l) + Ast.szDefinition (looseConv l')) (by omega)
        rw [heq, pA] at pB
        cases pB
    have pB := loose_parse_named l' hw' hn' (Ast.szDefinition (looseConv l) + Ast.szDefinition (looseConv l')) (by omega)
    rw [heq, pA] at pB
    have hconv : looseConv l = looseConv l' := by
      injection pB with pB
      injection pB
    have e1 := itemOfDef_of_strict l.unlead _ (named_unlead_strict l hn)
    have e2 := itemOfDef_of_strict l'.unlead _ (named_unlead_strict l' hn')
    rw [← hconv, e1] at e2
    have hu : l.unlead = l'.unlead := DocItem.loose.inj e2
    exact (looseFitX_unlead rl l).mp (by rw [hu]; exact (looseFitX_unlead rl l').mpr hf')

/-- the item without its leading separator -/
def _root_.Apollo.Parse.DocItem.unlead : DocItem → DocItem
  | .exec oe d => .exec oe d
  | .loose l => .loose l.unlead

def _root_.Apollo.Parse.DocItem.named : DocItem → Prop
  | .exec _ _ => True
  | .loose l => l.named

def _root_.Apollo.Parse.DocItem.flag : DocItem → Bool
  | .exec oe _ => oe
  | .loose _ => false

theorem docItem_fitN (rl : Nat) (cs : List Tok) (e : List Elem) (h : FitQ (fun cs e => ExecItemR cs e ∨ TsAny cs e) rl cs e) :
    ∃ (i : DocItem) (ed : Elem), TokIs cs i.toks ∧ i.wfB ∧ e = [ed] ∧ DefConv i.conv ed ∧ (i.named → itemFitX rl i) := by
  obtain ⟨hq, i', hi1, hi2⟩ := h
  rcases hq with ⟨it, ed, a, b, c, d, e', _⟩ | ⟨l, ed, a, b, c, d⟩
  · exact ⟨.exec it.1 it.2, ed, a, b, c, d, fun _ => exec_item_fit rl it b e' cs a i' hi1 hi2⟩
  · obtain ⟨K, kcs, rfl, hk, _⟩ := FromCst.defTree_kind l ed d
    exact ⟨.loose l, _, a, b, c, ⟨by rw [FromCst.nodeP_node]; exact hk, fun m hm => FromCst.cDefinition_defTree m l _ d hm⟩,
      fun hn => lead_item_fit rl l b hn cs a i' hi1 hi2⟩

theorem unlead_strict_each (i : DocItem) (hn : i.named) : i.unlead.strict = some (i.flag, i.conv) := by
  cases i with
  | exec oe d => rfl
  | loose l => simp [DocItem.unlead, DocItem.strict, named_unlead_strict l hn, DocItem.conv, DocItem.flag]

theorem strictItems_unlead : ∀ (its : List DocItem), (∀ i ∈ its, i.named) →
    ∃ items, strictItems (its.map DocItem.unlead) = some items ∧ items.map (·.2) = its.map DocItem.conv
  | [], _ => ⟨[], rfl, rfl⟩
  | i :: r, h => by
    obtain ⟨items, h1, h2⟩ := strictItems_unlead r (fun j hj => h j (List.mem_cons_of_mem _ hj))
    refine ⟨(i.flag, i.conv) :: items, ?_, ?_⟩
    · simp only [List.map_cons, strictItems, unlead_strict_each i (h i List.mem_cons_self), h1]
    · simp [h2]

/-- **every accepted document all of whose root operation types are named** (leading separators allowed): the AST
    `from_cst` returns is the list of the strict definitions `items` of the items without their leading separators; they
    are well-formed, within the exact budget of the run, and their printer's tokens are among the source's tokens -/
theorem parseDocument_agrees_named (rl : Nat) (src : Str) (root : Elem)
    (h : (parse .document none rl src).outcome = .tree root) (herr : (parse .document none rl src).errors = []) :
    LexClean src ∧ ∃ (ts : List Tok) (e : Tok) (its : List DocItem), sig (srcToks src) = ts ++ [e] ∧ e.kind = .eof ∧
      its ≠ [] ∧ TokIs ts (docToks its) ∧ (FromCst.fromCst root).1 = its.map DocItem.conv ∧
      ((∀ i ∈ its, i.named) → ∃ items : List Ast.Item, items ≠ [] ∧ (FromCst.fromCst root).1 = items.map (·.2) ∧
        (∀ a ∈ items, Ast.wfDefinition a.2 = true) ∧ (∀ x ∈ items.map (·.2), definitionFit rl x) ∧
        (∀ t ∈ Ast.itemsToks items, t ∈ docToks its)) := by
  obtain ⟨hclean, ts, e, inner, h1, h2, hroot, items, hne, hts, hsig, hall⟩ :=
    parseDocument_cstS (fun n => defTrs_of_ts n TsAny (tsTrs n)) (fun n => defExactX_of_remaining (defRemaining_done n)) rl src root h herr
  obtain ⟨its, eds, g1, g2, g3, g4, g5⟩ := docItems_collectX (fun i => i.named → itemFitX rl i) items
    (fun i hi => docItem_fitN rl i.1 i.2 (hall i hi))
  have hne' : its ≠ [] := by
    intro h0
    rw [h0] at g3
    cases items with
    | nil => exact hne rfl
    | cons a b => simp at g3
  have hfrom : (FromCst.fromCst root).1 = its.map DocItem.conv := by
    rw [hroot]
    have := fromCst_document inner eds (its.map (fun i => ((false, i.conv) : Ast.Item))) (by rw [hsig, g2])
      (all2_map_right _ _ _ _ g5)
    rw [this, List.map_map]
    rfl
  refine ⟨hclean, ts, e, its, h1, h2, hne', by rw [hts]; exact g1, hfrom, ?_⟩
  intro hnamed
  obtain ⟨sitems, hs, hmap⟩ := strictItems_unlead its hnamed
  have hwfB : ∀ i ∈ its.map DocItem.unlead, i.wfB := by
    intro i hi
    obtain ⟨j, hj, rfl⟩ := List.mem_map.mp hi
    cases j with
    | exec oe d => exact (g4 _ hj).1
    | loose l =>
      show l.unlead.wf = true
      rw [wf_unlead]; exact (g4 _ hj).1
  obtain ⟨hc, hw⟩ := strictItems_conv (its.map DocItem.unlead) sitems hs hwfB
  obtain ⟨ht, hlen⟩ := strictItems_toks (its.map DocItem.unlead) sitems hs
  have hne'' : sitems ≠ [] := by
    rintro rfl
    cases its with
    | nil => exact hne' rfl
    | cons a b => simp at hlen
  have hfit : ∀ i ∈ its.map DocItem.unlead, itemFit rl i := by
    intro i hi
    obtain ⟨j, hj, rfl⟩ := List.mem_map.mp hi
    obtain ⟨a, ha⟩ := strict_each (its.map DocItem.unlead) sitems hs _ hi
    refine itemFit_of_itemFitX_strict rl _ a ha ?_
    have hfj := (g4 j hj).2 (hnamed j hj)
    cases j with
    | exec oe d => exact hfj
    | loose l => exact (looseFitX_unlead rl l).mpr hfj
  refine ⟨sitems, hne'', by rw [hfrom, hmap], hw, definitionFit_of_strict_items rl _ sitems hs hfit, ?_⟩
  intro t ht'
  rw [← ht] at ht'
  unfold docToks at ht' ⊢
  obtain ⟨x, hx, htx⟩ := List.mem_flatten.mp ht'
  obtain ⟨i, hi, rfl⟩ := List.mem_map.mp hx
  obtain ⟨j, hj, rfl⟩ := List.mem_map.mp hi
  refine List.mem_flatten.mpr ⟨j.toks, List.mem_map.mpr ⟨j, hj, rfl⟩, ?_⟩
  cases j with
  | exec oe d => exact htx
  | loose l => exact unlead_toks_subset l t htx

end Apollo.Parse.Exact
