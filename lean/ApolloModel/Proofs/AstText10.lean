import ApolloModel.Proofs.AstText9
/-
Text level, part 3 completed (2): the block-string states of the lexer.
`bstep` is `step` restricted to the six block states (`none` = the closing `"""` was read); scanning
`escapeTriple s` never closes the string (`brun_escapeTriple`), so `blockForm p n s` is read as one token.
-/
namespace Apollo.Ast
open Apollo.Lex (State step runD advance Item Kind blockStep done)
open Apollo.Strs (escapeTriple escapeTriple_ind escapeTriple_triple escapeTriple_cons escapeTriple_nil)

def isB : State → Bool
  | .blockStringLiteral | .blockQuote1 | .blockQuote2 | .blockStringLiteralBackslash
  | .blockBackslashQuote1 | .blockBackslashQuote2 => true
  | _ => false

/-- `blockStep` as a state -/
def bs (c : Char) : State :=
  if c == '\\' then .blockStringLiteralBackslash else if c == '"' then .blockQuote1 else .blockStringLiteral

def bstep : State → Char → Option State
  | .blockStringLiteral, c => some (bs c)
  | .blockQuote1, c => if c == '"' then some .blockQuote2 else some (bs c)
  | .blockQuote2, c => if c == '"' then none else some (bs c)
  | .blockStringLiteralBackslash, c =>
    if c == '"' then some .blockBackslashQuote1
    else if c == '\\' then some .blockStringLiteralBackslash else some .blockStringLiteral
  | .blockBackslashQuote1, c => if c == '"' then some .blockBackslashQuote2 else some (bs c)
  | .blockBackslashQuote2, c => if c == '"' then some .blockStringLiteral else some (bs c)
  | _, _ => none

theorem blockStep_bs (k : Kind) (e : Bool) (c : Char) : blockStep k e c = .goto (bs c) k e := by
  unfold blockStep bs
  split
  · rfl
  · split <;> rfl

theorem step_bstep (st : State) (k : Kind) (e : Bool) (acc : Str) (c : Char) (h : isB st = true) :
    step st k e acc c = match bstep st c with
      | some st' => .goto st' k e
      | none => .incl (done k e) := by
  cases st <;> simp only [isB, Bool.false_eq_true] at h <;> simp only [step, bstep, blockStep_bs]
  all_goals (repeat' split) <;> simp_all

theorem isB_bs (c : Char) : isB (bs c) = true := by
  unfold bs; split
  · rfl
  · split <;> rfl

theorem bstep_isB (st st' : State) (c : Char) (h : bstep st c = some st') : isB st' = true := by
  cases st <;> simp only [bstep, reduceCtorEq] at h
  all_goals (repeat' split at h) <;> simp_all [isB, isB_bs]
  all_goals (subst h; first | rfl | exact isB_bs c)

def brun : State → Str → Option State
  | st, [] => some st
  | st, c :: r => (bstep st c).bind (fun st' => brun st' r)

theorem brun_append (a b : Str) : ∀ st, brun st (a ++ b) = (brun st a).bind (fun st' => brun st' b) := by
  induction a with
  | nil => intro st; simp [brun]
  | cons c r ih =>
    intro st
    simp only [List.cons_append, brun]
    cases bstep st c with
    | none => simp
    | some st1 => simp [ih]

theorem brun_isB : ∀ (b : Str) (st st' : State), isB st = true → brun st b = some st' → isB st' = true
  | [], st, st', h, hr => by simp only [brun, Option.some.injEq] at hr; subst hr; exact h
  | c :: r, st, st', h, hr => by
    simp only [brun] at hr
    cases hb : bstep st c with
    | none => simp [hb] at hr
    | some st1 => exact brun_isB r st1 st' (bstep_isB st st1 c hb) (by simpa [hb] using hr)

/-- the driver follows `brun` through a block body that does not close -/
theorem runD_brun (k : Kind) (e : Bool) : ∀ (b : Str) (st st' : State) (acc tail : Str), isB st = true →
    brun st b = some st' → runD st k e acc (b ++ tail) = runD st' k e (acc ++ b) tail
  | [], st, st', acc, tail, _, hr => by simp only [brun, Option.some.injEq] at hr; subst hr; simp
  | c :: r, st, st', acc, tail, h, hr => by
    simp only [brun] at hr
    cases hb : bstep st c with
    | none => simp [hb] at hr
    | some st1 =>
      simp only [List.cons_append, runD, step_bstep st k e acc c h, hb]
      rw [runD_brun k e r st1 st' (acc ++ [c]) tail (bstep_isB st st1 c hb) (by simpa [hb] using hr)]
      simp

/-! ### `escapeTriple s` never closes a block string -/

abbrev S : State := .blockStringLiteral
abbrev Q1 : State := .blockQuote1
abbrev Q2 : State := .blockQuote2
abbrev BS : State := .blockStringLiteralBackslash
abbrev BQ1 : State := .blockBackslashQuote1
abbrev BQ2 : State := .blockBackslashQuote2

/-- after one bare quote the source does not go on with two more, after two not with one more -/
def BInv (st : State) (s : Str) : Prop :=
  isB st = true ∧ (st = Q1 → ∀ r, s ≠ '"' :: '"' :: r) ∧ (st = Q2 → ∀ r, s ≠ '"' :: r)

def BGoal (s : Str) : Prop :=
  ∀ st, BInv st s → ∃ st', brun st (escapeTriple s) = some st' ∧
    (s = [] → st' = st) ∧ (∀ c, s.getLast? = some c → c ≠ '"' → c ≠ '\\' → st' = S)

theorem bs_other (c : Char) (h1 : c ≠ '"') (h2 : c ≠ '\\') : bs c = S := by
  simp [bs, h1, h2]

theorem bstep_other (st : State) (c : Char) (h : isB st = true) (h1 : c ≠ '"') (h2 : c ≠ '\\') : bstep st c = some S := by
  cases st <;> simp only [isB, Bool.false_eq_true] at h <;> simp [bstep, h1, h2, bs_other c h1 h2]

theorem bstep_backslash (st : State) (h : isB st = true) : bstep st '\\' = some BS := by
  cases st <;> simp only [isB, Bool.false_eq_true] at h <;> simp [bstep, bs]

theorem brun_escapeTriple : ∀ s, BGoal s := by
  apply escapeTriple_ind
  · -- []
    intro st _
    exact ⟨st, by simp [escapeTriple_nil, brun], fun _ => rfl, by simp⟩
  · -- `"""` :: rest
    intro rest ih st ⟨hb, h1, h2⟩
    have hne1 : st ≠ Q1 := fun h => h1 h _ rfl
    have hne2 : st ≠ Q2 := fun h => h2 h _ rfl
    have hrun : brun st ('\\' :: '"' :: '"' :: '"' :: escapeTriple rest) = brun S (escapeTriple rest) := by
      cases st <;> simp only [isB, Bool.false_eq_true] at hb <;> simp_all [brun, bstep, bs]
    obtain ⟨st', hr, hnil, hlast⟩ := ih S ⟨rfl, by simp, by simp⟩
    refine ⟨st', by rw [escapeTriple_triple, hrun, hr], by simp, ?_⟩
    intro c hc hq hbs
    cases rest with
    | nil => simp at hc; exact absurd hc.symm hq
    | cons d r =>
      refine hlast c ?_ hq hbs
      simpa [List.getLast?_cons_cons] using hc
  · -- c :: rest, not a triple
    intro c rest hnt ih st ⟨hb, h1, h2⟩
    rw [escapeTriple_cons c rest hnt]
    -- the state after `c`
    have key : ∃ st1, bstep st c = some st1 ∧ BInv st1 rest ∧ (c ≠ '"' → c ≠ '\\' → st1 = S) := by
      by_cases hq : c = '"'
      · subst hq
        cases st <;> simp only [isB, Bool.false_eq_true] at hb
        · -- S
          refine ⟨Q1, by simp [bstep, bs], ⟨rfl, ?_, by simp⟩, by simp⟩
          intro _ r hr; exact hnt r (by rw [hr])
        · -- Q1
          refine ⟨Q2, by simp [bstep], ⟨rfl, by simp, ?_⟩, by simp⟩
          intro _ r hr; exact h1 rfl r (by rw [hr])
        · -- Q2
          exact absurd rfl (h2 rfl rest)
        · exact ⟨BQ1, by simp [bstep], ⟨rfl, by simp, by simp⟩, by simp⟩
        · exact ⟨BQ2, by simp [bstep], ⟨rfl, by simp, by simp⟩, by simp⟩
        · exact ⟨S, by simp [bstep], ⟨rfl, by simp, by simp⟩, by simp⟩
      · by_cases hbs : c = '\\'
        · subst hbs
          exact ⟨BS, bstep_backslash st hb, ⟨rfl, by simp, by simp⟩, by simp⟩
        · exact ⟨S, bstep_other st c hb hq hbs, ⟨rfl, by simp, by simp⟩, fun _ _ => rfl⟩
    obtain ⟨st1, hstep, hinv, hS⟩ := key
    obtain ⟨st', hr, hnil, hlast⟩ := ih st1 hinv
    refine ⟨st', by simp [brun, hstep, hr], by simp, ?_⟩
    intro d hd hq hbs
    cases rest with
    | nil =>
      simp only [List.getLast?_singleton, Option.some.injEq] at hd
      subst hd
      rw [hnil rfl]
      exact hS hq hbs
    | cons x r =>
      refine hlast d ?_ hq hbs
      simpa [List.getLast?_cons_cons] using hd

end Apollo.Ast
