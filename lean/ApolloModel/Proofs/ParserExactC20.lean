import ApolloModel.Proofs.ParserExactC18
import ApolloModel.Proofs.ParserComplete20
/-
EXACT-BUDGET COPY of ParserComplete20 (namespace Apollo.Parse.Exact, exact `vdepth`).
C05 growth (completeness of the whole Document grammar), part 20: the eight type-system definitions.
-/
set_option linter.unusedSimpArgs false
namespace Apollo.Parse.Exact
open Apollo.Rowan hiding Str
open Apollo.Lex hiding Str

/-! ### separated name lists -/

theorem cmp_nameItem : Cmp (fun _ => True) nameItem (fun _ x => ∃ nm, x = [.name nm] ∧ True) (fun _ => True) (fun _ => True) := by
  unfold nameItem
  apply cmp_peek
  intro k _
  apply cmp_ite
  · intro _
    exact cmp_namedType.mono (fun _ _ => trivial) (by rintro b x ⟨nm, rfl, _⟩; exact ⟨nm, rfl⟩) (fun _ h => h) (fun _ h => h)
  · intro hk
    apply cmp_absurd
    rintro b x cc q0 ⟨n, rfl, _⟩ hs _ hkk
    obtain ⟨t, tl, rfl, hta⟩ := spells_head hs
    simp only [headK] at hkk
    rw [kind_of_astOfV hta] at hkk
    simp [← hkk, kindOfA] at hk

def LImpl (_ : Nat) (x : List Ast.Tok) : Prop := ∃ lead first rest, x = .name Ast.sImplements :: tSepLead .amp lead first rest

theorem cmp_implementsInterfaces : Cmp (fun _ => True) implementsInterfaces LImpl (fun k => k ≠ .amp) (fun _ => True) := by
  rw [implementsInterfaces_eq]
  refine cmp_withNode _ ?_
  have := cmp_bind (Hk := fun _ => True) (F := fun k => k ≠ Kind.amp) (F1 := fun _ => True) (cmp_bump "implements_KW")
    (fun _ _ => cmp_sepList (Hk := fun _ => True) .amp "AMP" .amp nameItem (fun _ => True) rfl (by decide) cmp_nameItem)
    (fun _ _ _ _ => trivial) (fun _ _ => trivial) (fun _ h => h)
  refine this.mono (fun _ h => h) ?_ (fun _ h => h) (fun _ h => h)
  rintro b x ⟨lead, first, rest, rfl⟩
  exact ⟨[.name Ast.sImplements], _, rfl, ⟨_, rfl⟩, lead, first, rest, rfl, trivial, fun _ _ => trivial⟩

def LMembers (_ : Nat) (x : List Ast.Tok) : Prop := ∃ lead first rest, x = .p .eq :: tSepLead .pipe lead first rest

theorem cmp_unionMemberTypes : Cmp (fun _ => True) unionMemberTypes LMembers (fun k => k ≠ .pipe) (fun _ => True) := by
  rw [unionMemberTypes_eq]
  refine cmp_withNode _ ?_
  have := cmp_bind (Hk := fun _ => True) (F := fun k => k ≠ Kind.pipe) (F1 := fun _ => True) (cmp_bump "EQ")
    (fun _ _ => cmp_sepList (Hk := fun _ => True) .pipe "PIPE" .pipe nameItem (fun _ => True) rfl (by decide) cmp_nameItem)
    (fun _ _ _ _ => trivial) (fun _ _ => trivial) (fun _ h => h)
  refine this.mono (fun _ h => h) ?_ (fun _ h => h) (fun _ h => h)
  rintro b x ⟨lead, first, rest, rfl⟩
  exact ⟨[.p .eq], _, rfl, ⟨_, rfl⟩, lead, first, rest, rfl, trivial, fun _ _ => trivial⟩

/-! ### `Directives? Body?` -/

theorem cmp_dirsBody {Hk : Kind → Prop} (n : Nat) (k0 : Kind) (body : PI Unit) {Lb : Nat → List Ast.Tok → Prop} {Fb : Kind → Prop}
    (hb : Cmp (fun _ => True) body Lb Fb (fun _ => True))
    (hbhead : ∀ b x, Lb b x → ∃ a x', x = a :: x' ∧ kindOfA a = k0) (hk1 : k0 ≠ .at) (hk2 : k0 ≠ .lParen) :
    Cmp Hk (dirsBody n k0 body)
      (fun b x => ∃ ds x2, x = Ast.tDirectives ds ++ x2 ∧ dirsFit true b ds ∧ (Lb b x2 ∨ x2 = []))
      (fun k => k ≠ .at ∧ k ≠ .lParen ∧ k ≠ k0 ∧ Fb k) (fun _ => True) := by
  unfold dirsBody
  have hopt : Cmp (fun _ => True) (optBodyK k0 body) (fun b x => Lb b x ∨ x = []) (fun k => k ≠ k0 ∧ Fb k) (fun _ => True) :=
    cmp_optU (Hk := fun _ => True) k0 body hb hbhead
  have := cmp_optKind (Hk := Hk) (F := fun k => k ≠ Kind.at ∧ k ≠ Kind.lParen ∧ k ≠ k0 ∧ Fb k) .at (directives n true) (optBodyK k0 body)
    (cmp_directivesNeB n true) hopt (fun b x h => ldirsNeB_head h)
    (by rintro b a x (h | h)
        · obtain ⟨a', x', e, hk⟩ := hbhead _ _ h
          injection e with e _
          subst e
          rw [hk]; exact ⟨hk1, hk1, hk2⟩
        · cases h)
    (fun k h => ⟨h.1, ⟨h.1, h.2.1⟩, h.2.2⟩)
  refine this.mono (fun _ h => h) ?_ (fun _ h => h) (fun _ h => h)
  rintro b x ⟨ds, x2, rfl, hd, h2⟩
  exact ⟨_, x2, rfl, ldirsB_split true b ds hd, h2⟩

/-! ### scalar, enum, input object, union -/

def LScalar (b : Nat) (x : List Ast.Tok) : Prop := ∃ desc nm ds, x = scalarToks desc true nm ds ∧ dirsFit true b ds

theorem cmpT_scalarTypeDefinition (n : Nat) :
    CmpT (fun _ => True) (scalarTypeDefinition n) LScalar (fun t => t.kind ≠ .at ∧ t.kind ≠ .lParen) (fun _ => True) := by
  rw [scalarTypeDefinition_eq]
  refine cmpT_withNode _ ?_
  refine (cmpT_defShape (Hk := fun _ => True) "scalar" "scalar_KW" n _ (cmp_optDirsEnd (Hk := fun _ => True) n).toT).mono (fun _ h => h) ?_ (fun _ h => h) (fun _ h => h)
  rintro b x ⟨desc, nm, ds, rfl, hd⟩
  exact ⟨desc, nm, Ast.tDirectives ds, by simp [scalarToks, kwPart], ds, rfl, hd⟩

def LEnum (b : Nat) (x : List Ast.Tok) : Prop :=
  ∃ desc nm ds vs, x = enumToks desc true nm ds vs ∧ dirsFit true b ds ∧ ∀ v ∈ vs, enumValFit b v

theorem lenumVals_head {b : Nat} {x : List Ast.Tok} (h : LEnumVals b x) : ∃ a x', x = a :: x' ∧ kindOfA a = .lCurly := by
  obtain ⟨vs, hne, rfl, _⟩ := h
  cases vs with
  | nil => exact absurd rfl hne
  | cons v r => exact ⟨.p .lCurly, Ast.tEnumValueDefItems (v :: r) ++ [.p .rCurly], by simp [Ast.tBraced], rfl⟩

theorem linputFields_head {b : Nat} {x : List Ast.Tok} (h : LInputFields b x) : ∃ a x', x = a :: x' ∧ kindOfA a = .lCurly := by
  obtain ⟨vs, hne, rfl, _⟩ := h
  cases vs with
  | nil => exact absurd rfl hne
  | cons v r => exact ⟨.p .lCurly, Ast.tIVDItems (v :: r) ++ [.p .rCurly], by simp [Ast.tBraced], rfl⟩

theorem lfields_head {b : Nat} {x : List Ast.Tok} (h : LFields b x) : ∃ a x', x = a :: x' ∧ kindOfA a = .lCurly := by
  obtain ⟨vs, hne, rfl, _⟩ := h
  cases vs with
  | nil => exact absurd rfl hne
  | cons v r => exact ⟨.p .lCurly, Ast.tFieldDefItems (v :: r) ++ [.p .rCurly], by simp [Ast.tBraced], rfl⟩

def Fbody (k : Kind) : Prop := k ≠ .at ∧ k ≠ .lParen ∧ k ≠ .lCurly

theorem cmpT_enumTypeDefinition (n : Nat) :
    CmpT (fun _ => True) (enumTypeDefinition n) LEnum (fun t => Fbody t.kind) (fun _ => True) := by
  rw [enumTypeDefinition_eq']
  refine cmpT_withNode _ ?_
  have hb := cmp_dirsBody (Hk := fun _ => True) n .lCurly (enumValuesDefinition n) (cmp_enumValuesDefinition n)
    (fun b x h => lenumVals_head h) (by decide) (by decide)
  refine (cmpT_defShape (Hk := fun _ => True) "enum" "enum_KW" n _ hb.toT).mono (fun _ h => h) ?_ (fun t h => ⟨h.1, h.2.1, h.2.2, trivial⟩) (fun _ h => h)
  rintro b x ⟨desc, nm, ds, vs, rfl, hd, hv⟩
  refine ⟨desc, nm, Ast.tDirectives ds ++ Ast.tBraced (Ast.tEnumValueDefItems vs) vs.isEmpty,
    by simp [enumToks, kwPart, Ast.tEnumBody], ds, Ast.tBraced (Ast.tEnumValueDefItems vs) vs.isEmpty, rfl, hd, ?_⟩
  by_cases hvs : vs = []
  · subst hvs; right; rfl
  · left; exact ⟨vs, hvs, rfl, hv⟩

def LInput (b : Nat) (x : List Ast.Tok) : Prop :=
  ∃ desc nm ds fs, x = inputToks desc true nm ds fs ∧ dirsFit true b ds ∧ ∀ v ∈ fs, ivdFit b v

theorem cmpT_inputObjectTypeDefinition (n : Nat) :
    CmpT (fun _ => True) (inputObjectTypeDefinition n) LInput (fun t => Fbody t.kind) (fun _ => True) := by
  rw [inputObjectTypeDefinition_eq']
  refine cmpT_withNode _ ?_
  have hb := cmp_dirsBody (Hk := fun _ => True) n .lCurly (inputFieldsDefinition n) (cmp_inputFieldsDefinition n)
    (fun b x h => linputFields_head h) (by decide) (by decide)
  refine (cmpT_defShape (Hk := fun _ => True) "input" "input_KW" n _ hb.toT).mono (fun _ h => h) ?_ (fun t h => ⟨h.1, h.2.1, h.2.2, trivial⟩) (fun _ h => h)
  rintro b x ⟨desc, nm, ds, vs, rfl, hd, hv⟩
  refine ⟨desc, nm, Ast.tDirectives ds ++ Ast.tBraced (Ast.tIVDItems vs) vs.isEmpty,
    by simp [inputToks, kwPart, Ast.tInputBody], ds, Ast.tBraced (Ast.tIVDItems vs) vs.isEmpty, rfl, hd, ?_⟩
  by_cases hvs : vs = []
  · subst hvs; right; rfl
  · left; exact ⟨vs, hvs, rfl, hv⟩

def LUnion (b : Nat) (x : List Ast.Tok) : Prop := ∃ desc nm ds ms, x = unionToks desc true nm ds ms ∧ dirsFit true b ds

theorem tSepOpt_members (b : Nat) (ms : Option (Bool × Ast.Str × List Ast.Str)) :
    LMembers b (tSepOpt [.p .eq] .pipe ms) ∨ tSepOpt [.p .eq] .pipe ms = [] := by
  cases ms with
  | none => right; rfl
  | some v => obtain ⟨lead, first, rest⟩ := v; left; exact ⟨lead, first, rest, rfl⟩

theorem cmpT_unionTypeDefinition (n : Nat) :
    CmpT (fun _ => True) (unionTypeDefinition n) LUnion
      (fun t => t.kind ≠ .at ∧ t.kind ≠ .lParen ∧ t.kind ≠ .eq ∧ t.kind ≠ .pipe) (fun _ => True) := by
  rw [unionTypeDefinition_eq]
  refine cmpT_withNode _ ?_
  have hb := cmp_dirsBody (Hk := fun _ => True) n .eq unionMemberTypes cmp_unionMemberTypes
    (by rintro b x ⟨lead, first, rest, rfl⟩; exact ⟨_, _, rfl, rfl⟩) (by decide) (by decide)
  refine (cmpT_defShape (Hk := fun _ => True) "union" "union_KW" n _ hb.toT).mono (fun _ h => h) ?_ (fun t h => h) (fun _ h => h)
  rintro b x ⟨desc, nm, ds, ms, rfl, hd⟩
  exact ⟨desc, nm, Ast.tDirectives ds ++ tSepOpt [.p .eq] .pipe ms, by simp [unionToks, kwPart], ds, _, rfl, hd, tSepOpt_members b ms⟩

end Apollo.Parse.Exact
