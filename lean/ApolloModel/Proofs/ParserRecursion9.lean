import ApolloModel.Proofs.ParserRecursion8
import ApolloModel.Proofs.ParserValue2
/-
C04 growth (recursion limit across runs), part 9: the loops of parser/mod.rs and `value.rs` — every value
run with limit `r` against the same run with a limit that is never hit.
-/
set_option linter.unusedSimpArgs false
set_option linter.unusedVariables false
namespace Apollo.Parse
open Apollo.Rowan hiding Str
open Apollo.Lex hiding Str

theorem post_trivial {α : Type} (c : Option Tok → Prop) (m : PI α) : PostC c m (fun _ _ => True) :=
  fun _ _ _ _ _ _ => trivial

theorem xc_ite {α : Type} {c : Option Tok → Prop} (b : Bool) (x y : PI α) (hx : XC c x) (hy : XC c y) :
    XC c (if b then x else y) := by cases b <;> simp [hx, hy]

theorem bg_ite {α : Type} (b : Bool) (x y : PI α) (hx : BG x) (hy : BG y) : BG (if b then x else y) := by
  cases b <;> simp [hx, hy]

theorem plain_ite {α : Type} (b : Bool) (x y : PI α) (hx : Plain x) (hy : Plain y) : Plain (if b then x else y) := by
  cases b <;> simp [hx, hy]

/-- `peek` leaves the peeked token as the current token -/
theorem post_peek (c : Option Tok → Prop) : PostC c peek (fun k cur => cur.map (·.kind) = k) := by
  intro s k s' _ _ h
  obtain ⟨o, s1, h1, h2⟩ := bind_dec peekToken _ s s' k h
  rw [run_pure] at h2
  injection h2 with h2 h3
  subst h3 h2
  unfold peekToken at h1
  simp only [] at h1
  cases hc : s.current with
  | some t => simp only [hc, Res.ok.injEq] at h1; obtain ⟨rfl, rfl⟩ := h1; rw [hc]
  | none => simp only [hc, Res.ok.injEq] at h1; obtain ⟨rfl, rfl⟩ := h1; rfl

theorem post_getCurrent (c : Option Tok → Prop) : PostC c getCurrent (fun _ cur => c cur) := by
  intro s a s' _ hc h
  unfold getCurrent at h
  simp only [] at h
  injection h with _ h
  subst h
  exact hc

/-- `skip_ignored` started without a current token and with an unfinished lexer ends with a current token -/
theorem skipIgnoredLoop_some : ∀ (fuel : Nat) (s s' : PState), GI s → (s.current = none → s.lx.finished = false) →
    (skipIgnoredLoop fuel).run s = .ok () s' → s'.current.isSome = true
  | 0, s, s', _, _, h => by simp [skipIgnoredLoop, PI.outOfFuel] at h
  | fuel + 1, s, s', g, hnf, h => by
    unfold skipIgnoredLoop at h
    obtain ⟨o, s1, h1, h2⟩ := bind_dec peekToken _ s s' () h
    have g1 := (plain_peekToken.out s o s1 h1).gi g
    have hc1 : s1.current.isSome = true := by
      unfold peekToken at h1
      simp only [] at h1
      cases hc : s.current with
      | some t => simp only [hc, Res.ok.injEq] at h1; obtain ⟨_, rfl⟩ := h1; rw [hc]; rfl
      | none =>
        simp only [hc, Res.ok.injEq] at h1
        obtain ⟨_, rfl⟩ := h1
        obtain ⟨t, ht⟩ := nextTokenRaw_some (s.lx.src.length + 3) s g.lim (hnf hc) (by omega)
        simp only []
        unfold nextToken
        rw [ht]; rfl
    obtain ⟨b, s2, h3, h4⟩ := bind_dec moveCurToPending _ s1 s' () h2
    unfold moveCurToPending at h3
    simp only [] at h3
    cases hc : s1.current with
    | none => rw [hc] at hc1; cases hc1
    | some t =>
      simp only [hc] at h3
      by_cases hi : isIgnoredKind t.kind = true
      · simp only [hi, if_true] at h3
        injection h3 with hb hs2
        subst hb hs2
        replace h4 : (skipIgnoredLoop fuel).run { s1 with current := none, pending := s1.pending ++ [.ignored t] } = .ok () s' := h4
        have hfin : s1.lx.finished = false := by
          cases hf : s1.lx.finished with
          | false => rfl
          | true =>
            have := g1.nf hf t hc
            rw [this] at hi
            simp [isIgnoredKind] at hi
        exact skipIgnoredLoop_some fuel { s1 with current := none, pending := s1.pending ++ [.ignored t] } s' ⟨g1.lim, g1.acc, fun _ t' ht' => by cases ht'⟩ (fun _ => hfin) h4
      · simp only [hi, if_false] at h3
        injection h3 with hb hs2
        subst hb hs2
        replace h4 : (pure () : PI Unit).run s1 = .ok () s' := h4
        rw [run_pure] at h4
        injection h4 with _ h4
        subst h4
        exact hc1

/-- `bump` on a current token that is not the EOF token leaves a current token behind -/
theorem post_bump (kind : SK) :
    PostC (fun cur => ∃ t, cur = some t ∧ t.kind ≠ .eof) (bump kind) (fun _ cur => cur.isSome = true) := by
  intro s a s' g ⟨t, hc, hne⟩ h
  unfold bump at h
  obtain ⟨_, s1, h1, h2⟩ := bind_dec (eat kind) _ s s' () h
  have g1 := ((plain_eat kind).out s () s1 h1).gi g
  -- after `eat` there is no current token and the lexer is where it was
  have hs1 : s1.current = none ∧ s1.lx = s.lx := by
    unfold eat at h1
    obtain ⟨_, sa, ha, hb⟩ := bind_dec pushIgnored _ s s1 () h1
    have oa := pushIgnored_same s sa ha
    obtain ⟨o, sb, hb1, hb2⟩ := bind_dec peekToken _ sa s1 () hb
    unfold peekToken at hb1
    simp only [oa.current, hc, Res.ok.injEq] at hb1
    obtain ⟨_, rfl⟩ := hb1
    unfold moveCurToTree at hb2
    simp only [oa.current, hc] at hb2
    injection hb2 with _ hb2
    subst hb2
    exact ⟨rfl, oa.lx⟩
  have hfin : s.lx.finished = false := by
    cases hf : s.lx.finished with
    | false => rfl
    | true => exact absurd (g.nf hf t hc) hne
  unfold skipIgnored at h2
  obtain ⟨n, s2, h3, h4⟩ := bind_dec srcLen _ s1 s' () h2
  have : s2 = s1 := by
    unfold srcLen at h3
    simp only [] at h3
    injection h3 with _ h3
    exact h3.symm
  subst this
  exact skipIgnoredLoop_some _ s2 s' g1 (fun _ => by rw [hs1.2]; exact hfin) h4

/-! ### loops -/

theorem bg_peekWhileLoop (body : Kind → PI Bool) (hb : ∀ k, BG (body k)) : ∀ fuel, BG (peekWhileLoop body fuel)
  | 0 => bg_of_plain plain_outOfFuel
  | fuel + 1 => by
    unfold peekWhileLoop
    refine bg_bind _ _ (bg_of_plain plain_peek) ?_
    intro k
    cases k with
    | none => exact bg_of_plain (plain_pure _)
    | some kind =>
      refine bg_bind _ _ (bg_of_plain plain_getCurrent) (fun before => bg_bind _ _ (hb kind) ?_)
      intro c
      cases c with
      | false => exact bg_of_plain (plain_pure _)
      | true =>
        refine bg_bind _ _ (bg_of_plain plain_getCurrent) (fun after => ?_)
        exact bg_ite _ _ _ (bg_of_plain plain_stuck) (bg_peekWhileLoop body hb fuel)

theorem xc_peekWhileLoop (body : Kind → PI Bool) (hx : ∀ k, XC someTok (body k)) (hb : ∀ k, BG (body k)) :
    ∀ fuel, XC anyTok (peekWhileLoop body fuel)
  | 0 => xc_of_plain plain_outOfFuel
  | fuel + 1 => by
    unfold peekWhileLoop
    refine xc_bind (c' := fun k cur => cur.map (·.kind) = k) _ _ (xc_of_plain plain_peek) (bg_of_plain plain_peek)
      (post_peek _) ?_ ?_
    · intro k
      cases k with
      | none => exact xc_of_plain (plain_pure _)
      | some kind =>
        refine xc_bind (c' := fun _ cur => cur.map (·.kind) = some kind) _ _ (xc_of_plain plain_getCurrent)
          (bg_of_plain plain_getCurrent) (post_getCurrent _) ?_ ?_
        · intro before
          have hsome : XC (fun cur => cur.map (·.kind) = some kind) (body kind) := by
            intro s r R ar aR sr sR h1 h2 h3 g hc
            exact hx kind s r R ar aR sr sR h1 h2 h3 g (by
              cases hcur : s.current with
              | none => rw [hcur] at hc; cases hc
              | some t => rfl)
          refine xc_bind (c' := fun _ _ => True) _ _ hsome (hb kind) (post_trivial _ _) ?_ ?_
          · intro c
            cases c with
            | false => exact xc_of_plain (plain_pure _)
            | true =>
              refine xc_bind (c' := fun _ _ => True) _ _ (xc_of_plain plain_getCurrent) (bg_of_plain plain_getCurrent)
                (post_trivial _ _) ?_ ?_
              · intro after
                exact xc_ite _ _ _ (xc_of_plain plain_stuck) (xc_weaken (xc_peekWhileLoop body hx hb fuel))
              · intro after
                exact bg_ite _ _ _ (bg_of_plain plain_stuck) (bg_peekWhileLoop body hb fuel)
          · intro c
            cases c with
            | false => exact bg_of_plain (plain_pure _)
            | true =>
              exact bg_bind _ _ (bg_of_plain plain_getCurrent) (fun after =>
                bg_ite _ _ _ (bg_of_plain plain_stuck) (bg_peekWhileLoop body hb fuel))
        · intro before
          refine bg_bind _ _ (hb kind) ?_
          intro c
          cases c with
          | false => exact bg_of_plain (plain_pure _)
          | true =>
            exact bg_bind _ _ (bg_of_plain plain_getCurrent) (fun after =>
              bg_ite _ _ _ (bg_of_plain plain_stuck) (bg_peekWhileLoop body hb fuel))
    · intro k
      cases k with
      | none => exact bg_of_plain (plain_pure _)
      | some kind =>
        refine bg_bind _ _ (bg_of_plain plain_getCurrent) (fun before => bg_bind _ _ (hb kind) ?_)
        intro c
        cases c with
        | false => exact bg_of_plain (plain_pure _)
        | true =>
          exact bg_bind _ _ (bg_of_plain plain_getCurrent) (fun after =>
            bg_ite _ _ _ (bg_of_plain plain_stuck) (bg_peekWhileLoop body hb fuel))

theorem bg_peekWhileKindLoop (k : Kind) (body : PI Unit) (hb : BG body) : ∀ fuel, BG (peekWhileKindLoop k body fuel)
  | 0 => bg_of_plain plain_outOfFuel
  | fuel + 1 => by
    unfold peekWhileKindLoop
    refine bg_bind _ _ (bg_of_plain plain_peek) ?_
    intro o
    cases o with
    | none => exact bg_of_plain (plain_pure _)
    | some kind =>
      refine bg_ite _ _ _ (bg_of_plain (plain_pure _)) ?_
      refine bg_bind _ _ (bg_of_plain plain_getCurrent) (fun before => bg_bind _ _ hb (fun _ => bg_bind _ _ (bg_of_plain plain_getCurrent) (fun after => ?_)))
      exact bg_ite _ _ _ (bg_of_plain plain_stuck) (bg_peekWhileKindLoop k body hb fuel)

theorem xc_bind' {α β : Type} (m : PI α) (f : α → PI β) (xm : XC anyTok m) (bm : BG m)
    (xf : ∀ a, XC anyTok (f a)) (bf : ∀ a, BG (f a)) : XC anyTok (m >>= f) :=
  xc_bind (c' := fun _ _ => True) m f xm bm (post_trivial _ _) (fun a => xc_weaken (xf a)) bf

theorem xc_peekWhileKindLoop (k : Kind) (body : PI Unit) (hx : XC anyTok body) (hb : BG body) :
    ∀ fuel, XC anyTok (peekWhileKindLoop k body fuel)
  | 0 => xc_of_plain plain_outOfFuel
  | fuel + 1 => by
    have bgl := bg_peekWhileKindLoop k body hb fuel
    unfold peekWhileKindLoop
    refine xc_bind' _ _ (xc_of_plain plain_peek) (bg_of_plain plain_peek) ?_ ?_
    · intro o
      cases o with
      | none => exact xc_of_plain (plain_pure _)
      | some kind =>
        refine xc_ite _ _ _ (xc_of_plain (plain_pure _)) ?_
        refine xc_bind' _ _ (xc_of_plain plain_getCurrent) (bg_of_plain plain_getCurrent) (fun before => ?_) (fun before => ?_)
        · refine xc_bind' _ _ hx hb (fun _ => ?_) (fun _ => ?_)
          · refine xc_bind' _ _ (xc_of_plain plain_getCurrent) (bg_of_plain plain_getCurrent) (fun after => ?_) (fun after => ?_)
            · exact xc_ite _ _ _ (xc_of_plain plain_stuck) (xc_peekWhileKindLoop k body hx hb fuel)
            · exact bg_ite _ _ _ (bg_of_plain plain_stuck) bgl
          · exact bg_bind _ _ (bg_of_plain plain_getCurrent) (fun after => bg_ite _ _ _ (bg_of_plain plain_stuck) bgl)
        · exact bg_bind _ _ hb (fun _ => bg_bind _ _ (bg_of_plain plain_getCurrent) (fun after => bg_ite _ _ _ (bg_of_plain plain_stuck) bgl))
    · intro o
      cases o with
      | none => exact bg_of_plain (plain_pure _)
      | some kind =>
        refine bg_ite _ _ _ (bg_of_plain (plain_pure _)) ?_
        exact bg_bind _ _ (bg_of_plain plain_getCurrent) (fun before => bg_bind _ _ hb (fun _ =>
          bg_bind _ _ (bg_of_plain plain_getCurrent) (fun after => bg_ite _ _ _ (bg_of_plain plain_stuck) bgl)))

/-! ### value.rs -/

theorem plain_valueErr (p : Bool) : Plain (valueErr p) := plain_ite _ _ _ plain_errAndPop plain_err

theorem plain_nameValueBranch (o : Option Tok) : Plain (nameValueBranch o) := by
  cases o with
  | none => exact plain_pure _
  | some t =>
    exact plain_ite _ _ _ (plain_withNode _ _ (plain_bump _)) (plain_ite _ _ _ (plain_withNode _ _ (plain_bump _))
      (plain_ite _ _ _ (plain_withNode _ _ (plain_bump _)) plain_enumValue))

theorem plain_variableBranch (c p : Bool) : Plain (variableBranch c p) :=
  plain_ite _ _ _ (plain_bind _ _ (plain_valueErr p) (fun _ => plain_variableNode)) plain_variableNode

/-- the cross-run property and the single-run bounds, for the four functions of value.rs at fuel `n` -/
structure XAll (n : Nat) : Prop where
  valueX : ∀ c p, XC anyTok (value n c p)
  valueB : ∀ c p, BG (value n c p)
  listX : ∀ c, XC anyTok (listValue n c)
  listB : ∀ c, BG (listValue n c)
  objX : ∀ c, XC anyTok (objectValue n c)
  objB : ∀ c, BG (objectValue n c)
  fieldX : ∀ c, XC anyTok (objectField n c)
  fieldB : ∀ c, BG (objectField n c)

theorem limitErrPure_records {α : Type} (x : α) (s : PState) (a : α) (s' : PState) (g : GI s) (hc : s.current.isSome = true)
    (h : (limitErr >>= fun _ => (pure x : PI α)).run s = .ok a s') : HasLim s'.errors := by
  obtain ⟨_, s1, h1, h2⟩ := bind_dec limitErr _ s s' a h
  rw [run_pure] at h2
  injection h2 with _ h2
  subst h2
  exact limitErr_records s s1 g hc h1

theorem bg_listLoopBody (n : Nat) (c : Bool) (ih : XAll n) (k : Kind) : BG (listLoopBody n c k) :=
  bg_ite _ _ _ (bg_of_plain (plain_bind _ _ (plain_bump _) (fun _ => plain_pure _)))
    (bg_ite _ _ _ (bg_of_plain (plain_pure _))
      (bg_withRec _ _ (plain_bind _ _ plain_limitErr (fun _ => plain_pure _))
        (bg_bind _ _ (ih.valueB c true) (fun _ => bg_of_plain (plain_pure _)))))

theorem xc_listLoopBody (n : Nat) (c : Bool) (ih : XAll n) (k : Kind) : XC someTok (listLoopBody n c k) :=
  xc_ite _ _ _ (xc_of_plain (plain_bind _ _ (plain_bump _) (fun _ => plain_pure _)))
    (xc_ite _ _ _ (xc_of_plain (plain_pure _))
      (xc_withRec _ _ (plain_bind _ _ plain_limitErr (fun _ => plain_pure _))
        (fun s a s' g hc h => limitErrPure_records false s a s' g hc h)
        (xc_weaken (xc_bind' _ _ (ih.valueX c true) (ih.valueB c true) (fun _ => xc_of_plain (plain_pure _)) (fun _ => bg_of_plain (plain_pure _))))
        (bg_bind _ _ (ih.valueB c true) (fun _ => bg_of_plain (plain_pure _)))))

theorem bg_objectFieldTail (n : Nat) (c : Bool) (ih : XAll n) (k : Option Kind) : BG (objectFieldTail n c k) :=
  bg_ite _ _ _ (bg_bind _ _ (bg_of_plain (plain_bump _)) (fun _ => bg_withRec _ _ plain_limitErr (ih.valueB c true)))
    (bg_of_plain plain_err)

/-- after `peek` saw the colon, `bump` leaves a current token, so the guard of the field value has a token
    to report the limit error at -/
theorem xc_objectFieldTail (n : Nat) (c : Bool) (ih : XAll n) (k : Option Kind) :
    XC (fun cur => cur.map (·.kind) = k) (objectFieldTail n c k) := by
  unfold objectFieldTail
  by_cases hk : k = some .colon
  · subst hk
    simp only [beq_self_eq_true, if_true]
    refine xc_bind (c' := fun _ cur => cur.isSome = true) _ _ (xc_of_plain (plain_bump _)) (bg_of_plain (plain_bump _)) ?_ ?_ ?_
    · intro s a s' g hc h
      refine post_bump "COLON" s a s' g ?_ h
      cases hcur : s.current with
      | none => rw [hcur] at hc; cases hc
      | some t =>
        rw [hcur] at hc
        simp only [Option.map_some, Option.some.injEq] at hc
        exact ⟨t, rfl, by rw [hc]; decide⟩
    · intro _
      exact xc_withRec _ _ plain_limitErr (fun s a s' g hc h => limitErr_records s s' g hc h)
        (xc_weaken (ih.valueX c true)) (ih.valueB c true)
    · intro _
      exact bg_withRec _ _ plain_limitErr (ih.valueB c true)
  · have : (k == some Kind.colon) = false := by
      cases hb : (k == some Kind.colon) with
      | false => rfl
      | true => exact absurd (by simpa using hb) hk
    simp only [this, Bool.false_eq_true, if_false]
    exact xc_of_plain plain_err

theorem xAll : ∀ n, XAll n
  | 0 => by
    refine ⟨?_, ?_, ?_, ?_, ?_, ?_, ?_, ?_⟩ <;> intros <;>
      first
        | (simp only [value]; first | exact xc_of_plain plain_outOfFuel | exact bg_of_plain plain_outOfFuel)
        | (simp only [listValue]; first | exact xc_of_plain plain_outOfFuel | exact bg_of_plain plain_outOfFuel)
        | (simp only [objectValue]; first | exact xc_of_plain plain_outOfFuel | exact bg_of_plain plain_outOfFuel)
        | (simp only [objectField]; first | exact xc_of_plain plain_outOfFuel | exact bg_of_plain plain_outOfFuel)
  | n + 1 => by
    have ih := xAll n
    have plainBranch : ∀ (c p : Bool) (k : Option Kind), k ≠ some .lBracket → k ≠ some .lCurly → Plain (valueBranch n c p k) := by
      intro c p k h1 h2
      cases k with
      | none => exact plain_valueErr p
      | some k =>
        cases k <;> first
          | exact absurd rfl h1
          | exact absurd rfl h2
          | exact plain_valueErr p
          | exact plain_variableBranch c p
          | exact plain_withNode _ _ (plain_bump _)
          | exact plain_bind _ _ plain_peekToken plain_nameValueBranch
    have branchX : ∀ (c p : Bool) (k : Option Kind), XC anyTok (valueBranch n c p k) := by
      intro c p k
      by_cases h1 : k = some .lBracket
      · subst h1; exact ih.listX c
      · by_cases h2 : k = some .lCurly
        · subst h2; exact ih.objX c
        · exact xc_of_plain (plainBranch c p k h1 h2)
    have branchB : ∀ (c p : Bool) (k : Option Kind), BG (valueBranch n c p k) := by
      intro c p k
      by_cases h1 : k = some .lBracket
      · subst h1; exact ih.listB c
      · by_cases h2 : k = some .lCurly
        · subst h2; exact ih.objB c
        · exact bg_of_plain (plainBranch c p k h1 h2)
    have listBodyB : ∀ c, BG (bump "L_BRACK" >>= fun _ => peekWhile (listLoopBody n c)) := fun c =>
      bg_bind _ _ (bg_of_plain (plain_bump _)) (fun _ => bg_bind _ _ (bg_of_plain plain_srcLen)
        (fun _ => bg_peekWhileLoop _ (bg_listLoopBody n c ih) _))
    have fieldBodyB : ∀ c, BG (name >>= fun _ => peek >>= objectFieldTail n c) := fun c =>
      bg_bind _ _ (bg_of_plain plain_name) (fun _ => bg_bind _ _ (bg_of_plain plain_peek) (bg_objectFieldTail n c ih))
    have objBodyB : ∀ c, BG (bump "L_CURLY" >>= fun _ => peekWhileKind .name (objectField n c) >>= fun _ => expect .rCurly "R_CURLY") := fun c =>
      bg_bind _ _ (bg_of_plain (plain_bump _)) (fun _ => bg_bind _ _
        (bg_bind _ _ (bg_of_plain plain_srcLen) (fun _ => bg_peekWhileKindLoop _ _ (ih.fieldB c) _))
        (fun _ => bg_of_plain (plain_expect _ _)))
    refine ⟨?_, ?_, ?_, ?_, ?_, ?_, ?_, ?_⟩
    · intro c p
      rw [value_succ]
      exact xc_bind' _ _ (xc_of_plain plain_peek) (bg_of_plain plain_peek) (branchX c p) (branchB c p)
    · intro c p
      rw [value_succ]
      exact bg_bind _ _ (bg_of_plain plain_peek) (branchB c p)
    · intro c
      rw [listValue_succ]
      refine xc_withNode _ _ (xc_bind' _ _ (xc_of_plain plain_skipIgnored) (bg_of_plain plain_skipIgnored) (fun _ => ?_) (fun _ => listBodyB c))
      refine xc_bind' _ _ (xc_of_plain (plain_bump _)) (bg_of_plain (plain_bump _)) (fun _ => ?_) (fun _ => ?_)
      · exact xc_bind' _ _ (xc_of_plain plain_srcLen) (bg_of_plain plain_srcLen)
          (fun _ => xc_peekWhileLoop _ (xc_listLoopBody n c ih) (bg_listLoopBody n c ih) _)
          (fun _ => bg_peekWhileLoop _ (bg_listLoopBody n c ih) _)
      · exact bg_bind _ _ (bg_of_plain plain_srcLen) (fun _ => bg_peekWhileLoop _ (bg_listLoopBody n c ih) _)
    · intro c
      rw [listValue_succ]
      exact bg_withNode _ _ (listBodyB c)
    · intro c
      rw [objectValue_succ]
      refine xc_withNode _ _ (xc_bind' _ _ (xc_of_plain plain_skipIgnored) (bg_of_plain plain_skipIgnored) (fun _ => ?_) (fun _ => objBodyB c))
      refine xc_bind' _ _ (xc_of_plain (plain_bump _)) (bg_of_plain (plain_bump _)) (fun _ => ?_) (fun _ => ?_)
      · refine xc_bind' _ _ ?_ ?_ (fun _ => xc_of_plain (plain_expect _ _)) (fun _ => bg_of_plain (plain_expect _ _))
        · exact xc_bind' _ _ (xc_of_plain plain_srcLen) (bg_of_plain plain_srcLen)
            (fun _ => xc_peekWhileKindLoop _ _ (ih.fieldX c) (ih.fieldB c) _)
            (fun _ => bg_peekWhileKindLoop _ _ (ih.fieldB c) _)
        · exact bg_bind _ _ (bg_of_plain plain_srcLen) (fun _ => bg_peekWhileKindLoop _ _ (ih.fieldB c) _)
      · exact bg_bind _ _ (bg_bind _ _ (bg_of_plain plain_srcLen) (fun _ => bg_peekWhileKindLoop _ _ (ih.fieldB c) _))
          (fun _ => bg_of_plain (plain_expect _ _))
    · intro c
      rw [objectValue_succ]
      exact bg_withNode _ _ (objBodyB c)
    · intro c
      rw [objectField_succ]
      refine xc_withNode _ _ (xc_bind' _ _ (xc_of_plain plain_skipIgnored) (bg_of_plain plain_skipIgnored) (fun _ => ?_) (fun _ => fieldBodyB c))
      refine xc_bind' _ _ (xc_of_plain plain_name) (bg_of_plain plain_name) (fun _ => ?_) (fun _ => ?_)
      · exact xc_bind (c' := fun k cur => cur.map (·.kind) = k) _ _ (xc_of_plain plain_peek) (bg_of_plain plain_peek)
          (post_peek _) (xc_objectFieldTail n c ih) (bg_objectFieldTail n c ih)
      · exact bg_bind _ _ (bg_of_plain plain_peek) (bg_objectFieldTail n c ih)
    · intro c
      rw [objectField_succ]
      exact bg_withNode _ _ (fieldBodyB c)


/-- value.rs, a run with recursion limit `r` against the same run with a limit `R` that is never hit:
    the limited run's high-water mark is `min (unlimited high-water mark) (r + 1)`, and it has a limit
    error on record exactly when the unlimited run went deeper than `r` (or that run has one itself,
    which only a token limit could cause). -/
theorem value_cross (n : Nat) (c p : Bool) (s : PState) (r R : Nat) (sr sR : PState)
    (hrR : r ≤ R) (hc : s.recCur ≤ r) (hh : s.recHigh ≤ r) (g : GI s)
    (hr : (value n c p).run (setL r s) = .ok () sr) (hR : (value n c p).run (setL R s) = .ok () sR)
    (hfree : sR.recHigh ≤ R) :
    sr.recHigh = min sR.recHigh (r + 1) ∧ (HasLim sr.errors ↔ (sR.recHigh > r ∨ HasLim sR.errors)) := by
  rcases (xAll n).valueX c p s r R () () sr sR hrR hc hh g trivial hr hR with ⟨t, e1, e2, _, th, _, _⟩ | ⟨d1, d2, d3⟩
  · subst e1 e2
    refine ⟨?_, ?_⟩
    · show t.recHigh = min t.recHigh (r + 1)
      omega
    · show HasLim t.errors ↔ (t.recHigh > r ∨ HasLim t.errors)
      constructor
      · exact Or.inr
      · rintro (h | h)
        · omega
        · exact h
  · exact ⟨by omega, ⟨fun _ => Or.inl (by omega), fun _ => d1⟩⟩

end Apollo.Parse
