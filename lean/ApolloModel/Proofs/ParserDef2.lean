import ApolloModel.Proofs.ParserDef1
/-
C05 growth (type-system definitions), part 2: the atoms of the calculus — `bump`, one-token nodes, `name`,
`err`, `expect`, and the already proved productions (`ty`, `value`, `arguments`, `directives`) as `Acc` facts.
-/
set_option linter.unusedSimpArgs false
namespace Apollo.Parse
open Apollo.Rowan hiding Str
open Apollo.Lex hiding Str

/-- what makes a head token `t` a grammar token in the language `L` -/
def TokOk (P : Tok → Prop) (L : List Ast.Tok → Prop) : Prop :=
  ∀ t, P t → isIgnoredKind t.kind = false ∧ t.kind ≠ .eof ∧ ∃ x0, astOfV t = some x0 ∧ L [x0]

def HeadP (P : Tok → Prop) (q : List Tok) : Prop := ∃ t, q.head? = some t ∧ P t

theorem acc_bump {E : PState → Prop} (k : SK) (P : Tok → Prop) (L : List Ast.Tok → Prop) (hP : TokOk P L) :
    Acc E (HeadP P) (bump k) (fun _ x => L x) := by
  refine ⟨good_bump k, ?_⟩
  intro s a s' w he ⟨t, hh, hp⟩ hr _
  obtain ⟨hni, hne, x0, hx0, hL⟩ := hP t hp
  obtain ⟨ign, e, hall, _⟩ := bump_spec k s s' w t _ (toks_head_cons s t hh) hr
  refine ⟨t :: ign, e.toks, noEof_cons hne hall, eofEnd_eat he e (noEof_cons hne hall), Or.inl ⟨[x0], ?_, hL⟩⟩
  rw [sig_cons_ignV t ign hni hall]
  exact TokIs.single t x0 hx0

theorem headP_sig {P : Tok → Prop} {L} (hP : TokOk P L) : ∀ q, HeadP P q → ∃ t rest, q = t :: rest ∧ isIgnoredKind t.kind = false := by
  intro q ⟨t, hh, hp⟩
  cases q with
  | nil => cases hh
  | cons a b =>
    simp only [List.head?_cons, Option.some.injEq] at hh
    subst hh
    exact ⟨a, b, rfl, (hP a hp).1⟩

/-- `err` never takes part in an error-free run -/
theorem acc_err {E : PState → Prop} {H : List Tok → Prop} {R : Unit → List Ast.Tok → Prop} : Acc E H err R := by
  refine ⟨good_err, ?_⟩
  intro s a s' w he _ hr hnd
  exfalso
  obtain ⟨ad, d⟩ := err_adv s s' w hr
  have hnds : ¬ Doomed s := fun dd => hnd (ad.doom dd)
  exact hnd (d (eofEnd_nonempty s he hnds))

theorem acc_name {E : PState → Prop} {H : List Tok → Prop} : Acc E H name (fun _ x => ∃ n, x = [.name n]) := by
  refine ⟨good_name, ?_⟩
  intro s a s' w he _ hr hnd
  have hnds : ¬ Doomed s := fun dd => hnd ((good_name s a s' w hr).doom dd)
  obtain ⟨t, rest, ign, hq, hk, e, hall⟩ := name_spec s s' w (eofEnd_nonempty s he hnds) hr hnd
  have hni : isIgnoredKind t.kind = false := by rw [hk]; rfl
  have hne : t.kind ≠ .eof := by rw [hk]; decide
  refine ⟨t :: ign, e.toks, noEof_cons hne hall, eofEnd_eat he e (noEof_cons hne hall), Or.inl ⟨[.name t.data], ?_, t.data, rfl⟩⟩
  rw [sig_cons_ignV t ign hni hall]
  exact TokIs.single t _ (by simp [astOfV, hk])

/-- `expect(kind)`: the token of that kind is consumed (otherwise an error is recorded) -/
theorem acc_expect {E : PState → Prop} {H : List Tok → Prop} (token : Kind) (sk : SK) (x0 : Ast.Tok)
    (hx : ∀ t, t.kind = token → astOfV t = some x0) (hni : isIgnoredKind token = false) (hne : token ≠ .eof) :
    Acc E H (expect token sk) (fun _ x => x = [x0]) := by
  refine ⟨good_expect token sk, ?_⟩
  intro s a s' w he _ hr hnd
  obtain ⟨ad, hex⟩ := expect_spec token sk s s' w hr
  have hnds : ¬ Doomed s := fun dd => hnd (ad.doom dd)
  rcases hex with ⟨hemp, _⟩ | hd | ⟨t, rest, ign, hq, hk, e, hall, _⟩
  · exact absurd hemp (eofEnd_nonempty s he hnds)
  · exact absurd hd hnd
  · have hni' : isIgnoredKind t.kind = false := by rw [hk]; exact hni
    have hne' : t.kind ≠ .eof := by rw [hk]; exact hne
    refine ⟨t :: ign, e.toks, noEof_cons hne' hall, eofEnd_eat he e (noEof_cons hne' hall), Or.inl ⟨[x0], ?_, rfl⟩⟩
    rw [sig_cons_ignV t ign hni' hall]
    exact TokIs.single t x0 (hx t hk)

/-- `expect` on a closing token rules out the "stopped at the end of input" alternative of what precedes -/
theorem acc_close {α : Type} {H : List Tok → Prop} {m : PI α} {R : α → List Ast.Tok → Prop}
    (token : Kind) (sk : SK) (x0 : Ast.Tok)
    (hx : ∀ t, t.kind = token → astOfV t = some x0) (hni : isIgnoredKind token = false) (hne : token ≠ .eof)
    (h : Acc AtEof H m R) :
    Acc (fun _ => False) H (m >>= fun _ => expect token sk) (fun _ x => ∃ a x1, x = x1 ++ [x0] ∧ R a x1) := by
  refine ⟨good_bind _ _ h.1 (fun _ => good_expect token sk), ?_⟩
  intro s b s'' w he hq hr hnd
  obtain ⟨a, s', hr1, hr2⟩ := bind_dec m _ s s'' b hr
  have ad := h.1 s a s' w hr1
  have hnd' : ¬ Doomed s' := fun d => hnd ((good_expect token sk s' b s'' ad.w hr2).doom d)
  obtain ⟨c1, t1, n1, e1, r1⟩ := h.2 s a s' w he hq hr1 hnd'
  obtain ⟨_, hex⟩ := expect_spec token sk s' s'' ad.w hr2
  rcases hex with ⟨hemp, _⟩ | hd | ⟨t, rest, ign, hq2, hk, e, hall, _⟩
  · exact absurd hemp (eofEnd_nonempty s' e1 hnd')
  · exact absurd hd hnd
  · have hni' : isIgnoredKind t.kind = false := by rw [hk]; exact hni
    have hne' : t.kind ≠ .eof := by rw [hk]; exact hne
    refine ⟨c1 ++ (t :: ign), by rw [t1, e.toks, List.append_assoc], noEof_append n1 (noEof_cons hne' hall),
      eofEnd_eat e1 e (noEof_cons hne' hall), Or.inl ?_⟩
    rcases r1 with ⟨x1, hx1, hr1'⟩ | ⟨e0, hh, hke⟩
    · refine ⟨x1 ++ [x0], ?_, a, x1, rfl, hr1'⟩
      rw [sig_append, sig_cons_ignV t ign hni' hall]
      exact hx1.append (TokIs.single t x0 (hx t hk))
    · exfalso
      rw [hq2] at hh
      simp only [List.head?_cons, Option.some.injEq] at hh
      subst hh
      exact hne' hke

/-! ### the productions proved earlier -/

theorem astOf_astOfV (t : Tok) (x : Ast.Tok) (h : astOf t = some x) : astOfV t = some x := by
  unfold astOf at h
  unfold astOfV
  cases hk : t.kind <;> simp only [hk] at h ⊢ <;> first | exact h | cases h

theorem isTy_tokIs : ∀ (ts : List Tok) (xs : List Ast.Tok), ts.map astOf = xs.map some → TokIs ts xs
  | [], [], _ => TokIs.nil
  | [], _ :: _, h => by simp at h
  | _ :: _, [], h => by simp at h
  | t :: ts, x :: xs, h => by
    simp only [List.map_cons, List.cons.injEq] at h
    exact TokIs.cons (astOf_astOfV t x h.1) (isTy_tokIs ts xs h.2)

theorem acc_ty {E : PState → Prop} {H : List Tok → Prop} (n : Nat) : Acc E H (ty n) (fun _ x => ∃ t, x = Ast.tTy t) := by
  refine ⟨good_ty n, ?_⟩
  intro s a s' w he _ hr hnd
  unfold ty at hr
  obtain ⟨r, sT, hT, h3⟩ := bind_dec (tyParse n) _ s s' () hr
  have aT := good_tyParse n s r sT w hT
  have hok : r = .ok ∧ sT = s' := by
    cases r with
    | ok => simp only [] at h3; rw [run_pure] at h3; injection h3 with _ h3; exact ⟨rfl, h3⟩
    | early =>
      exfalso
      simp only [] at h3; rw [run_pure] at h3; injection h3 with _ h3; subst h3
      rcases tyParse_sound n s sT _ w he hT hnd with ⟨tk, hx⟩ | ⟨hx, _⟩ <;> cases hx
    | errTok tk =>
      exfalso
      simp only [] at h3
      exact hnd (errAtToken_adv tk sT s' aT.w h3).2
    | errNone =>
      exfalso
      simp only [] at h3
      have hndT : ¬ Doomed sT := fun d => hnd ((good_err sT () s' aT.w h3).doom d)
      rcases tyParse_sound n s sT _ w he hT hndT with ⟨tk, hx⟩ | ⟨hx, _⟩ <;> cases hx
  obtain ⟨rfl, rfl⟩ := hok
  rcases tyParse_sound n s sT _ w he hT hnd with ⟨tk, hx⟩ | ⟨_, ok⟩
  · cases hx
  obtain ⟨c, t, hc, hty, hno⟩ := ok.ex
  exact ⟨c, hc, hno, ok.eof, Or.inl ⟨Ast.tTy t, isTy_tokIs _ _ hty, t, rfl⟩⟩

theorem acc_value {H : List Tok → Prop} (n : Nat) (c p : Bool) :
    Acc AtEof H (value n c p) (fun _ x => ∃ v, x = Ast.tValue v ∧ valueOk c v = true) := by
  refine ⟨good_value n c p, ?_⟩
  intro s a s' w he _ hr hnd
  obtain ⟨⟨cs, a1, a2, a4⟩, a3⟩ := value_sound n c p s s' w he hr hnd
  refine ⟨cs, a1, a2, a3, ?_⟩
  rcases a4 with ⟨v, hv, hok⟩ | e
  · exact Or.inl ⟨_, hv, v, rfl, hok⟩
  · exact Or.inr e

def dirsOk (c : Bool) (ds : List Ast.Directive) : Prop := ∀ d ∈ ds, argsOk c d.args

theorem acc_directives {E : PState → Prop} {H : List Tok → Prop} (n : Nat) (c : Bool) :
    Acc E H (directives n c) (fun _ x => ∃ ds, x = Ast.tDirectives ds ∧ dirsOk c ds) := by
  refine ⟨good_directives n c, ?_⟩
  intro s a s' w he _ hr hnd
  obtain ⟨cs, ds, a1, a2, a3, a4, a5⟩ := directives_sound n c s s' w he hr hnd
  exact ⟨cs, a1, a2, a3, Or.inl ⟨_, a4, ds, rfl, a5⟩⟩

end Apollo.Parse
