import ApolloModel.Proofs.ParserRecursion9
import ApolloModel.Proofs.ParserSel1
/-
C04 growth (recursion limit across runs), part 10: the pair "cross-run property + single-run bounds" (`XG`)
as a calculus over the combinators; the guard-free functions of selection.rs / field.rs / fragment.rs;
argument.rs and directive.rs (they contain values).
-/
set_option linter.unusedSimpArgs false
set_option linter.unusedVariables false
namespace Apollo.Parse
open Apollo.Rowan hiding Str
open Apollo.Lex hiding Str

structure XG {α : Type} (m : PI α) : Prop where
  x : XC anyTok m
  b : BG m

theorem xg_of_plain {α : Type} {m : PI α} (h : Plain m) : XG m := ⟨xc_of_plain h, bg_of_plain h⟩

theorem xg_pure {α : Type} (a : α) : XG (pure a : PI α) := xg_of_plain (plain_pure a)

theorem xg_bind {α β : Type} (m : PI α) (f : α → PI β) (hm : XG m) (hf : ∀ a, XG (f a)) : XG (m >>= f) :=
  ⟨xc_bind' _ _ hm.x hm.b (fun a => (hf a).x) (fun a => (hf a).b), bg_bind _ _ hm.b (fun a => (hf a).b)⟩

theorem xg_ite {α : Type} (c : Bool) (a b : PI α) (ha : XG a) (hb : XG b) : XG (if c then a else b) := by
  cases c <;> simp [ha, hb]

theorem xg_withNode {α : Type} (kind : SK) (body : PI α) (hb : XG body) : XG (withNode kind body) :=
  ⟨xc_withNode _ _ (xc_bind' _ _ (xc_of_plain plain_skipIgnored) (bg_of_plain plain_skipIgnored) (fun _ => hb.x) (fun _ => hb.b)),
   bg_withNode _ _ hb.b⟩

theorem xg_peekWhileKind (k : Kind) (body : PI Unit) (hb : XG body) : XG (peekWhileKind k body) :=
  xg_bind _ _ (xg_of_plain plain_srcLen) (fun _ => ⟨xc_peekWhileKindLoop _ _ hb.x hb.b _, bg_peekWhileKindLoop _ _ hb.b _⟩)

theorem xg_peek : XG peek := xg_of_plain plain_peek
theorem xg_err : XG err := xg_of_plain plain_err
theorem xg_bump (k : SK) : XG (bump k) := xg_of_plain (plain_bump k)
theorem xg_expect (t : Kind) (k : SK) : XG (expect t k) := xg_of_plain (plain_expect t k)
theorem xg_name : XG name := xg_of_plain plain_name

/-! ### guard-free functions -/

theorem plain_peekTokenN (n : Nat) : Plain (peekTokenN n) :=
  ⟨fun s L => rfl, fun s a s' h => by
    unfold peekTokenN at h; simp only [] at h; injection h with _ h; subst h; exact PlainOut.refl s⟩

theorem plain_peekN (n : Nat) : Plain (peekN n) := plain_bind _ _ (plain_peekTokenN n) (fun _ => plain_pure _)

theorem plain_namedType : Plain namedType := by
  unfold namedType
  exact plain_bind _ _ plain_peek (fun k => plain_ite _ _ _ (plain_withNode _ _ plain_name) (plain_pure _))

theorem plain_alias : Plain alias := plain_withNode _ _ (plain_bind _ _ plain_name (fun _ => plain_bump _))

theorem plain_fragmentName : Plain fragmentName := by
  unfold fragmentName
  refine plain_withNode _ _ (plain_bind _ _ plain_peekToken (fun o => ?_))
  cases o with
  | none => exact plain_err
  | some t => exact plain_ite _ _ _ plain_err (plain_ite _ _ _ plain_name plain_err)

theorem plain_typeCondition : Plain typeCondition := by
  unfold typeCondition
  refine plain_withNode _ _ (plain_bind _ _ plain_peekToken (fun o => ?_))
  cases o with
  | none => exact plain_err
  | some t =>
    have jp : Plain (peek >>= fun k => if k == some Kind.name then namedType else err) :=
      plain_bind _ _ plain_peek (fun k => plain_ite _ _ _ plain_namedType plain_err)
    by_cases hc : (t.kind == .name && kw "on" t.data) = true
    · simp only [hc, if_true]
      exact plain_bind _ _ (plain_bump _) (fun _ => jp)
    · simp only [hc, Bool.false_eq_true, if_false]
      exact plain_bind _ _ plain_err (fun _ => jp)

/-! ### argument.rs, directive.rs -/

theorem xg_value (n : Nat) (c p : Bool) : XG (value n c p) := ⟨(xAll n).valueX c p, (xAll n).valueB c p⟩

theorem xg_argumentTail (n : Nat) (c : Bool) (k : Option Kind) : XG (argumentTail n c k) :=
  xg_ite _ _ _ (xg_bind _ _ (xg_bump _) (fun _ => xg_value n c false)) xg_err

theorem xg_argument (n : Nat) (c : Bool) : XG (argument n c) := by
  rw [argument_eq]
  exact xg_withNode _ _ (xg_bind _ _ xg_name (fun _ => xg_bind _ _ xg_peek (xg_argumentTail n c)))

theorem xg_argumentsRest (n : Nat) (c : Bool) : XG (argumentsRest n c) :=
  xg_bind _ _ (xg_peekWhileKind _ _ (xg_argument n c)) (fun _ => xg_expect _ _)

theorem xg_arguments (n : Nat) (c : Bool) : XG (arguments n c) := by
  rw [arguments_eq]
  refine xg_withNode _ _ (xg_bind _ _ (xg_bump _) (fun _ => xg_bind _ _ xg_peek (fun k => ?_)))
  exact xg_ite _ _ _ (xg_bind _ _ (xg_argument n c) (fun _ => xg_argumentsRest n c))
    (xg_bind _ _ xg_err (fun _ => xg_argumentsRest n c))

theorem xg_directive (n : Nat) (c : Bool) : XG (directive n c) := by
  rw [directive_eq]
  exact xg_withNode _ _ (xg_bind _ _ (xg_expect _ _) (fun _ => xg_bind _ _ xg_name (fun _ => xg_bind _ _ xg_peek
    (fun k => xg_ite _ _ _ (xg_arguments n c) (xg_pure _)))))

theorem xg_directives (n : Nat) (c : Bool) : XG (directives n c) :=
  xg_withNode _ _ (xg_peekWhileKind _ _ (xg_directive n c))

theorem xg_fragmentSpread (n : Nat) : XG (fragmentSpread n) := by
  unfold fragmentSpread
  refine xg_withNode _ _ (xg_bind _ _ (xg_bump _) (fun _ => xg_bind _ _ xg_peek (fun k => ?_)))
  have jp : XG (peek >>= fun k => if k == some Kind.at then directives n false else pure ()) :=
    xg_bind _ _ xg_peek (fun k => xg_ite _ _ _ (xg_directives n false) (xg_pure _))
  by_cases hc : (k == some Kind.name) = true
  · simp only [hc, if_true]; exact xg_bind _ _ (xg_of_plain plain_fragmentName) (fun _ => jp)
  · simp only [hc, Bool.false_eq_true, if_false]; exact xg_bind _ _ xg_err (fun _ => jp)

/-! ### `peek_while` with a flag -/

theorem bg_peekWhileFlagLoop (body : Kind → PI (Bool × Bool)) (hb : ∀ k, BG (body k)) :
    ∀ fuel flag, BG (peekWhileFlagLoop body fuel flag)
  | 0, _ => bg_of_plain plain_outOfFuel
  | fuel + 1, flag => by
    unfold peekWhileFlagLoop
    refine bg_bind _ _ (bg_of_plain plain_peek) ?_
    intro k
    cases k with
    | none => exact bg_of_plain (plain_pure _)
    | some kind =>
      refine bg_bind _ _ (bg_of_plain plain_getCurrent) (fun before => bg_bind _ _ (hb kind) ?_)
      intro cs
      obtain ⟨c, st⟩ := cs
      cases c with
      | false => exact bg_of_plain (plain_pure _)
      | true =>
        refine bg_bind _ _ (bg_of_plain plain_getCurrent) (fun after => ?_)
        exact bg_ite _ _ _ (bg_of_plain plain_stuck) (bg_peekWhileFlagLoop body hb fuel _)

theorem xg_peekWhileFlagLoop (body : Kind → PI (Bool × Bool)) (hb : ∀ k, XG (body k)) :
    ∀ fuel flag, XG (peekWhileFlagLoop body fuel flag)
  | 0, _ => xg_of_plain plain_outOfFuel
  | fuel + 1, flag => by
    unfold peekWhileFlagLoop
    refine xg_bind _ _ xg_peek ?_
    intro k
    cases k with
    | none => exact xg_pure _
    | some kind =>
      refine xg_bind _ _ (xg_of_plain plain_getCurrent) (fun before => xg_bind _ _ (hb kind) ?_)
      intro cs
      obtain ⟨c, st⟩ := cs
      cases c with
      | false => exact xg_pure _
      | true =>
        refine xg_bind _ _ (xg_of_plain plain_getCurrent) (fun after => ?_)
        exact xg_ite _ _ _ (xg_of_plain plain_stuck) (xg_peekWhileFlagLoop body hb fuel _)

end Apollo.Parse
