import ApolloModel.Proofs.AstDefinitions
/-
Round trip of whole definitions and documents through the reference parser.
-/
namespace Apollo.Ast

/-- the keywords a definition can start with -/
def isDefKeyword (k : Str) : Bool :=
  k == "query".toList || k == "mutation".toList || k == "subscription".toList || k == "fragment".toList
    || k == "extend".toList || k == "schema".toList || k == "scalar".toList || k == "type".toList
    || k == "interface".toList || k == "union".toList || k == "enum".toList || k == "input".toList
    || k == "directive".toList

/-- what may follow a definition: the end of input, a description, or a definition keyword
    (in particular not `{`: a shorthand query is only written as the first definition) -/
def defFollow : List Tok → Bool
  | [] => true
  | .str _ :: _ => true
  | .name k :: _ => isDefKeyword k
  | _ => false

theorem defFollow_calm {ts : List Tok} (h : defFollow ts = true) : calm ts = true := by
  cases ts with
  | nil => rfl
  | cons a r => cases a <;> simp_all [defFollow, calm]

theorem isDefKeyword_implements : isDefKeyword sImplements = false := by decide

theorem defFollow_ne_implements {ts : List Tok} (h : defFollow ts = true) : ts.head? ≠ some (.name sImplements) := by
  cases ts with
  | nil => simp
  | cons a r =>
    intro e
    simp only [List.head?_cons, Option.some.injEq] at e
    subst e
    simp [defFollow, isDefKeyword_implements] at h

theorem head_tBraced (items : List Tok) (e : Bool) (X : List Tok) (t : Tok) (h : (tBraced items e ++ X).head? = some t) :
    t = .p .lCurly ∨ X.head? = some t := by
  cases e with
  | true => right; simpa [tBraced] using h
  | false => left; simp [tBraced] at h; exact h.symm

/-! ### bodies -/

theorem objectTypeLike_roundtrip (name : Str) (impls : List Str) (dirs : List Directive) (fields : List FieldDef)
    (f : Nat) (rest : List Tok) (h1 : wfDirs dirs = true) (h2 : wfFieldDefs fields = true)
    (hs : impls.length + szDirs dirs + szFieldDefs fields ≤ f) (hr : defFollow rest = true) :
    pObjectTypeLike f (tObjectTypeLike name impls dirs fields ++ rest) = some ((name, impls, dirs, fields), rest) := by
  have hc := defFollow_calm hr
  have a := implements_roundtrip impls f (tDirectives dirs ++ (tBraced (tFieldDefItems fields) fields.isEmpty ++ rest))
    (by omega)
    (by
      intro e
      rcases head_tDirectives _ _ _ e with h | e
      · cases h
      · rcases head_tBraced _ _ _ _ e with h | e
        · cases h
        · exact calm_ne hc .amp (by decide) (by decide) (by decide) e)
    (by
      intro e
      rcases head_tDirectives _ _ _ e with h | e
      · cases h
      · rcases head_tBraced _ _ _ _ e with h | e
        · cases h
        · exact defFollow_ne_implements hr e)
  have b := directives_roundtrip dirs f (tBraced (tFieldDefItems fields) fields.isEmpty ++ rest) h1 (by omega)
    (by
      constructor <;> intro e <;> rcases head_tBraced _ _ _ _ e with h | e
      · cases h
      · exact calm_ne hc .at (by decide) (by decide) (by decide) e
      · cases h
      · exact calm_ne hc .lParen (by decide) (by decide) (by decide) e)
  have c := fieldsDefinition_roundtrip fields f rest h2 (by omega) (calm_ne hc .lCurly (by decide) (by decide) (by decide))
  simp only [tObjectTypeLike, List.cons_append, List.append_assoc]
  simp [pObjectTypeLike, a, b, c]

theorem unionBody_roundtrip (name : Str) (dirs : List Directive) (members : List Str) (f : Nat) (rest : List Tok)
    (h1 : wfDirs dirs = true) (hs : szDirs dirs + members.length ≤ f) (hr : defFollow rest = true) :
    pUnionBody f (tUnion name dirs members ++ rest) = some ((name, dirs, members), rest) := by
  have hc := defFollow_calm hr
  have b := directives_roundtrip dirs f (tSepList [.p .eq] .pipe members ++ rest) h1 (by omega)
    (by
      cases members with
      | nil => simpa [tSepList] using calm_dirFollow hc
      | cons a r => simp [tSepList, dirFollow])
  have c := unionMembers_roundtrip members f rest (by omega) (calm_ne hc .pipe (by decide) (by decide) (by decide))
    (calm_ne hc .eq (by decide) (by decide) (by decide))
  simp only [tUnion, List.cons_append, List.append_assoc]
  simp [pUnionBody, b, c]

theorem enumBody_roundtrip (name : Str) (dirs : List Directive) (values : List EnumValueDef) (f : Nat) (rest : List Tok)
    (h1 : wfDirs dirs = true) (h2 : wfEnumValueDefs values = true) (hs : szDirs dirs + szEnumValueDefs values ≤ f)
    (hr : defFollow rest = true) :
    pEnumBody f (tEnumBody name dirs values ++ rest) = some ((name, dirs, values), rest) := by
  have hc := defFollow_calm hr
  have b := directives_roundtrip dirs f (tBraced (tEnumValueDefItems values) values.isEmpty ++ rest) h1 (by omega)
    (by
      constructor <;> intro e <;> rcases head_tBraced _ _ _ _ e with h | e
      · cases h
      · exact calm_ne hc .at (by decide) (by decide) (by decide) e
      · cases h
      · exact calm_ne hc .lParen (by decide) (by decide) (by decide) e)
  have c := enumValuesDefinition_roundtrip values f rest h2 (by omega)
    (calm_ne hc .lCurly (by decide) (by decide) (by decide))
  simp only [tEnumBody, List.cons_append, List.append_assoc]
  simp [pEnumBody, b, c]

theorem inputBody_roundtrip (name : Str) (dirs : List Directive) (fields : List InputValueDef) (f : Nat) (rest : List Tok)
    (h1 : wfDirs dirs = true) (h2 : wfIVDs fields = true) (hs : szDirs dirs + szIVDs fields ≤ f)
    (hr : defFollow rest = true) :
    pInputBody f (tInputBody name dirs fields ++ rest) = some ((name, dirs, fields), rest) := by
  have hc := defFollow_calm hr
  have b := directives_roundtrip dirs f (tBraced (tIVDItems fields) fields.isEmpty ++ rest) h1 (by omega)
    (by
      constructor <;> intro e <;> rcases head_tBraced _ _ _ _ e with h | e
      · cases h
      · exact calm_ne hc .at (by decide) (by decide) (by decide) e
      · cases h
      · exact calm_ne hc .lParen (by decide) (by decide) (by decide) e)
  have c := inputFieldsDefinition_roundtrip fields f rest h2 (by omega)
    (calm_ne hc .lCurly (by decide) (by decide) (by decide))
  simp only [tInputBody, List.cons_append, List.append_assoc]
  simp [pInputBody, b, c]

/-- `Directives? { Selection+ }` -/
theorem dirsSelSet_roundtrip (dirs : List Directive) (sels : Sels) (f : Nat) (rest : List Tok) (h1 : wfDirs dirs = true)
    (h2 : wfSels sels = true) (hne : sels ≠ .nil) (hs : szDirs dirs + szSels sels ≤ f) :
    pDirectives f (tDirectives dirs ++ tSelSet sels ++ rest) = some (dirs, tSelSet sels ++ rest)
    ∧ pSelectionSet f (tSelSet sels ++ rest) = some (sels, rest) := by
  constructor
  · have := directives_roundtrip dirs f (tSelSet sels ++ rest) h1 (by omega) (by simp [tSelSet, dirFollow])
    simpa [List.append_assoc] using this
  · have := selsNE_roundtrip sels f rest hne h2 (by omega)
    simpa [tSelSet, pSelectionSet] using this

/-! ### definitions -/

def nonNil : Sels → Bool
  | .nil => false
  | _ => true

theorem nonNil_ne {ss : Sels} (h : nonNil ss = true) : ss ≠ .nil := by
  intro e; subst e; simp [nonNil] at h

/-- what an error-free parse guarantees about a definition (besides `wfValue` of its values):
    selection sets of operations, fragments and inline fragments are non-empty, fragments are not named
    `on`, a directive definition has a location, a schema definition has a root operation -/
def wfDefinition : Definition → Bool
  | .operation _ _ vars dirs sels => wfVarDefs vars && wfDirs dirs && wfSels sels && nonNil sels
  | .fragment name _ dirs sels => name != sOn && wfDirs dirs && wfSels sels && nonNil sels
  | .directiveDef _ _ args _ locs => wfIVDs args && !locs.isEmpty
  | .schemaDef _ dirs roots => wfDirs dirs && !roots.isEmpty
  | .scalarDef _ _ dirs => wfDirs dirs
  | .objectDef _ _ _ dirs fields => wfDirs dirs && wfFieldDefs fields
  | .interfaceDef _ _ _ dirs fields => wfDirs dirs && wfFieldDefs fields
  | .unionDef _ _ dirs _ => wfDirs dirs
  | .enumDef _ _ dirs values => wfDirs dirs && wfEnumValueDefs values
  | .inputDef _ _ dirs fields => wfDirs dirs && wfIVDs fields
  | .schemaExt dirs _ => wfDirs dirs
  | .scalarExt _ dirs => wfDirs dirs
  | .objectExt _ _ dirs fields => wfDirs dirs && wfFieldDefs fields
  | .interfaceExt _ _ dirs fields => wfDirs dirs && wfFieldDefs fields
  | .unionExt _ dirs _ => wfDirs dirs
  | .enumExt _ dirs values => wfDirs dirs && wfEnumValueDefs values
  | .inputExt _ dirs fields => wfDirs dirs && wfIVDs fields

def szDefinition : Definition → Nat
  | .operation _ _ vars dirs sels => szVarDefs vars + szDirs dirs + szSels sels + 1
  | .fragment _ _ dirs sels => szDirs dirs + szSels sels + 1
  | .directiveDef _ _ args _ locs => szIVDs args + locs.length + 1
  | .schemaDef _ dirs roots => szDirs dirs + roots.length + 2
  | .scalarDef _ _ dirs => szDirs dirs + 1
  | .objectDef _ _ impls dirs fields => impls.length + szDirs dirs + szFieldDefs fields + 1
  | .interfaceDef _ _ impls dirs fields => impls.length + szDirs dirs + szFieldDefs fields + 1
  | .unionDef _ _ dirs members => szDirs dirs + members.length + 1
  | .enumDef _ _ dirs values => szDirs dirs + szEnumValueDefs values + 1
  | .inputDef _ _ dirs fields => szDirs dirs + szIVDs fields + 1
  | .schemaExt dirs roots => szDirs dirs + roots.length + 2
  | .scalarExt _ dirs => szDirs dirs + 1
  | .objectExt _ impls dirs fields => impls.length + szDirs dirs + szFieldDefs fields + 1
  | .interfaceExt _ impls dirs fields => impls.length + szDirs dirs + szFieldDefs fields + 1
  | .unionExt _ dirs members => szDirs dirs + members.length + 1
  | .enumExt _ dirs values => szDirs dirs + szEnumValueDefs values + 1
  | .inputExt _ dirs fields => szDirs dirs + szIVDs fields + 1

/-- a definition with a description is parsed by `pTypeSystemRest (some d)`; without, by the keyword -/
theorem pDefinition_desc (f : Nat) (d kwd : Str) (X : List Tok) :
    pDefinition f (.str d :: .name kwd :: X) = pTypeSystemRest f (some d) kwd X := rfl

theorem pDefinition_tsk (f : Nat) (kwd : Str) (X : List Tok) (h1 : opTypeOf kwd = none)
    (h2 : kwd ≠ "fragment".toList) (h3 : kwd ≠ "extend".toList) :
    pDefinition f (.name kwd :: X) = pTypeSystemRest f none kwd X := by
  unfold pDefinition
  simp only [h1]
  rw [if_neg h2, if_neg h3]

/-- type-system definition: `Description? keyword body` -/
theorem typeSystem_dispatch (f : Nat) (desc : Option Str) (kwd : Str) (X : List Tok) (h1 : opTypeOf kwd = none)
    (h2 : kwd ≠ "fragment".toList) (h3 : kwd ≠ "extend".toList) :
    pDefinition f (tDescription desc ++ .name kwd :: X) = pTypeSystemRest f desc kwd X := by
  cases desc with
  | none => exact pDefinition_tsk f kwd X h1 h2 h3
  | some d => exact pDefinition_desc f d kwd X

theorem extension_dispatch (f : Nat) (kwd : Str) (X : List Tok) :
    pDefinition f (.name "extend".toList :: .name kwd :: X) = pExtensionRest f kwd X := by
  simp [pDefinition, opTypeOf]

theorem pDefinition_op (f : Nat) (ot : OpType) (X : List Tok) :
    pDefinition f (.name ot.name.toList :: X) = pOperationRest f ot X := by
  unfold pDefinition
  simp only [opTypeOf_name]

/-- operation after its keyword and optional name -/
theorem operationTail_roundtrip (ot : OpType) (name : Option Str) (vars : List VarDef) (dirs : List Directive)
    (sels : Sels) (f : Nat) (rest : List Tok) (h1 : wfVarDefs vars = true) (h2 : wfDirs dirs = true)
    (h3 : wfSels sels = true) (hne : sels ≠ .nil) (hs : szVarDefs vars + szDirs dirs + szSels sels ≤ f) :
    (match pVarDefs f (tVarDefs vars ++ tDirectives dirs ++ tSelSet sels ++ rest) with
      | some (vs, r1) =>
        match pDirectives f r1 with
        | some (ds, r2) =>
          match pSelectionSet f r2 with
          | some (ss, r3) => some (Definition.operation ot name vs ds ss, r3)
          | none => none
        | none => none
      | none => none) = some (.operation ot name vars dirs sels, rest) := by
  have a := varDefs_roundtrip vars f (tDirectives dirs ++ tSelSet sels ++ rest) h1 (by omega)
    (by
      unfold notLParen
      intro e
      rw [List.append_assoc] at e
      rcases head_tDirectives _ _ _ e with h | e
      · cases h
      · simp [tSelSet] at e)
  obtain ⟨b, c⟩ := dirsSelSet_roundtrip dirs sels f rest h2 h3 hne (by omega)
  simp only [List.append_assoc] at a b c ⊢
  simp [a, b, c]

theorem operation_roundtrip (ot : OpType) (name : Option Str) (vars : List VarDef) (dirs : List Directive)
    (sels : Sels) (f : Nat) (rest : List Tok) (h1 : wfVarDefs vars = true) (h2 : wfDirs dirs = true)
    (h3 : wfSels sels = true) (hne : sels ≠ .nil) (hs : szVarDefs vars + szDirs dirs + szSels sels ≤ f) :
    pOperationRest f ot ((match name with | some n => [.name n] | none => []) ++ tVarDefs vars ++ tDirectives dirs
      ++ tSelSet sels ++ rest) = some (.operation ot name vars dirs sels, rest) := by
  have key := operationTail_roundtrip ot name vars dirs sels f rest h1 h2 h3 hne hs
  cases name with
  | some n =>
    simp only [List.cons_append, List.nil_append, List.append_assoc] at key ⊢
    simp only [pOperationRest]
    exact key
  | none =>
    simp only [List.nil_append, List.append_assoc] at key ⊢
    -- the token after the keyword is `(`, `@` or `{`, not a name
    cases vars with
    | cons v r =>
      simp only [tVarDefs, List.isEmpty_cons, Bool.false_eq_true, if_false, List.cons_append] at key ⊢
      simp only [pOperationRest]
      exact key
    | nil =>
      cases dirs with
      | cons d r =>
        simp only [tVarDefs, List.isEmpty_nil, if_true, List.nil_append, tDirectives, List.cons_append] at key ⊢
        simp only [pOperationRest]
        exact key
      | nil =>
        simp only [tVarDefs, List.isEmpty_nil, if_true, List.nil_append, tDirectives, tSelSet, List.cons_append] at key ⊢
        simp only [pOperationRest]
        exact key

end Apollo.Ast
