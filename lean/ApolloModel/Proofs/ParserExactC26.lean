import ApolloModel.Proofs.ParserExactC25
import ApolloModel.Proofs.ParserComplete26
/-
EXACT-BUDGET COPY of ParserComplete26 (namespace Apollo.Parse.Exact, exact `vdepth`).
C05 growth (completeness of the whole Document grammar), part 26: the document dispatch on type-system definitions
and extensions (every `LooseDef` within the guards).
-/
set_option linter.unusedSimpArgs false
namespace Apollo.Parse.Exact
open Apollo.Rowan hiding Str
open Apollo.Lex hiding Str

/-- **a type-system definition or extension through the document dispatch** -/
theorem loose_dispatch_comp (n : Nat) (sP s2 : PState) (t : Tok) (tl1 : List Tok) (l : LooseDef) (q1 : Tok) (r1 : List Tok)
    (w : TW sP) (lq : LexQ (Toks sP)) (hcur : sP.current = some t) (hfit : looseFit (sP.recLimit - sP.recCur) l)
    (hfol : looseFollow l q1) (hs : Spells (t :: tl1) l.toks) (ht : Toks sP = (t :: tl1) ++ q1 :: r1) (hq : Sigf q1)
    (h : (documentDispatch n t.kind).run sP = .ok () s2) : Eat sP s2 (t :: tl1) ∧ Toks s2 = q1 :: r1 := by
  -- a definition: `Description? keyword rest`
  have viaDef : ∀ (desc : Option Ast.Str) (word : String) (x' : List Ast.Tok) (m : PI Unit) (L : Nat → List Ast.Tok → Prop) (F : Tok → Prop),
      l.toks = Ast.tDescription desc ++ .name word.toList :: x' → selectDefinition n word.toList = m →
      CmpT (fun _ => True) m L F (fun _ => True) → L (sP.recLimit - sP.recCur) l.toks → F q1 → Eat sP s2 (t :: tl1) ∧ Toks s2 = q1 :: r1 := by
    intro desc word x' m L F hx hsel hc hL hF
    have h1 := dispatch_kw n sP s2 t tl1 desc word.toList x' q1 r1 w hcur (by rw [← hx]; exact hs) ht hq h
    rw [hsel] at h1
    obtain ⟨e, t2, _⟩ := hc sP s2 () (t :: tl1) l.toks q1 r1 w lq h1 hL hs ht hq hF trivial
    exact ⟨e, t2⟩
  have viaExt : ∀ (word : String) (x' : List Ast.Tok) (m : PI Unit) (L : Nat → List Ast.Tok → Prop) (F : Tok → Prop),
      l.toks = kwE word ++ x' → extSel n (some word.toList) = m →
      CmpT (fun _ => True) m L F (fun _ => True) → L (sP.recLimit - sP.recCur) l.toks → F q1 → Eat sP s2 (t :: tl1) ∧ Toks s2 = q1 :: r1 := by
    intro word x' m L F hx hsel hc hL hF
    have hx' : l.toks = .name "extend".toList :: .name word.toList :: x' := by rw [hx]; rfl
    have h1 := dispatch_ext n sP s2 t tl1 word.toList x' q1 r1 w hcur (by rw [← hx']; exact hs) ht hq h
    rw [hsel] at h1
    obtain ⟨e, t2, _⟩ := hc sP s2 () (t :: tl1) l.toks q1 r1 w lq h1 hL hs ht hq hF trivial
    exact ⟨e, t2⟩
  cases l with
  | scalar desc nm ds =>
    exact viaDef desc "scalar" (.name nm :: Ast.tDirectives ds) _ _ _
      (by simp only [LooseDef.toks, scalarToks, unionToks, enumToks, inputToks, directiveToks, schemaToks, kwPart_true, List.append_assoc, List.cons_append, List.nil_append])
      (selectDefinition_scalar n) (cmpT_scalarTypeDefinition n) ⟨desc, nm, ds, rfl, hfit⟩ hfol
  | object desc nm impl ds fs =>
    exact viaDef desc "type" (objectLikeToks nm impl ds fs) _ _ _
      (by simp only [LooseDef.toks, scalarToks, unionToks, enumToks, inputToks, directiveToks, schemaToks, kwPart_true, List.append_assoc, List.cons_append, List.nil_append])
      (selectDefinition_type n) (cmpT_objectTypeDefinition n) ⟨desc, nm, impl, ds, fs, rfl, hfit⟩ hfol
  | interface desc nm impl ds fs =>
    exact viaDef desc "interface" (objectLikeToks nm impl ds fs) _ _ _
      (by simp only [LooseDef.toks, scalarToks, unionToks, enumToks, inputToks, directiveToks, schemaToks, kwPart_true, List.append_assoc, List.cons_append, List.nil_append])
      (selectDefinition_interface n) (cmpT_interfaceTypeDefinition n) ⟨desc, nm, impl, ds, fs, rfl, hfit⟩ hfol
  | union desc nm ds ms =>
    exact viaDef desc "union" (.name nm :: Ast.tDirectives ds ++ tSepOpt [.p .eq] .pipe ms) _ _ _
      (by simp only [LooseDef.toks, scalarToks, unionToks, enumToks, inputToks, directiveToks, schemaToks, kwPart_true, List.append_assoc, List.cons_append, List.nil_append])
      (selectDefinition_union n) (cmpT_unionTypeDefinition n) ⟨desc, nm, ds, ms, rfl, hfit⟩ hfol
  | enum desc nm ds vs =>
    exact viaDef desc "enum" (Ast.tEnumBody nm ds vs) _ _ _
      (by simp only [LooseDef.toks, scalarToks, unionToks, enumToks, inputToks, directiveToks, schemaToks, kwPart_true, List.append_assoc, List.cons_append, List.nil_append])
      (selectDefinition_enum n) (cmpT_enumTypeDefinition n) ⟨desc, nm, ds, vs, rfl, hfit.1, hfit.2⟩ hfol
  | input desc nm ds fs =>
    exact viaDef desc "input" (Ast.tInputBody nm ds fs) _ _ _
      (by simp only [LooseDef.toks, scalarToks, unionToks, enumToks, inputToks, directiveToks, schemaToks, kwPart_true, List.append_assoc, List.cons_append, List.nil_append])
      (selectDefinition_input n) (cmpT_inputObjectTypeDefinition n) ⟨desc, nm, ds, fs, rfl, hfit.1, hfit.2⟩ hfol
  | directive desc nm args rep lead first rest =>
    exact viaDef desc "directive" (.p .at :: .name nm :: Ast.tArgsDef args ++ kwPart "repeatable" rep ++ .name Ast.sOn :: tSepLead .pipe lead first rest) _ _ _
      (by simp only [LooseDef.toks, scalarToks, unionToks, enumToks, inputToks, directiveToks, schemaToks, kwPart_true, List.append_assoc, List.cons_append, List.nil_append])
      (selectDefinition_directive n) (cmp_directiveDefinition n).toT ⟨desc, nm, args, rep, lead, first, rest, rfl, hfit.1, hfit.2.1, hfit.2.2⟩ hfol
  | schema desc ds roots =>
    obtain ⟨hd, hne, hstrict⟩ := hfit
    obtain ⟨roots', rfl⟩ := strict_roots roots hstrict
    refine viaDef desc "schema" (Ast.tDirectives ds ++ .p .lCurly :: tRootOpItemsF (roots'.map fun r => (r.1, some r.2)) ++ [.p .rCurly]) _ _ _
      (by simp only [LooseDef.toks, scalarToks, unionToks, enumToks, inputToks, directiveToks, schemaToks, kwPart_true, List.append_assoc, List.cons_append, List.nil_append])
      (selectDefinition_schema n) (cmp_schemaDefinition n).toT ⟨desc, ds, roots', ?_, rfl, hd⟩ trivial
    intro h0; subst h0; exact hne rfl
  | scalarExt nm ds =>
    exact viaExt "scalar" (.name nm :: Ast.tDirectives ds) _ _ _ rfl (extSel_scalar n) (cmpT_scalarTypeExtension n)
      ⟨nm, ds, hfit.1, rfl, hfit.2⟩ hfol
  | objectExt nm impl ds fs =>
    exact viaExt "type" (objectLikeToks nm impl ds fs) _ _ _ rfl (extSel_type n) (cmpT_objectTypeExtension n)
      ⟨nm, impl, ds, fs, hfit.1, rfl, hfit.2⟩ hfol
  | interfaceExt nm impl ds fs =>
    exact viaExt "interface" (objectLikeToks nm impl ds fs) _ _ _ rfl (extSel_interface n) (cmpT_interfaceTypeExtension n)
      ⟨nm, impl, ds, fs, hfit.1, rfl, hfit.2⟩ hfol
  | unionExt nm ds ms =>
    exact viaExt "union" (.name nm :: Ast.tDirectives ds ++ tSepOpt [.p .eq] .pipe ms) _ _ _ rfl (extSel_union n) (cmpT_unionTypeExtension n)
      ⟨nm, ds, ms, hfit.1, rfl, hfit.2⟩ hfol
  | enumExt nm ds vs =>
    exact viaExt "enum" (Ast.tEnumBody nm ds vs) _ _ _ rfl (extSel_enum n) (cmpT_enumTypeExtension n)
      ⟨nm, ds, vs, hfit.1, rfl, hfit.2.1, hfit.2.2⟩ hfol
  | inputExt nm ds fs =>
    exact viaExt "input" (Ast.tInputBody nm ds fs) _ _ _ rfl (extSel_input n) (cmpT_inputObjectTypeExtension n)
      ⟨nm, ds, fs, hfit.1, rfl, hfit.2.1, hfit.2.2⟩ hfol
  | schemaExt ds roots =>
    obtain ⟨hne, hd, hstrict⟩ := hfit
    obtain ⟨roots', rfl⟩ := strict_roots roots hstrict
    refine viaExt "schema" (Ast.tDirectives ds ++ Ast.tBraced (tRootOpItemsF (roots'.map fun r => (r.1, some r.2))) (roots'.map fun r => (r.1, some r.2)).isEmpty) _ _ _
      (by simp only [LooseDef.toks, List.append_assoc]) (extSel_schema n) (cmpT_schemaExtension n) ⟨ds, roots', ?_, ?_, hd⟩ hfol
    · rcases hne with h0 | h0
      · exact Or.inl h0
      · right; intro h1; subst h1; exact h0 rfl
    · simp only [LooseDef.toks]
      cases roots' <;> simp [List.append_assoc]

end Apollo.Parse.Exact
