import ApolloModel.Proofs.ParserExactT14
/-
Exact soundness for the type-system family, part 15: `schema` definition and extension against `looseFitXX` — the exact
guard (only the last root operation type may lack its named type), matching `cmpT_schemaDefinitionX` /
`cmpT_schemaExtensionX` (ParserExactC31).
-/
set_option linter.unusedSimpArgs false
namespace Apollo.Parse.Exact
open Apollo.Rowan hiding Str
open Apollo.Lex hiding Str

/-- `{ RootOperationTypeDefinition+ }` then `K`: only the last root can be nameless -/
theorem rootsBlock_soundXX (K : PI Unit) (LK : List Ast.Tok → Prop) (hK : Acc E0 (fun _ => True) K (fun _ => LK))
    (s s' : PState) (t : Tok) (rest : List Tok) (w : TW s) (he : EofEnd s) (ht : Toks s = t :: rest) (hk : t.kind = .lCurly)
    (h : (rootsBlock K).run s = .ok () s') (hnd : ¬ Doomed s') :
    Cons s s' (fun x => ∃ (roots : List (Ast.OpType × Option Ast.Str)) (xk : List Ast.Tok), roots ≠ [] ∧ rootsLastOnly roots ∧
      x = .p .lCurly :: (tRootOpItemsF roots ++ xk) ∧ LK xk) := by
  have hni : isIgnoredKind t.kind = false := by rw [hk]; rfl
  unfold rootsBlock at h
  obtain ⟨_, s1, h1, h2⟩ := bind_dec (bump "L_CURLY") _ s s' () h
  obtain ⟨ign, eb, hall, _⟩ := bump_spec "L_CURLY" s s1 w t rest ht h1
  have c0 : Cons s s1 (fun x => x = [.p .lCurly]) :=
    Cons.ofEat eb he (noEof_cons (by rw [hk]; decide) hall) (tokIs_punct t ign .lCurly hni (by simp [astOfV, hk]) hall)
  obtain ⟨len, h3⟩ := srcLen_dec _ s1 s' () h2
  obtain ⟨has, sL, h4, h5⟩ := bind_dec _ _ s1 s' () h3
  have aL := good_flagLoop .name rootOperationTypeDefinition good_rootOp (len + 3) false s1 has sL eb.w h4
  have gT : Good (if !has then (err >>= fun _ => K) else K) := good_ite _ _ _ (good_bind _ _ good_err (fun _ => hK.1)) hK.1
  have hndL : ¬ Doomed sL := fun d => hnd ((gT sL () s' aL.w h5).doom d)
  have c1 := rootsLoop_sound (len + 3) false s1 has sL eb.w c0.eofEnd h4 hndL
  cases has with
  | false =>
    exfalso
    simp only [Bool.not_false, if_true] at h5
    obtain ⟨_, sE, h6, h7⟩ := bind_dec err _ sL s' () h5
    obtain ⟨aE, dE⟩ := err_adv sL sE aL.w h6
    exact hnd ((hK.1 sE () s' aE.w h7).doom (dE (eofEnd_nonempty sL c1.eofEnd hndL)))
  | true =>
    simp only [Bool.not_true, Bool.false_eq_true, if_false] at h5
    have c2 := cons_of_acc hK sL s' () aL.w c1.eofEnd trivial h5 hnd
    refine ((c0.seq c1).seq c2).weaken ?_
    rintro z ⟨xy, y, rfl, ⟨x0, x1, rfl, rfl, roots, rfl, hlast, hhas, _⟩, hy⟩
    refine ⟨roots, y, ?_, hlast, by simp, hy⟩
    rintro rfl
    simp at hhas

def RootsRX (x : List Ast.Tok) : Prop :=
  ∃ roots : List (Ast.OpType × Option Ast.Str), roots ≠ [] ∧ rootsLastOnly roots ∧ x = .p .lCurly :: tRootOpItemsF roots ++ [.p .rCurly]

theorem sBraces_soundXX (s s' : PState) (w : TW s) (he : EofEnd s) (h : sBraces.run s = .ok () s') (hnd : ¬ Doomed s') :
    Cons s s' RootsRX := by
  unfold sBraces at h
  obtain ⟨sP, o, p, hor⟩ := ifPeek_dec .lCurly _ _ s s' () w h
  have heP := p.eofEnd he
  rcases hor with ⟨hkc, h5⟩ | ⟨_, h5⟩
  · obtain ⟨tc, rfl, hkc2⟩ : ∃ tc, o = some tc ∧ tc.kind = .lCurly := by
      cases o with
      | none => simp at hkc
      | some tc => exact ⟨tc, rfl, by simpa using hkc⟩
    have c := rootsBlock_soundXX _ (fun x => x = [.p .rCurly])
      (acc_expect .rCurly "R_CURLY" (.p .rCurly) (by intro t ht; simp [astOfV, ht]) rfl (by decide)) sP s' tc _ p.w heP p.head_cons hkc2 h5 hnd
    refine (c.transport p.toks.symm rfl c.eofEnd).weaken ?_
    rintro z ⟨roots, xk, hne, hl, rfl, rfl⟩
    exact ⟨roots, hne, hl, by simp⟩
  · exfalso
    exact hnd ((err_adv sP s' p.w h5).2 (eofEnd_nonempty sP heP (fun d => hnd ((good_err sP () s' p.w h5).doom d))))

theorem schemaTail_soundXX (n : Nat) (s s' : PState) (w : TW s) (he : EofEnd s)
    (h : (optKind .at (directives n true) sBraces).run s = .ok () s') (hnd : ¬ Doomed s') :
    Cons s s' (fun x => ∃ ds roots, roots ≠ [] ∧ rootsLastOnly roots ∧
      x = Ast.tDirectives ds ++ .p .lCurly :: tRootOpItemsF roots ++ [.p .rCurly] ∧ dirsFit true (bud s) ds) := by
  unfold optKind at h
  obtain ⟨s1, h1, h2⟩ := optThen_dec .at (directives n true) sBraces s s' h
  have a1 := good_optDirsEnd n s () s1 w h1
  have hnd1 : ¬ Doomed s1 := fun d => hnd ((good_sBraces s1 () s' a1.w h2).doom d)
  have c1 := optDirsEnd_sound n s s1 w he h1 hnd1
  have c2 := sBraces_soundXX s1 s' a1.w c1.eofEnd h2 hnd
  refine (c1.seq c2).weaken ?_
  rintro z ⟨x, y, rfl, ⟨ds, rfl, hds⟩, roots, hne, hl, rfl⟩
  exact ⟨ds, roots, hne, hl, by simp, hds⟩

/-- **schema definition, exact**: in the shape `defSound_of_loose` (ParserExactS14) expects, with `looseFitXX` — the
    guard that `cmpT_schemaDefinitionX` shows sufficient — in place of `looseFit` -/
theorem schemaDef_soundXX (n : Nat) (s s' : PState) (w : TW s) (he : EofEnd s) (hq : LexQ (Toks s)) (hs : DStart "schema".toList (Toks s))
    (hr : (schemaDefinition n).run s = .ok () s') (hnd : ¬ Doomed s') :
    ∃ (cs : List Tok) (l : LooseDef), Toks s = cs ++ Toks s' ∧ NoEof cs ∧ EofEnd s' ∧ TokIs (sig cs) l.toks ∧ looseFitXX (bud s) l ∧
      Settled s' ∧ (openBody l → ∀ t, s'.current = some t → t.kind ≠ .lCurly) := by
  obtain ⟨_, _, _, _, _, _, _, hset, _⟩ := schemaDef_soundX n s s' w he hq hs hr hnd
  rw [schemaDefinition_eq] at hr
  have gT : Good (optKind .at (directives n true) sBraces) :=
    good_bind _ _ good_peek (fun _ => good_ite _ _ _ (good_bind _ _ (good_directives n true) (fun _ => good_sBraces)) good_sBraces)
  obtain ⟨t, rest, htq, hni⟩ := dStart_sig "schema" _ hs
  obtain ⟨s1, s2, e1, h1, o2⟩ := withNode_peeked _ _ s s' () t rest w htq hni hr
  have hnd2 : ¬ Doomed s2 := fun d => hnd (o2.doomed.mpr d)
  have he1 : EofEnd s1 := eofEnd_eat he e1 (by intro x hx; cases hx)
  have h0 : Toks s = Toks s1 := by simpa using e1.toks
  obtain ⟨sm, hp, ht⟩ := kwShape_split "schema" "schema_KW" _ s1 s2 h1
  have hacc := accL_defEnteredBody "schema" kwWord_schema "schema_KW" (pure () : PI Unit) (fun x => x = []) acc_pureL
  have am := hacc.1 s1 () sm e1.w hp
  have hndm : ¬ Doomed sm := fun d => hnd2 ((gT sm () s2 am.w ht).doom d)
  have c1 := cons_of_acc hacc s1 sm () e1.w he1 ⟨by rw [← h0]; exact hq, by rw [← h0]; exact defStart_of_DStart "schema" _ hs⟩ hp hndm
  have c2 := schemaTail_soundXX n sm s2 am.w c1.eofEnd ht hnd2
  have c := (c1.seq c2).transport h0 o2.toks (eofEnd_same _ _ c2.eofEnd o2.current o2.lx o2.errors)
  obtain ⟨cs, x, a, b, e, d, x1, x2, rfl, ⟨desc, x3, rfl, rfl⟩, ds, roots, hne, hl, rfl, hds⟩ := c
  rw [bud_adv am, bud_eat e1] at hds
  refine ⟨cs, .schema desc ds roots, a, b, e, ?_, ⟨hds, hne, hl⟩, hset, fun ho => ho.elim⟩
  simpa [LooseDef.toks, schemaToks, kwPart, List.append_assoc] using d

/-! ### schema extension -/

def RootsXX (m : Bool) (cur : Option Tok) (x : List Ast.Tok) : Prop :=
  RootsRX x ∨ (x = [] ∧ m = true ∧ ∀ t, cur = some t → t.kind ≠ .lCurly)

theorem schemaExtBraces_soundXX (m : Bool) (s s' : PState) (w : TW s) (he : EofEnd s)
    (h : (schemaExtBraces m).run s = .ok () s') (hnd : ¬ Doomed s') : Cons s s' (RootsXX m s'.current) := by
  unfold schemaExtBraces at h
  obtain ⟨sP, o, p, hor⟩ := ifPeek_dec .lCurly _ _ s s' () w h
  have heP := p.eofEnd he
  rcases hor with ⟨hkc, h5⟩ | ⟨hkc, h5⟩
  · obtain ⟨tc, rfl, hkc2⟩ : ∃ tc, o = some tc ∧ tc.kind = .lCurly := by
      cases o with
      | none => simp at hkc
      | some tc => exact ⟨tc, rfl, by simpa using hkc⟩
    have hK : Acc E0 (fun _ => True) (expect .rCurly "R_CURLY" >>= fun _ => extEnd true) (fun _ x => x = [.p .rCurly]) := by
      refine (acc_bind early_false (acc_expect .rCurly "R_CURLY" (.p .rCurly) (by intro t ht; simp [astOfV, ht]) rfl (by decide))
        (fun _ => acc_extEnd true)).mono (fun _ h => h) ?_
      rintro _ x ⟨_, x1, x2, e, h1, h2⟩
      rw [e, h1, h2]; rfl
    have c := rootsBlock_soundXX _ (fun x => x = [.p .rCurly]) hK sP s' tc _ p.w heP p.head_cons hkc2 h5 hnd
    refine (c.transport p.toks.symm rfl c.eofEnd).weaken ?_
    rintro z ⟨roots, xk, hne, hl, rfl, rfl⟩
    exact Or.inl ⟨roots, hne, hl, by simp⟩
  · obtain ⟨hm, hss⟩ := extEnd_ok m sP s' p.w heP h5 hnd
    rw [hss]
    refine (Cons.nil p.toks heP).weaken ?_
    rintro z rfl
    refine Or.inr ⟨rfl, hm, ?_⟩
    intro t ht hk
    rw [p.current] at ht
    subst ht
    exact hkc (by simp [hk])

/-- **schema extension, exact** (`looseFitXX`, see `schemaDef_soundXX`) -/
theorem schemaExt_soundXX (n : Nat) (s s' : PState) (w : TW s) (he : EofEnd s) (hq : LexQ (Toks s)) (hs : EStart "schema".toList (Toks s))
    (hr : (schemaExtension n).run s = .ok () s') (hnd : ¬ Doomed s') :
    ∃ (cs : List Tok) (l : LooseDef), Toks s = cs ++ Toks s' ∧ NoEof cs ∧ EofEnd s' ∧ TokIs (sig cs) l.toks ∧ looseFitXX (bud s) l ∧
      Settled s' ∧ (openBody l → ∀ t, s'.current = some t → t.kind ≠ .lCurly) := by
  obtain ⟨_, _, _, _, _, _, _, hset, _⟩ := schemaExt_soundX n s s' w he hq hs hr hnd
  rw [schemaExtension_eq] at hr
  have gt : Good (extDirs n schemaExtBraces false) := good_extDirs n _ good_schemaExtBraces false
  have c := ext2_sound "SCHEMA_EXTENSION" "schema" kwWord_schema "extend_KW" "schema_KW" (extDirs n schemaExtBraces false)
    (fun b cur x => ∃ ds x2, x = Ast.tDirectives ds ++ x2 ∧ dirsFit true b ds ∧
      ((ds ≠ [] ∧ RootsXX true cur x2) ∨ (ds = [] ∧ RootsXX false cur x2))) gt
    (fun q q' wq heq hrq hndq => extDirs_soundG n _ good_schemaExtBraces RootsXX
      (fun m q1 q2 w1 he1 h1 hnd1 => schemaExtBraces_soundXX m q1 q2 w1 he1 h1 hnd1) false q q' wq heq hrq hndq)
    s s' w he hq hs hr hnd
  obtain ⟨cs, x, a, b, e, d, x1, rfl, ds, x2, rfl, hds, hor⟩ := c
  have key : (∃ roots, roots ≠ [] ∧ rootsLastOnly roots ∧ x2 = .p .lCurly :: tRootOpItemsF roots ++ [.p .rCurly]) ∨
      (x2 = [] ∧ ds ≠ [] ∧ ∀ t, s'.current = some t → t.kind ≠ .lCurly) := by
    rcases hor with ⟨hne, hx⟩ | ⟨_, hx⟩
    · rcases hx with hx | ⟨h1, _, h3⟩
      · exact Or.inl hx
      · exact Or.inr ⟨h1, hne, h3⟩
    · rcases hx with hx | ⟨_, h2, _⟩
      · exact Or.inl hx
      · cases h2
  rcases key with ⟨roots, hne, hl, rfl⟩ | ⟨rfl, hdne, hcur⟩
  · have hemp : roots.isEmpty = false := by cases roots with | nil => exact absurd rfl hne | cons _ _ => rfl
    refine ⟨cs, .schemaExt ds roots, a, b, e, ?_, ⟨Or.inr hne, hds, hl⟩, hset, ?_⟩
    · simpa [LooseDef.toks, kwE, Ast.tBraced, hemp, List.append_assoc] using d
    · intro ho; exact absurd ho hne
  · refine ⟨cs, .schemaExt ds [], a, b, e, ?_, ⟨Or.inl hdne, hds, by intro r hr; simp at hr⟩, hset, fun _ => hcur⟩
    simpa [LooseDef.toks, kwE, Ast.tBraced, tRootOpItemsF, List.append_assoc] using d

end Apollo.Parse.Exact
