import ApolloModel.Model.ExpandSelections
import ApolloModel.Proofs.ExecValidationMerge2
/-
C17: `expand_selections` (Model/ExpandSelections.lean) lists exactly the fields the specification means
by "the selections of a set, including visiting fragments and inline fragments" — soundness, completeness
and termination of the breadth-first loop with `seen_fragments` — and the field-merging verdict of the
expanded list does not depend on which expansion order produced it.
-/
set_option linter.unusedSimpArgs false
set_option linter.unusedVariables false
namespace Apollo.Expand

/-! ### what the specification means by "the selections of a set, including visiting fragments and
inline fragments" -/

/-- `x = (type, field)` is a field written in `sels` (whose type is `ty`), possibly inside inline fragments -/
inductive InSels : String → List ESel → String × Nat → Prop
  | field {ty : String} {sels : List ESel} {id : Nat} : ESel.field id ∈ sels → InSels ty sels (ty, id)
  | inline {ty t : String} {sels ss : List ESel} {x : String × Nat} : ESel.inline t ss ∈ sels → InSels t ss x → InSels ty sels x

/-- fragment `n` is spread in `sels`, possibly inside inline fragments -/
inductive SpreadsIn : List ESel → String → Prop
  | here {sels : List ESel} {n : String} : ESel.spread n ∈ sels → SpreadsIn sels n
  | inline {t : String} {sels ss : List ESel} {n : String} : ESel.inline t ss ∈ sels → SpreadsIn ss n → SpreadsIn sels n

/-- fragment `n` is reachable from the root sets through spreads -/
inductive ReachFrag (frags : Frags) (sets : List ESet) : String → Prop
  | root {S : ESet} {n : String} : S ∈ sets → SpreadsIn S.2 n → ReachFrag frags sets n
  | step {m n : String} {F : ESet} : ReachFrag frags sets m → frags.get? m = some F → SpreadsIn F.2 n → ReachFrag frags sets n

/-- the fields of the expansion: those of the root sets and those of every reachable fragment -/
def Expanded (frags : Frags) (sets : List ESet) (x : String × Nat) : Prop :=
  (∃ S ∈ sets, InSels S.1 S.2 x) ∨ (∃ m F, ReachFrag frags sets m ∧ frags.get? m = some F ∧ InSels F.1 F.2 x)

/-! ### soundness -/

/-- a set whose fields are all in the expansion and whose spreads are all reachable -/
def GoodSet (frags : Frags) (sets : List ESet) (S : ESet) : Prop :=
  (∀ x, InSels S.1 S.2 x → Expanded frags sets x) ∧ (∀ n, SpreadsIn S.2 n → ReachFrag frags sets n)

structure Sound (frags : Frags) (sets : List ESet) (st : St) : Prop where
  out : ∀ x ∈ st.out, Expanded frags sets x
  queue : ∀ Q ∈ st.queue, GoodSet frags sets Q
  seen : ∀ n ∈ st.seen, ReachFrag frags sets n

theorem goodSet_tail (frags : Frags) (sets : List ESet) (ty : String) (s : ESel) (rest : List ESel)
    (h : GoodSet frags sets (ty, s :: rest)) : GoodSet frags sets (ty, rest) := by
  refine ⟨fun x hx => h.1 x ?_, fun n hn => h.2 n ?_⟩
  · cases hx with
    | field hm => exact .field (List.mem_cons_of_mem _ hm)
    | inline hm hi => exact .inline (List.mem_cons_of_mem _ hm) hi
  · cases hn with
    | here hm => exact .here (List.mem_cons_of_mem _ hm)
    | inline hm hi => exact .inline (List.mem_cons_of_mem _ hm) hi

theorem visit_sound (frags : Frags) (sets : List ESet) (ty : String) :
    ∀ (sels : List ESel) (st : St), GoodSet frags sets (ty, sels) → Sound frags sets st → Sound frags sets (visit frags ty sels st) := by
  intro sels
  induction sels with
  | nil => intro st _ h; simpa [visit] using h
  | cons s rest ih =>
    intro st hg hs
    have hrest := goodSet_tail frags sets ty s rest hg
    cases s with
    | field id =>
      simp only [visit]
      apply ih _ hrest
      refine ⟨?_, hs.queue, hs.seen⟩
      intro x hx
      rcases List.mem_append.mp hx with h | h
      · exact hs.out x h
      · simp at h; subst h; exact hg.1 _ (.field (by simp))
    | inline t ss =>
      simp only [visit]
      apply ih _ hrest
      refine ⟨hs.out, ?_, hs.seen⟩
      intro Q hQ
      rcases List.mem_append.mp hQ with h | h
      · exact hs.queue Q h
      · simp at h; subst h
        exact ⟨fun x hx => hg.1 x (.inline (t := t) (ss := ss) (by simp) hx), fun n hn => hg.2 n (.inline (t := t) (ss := ss) (by simp) hn)⟩
    | spread n =>
      simp only [visit]
      have hr : ReachFrag frags sets n := hg.2 n (.here (by simp))
      split
      · exact ih _ hrest hs
      · cases hF : frags.get? n with
        | some F =>
          simp only []
          apply ih _ hrest
          refine ⟨hs.out, ?_, ?_⟩
          · intro Q hQ
            rcases List.mem_append.mp hQ with h | h
            · exact hs.queue Q h
            · simp at h; rw [h]
              exact ⟨fun x hx => Or.inr ⟨n, F, hr, hF, hx⟩, fun k hk => .step hr hF hk⟩
          · intro k hk
            rcases List.mem_cons.mp hk with rfl | hk
            · exact hr
            · exact hs.seen k hk
        | none =>
          simp only []
          apply ih _ hrest
          refine ⟨hs.out, hs.queue, ?_⟩
          intro k hk
          rcases List.mem_cons.mp hk with rfl | hk
          · exact hr
          · exact hs.seen k hk

theorem loop_sound (frags : Frags) (sets : List ESet) : ∀ (fuel : Nat) (st : St), Sound frags sets st → Sound frags sets (loop frags fuel st) := by
  intro fuel
  induction fuel with
  | zero => intro st h; simpa [loop] using h
  | succ fuel ih =>
    intro st h
    simp only [loop]
    cases hq : st.queue with
    | nil => simpa using h
    | cons Q q =>
      obtain ⟨ty, sels⟩ := Q
      simp only []
      apply ih
      apply visit_sound frags sets ty sels _ (h.queue _ (by rw [hq]; simp))
      exact ⟨h.out, fun Q' hQ' => h.queue Q' (by rw [hq]; simp [hQ']), h.seen⟩

/-- SOUNDNESS: every field `expand_selections` lists is a field of one of the given sets or of a fragment
    reachable from them -/
theorem expand_sound (frags : Frags) (sets : List ESet) : ∀ x ∈ expand frags sets, Expanded frags sets x := by
  apply (loop_sound frags sets _ _ ?_).out
  refine ⟨by simp, ?_, by simp⟩
  intro Q hQ
  exact ⟨fun x hx => Or.inl ⟨Q, hQ, hx⟩, fun n hn => .root hQ hn⟩

/-! ### completeness -/

/-- `x` is already listed or still to come from a queued set -/
def Avail (st : St) (x : String × Nat) : Prop := x ∈ st.out ∨ ∃ Q ∈ st.queue, InSels Q.1 Q.2 x
/-- fragment `n` was already met or is still to be met in a queued set -/
def AvailF (st : St) (n : String) : Prop := n ∈ st.seen ∨ ∃ Q ∈ st.queue, SpreadsIn Q.2 n

def Covered (st : St) (S : ESet) : Prop :=
  (∀ x, InSels S.1 S.2 x → Avail st x) ∧ (∀ n, SpreadsIn S.2 n → AvailF st n)

/-- nothing gets lost from `a` to `b`, and the body of every newly seen fragment is covered -/
structure Le (frags : Frags) (a b : St) : Prop where
  avail : ∀ x, Avail a x → Avail b x
  availF : ∀ n, AvailF a n → AvailF b n
  seen : ∀ n ∈ b.seen, n ∈ a.seen ∨ ∀ F, frags.get? n = some F → Covered b F

theorem Covered.mono {frags : Frags} {a b : St} (h : Le frags a b) {S : ESet} (hc : Covered a S) : Covered b S :=
  ⟨fun x hx => h.avail x (hc.1 x hx), fun n hn => h.availF n (hc.2 n hn)⟩

theorem Le.refl (frags : Frags) (a : St) : Le frags a a := ⟨fun _ h => h, fun _ h => h, fun _ h => Or.inl h⟩

theorem Le.trans {frags : Frags} {a b c : St} (h1 : Le frags a b) (h2 : Le frags b c) : Le frags a c := by
  refine ⟨fun x h => h2.avail x (h1.avail x h), fun n h => h2.availF n (h1.availF n h), ?_⟩
  intro n hn
  rcases h2.seen n hn with h | h
  · rcases h1.seen n h with h' | h'
    · exact Or.inl h'
    · exact Or.inr (fun F hF => (h' F hF).mono h2)
  · exact Or.inr h

def push (Q : ESet) (st : St) : St := { st with queue := Q :: st.queue }

theorem le_push_nil (frags : Frags) (ty : String) (st : St) : Le frags (push (ty, []) st) st := by
  refine ⟨?_, ?_, fun n hn => Or.inl hn⟩
  · rintro x (h | ⟨Q, hQ, hx⟩)
    · exact Or.inl h
    · rcases List.mem_cons.mp hQ with rfl | hQ
      · cases hx with
        | field hm => simp at hm
        | inline hm _ => simp at hm
      · exact Or.inr ⟨Q, hQ, hx⟩
  · rintro n (h | ⟨Q, hQ, hx⟩)
    · exact Or.inl h
    · rcases List.mem_cons.mp hQ with rfl | hQ
      · cases hx with
        | here hm => simp at hm
        | inline hm _ => simp at hm
      · exact Or.inr ⟨Q, hQ, hx⟩

theorem visit_le (frags : Frags) (ty : String) : ∀ (sels : List ESel) (st : St), Le frags (push (ty, sels) st) (visit frags ty sels st) := by
  intro sels
  induction sels with
  | nil => intro st; simpa [visit] using le_push_nil frags ty st
  | cons s rest ih =>
    intro st
    -- one selection
    cases s with
    | field id =>
      simp only [visit]
      refine Le.trans ?_ (ih _)
      refine ⟨?_, ?_, fun n hn => Or.inl hn⟩
      · rintro x (h | ⟨Q, hQ, hx⟩)
        · exact Or.inl (List.mem_append_left _ h)
        · rcases List.mem_cons.mp hQ with rfl | hQ
          · cases hx with
            | field hm =>
              rcases List.mem_cons.mp hm with h | h
              · cases h; exact Or.inl (by simp [push])
              · exact Or.inr ⟨(ty, rest), by simp [push], .field h⟩
            | inline hm hi =>
              rcases List.mem_cons.mp hm with h | h
              · cases h
              · exact Or.inr ⟨(ty, rest), by simp [push], .inline h hi⟩
          · exact Or.inr ⟨Q, by simp [push, hQ], hx⟩
      · rintro n (h | ⟨Q, hQ, hx⟩)
        · exact Or.inl h
        · rcases List.mem_cons.mp hQ with rfl | hQ
          · cases hx with
            | here hm =>
              rcases List.mem_cons.mp hm with h | h
              · cases h
              · exact Or.inr ⟨(ty, rest), by simp [push], .here h⟩
            | inline hm hi =>
              rcases List.mem_cons.mp hm with h | h
              · cases h
              · exact Or.inr ⟨(ty, rest), by simp [push], .inline h hi⟩
          · exact Or.inr ⟨Q, by simp [push, hQ], hx⟩
    | inline t ss =>
      simp only [visit]
      refine Le.trans ?_ (ih _)
      refine ⟨?_, ?_, fun n hn => Or.inl hn⟩
      · rintro x (h | ⟨Q, hQ, hx⟩)
        · exact Or.inl h
        · rcases List.mem_cons.mp hQ with rfl | hQ
          · cases hx with
            | field hm =>
              rcases List.mem_cons.mp hm with h | h
              · cases h
              · exact Or.inr ⟨(ty, rest), by simp [push], .field h⟩
            | inline hm hi =>
              rcases List.mem_cons.mp hm with h | h
              · cases h; exact Or.inr ⟨(t, ss), by simp [push], hi⟩
              · exact Or.inr ⟨(ty, rest), by simp [push], .inline h hi⟩
          · exact Or.inr ⟨Q, by simp [push, hQ], hx⟩
      · rintro n (h | ⟨Q, hQ, hx⟩)
        · exact Or.inl h
        · rcases List.mem_cons.mp hQ with rfl | hQ
          · cases hx with
            | here hm =>
              rcases List.mem_cons.mp hm with h | h
              · cases h
              · exact Or.inr ⟨(ty, rest), by simp [push], .here h⟩
            | inline hm hi =>
              rcases List.mem_cons.mp hm with h | h
              · cases h; exact Or.inr ⟨(t, ss), by simp [push], hi⟩
              · exact Or.inr ⟨(ty, rest), by simp [push], .inline h hi⟩
          · exact Or.inr ⟨Q, by simp [push, hQ], hx⟩
    | spread m =>
      simp only [visit]
      -- availability of fields does not change; the spread `m` becomes seen
      have favail : ∀ (st' : St), st'.out = st.out → (∀ Q ∈ st.queue, Q ∈ st'.queue) →
          ∀ x, Avail (push (ty, .spread m :: rest) st) x → Avail (push (ty, rest) st') x := by
        intro st' ho hq x hx
        rcases hx with h | ⟨Q, hQ, hx⟩
        · exact Or.inl (by simpa [push, ho] using h)
        · rcases List.mem_cons.mp hQ with rfl | hQ
          · cases hx with
            | field hm =>
              rcases List.mem_cons.mp hm with h | h
              · cases h
              · exact Or.inr ⟨(ty, rest), by simp [push], .field h⟩
            | inline hm hi =>
              rcases List.mem_cons.mp hm with h | h
              · cases h
              · exact Or.inr ⟨(ty, rest), by simp [push], .inline h hi⟩
          · exact Or.inr ⟨Q, by simp [push, hq Q hQ], hx⟩
      have favailF : ∀ (st' : St), m ∈ st'.seen → (∀ n ∈ st.seen, n ∈ st'.seen) → (∀ Q ∈ st.queue, Q ∈ st'.queue) →
          ∀ n, AvailF (push (ty, .spread m :: rest) st) n → AvailF (push (ty, rest) st') n := by
        intro st' hm hs hq n hn
        rcases hn with h | ⟨Q, hQ, hx⟩
        · exact Or.inl (hs n (by simpa [push] using h))
        · rcases List.mem_cons.mp hQ with rfl | hQ
          · cases hx with
            | here hmem =>
              rcases List.mem_cons.mp hmem with h | h
              · cases h; exact Or.inl (by simpa [push] using hm)
              · exact Or.inr ⟨(ty, rest), by simp [push], .here h⟩
            | inline hmem hi =>
              rcases List.mem_cons.mp hmem with h | h
              · cases h
              · exact Or.inr ⟨(ty, rest), by simp [push], .inline h hi⟩
          · exact Or.inr ⟨Q, by simp [push, hq Q hQ], hx⟩
      by_cases hseen : st.seen.contains m = true
      · simp only [hseen, if_true]
        refine Le.trans ?_ (ih _)
        have hm : m ∈ st.seen := by simpa using hseen
        exact ⟨favail st rfl (fun _ h => h), favailF st hm (fun _ h => h) (fun _ h => h), fun n hn => Or.inl (by simpa [push] using hn)⟩
      · simp only [hseen, Bool.false_eq_true, if_false]
        cases hF : frags.get? m with
        | none =>
          simp only []
          refine Le.trans ?_ (ih _)
          refine ⟨favail _ rfl (fun _ h => h), favailF _ (by simp) (fun n h => by simp [h]) (fun _ h => h), ?_⟩
          intro n hn
          simp only [push, List.mem_cons] at hn
          rcases hn with rfl | hn
          · exact Or.inr (fun F hF' => by rw [hF] at hF'; cases hF')
          · exact Or.inl (by simpa [push] using hn)
        | some F =>
          simp only []
          refine Le.trans ?_ (ih _)
          refine ⟨favail _ rfl (fun Q h => by simp [h]), favailF _ (by simp) (fun n h => by simp [h]) (fun Q h => by simp [h]), ?_⟩
          intro n hn
          simp only [push, List.mem_cons] at hn
          rcases hn with rfl | hn
          · right
            intro F' hF'
            rw [hF] at hF'; cases hF'
            exact ⟨fun x hx => Or.inr ⟨F, by simp [push], hx⟩, fun k hk => Or.inr ⟨F, by simp [push], hk⟩⟩
          · exact Or.inl (by simpa [push] using hn)

theorem loop_le (frags : Frags) : ∀ (fuel : Nat) (st : St), Le frags st (loop frags fuel st) := by
  intro fuel
  induction fuel with
  | zero => intro st; exact Le.refl frags st
  | succ fuel ih =>
    intro st
    simp only [loop]
    cases hq : st.queue with
    | nil => exact Le.refl frags st
    | cons Q q =>
      obtain ⟨ty, sels⟩ := Q
      simp only []
      refine Le.trans ?_ (ih _)
      have : st = push (ty, sels) { st with queue := q } := by cases st; simp_all [push]
      rw [this]
      exact visit_le frags ty sels _

/-- COMPLETENESS: once the queue is empty, every field of the given sets and of every fragment reachable
    from them has been listed -/
theorem expand_complete_of_done (frags : Frags) (sets : List ESet) (fuel : Nat)
    (hdone : (loop frags fuel { queue := sets, seen := [], out := [] }).queue = []) :
    ∀ x, Expanded frags sets x → x ∈ (loop frags fuel { queue := sets, seen := [], out := [] }).out := by
  have hle := loop_le frags fuel { queue := sets, seen := [], out := [] }
  generalize hfin : loop frags fuel { queue := sets, seen := [], out := [] } = fin at hle hdone
  have havail : ∀ x, Avail fin x → x ∈ fin.out := by
    rintro x (h | ⟨Q, hQ, _⟩)
    · exact h
    · rw [hdone] at hQ; simp at hQ
  have havailF : ∀ n, AvailF fin n → n ∈ fin.seen := by
    rintro n (h | ⟨Q, hQ, _⟩)
    · exact h
    · rw [hdone] at hQ; simp at hQ
  have hroot : ∀ S ∈ sets, Covered fin S := by
    intro S hS
    have : Covered { queue := sets, seen := [], out := [] } S :=
      ⟨fun x hx => Or.inr ⟨S, hS, hx⟩, fun n hn => Or.inr ⟨S, hS, hn⟩⟩
    exact this.mono hle
  have hseen : ∀ n ∈ fin.seen, ∀ F, frags.get? n = some F → Covered fin F := by
    intro n hn F hF
    rcases hle.seen n hn with h | h
    · simp at h
    · exact h F hF
  have hreach : ∀ n, ReachFrag frags sets n → n ∈ fin.seen := by
    intro n hr
    induction hr with
    | root hS hsp => exact havailF _ ((hroot _ hS).2 _ hsp)
    | step _ hF hsp ih => exact havailF _ ((hseen _ ih _ hF).2 _ hsp)
  intro x hx
  rcases hx with ⟨S, hS, hx⟩ | ⟨m, F, hr, hF, hx⟩
  · exact havail x ((hroot S hS).1 x hx)
  · exact havail x ((hseen m (hreach m hr) F hF).1 x hx)

/-! ### the loop ends: `fuelFor` iterations are enough -/

def queueSize (q : List ESet) : Nat := (q.map fun S => ESel.sizeList S.2 + 1).sum
def unseenSize (frags : Frags) (seen : List String) : Nat :=
  ((frags.filter fun f => !seen.contains f.1).map fun f => ESel.sizeList f.2.2 + 1).sum
def measure (frags : Frags) (st : St) : Nat := queueSize st.queue + unseenSize frags st.seen

theorem queueSize_append (a b : List ESet) : queueSize (a ++ b) = queueSize a + queueSize b := by
  simp [queueSize, List.sum_append]

theorem unseen_cons_le (frags : Frags) (seen : List String) (n : String) :
    unseenSize frags (n :: seen) ≤ unseenSize frags seen := by
  unfold unseenSize
  induction frags with
  | nil => simp
  | cons f rest ih =>
    simp only [List.filter_cons]
    by_cases h1 : seen.contains f.1 = true
    · have : (n :: seen).contains f.1 = true := by simp at h1 ⊢; exact Or.inr h1
      simp only [h1, this, Bool.not_true, Bool.false_eq_true, if_false]; exact ih
    · have h1' : seen.contains f.1 = false := by simpa using h1
      by_cases h2 : (n :: seen).contains f.1 = true
      · simp only [h1', h2, Bool.not_true, Bool.not_false, Bool.false_eq_true, if_false, if_true, List.map_cons, List.sum_cons]; omega
      · have h2' : (n :: seen).contains f.1 = false := by simpa using h2
        simp only [h1', h2', Bool.not_false, if_true, List.map_cons, List.sum_cons]; omega

theorem unseen_cons_get (frags : Frags) (seen : List String) (n : String) (F : ESet)
    (hn : seen.contains n = false) (hF : frags.get? n = some F) :
    unseenSize frags (n :: seen) + (ESel.sizeList F.2 + 1) ≤ unseenSize frags seen := by
  unfold unseenSize Frags.get? at *
  induction frags with
  | nil => simp at hF
  | cons f rest ih =>
    simp only [List.find?_cons] at hF
    simp only [List.filter_cons]
    by_cases hfn : (f.1 == n) = true
    · have hfe : f.1 = n := by simpa using hfn
      simp only [hfn, Option.map_some, Option.some.injEq] at hF
      have h1 : seen.contains f.1 = false := by rw [hfe]; exact hn
      have h2 : (n :: seen).contains f.1 = true := by simp [hfe]
      simp only [h1, h2, Bool.not_true, Bool.not_false, Bool.false_eq_true, if_false, if_true, List.map_cons, List.sum_cons]
      have := unseen_cons_le rest seen n
      unfold unseenSize at this
      rw [← hF]; omega
    · have hfn' : (f.1 == n) = false := by simpa using hfn
      simp only [hfn', Bool.false_eq_true, if_false] at hF
      have ih' := ih hF
      have hne : f.1 ≠ n := by simpa using hfn'
      by_cases h1 : seen.contains f.1 = true
      · have h2 : (n :: seen).contains f.1 = true := by simp at h1 ⊢; exact Or.inr h1
        simp only [h1, h2, Bool.not_true, Bool.false_eq_true, if_false]; exact ih'
      · have h1' : seen.contains f.1 = false := by simpa using h1
        have h2 : (n :: seen).contains f.1 = false := by
          simp at h1' ⊢; exact ⟨hne, h1'⟩
        simp only [h1', h2, Bool.not_false, if_true, List.map_cons, List.sum_cons]; omega

theorem visit_measure (frags : Frags) (ty : String) : ∀ (sels : List ESel) (st : St),
    measure frags (visit frags ty sels st) ≤ measure frags st + ESel.sizeList sels := by
  intro sels
  induction sels with
  | nil => intro st; simp [visit, ESel.sizeList]
  | cons s rest ih =>
    intro st
    cases s with
    | field id =>
      simp only [visit, ESel.sizeList, ESel.size]
      have := ih { st with out := st.out ++ [(ty, id)] }
      simp only [measure] at this ⊢; omega
    | inline t ss =>
      simp only [visit, ESel.sizeList, ESel.size]
      have := ih { st with queue := st.queue ++ [(t, ss)] }
      simp only [measure, queueSize_append] at this ⊢
      simp only [queueSize, List.map_cons, List.map_nil, List.sum_cons, List.sum_nil] at this ⊢; omega
    | spread n =>
      simp only [visit, ESel.sizeList, ESel.size]
      by_cases hs : st.seen.contains n = true
      · simp only [hs, if_true]
        have := ih st; omega
      · have hs' : st.seen.contains n = false := by simpa using hs
        simp only [hs', Bool.false_eq_true, if_false]
        cases hF : frags.get? n with
        | none =>
          simp only []
          have := ih { st with seen := n :: st.seen }
          have h2 := unseen_cons_le frags st.seen n
          simp only [measure] at this ⊢; omega
        | some F =>
          simp only []
          have := ih { st with seen := n :: st.seen, queue := st.queue ++ [F] }
          have h2 := unseen_cons_get frags st.seen n F hs' hF
          simp only [measure, queueSize_append] at this ⊢
          simp only [queueSize, List.map_cons, List.map_nil, List.sum_cons, List.sum_nil] at this ⊢; omega

theorem loop_done (frags : Frags) : ∀ (fuel : Nat) (st : St), measure frags st ≤ fuel → (loop frags fuel st).queue = [] := by
  intro fuel
  induction fuel with
  | zero =>
    intro st h
    simp only [loop]
    cases hq : st.queue with
    | nil => rfl
    | cons Q q => simp [measure, queueSize, hq] at h
  | succ fuel ih =>
    intro st h
    simp only [loop]
    cases hq : st.queue with
    | nil => simpa using hq
    | cons Q q =>
      obtain ⟨ty, sels⟩ := Q
      simp only []
      apply ih
      have := visit_measure frags ty sels { st with queue := q }
      simp only [measure, queueSize, hq, List.map_cons, List.sum_cons] at h this ⊢
      omega

theorem expand_done (frags : Frags) (sets : List ESet) :
    (loop frags (fuelFor frags sets) { queue := sets, seen := [], out := [] }).queue = [] := by
  apply loop_done
  have hf : (frags.filter fun f => !([] : List String).contains f.1) = frags := by
    apply List.filter_eq_self.mpr; intro a _; simp
  simp only [measure, queueSize, unseenSize, fuelFor, hf]
  omega

/-- `expand_selections` lists EXACTLY the fields of the given selection sets and of every fragment
    reachable from them through spreads (inline fragments looked into), each written with the type of
    the selection set it stands in -/
theorem expand_iff (frags : Frags) (sets : List ESet) (x : String × Nat) :
    x ∈ expand frags sets ↔ Expanded frags sets x :=
  ⟨expand_sound frags sets x, expand_complete_of_done frags sets _ (expand_done frags sets) x⟩

/-! ### merging starts from the selection sets -/
open Apollo.ExecVal Apollo.Spec.ExecVal in
/-- FIELD MERGING FROM THE SELECTION SETS: take the selection sets of a group (an operation's root set, or
    the sub-selections of the fields of one response name), let `mk` read off a field what merging looks
    at.  The XING algorithm on apollo's breadth-first expansion accepts exactly when the specification's
    pairwise rule accepts the fields of ANY listing `L` of "the selections including visiting fragments
    and inline fragments" — depth-first, with or without repetition, in any order. -/
theorem merging_from_selection_sets (mk : String × Nat → AField) (n : Nat) (frags : Frags) (sets : List ESet)
    (L : List (String × Nat)) (hL : ∀ x, x ∈ L ↔ Expanded frags sets x) :
    xingCanMerge n ((expand frags sets).map mk) = documentFieldsCanMerge n (L.map mk) := by
  rw [xing_eq_pairwise]
  apply doc_congr
  intro y
  simp only [List.mem_map]
  constructor
  · rintro ⟨x, hx, rfl⟩; exact ⟨x, (hL x).mpr ((expand_iff frags sets x).mp hx), rfl⟩
  · rintro ⟨x, hx, rfl⟩; exact ⟨x, (expand_iff frags sets x).mpr ((hL x).mp hx), rfl⟩

end Apollo.Expand
