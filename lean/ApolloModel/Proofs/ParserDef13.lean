import ApolloModel.Proofs.ParserDef12
/-
C05 growth (type-system definitions), part 13: the eight type-system definitions, in a lexer queue.
-/
set_option linter.unusedSimpArgs false
namespace Apollo.Parse
open Apollo.Rowan hiding Str
open Apollo.Lex hiding Str

abbrev E0 : PState → Prop := fun _ => False

/-- an optional separated clause: `intro sep? Name (sep Name)*`; `(lead, first, rest)` -/
def tSepOpt (intro : List Ast.Tok) (sep : Ast.P) : Option (Bool × Str × List Str) → List Ast.Tok
  | none => []
  | some (lead, first, rest) => intro ++ tSepLead sep lead first rest

def sepNames : Option (Bool × Str × List Str) → List Str
  | none => []
  | some (_, first, rest) => first :: rest

/-- no leading separator was written -/
def sepPlain : Option (Bool × Str × List Str) → Prop
  | none => True
  | some (lead, _, _) => lead = false

theorem tSepOpt_plain (intro : List Ast.Tok) (sep : Ast.P) (i : Option (Bool × Str × List Str)) (h : sepPlain i) :
    tSepOpt intro sep i = Ast.tSepList intro sep (sepNames i) := by
  cases i with
  | none => rfl
  | some v =>
    obtain ⟨lead, first, rest⟩ := v
    simp only [sepPlain] at h
    subst h
    simp [tSepOpt, sepNames, tSepList_eq_lead]

/-- the shape `Description? keyword? Name tail` in a lexer queue -/
theorem accL_defShape (word : String) (hw : KwWord word) (sk : SK) (n : Nat)
    (tail : PI Unit) (L : List Ast.Tok → Prop) (ht : Acc E0 LexQ tail (fun _ => L)) :
    Acc E0 LexQ (defShape word sk n tail)
      (fun _ x => ∃ desc seen nm x2, x = Ast.tDescription desc ++ kwPart word seen ++ .name nm :: x2 ∧ L x2) := by
  unfold defShape
  have h1 : Acc E0 LexQ (nameOrErr >>= fun _ => tail) (fun _ x => ∃ nm x2, x = .name nm :: x2 ∧ L x2) := by
    refine (accL_bind early_false (fun _ h => h) acc_nameOrErr (fun _ => ht)).mono (fun _ h => h) ?_
    rintro _ x ⟨_, x1, x2, e, ⟨nm, h1⟩, h2⟩
    exact ⟨nm, x2, by rw [e, h1]; rfl, h2⟩
  refine (accL_optDesc early_false _ _ (accL_optKw early_false word hw sk _ _ h1)).mono (fun _ h => h) ?_
  rintro _ x ⟨desc, x2, e, seen, x3, e3, nm, x4, e4, h4⟩
  exact ⟨desc, seen, nm, x4, by rw [e, e3, e4]; simp, h4⟩

/-- `Directives? Body?` where the body starts on the kind `k0` -/
def dirsBody (n : Nat) (k0 : Kind) (body : PI Unit) : PI Unit := optKind .at (directives n true) (optBodyK k0 body)

theorem accL_dirsBody (n : Nat) (k0 : Kind) (body : PI Unit) (L : List Ast.Tok → Prop)
    (hb : Acc E0 (KindP (· == k0)) body (fun _ => L)) :
    Acc E0 LexQ (dirsBody n k0 body) (fun _ x => ∃ ds x2, x = Ast.tDirectives ds ++ x2 ∧ (L x2 ∨ x2 = [])) :=
  accL_optDirs early_false n _ _ (acc_optBodyK k0 body L hb)

theorem kwWord_scalar : KwWord "scalar" := ⟨'s', "calar".toList, rfl, by decide⟩
theorem kwWord_type : KwWord "type" := ⟨'t', "ype".toList, rfl, by decide⟩
theorem kwWord_interface : KwWord "interface" := ⟨'i', "nterface".toList, rfl, by decide⟩
theorem kwWord_union : KwWord "union" := ⟨'u', "nion".toList, rfl, by decide⟩
theorem kwWord_enum : KwWord "enum" := ⟨'e', "num".toList, rfl, by decide⟩
theorem kwWord_input : KwWord "input" := ⟨'i', "nput".toList, rfl, by decide⟩
theorem kwWord_directive : KwWord "directive" := ⟨'d', "irective".toList, rfl, by decide⟩
theorem kwWord_schema : KwWord "schema" := ⟨'s', "chema".toList, rfl, by decide⟩
theorem kwWord_repeatable : KwWord "repeatable" := ⟨'r', "epeatable".toList, rfl, by decide⟩
theorem kwWord_on : KwWord "on" := ⟨'o', "n".toList, rfl, by decide⟩
theorem kwWord_extend : KwWord "extend" := ⟨'e', "xtend".toList, rfl, by decide⟩

/-! ### scalar, enum, input object -/

def scalarToks (desc : Option Str) (seen : Bool) (nm : Str) (ds : List Ast.Directive) : List Ast.Tok :=
  Ast.tDescription desc ++ kwPart "scalar" seen ++ .name nm :: Ast.tDirectives ds

theorem accL_scalarTypeDefinition (n : Nat) :
    Acc E0 LexQ (scalarTypeDefinition n) (fun _ x => ∃ desc seen nm ds, x = scalarToks desc seen nm ds) := by
  rw [scalarTypeDefinition_eq]
  refine accL_withNodeAny early_false _ ?_
  refine (accL_defShape "scalar" kwWord_scalar _ n _ _ ((acc_optDirsEnd (E := E0) (H := LexQ) n))).mono (fun _ h => h) ?_
  rintro _ x ⟨desc, seen, nm, x2, e, ds, h2⟩
  exact ⟨desc, seen, nm, ds, by rw [e, h2]; rfl⟩

theorem enumTypeDefinition_eq' (n : Nat) : enumTypeDefinition n =
    withNode "ENUM_TYPE_DEFINITION" (defShape "enum" "enum_KW" n (dirsBody n .lCurly (enumValuesDefinition n))) := rfl

def enumToks (desc : Option Str) (seen : Bool) (nm : Str) (ds : List Ast.Directive) (vs : List Ast.EnumValueDef) : List Ast.Tok :=
  Ast.tDescription desc ++ kwPart "enum" seen ++ Ast.tEnumBody nm ds vs

theorem accL_enumTypeDefinition (n : Nat) :
    Acc E0 LexQ (enumTypeDefinition n) (fun _ x => ∃ desc seen nm ds vs, x = enumToks desc seen nm ds vs) := by
  rw [enumTypeDefinition_eq']
  refine accL_withNodeAny early_false _ ?_
  refine (accL_defShape "enum" kwWord_enum _ n _ _ (accL_dirsBody n .lCurly _ _ (acc_enumValuesDefinition n))).mono (fun _ h => h) ?_
  rintro _ x ⟨desc, seen, nm, x2, e, ds, x3, e3, h3⟩
  rcases h3 with ⟨vs, _, h3⟩ | h3
  · exact ⟨desc, seen, nm, ds, vs, by rw [e, e3, h3]; simp [enumToks, Ast.tEnumBody]⟩
  · exact ⟨desc, seen, nm, ds, [], by rw [e, e3, h3]; simp [enumToks, Ast.tEnumBody, Ast.tBraced, Ast.tEnumValueDefItems]⟩

theorem inputObjectTypeDefinition_eq' (n : Nat) : inputObjectTypeDefinition n =
    withNode "INPUT_OBJECT_TYPE_DEFINITION" (defShape "input" "input_KW" n (dirsBody n .lCurly (inputFieldsDefinition n))) := rfl

def inputToks (desc : Option Str) (seen : Bool) (nm : Str) (ds : List Ast.Directive) (fs : List Ast.InputValueDef) : List Ast.Tok :=
  Ast.tDescription desc ++ kwPart "input" seen ++ Ast.tInputBody nm ds fs

theorem accL_inputObjectTypeDefinition (n : Nat) :
    Acc E0 LexQ (inputObjectTypeDefinition n) (fun _ x => ∃ desc seen nm ds fs, x = inputToks desc seen nm ds fs) := by
  rw [inputObjectTypeDefinition_eq']
  refine accL_withNodeAny early_false _ ?_
  refine (accL_defShape "input" kwWord_input _ n _ _ (accL_dirsBody n .lCurly _ _ (acc_inputFieldsDefinition n))).mono (fun _ h => h) ?_
  rintro _ x ⟨desc, seen, nm, x2, e, ds, x3, e3, h3⟩
  rcases h3 with ⟨vs, _, h3⟩ | h3
  · exact ⟨desc, seen, nm, ds, vs, by rw [e, e3, h3]; simp [inputToks, Ast.tInputBody]⟩
  · exact ⟨desc, seen, nm, ds, [], by rw [e, e3, h3]; simp [inputToks, Ast.tInputBody, Ast.tBraced, Ast.tIVDItems]⟩

/-! ### union -/

theorem unionTypeDefinition_eq (n : Nat) : unionTypeDefinition n =
    withNode "UNION_TYPE_DEFINITION" (defShape "union" "union_KW" n (dirsBody n .eq unionMemberTypes)) := rfl

def unionToks (desc : Option Str) (seen : Bool) (nm : Str) (ds : List Ast.Directive) (ms : Option (Bool × Str × List Str)) : List Ast.Tok :=
  Ast.tDescription desc ++ kwPart "union" seen ++ .name nm :: Ast.tDirectives ds ++ tSepOpt [.p .eq] .pipe ms

theorem accL_unionTypeDefinition (n : Nat) :
    Acc E0 LexQ (unionTypeDefinition n) (fun _ x => ∃ desc seen nm ds ms, x = unionToks desc seen nm ds ms) := by
  rw [unionTypeDefinition_eq]
  refine accL_withNodeAny early_false _ ?_
  refine (accL_defShape "union" kwWord_union _ n _ _ (accL_dirsBody n .eq _ _ (acc_unionMemberTypes early_false))).mono (fun _ h => h) ?_
  rintro _ x ⟨desc, seen, nm, x2, e, ds, x3, e3, h3⟩
  rcases h3 with ⟨lead, first, rest, h3⟩ | h3
  · exact ⟨desc, seen, nm, ds, some (lead, first, rest), by rw [e, e3, h3]; simp [unionToks, tSepOpt]⟩
  · exact ⟨desc, seen, nm, ds, none, by rw [e, e3, h3]; simp [unionToks, tSepOpt]⟩

/-! ### object, interface -/

/-- `object.rs`: the `implements` look-ahead checks kind and text of the token -/
def optImplTok (rest : PI Unit) : PI Unit :=
  peekToken >>= fun o => match o with
    | some t => if (t.kind == .name && kw "implements" t.data) then (implementsInterfaces >>= fun _ => rest) else rest
    | none => rest

def implR (R : List Ast.Tok → Prop) (x : List Ast.Tok) : Prop :=
  ∃ impl x2, x = tSepOpt [.name Ast.sImplements] .amp impl ++ x2 ∧ R x2

theorem accL_optImplTok (rest : PI Unit) (R : List Ast.Tok → Prop) (hr : Acc E0 LexQ rest (fun _ => R)) :
    Acc E0 LexQ (optImplTok rest) (fun _ => implR R) := by
  have hnone : ∀ H' : List Tok → Prop, (∀ q, H' q → LexQ q) → Acc E0 H' rest (fun _ => implR R) := fun H' hH' =>
    hr.mono hH' (fun _ x h => ⟨none, x, rfl, h⟩)
  unfold optImplTok
  apply acc_peekToken
  intro o
  cases o with
  | none => exact hnone _ (fun _ h => h.1)
  | some t =>
    simp only []
    apply acc_ite
    · intro hk
      have hd : t.data = "implements".toList := by
        have : kw "implements" t.data = true := by
          cases h1 : (t.kind == Kind.name) <;> simp [h1] at hk ⊢; exact hk
        simpa [kw] using this
      have hb : Acc E0 (fun q => LexQ q ∧ q.head? = some t) implementsInterfaces _ :=
        (acc_implementsInterfaces early_false).mono (fun q ⟨hl, hq⟩ => ⟨hl, t, hq, hd⟩) (fun _ _ h => h)
      refine (accL_bind early_false (fun _ h => h.1) hb (fun _ => hr)).mono (fun _ h => h) ?_
      rintro _ x ⟨_, x1, x2, e, ⟨lead, first, rest', h1⟩, h2⟩
      exact ⟨some (lead, first, rest'), x2, by rw [e, h1]; simp [tSepOpt], h2⟩
    · intro _; exact hnone _ (fun _ h => h.1)

/-- `interface.rs`: the `implements` look-ahead checks the text only -/
theorem accL_optImplData (restT restF : PI Unit) (R : List Ast.Tok → Prop) (hT : Acc E0 LexQ restT (fun _ => R))
    (hF : Acc E0 LexQ restF (fun _ => R)) :
    Acc E0 LexQ (optData2 "implements" implementsInterfaces restT restF) (fun _ => implR R) := by
  refine (accL_optData2 early_false "implements" implementsInterfaces restT restF _ _ (acc_implementsInterfaces early_false) hT hF).mono
    (fun _ h => h) ?_
  rintro _ x ⟨x1, x2, e, h1, h2⟩
  rcases h1 with ⟨lead, first, rest', h1⟩ | h1
  · exact ⟨some (lead, first, rest'), x2, by rw [e, h1]; simp [tSepOpt], h2⟩
  · exact ⟨none, x2, by rw [e, h1]; rfl, h2⟩

theorem objectTypeDefinition_eq (n : Nat) : objectTypeDefinition n =
    withNode "OBJECT_TYPE_DEFINITION" (defShape "type" "type_KW" n (optImplTok (dirsBody n .lCurly (fieldsDefinition n)))) := rfl

theorem interfaceTypeDefinition_eq (n : Nat) : interfaceTypeDefinition n =
    withNode "INTERFACE_TYPE_DEFINITION" (defShape "interface" "interface_KW" n
      (optData2 "implements" implementsInterfaces (dirsBody n .lCurly (fieldsDefinition n)) (dirsBody n .lCurly (fieldsDefinition n)))) := rfl

/-- `Name ImplementsInterfaces? Directives? FieldsDefinition?` with the optional leading `&` -/
def objectLikeToks (nm : Str) (impl : Option (Bool × Str × List Str)) (ds : List Ast.Directive) (fs : List Ast.FieldDef) : List Ast.Tok :=
  .name nm :: tSepOpt [.name Ast.sImplements] .amp impl ++ Ast.tDirectives ds ++ Ast.tBraced (Ast.tFieldDefItems fs) fs.isEmpty

theorem objectLikeToks_plain (nm : Str) (impl) (ds : List Ast.Directive) (fs : List Ast.FieldDef) (h : sepPlain impl) :
    objectLikeToks nm impl ds fs = Ast.tObjectTypeLike nm (sepNames impl) ds fs := by
  simp [objectLikeToks, Ast.tObjectTypeLike, tSepOpt_plain _ _ _ h]

theorem accL_fieldsTail (n : Nat) :
    Acc E0 LexQ (dirsBody n .lCurly (fieldsDefinition n))
      (fun _ x => ∃ ds fs, x = Ast.tDirectives ds ++ Ast.tBraced (Ast.tFieldDefItems fs) fs.isEmpty) := by
  refine (accL_dirsBody n .lCurly _ _ (acc_fieldsDefinition n)).mono (fun _ h => h) ?_
  rintro _ x ⟨ds, x2, e, h2⟩
  rcases h2 with ⟨fs, _, h2⟩ | h2
  · exact ⟨ds, fs, by rw [e, h2]⟩
  · exact ⟨ds, [], by rw [e, h2]; simp [Ast.tBraced]⟩

theorem accL_objectTypeDefinition (n : Nat) :
    Acc E0 LexQ (objectTypeDefinition n)
      (fun _ x => ∃ desc seen nm impl ds fs, x = Ast.tDescription desc ++ kwPart "type" seen ++ objectLikeToks nm impl ds fs) := by
  rw [objectTypeDefinition_eq]
  refine accL_withNodeAny early_false _ ?_
  refine (accL_defShape "type" kwWord_type _ n _ _ (accL_optImplTok _ _ (accL_fieldsTail n))).mono (fun _ h => h) ?_
  rintro _ x ⟨desc, seen, nm, x2, e, impl, x3, e3, ds, fs, h3⟩
  exact ⟨desc, seen, nm, impl, ds, fs, by rw [e, e3, h3]; simp [objectLikeToks]⟩

theorem accL_interfaceTypeDefinition (n : Nat) :
    Acc E0 LexQ (interfaceTypeDefinition n)
      (fun _ x => ∃ desc seen nm impl ds fs, x = Ast.tDescription desc ++ kwPart "interface" seen ++ objectLikeToks nm impl ds fs) := by
  rw [interfaceTypeDefinition_eq]
  refine accL_withNodeAny early_false _ ?_
  refine (accL_defShape "interface" kwWord_interface _ n _ _
    (accL_optImplData _ _ _ (accL_fieldsTail n) (accL_fieldsTail n))).mono (fun _ h => h) ?_
  rintro _ x ⟨desc, seen, nm, x2, e, impl, x3, e3, ds, fs, h3⟩
  exact ⟨desc, seen, nm, impl, ds, fs, by rw [e, e3, h3]; simp [objectLikeToks]⟩

end Apollo.Parse
