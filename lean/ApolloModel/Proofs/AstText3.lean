import ApolloModel.Proofs.AstText2
/-
Text level, part 1 concluded: definitions and documents.
-/
namespace Apollo.Ast

theorem ok_desc_kw (d : Option Str) (k : String) (rest : List Cmd) (h : Ok (some .word) rest) :
    Ok none (cDescription d ++ kw k :: rest) :=
  ok_cDescription_then d none _ clean_none (fun _ h' => ok_kw h'.nm h)

theorem any_curly_sels (sels : Sels) : Any (curly (cSels sels)) := any_curly _ (okNone_cSels sels)

theorem ok_cDefinition (oe : Bool) : ∀ d : Definition, Ok none (cDefinition oe d)
  | .operation ty name vars dirs sels => by
      simp only [cDefinition]
      split
      · simpa using any_curly_sels sels none
      · simp only [List.cons_append, List.nil_append, List.append_assoc]
        refine ok_kw (.inl rfl) ?_
        have hvars : Any (if vars.isEmpty then []
            else [.beginSingle] ++ commaSeparated .lParen .rParen (vars.map cVarDef) ++ [.endSingle]) := by
          intro st
          split
          · exact ok_nil _
          · simp only [List.cons_append, List.nil_append]
            refine ok_beginSingle (ok_append_any (any_commaSeparated _ _ (by simp) (by simp) _ ?_ st)
              (fun st => ok_endSingle (ok_nil _)))
            intro i hi st' hst'
            simp only [List.mem_map] at hi
            obtain ⟨a, _, rfl⟩ := hi
            exact ok_cVarDef a st' hst'
        have htail : Any ((if vars.isEmpty then []
            else [.beginSingle] ++ commaSeparated .lParen .rParen (vars.map cVarDef) ++ [.endSingle]) ++
            (cDirectives dirs ++ (sp :: curly (cSels sels)))) :=
          any_append hvars (any_append (any_cDirectives _) (fun st => ok_sp (any_curly_sels sels none)))
        cases name with
        | none => simpa using htail _
        | some n =>
          simp only [List.cons_append, List.nil_append]
          exact ok_sp (ok_nm (.inl rfl) (by simpa using htail _))
  | .fragment name tc dirs sels => by
      simp only [cDefinition, List.cons_append, List.nil_append, List.append_assoc]
      refine ok_kw (.inl rfl) (ok_sp (ok_nm (.inl rfl) (ok_sp (ok_kw (.inl rfl) (ok_sp (ok_nm (.inl rfl) ?_))))))
      exact any_append (any_cDirectives _) (fun st => ok_sp (any_curly_sels sels none)) _
  | .directiveDef desc name args repeatable locs => by
      simp only [cDefinition, List.cons_append, List.nil_append, List.append_assoc]
      refine ok_desc_kw _ _ _ (ok_sp (ok_pn (by simp) (ok_nm (.inr (.inl rfl)) ?_)))
      refine any_append (any_cArgumentsDefinition _) (any_append ?_
        (any_cSepList _ (fun st cs h => ok_sp (ok_kw (.inl rfl) (ok_sp h))) _ (by simp) _)) _
      intro st
      split
      · exact ok_sp (ok_kw (.inl rfl) (ok_nil _))
      · exact ok_nil _
  | .schemaDef desc dirs roots => by
      simp only [cDefinition, List.cons_append, List.nil_append, List.append_assoc]
      refine ok_desc_kw _ _ _ (any_append (any_cDirectives _) (fun st => ok_sp ?_) _)
      exact any_curly _ (okNone_map _ _ ok_cRootOp) none
  | .scalarDef desc name dirs => by
      simp only [cDefinition, List.cons_append, List.nil_append, List.append_assoc]
      exact ok_desc_kw _ _ _ (ok_sp (ok_nm (.inl rfl) (any_cDirectives _ _)))
  | .objectDef desc name impls dirs fields => by
      simp only [cDefinition, List.cons_append, List.nil_append, List.append_assoc]
      exact ok_desc_kw _ _ _ (ok_sp (ok_cObjectTypeLike _ _ _ _))
  | .interfaceDef desc name impls dirs fields => by
      simp only [cDefinition, List.cons_append, List.nil_append, List.append_assoc]
      exact ok_desc_kw _ _ _ (ok_sp (ok_cObjectTypeLike _ _ _ _))
  | .unionDef desc name dirs members => by
      simp only [cDefinition, List.cons_append, List.nil_append, List.append_assoc]
      exact ok_desc_kw _ _ _ (ok_sp (ok_cUnion _ _ _))
  | .enumDef desc name dirs values => by
      simp only [cDefinition, List.cons_append, List.nil_append, List.append_assoc]
      exact ok_desc_kw _ _ _ (ok_sp (ok_cEnumBody _ _ _))
  | .inputDef desc name dirs fields => by
      simp only [cDefinition, List.cons_append, List.nil_append, List.append_assoc]
      exact ok_desc_kw _ _ _ (ok_sp (ok_cInputBody _ _ _))
  | .schemaExt dirs roots => by
      simp only [cDefinition, List.cons_append, List.nil_append]
      refine ok_kw (.inl rfl) (ok_sp (ok_kw (.inl rfl) ?_))
      exact any_append (any_cDirectives _) (any_optCurly _ _ (okNone_map _ _ ok_cRootOp)) _
  | .scalarExt name dirs => by
      simp only [cDefinition, List.cons_append, List.nil_append]
      exact ok_kw (.inl rfl) (ok_sp (ok_kw (.inl rfl) (ok_sp (ok_nm (.inl rfl) (any_cDirectives _ _)))))
  | .objectExt name impls dirs fields => by
      simp only [cDefinition, List.cons_append, List.nil_append]
      exact ok_kw (.inl rfl) (ok_sp (ok_kw (.inl rfl) (ok_sp (ok_cObjectTypeLike _ _ _ _))))
  | .interfaceExt name impls dirs fields => by
      simp only [cDefinition, List.cons_append, List.nil_append]
      exact ok_kw (.inl rfl) (ok_sp (ok_kw (.inl rfl) (ok_sp (ok_cObjectTypeLike _ _ _ _))))
  | .unionExt name dirs members => by
      simp only [cDefinition, List.cons_append, List.nil_append]
      exact ok_kw (.inl rfl) (ok_sp (ok_kw (.inl rfl) (ok_sp (ok_cUnion _ _ _))))
  | .enumExt name dirs values => by
      simp only [cDefinition, List.cons_append, List.nil_append]
      exact ok_kw (.inl rfl) (ok_sp (ok_kw (.inl rfl) (ok_sp (ok_cEnumBody _ _ _))))
  | .inputExt name dirs fields => by
      simp only [cDefinition, List.cons_append, List.nil_append]
      exact ok_kw (.inl rfl) (ok_sp (ok_kw (.inl rfl) (ok_sp (ok_cInputBody _ _ _))))

/-- **No glue.** In the command list of any document, for either value of `output_empty`, no token directly
    follows a token it would merge with: between them there is a write that happens in every configuration. -/
theorem separated_document (oe : Bool) (doc : Document) : separated (cDocument oe doc) := by
  show Ok none (cDocument oe doc)
  cases doc with
  | nil => exact ok_nil _
  | cons first rest =>
    simp only [cDocument, List.append_assoc]
    refine ok_append_any (ok_cDefinition oe first) ?_
    have := ok_flatten_sep [.rawIfNewlines ['\n'], .newLineOrSpace]
      (fun st cs h => ok_rawIfNl_nl (ok_nl h)) (rest.map (cDefinition false))
      (okNone_map _ _ (ok_cDefinition false)) [.rawIfNewlines ['\n']] (fun st => ok_rawIfNl_nl (ok_nil _))
    simpa [List.map_map, Function.comp_def] using this

/-- …and the same for the pieces that are printed on their own -/
theorem separated_definition (oe : Bool) (d : Definition) : separated (cDefinition oe d) := ok_cDefinition oe d
theorem separated_selection_set (sels : Sels) : separated (curly (cSels sels)) := any_curly_sels sels none
theorem separated_value (v : Value) : separated (cValue v) := ok_cValue v none clean_none
theorem separated_type (t : Ty) : separated (cTy t) := by
  have := ok_cTy_any t none [] clean_none any_nil
  simp only [List.append_nil] at this
  exact this

end Apollo.Ast
