import ApolloModel.Proofs.ParserTreeDef12
/-
C08 growth (pipeline), stage (v), part 13: the complete case analysis of the dispatcher of `document()` for the tree
calculus: an error-free run of `documentDispatch` either selected a type-system definition / extension — then
`tr_typeSystemDefinition` applies: tokens of one loose definition, one tree — or it IS a run of `fragmentDefinition` /
`operationDefinition` on the same queue and the same tree builder (stage iv).
-/
set_option linter.unusedSimpArgs false
set_option linter.unusedVariables false
namespace Apollo.Parse
open Apollo.Rowan hiding Str
open Apollo.Lex hiding Str

theorem errAndPop_never (s s' : PState) (w : TW s) (he : EofEnd s) (h : errAndPop.run s = .ok () s') (hnd : ¬ Doomed s') : False := by
  obtain ⟨cs, _, _, _, r⟩ := (acc_errAndPop (E := fun _ => False) (H := fun _ => True) (R := fun _ _ => False)).2 s () s' w he
    trivial h hnd
  rcases r with ⟨_, _, f⟩ | f <;> exact f

/-- the keyword cascade of `select_definition` -/
theorem selectDefinition_cases (n : Nat) (d : Str) (s s' : PState) (w : TW s) (he : EofEnd s)
    (h : (selectDefinition n d).run s = .ok () s') (hnd : ¬ Doomed s') :
    (∃ word, word ∈ defWords ∧ d = word.toList) ∨ (d = "extend".toList ∧ (extensions n).run s = .ok () s') ∨
    (d = "fragment".toList ∧ (fragmentDefinition n).run s = .ok () s') ∨
    ((d = "query".toList ∨ d = "mutation".toList ∨ d = "subscription".toList ∨ d = "{".toList) ∧
      (operationDefinition n).run s = .ok () s') := by
  unfold selectDefinition at h
  by_cases h1 : kw "directive" d = true
  · exact Or.inl ⟨"directive", by simp [defWords], by simpa [kw] using h1⟩
  simp only [h1, Bool.false_eq_true, if_false] at h
  by_cases h2 : kw "enum" d = true
  · exact Or.inl ⟨"enum", by simp [defWords], by simpa [kw] using h2⟩
  simp only [h2, Bool.false_eq_true, if_false] at h
  by_cases h3 : kw "extend" d = true
  · simp only [h3, if_true] at h
    exact Or.inr (Or.inl ⟨by simpa [kw] using h3, h⟩)
  simp only [h3, Bool.false_eq_true, if_false] at h
  by_cases h4 : kw "fragment" d = true
  · simp only [h4, if_true] at h
    exact Or.inr (Or.inr (Or.inl ⟨by simpa [kw] using h4, h⟩))
  simp only [h4, Bool.false_eq_true, if_false] at h
  by_cases h5 : kw "input" d = true
  · exact Or.inl ⟨"input", by simp [defWords], by simpa [kw] using h5⟩
  simp only [h5, Bool.false_eq_true, if_false] at h
  by_cases h6 : kw "interface" d = true
  · exact Or.inl ⟨"interface", by simp [defWords], by simpa [kw] using h6⟩
  simp only [h6, Bool.false_eq_true, if_false] at h
  by_cases h7 : kw "type" d = true
  · exact Or.inl ⟨"type", by simp [defWords], by simpa [kw] using h7⟩
  simp only [h7, Bool.false_eq_true, if_false] at h
  by_cases h8 : (kw "query" d || kw "mutation" d || kw "subscription" d || kw "{" d) = true
  · simp only [h8, if_true] at h
    simp only [Bool.or_eq_true] at h8
    refine Or.inr (Or.inr (Or.inr ⟨?_, h⟩))
    rcases h8 with ((h8 | h8) | h8) | h8
    · exact Or.inl (by simpa [kw] using h8)
    · exact Or.inr (Or.inl (by simpa [kw] using h8))
    · exact Or.inr (Or.inr (Or.inl (by simpa [kw] using h8)))
    · exact Or.inr (Or.inr (Or.inr (by simpa [kw] using h8)))
  simp only [h8, Bool.false_eq_true, if_false] at h
  by_cases h9 : kw "scalar" d = true
  · exact Or.inl ⟨"scalar", by simp [defWords], by simpa [kw] using h9⟩
  simp only [h9, Bool.false_eq_true, if_false] at h
  by_cases h10 : kw "schema" d = true
  · exact Or.inl ⟨"schema", by simp [defWords], by simpa [kw] using h10⟩
  simp only [h10, Bool.false_eq_true, if_false] at h
  by_cases h11 : kw "union" d = true
  · exact Or.inl ⟨"union", by simp [defWords], by simpa [kw] using h11⟩
  simp only [h11, Bool.false_eq_true, if_false] at h
  exact absurd (errAndPop_never s s' w he h hnd) id

/-- the keyword cascade of `extensions` -/
theorem extSel_cases (n : Nat) (o : Option Str) (s s' : PState) (w : TW s) (he : EofEnd s)
    (h : (extSel n o).run s = .ok () s') (hnd : ¬ Doomed s') : ∃ w2, w2 ∈ extWords ∧ o = some w2.toList := by
  unfold extSel at h
  by_cases h1 : kwOpt "schema" o = true
  · exact ⟨"schema", by simp [extWords], by simpa [kwOpt] using h1⟩
  simp only [h1, Bool.false_eq_true, if_false] at h
  by_cases h2 : kwOpt "scalar" o = true
  · exact ⟨"scalar", by simp [extWords], by simpa [kwOpt] using h2⟩
  simp only [h2, Bool.false_eq_true, if_false] at h
  by_cases h3 : kwOpt "type" o = true
  · exact ⟨"type", by simp [extWords], by simpa [kwOpt] using h3⟩
  simp only [h3, Bool.false_eq_true, if_false] at h
  by_cases h4 : kwOpt "interface" o = true
  · exact ⟨"interface", by simp [extWords], by simpa [kwOpt] using h4⟩
  simp only [h4, Bool.false_eq_true, if_false] at h
  by_cases h5 : kwOpt "union" o = true
  · exact ⟨"union", by simp [extWords], by simpa [kwOpt] using h5⟩
  simp only [h5, Bool.false_eq_true, if_false] at h
  by_cases h6 : kwOpt "enum" o = true
  · exact ⟨"enum", by simp [extWords], by simpa [kwOpt] using h6⟩
  simp only [h6, Bool.false_eq_true, if_false] at h
  by_cases h7 : kwOpt "input" o = true
  · exact ⟨"input", by simp [extWords], by simpa [kwOpt] using h7⟩
  simp only [h7, Bool.false_eq_true, if_false] at h
  exact absurd (errAndPop_never s s' w he h hnd) id

theorem extend_not_extWord : ∀ w2, w2 ∈ extWords → "extend".toList ≠ w2.toList := by
  intro w2 hw
  simp only [extWords, List.mem_cons, List.mem_singleton, List.not_mem_nil, or_false] at hw
  rcases hw with rfl | rfl | rfl | rfl | rfl | rfl | rfl <;> decide

/-- the text by which the dispatcher selects: the token after a description, else the current token (a Name or `{`) -/
def SelData (t : Tok) (rest : List Tok) (d : Str) : Prop :=
  (t.kind = .stringValue ∧ ∃ t2, (sig rest).head? = some t2 ∧ t2.data = d) ∨
  (t.kind ≠ .stringValue ∧ (t.kind = .name ∨ t.kind = .lCurly) ∧ t.data = d)

/-- **the dispatcher of `document()` in the tree calculus**: an error-free run on the current token `t` either

    * selected a type-system definition or extension (`TsSel`): it consumed the tokens of ONE loose definition and
      appended ONE element, its tree (`TsR`), or
    * is a run of `fragmentDefinition` (selecting text `fragment`) or of `operationDefinition` (selecting text
      `query` / `mutation` / `subscription` / `{`) from a state `sP` with the same queue and the same tree builder
      (the look-ahead only fills the token buffer). -/
theorem documentDispatch_cases (n : Nat) (s s' : PState) (t : Tok) (rest : List Tok) (st : St s)
    (hc : s.current = some t) (ht : Toks s = t :: rest)
    (h : (documentDispatch n t.kind).run s = .ok () s') (hnd : ¬ Doomed s') :
    (∃ ks, TsSel t rest ks ∧ St s' ∧ TrRes NoE s s' (TsR ks)) ∨
    (∃ sP d, St sP ∧ Toks sP = Toks s ∧ sP.builder = s.builder ∧ SelData t rest d ∧
      ((d = "fragment".toList ∧ (fragmentDefinition n).run sP = .ok () s') ∨
       ((d = "query".toList ∨ d = "mutation".toList ∨ d = "subscription".toList ∨ d = "{".toList) ∧
         (operationDefinition n).run sP = .ok () s'))) := by
  have h0 := h
  unfold documentDispatch at h
  by_cases hk : (t.kind == .stringValue) = true
  · have hk' : t.kind = .stringValue := by simpa using hk
    simp only [hk, if_true] at h
    have h2 := peekDataN2_dec _ s s' () t rest st.w hc ht (by rw [hk']; rfl) h
    cases hq : (sig rest).head? with
    | none =>
      rw [hq] at h2
      exact absurd (errAndPop_never s s' st.w st.eof h2 hnd) id
    | some t2 =>
      rw [hq] at h2
      simp only [Option.map_some] at h2
      rcases selectDefinition_cases n t2.data s s' st.w st.eof h2 hnd with ⟨word, hw, hd⟩ | ⟨hd, hx⟩ | ⟨hd, hx⟩ | ⟨hd, hx⟩
      · have hsel : TsSel t rest [word] := .desc word hw hk' t2 hq hd
        exact Or.inl ⟨[word], hsel, tr_typeSystemDefinition n s s' t rest [word] st hc ht hsel h0 hnd⟩
      · exfalso
        rw [extensions_eq] at hx
        have h3 := peekDataN2_dec _ s s' () t rest st.w hc ht (by rw [hk']; rfl) hx
        rw [hq] at h3
        simp only [Option.map_some, hd] at h3
        obtain ⟨w2, hw2, e⟩ := extSel_cases n _ s s' st.w st.eof h3 hnd
        injection e with e
        exact extend_not_extWord w2 hw2 e
      · exact Or.inr ⟨s, t2.data, st, rfl, rfl, Or.inl ⟨hk', t2, hq, rfl⟩, Or.inl ⟨hd, hx⟩⟩
      · exact Or.inr ⟨s, t2.data, st, rfl, rfl, Or.inl ⟨hk', t2, hq, rfl⟩, Or.inr ⟨hd, hx⟩⟩
  · have hk' : t.kind ≠ .stringValue := by simpa using hk
    simp only [hk, Bool.false_eq_true, if_false] at h
    by_cases hk2 : (t.kind == .name || t.kind == .lCurly) = true
    · simp only [hk2, if_true] at h
      have hk2' : t.kind = .name ∨ t.kind = .lCurly := by simpa using hk2
      obtain ⟨sP, stP, htP, hcP, hbP, h2⟩ := peekData_match_st _ _ s s' t rest st ht h
      rcases selectDefinition_cases n t.data sP s' stP.w stP.eof h2 hnd with ⟨word, hw, hd⟩ | ⟨hd, hx⟩ | ⟨hd, hx⟩ | ⟨hd, hx⟩
      · have hsel : TsSel t rest [word] := .kw word hw hd
        exact Or.inl ⟨[word], hsel, tr_typeSystemDefinition n s s' t rest [word] st hc ht hsel h0 hnd⟩
      · obtain ⟨c, r, hc1, hc2⟩ := kwWord_extend
        have hkn : t.kind = .name := st.lq.1.headKw (by rw [ht]; rfl) "extend" c r hc1 hc2 hd
        rw [extensions_eq] at hx
        have h3 := peekDataN2_dec _ sP s' () t rest stP.w hcP (by rw [htP]; exact ht) (by rw [hkn]; rfl) hx
        obtain ⟨w2, hw2, e⟩ := extSel_cases n _ sP s' stP.w stP.eof h3 hnd
        cases hq : (sig rest).head? with
        | none => rw [hq] at e; cases e
        | some t2 =>
          rw [hq] at e
          simp only [Option.map_some, Option.some.injEq] at e
          have hsel : TsSel t rest ["extend", w2] := .ext w2 hw2 hd t2 hq e
          exact Or.inl ⟨_, hsel, tr_typeSystemDefinition n s s' t rest _ st hc ht hsel h0 hnd⟩
      · exact Or.inr ⟨sP, t.data, stP, htP, hbP, Or.inr ⟨hk', hk2', rfl⟩, Or.inl ⟨hd, hx⟩⟩
      · exact Or.inr ⟨sP, t.data, stP, htP, hbP, Or.inr ⟨hk', hk2', rfl⟩, Or.inr ⟨hd, hx⟩⟩
    · simp only [hk2, Bool.false_eq_true, if_false] at h
      exact absurd (errAndPop_never s s' st.w st.eof h hnd) id

end Apollo.Parse
