import ApolloModel.Proofs.ParserDef6
/-
C05 growth (type-system definitions), part 7: field definitions, fields / input fields definitions.
-/
set_option linter.unusedSimpArgs false
namespace Apollo.Parse
open Apollo.Rowan hiding Str
open Apollo.Lex hiding Str

theorem Acc.weakenE {α : Type} {E : PState → Prop} {H} {m : PI α} {R} (h : Acc (fun _ => False) H m R) : Acc E H m R := by
  refine ⟨h.1, ?_⟩
  intro s a s' w he hq hr hnd
  obtain ⟨cs, a1, a2, a3, a4⟩ := h.2 s a s' w he hq hr hnd
  refine ⟨cs, a1, a2, a3, ?_⟩
  rcases a4 with h4 | h4
  · exact Or.inl h4
  · exact absurd h4 id

/-- a node opened at an arbitrary position: ignored tokens in front are skipped first -/
theorem acc_withNodeAny {α : Type} {E : PState → Prop} (hE : Early E) {H : List Tok → Prop} (K : SK) {body : PI α}
    {R : α → List Ast.Tok → Prop} (h : Acc E (fun _ => True) body R) : Acc E H (withNode K body) R := by
  refine ⟨good_withNode K body h.1, ?_⟩
  intro s a s' w he _ hr hnd
  obtain ⟨s0, s2, o0, hr0, o2⟩ := withNode_dec K body s s' a hr
  obtain ⟨_, s1, hs, hb⟩ := bind_dec skipIgnored _ s0 s2 a hr0
  obtain ⟨ign, e, hall, _⟩ := skipIgnored_spec s0 s1 (o0.w w) hs
  have e01 : Eat s s1 ign := by simpa using (Eat.ofObsEq o0 w).trans e
  have he1 : EofEnd s1 := eofEnd_eat he e01 (noEof_ignored ign hall)
  have hnd2 : ¬ Doomed s2 := fun d => hnd (o2.doomed.mpr d)
  obtain ⟨cs, a1, a2, a3, a4⟩ := h.2 s1 a s2 e01.w he1 trivial hb hnd2
  refine ⟨ign ++ cs, by rw [e01.toks, a1, o2.toks, List.append_assoc], noEof_append (noEof_ignored ign hall) a2,
    eofEnd_same _ _ a3 o2.current o2.lx o2.errors, ?_⟩
  rcases a4 with ⟨x, hx, hr'⟩ | h4
  · exact Or.inl ⟨x, by rw [sig_append, sig_ignored ign hall]; simpa using hx, hr'⟩
  · exact Or.inr (hE.toks s2 s' o2.toks h4)

def peekNop : PI Unit := peek >>= fun _ => pure ()

theorem acc_peekNop {E : PState → Prop} {H : List Tok → Prop} : Acc E H peekNop (fun _ x => x = []) := by
  unfold peekNop
  apply acc_peek
  intro k
  exact (acc_pure E _ ()).mono (fun _ _ => trivial) (fun _ _ h => h.2)

def fdType (n : Nat) : PI Unit :=
  peek >>= fun k => if (k == some .name || k == some .lBracket) then (ty n >>= fun _ => optKind .at (directives n true) peekNop) else err
def fdColon (n : Nat) : PI Unit :=
  peek >>= fun k => if k == some .colon then (bump "COLON" >>= fun _ => fdType n) else err
def fdBody (n : Nat) : PI Unit :=
  optKind .stringValue description (name >>= fun _ => optKind .lParen (argumentsDefinition n) (fdColon n))

theorem fieldDefinition_eq (n : Nat) : fieldDefinition n = withNode "FIELD_DEFINITION" (fdBody n) := rfl

theorem acc_fieldDefinition {E : PState → Prop} (hE : Early E) (n : Nat) :
    Acc E (KindP isNameOrStringK) (fieldDefinition n) (fun _ x => ∃ f : Ast.FieldDef, x = Ast.tFieldDef f) := by
  rw [fieldDefinition_eq]
  refine acc_withNode hE _ (kindP_sig _ nameOrString_sig) ?_
  have hType : Acc E (fun _ => True) (fdType n) (fun _ x => ∃ t ds, x = Ast.tTy t ++ Ast.tDirectives ds) := by
    unfold fdType
    apply acc_peekIf
    · refine (acc_bind hE (acc_ty n) (fun _ => acc_optDirs hE n peekNop _ acc_peekNop)).mono (fun _ h => h) ?_
      rintro _ x ⟨_, x1, x2, e, ⟨t, ht⟩, ds, x3, e2, _, h3⟩
      exact ⟨t, ds, by rw [e, ht, e2, h3]; simp⟩
    · exact acc_err
  have hColon : Acc E (fun _ => True) (fdColon n) (fun _ x => ∃ t ds, x = .p .colon :: Ast.tTy t ++ Ast.tDirectives ds) := by
    unfold fdColon
    apply acc_ifKind
    · refine (acc_bind hE acc_colon (fun _ => hType)).mono (fun _ h => h) ?_
      rintro _ x ⟨_, x1, x2, e, h1, t, ds, h2⟩
      exact ⟨t, ds, by rw [e, h1, h2]; rfl⟩
    · exact acc_err
  have hArgs : Acc E (fun _ => True) (optKind .lParen (argumentsDefinition n) (fdColon n))
      (fun _ x => ∃ args t ds, x = Ast.tArgsDef args ++ .p .colon :: Ast.tTy t ++ Ast.tDirectives ds) := by
    refine (acc_optKind hE .lParen (argumentsDefinition n) (fdColon n) _ _ (acc_argumentsDefinition n).weakenE hColon).mono
      (fun _ h => h) ?_
    rintro _ x ⟨x1, x2, e, h1, t, ds, h2⟩
    rcases h1 with ⟨args, _, ha⟩ | h1
    · exact ⟨args, t, ds, by rw [e, ha, h2]; simp⟩
    · exact ⟨[], t, ds, by rw [e, h1, h2]; simp [Ast.tArgsDef]⟩
  have hName : Acc E (fun _ => True) (name >>= fun _ => optKind .lParen (argumentsDefinition n) (fdColon n))
      (fun _ x => ∃ nm args t ds, x = .name nm :: Ast.tArgsDef args ++ .p .colon :: Ast.tTy t ++ Ast.tDirectives ds) := by
    refine (acc_bind hE acc_name (fun _ => hArgs)).mono (fun _ h => h) ?_
    rintro _ x ⟨_, x1, x2, e, ⟨nm, h1⟩, args, t, ds, h2⟩
    exact ⟨nm, args, t, ds, by rw [e, h1, h2]; rfl⟩
  refine (acc_optDesc hE _ _ hName).mono (fun _ _ => trivial) ?_
  rintro _ x ⟨desc, x2, e, nm, args, t, ds, h2⟩
  exact ⟨⟨desc, nm, args, t, ds⟩, by rw [e, h2]; simp [Ast.tFieldDef, List.append_assoc]⟩

theorem lCurly_sig : ∀ k : Kind, (k == Kind.lCurly) = true → isIgnoredKind k = false := by
  intro k hk; have : k = .lCurly := by simpa using hk
  subst this; rfl

theorem fieldsDefinition_eq (n : Nat) : fieldsDefinition n = withNode "FIELDS_DEFINITION"
    (bracedBody "L_CURLY" isNameOrString isNameOrStringK (fieldDefinition n) .rCurly "R_CURLY") := rfl

/-- `{ FieldDefinition+ }` -/
theorem acc_fieldsDefinition (n : Nat) :
    Acc (fun _ => False) (KindP (· == .lCurly)) (fieldsDefinition n)
      (fun _ x => ∃ fs : List Ast.FieldDef, fs ≠ [] ∧ x = Ast.tBraced (Ast.tFieldDefItems fs) fs.isEmpty) := by
  rw [fieldsDefinition_eq]
  refine acc_withNode early_false _ (kindP_sig _ lCurly_sig) ?_
  refine (acc_braced .lCurly "L_CURLY" (.p .lCurly) .rCurly "R_CURLY" (.p .rCurly) isNameOrString isNameOrStringK
    (fieldDefinition n) (fun x => ∃ f : Ast.FieldDef, x = Ast.tFieldDef f)
    (by intro t ht; simp [astOfV, ht]) rfl (by decide) (by intro t ht; simp [astOfV, ht]) rfl (by decide)
    isNameOrString_first (acc_fieldDefinition early_atEof n)).mono (fun _ h => h) ?_
  rintro _ x ⟨items, hne, e, hall⟩
  obtain ⟨vs, hvs, hl⟩ := flatten_items _ Ast.tFieldDef Ast.tFieldDefItems rfl (fun _ _ => rfl) (fun _ h => h) items hall
  have hvne : vs ≠ [] := by
    intro h0; rw [h0] at hl; exact hne (List.eq_nil_of_length_eq_zero hl.symm)
  refine ⟨vs, hvne, ?_⟩
  have : vs.isEmpty = false := by cases vs with | nil => exact absurd rfl hvne | cons _ _ => rfl
  rw [e, hvs]; simp [Ast.tBraced, this]

theorem inputFieldsDefinition_eq (n : Nat) : inputFieldsDefinition n = withNode "INPUT_FIELDS_DEFINITION"
    (bracedBody "L_CURLY" isNameOrString isNameOrStringK (inputValueDefinition n) .rCurly "R_CURLY") := rfl

/-- `{ InputValueDefinition+ }` -/
theorem acc_inputFieldsDefinition (n : Nat) :
    Acc (fun _ => False) (KindP (· == .lCurly)) (inputFieldsDefinition n)
      (fun _ x => ∃ fs : List Ast.InputValueDef, fs ≠ [] ∧ x = Ast.tBraced (Ast.tIVDItems fs) fs.isEmpty) := by
  rw [inputFieldsDefinition_eq]
  refine acc_withNode early_false _ (kindP_sig _ lCurly_sig) ?_
  refine (acc_braced .lCurly "L_CURLY" (.p .lCurly) .rCurly "R_CURLY" (.p .rCurly) isNameOrString isNameOrStringK
    (inputValueDefinition n) (fun x => ∃ v : Ast.InputValueDef, x = Ast.tIVD v)
    (by intro t ht; simp [astOfV, ht]) rfl (by decide) (by intro t ht; simp [astOfV, ht]) rfl (by decide)
    isNameOrString_first (acc_ivd n)).mono (fun _ h => h) ?_
  rintro _ x ⟨items, hne, e, hall⟩
  obtain ⟨vs, hvs, hl⟩ := flatten_items _ Ast.tIVD Ast.tIVDItems rfl (fun _ _ => rfl) (fun _ h => h) items hall
  have hvne : vs ≠ [] := by
    intro h0; rw [h0] at hl; exact hne (List.eq_nil_of_length_eq_zero hl.symm)
  refine ⟨vs, hvne, ?_⟩
  have : vs.isEmpty = false := by cases vs with | nil => exact absurd rfl hvne | cons _ _ => rfl
  rw [e, hvs]; simp [Ast.tBraced, this]

end Apollo.Parse
