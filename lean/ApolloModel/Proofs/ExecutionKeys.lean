import ApolloModel.Proofs.ExecutionNull
/-
C26 growth: response shape.  Every object of `data` is built by one `execute_selection_set` call for the
runtime object type at that position; its keys are, in order, response keys of CollectFields for that type —
those whose field produced a value (a field resolved to `skip`, or unknown to the schema, leaves no key).
-/
namespace Apollo.Exec
open Apollo

theorem keys_insert_fresh : ∀ (m : AList Json) (k : String) (v : Json), AList.get? m k = none →
    AList.keys (AList.insert m k v) = AList.keys m ++ [k] := by
  intro m
  induction m with
  | nil => intro k v _; simp [AList.insert, AList.keys]
  | cons e rest ih =>
    intro k v h
    obtain ⟨k', v'⟩ := e
    simp only [AList.get?] at h
    split at h
    · cases h
    · next hne =>
      simp only [AList.insert, hne, if_false]
      have := ih k v h
      simp only [AList.keys, List.map_cons, List.cons_append] at this ⊢
      rw [this]

/-- the keys of the built map: the accumulator's keys, then — in the order of the grouped field set — the
    response keys whose field produced a value -/
theorem execGroups_keys (rec : Rec) (env : Env) (path : Path) (objTy : String) (objId : Nat) :
    ∀ groups acc st m st', (keysOf groups).Nodup → (∀ k, k ∈ keysOf groups → AList.get? acc k = none) →
      execGroups rec env path objTy objId groups acc st = (.ok m, st') →
      ∃ ks, AList.keys m = AList.keys acc ++ ks ∧ ks.Sublist (keysOf groups) := by
  intro groups
  induction groups with
  | nil =>
    intro acc st m st' _ _ h
    simp only [execGroups, Prod.mk.injEq, Except.ok.injEq] at h
    exact ⟨[], by rw [← h.1]; simp, List.Sublist.refl _⟩
  | cons gr rest ih =>
    intro acc st m st' hnd hfresh h
    obtain ⟨key, fields⟩ := gr
    simp only [keysOf, List.map_cons, List.nodup_cons] at hnd
    have hfresh_rest : ∀ k, k ∈ keysOf rest → AList.get? acc k = none :=
      fun k hk => hfresh k (by simp [keysOf] at hk ⊢; exact Or.inr hk)
    have skip : ∀ st1, execGroups rec env path objTy objId rest acc st1 = (.ok m, st') →
        ∃ ks, AList.keys m = AList.keys acc ++ ks ∧ ks.Sublist (keysOf ((key, fields) :: rest)) := by
      intro st1 h1
      obtain ⟨ks, h2, h3⟩ := ih acc st1 m st' hnd.2 hfresh_rest h1
      exact ⟨ks, h2, List.Sublist.cons _ h3⟩
    simp only [execGroups] at h
    split at h
    · exact skip st h
    · next f0 tl =>
      split at h
      · exact skip st h
      · next fdef _ =>
        generalize execField rec env (path ++ [.key key]) objTy objId fdef (f0 :: tl) st = res at h
        obtain ⟨r, st1⟩ := res
        cases r with
        | error e => simp at h
        | ok o =>
          cases o with
          | none => exact skip st1 h
          | some v =>
            have hkey_fresh : AList.get? acc key = none := hfresh key (by simp [keysOf])
            obtain ⟨ks, h2, h3⟩ := ih (AList.insert acc key v) st1 m st' hnd.2 (by
              intro k hk
              have hne : k ≠ key := fun e => hnd.1 (e ▸ hk)
              rw [get_insert_other acc key k v hne]
              exact hfresh_rest k hk) h
            refine ⟨key :: ks, ?_, List.Sublist.cons₂ _ h3⟩
            rw [h2, keys_insert_fresh acc key v hkey_fresh]
            simp

/-- one `execute_selection_set`: keys of the result = response keys of CollectFields (those with a value), in order -/
theorem execSelSet_keys (rec : Rec) (env : Env) (path : Path) (objTy : String) (objId : Nat) (sels : List Sel) (st : St)
    (m : AList Json) (st' : St) (h : execSelSet rec env path objTy objId sels st = (.ok m, st')) :
    ∃ v g, collectFields env objTy env.cfuel sels [] [] = some (v, g) ∧ (AList.keys m).Sublist (keysOf g) := by
  unfold execSelSet at h
  split at h
  · simp at h
  · next v g hc =>
    have hnd := collect_keys_nodup env objTy env.cfuel sels [] [] v g hc (by simp [keysOf])
    obtain ⟨ks, h1, h2⟩ := execGroups_keys rec env path objTy objId g [] st m st' hnd (by intro k _; rfl) h
    refine ⟨v, g, hc, ?_⟩
    rw [h1]
    simpa [AList.keys] using h2

/-- every object in `data`, at any depth: a completed object value has the response keys of CollectFields for
    its RUNTIME type over the merged sub-selections of the fields it answers -/
theorem completeValue_object_keys (env : Env) (n : Nat) (path : Path) (ty : Ty) (resolvedTy : String) (id : Nat)
    (fields : List Sel) (st : St) (m : AList Json) (st' : St)
    (h : completeValue env (n + 1) path ty (.object resolvedTy id) fields st = (.ok (some (.obj m)), st')) :
    ∃ v g, collectFields env resolvedTy env.cfuel (subSelections fields) [] [] = some (v, g) ∧
      (AList.keys m).Sublist (keysOf g) := by
  simp only [completeValue] at h
  split at h
  · simp at h
  · split at h
    · simp at h
    · simp at h
    · split at h
      · generalize hres : execSelSet (completeValue env n) env path resolvedTy id (subSelections fields) st = res at h
        obtain ⟨r, st1⟩ := res
        cases r with
        | ok m' =>
          simp only [Prod.mk.injEq, Except.ok.injEq, Option.some.injEq, Json.obj.injEq] at h
          obtain ⟨rfl, _⟩ := h
          exact execSelSet_keys _ env path resolvedTy id _ st m' st1 hres
        | error e => simp at h
      · simp at h

/-- the root object of `data` -/
theorem execute_root_keys (fuel : Nat) (env : Env) (sels : List Sel) (r : Response) (m : AList Json)
    (h : execute fuel env sels = .response r) (hd : r.data = some m) :
    ∃ v g, collectFields env env.schema.query env.cfuel sels [] [] = some (v, g) ∧ (AList.keys m).Sublist (keysOf g) := by
  unfold execute at h
  generalize hres : execSelSet (completeValue env fuel) env [] env.schema.query 0 sels { errors := [] } = res at h
  obtain ⟨x, st1⟩ := res
  cases x with
  | ok m' =>
    simp only [Outcome.response.injEq] at h
    subst h
    simp only [Option.some.injEq] at hd
    subst hd
    exact execSelSet_keys _ env [] env.schema.query 0 sels _ m' st1 hres
  | error e =>
    cases e with
    | propagate => simp only [Outcome.response.injEq] at h; subst h; simp at hd
    | fuel => cases h

end Apollo.Exec
