import ApolloModel.Proofs.ParserSel1
/-
C07 / C05 growth (selection sets), part 2: two-token look-ahead in terms of the queue; the small
productions (named type, alias, fragment name, type condition, fragment spread).
-/
set_option linter.unusedSimpArgs false
namespace Apollo.Parse
open Apollo.Rowan hiding Str
open Apollo.Lex hiding Str

/-! ### `peek_n(2)` sees the next significant token behind the current one -/

theorem aheadLoop_one : ∀ (fuel : Nat) (l : LexSt), l.limit = none → l.src.length + 2 ≤ fuel →
    aheadLoop fuel l 1 = (sig (toksOf (stream l))).head? := by
  intro fuel
  induction fuel with
  | zero => intro l _ h; omega
  | succ fuel ih =>
    intro l hl hf
    have hu := stream_unfold l hl
    unfold aheadLoop
    rcases lexNext_cases l hl with ⟨_, h⟩ | ⟨_, _, l', h, hfin, _, _⟩ | ⟨_, o, l', h, hlen, _, hl', _⟩
    · rw [h] at hu; simp only [h]; rw [hu]; rfl
    · rw [h] at hu
      simp only [] at hu
      have : stream l' = [] := by unfold stream; exact pull_finished _ _ hfin
      rw [hu, this]
      simp only [h]
      rfl
    · rw [h] at hu
      simp only [] at hu
      simp only [h]
      rw [hu]
      cases o with
      | tok t =>
        simp only []
        by_cases hi : (t.kind == .whitespace || t.kind == .comment || t.kind == .comma) = true
        · simp only [hi, if_true]
          rw [ih l' hl' (by omega)]
          have hig : isIgnoredKind t.kind = true := by
            simp only [isIgnoredKind]
            simp only [Bool.or_eq_true] at hi ⊢
            rcases hi with (h1 | h1) | h1
            · exact Or.inl (Or.inr h1)
            · exact Or.inl (Or.inl h1)
            · exact Or.inr h1
          simp [toksOf, outTok, sig, hig]
        · simp only [hi, Bool.false_eq_true, if_false, Nat.le_refl, if_true]
          have hig : isIgnoredKind t.kind = false := by
            simp only [isIgnoredKind]
            simp only [Bool.or_eq_true, not_or] at hi
            simp [hi.1.1, hi.1.2, hi.2]
          simp [toksOf, outTok, sig, hig]
      | err d i =>
        simp only []
        rw [ih l' hl' (by omega)]
        simp [toksOf, outTok, List.filterMap_cons]
      | limit i =>
        simp only []
        rw [ih l' hl' (by omega)]
        simp [toksOf, outTok, List.filterMap_cons]

/-- with a significant current token, `peek_n(2)` is the first significant token of the rest of the queue -/
theorem peekN2_spec (s s' : PState) (k : Option Kind) (t : Tok) (rest : List Tok) (w : TW s)
    (hc : s.current = some t) (ht : Toks s = t :: rest) (hni : isIgnoredKind t.kind = false)
    (h : (peekN 2).run s = .ok k s') : s' = s ∧ k = ((sig rest).head?).map (·.kind) := by
  obtain ⟨o, s1, h1, h2⟩ := bind_dec (peekTokenN 2) _ s s' k h
  unfold peekTokenN at h1
  simp only [] at h1
  injection h1 with h1 h1'
  subst h1'
  rw [run_pure] at h2
  injection h2 with h2 h3
  subst h3
  refine ⟨rfl, ?_⟩
  rw [← h2, ← h1]
  have hrest : rest = toksOf (stream s.lx) := by
    unfold Toks at ht
    rw [hc] at ht
    simp only [Option.toList, List.cons_append, List.nil_append, List.cons.injEq, true_and] at ht
    exact ht.symm
  unfold lookahead
  rw [hc]
  have hnk : (t.kind == .whitespace || t.kind == .comment || t.kind == .comma) = false := by
    simp only [isIgnoredKind] at hni
    cases hk : t.kind <;> simp [hk] at hni ⊢
  simp only [hnk, Bool.false_eq_true, if_false]
  have : ¬ (2 ≤ 1) := by omega
  simp only [this, if_false]
  show Option.map _ (aheadLoop _ s.lx 1) = _
  rw [aheadLoop_one _ s.lx w.limit (by omega), hrest]

end Apollo.Parse

namespace Apollo.Parse
open Apollo.Rowan hiding Str
open Apollo.Lex hiding Str

/-! ### helpers -/

theorem ifPeek_dec {α : Type} (k : Kind) (A B : PI α) (s s' : PState) (a : α) (w : TW s)
    (h : (peek >>= fun x => if x == some k then A else B).run s = .ok a s') :
    ∃ sP o, PeekObs s sP o ∧ ((o.map (·.kind) = some k ∧ A.run sP = .ok a s') ∨ (o.map (·.kind) ≠ some k ∧ B.run sP = .ok a s')) := by
  obtain ⟨ko, sP, hp, h2⟩ := bind_dec peek _ s s' a h
  obtain ⟨o, p, hko⟩ := peek_obs s sP ko w hp
  subst hko
  refine ⟨sP, o, p, ?_⟩
  by_cases hc : (o.map (·.kind) == some k) = true
  · simp only [hc, if_true] at h2
    exact Or.inl ⟨by simpa using hc, h2⟩
  · simp only [hc, Bool.false_eq_true, if_false] at h2
    exact Or.inr ⟨by simpa using hc, h2⟩

theorem PeekObs.eofEnd {s s' : PState} {o : Option Tok} (p : PeekObs s s' o) (he : EofEnd s) : EofEnd s' :=
  eofEnd_eat he p.eat (by intro x hx; cases hx)

theorem PeekObs.head_cons {s s' : PState} {t : Tok} (p : PeekObs s s' (some t)) : Toks s' = t :: (Toks s').tail := by
  have := p.head; rw [← p.toks] at this; exact toks_head_cons s' t this.symm

theorem settled_obs {s s' : PState} (o : ObsEq s s') (h : Settled s) : Settled s' := by
  unfold Settled at *
  rw [o.current, o.toks]; exact h

theorem settled_sig_head (s : PState) (h : Settled s) : (sig (Toks s)).head? = (Toks s).head? := by
  cases hq : Toks s with
  | nil => rfl
  | cons hd tl =>
    have hc := h.1
    rw [hq] at hc
    have := h.2 hd hc
    simp [sig, this]

theorem tokIs_name (t : Tok) (ign : List Tok) (hk : t.kind = .name) (hall : ∀ x ∈ ign, isIgnoredKind x.kind = true) :
    TokIs (sig (t :: ign)) [.name t.data] := by
  rw [sig_cons_ignV t ign (by rw [hk]; rfl) hall]
  exact TokIs.single t _ (by simp [astOfV, hk])

theorem tokIs_punct (t : Tok) (ign : List Tok) (p : Ast.P) (hni : isIgnoredKind t.kind = false)
    (ha : astOfV t = some (.p p)) (hall : ∀ x ∈ ign, isIgnoredKind x.kind = true) :
    TokIs (sig (t :: ign)) [.p p] := by
  rw [sig_cons_ignV t ign hni hall]
  exact TokIs.single t _ ha

/-- `name` on a queue that starts with a Name token: consumed, and the state is settled -/
theorem name_settled (s s' : PState) (t : Tok) (rest : List Tok) (w : TW s) (ht : Toks s = t :: rest) (hk : t.kind = .name)
    (h : name.run s = .ok () s') :
    ∃ ign, Eat s s' (t :: ign) ∧ (∀ x ∈ ign, isIgnoredKind x.kind = true) ∧ Settled s' := by
  unfold name at h
  obtain ⟨o, s1, h1, h2⟩ := bind_dec peekToken _ s s' () h
  have p := peekToken_obs s s1 o w h1
  have ho : o = some t := by rw [p.head, ht]; rfl
  subst ho
  simp only [hk, beq_self_eq_true, if_true] at h2
  have ht1 : Toks s1 = t :: rest := by rw [p.toks]; exact ht
  obtain ⟨s2, s3, e2, h3, o3⟩ := withNode_peeked "NAME" (bump "IDENT") s1 s' () t rest p.w ht1 (by rw [hk]; rfl) h2
  have ht2 : Toks s2 = t :: rest := by have := e2.toks; rw [ht1] at this; simpa using this.symm
  obtain ⟨ign, e3, hall, hset⟩ := bump_spec "IDENT" s2 s3 e2.w t rest ht2 h3
  exact ⟨ign, by simpa using ((p.eat.trans e2).trans e3).trans (Eat.ofObsEq o3 e3.w), hall, settled_obs o3 hset⟩

/-- one Name token consumed -/
@[reducible] def IsNameTok (t : Tok) : List Ast.Tok → Prop := fun x => x = [.name t.data]

theorem cons_of_name {s s' : PState} {t : Tok} {ign : List Tok} (e : Eat s s' (t :: ign)) (he : EofEnd s) (hk : t.kind = .name)
    (hall : ∀ x ∈ ign, isIgnoredKind x.kind = true) : Cons s s' (IsNameTok t) :=
  Cons.ofEat e he (noEof_cons (by rw [hk]; decide) hall) (tokIs_name t ign hk hall)

/-- `named_type` behind a `peek == Name` check -/
theorem namedType_sound (s s' : PState) (t : Tok) (rest : List Tok) (w : TW s) (he : EofEnd s)
    (ht : Toks s = t :: rest) (hk : t.kind = .name) (h : namedType.run s = .ok () s') : Cons s s' (IsNameTok t) := by
  unfold namedType at h
  obtain ⟨sP, o, p, hor⟩ := ifPeek_dec .name _ _ s s' () w h
  have ho : o = some t := by rw [p.head, ht]; rfl
  subst ho
  rcases hor with ⟨_, h2⟩ | ⟨hne, _⟩
  · have htP : Toks sP = t :: rest := by rw [p.toks]; exact ht
    obtain ⟨s1, s2, e1, h3, o2⟩ := withNode_peeked "NAMED_TYPE" name sP s' () t rest p.w htP (by rw [hk]; rfl) h2
    have ht1 : Toks s1 = t :: rest := by have := e1.toks; rw [htP] at this; simpa using this.symm
    obtain ⟨ign, e3, hall, _⟩ := name_settled s1 s2 t rest e1.w ht1 hk h3
    have : Eat s s' (t :: ign) := by simpa using ((p.eat.trans e1).trans e3).trans (Eat.ofObsEq o2 e3.w)
    exact cons_of_name this he hk hall
  · exact absurd (by simp [hk]) hne

end Apollo.Parse
