import ApolloModel.Proofs.Standalone
/-
Property C20, second clause: which diagnostic kinds a standalone run of the model can produce.
-/
namespace Apollo.Standalone

/-- what a run without a schema may report: a universal class, `UndefinedDirective` when the code reports it
    without a schema, or the model's own out-of-fuel marker -/
def Allowed (p : Params) (d : Diag) : Prop :=
  d.universal = true ∨ (d = .undefinedDirective ∧ p.undefinedDirectiveWithoutSchema = true) ∨ d = .outOfFuel

theorem uniqueArgs_mem (seen : List Name) (as : List Arg) : ∀ d ∈ uniqueArgs seen as, d = .uniqueArgument := by
  induction as generalizing seen with
  | nil => simp [uniqueArgs]
  | cons a as ih =>
    intro d hd
    simp only [uniqueArgs] at hd
    split at hd
    · simp only [List.mem_cons] at hd
      rcases hd with hd | hd
      · exact hd
      · exact ih _ d hd
    · exact ih _ d hd

theorem dirDiagsAux_none_mem (p : Params) (loc : Loc) (ds : List Dir) (seen : List Name) :
    ∀ d ∈ dirDiagsAux p none loc seen ds, Allowed p d := by
  induction ds generalizing seen with
  | nil => simp [dirDiagsAux]
  | cons x ds ih =>
    intro d hd
    simp only [dirDiagsAux, Option.bind_none, Option.map_none, Option.getD_none, ↓reduceIte, ite_self,
      List.append_nil, Option.isSome_none, Bool.false_or, List.mem_append] at hd
    rcases hd with (hd | hd) | hd
    · exact .inl (by rw [uniqueArgs_mem _ _ d hd]; rfl)
    · split at hd
      · next hf => simp only [List.mem_singleton] at hd; exact .inr (.inl ⟨hd, hf⟩)
      · simp at hd
    · exact ih _ d hd

theorem dirDiags_none_mem (p : Params) (loc : Loc) (ds : List Dir) :
    ∀ d ∈ dirDiags p none loc ds, Allowed p d := dirDiagsAux_none_mem p loc ds []

theorem varDefDiags_none_mem (p : Params) (vs : List VarDef) (seen : List Name) :
    ∀ d ∈ varDefDiags p none seen vs, Allowed p d := by
  induction vs generalizing seen with
  | nil => simp [varDefDiags]
  | cons v vs ih =>
    intro d hd
    simp only [varDefDiags, List.append_nil, List.mem_append] at hd
    rcases hd with (hd | hd) | hd
    · exact dirDiags_none_mem p _ _ d hd
    · split at hd
      · simp only [List.mem_singleton] at hd; exact .inl (by rw [hd]; rfl)
      · simp at hd
    · exact ih _ d hd

theorem walkSels_none_mem (p : Params) (doc : BuiltDoc) (e : Frag → List Name → List Diag × List Name)
    (he : ∀ f V, ∀ d ∈ (e f V).1, Allowed p d) (t : Sels) :
    ∀ (ty : Option Name) (V : List Name), ∀ d ∈ (walkSels p none doc e ty t V).1, Allowed p d := by
  induction t with
  | nil => intro ty V d hd; simp [walkSels] at hd
  | field name dirs args sub rest ihs ihr =>
    intro ty V d hd
    simp only [walkSels, List.mem_append] at hd
    rcases hd with ((hd | hd) | hd) | hd
    · exact dirDiags_none_mem p _ _ d hd
    · exact .inl (by rw [uniqueArgs_mem _ _ d hd]; rfl)
    · exact ihs _ _ d hd
    · exact ihr _ _ d hd
  | spread f dirs rest ihr =>
    intro ty V d hd
    simp only [walkSels, List.mem_append] at hd
    rcases hd with (hd | hd) | hd
    · exact dirDiags_none_mem p _ _ d hd
    · split at hd
      · split at hd
        · simp at hd
        · exact he _ _ d hd
      · simp only [List.mem_singleton] at hd; exact .inl (by rw [hd]; rfl)
    · exact ihr _ _ d hd
  | inline tc dirs sub rest ihs ihr =>
    intro ty V d hd
    cases tc <;>
    · simp only [walkSels, List.isEmpty_nil, ↓reduceIte, List.append_nil, List.mem_append] at hd
      rcases hd with (hd | hd) | hd
      · exact dirDiags_none_mem p _ _ d hd
      · exact ihs _ _ d hd
      · exact ihr _ _ d hd

theorem enterFrag_none_mem (p : Params) (doc : BuiltDoc) (n : Nat) :
    ∀ f V, ∀ d ∈ (enterFrag p none doc n f V).1, Allowed p d := by
  induction n with
  | zero => intro f V d hd; simp only [enterFrag, List.mem_singleton] at hd; exact .inr (.inr hd)
  | succ n ih =>
    intro f V d hd
    simp only [enterFrag, List.isEmpty_nil, Bool.true_and, List.append_nil] at hd
    split at hd
    · simp only [List.isEmpty_cons, Bool.false_eq_true, ↓reduceIte, List.mem_append, List.mem_singleton] at hd
      rcases hd with hd | hd
      · exact dirDiags_none_mem p _ _ d hd
      · exact .inl (by rw [hd]; rfl)
    · simp only [List.isEmpty_nil, ↓reduceIte, List.mem_append] at hd
      rcases hd with hd | hd
      · exact dirDiags_none_mem p _ _ d hd
      · exact walkSels_none_mem p doc _ ih _ _ _ d hd

theorem validateOp_none_mem (p : Params) (doc : BuiltDoc) (o : Op) :
    ∀ d ∈ validateOp p none doc o, Allowed p d := by
  intro d hd
  simp only [validateOp, List.mem_append] at hd
  rcases hd with ((hd | hd) | hd) | hd
  · exact dirDiags_none_mem p _ _ d hd
  · exact varDefDiags_none_mem p _ _ d hd
  · simp only [unusedVarDiags, List.mem_map] at hd
    obtain ⟨_, _, hd⟩ := hd
    exact .inl (by rw [← hd]; rfl)
  · exact walkSels_none_mem p doc _ (enterFrag_none_mem p doc _) _ _ _ d hd

theorem validateBuilt_none_mem (p : Params) (doc : BuiltDoc) :
    ∀ d ∈ validateBuilt p none doc, Allowed p d := by
  intro d hd
  simp only [validateBuilt, List.mem_append, List.mem_flatMap, List.mem_map] at hd
  rcases hd with (⟨o, _, hd⟩ | hd) | ⟨n, _, hd⟩
  · exact validateOp_none_mem p doc o d hd
  · simp only [fragmentsUsed, List.mem_map] at hd
    obtain ⟨_, _, hd⟩ := hd
    exact .inl (by rw [← hd]; rfl)
  · exact .inl (by rw [← hd]; rfl)

theorem buildDef_none_mem (st : BuildState) (x : Def) (h : ∀ d ∈ st.diags, d.universal = true) :
    ∀ d ∈ (buildDef none st x).diags, d.universal = true := by
  intro d hd
  unfold buildDef at hd
  simp only [buildOp_none, buildSels_none] at hd
  repeat' split at hd
  all_goals simp only [List.mem_append, List.mem_singleton, List.append_nil] at hd
  all_goals first
    | exact h d hd
    | (rcases hd with hd | hd
       · exact h d hd
       · first | (rw [hd]; rfl) | (rcases hd with hd | hd <;> (rw [hd]; rfl)))
    | (rcases hd with (hd | hd) | hd
       · exact h d hd
       · first | (rw [hd]; rfl) | simp at hd
       · first | (rw [hd]; rfl) | simp at hd)

theorem build_none_mem (ast : Ast) : ∀ d ∈ (build none ast).diags, d.universal = true := by
  unfold build
  suffices ∀ (st : BuildState), (∀ d ∈ st.diags, d.universal = true) →
      ∀ d ∈ (ast.foldl (buildDef none) st).diags, d.universal = true from
    this {} (by intro d hd; simp at hd)
  induction ast with
  | nil => intro st h; simpa using h
  | cons x ast ih => intro st h; exact ih _ (buildDef_none_mem st x h)

theorem validate_none_mem (p : Params) (ast : Ast) : ∀ d ∈ validate p none ast, Allowed p d := by
  intro d hd
  simp only [validate, List.append_nil, List.mem_append] at hd
  rcases hd with hd | hd
  · exact .inl (build_none_mem ast d hd)
  · exact validateBuilt_none_mem p _ d hd

end Apollo.Standalone
