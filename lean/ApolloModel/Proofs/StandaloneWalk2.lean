import ApolloModel.Proofs.StandaloneWalk
/-
C17, document level, the rules of the validation walk, part 2: every diagnostic of the walk of one operation is one
of a reachable site (soundness), every diagnostic of every reachable site is reported (completeness — no hypothesis
on the document; the fuel of `enterFrag`, the number of fragment definitions, never runs out: pigeonhole on
`validated_fragments`).
-/
set_option linter.unusedSimpArgs false
set_option linter.unusedVariables false
namespace Apollo.Standalone.Walk
open Apollo Apollo.Standalone

/-- the body of the fragment definition is walked -/
def fragGuard (sc : Schema) (doc : BuiltDoc) (f : Frag) : Bool := (fragTcd sc f).isEmpty && (fragCyc doc f).isEmpty

theorem enterFrag_succ_eq (p : Params) (sc : Schema) (doc : BuiltDoc) (n : Nat) (f : Frag) (V : List Name) :
    enterFrag p (some sc) doc (n + 1) f V =
      if fragGuard sc doc f then
        (dirDiags p (some sc) .fragmentDefinition f.dirs ++
            (walkSels p (some sc) doc (enterFrag p (some sc) doc n) (fragTy (some sc) f) f.sels V).1,
          (walkSels p (some sc) doc (enterFrag p (some sc) doc n) (fragTy (some sc) f) f.sels V).2)
      else (dirDiags p (some sc) .fragmentDefinition f.dirs ++ fragTcd sc f ++ fragCyc doc f, V) := by
  simp only [enterFrag, fragGuard, fragTcd, fragCyc]
  rfl

/-- the sites reachable from a selection set of type `ty`: its own and, through every spread the walk meets, the
    fragment definition and — when its type condition is composite and it is not on a cycle — what its body reaches -/
inductive Reaches (sc : Schema) (doc : BuiltDoc) : Option Name → Sels → Site → Prop
  | here {ty t site} : site ∈ localSites sc ty t → Reaches sc doc ty t site
  | fragDef {ty t f fr} : f ∈ localSpreads sc ty t → doc.findFrag f = some fr → Reaches sc doc ty t (.fragDef fr)
  | frag {ty t f fr site} : f ∈ localSpreads sc ty t → doc.findFrag f = some fr → fragGuard sc doc fr = true →
      Reaches sc doc (fragTy (some sc) fr) fr.sels site → Reaches sc doc ty t site

theorem enterFrag_diag_origin (p : Params) (sc : Schema) (doc : BuiltDoc) :
    ∀ (n : Nat) (fr : Frag) (W : List Name) (d : Diag), d ∈ (enterFrag p (some sc) doc n fr W).1 →
      d = .outOfFuel ∨ d ∈ (Site.fragDef fr).diags p sc doc ∨
        (fragGuard sc doc fr = true ∧ ∃ site, Reaches sc doc (fragTy (some sc) fr) fr.sels site ∧ d ∈ site.diags p sc doc) := by
  intro n
  induction n with
  | zero => intro fr W d h; simp [enterFrag] at h; exact .inl h
  | succ n ih =>
    intro fr W d h
    rw [enterFrag_succ_eq] at h
    by_cases hg : fragGuard sc doc fr = true
    · simp only [hg, if_true, List.mem_append] at h
      rcases h with h | h
      · exact .inr (.inl (by simp [Site.diags, h]))
      · rcases walk_diag_origin p sc doc _ fr.sels _ W d h with ⟨site, hs, hd⟩ | ⟨f, hf, fr', W', hfr, hd⟩
        · exact .inr (.inr ⟨hg, site, .here hs, hd⟩)
        · rcases ih fr' W' d hd with h1 | h1 | ⟨h1, site, hr, hd'⟩
          · exact .inl h1
          · exact .inr (.inr ⟨hg, .fragDef fr', .fragDef hf hfr, h1⟩)
          · exact .inr (.inr ⟨hg, site, .frag hf hfr h1 hr, hd'⟩)
    · simp only [hg, Bool.false_eq_true, if_false] at h
      exact .inr (.inl h)

/-- SOUNDNESS: every diagnostic of the walk is one of a reachable site (or `outOfFuel`, see `walk_fuel_suffices`) -/
theorem walk_diag_reaches (p : Params) (sc : Schema) (doc : BuiltDoc) (n : Nat) (ty : Option Name) (t : Sels)
    (V : List Name) (d : Diag) (h : d ∈ (walkSels p (some sc) doc (enterFrag p (some sc) doc n) ty t V).1) :
    d = .outOfFuel ∨ ∃ site, Reaches sc doc ty t site ∧ d ∈ site.diags p sc doc := by
  rcases walk_diag_origin p sc doc _ t ty V d h with ⟨site, hs, hd⟩ | ⟨f, hf, fr', W', hfr, hd⟩
  · exact .inr ⟨site, .here hs, hd⟩
  · rcases enterFrag_diag_origin p sc doc n fr' W' d hd with h1 | h1 | ⟨h1, site, hr, hd'⟩
    · exact .inl h1
    · exact .inr ⟨.fragDef fr', .fragDef hf hfr, h1⟩
    · exact .inr ⟨site, .frag hf hfr h1 hr, hd'⟩

/-! ### completeness -/

def allDefined (doc : BuiltDoc) (W : List Name) : Prop := ∀ x ∈ W, (doc.findFrag x).isSome

theorem marked_le_frags (doc : BuiltDoc) (W : List Name) (hn : W.Nodup) (hd : allDefined doc W) : W.length ≤ doc.frags.length := by
  have hsub : ∀ x ∈ W, x ∈ doc.frags.map (·.name) := by
    intro x hx
    have := hd x hx
    cases hf : doc.findFrag x with
    | none => rw [hf] at this; cases this
    | some d =>
      unfold BuiltDoc.findFrag at hf
      refine List.mem_map.mpr ⟨d, List.mem_of_find?_eq_some hf, ?_⟩
      simpa using List.find?_some hf
  have := List.Nodup.length_le_of_subset hn hsub
  simpa using this

variable (Q : Diag → Prop)

def FragQ (p : Params) (sc : Schema) (doc : BuiltDoc) (W : List Name) (fr : Frag) : Prop :=
  (∀ d ∈ (Site.fragDef fr).diags p sc doc, Q d) ∧
    (fragGuard sc doc fr = true →
      (∀ site ∈ localSites sc (fragTy (some sc) fr) fr.sels, ∀ d ∈ site.diags p sc doc, Q d) ∧
        ∀ h ∈ localSpreads sc (fragTy (some sc) fr) fr.sels, (doc.findFrag h).isSome → h ∈ W)

def DoneQ (p : Params) (sc : Schema) (doc : BuiltDoc) (W : List Name) (g : Name) : Prop :=
  ∃ fr, doc.findFrag g = some fr ∧ FragQ Q p sc doc W fr

theorem DoneQ.mono {Q : Diag → Prop} {p : Params} {sc : Schema} {doc : BuiltDoc} {W W' : List Name} {g : Name}
    (h : DoneQ Q p sc doc W g) (hs : ∀ x ∈ W, x ∈ W') : DoneQ Q p sc doc W' g := by
  obtain ⟨fr, h1, h2, h3⟩ := h
  exact ⟨fr, h1, h2, fun a => ⟨(h3 a).1, fun x hx hd => hs x ((h3 a).2 x hx hd)⟩⟩

structure WalkQ (p : Params) (sc : Schema) (doc : BuiltDoc) (ty : Option Name) (t : Sels) (V V' : List Name) : Prop where
  mono : ∀ x ∈ V, x ∈ V'
  len : V.length ≤ V'.length
  nodup : V.Nodup → V'.Nodup
  defd : allDefined doc V → allDefined doc V'
  locals : ∀ site ∈ localSites sc ty t, ∀ d ∈ site.diags p sc doc, Q d
  spreads : ∀ g ∈ localSpreads sc ty t, (doc.findFrag g).isSome → g ∈ V'
  fresh : ∀ g ∈ V', g ∈ V ∨ DoneQ Q p sc doc V' g

theorem walkQ_nil (p : Params) (sc : Schema) (doc : BuiltDoc) (ty : Option Name) (V : List Name) :
    WalkQ Q p sc doc ty .nil V V :=
  ⟨fun _ h => h, Nat.le_refl _, fun h => h, fun h => h, by simp [localSites], by simp [localSpreads], fun _ h => .inl h⟩

theorem WalkQ.seq {Q : Diag → Prop} {p : Params} {sc : Schema} {doc : BuiltDoc} {ta tb ty : Option Name} {a b t : Sels}
    {V V1 V2 : List Name} (extra : List Site)
    (h1 : WalkQ Q p sc doc ta a V V1) (h2 : WalkQ Q p sc doc tb b V1 V2)
    (hextra : ∀ site ∈ extra, ∀ d ∈ site.diags p sc doc, Q d)
    (hl : ∀ site ∈ localSites sc ty t, site ∈ extra ++ localSites sc ta a ++ localSites sc tb b)
    (hs : ∀ g ∈ localSpreads sc ty t, g ∈ localSpreads sc ta a ++ localSpreads sc tb b) : WalkQ Q p sc doc ty t V V2 := by
  refine ⟨fun x hx => h2.mono x (h1.mono x hx), Nat.le_trans h1.len h2.len, fun h => h2.nodup (h1.nodup h),
    fun h => h2.defd (h1.defd h), ?_, ?_, ?_⟩
  · intro site hsite
    have := hl site hsite
    simp only [List.mem_append] at this
    rcases this with (h | h) | h
    · exact hextra site h
    · exact h1.locals site h
    · exact h2.locals site h
  · intro g hg hd
    rcases List.mem_append.mp (hs g hg) with h | h
    · exact h2.mono g (h1.spreads g h hd)
    · exact h2.spreads g h hd
  · intro g hg
    rcases h2.fresh g hg with h | h
    · rcases h1.fresh g h with h' | h'
      · exact .inl h'
      · exact .inr (h'.mono h2.mono)
    · exact .inr h

def HandlerQ (p : Params) (sc : Schema) (doc : BuiltDoc) (m : Nat) (e : Frag → List Name → List Diag × List Name) : Prop :=
  ∀ fr W, W.Nodup → allDefined doc W → m ≤ W.length → (∀ d ∈ (e fr W).1, Q d) →
    FragQ Q p sc doc (e fr W).2 fr ∧ (∀ x ∈ W, x ∈ (e fr W).2) ∧ W.length ≤ (e fr W).2.length ∧ (e fr W).2.Nodup ∧
      allDefined doc (e fr W).2 ∧ ∀ g ∈ (e fr W).2, g ∈ W ∨ DoneQ Q p sc doc (e fr W).2 g


theorem walkSels_walkQ (p : Params) (sc : Schema) (doc : BuiltDoc)
    (e : Frag → List Name → List Diag × List Name) (m : Nat) (he : HandlerQ Q p sc doc (m + 1) e) :
    ∀ (t : Sels) (ty : Option Name) (V : List Name), V.Nodup → allDefined doc V → m ≤ V.length →
      (∀ d ∈ (walkSels p (some sc) doc e ty t V).1, Q d) → WalkQ Q p sc doc ty t V (walkSels p (some sc) doc e ty t V).2 := by
  intro t
  induction t with
  | nil =>
    intro ty V _ _ _ _
    simp only [walkSels]
    exact walkQ_nil Q p sc doc ty V
  | field name dirs args sub rest ihs ihr =>
    intro ty V hnd hdf hm h
    simp only [walkSels, List.forall_mem_append] at h ⊢
    obtain ⟨⟨⟨h1a, h1b⟩, h2⟩, h4⟩ := h
    cases ty with
    | none =>
      simp only at h2 h4 ⊢
      have hx : ∀ site ∈ [Site.field none name dirs args sub.isNil], ∀ d ∈ site.diags p sc doc, Q d := by
        intro site hs
        simp only [List.mem_singleton] at hs; subst hs
        simp only [Site.diags, List.append_nil, List.forall_mem_append]
        exact ⟨h1a, h1b⟩
      have e3 := ihs none V hnd hdf hm h2
      have e4 := ihr none _ (e3.nodup hnd) (e3.defd hdf) (Nat.le_trans hm e3.len) h4
      exact WalkQ.seq _ e3 e4 hx (by intro site hs; simpa [localSites] using hs)
        (by intro g hg; simpa [localSpreads] using hg)
    | some t0 =>
      cases hfd : sc.field t0 name with
      | none =>
        simp only [hfd] at h2 h4 ⊢
        have hx : ∀ site ∈ [Site.field (some t0) name dirs args sub.isNil], ∀ d ∈ site.diags p sc doc, Q d := by
          intro site hs
          simp only [List.mem_singleton] at hs; subst hs
          simp only [Site.diags, hfd, List.append_nil, List.forall_mem_append]
          exact ⟨h1a, h1b⟩
        have e4 := ihr (some t0) V hnd hdf hm h4
        exact WalkQ.seq _ (walkQ_nil Q p sc doc none V) e4 hx
          (by intro site hs; simpa [localSites, hfd] using hs) (by intro g hg; simpa [localSpreads, hfd] using hg)
      | some fd =>
        simp only [hfd] at h2 h4 ⊢
        by_cases hc : (sub.isNil && sc.kind fd.ty == some Kind.composite) = true
        · simp only [hc, if_true, List.forall_mem_append] at h2 h4 ⊢
          have hx : ∀ site ∈ [Site.field (some t0) name dirs args sub.isNil], ∀ d ∈ site.diags p sc doc, Q d := by
            intro site hs
            simp only [List.mem_singleton] at hs; subst hs
            simp only [Site.diags, hfd, hc, if_true, List.forall_mem_append]
            exact ⟨⟨h1a, h1b⟩, h2⟩
          have e4 := ihr (some t0) V hnd hdf hm h4
          exact WalkQ.seq _ (walkQ_nil Q p sc doc none V) e4 hx
            (by intro site hs; simpa [localSites, hfd, hc] using hs) (by intro g hg; simpa [localSpreads, hfd, hc] using hg)
        · simp only [hc, Bool.false_eq_true, if_false, List.forall_mem_append] at h2 h4 ⊢
          have hx : ∀ site ∈ [Site.field (some t0) name dirs args sub.isNil], ∀ d ∈ site.diags p sc doc, Q d := by
            intro site hs
            simp only [List.mem_singleton] at hs; subst hs
            simp only [Site.diags, hfd, hc, Bool.false_eq_true, if_false, List.append_nil, List.forall_mem_append]
            exact ⟨⟨h1a, h1b⟩, h2.1⟩
          have e3 := ihs (some fd.ty) V hnd hdf hm h2.2
          have e4 := ihr (some t0) _ (e3.nodup hnd) (e3.defd hdf) (Nat.le_trans hm e3.len) h4
          exact WalkQ.seq _ e3 e4 hx
            (by intro site hs; simpa [localSites, hfd, hc] using hs) (by intro g hg; simpa [localSpreads, hfd, hc] using hg)
  | spread f dirs rest ihr =>
    intro ty V hnd hdf hm h
    simp only [walkSels, List.forall_mem_append] at h ⊢
    obtain ⟨⟨h1, h2⟩, h4⟩ := h
    cases hf : doc.findFrag f with
    | none =>
      simp only [hf] at h2 h4 ⊢
      have e4 := ihr ty V hnd hdf hm h4
      refine ⟨e4.mono, e4.len, e4.nodup, e4.defd, ?_, ?_, e4.fresh⟩
      · intro site hs
        simp only [localSites, List.mem_append, List.mem_singleton] at hs
        rcases hs with rfl | hs
        · simp only [Site.diags, hf, List.forall_mem_append]
          exact ⟨h1, h2⟩
        · exact e4.locals site hs
      · intro g hg hd
        simp only [localSpreads, List.mem_append, List.mem_singleton] at hg
        rcases hg with rfl | hg
        · rw [hf] at hd; cases hd
        · exact e4.spreads g hg hd
    | some fr =>
      simp only [hf] at h2 h4 ⊢
      have hsite : ∀ d ∈ (Site.spread f dirs).diags p sc doc, Q d := by
        simp only [Site.diags, hf, List.append_nil]
        exact h1
      by_cases hv : f ∈ V
      · simp only [hv, if_true] at h2 h4 ⊢
        have e4 := ihr ty V hnd hdf hm h4
        refine ⟨e4.mono, e4.len, e4.nodup, e4.defd, ?_, ?_, e4.fresh⟩
        · intro site hs
          simp only [localSites, List.mem_append, List.mem_singleton] at hs
          rcases hs with rfl | hs
          · exact hsite
          · exact e4.locals site hs
        · intro g hg hd
          simp only [localSpreads, List.mem_append, List.mem_singleton] at hg
          rcases hg with rfl | hg
          · exact e4.mono _ hv
          · exact e4.spreads g hg hd
      · simp only [hv, if_false] at h2 h4 ⊢
        have hnd1 : (f :: V).Nodup := List.nodup_cons.mpr ⟨hv, hnd⟩
        have hdf1 : allDefined doc (f :: V) := by
          intro x hx
          rcases List.mem_cons.mp hx with rfl | hx
          · rw [hf]; rfl
          · exact hdf x hx
        obtain ⟨q1, q2, q3, q4, q5, q6⟩ := he fr (f :: V) hnd1 hdf1 (by simp; omega) h2
        have hlen1 : m ≤ (e fr (f :: V)).2.length := Nat.le_trans (by simp; omega : m ≤ (f :: V).length) q3
        have e4 := ihr ty _ q4 q5 hlen1 h4
        have hfW : f ∈ (e fr (f :: V)).2 := q2 f (List.mem_cons_self ..)
        refine ⟨fun x hx => e4.mono x (q2 x (List.mem_cons_of_mem _ hx)), ?_, fun _ => e4.nodup q4,
          fun _ => e4.defd q5, ?_, ?_, ?_⟩
        · exact Nat.le_trans (Nat.le_trans (by simp : V.length ≤ (f :: V).length) q3) e4.len
        · intro site hs
          simp only [localSites, List.mem_append, List.mem_singleton] at hs
          rcases hs with rfl | hs
          · exact hsite
          · exact e4.locals site hs
        · intro g hg hd
          simp only [localSpreads, List.mem_append, List.mem_singleton] at hg
          rcases hg with rfl | hg
          · exact e4.mono _ hfW
          · exact e4.spreads g hg hd
        · intro g hg
          rcases e4.fresh g hg with hg1 | hg1
          · rcases q6 g hg1 with hg2 | hg2
            · rcases List.mem_cons.mp hg2 with hg2 | hg2
              · subst hg2
                exact .inr (DoneQ.mono ⟨fr, hf, q1⟩ e4.mono)
              · exact .inl hg2
            · exact .inr (hg2.mono e4.mono)
          · exact .inr hg1
  | inline tc dirs sub rest ihs ihr =>
    intro ty V hnd hdf hm h
    rw [walk_inline_eq] at h ⊢
    simp only [List.forall_mem_append] at h ⊢
    obtain ⟨⟨⟨h1, h2⟩, h3⟩, h4⟩ := h
    have hx : ∀ site ∈ [Site.inline tc dirs], ∀ d ∈ site.diags p sc doc, Q d := by
      intro site hs
      simp only [List.mem_singleton] at hs; subst hs
      simp only [Site.diags, List.forall_mem_append]
      exact ⟨h1, h2⟩
    by_cases hemp : (inlineTcd sc tc).isEmpty = true
    · simp only [inlineStep, hemp, if_true] at h3 h4 ⊢
      have e3 := ihs (inlineTy ty tc) V hnd hdf hm h3
      have e4 := ihr ty _ (e3.nodup hnd) (e3.defd hdf) (Nat.le_trans hm e3.len) h4
      exact WalkQ.seq _ e3 e4 hx (by intro site hs; simpa [localSites, hemp] using hs)
        (by intro g hg; simpa [localSpreads, hemp] using hg)
    · simp only [inlineStep, hemp, Bool.false_eq_true, if_false] at h3 h4 ⊢
      have e4 := ihr ty V hnd hdf hm h4
      exact WalkQ.seq _ (walkQ_nil Q p sc doc none V) e4 hx
        (by intro site hs; simpa [localSites, hemp] using hs) (by intro g hg; simpa [localSpreads, hemp] using hg)


theorem enterFrag_handlerQ (p : Params) (sc : Schema) (doc : BuiltDoc) :
    ∀ (n m : Nat), doc.frags.length < n + m → HandlerQ Q p sc doc m (enterFrag p (some sc) doc n) := by
  intro n
  induction n with
  | zero =>
    intro m hlt fr W hnd hdf hm _
    have := marked_le_frags doc W hnd hdf
    omega
  | succ n ih =>
    intro m hlt fr W hnd hdf hm h
    rw [enterFrag_succ_eq] at h ⊢
    by_cases hg : fragGuard sc doc fr = true
    · simp only [hg, if_true, List.forall_mem_append] at h ⊢
      have w := walkSels_walkQ Q p sc doc _ m (ih (m + 1) (by omega)) fr.sels (fragTy (some sc) fr) W hnd hdf hm h.2
      refine ⟨⟨?_, fun _ => ⟨w.locals, w.spreads⟩⟩, w.mono, w.len, w.nodup hnd, w.defd hdf, w.fresh⟩
      have hg' := hg
      simp only [fragGuard, Bool.and_eq_true, List.isEmpty_iff] at hg'
      simp only [Site.diags, hg'.1, hg'.2, List.append_nil]
      exact h.1
    · simp only [hg, Bool.false_eq_true, if_false] at h ⊢
      refine ⟨⟨?_, fun hc => absurd hc hg⟩, fun _ hx => hx, Nat.le_refl _, hnd, hdf, fun _ hg => .inl hg⟩
      simpa [Site.diags] using h

theorem reaches_reported (p : Params) (sc : Schema) (doc : BuiltDoc) (W : List Name)
    (hclosed : ∀ g ∈ W, DoneQ Q p sc doc W g) :
    ∀ (ty : Option Name) (t : Sels) (site : Site), Reaches sc doc ty t site →
      (∀ g ∈ localSpreads sc ty t, (doc.findFrag g).isSome → g ∈ W) →
      (∀ x ∈ localSites sc ty t, ∀ d ∈ x.diags p sc doc, Q d) → ∀ d ∈ site.diags p sc doc, Q d := by
  intro ty t site hr
  induction hr with
  | here h => intro _ hl; exact hl _ h
  | fragDef hf hd =>
    intro hs _
    obtain ⟨fr', hd', hq, _⟩ := hclosed _ (hs _ hf (by rw [hd]; rfl))
    rw [hd] at hd'; cases hd'
    exact hq
  | frag hf hd hg _ ih =>
    intro hs _
    obtain ⟨fr', hd', _, hq⟩ := hclosed _ (hs _ hf (by rw [hd]; rfl))
    rw [hd] at hd'; cases hd'
    exact ih (hq hg).2 (hq hg).1

/-- the diagnostics of the validation walk of one operation (`validated_fragments` empty at the start, fuel = the
    number of fragment definitions) -/
def walkOut (p : Params) (sc : Schema) (doc : BuiltDoc) (ty : Option Name) (t : Sels) : List Diag :=
  (walkSels p (some sc) doc (enterFrag p (some sc) doc doc.frags.length) ty t []).1

/-- COMPLETENESS (no hypothesis on the document): whatever a reachable site reports is reported by the walk -/
theorem walk_complete (p : Params) (sc : Schema) (doc : BuiltDoc) (ty : Option Name) (t : Sels)
    (h : ∀ d ∈ walkOut p sc doc ty t, Q d) : ∀ site, Reaches sc doc ty t site → ∀ d ∈ site.diags p sc doc, Q d := by
  have w := walkSels_walkQ Q p sc doc _ 0 (enterFrag_handlerQ Q p sc doc doc.frags.length 1 (by omega)) t ty []
    List.nodup_nil (by intro x hx; cases hx) (Nat.zero_le _) h
  have hclosed : ∀ g ∈ (walkSels p (some sc) doc (enterFrag p (some sc) doc doc.frags.length) ty t []).2,
      DoneQ Q p sc doc (walkSels p (some sc) doc (enterFrag p (some sc) doc doc.frags.length) ty t []).2 g := by
    intro g hg
    rcases w.fresh g hg with hn | hd
    · cases hn
    · exact hd
  intro site hr
  exact reaches_reported Q p sc doc _ hclosed ty t site hr w.spreads w.locals

end Apollo.Standalone.Walk
