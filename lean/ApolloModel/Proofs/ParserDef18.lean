import ApolloModel.Proofs.ParserDef17
/-
C05 growth (type-system definitions), part 18: the type-system half of the `select_definition` dispatch.
-/
set_option linter.unusedSimpArgs false
namespace Apollo.Parse
open Apollo.Rowan hiding Str
open Apollo.Lex hiding Str

/-- with a significant current token, `peek_token_n(2)` is the first significant token of the rest of the queue -/
theorem peekTokenN2_spec (s s' : PState) (o : Option Tok) (t : Tok) (rest : List Tok) (w : TW s)
    (hc : s.current = some t) (ht : Toks s = t :: rest) (hni : isIgnoredKind t.kind = false)
    (h : (peekTokenN 2).run s = .ok o s') : s' = s ∧ o = (sig rest).head? := by
  unfold peekTokenN at h
  simp only [] at h
  injection h with h1 h1'
  subst h1'
  refine ⟨rfl, ?_⟩
  rw [← h1]
  have hrest : rest = toksOf (stream s.lx) := by
    unfold Toks at ht
    rw [hc] at ht
    simp only [Option.toList, List.cons_append, List.nil_append, List.cons.injEq, true_and] at ht
    exact ht.symm
  unfold lookahead
  rw [hc]
  have hnk : (t.kind == .whitespace || t.kind == .comment || t.kind == .comma) = false := by
    simp only [isIgnoredKind] at hni
    cases hk : t.kind <;> simp [hk] at hni ⊢
  simp only [hnk, Bool.false_eq_true, if_false]
  have : ¬ (2 ≤ 1) := by omega
  simp only [this, if_false]
  show aheadLoop _ s.lx 1 = _
  rw [aheadLoop_one _ s.lx w.limit (by omega), hrest]

theorem peekDataN2_dec {α : Type} (f : Option Str → PI α) (s s' : PState) (a : α) (t : Tok) (rest : List Tok) (w : TW s)
    (hc : s.current = some t) (ht : Toks s = t :: rest) (hni : isIgnoredKind t.kind = false)
    (h : (peekDataN 2 >>= f).run s = .ok a s') : (f (((sig rest).head?).map (·.data))).run s = .ok a s' := by
  obtain ⟨d, s1, h1, h2⟩ := bind_dec (peekDataN 2) f s s' a h
  obtain ⟨o, s2, h3, h4⟩ := bind_dec (peekTokenN 2) _ s s1 d h1
  obtain ⟨rfl, ho⟩ := peekTokenN2_spec s s2 o t rest w hc ht hni h3
  rw [run_pure] at h4
  injection h4 with h4 h5
  subst h5
  rw [← h4, ho] at h2
  exact h2

def LooseDef.kws : LooseDef → List String
  | .scalar .. => ["scalar"]
  | .object .. => ["type"]
  | .interface .. => ["interface"]
  | .union .. => ["union"]
  | .enum .. => ["enum"]
  | .input .. => ["input"]
  | .directive .. => ["directive"]
  | .schema .. => ["schema"]
  | .scalarExt .. => ["extend", "scalar"]
  | .objectExt .. => ["extend", "type"]
  | .interfaceExt .. => ["extend", "interface"]
  | .unionExt .. => ["extend", "union"]
  | .enumExt .. => ["extend", "enum"]
  | .inputExt .. => ["extend", "input"]
  | .schemaExt .. => ["extend", "schema"]

/-- the conclusion of the per-definition statements -/
def DefConcl (s s' : PState) (ks : List String) : Prop :=
  ∃ cs l, Toks s = cs ++ Toks s' ∧ NoEof cs ∧ EofEnd s' ∧ (sig cs).map astOfV = (LooseDef.toks l).map some ∧ l.kws = ks

theorem def_finish {H : List Tok → Prop} {m : PI Unit} {R : Unit → List Ast.Tok → Prop} (ks : List String)
    (hacc : Acc E0 H m R) (hR : ∀ x, R () x → ∃ l : LooseDef, x = l.toks ∧ l.kws = ks)
    (s s' : PState) (w : TW s) (he : EofEnd s) (hq : H (Toks s)) (hr : m.run s = .ok () s') (hnd : ¬ Doomed s') :
    DefConcl s s' ks := by
  obtain ⟨cs, x, a1, a2, a3, hx, hRx⟩ := hacc.sound s s' () w he hq hr hnd
  obtain ⟨l, e, hk⟩ := hR x hRx
  exact ⟨cs, l, a1, a2, a3, by rw [← e]; exact hx, hk⟩

/-- the eight type-system definition keywords -/
def defWords : List String := ["directive", "enum", "input", "interface", "type", "scalar", "schema", "union"]

/-- a definition function entered the way the dispatcher enters it -/
theorem selected_definition_sound (n : Nat) (word : String) (hword : word ∈ defWords) (s s' : PState) (w : TW s) (he : EofEnd s)
    (hq : LexQ (Toks s) ∧ DefStart word (Toks s))
    (h : (selectDefinition n word.toList).run s = .ok () s') (hnd : ¬ Doomed s') : DefConcl s s' [word] := by
  simp only [defWords, List.mem_cons, List.mem_singleton, List.not_mem_nil, or_false] at hword
  rcases hword with rfl | rfl | rfl | rfl | rfl | rfl | rfl | rfl
  · have e : selectDefinition n "directive".toList = directiveDefinition n := rfl
    rw [e] at h
    refine def_finish _ (ent_directive n) ?_ s s' w he hq h hnd
    rintro x ⟨desc, nm, args, rep, lead, first, rest, e, _, _⟩
    exact ⟨.directive desc nm args rep lead first rest, e, rfl⟩
  · have e : selectDefinition n "enum".toList = enumTypeDefinition n := rfl
    rw [e] at h
    refine def_finish _ (ent_enum n) ?_ s s' w he hq h hnd
    rintro x ⟨desc, nm, ds, vs, e⟩
    exact ⟨.enum desc nm ds vs, e, rfl⟩
  · have e : selectDefinition n "input".toList = inputObjectTypeDefinition n := rfl
    rw [e] at h
    refine def_finish _ (ent_input n) ?_ s s' w he hq h hnd
    rintro x ⟨desc, nm, ds, fs, e⟩
    exact ⟨.input desc nm ds fs, e, rfl⟩
  · have e : selectDefinition n "interface".toList = interfaceTypeDefinition n := rfl
    rw [e] at h
    refine def_finish _ (ent_interface n) ?_ s s' w he hq h hnd
    rintro x ⟨desc, nm, impl, ds, fs, e⟩
    exact ⟨.interface desc nm impl ds fs, e, rfl⟩
  · have e : selectDefinition n "type".toList = objectTypeDefinition n := rfl
    rw [e] at h
    refine def_finish _ (ent_object n) ?_ s s' w he hq h hnd
    rintro x ⟨desc, nm, impl, ds, fs, e⟩
    exact ⟨.object desc nm impl ds fs, e, rfl⟩
  · have e : selectDefinition n "scalar".toList = scalarTypeDefinition n := rfl
    rw [e] at h
    refine def_finish _ (ent_scalar n) ?_ s s' w he hq h hnd
    rintro x ⟨desc, nm, ds, e⟩
    exact ⟨.scalar desc nm ds, e, rfl⟩
  · have e : selectDefinition n "schema".toList = schemaDefinition n := rfl
    rw [e] at h
    refine def_finish _ (ent_schema n) ?_ s s' w he hq h hnd
    rintro x ⟨desc, ds, roots, _, e⟩
    exact ⟨.schema desc ds roots, e, rfl⟩
  · have e : selectDefinition n "union".toList = unionTypeDefinition n := rfl
    rw [e] at h
    refine def_finish _ (ent_union n) ?_ s s' w he hq h hnd
    rintro x ⟨desc, nm, ds, ms, e⟩
    exact ⟨.union desc nm ds ms, e, rfl⟩

/-- the `peek_data` branch of the dispatcher, at the state level -/
theorem peekData_match_dec (f : Str → PI Unit) (g : PI Unit) (s s' : PState) (t : Tok) (rest : List Tok) (w : TW s) (he : EofEnd s)
    (ht : Toks s = t :: rest)
    (h : (peekData >>= fun o => match o with | some d => f d | none => g).run s = .ok () s') :
    ∃ sP, TW sP ∧ EofEnd sP ∧ Toks sP = Toks s ∧ sP.current = some t ∧ (f t.data).run sP = .ok () s' := by
  obtain ⟨d, s1, h1, h2⟩ := bind_dec peekData _ s s' () h
  unfold peekData at h1
  obtain ⟨o, sP, h3, h4⟩ := bind_dec peekToken _ s s1 d h1
  have p := peekToken_obs s sP o w h3
  rw [run_pure] at h4
  injection h4 with h4 h5
  subst h5
  have ho : o = some t := by rw [p.head, ht]; rfl
  subst ho
  rw [← h4] at h2
  exact ⟨sP, p.w, eofEnd_eat he p.eat (by intro x hx; cases hx), p.toks, p.current, h2⟩

theorem kwWord_of_defWords (word : String) (hword : word ∈ defWords) : KwWord word := by
  simp only [defWords, List.mem_cons, List.mem_singleton, List.not_mem_nil, or_false] at hword
  rcases hword with rfl | rfl | rfl | rfl | rfl | rfl | rfl | rfl
  · exact kwWord_directive
  · exact kwWord_enum
  · exact kwWord_input
  · exact kwWord_interface
  · exact kwWord_type
  · exact kwWord_scalar
  · exact kwWord_schema
  · exact kwWord_union

/-- **The type-system definitions through the dispatcher.** `document()` calls the dispatcher with the kind of the
    current token `t`; if the selecting text (the token after a description, else `t` itself) is one of the eight
    definition keywords and no error is added, the consumed tokens are those of ONE loose definition of that kind. -/
theorem dispatch_definition_sound (n : Nat) (word : String) (hword : word ∈ defWords) (s s' : PState) (t : Tok) (rest : List Tok)
    (w : TW s) (he : EofEnd s) (hl : LexQ (Toks s)) (hc : s.current = some t) (ht : Toks s = t :: rest)
    (hsel : (t.kind = .stringValue ∧ ∃ t2, (sig rest).head? = some t2 ∧ t2.data = word.toList) ∨ t.data = word.toList)
    (h : (documentDispatch n t.kind).run s = .ok () s') (hnd : ¬ Doomed s') : DefConcl s s' [word] := by
  have hkw : KwWord word := kwWord_of_defWords word hword
  unfold documentDispatch at h
  rcases hsel with ⟨hk, t2, hh2, hd2⟩ | hd
  · rw [hk] at h
    simp only [beq_self_eq_true, if_true] at h
    have h2 := peekDataN2_dec _ s s' () t rest w hc ht (by rw [hk]; rfl) h
    rw [hh2] at h2
    simp only [Option.map_some, hd2] at h2
    exact selected_definition_sound n word hword s s' w he ⟨hl, Or.inr ⟨t, rest, t2, ht, hk, hh2, hd2⟩⟩ h2 hnd
  · obtain ⟨c, r, hc1, hc2⟩ := hkw
    have hkn : t.kind = .name := hl.headKw (by rw [ht]; rfl) word c r hc1 hc2 hd
    rw [hkn] at h
    have e1 : (Kind.name == Kind.stringValue) = false := by decide
    simp only [e1, Bool.false_eq_true, if_false, beq_self_eq_true, Bool.true_or, if_true] at h
    obtain ⟨sP, wP, heP, htP, _, h2⟩ := peekData_match_dec _ _ s s' t rest w he ht h
    rw [hd] at h2
    obtain ⟨cs, l, a1, a2, a3, a4, a5⟩ := selected_definition_sound n word hword sP s' wP heP
      ⟨by rw [htP]; exact hl, Or.inl ⟨t, by rw [htP, ht]; rfl, hd⟩⟩ h2 hnd
    exact ⟨cs, l, by rw [← htP]; exact a1, a2, a3, a4, a5⟩

/-! ### extensions -/

def extSel (n : Nat) (d : Option Str) : PI Unit :=
  if kwOpt "schema" d then schemaExtension n
  else if kwOpt "scalar" d then scalarTypeExtension n
  else if kwOpt "type" d then objectTypeExtension n
  else if kwOpt "interface" d then interfaceTypeExtension n
  else if kwOpt "union" d then unionTypeExtension n
  else if kwOpt "enum" d then enumTypeExtension n
  else if kwOpt "input" d then inputObjectTypeExtension n
  else errAndPop

theorem extensions_eq (n : Nat) : extensions n = peekDataN 2 >>= extSel n := rfl

/-- the seven extension keywords -/
def extWords : List String := ["schema", "scalar", "type", "interface", "union", "enum", "input"]

/-- `extensions()` entered on the `extend` token, the next significant token being an extension keyword -/
theorem extensions_sound (n : Nat) (w2 : String) (hw2 : w2 ∈ extWords) (s s' : PState) (t : Tok) (rest : List Tok) (t2 : Tok)
    (w : TW s) (he : EofEnd s) (hl : LexQ (Toks s)) (hc : s.current = some t) (ht : Toks s = t :: rest)
    (hd : t.data = "extend".toList) (hh2 : (sig rest).head? = some t2) (hd2 : t2.data = w2.toList)
    (h : (extensions n).run s = .ok () s') (hnd : ¬ Doomed s') : DefConcl s s' ["extend", w2] := by
  obtain ⟨c, r, hc1, hc2⟩ := kwWord_extend
  have hkn : t.kind = .name := hl.headKw (by rw [ht]; rfl) "extend" c r hc1 hc2 hd
  rw [extensions_eq] at h
  have h2 := peekDataN2_dec _ s s' () t rest w hc ht (by rw [hkn]; rfl) h
  rw [hh2] at h2
  simp only [Option.map_some, hd2] at h2
  have hq : ∀ w2', t2.data = w2'.toList → (LexQ (Toks s) ∧ Ext2 "extend" w2' (Toks s)) :=
    fun w2' hd' => ⟨hl, t, rest, t2, ht, hd, hh2, hd'⟩
  simp only [extWords, List.mem_cons, List.mem_singleton, List.not_mem_nil, or_false] at hw2
  rcases hw2 with rfl | rfl | rfl | rfl | rfl | rfl | rfl
  · have e : extSel n (some "schema".toList) = schemaExtension n := rfl
    rw [e] at h2
    refine def_finish _ (accL_schemaExtension n) ?_ s s' w he (hq _ hd2) h2 hnd
    rintro x ⟨ds, roots, e⟩
    exact ⟨.schemaExt ds roots, e, rfl⟩
  · have e : extSel n (some "scalar".toList) = scalarTypeExtension n := rfl
    rw [e] at h2
    refine def_finish _ (accL_scalarTypeExtension n) ?_ s s' w he (hq _ hd2) h2 hnd
    rintro x ⟨nm, ds, e⟩
    exact ⟨.scalarExt nm ds, e, rfl⟩
  · have e : extSel n (some "type".toList) = objectTypeExtension n := rfl
    rw [e] at h2
    refine def_finish _ (accL_objectTypeExtension n) ?_ s s' w he (hq _ hd2) h2 hnd
    rintro x ⟨nm, impl, ds, fs, e⟩
    exact ⟨.objectExt nm impl ds fs, e, rfl⟩
  · have e : extSel n (some "interface".toList) = interfaceTypeExtension n := rfl
    rw [e] at h2
    refine def_finish _ (accL_interfaceTypeExtension n) ?_ s s' w he (hq _ hd2) h2 hnd
    rintro x ⟨nm, impl, ds, fs, e⟩
    exact ⟨.interfaceExt nm impl ds fs, e, rfl⟩
  · have e : extSel n (some "union".toList) = unionTypeExtension n := rfl
    rw [e] at h2
    refine def_finish _ (accL_unionTypeExtension n) ?_ s s' w he (hq _ hd2) h2 hnd
    rintro x ⟨nm, ds, ms, e⟩
    exact ⟨.unionExt nm ds ms, by rw [e]; simp [LooseDef.toks, kwE], rfl⟩
  · have e : extSel n (some "enum".toList) = enumTypeExtension n := rfl
    rw [e] at h2
    refine def_finish _ (accL_enumTypeExtension n) ?_ s s' w he (hq _ hd2) h2 hnd
    rintro x ⟨nm, ds, vs, e⟩
    exact ⟨.enumExt nm ds vs, e, rfl⟩
  · have e : extSel n (some "input".toList) = inputObjectTypeExtension n := rfl
    rw [e] at h2
    refine def_finish _ (accL_inputObjectTypeExtension n) ?_ s s' w he (hq _ hd2) h2 hnd
    rintro x ⟨nm, ds, fs, e⟩
    exact ⟨.inputExt nm ds fs, e, rfl⟩

/-- **The type-system extensions through the dispatcher**: the current token reads `extend`, the next significant
    token one of the seven extension keywords. -/
theorem dispatch_extension_sound (n : Nat) (w2 : String) (hw2 : w2 ∈ extWords) (s s' : PState) (t : Tok) (rest : List Tok) (t2 : Tok)
    (w : TW s) (he : EofEnd s) (hl : LexQ (Toks s)) (ht : Toks s = t :: rest)
    (hd : t.data = "extend".toList) (hh2 : (sig rest).head? = some t2) (hd2 : t2.data = w2.toList)
    (h : (documentDispatch n t.kind).run s = .ok () s') (hnd : ¬ Doomed s') : DefConcl s s' ["extend", w2] := by
  obtain ⟨c, r, hc1, hc2⟩ := kwWord_extend
  have hkn : t.kind = .name := hl.headKw (by rw [ht]; rfl) "extend" c r hc1 hc2 hd
  unfold documentDispatch at h
  rw [hkn] at h
  have e1 : (Kind.name == Kind.stringValue) = false := by decide
  simp only [e1, Bool.false_eq_true, if_false, beq_self_eq_true, Bool.true_or, if_true] at h
  obtain ⟨sP, wP, heP, htP, hcP, h2⟩ := peekData_match_dec _ _ s s' t rest w he ht h
  rw [hd] at h2
  have e : selectDefinition n "extend".toList = extensions n := rfl
  rw [e] at h2
  obtain ⟨cs, l, a1, a2, a3, a4, a5⟩ := extensions_sound n w2 hw2 sP s' t rest t2 wP heP (by rw [htP]; exact hl) hcP
    (by rw [htP]; exact ht) hd hh2 hd2 h2 hnd
  exact ⟨cs, l, by rw [← htP]; exact a1, a2, a3, a4, a5⟩

end Apollo.Parse
