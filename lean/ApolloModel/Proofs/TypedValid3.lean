import ApolloModel.Proofs.TypedValid2
/-
Property C18, valid documents: every fragment of a valid document is entered; `valid_document_wellformed`.
-/
namespace Apollo.Standalone

theorem buildDef_frags_distinct (s : Option Schema) (st : BuildState) (x : Def)
    (h : st.doc.frags.Pairwise (fun a b => a.name ≠ b.name)) :
    (buildDef s st x).doc.frags.Pairwise (fun a b => a.name ≠ b.name) := by
  cases x with
  | typeSystem => simpa [buildDef] using h
  | op o =>
    simp only [buildDef]
    repeat' split
    all_goals (try exact h)
  | frag f =>
    simp only [buildDef]
    split
    · exact h
    · next hany =>
      have hnew : ∀ (f' : Frag), f'.name = f.name →
          (st.doc.frags ++ [f']).Pairwise (fun a b => a.name ≠ b.name) := by
        intro f' hf'
        rw [List.pairwise_append]
        refine ⟨h, List.pairwise_singleton _ _, ?_⟩
        intro a ha b hb
        simp only [List.mem_singleton] at hb
        subst hb
        intro hne
        apply hany
        simp only [List.any_eq_true, beq_iff_eq]
        exact ⟨a, ha, by rw [hne, hf']⟩
      cases s with
      | none => exact hnew _ rfl
      | some sc =>
        simp only
        split
        · exact h
        · exact hnew _ rfl

theorem build_frags_distinct (s : Option Schema) (ast : Ast) :
    (build s ast).doc.frags.Pairwise (fun a b => a.name ≠ b.name) := by
  unfold build
  suffices ∀ (l : List Def) (st : BuildState), st.doc.frags.Pairwise (fun a b => a.name ≠ b.name) →
      (l.foldl (buildDef s) st).doc.frags.Pairwise (fun a b => a.name ≠ b.name) from
    this ast {} List.Pairwise.nil
  intro l
  induction l with
  | nil => intro st h; simpa using h
  | cons x l ih => intro st h; exact ih _ (buildDef_frags_distinct s st x h)

theorem find_of_distinct (l : List Frag) (h : l.Pairwise (fun a b => a.name ≠ b.name)) (f : Frag) (hf : f ∈ l) :
    l.find? (fun g => g.name == f.name) = some f := by
  induction l with
  | nil => simp at hf
  | cons a r ih =>
    rw [List.pairwise_cons] at h
    simp only [List.mem_cons] at hf
    rcases hf with hf | hf
    · subst hf; simp
    · have hne : a.name ≠ f.name := h.1 f hf
      simp [List.find?_cons, hne, ih h.2 hf]

/-- **Every fragment of a valid document is entered** by the validation walk of some operation. -/
theorem valid_all_fragments_entered (p : Params) (hp : p.undefinedDirectiveWithoutSchema = false) (sc : Schema)
    (ast : Ast) (h : validate p (some sc) ast = []) :
    ∀ f, f ∈ (build (some sc) ast).doc.frags → Entered p sc (build (some sc) ast).doc f := by
  simp only [validate, List.append_eq_nil_iff] at h
  obtain ⟨⟨hb, hv⟩, _⟩ := h
  have r := build_rel p sc ast (.inl hp) hb
  have hft : FragsTyped sc (build (some sc) ast).doc := fun f hf => (r.ok.frags f hf).2.1
  simp only [validateBuilt, List.append_eq_nil_iff, List.flatMap_eq_nil_iff] at hv
  obtain ⟨⟨hops, hused⟩, _⟩ := hv
  intro f hf
  -- the unused-fragment rule: `f` is reached from some operation
  have hreach : ∃ o, o ∈ (build (some sc) ast).doc.ops ∧ f.name ∈ reach (build (some sc) ast).doc o.sels := by
    simp only [fragmentsUsed, List.map_eq_nil_iff, List.filter_eq_nil_iff] at hused
    have := hused f hf
    simp only [Bool.not_eq_true, Bool.not_eq_false', List.contains_iff_mem, List.mem_flatMap] at this
    simpa using this
  obtain ⟨o, ho, hfr⟩ := hreach
  obtain ⟨⟨t, hr, ht⟩, _⟩ := r.ok.ops o ho
  have hop := hops o ho
  simp only [validateOp, List.append_eq_nil_iff, Option.bind_some, hr] at hop
  have hw := walkSels_walkOk p sc _ hft _ (enterFrag_handlerOk p sc _ hft _) o.sels t [] _ ht (Prod.ext hop.2 rfl)
  have hin := reach_sub_walk p sc _ o.sels _ hw f.name hfr
  rcases hw.fresh f.name hin with hn | ⟨d, hd, hent, _⟩
  · simp at hn
  · have hfind := find_of_distinct _ (build_frags_distinct (some sc) ast) f hf
    unfold BuiltDoc.findFrag at hd
    rw [hfind] at hd
    cases hd
    exact hent

/-- …and, per operation: every fragment an operation reaches through spreads is entered by THAT operation's walk
    (so its arguments and directives are checked against that operation's variable definitions). -/
theorem valid_reached_fragments_entered_per_operation (p : Params) (hp : p.undefinedDirectiveWithoutSchema = false)
    (sc : Schema) (ast : Ast) (h : validate p (some sc) ast = []) :
    ∀ o, o ∈ (build (some sc) ast).doc.ops → ∃ t V',
      sc.root o.ty = some t ∧
      walkSels p (some sc) (build (some sc) ast).doc
        (enterFrag p (some sc) (build (some sc) ast).doc (build (some sc) ast).doc.frags.length) (some t) o.sels [] = ([], V') ∧
      (∀ g ∈ reach (build (some sc) ast).doc o.sels, g ∈ V') ∧
      (∀ g ∈ V', Done p sc (build (some sc) ast).doc V' g) := by
  simp only [validate, List.append_eq_nil_iff] at h
  obtain ⟨⟨hb, hv⟩, _⟩ := h
  have r := build_rel p sc ast (.inl hp) hb
  have hft : FragsTyped sc (build (some sc) ast).doc := fun f hf => (r.ok.frags f hf).2.1
  simp only [validateBuilt, List.append_eq_nil_iff, List.flatMap_eq_nil_iff] at hv
  obtain ⟨⟨hops, _⟩, _⟩ := hv
  intro o ho
  obtain ⟨⟨t, hr, ht⟩, _⟩ := r.ok.ops o ho
  have hop := hops o ho
  simp only [validateOp, List.append_eq_nil_iff, Option.bind_some, hr] at hop
  have hw := walkSels_walkOk p sc _ hft _ (enterFrag_handlerOk p sc _ hft _) o.sels t [] _ ht (Prod.ext hop.2 rfl)
  refine ⟨t, _, hr, Prod.ext hop.2 rfl, reach_sub_walk p sc _ o.sels _ hw, ?_⟩
  intro g hg
  rcases hw.fresh g hg with hn | hd
  · simp at hn
  · exact hd

/-- **valid_document_wellformed** (model level): in a document that validates against a schema, every operation
    AND every fragment definition: fields are defined on their parent type, composite fields have sub-selections,
    leaf fields have none, every spread names an existing fragment; fragment type conditions are composite types
    and no fragment is on a spread cycle. -/
theorem valid_document_wellformed_model (p : Params) (hp : p.undefinedDirectiveWithoutSchema = false) (sc : Schema)
    (ast : Ast) (h : validate p (some sc) ast = []) :
    (∀ o, o ∈ (build (some sc) ast).doc.ops →
      ∃ t, sc.root o.ty = some t ∧ treeOk sc (build (some sc) ast).doc t o.sels = true) ∧
    (∀ f, f ∈ (build (some sc) ast).doc.frags →
      sc.kind f.tc = some .composite ∧ ¬ f.name ∈ reach (build (some sc) ast).doc f.sels ∧
        treeOk sc (build (some sc) ast).doc f.tc f.sels = true) := by
  refine ⟨valid_ops_treeOk p hp sc ast h, ?_⟩
  intro f hf
  obtain ⟨n, W, W', hent⟩ := valid_all_fragments_entered p hp sc ast h f hf
  have hb : (build (some sc) ast).diags = [] := by
    simp only [validate, List.append_eq_nil_iff] at h
    exact h.1.1
  have r := build_rel p sc ast (.inl hp) hb
  exact enterFrag_treeOk p sc _ n f W W' (r.ok.frags f hf).2.1 hent

end Apollo.Standalone
