import ApolloModel.Proofs.ParserType1
/-
C07 / C05 growth (type entry point), part 2: what every primitive of parser/mod.rs does to the token queue
and to the error status, and how runs of the combinators (`bind`, `start_node` guard, recursion guard,
checkpoint / `wrap_node`) decompose.
-/
set_option linter.unusedSimpArgs false
namespace Apollo.Parse
open Apollo.Rowan hiding Str
open Apollo.Lex hiding Str

theorem bind_dec {α β : Type} (m : PI α) (f : α → PI β) (s s'' : PState) (b : β)
    (h : (m >>= f).run s = .ok b s'') : ∃ a s', m.run s = .ok a s' ∧ (f a).run s' = .ok b s'' := by
  rw [run_bind] at h
  cases hr : m.run s with
  | ok a s' => rw [hr] at h; exact ⟨a, s', rfl, h⟩
  | abort w => rw [hr] at h; cases h
  | panic m => rw [hr] at h; cases h

/-- generic facts about a completed run -/
structure Adv (s s' : PState) : Prop where
  w : TW s'
  doom : Doomed s → Doomed s'
  recCur : s'.recCur = s.recCur
  recLimit : s'.recLimit = s.recLimit

theorem Adv.refl (s : PState) (w : TW s) : Adv s s := ⟨w, fun h => h, rfl, rfl⟩

theorem Adv.trans {a b c : PState} (h1 : Adv a b) (h2 : Adv b c) : Adv a c :=
  ⟨h2.w, fun h => h2.doom (h1.doom h), h2.recCur.trans h1.recCur, h2.recLimit.trans h1.recLimit⟩

/-- a run that consumed exactly the tokens `c` from the queue and recorded no error -/
structure Eat (s s' : PState) (c : List Tok) : Prop where
  toks : Toks s = c ++ Toks s'
  doom : Doomed s' ↔ Doomed s
  w : TW s'
  accept : s'.acceptErrors = s.acceptErrors
  recCur : s'.recCur = s.recCur
  recLimit : s'.recLimit = s.recLimit

theorem Eat.adv {s s' : PState} {c : List Tok} (h : Eat s s' c) : Adv s s' :=
  ⟨h.w, h.doom.mpr, h.recCur, h.recLimit⟩

theorem Eat.refl (s : PState) (w : TW s) : Eat s s [] := ⟨rfl, Iff.rfl, w, rfl, rfl, rfl⟩

theorem Eat.trans {a b c : PState} {x y : List Tok} (h1 : Eat a b x) (h2 : Eat b c y) : Eat a c (x ++ y) :=
  ⟨by rw [h1.toks, h2.toks, List.append_assoc], h2.doom.trans h1.doom, h2.w, h2.accept.trans h1.accept,
   h2.recCur.trans h1.recCur, h2.recLimit.trans h1.recLimit⟩

theorem Eat.ofObsEq {s s' : PState} (h : ObsEq s s') (w : TW s) : Eat s s' [] :=
  ⟨by rw [h.toks]; rfl, h.doomed, h.w w, h.accept, h.recCur, h.recLimit⟩

def Good {α : Type} (m : PI α) : Prop := ∀ s a s', TW s → m.run s = .ok a s' → Adv s s'

theorem good_pure {α : Type} (a : α) : Good (pure a : PI α) := by
  intro s a' s' w h
  rw [run_pure] at h
  injection h with _ h; subst h
  exact Adv.refl s w

theorem good_bind {α β : Type} (m : PI α) (f : α → PI β) (hm : Good m) (hf : ∀ a, Good (f a)) : Good (m >>= f) := by
  intro s b s'' w h
  obtain ⟨a, s', h1, h2⟩ := bind_dec m f s s'' b h
  have a1 := hm s a s' w h1
  exact a1.trans (hf a s' b s'' a1.w h2)

/-! ### token plumbing -/

theorem peekToken_eat (s s' : PState) (o : Option Tok) (w : TW s) (h : peekToken.run s = .ok o s') : Eat s s' [] := by
  have p := peekToken_obs s s' o w h
  exact ⟨by rw [p.toks]; rfl, p.doom, p.w, p.accept, p.recCur, p.recLimit⟩

theorem good_peekToken : Good peekToken := fun s o s' w h => (peekToken_eat s s' o w h).adv

theorem peek_obs (s s' : PState) (k : Option Kind) (w : TW s) (h : peek.run s = .ok k s') :
    ∃ o, PeekObs s s' o ∧ k = o.map (·.kind) := by
  obtain ⟨o, s1, h1, h2⟩ := bind_dec peekToken _ s s' k h
  rw [run_pure] at h2
  injection h2 with h2 h3
  subst h3
  exact ⟨o, peekToken_obs s s1 o w h1, h2.symm⟩

theorem PeekObs.eat {s s' : PState} {o : Option Tok} (p : PeekObs s s' o) : Eat s s' [] :=
  ⟨by rw [p.toks]; rfl, p.doom, p.w, p.accept, p.recCur, p.recLimit⟩

theorem good_peek : Good peek := by
  intro s k s' w h
  obtain ⟨o, p, _⟩ := peek_obs s s' k w h
  exact p.eat.adv

theorem toks_pop (s s' : PState) (t : Tok) (hc : s.current = some t) (hc' : s'.current = none) (hl : s'.lx = s.lx) :
    Toks s = t :: Toks s' := by
  simp [Toks, hc, hc', hl]

theorem doomed_same (s s' : PState) (he : s'.errors = s.errors) (hl : s'.lx = s.lx) : Doomed s' ↔ Doomed s := by
  unfold Doomed; rw [he, hl]

theorem w_same (s s' : PState) (w : TW s) (he : s'.errors = s.errors) (hl : s'.lx = s.lx)
    (ha : s'.acceptErrors = s.acceptErrors) : TW s' :=
  ⟨by rw [hl]; exact w.limit, by rw [ha, he]; exact w.acc⟩

/-- `skip_ignored`, one iteration: an ignored current token moves to the pending list -/
theorem moveCurToPending_spec (s s' : PState) (b : Bool) (w : TW s) (h : moveCurToPending.run s = .ok b s') :
    (b = true ∧ ∃ t, s.current = some t ∧ isIgnoredKind t.kind = true ∧ Eat s s' [t] ∧ s'.current = none)
    ∨ (b = false ∧ s' = s ∧ ∀ t, s.current = some t → isIgnoredKind t.kind = false) := by
  unfold moveCurToPending at h
  simp only [] at h
  cases hc : s.current with
  | none =>
    simp only [hc] at h
    injection h with h1 h2
    exact Or.inr ⟨h1.symm, h2.symm, by intro t ht; cases ht⟩
  | some t =>
    simp only [hc] at h
    by_cases hi : isIgnoredKind t.kind = true
    · simp only [hi, if_true] at h
      injection h with h1 h2
      subst h2
      refine Or.inl ⟨h1.symm, t, rfl, hi, ⟨toks_pop _ _ t hc rfl rfl, doomed_same _ _ rfl rfl, w_same _ _ w rfl rfl rfl, rfl, rfl, rfl⟩, rfl⟩
    · simp only [hi, Bool.false_eq_true, if_false] at h
      injection h with h1 h2
      refine Or.inr ⟨h1.symm, h2.symm, ?_⟩
      intro t' ht'
      injection ht' with ht'
      subst ht'
      simpa using hi

/-- the state is settled: the current token is the head of the queue and it is significant -/
def Settled (s : PState) : Prop :=
  s.current = (Toks s).head? ∧ ∀ t, s.current = some t → isIgnoredKind t.kind = false

theorem skipIgnoredLoop_spec : ∀ (fuel : Nat) (s s' : PState), TW s → (skipIgnoredLoop fuel).run s = .ok () s' →
    ∃ ign, Eat s s' ign ∧ (∀ t ∈ ign, isIgnoredKind t.kind = true) ∧ Settled s'
  | 0, s, s', _, h => by simp [skipIgnoredLoop, PI.outOfFuel] at h
  | fuel + 1, s, s', w, h => by
    unfold skipIgnoredLoop at h
    obtain ⟨o, s1, h1, h2⟩ := bind_dec peekToken _ s s' () h
    have p := peekToken_obs s s1 o w h1
    obtain ⟨b, s2, h3, h4⟩ := bind_dec moveCurToPending _ s1 s' () h2
    rcases moveCurToPending_spec s1 s2 b p.w h3 with ⟨rfl, t, hc, hi, e, _⟩ | ⟨rfl, rfl, hni⟩
    · simp only [if_true] at h4
      obtain ⟨ign, e2, hall, hset⟩ := skipIgnoredLoop_spec fuel s2 s' e.w h4
      refine ⟨t :: ign, ?_, ?_, hset⟩
      · have := (p.eat.trans e).trans e2
        simpa using this
      · intro x hx
        rcases List.mem_cons.mp hx with rfl | hx
        · exact hi
        · exact hall x hx
    · simp only [Bool.false_eq_true, if_false] at h4
      rw [run_pure] at h4
      injection h4 with _ h4
      subst h4
      refine ⟨[], p.eat, by simp, ?_, hni⟩
      rw [p.current, p.head, p.toks]

theorem skipIgnored_spec (s s' : PState) (w : TW s) (h : skipIgnored.run s = .ok () s') :
    ∃ ign, Eat s s' ign ∧ (∀ t ∈ ign, isIgnoredKind t.kind = true) ∧ Settled s' := by
  unfold skipIgnored at h
  obtain ⟨n, s1, h1, h2⟩ := bind_dec srcLen _ s s' () h
  have : s1 = s := by
    unfold srcLen at h1
    simp only [] at h1
    injection h1 with _ h1
    exact h1.symm
  subst this
  exact skipIgnoredLoop_spec _ s1 s' w h2

theorem good_skipIgnored : Good skipIgnored := by
  intro s a s' w h
  obtain ⟨_, e, _, _⟩ := skipIgnored_spec s s' w h
  exact e.adv

theorem pushIgnored_obs (s s' : PState) (h : pushIgnored.run s = .ok () s') : ObsEq s s' := by
  unfold pushIgnored at h
  simp only [] at h
  injection h with _ h
  subst h
  exact ⟨rfl, rfl, rfl, rfl, rfl, rfl⟩

theorem moveCurToTree_spec (kind : SK) (s s' : PState) (w : TW s) (h : (moveCurToTree kind).run s = .ok () s') :
    (∃ t, s.current = some t ∧ Eat s s' [t] ∧ s'.current = none) ∨ (s.current = none ∧ s' = s) := by
  unfold moveCurToTree at h
  simp only [] at h
  cases hc : s.current with
  | none =>
    simp only [hc] at h
    injection h with _ h
    exact Or.inr ⟨rfl, h.symm⟩
  | some t =>
    simp only [hc] at h
    injection h with _ h
    subst h
    exact Or.inl ⟨t, rfl, ⟨toks_pop _ _ t hc rfl rfl, doomed_same _ _ rfl rfl, w_same _ _ w rfl rfl rfl, rfl, rfl, rfl⟩, rfl⟩

/-- `eat`: the head of the queue goes to the tree (nothing happens on an empty queue) -/
theorem eat_spec (kind : SK) (s s' : PState) (w : TW s) (h : (eat kind).run s = .ok () s') :
    (∃ t rest, Toks s = t :: rest ∧ Eat s s' [t] ∧ s'.current = none) ∨ (Toks s = [] ∧ Eat s s' []) := by
  unfold eat at h
  obtain ⟨_, s1, h1, h2⟩ := bind_dec pushIgnored _ s s' () h
  have o1 := pushIgnored_obs s s1 h1
  obtain ⟨o, s2, h3, h4⟩ := bind_dec peekToken _ s1 s' () h2
  have p := peekToken_obs s1 s2 o (o1.w w) h3
  have e12 : Eat s s2 [] := by simpa using (Eat.ofObsEq o1 w).trans p.eat
  rcases moveCurToTree_spec kind s2 s' p.w h4 with ⟨t, hc, e, hn⟩ | ⟨hc, rfl⟩
  · refine Or.inl ⟨t, Toks s', ?_, by simpa using e12.trans e, hn⟩
    have := (e12.trans e).toks
    simpa using this
  · refine Or.inr ⟨?_, e12⟩
    have hh := p.head
    rw [← p.current, hc] at hh
    rw [← o1.toks]
    cases ht : Toks s1 with
    | nil => rfl
    | cons a b => rw [ht] at hh; cases hh

theorem good_eat (kind : SK) : Good (eat kind) := by
  intro s a s' w h
  rcases eat_spec kind s s' w h with ⟨_, _, _, e, _⟩ | ⟨_, e⟩ <;> exact e.adv

theorem good_bump (kind : SK) : Good (bump kind) :=
  good_bind _ _ (good_eat kind) (fun _ => good_skipIgnored)

/-! ### errors -/

theorem pushErr_spec (e : PErr) (s s' : PState) (w : TW s) (h : (pushErr e).run s = .ok () s') :
    s'.errors ≠ [] ∧ ObsEq { s with errors := s'.errors } s' ∧ TW s' := by
  unfold pushErr errUpdate at h
  simp only [] at h
  injection h with _ h
  subst h
  simp only []
  have hne : (if s.acceptErrors = true then s.errors ++ [e] else s.errors) ≠ [] := by
    by_cases ha : s.acceptErrors = true
    · simp [ha]
    · have ha' : s.acceptErrors = false := by simpa using ha
      simp only [ha', Bool.false_eq_true, if_false]; exact w.acc ha'
  exact ⟨hne, ⟨rfl, rfl, rfl, rfl, rfl, rfl⟩, ⟨w.limit, fun _ => hne⟩⟩

theorem pushErr_adv (e : PErr) (s s' : PState) (w : TW s) (h : (pushErr e).run s = .ok () s') :
    Adv s s' ∧ Doomed s' := by
  obtain ⟨hne, o, w'⟩ := pushErr_spec e s s' w h
  exact ⟨⟨w', fun _ => Or.inl hne, o.recCur, o.recLimit⟩, Or.inl hne⟩

theorem good_pushErr (e : PErr) : Good (pushErr e) := fun s _ s' w h => (pushErr_adv e s s' w h).1

theorem errAtToken_adv (t : Tok) (s s' : PState) (w : TW s) (h : (errAtToken t).run s = .ok () s') :
    Adv s s' ∧ Doomed s' := pushErr_adv _ s s' w h

/-- `err` on a non-empty queue records an error -/
theorem err_adv (s s' : PState) (w : TW s) (h : err.run s = .ok () s') :
    Adv s s' ∧ (Toks s ≠ [] → Doomed s') := by
  unfold err at h
  obtain ⟨o, s1, h1, h2⟩ := bind_dec peekToken _ s s' () h
  have p := peekToken_obs s s1 o w h1
  cases o with
  | none =>
    simp only [] at h2
    rw [run_pure] at h2
    injection h2 with _ h2
    subst h2
    refine ⟨p.eat.adv, ?_⟩
    intro hne
    have := p.head
    cases ht : Toks s with
    | nil => exact absurd ht hne
    | cons a b => rw [ht] at this; cases this
  | some t =>
    simp only [] at h2
    obtain ⟨a, d⟩ := pushErr_adv _ s1 s' p.w h2
    exact ⟨p.eat.adv.trans a, fun _ => d⟩

theorem good_err : Good err := fun s _ s' w h => (err_adv s s' w h).1

/-- `limit_err` on a non-empty queue records an error (or errors were already frozen non-empty) -/
theorem limitErr_adv (s s' : PState) (w : TW s) (h : limitErr.run s = .ok () s') :
    Adv s s' ∧ (Toks s ≠ [] → Doomed s') := by
  unfold limitErr at h
  obtain ⟨o, s1, h1, h2⟩ := bind_dec peekToken _ s s' () h
  have p := peekToken_obs s s1 o w h1
  cases o with
  | none =>
    simp only [] at h2
    rw [run_pure] at h2
    injection h2 with _ h2
    subst h2
    refine ⟨p.eat.adv, ?_⟩
    intro hne
    have := p.head
    cases ht : Toks s with
    | nil => exact absurd ht hne
    | cons a b => rw [ht] at this; cases this
  | some t =>
    simp only [] at h2
    unfold errUpdate at h2
    simp only [] at h2
    injection h2 with _ h2
    subst h2
    have hne : (if s1.acceptErrors = true then s1.errors ++ [⟨t.index, 0, .limit⟩] else s1.errors) ≠ [] := by
      by_cases ha : s1.acceptErrors = true
      · simp [ha]
      · have ha' : s1.acceptErrors = false := by simpa using ha
        simp only [ha', Bool.false_eq_true, if_false]; exact p.w.acc ha'
    have a2 : Adv s1 { s1 with errors := if s1.acceptErrors = true then s1.errors ++ [⟨t.index, 0, .limit⟩] else s1.errors, acceptErrors := false } :=
      ⟨⟨p.w.limit, fun _ => hne⟩, fun _ => Or.inl hne, rfl, rfl⟩
    exact ⟨p.eat.adv.trans a2, fun _ => Or.inl hne⟩

theorem good_limitErr : Good limitErr := fun s _ s' w h => (limitErr_adv s s' w h).1

/-- `expect`: either the head of the queue has the expected kind and is bumped, or an error is recorded
    (or the queue is empty and nothing happens) -/
theorem expect_spec (token : Kind) (kind : SK) (s s' : PState) (w : TW s) (h : (expect token kind).run s = .ok () s') :
    Adv s s' ∧
    ((Toks s = [] ∧ Eat s s' []) ∨ Doomed s'
      ∨ (∃ t rest ign, Toks s = t :: rest ∧ t.kind = token ∧ Eat s s' (t :: ign)
          ∧ (∀ x ∈ ign, isIgnoredKind x.kind = true) ∧ Settled s')) := by
  unfold expect at h
  obtain ⟨o, s1, h1, h2⟩ := bind_dec peekToken _ s s' () h
  have p := peekToken_obs s s1 o w h1
  cases o with
  | none =>
    simp only [] at h2
    rw [run_pure] at h2
    injection h2 with _ h2
    subst h2
    refine ⟨p.eat.adv, Or.inl ⟨?_, p.eat⟩⟩
    have := p.head
    cases ht : Toks s with
    | nil => rfl
    | cons a b => rw [ht] at this; cases this
  | some t =>
    simp only [] at h2
    by_cases hk : (t.kind == token) = true
    · simp only [hk, if_true] at h2
      have hkk : t.kind = token := by simpa using hk
      unfold bump at h2
      obtain ⟨_, s2, h3, h4⟩ := bind_dec (eat kind) _ s1 s' () h2
      have ht : Toks s1 = t :: (Toks s1).tail := by
        have := p.head
        rw [← p.toks] at this
        cases hq : Toks s1 with
        | nil => rw [hq] at this; cases this
        | cons a b => rw [hq] at this; injection this with this; subst this; rfl
      rcases eat_spec kind s1 s2 p.w h3 with ⟨t', rest, hq, e, _⟩ | ⟨hq, _⟩
      · rw [ht] at hq
        injection hq with hq1 hq2
        subst hq1
        obtain ⟨ign, e2, hall, hset⟩ := skipIgnored_spec s2 s' e.w h4
        have etot : Eat s s' (t :: ign) := by simpa using (p.eat.trans e).trans e2
        refine ⟨etot.adv, Or.inr (Or.inr ⟨t, (Toks s).tail, ign, ?_, hkk, etot, hall, hset⟩)⟩
        rw [← p.toks, ht]; rfl
      · rw [ht] at hq; cases hq
    · simp only [hk, Bool.false_eq_true, if_false] at h2
      obtain ⟨a, d⟩ := pushErr_adv _ s1 s' p.w h2
      exact ⟨p.eat.adv.trans a, Or.inr (Or.inl d)⟩

theorem good_expect (token : Kind) (kind : SK) : Good (expect token kind) :=
  fun s _ s' w h => (expect_spec token kind s s' w h).1

/-- ty.rs `Err(Some(p.pop()))` -/
theorem popDrop_spec (s s' : PState) (o : Option Tok) (w : TW s) (h : popDrop.run s = .ok o s') :
    Adv s s' ∧ o = s.current := by
  unfold popDrop at h
  simp only [] at h
  cases hc : s.current with
  | none =>
    simp only [hc] at h
    injection h with h1 h2
    subst h2
    exact ⟨⟨w_same _ _ w rfl rfl rfl, (doomed_same _ _ rfl rfl).mpr, rfl, rfl⟩, h1.symm⟩
  | some t =>
    simp only [hc] at h
    injection h with h1 h2
    subst h2
    refine ⟨⟨w_same _ _ w rfl rfl rfl, ?_, rfl, rfl⟩, h1.symm⟩
    intro hd
    exact (doomed_same _ _ rfl rfl).mpr hd

theorem good_popDrop : Good popDrop := fun s o s' w h => (popDrop_spec s s' o w h).1

/-! ### combinators -/

/-- the `start_node` guard: the body runs (after `skip_ignored`) from a state with the same token-level
    fields, and the guard's `finish_node` changes only the tree -/
theorem withNode_dec {α : Type} (kind : SK) (body : PI α) (s s' : PState) (a : α)
    (h : (withNode kind body).run s = .ok a s') :
    ∃ s1 s2, ObsEq s s1 ∧ (skipIgnored >>= fun _ => body).run s1 = .ok a s2 ∧ ObsEq s2 s' := by
  unfold withNode at h
  simp only [] at h
  have e1 : pushIgnored.run s = .ok () { s with builder := { s.builder with children := s.builder.children ++ s.pending.map pendingElem }, pending := [] } := rfl
  rw [e1] at h
  simp only [] at h
  cases hr : (skipIgnored >>= fun _ => body).run (rawStartNode kind { s with builder := { s.builder with children := s.builder.children ++ s.pending.map pendingElem }, pending := [] }) with
  | abort w => rw [hr] at h; cases h
  | panic m => rw [hr] at h; cases h
  | ok a2 s2 =>
    rw [hr] at h
    simp only [] at h
    cases hb : s2.builder.finishNode with
    | none => rw [hb] at h; cases h
    | some b =>
      rw [hb] at h
      injection h with h1 h2
      subst h1 h2
      exact ⟨rawStartNode kind { s with builder := { s.builder with children := s.builder.children ++ s.pending.map pendingElem }, pending := [] }, s2, ⟨rfl, rfl, rfl, rfl, rfl, rfl⟩, hr, ⟨rfl, rfl, rfl, rfl, rfl, rfl⟩⟩

theorem good_withNode {α : Type} (kind : SK) (body : PI α) (hb : Good body) : Good (withNode kind body) := by
  intro s a s' w h
  obtain ⟨s1, s2, o1, hr, o2⟩ := withNode_dec kind body s s' a h
  have a1 := (Eat.ofObsEq o1 w).adv
  have a2 := good_bind _ _ good_skipIgnored (fun _ => hb) s1 a s2 a1.w hr
  exact (a1.trans a2).trans (Eat.ofObsEq o2 a2.w).adv

/-- the recursion guard -/
theorem withRec_dec {α : Type} (onLimit body : PI α) (s s' : PState) (a : α)
    (h : (withRec onLimit body).run s = .ok a s') :
    (s.recCur + 1 > s.recLimit ∧ ∃ s1, ObsEq s s1 ∧ onLimit.run s1 = .ok a s')
    ∨ (s.recCur + 1 ≤ s.recLimit ∧ ∃ s1 s2, s1.current = s.current ∧ s1.lx = s.lx ∧ s1.errors = s.errors
        ∧ s1.acceptErrors = s.acceptErrors ∧ s1.recCur = s.recCur + 1 ∧ s1.recLimit = s.recLimit
        ∧ body.run s1 = .ok a s2
        ∧ s'.current = s2.current ∧ s'.lx = s2.lx ∧ s'.errors = s2.errors ∧ s'.acceptErrors = s2.acceptErrors
        ∧ s'.recCur = s2.recCur - 1 ∧ s'.recLimit = s2.recLimit) := by
  unfold withRec at h
  simp only [] at h
  by_cases hc : s.recCur + 1 > s.recLimit
  · simp only [hc, if_true] at h
    exact Or.inl ⟨hc, { s with recHigh := if s.recCur + 1 > s.recHigh then s.recCur + 1 else s.recHigh }, ⟨rfl, rfl, rfl, rfl, rfl, rfl⟩, h⟩
  · simp only [hc, if_false] at h
    refine Or.inr ⟨by omega, ?_⟩
    cases hr : body.run { s with recCur := s.recCur + 1, recHigh := if s.recCur + 1 > s.recHigh then s.recCur + 1 else s.recHigh } with
    | abort w => rw [hr] at h; cases h
    | panic m => rw [hr] at h; cases h
    | ok a2 s2 =>
      rw [hr] at h
      simp only [] at h
      by_cases hz : s2.recCur = 0
      · simp only [hz, if_true] at h; cases h
      · simp only [hz, if_false] at h
        injection h with h1 h2
        subst h1 h2
        exact ⟨{ s with recCur := s.recCur + 1, recHigh := if s.recCur + 1 > s.recHigh then s.recCur + 1 else s.recHigh }, s2, rfl, rfl, rfl, rfl, rfl, rfl, hr, rfl, rfl, rfl, rfl, rfl, rfl⟩

theorem good_withRec {α : Type} (onLimit body : PI α) (h1 : Good onLimit) (h2 : Good body) :
    Good (withRec onLimit body) := by
  intro s a s' w h
  rcases withRec_dec onLimit body s s' a h with ⟨_, s1, o, hr⟩ | ⟨_, s1, s2, c1, l1, e1, a1, r1, rl1, hr, c2, l2, e2, a2, r2, rl2⟩
  · have ad := (Eat.ofObsEq o w).adv
    exact ad.trans (h1 s1 a s' ad.w hr)
  · have w1 : TW s1 := w_same _ _ w e1 l1 a1
    have ad := h2 s1 a s2 w1 hr
    refine ⟨w_same _ _ ad.w e2 l2 a2, ?_, ?_, ?_⟩
    · intro hd
      exact (doomed_same _ _ e2 l2).mpr (ad.doom ((doomed_same _ _ e1 l1).mpr hd))
    · rw [r2, ad.recCur, r1]; omega
    · rw [rl2, ad.recLimit, rl1]

/-- checkpoint … `wrap_node` -/
theorem wrapIf_dec {α : Type} (kind : SK) (body : PI α) (cond : α → PI Bool) (inner : PI Unit)
    (s s' : PState) (a : α) (h : (wrapIf kind body cond inner).run s = .ok a s') :
    ∃ s1 s2 s3 c, ObsEq s s1 ∧ body.run s1 = .ok a s2 ∧ (cond a).run s2 = .ok c s3
      ∧ ((c = false ∧ s' = s3) ∨ (c = true ∧ ∃ s4 s5, ObsEq s3 s4 ∧ inner.run s4 = .ok () s5 ∧ ObsEq s5 s')) := by
  unfold wrapIf at h
  simp only [] at h
  have e1 : pushIgnored.run s = .ok () { s with builder := { s.builder with children := s.builder.children ++ s.pending.map pendingElem }, pending := [] } := rfl
  rw [e1] at h
  simp only [] at h
  generalize hs1 : ({ s with builder := { s.builder with children := s.builder.children ++ s.pending.map pendingElem }, pending := [] } : PState) = s1 at h
  have o1 : ObsEq s s1 := by subst hs1; exact ⟨rfl, rfl, rfl, rfl, rfl, rfl⟩
  cases hr : (body >>= fun a => cond a >>= fun c => pure (a, c)).run s1 with
  | abort w => rw [hr] at h; cases h
  | panic m => rw [hr] at h; cases h
  | ok ac s3 =>
    rw [hr] at h
    obtain ⟨a0, c⟩ := ac
    simp only [] at h
    obtain ⟨a1, s2, hb, h2⟩ := bind_dec body _ s1 s3 (a0, c) hr
    obtain ⟨c1, s3', hc, h3⟩ := bind_dec (cond a1) _ s2 s3 (a0, c) h2
    rw [run_pure] at h3
    injection h3 with h3 h4
    injection h3 with h5 h6
    subst h4 h5 h6
    cases c1 with
    | false =>
      simp only [Bool.false_eq_true, if_false] at h
      injection h with h7 h8
      subst h7 h8
      exact ⟨s1, s2, s3', false, o1, hb, hc, Or.inl ⟨rfl, rfl⟩⟩
    | true =>
      simp only [if_true] at h
      split at h
      · cases h
      · rename_i b hsn
        split at h
        · rename_i u s5 hi
          split at h
          · rename_i b' hf
            injection h with h7 h8
            subst h7 h8
            exact ⟨s1, s2, s3', true, o1, hb, hc, Or.inr ⟨rfl, { s3' with builder := b }, s5, ⟨rfl, rfl, rfl, rfl, rfl, rfl⟩, hi, ⟨rfl, rfl, rfl, rfl, rfl, rfl⟩⟩⟩
          · cases h
        · cases h
        · cases h

theorem good_wrapIf {α : Type} (kind : SK) (body : PI α) (cond : α → PI Bool) (inner : PI Unit)
    (h1 : Good body) (h2 : ∀ a, Good (cond a)) (h3 : Good inner) : Good (wrapIf kind body cond inner) := by
  intro s a s' w h
  obtain ⟨s1, s2, s3, c, o1, hb, hc, hrest⟩ := wrapIf_dec kind body cond inner s s' a h
  have a1 := (Eat.ofObsEq o1 w).adv
  have a2 := h1 s1 a s2 a1.w hb
  have a3 := h2 a s2 c s3 a2.w hc
  rcases hrest with ⟨_, rfl⟩ | ⟨_, s4, s5, o4, hi, o5⟩
  · exact (a1.trans a2).trans a3
  · have a4 := (Eat.ofObsEq o4 a3.w).adv
    have a5 := h3 s4 () s5 a4.w hi
    exact ((((a1.trans a2).trans a3).trans a4).trans a5).trans (Eat.ofObsEq o5 a5.w).adv

end Apollo.Parse
