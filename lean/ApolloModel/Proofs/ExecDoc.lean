import ApolloModel.Model.ExecDoc
/-
Helper lemmas for property C19: `to_ast` is a right inverse of `document_from_ast` on every document that
`document_from_ast` can produce.
-/
namespace Apollo.Exec
open Apollo.Ast

def xIsNil : XSels → Bool
  | .nil => true
  | _ => false

/-- the annotations are the ones `from_ast` computes, and nothing in the tree would be dropped by it -/
def ann (s : XSchema) : Str → XSels → Bool
  | _, .nil => true
  | p, .field _ name _ _ d ty sub rest =>
    (typeFieldX s p name == .ok d) && (ty == d.ty) && !(!xIsNil sub && leafTypeX s d.ty) && ann s ty sub && ann s p rest
  | p, .spread _ _ rest => ann s p rest
  | p, .inline tc _ ty sub rest =>
    (match tc with
     | some t => ty == t && (s.findType t).isSome
     | none => ty == p) && ann s ty sub && ann s p rest

theorem fromSels_nil_of (s : XSchema) (p : Str) (t : Sels) (h : selsIsNil t = true) : fromSels s p t = .nil := by
  cases t with
  | nil => simp [fromSels]
  | cons _ _ => simp [selsIsNil] at h

theorem fromSels_ann (s : XSchema) (p : Str) (t : Sels) : ann s p (fromSels s p t) = true := by
  fun_induction fromSels s p t with
  | case1 p => simp [ann]
  | case2 p alias name args dirs sub tl d hd hc ih => exact ih
  | case3 p alias name args dirs sub tl d hd hc ih1 ih2 =>
    simp only [ann, hd, ih1, ih2, Bool.and_true, beq_self_eq_true, Bool.true_and, Bool.not_eq_true']
    simp only [Bool.and_eq_true, Bool.not_eq_true', not_and, Bool.not_eq_true] at hc
    cases hl : leafTypeX s d.ty
    · simp
    · have hn : selsIsNil sub = true := by
        cases hs : selsIsNil sub
        · exact absurd hl (by rw [hc hs]; simp)
        · rfl
      simp [fromSels_nil_of s d.ty sub hn, xIsNil]
  | case4 p alias name args dirs sub tl hd ih => exact ih
  | case5 p alias name args dirs sub tl hd ih => exact ih
  | case6 p name dirs tl ih => simpa [ann] using ih
  | case7 p dirs sub tl t hk ih => exact ih
  | case8 p dirs sub tl t hk ih1 ih2 =>
    have hk' : (s.findType t).isSome = true := by
      cases hq : s.findType t <;> simp [hq] at hk ⊢
    simp [ann, ih1, ih2, hk']
  | case9 p dirs sub tl ih1 ih2 => simp [ann, ih1, ih2]

theorem selsIsNil_toSels (x : XSels) : selsIsNil (toSels x) = xIsNil x := by
  cases x <;> simp [toSels, selsIsNil, xIsNil]

/-- rebuilding what was built gives it back -/
theorem from_to (s : XSchema) (x : XSels) : ∀ p, ann s p x = true → fromSels s p (toSels x) = x := by
  induction x with
  | nil => intro p _; simp [toSels, fromSels]
  | field alias name args dirs d ty sub rest ihs ihr =>
    intro p h
    simp only [ann, Bool.and_eq_true, beq_iff_eq, Bool.not_eq_true'] at h
    obtain ⟨⟨⟨⟨h1, h2⟩, h3⟩, h4⟩, h5⟩ := h
    subst h2
    simp only [toSels, fromSels, h1, selsIsNil_toSels, h3, Bool.false_eq_true, ↓reduceIte]
    rw [ihs d.ty h4, ihr p h5]
  | spread name dirs rest ihr =>
    intro p h
    simp only [ann] at h
    simp only [toSels, fromSels]
    rw [ihr p h]
  | inline tc dirs ty sub rest ihs ihr =>
    intro p h
    simp only [ann, Bool.and_eq_true] at h
    obtain ⟨⟨h1, h2⟩, h3⟩ := h
    cases tc with
    | none =>
      simp only [beq_iff_eq] at h1
      subst h1
      simp only [toSels, fromSels]
      rw [ihs ty h2, ihr ty h3]
    | some t =>
      simp only [Bool.and_eq_true, beq_iff_eq] at h1
      obtain ⟨h1a, h1b⟩ := h1
      subst h1a
      have hn : (s.findType ty).isNone = false := by
        cases hq : s.findType ty <;> simp [hq] at h1b ⊢
      simp only [toSels, fromSels, hn, Bool.false_eq_true, ↓reduceIte]
      rw [ihs ty h2, ihr p h3]

/-! ### documents -/

/-- what `document_from_ast` guarantees about the document it returns -/
structure DocInv (s : XSchema) (d : XDoc) : Prop where
  anon : ∀ o, d.anon = some o → o.name = none ∧ s.root o.opType = some o.ty ∧ ann s o.ty o.sels = true
  named : ∀ o, o ∈ d.named → o.name.isSome = true ∧ s.root o.opType = some o.ty ∧ ann s o.ty o.sels = true
  namedDistinct : d.named.Pairwise (fun a b => a.name ≠ b.name)
  frags : ∀ f, f ∈ d.frags → (s.findType f.ty).isSome = true ∧ ann s f.ty f.sels = true
  fragsDistinct : d.frags.Pairwise (fun a b => a.name ≠ b.name)
  /-- an anonymous operation is only ever stored while there is no named one … and afterwards stays -/
  trivial : True

theorem pairwise_append_singleton {α : Type} (R : α → α → Prop) (l : List α) (a : α)
    (h : l.Pairwise R) (ha : ∀ x ∈ l, R x a) : (l ++ [a]).Pairwise R := by
  rw [List.pairwise_append]
  exact ⟨h, List.pairwise_singleton R a, fun x hx y hy => by simp at hy; subst hy; exact ha x hx⟩

theorem fromDef_inv (s : XSchema) (d : XDoc) (x : Definition) (h : DocInv s d) : DocInv s (fromDef s d x) := by
  cases x with
  | operation ty name vars dirs sels =>
    cases name with
    | some n =>
      simp only [fromDef]
      split
      · exact h
      · next hany =>
        cases hr : s.root ty with
        | none => exact h
        | some t =>
          simp only
          refine ⟨h.anon, ?_, ?_, h.frags, h.fragsDistinct, trivial⟩
          · intro o ho
            simp only [List.mem_append, List.mem_singleton] at ho
            rcases ho with ho | ho
            · exact h.named o ho
            · subst ho; exact ⟨rfl, hr, fromSels_ann s t sels⟩
          · apply pairwise_append_singleton _ _ _ h.namedDistinct
            intro y hy hne
            apply hany
            simp only [List.any_eq_true]
            exact ⟨y, hy, by simp [hne]⟩
    | none =>
      simp only [fromDef]
      split
      · exact h
      · split
        · exact h
        · cases hr : s.root ty with
          | none => exact h
          | some t =>
            simp only
            refine ⟨?_, h.named, h.namedDistinct, h.frags, h.fragsDistinct, trivial⟩
            intro o ho
            simp only [Option.some.injEq] at ho
            subst ho
            exact ⟨rfl, hr, fromSels_ann s t sels⟩
  | fragment name tc dirs sels =>
    simp only [fromDef]
    split
    · exact h
    · next hany =>
      split
      · exact h
      · next hk =>
        refine ⟨h.anon, h.named, h.namedDistinct, ?_, ?_, trivial⟩
        · intro f hf
          simp only [List.mem_append, List.mem_singleton] at hf
          rcases hf with hf | hf
          · exact h.frags f hf
          · subst hf
            refine ⟨?_, fromSels_ann s tc sels⟩
            cases hq : s.findType tc <;> simp [hq] at hk ⊢
        · apply pairwise_append_singleton _ _ _ h.fragsDistinct
          intro y hy hne
          apply hany
          simp only [List.any_eq_true]
          exact ⟨y, hy, by simp [hne]⟩
  | _ => all_goals exact h

theorem fromDoc_inv (s : XSchema) (ast : Document) : DocInv s (fromDoc s ast) := by
  unfold fromDoc
  suffices ∀ (l : List Definition) (d : XDoc), DocInv s d → DocInv s (l.foldl (fromDef s) d) from
    this ast {} ⟨by intro o ho; simp at ho, by intro o ho; simp at ho, List.Pairwise.nil,
      by intro f hf; simp at hf, List.Pairwise.nil, trivial⟩
  intro l
  induction l with
  | nil => intro d h; simpa using h
  | cons x l ih => intro d h; exact ih _ (fromDef_inv s d x h)

/-- re-adding already built named operations with fresh, pairwise distinct names appends them unchanged -/
theorem foldl_named (s : XSchema) (l : List XOp) : ∀ (d : XDoc),
    (∀ o, o ∈ l → o.name.isSome = true ∧ s.root o.opType = some o.ty ∧ ann s o.ty o.sels = true) →
    l.Pairwise (fun a b => a.name ≠ b.name) → (∀ a ∈ d.named, ∀ b ∈ l, a.name ≠ b.name) →
    (l.map XOp.toAst).foldl (fromDef s) d = { d with named := d.named ++ l } := by
  induction l with
  | nil => intro d _ _ _; simp
  | cons o l ih =>
    intro d h hp hd
    obtain ⟨hn, hr, ha⟩ := h o (List.mem_cons_self ..)
    obtain ⟨n, hn'⟩ := Option.isSome_iff_exists.mp hn
    have hany : (d.named.any fun p => p.name == some n) = false := by
      rw [Bool.eq_false_iff]
      intro hc
      simp only [List.any_eq_true, beq_iff_eq] at hc
      obtain ⟨y, hy, hyn⟩ := hc
      exact hd y hy o (List.mem_cons_self ..) (by rw [hyn, hn'])
    have hstep : fromDef s d o.toAst = { d with named := d.named ++ [o] } := by
      simp only [XOp.toAst, fromDef, hn', hany, Bool.false_eq_true, ↓reduceIte, hr, from_to s o.sels o.ty ha]
      cases o; simp_all
    simp only [List.map_cons, List.foldl_cons, hstep]
    rw [ih _ (fun q hq => h q (List.mem_cons_of_mem _ hq)) (List.pairwise_cons.mp hp).2]
    · simp
    · intro a ha' b hb
      simp only [List.mem_append, List.mem_singleton] at ha'
      rcases ha' with ha' | ha'
      · exact hd a ha' b (List.mem_cons_of_mem _ hb)
      · subst ha'; exact (List.pairwise_cons.mp hp).1 b hb

theorem foldl_frags (s : XSchema) (l : List XFrag) : ∀ (d : XDoc),
    (∀ f, f ∈ l → (s.findType f.ty).isSome = true ∧ ann s f.ty f.sels = true) →
    l.Pairwise (fun a b => a.name ≠ b.name) → (∀ a ∈ d.frags, ∀ b ∈ l, a.name ≠ b.name) →
    (l.map XFrag.toAst).foldl (fromDef s) d = { d with frags := d.frags ++ l } := by
  induction l with
  | nil => intro d _ _ _; simp
  | cons f l ih =>
    intro d h hp hd
    obtain ⟨hk, ha⟩ := h f (List.mem_cons_self ..)
    have hany : (d.frags.any fun g => g.name == f.name) = false := by
      rw [Bool.eq_false_iff]
      intro hc
      simp only [List.any_eq_true, beq_iff_eq] at hc
      obtain ⟨y, hy, hyn⟩ := hc
      exact hd y hy f (List.mem_cons_self ..) hyn
    have hn : (s.findType f.ty).isNone = false := by
      cases hq : s.findType f.ty <;> simp [hq] at hk ⊢
    have hstep : fromDef s d f.toAst = { d with frags := d.frags ++ [f] } := by
      simp only [XFrag.toAst, fromDef, hany, hn, Bool.false_eq_true, ↓reduceIte, from_to s f.sels f.ty ha]
    simp only [List.map_cons, List.foldl_cons, hstep]
    rw [ih _ (fun q hq => h q (List.mem_cons_of_mem _ hq)) (List.pairwise_cons.mp hp).2]
    · simp
    · intro a ha' b hb
      simp only [List.mem_append, List.mem_singleton] at ha'
      rcases ha' with ha' | ha'
      · exact hd a ha' b (List.mem_cons_of_mem _ hb)
      · subst ha'; exact (List.pairwise_cons.mp hp).1 b hb

theorem fromDoc_toAst_of_inv (s : XSchema) (d : XDoc) (h : DocInv s d) : fromDoc s (toAst d) = d := by
  unfold fromDoc toAst
  rw [List.foldl_append, List.foldl_append]
  have h0 : (d.anon.toList.map XOp.toAst).foldl (fromDef s) {} = { anon := d.anon } := by
    cases ha : d.anon with
    | none => simp
    | some o =>
      obtain ⟨hn, hr, hann⟩ := h.anon o ha
      simp only [Option.toList_some, List.map_cons, List.map_nil, List.foldl_cons, List.foldl_nil,
        XOp.toAst, fromDef, hn, Option.isSome_none, Bool.false_eq_true, ↓reduceIte, List.isEmpty_nil,
        Bool.not_true, hr, from_to s o.sels o.ty hann]
      cases o; simp_all
  rw [h0, foldl_named s d.named _ h.named h.namedDistinct (by intro a ha; simp at ha),
    foldl_frags s d.frags _ h.frags h.fragsDistinct (by intro a ha; simp at ha)]
  simp

end Apollo.Exec
