import ApolloModel.Proofs.ParserExactS8
import ApolloModel.Proofs.ParserSel9
/-
EXACT SOUNDNESS, part 9 (namespace Apollo.Parse.Exact): variable definitions, state-indexed — an error-free run of
`variable_definitions` consumes `( $name : Type DefaultValue? Directives? … )` where every type, default value and
directive argument is within the recursion budget of the START state (`Exact.LVarDefs (bud s)`).
-/
set_option linter.unusedSimpArgs false
namespace Apollo.Parse.Exact
open Apollo.Rowan hiding Str
open Apollo.Lex hiding Str

/-! ### `Cons` with the "stopped at the end of input" alternative -/

@[reducible] def ConsE (s s' : PState) (P : List Ast.Tok → Prop) : Prop :=
  ∃ cs, Toks s = cs ++ Toks s' ∧ NoEof cs ∧ EofEnd s' ∧ ((∃ x, TokIs (sig cs) x ∧ P x) ∨ AtEof s')

theorem _root_.Apollo.Parse.Cons.toE {s s' : PState} {P : List Ast.Tok → Prop} (h : Cons s s' P) : ConsE s s' P := by
  obtain ⟨cs, x, a, b, c, d, e⟩ := h
  exact ⟨cs, a, b, c, Or.inl ⟨x, d, e⟩⟩

theorem _root_.Apollo.Parse.Cons.seqE {s s1 s2 : PState} {P Q : List Ast.Tok → Prop} (h1 : Cons s s1 P) (h2 : ConsE s1 s2 Q) :
    ConsE s s2 (fun z => ∃ x y, z = x ++ y ∧ P x ∧ Q y) := by
  obtain ⟨c1, x, t1, n1, _, k1, p1⟩ := h1
  obtain ⟨c2, t2, n2, e2, r2⟩ := h2
  refine ⟨c1 ++ c2, by rw [t1, t2, List.append_assoc], noEof_append n1 n2, e2, ?_⟩
  rcases r2 with ⟨y, k2, p2⟩ | ha
  · exact Or.inl ⟨x ++ y, by rw [sig_append]; exact k1.append k2, x, y, rfl, p1, p2⟩
  · exact Or.inr ha

theorem ConsE.seq {s s1 s2 : PState} {P Q : List Ast.Tok → Prop} (h1 : ConsE s s1 P) (hnd : ¬ Doomed s1) (h2 : Cons s1 s2 Q) :
    ConsE s s2 (fun z => ∃ x y, z = x ++ y ∧ P x ∧ Q y) := by
  obtain ⟨c1, t1, n1, e1, r1⟩ := h1
  obtain ⟨c2, y, t2, n2, e2, k2, p2⟩ := h2
  refine ⟨c1 ++ c2, by rw [t1, t2, List.append_assoc], noEof_append n1 n2, e2, ?_⟩
  rcases r1 with ⟨x, k1, p1⟩ | ha
  · exact Or.inl ⟨x ++ y, by rw [sig_append]; exact k1.append k2, x, y, rfl, p1, p2⟩
  · exact Or.inr (atEof_rest s1 s2 c2 e1 hnd ha t2 n2)

theorem ConsE.weaken {s s' : PState} {P Q : List Ast.Tok → Prop} (h : ConsE s s' P) (hpq : ∀ x, P x → Q x) : ConsE s s' Q := by
  obtain ⟨c, a, b, d, r⟩ := h
  refine ⟨c, a, b, d, ?_⟩
  rcases r with ⟨x, e, f⟩ | ha
  · exact Or.inl ⟨x, e, hpq x f⟩
  · exact Or.inr ha

theorem atEof_toks {s s' : PState} (h : Toks s' = Toks s) (ha : AtEof s) : AtEof s' := by
  obtain ⟨e, hh, hk⟩ := ha
  exact ⟨e, by rw [h]; exact hh, hk⟩

theorem ConsE.transport {s s' s0 s1 : PState} {P : List Ast.Tok → Prop} (h : ConsE s s' P) (h0 : Toks s0 = Toks s)
    (h1 : Toks s1 = Toks s') (he : EofEnd s1) : ConsE s0 s1 P := by
  obtain ⟨c, a, b, _, r⟩ := h
  refine ⟨c, by rw [h0, h1]; exact a, b, he, ?_⟩
  rcases r with r | ha
  · exact Or.inl r
  · exact Or.inr (atEof_toks h1 ha)

/-! ### `ty` -/

/-- **`ty.rs::ty` is sound with the budget**: the consumed tokens are a type whose list nesting fits the budget -/
theorem ty_sound (n : Nat) (s s' : PState) (w : TW s) (he : EofEnd s) (h : (ty n).run s = .ok () s') (hnd : ¬ Doomed s') :
    Cons s s' (fun x => ∃ t, x = Ast.tTy t ∧ tyDepth t ≤ bud s) := by
  unfold ty at h
  obtain ⟨r, sT, hT, h3⟩ := bind_dec (tyParse n) _ s s' () h
  have aT := good_tyParse n s r sT w hT
  have hok : r = .ok ∧ sT = s' := by
    cases r with
    | ok => simp only [] at h3; rw [run_pure] at h3; injection h3 with _ h3; exact ⟨rfl, h3⟩
    | early =>
      exfalso
      simp only [] at h3; rw [run_pure] at h3; injection h3 with _ h3; subst h3
      rcases tyParse_sound n s sT _ w he hT hnd with ⟨tk, hx⟩ | ⟨hx, _⟩ <;> cases hx
    | errTok tk =>
      exfalso
      simp only [] at h3
      exact hnd (errAtToken_adv tk sT s' aT.w h3).2
    | errNone =>
      exfalso
      simp only [] at h3
      have hndT : ¬ Doomed sT := fun d => hnd ((good_err sT () s' aT.w h3).doom d)
      rcases tyParse_sound n s sT _ w he hT hndT with ⟨tk, hx⟩ | ⟨hx, _⟩ <;> cases hx
  obtain ⟨rfl, rfl⟩ := hok
  rcases tyParse_sound n s sT _ w he hT hnd with ⟨tk, hx⟩ | ⟨_, ok⟩
  · cases hx
  obtain ⟨c, t, hc, hty, hno, hd⟩ := ok.ex
  exact ⟨c, Ast.tTy t, hc, hno, ok.eof, isTy_tokIs _ _ hty, t, rfl, hd⟩

/-! ### the pieces of a variable definition -/

/-- `$ Name` -/
theorem variableNode_sound (s s' : PState) (t : Tok) (rest : List Tok) (w : TW s) (he : EofEnd s)
    (ht : Toks s = t :: rest) (hk : t.kind = .dollar) (h : variableNode.run s = .ok () s') (hnd : ¬ Doomed s') :
    Cons s s' (fun x => ∃ nm, x = [.p .dollar, .name nm]) := by
  have hni : isIgnoredKind t.kind = false := by rw [hk]; rfl
  unfold variableNode at h
  obtain ⟨s1, s2, e1, h1, o2⟩ := withNode_peeked "VARIABLE" _ s s' () t rest w ht hni h
  have ht1 : Toks s1 = t :: rest := by have := e1.toks; rw [ht] at this; simpa using this.symm
  have hnd2 : ¬ Doomed s2 := fun d => hnd (o2.doomed.mpr d)
  have he1 : EofEnd s1 := eofEnd_eat he e1 (by intro x hx; cases hx)
  have h0 : Toks s = Toks s1 := by simpa using e1.toks
  obtain ⟨_, s3, h3, h4⟩ := bind_dec (bump "DOLLAR") _ s1 s2 () h1
  obtain ⟨ign, e3, hall, _⟩ := bump_spec "DOLLAR" s1 s3 e1.w t rest ht1 h3
  have c0 : Cons s1 s3 (fun x => x = [.p .dollar]) :=
    Cons.ofEat e3 he1 (noEof_cons (by rw [hk]; decide) hall) (tokIs_punct t ign .dollar hni (by simp [astOfV, hk]) hall)
  have he3 := c0.eofEnd
  have hnd3 : ¬ Doomed s3 := fun d => hnd2 ((good_name s3 () s2 e3.w h4).doom d)
  obtain ⟨t2, rest2, ign2, hq, hk2, en, hall2⟩ := name_spec s3 s2 e3.w (eofEnd_nonempty s3 he3 hnd3) h4 hnd2
  have c1 : Cons s3 s2 (IsNameTok t2) := cons_of_name en he3 hk2 hall2
  have c := (c0.seq c1).transport h0 o2.toks (eofEnd_same _ _ c1.eofEnd o2.current o2.lx o2.errors)
  exact c.weaken (by rintro z ⟨x, y, rfl, rfl, rfl⟩; exact ⟨t2.data, rfl⟩)

/-- `= Value` (constant) -/
theorem defaultValue_sound (n : Nat) (s s' : PState) (t : Tok) (rest : List Tok) (w : TW s) (he : EofEnd s)
    (ht : Toks s = t :: rest) (hk : t.kind = .eq) (h : (defaultValue n).run s = .ok () s') (hnd : ¬ Doomed s') :
    ConsE s s' (fun x => ∃ v, x = .p .eq :: Ast.tValue v ∧ valueOk true v = true ∧ vdepth v ≤ bud s) := by
  have hni : isIgnoredKind t.kind = false := by rw [hk]; rfl
  unfold defaultValue at h
  obtain ⟨s1, s2, e1, h1, o2⟩ := withNode_peeked "DEFAULT_VALUE" _ s s' () t rest w ht hni h
  have ht1 : Toks s1 = t :: rest := by have := e1.toks; rw [ht] at this; simpa using this.symm
  have hnd2 : ¬ Doomed s2 := fun d => hnd (o2.doomed.mpr d)
  have he1 : EofEnd s1 := eofEnd_eat he e1 (by intro x hx; cases hx)
  have h0 : Toks s = Toks s1 := by simpa using e1.toks
  obtain ⟨_, s3, h3, h4⟩ := bind_dec (bump "EQ") _ s1 s2 () h1
  obtain ⟨ign, e3, hall, _⟩ := bump_spec "EQ" s1 s3 e1.w t rest ht1 h3
  have c0 : Cons s1 s3 (fun x => x = [.p .eq]) :=
    Cons.ofEat e3 he1 (noEof_cons (by rw [hk]; decide) hall) (tokIs_punct t ign .eq hni (by simp [astOfV, hk]) hall)
  have he3 := c0.eofEnd
  obtain ⟨⟨cv, hcv, hnov, hrv⟩, hev⟩ := value_sound n true false s3 s2 e3.w he3 h4 hnd2
  have hb3 : bud s3 = bud s := by rw [bud_eat e3, bud_eat e1]
  have c1 : ConsE s3 s2 (fun y => ∃ v, y = Ast.tValue v ∧ valueOk true v = true ∧ vdepth v ≤ bud s) := by
    refine ⟨cv, hcv, hnov, hev, ?_⟩
    rcases hrv with ⟨v, a, b, c⟩ | ha
    · exact Or.inl ⟨_, a, v, rfl, b, by rw [← hb3]; simpa using c⟩
    · exact Or.inr ha
  have c := (c0.seqE c1).transport h0 o2.toks (eofEnd_same _ _ hev o2.current o2.lx o2.errors)
  exact c.weaken (by rintro z ⟨x, y, rfl, rfl, v, rfl, hv, hd⟩; exact ⟨v, rfl, hv, hd⟩)

/-- `if p.peek() == Some(T![=]) { default_value }` -/
theorem optDefault_sound (n : Nat) (s s' : PState) (w : TW s) (he : EofEnd s)
    (h : (peek >>= fun k => if k == some Kind.eq then defaultValue n else pure ()).run s = .ok () s') (hnd : ¬ Doomed s') :
    ConsE s s' (fun x => ∃ d, x = Ast.tDefault d ∧ ∀ v, d = some v → valueOk true v = true ∧ vdepth v ≤ bud s) := by
  obtain ⟨sP, o, p, hor⟩ := ifPeek_dec .eq _ _ s s' () w h
  have heP := p.eofEnd he
  rcases hor with ⟨hk, h2⟩ | ⟨_, h2⟩
  · obtain ⟨t, rfl, hkt⟩ : ∃ t, o = some t ∧ t.kind = .eq := by
      cases o with
      | none => simp at hk
      | some t => exact ⟨t, rfl, by simpa using hk⟩
    have c := defaultValue_sound n sP s' t _ p.w heP p.head_cons hkt h2 hnd
    have c' : ConsE s s' _ := c.transport p.toks.symm rfl (by obtain ⟨_, _, _, e, _⟩ := c; exact e)
    exact c'.weaken (by
      rintro x ⟨v, rfl, hv, hd⟩
      refine ⟨some v, rfl, ?_⟩
      intro v' hv'
      injection hv' with hv'
      subst hv'
      exact ⟨hv, by rw [← bud_peek p]; exact hd⟩)
  · rw [run_pure] at h2
    injection h2 with _ h2
    subst h2
    exact ((Cons.nil p.toks heP).weaken (by rintro x rfl; exact ⟨none, rfl, by intro v hv; cases hv⟩)).toE

/-- `if p.peek() == Some(T![@]) { directives(Constness::Const) }` -/
theorem optDirsEnd_sound (n : Nat) (s s' : PState) (w : TW s) (he : EofEnd s)
    (h : (optDirsEnd n).run s = .ok () s') (hnd : ¬ Doomed s') :
    Cons s s' (fun x => ∃ ds, x = Ast.tDirectives ds ∧ dirsFit true (bud s) ds) := by
  unfold optDirsEnd at h
  obtain ⟨sP, o, p, hor⟩ := ifPeek_dec .at _ _ s s' () w h
  have heP := p.eofEnd he
  rcases hor with ⟨_, h2⟩ | ⟨_, h2⟩
  · obtain ⟨cs, ds, a, b, c, d, hf⟩ := directives_sound n true sP s' p.w heP h2 hnd
    exact ⟨cs, _, by rw [← p.toks]; exact a, b, c, d, ds, rfl, by rw [← bud_peek p]; exact hf⟩
  · rw [run_pure] at h2
    injection h2 with _ h2
    subst h2
    exact (Cons.nil p.toks heP).weaken (by rintro x rfl; exact ⟨[], rfl, by intro d hd; cases hd⟩)

theorem good_optDirsEnd (n : Nat) : Good (optDirsEnd n) :=
  good_ifPeek .at _ (good_directives n true)

theorem good_defaultValue (n : Nat) : Good (defaultValue n) :=
  good_withNode _ _ (good_bind _ _ (good_bump _) (fun _ => good_value n true false))

theorem good_ivdAfterTy (n : Nat) : Good (ivdAfterTy n) :=
  good_bind _ _ good_peek (fun _ => good_ite _ _ _ (good_bind _ _ (good_defaultValue n) (fun _ => good_optDirsEnd n)) (good_optDirsEnd n))

theorem good_ivdType (n : Nat) : Good (ivdType n) :=
  good_bind _ _ good_peek (fun _ => good_ite _ _ _ (good_bind _ _ (good_ty n) (fun _ => good_ivdAfterTy n)) good_err)

theorem good_ivdColon (n : Nat) : Good (ivdColon n) :=
  good_bind _ _ good_peek (fun _ => good_ite _ _ _ (good_bind _ _ (good_bump _) (fun _ => good_ivdType n)) good_err)

theorem good_variableDefinition (n : Nat) : Good (variableDefinition n) := by
  rw [variableDefinition_eq]
  exact good_withNode _ _ (good_bind _ _ good_variableNode (fun _ => good_ivdColon n))

def QVar (B : Nat) (x : List Ast.Tok) : Prop := ∃ v : Ast.VarDef, x = Ast.tVarDef v ∧ varFit B v

/-- `Type DefaultValue? Directives?` behind the colon -/
theorem ivdType_sound (n : Nat) (s s' : PState) (w : TW s) (he : EofEnd s)
    (h : (ivdType n).run s = .ok () s') (hnd : ¬ Doomed s') :
    ConsE s s' (fun x => ∃ t d ds, x = Ast.tTy t ++ Ast.tDefault d ++ Ast.tDirectives ds ∧ tyDepth t ≤ bud s ∧
      (∀ v, d = some v → valueOk true v = true ∧ vdepth v ≤ bud s) ∧ dirsFit true (bud s) ds) := by
  unfold ivdType at h
  obtain ⟨ko, sP, hp, h2⟩ := bind_dec peek _ s s' () h
  obtain ⟨o, p, hko⟩ := peek_obs s sP ko w hp
  subst hko
  have heP : EofEnd sP := p.eofEnd he
  by_cases hc : (o.map (·.kind) == some Kind.name || o.map (·.kind) == some Kind.lBracket) = true
  · simp only [hc, if_true] at h2
    obtain ⟨_, s6, h6, h7⟩ := bind_dec (ty n) _ sP s' () h2
    have a6 := good_ty n sP () s6 p.w h6
    have hnd6 : ¬ Doomed s6 := fun d => hnd ((good_ivdAfterTy n s6 () s' a6.w h7).doom d)
    have c2 := ty_sound n sP s6 p.w heP h6 hnd6
    unfold ivdAfterTy optKind at h7
    obtain ⟨s7, h8, h9⟩ := optThen_dec .eq (defaultValue n) (optDirsEnd n) s6 s' h7
    have a7 := good_opt .eq _ (good_defaultValue n) s6 () s7 a6.w h8
    have hnd7 : ¬ Doomed s7 := fun d => hnd ((good_optDirsEnd n s7 () s' a7.w h9).doom d)
    have c3 := optDefault_sound n s6 s7 a6.w c2.eofEnd h8 hnd7
    have he7 : EofEnd s7 := by obtain ⟨_, _, _, e, _⟩ := c3; exact e
    have c4 := optDirsEnd_sound n s7 s' a7.w he7 h9 hnd
    have c := c2.seqE (c3.seq hnd7 c4)
    have c' : ConsE s s' _ := c.transport p.toks.symm rfl c4.eofEnd
    have hb6 : bud s6 = bud s := by rw [bud_adv a6, bud_peek p]
    have hb7 : bud s7 = bud s := by rw [bud_adv a7, hb6]
    exact c'.weaken (by
      rintro z ⟨x, y, rfl, ⟨t, rfl, ht⟩, y1, y2, rfl, ⟨d, rfl, hd⟩, ds, rfl, hds⟩
      refine ⟨t, d, ds, by simp [List.append_assoc], by rw [← bud_peek p]; exact ht, ?_, by rw [← hb7]; exact hds⟩
      intro v hv
      rw [← hb6]
      exact hd v hv)
  · exfalso
    simp only [hc, Bool.false_eq_true, if_false] at h2
    exact hnd ((err_adv sP s' p.w h2).2 (eofEnd_nonempty sP heP (fun d => hnd ((good_err sP () s' p.w h2).doom d))))

/-- **one variable definition** `$ Name : Type DefaultValue? Directives?`, every part within the budget -/
theorem variableDefinition_sound (n : Nat) (B : Nat) : ItemSpecB B AtEof .dollar (variableDefinition n) (QVar B) := by
  intro s s' t rest w he hB ht hk h hnd
  have hni : isIgnoredKind t.kind = false := by rw [hk]; rfl
  rw [variableDefinition_eq] at h
  obtain ⟨s1, s2, e1, h1, o2⟩ := withNode_peeked "VARIABLE_DEFINITION" _ s s' () t rest w ht hni h
  have ht1 : Toks s1 = t :: rest := by have := e1.toks; rw [ht] at this; simpa using this.symm
  have hnd2 : ¬ Doomed s2 := fun d => hnd (o2.doomed.mpr d)
  have he1 : EofEnd s1 := eofEnd_eat he e1 (by intro x hx; cases hx)
  have h0 : Toks s = Toks s1 := by simpa using e1.toks
  obtain ⟨_, s3, h3, h4⟩ := bind_dec variableNode _ s1 s2 () h1
  have a3 := good_variableNode s1 () s3 e1.w h3
  have hnd3 : ¬ Doomed s3 := fun d => hnd2 ((good_ivdColon n s3 () s2 a3.w h4).doom d)
  have c0 := variableNode_sound s1 s3 t rest e1.w he1 ht1 hk h3 hnd3
  have he3 := c0.eofEnd
  unfold ivdColon at h4
  obtain ⟨sP, o, p, hor⟩ := ifPeek_dec .colon _ _ s3 s2 () a3.w h4
  have heP := p.eofEnd he3
  rcases hor with ⟨hkc, h5⟩ | ⟨_, h5⟩
  · obtain ⟨tc, rfl, hkc2⟩ : ∃ tc, o = some tc ∧ tc.kind = .colon := by
      cases o with
      | none => simp at hkc
      | some tc => exact ⟨tc, rfl, by simpa using hkc⟩
    have hnic : isIgnoredKind tc.kind = false := by rw [hkc2]; rfl
    obtain ⟨_, s5, h6, h7⟩ := bind_dec (bump "COLON") _ sP s2 () h5
    obtain ⟨ign2, ec, hall2, _⟩ := bump_spec "COLON" sP s5 p.w tc _ p.head_cons h6
    have c1 : Cons sP s5 (fun x => x = [.p .colon]) :=
      Cons.ofEat ec heP (noEof_cons (by rw [hkc2]; decide) hall2) (tokIs_punct tc ign2 .colon hnic (by simp [astOfV, hkc2]) hall2)
    have c1' : Cons s3 s5 _ := c1.transport p.toks.symm rfl c1.eofEnd
    have c2 := ivdType_sound n s5 s2 ec.w c1.eofEnd h7 hnd2
    have he2 : EofEnd s2 := by obtain ⟨_, _, _, e, _⟩ := c2; exact e
    have c := ((c0.seq c1').seqE c2).transport h0 o2.toks (eofEnd_same _ _ he2 o2.current o2.lx o2.errors)
    have hb5 : bud s5 = B := by rw [bud_eat ec, bud_peek p, bud_adv a3, bud_eat e1, hB]
    exact c.weaken (by
      rintro z ⟨xy, y, rfl, ⟨x1, x2, rfl, ⟨nm, rfl⟩, rfl⟩, t, d, ds, rfl, htd, hd, hds⟩
      rw [hb5] at htd hd hds
      exact ⟨⟨nm, t, d, ds⟩, by simp [Ast.tVarDef, List.append_assoc], htd, hd, hds⟩)
  · exfalso
    exact hnd2 ((err_adv sP s2 p.w h5).2 (eofEnd_nonempty sP heP (fun d => hnd2 ((good_err sP () s2 p.w h5).doom d))))

end Apollo.Parse.Exact
